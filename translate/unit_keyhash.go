package main

import (
	"fmt"
	"go/ast"
)

// KeyHash: local.NewKeyFromString must hash the whole key string. The store models identify a key with its key string
// (assumption: SHA-256 is collision free on the strings that occur); that identification is only as good as the
// function that turns the string into the Key, so its body is read off the source: exactly
// `return sha256.Sum256([]byte(s))` for the parameter s. Anything else is a translator error (a broken obligation).
func init() {
	units = append(units, unit{
		module: "KeyHash",
		files:  []string{"pkg/blobstore/local/key.go"},
		run: func() (string, []string, error) {
			f, _, err := parseFile("pkg/blobstore/local/key.go")
			if err != nil {
				return "", nil, err
			}
			fd := findFunc(f, "", "NewKeyFromString")
			if fd == nil || fd.Type.Params == nil || len(fd.Type.Params.List) != 1 || len(fd.Type.Params.List[0].Names) != 1 {
				return "", nil, fmt.Errorf("NewKeyFromString(s string) not found")
			}
			param := fd.Type.Params.List[0].Names[0].Name
			bad := fmt.Errorf("NewKeyFromString: body is not `return sha256.Sum256([]byte(%s))`", param)
			if len(fd.Body.List) != 1 {
				return "", nil, bad
			}
			ret, ok := fd.Body.List[0].(*ast.ReturnStmt)
			if !ok || len(ret.Results) != 1 {
				return "", nil, bad
			}
			call, ok := ret.Results[0].(*ast.CallExpr)
			if !ok || len(call.Args) != 1 {
				return "", nil, bad
			}
			sel, ok := call.Fun.(*ast.SelectorExpr)
			if !ok || sel.Sel.Name != "Sum256" {
				return "", nil, bad
			}
			if pkg, ok := sel.X.(*ast.Ident); !ok || pkg.Name != "sha256" {
				return "", nil, bad
			}
			conv, ok := call.Args[0].(*ast.CallExpr)
			if !ok || len(conv.Args) != 1 {
				return "", nil, bad
			}
			at, ok := conv.Fun.(*ast.ArrayType)
			if !ok || at.Len != nil {
				return "", nil, bad
			}
			if el, ok := at.Elt.(*ast.Ident); !ok || el.Name != "byte" {
				return "", nil, bad
			}
			if arg, ok := conv.Args[0].(*ast.Ident); !ok || arg.Name != param {
				return "", nil, bad
			}
			text := prelude + "namespace KeyHash\n\n" +
				"/-- `NewKeyFromString s` is `sha256.Sum256([]byte(s))`: the digest of all of `s`. The function is abstract in the\nmodels; what is recorded here is which bytes it is applied to: the bytes of `s` from `keyFrom` up to `keyTo s`. -/\n" +
				"def keyFrom : Nat := 0\ndef keyTo (s : String) : Nat := s.utf8ByteSize\n\nend KeyHash\nend BB.Gen\n"
			return text, []string{"NewKeyFromString"}, nil
		},
	})
}
