package main

// Units register themselves from unit_*.go (one file per generated module).
var units []unit

const prelude = "import BB.GoPrelude\n\nset_option linter.unusedVariables false\n\nnamespace BB.Gen\nopen BB\n\n"
