package main

import (
	"fmt"
	"strings"
)

const prelude = "import BB.GoPrelude\n\nset_option linter.unusedVariables false\n\nnamespace BB.Gen\nopen BB\n\n"

var units = []unit{
	{
		module: "Location",
		files:  []string{"pkg/blobstore/local/location.go"},
		run: func() (string, []string, error) {
			f, _, err := parseFile("pkg/blobstore/local/location.go")
			if err != nil {
				return "", nil, err
			}
			c := newCtx(f)
			st, err := c.structure(f, "Location", "Location")
			if err != nil {
				return "", nil, err
			}
			fd := findFunc(f, "Location", "IsOlder")
			if fd == nil {
				return "", nil, fmt.Errorf("Location.IsOlder not found")
			}
			fn, err := c.function(fd, "Location.isOlder")
			if err != nil {
				return "", nil, err
			}
			return prelude + st + "\n" + fn + "\nend BB.Gen\n", []string{"Location.IsOlder"}, nil
		},
	},
	{
		module: "GrowthPolicy",
		files:  []string{"pkg/blobstore/local/block_list_growth_policy.go"},
		run: func() (string, []string, error) {
			f, _, err := parseFile("pkg/blobstore/local/block_list_growth_policy.go")
			if err != nil {
				return "", nil, err
			}
			c := newCtx(f)
			var b strings.Builder
			b.WriteString(prelude)
			var names []string
			for _, s := range []struct{ goName, lean string }{
				{"immutableBlockListGrowthPolicy", "ImmutablePolicy"},
				{"mutableBlockListGrowthPolicy", "MutablePolicy"},
			} {
				st, err := c.structure(f, s.goName, s.lean)
				if err != nil {
					return "", nil, err
				}
				b.WriteString(st + "\n")
				for _, m := range []string{"ShouldGrowNewBlocks", "ShouldGrowCurrentBlocks"} {
					fd := findFunc(f, s.goName, m)
					if fd == nil {
						return "", nil, fmt.Errorf("%s.%s not found", s.goName, m)
					}
					fn, err := c.function(fd, s.lean+"."+lowerFirst(m))
					if err != nil {
						return "", nil, err
					}
					b.WriteString(fn + "\n")
					names = append(names, s.goName+"."+m)
				}
			}
			b.WriteString("end BB.Gen\n")
			return b.String(), names, nil
		},
	},
	{
		module: "Rendezvous",
		files:  []string{"pkg/blobstore/sharding/rendezvous_shard_selector.go"},
		run: func() (string, []string, error) {
			f, _, err := parseFile("pkg/blobstore/sharding/rendezvous_shard_selector.go")
			if err != nil {
				return "", nil, err
			}
			c := newCtx(f)
			var b strings.Builder
			b.WriteString(prelude + "namespace Rendezvous\n\n")
			t, err := c.table(f, "lut")
			if err != nil {
				return "", nil, err
			}
			b.WriteString(t + "\n")
			var names []string
			for _, n := range []string{"Log2Fixed", "score", "splitmix64"} {
				fd := findFunc(f, "", n)
				if fd == nil {
					return "", nil, fmt.Errorf("%s not found", n)
				}
				fn, err := c.function(fd, lowerFirst(n))
				if err != nil {
					return "", nil, err
				}
				b.WriteString(fn + "\n")
				names = append(names, n)
			}
			b.WriteString("end Rendezvous\nend BB.Gen\n")
			return b.String(), names, nil
		},
	},
}
