package main

import (
	"fmt"
	"go/ast"
	"strings"
)

func init() {
	units = append(units, unit{
		module: "Rendezvous",
		files:  []string{"pkg/blobstore/sharding/rendezvous_shard_selector.go"},
		run: func() (string, []string, error) {
			f, _, err := parseFile("pkg/blobstore/sharding/rendezvous_shard_selector.go")
			if err != nil {
				return "", nil, err
			}
			c := newCtx(f)
			var b strings.Builder
			b.WriteString(prelude + "namespace Rendezvous\n\n")
			t, err := c.table(f, "lut")
			if err != nil {
				return "", nil, err
			}
			b.WriteString(t + "\n")
			var names []string
			for _, n := range []string{"Log2Fixed", "score", "splitmix64"} {
				fd := findFunc(f, "", n)
				if fd == nil {
					return "", nil, fmt.Errorf("%s not found", n)
				}
				fn, err := c.function(fd, lowerFirst(n))
				if err != nil {
					return "", nil, err
				}
				b.WriteString(fn + "\n")
				names = append(names, n)
			}
			// the loop body of GetShard and the shard record the constructor stores
			extra, extraNames, err := rendezvousLoopAndCtor(c, f)
			if err != nil {
				return "", nil, err
			}
			b.WriteString(extra)
			names = append(names, extraNames...)
			b.WriteString("end Rendezvous\nend BB.Gen\n")
			return b.String(), names, nil
		},
	})
}

func synthFunc(name string, params [][2]string, result string, body []ast.Stmt) *ast.FuncDecl {
	fl := &ast.FieldList{}
	for _, p := range params {
		fl.List = append(fl.List, &ast.Field{Names: []*ast.Ident{ast.NewIdent(p[0])}, Type: ast.NewIdent(p[1])})
	}
	return &ast.FuncDecl{
		Name: ast.NewIdent(name),
		Type: &ast.FuncType{Params: fl, Results: &ast.FieldList{List: []*ast.Field{{Type: ast.NewIdent(result)}}}},
		Body: &ast.BlockStmt{List: body},
	}
}

// replaceSelector rewrites every occurrence of <base>.<field> into the identifier <to>.
func replaceSelector(e ast.Expr, base, field, to string) ast.Expr {
	switch x := e.(type) {
	case *ast.SelectorExpr:
		if id, ok := x.X.(*ast.Ident); ok && id.Name == base && x.Sel.Name == field {
			return ast.NewIdent(to)
		}
		return &ast.SelectorExpr{X: replaceSelector(x.X, base, field, to), Sel: x.Sel}
	case *ast.BinaryExpr:
		return &ast.BinaryExpr{X: replaceSelector(x.X, base, field, to), Op: x.Op, Y: replaceSelector(x.Y, base, field, to)}
	case *ast.ParenExpr:
		return &ast.ParenExpr{X: replaceSelector(x.X, base, field, to)}
	case *ast.UnaryExpr:
		return &ast.UnaryExpr{Op: x.Op, X: replaceSelector(x.X, base, field, to)}
	case *ast.CallExpr:
		args := make([]ast.Expr, len(x.Args))
		for i, a := range x.Args {
			args[i] = replaceSelector(a, base, field, to)
		}
		return &ast.CallExpr{Fun: x.Fun, Args: args}
	}
	return e
}

// rendezvousLoopAndCtor translates (a) the body of the range loop of
// rendezvousShardSelector.GetShard into `shardScore` (the value compared) and
// `takes` (the update condition), and (b) the three fields of the
// rendezvousShard literal that NewRendezvousShardSelector appends, as
// functions of the loop variables (index, shard.Weight, hash). Anything the
// expression translator does not know (another variable, a call) is an error,
// which re-opens the obligations resting on this module.
func rendezvousLoopAndCtor(c *ctx, f *ast.File) (string, []string, error) {
	var b strings.Builder
	st, err := c.structure(f, "rendezvousShard", "RShard")
	if err != nil {
		return "", nil, err
	}
	b.WriteString(st + "\n")

	// ---- GetShard
	gs := findFunc(f, "rendezvousShardSelector", "GetShard")
	if gs == nil || len(gs.Type.Params.List) != 1 || len(gs.Type.Params.List[0].Names) != 1 {
		return "", nil, fmt.Errorf("rendezvousShardSelector.GetShard(hash) not found")
	}
	hashParam := gs.Type.Params.List[0].Names[0].Name
	var loop *ast.RangeStmt
	for _, s := range gs.Body.List {
		if r, ok := s.(*ast.RangeStmt); ok {
			if loop != nil {
				return "", nil, fmt.Errorf("GetShard: more than one loop")
			}
			loop = r
		}
	}
	if loop == nil {
		return "", nil, fmt.Errorf("GetShard: range loop not found")
	}
	val, ok := loop.Value.(*ast.Ident)
	if !ok {
		return "", nil, fmt.Errorf("GetShard: loop value variable expected")
	}
	n := len(loop.Body.List)
	if n < 2 {
		return "", nil, fmt.Errorf("GetShard: unexpected loop body")
	}
	ifs, ok := loop.Body.List[n-1].(*ast.IfStmt)
	if !ok || ifs.Init != nil || ifs.Else != nil {
		return "", nil, fmt.Errorf("GetShard: loop body must end in a plain if")
	}
	cond, ok := ifs.Cond.(*ast.BinaryExpr)
	if !ok {
		return "", nil, fmt.Errorf("GetShard: comparison expected")
	}
	cur, ok1 := cond.X.(*ast.Ident)
	best, ok2 := cond.Y.(*ast.Ident)
	if !ok1 || !ok2 {
		return "", nil, fmt.Errorf("GetShard: comparison of two variables expected")
	}
	body := append(append([]ast.Stmt{}, loop.Body.List[:n-1]...), &ast.ReturnStmt{Results: []ast.Expr{ast.NewIdent(cur.Name)}})
	fn, err := c.function(synthFunc("shardScore", [][2]string{{val.Name, "rendezvousShard"}, {hashParam, "uint64"}}, "uint64", body), "shardScore")
	if err != nil {
		return "", nil, fmt.Errorf("GetShard loop body: %w", err)
	}
	b.WriteString(fn + "\n")
	fn, err = c.function(synthFunc("takes", [][2]string{{cur.Name, "uint64"}, {best.Name, "uint64"}}, "bool",
		[]ast.Stmt{&ast.ReturnStmt{Results: []ast.Expr{cond}}}), "takes")
	if err != nil {
		return "", nil, fmt.Errorf("GetShard update condition: %w", err)
	}
	b.WriteString(fn + "\n")

	// ---- the record stored by the constructor
	ctor := findFunc(f, "", "NewRendezvousShardSelector")
	if ctor == nil {
		return "", nil, fmt.Errorf("NewRendezvousShardSelector not found")
	}
	var lits []*ast.CompositeLit
	var loops []*ast.RangeStmt
	ast.Inspect(ctor.Body, func(nd ast.Node) bool {
		switch x := nd.(type) {
		case *ast.CompositeLit:
			if id, ok := x.Type.(*ast.Ident); ok && id.Name == "rendezvousShard" {
				lits = append(lits, x)
			}
		case *ast.RangeStmt:
			loops = append(loops, x)
		}
		return true
	})
	if len(lits) != 1 || len(loops) != 1 {
		return "", nil, fmt.Errorf("NewRendezvousShardSelector: expected one loop and one rendezvousShard literal, found %d and %d", len(loops), len(lits))
	}
	idx, ok1 := loops[0].Key.(*ast.Ident)
	sh, ok2 := loops[0].Value.(*ast.Ident)
	if !ok1 || !ok2 {
		return "", nil, fmt.Errorf("NewRendezvousShardSelector: loop variables expected")
	}
	fieldType := map[string]string{"weight": "uint32", "index": "int", "hash": "uint64"}
	seen := map[string]bool{}
	for _, el := range lits[0].Elts {
		kv, ok := el.(*ast.KeyValueExpr)
		if !ok {
			return "", nil, fmt.Errorf("rendezvousShard literal: keyed fields expected")
		}
		k, ok := kv.Key.(*ast.Ident)
		if !ok || fieldType[k.Name] == "" {
			return "", nil, fmt.Errorf("rendezvousShard literal: unknown field")
		}
		seen[k.Name] = true
		e := replaceSelector(kv.Value, sh.Name, "Weight", "shardWeight")
		name := "ctor" + strings.ToUpper(k.Name[:1]) + k.Name[1:]
		fn, err := c.function(synthFunc(name, [][2]string{{idx.Name, "int"}, {"shardWeight", "uint32"}, {"hash", "uint64"}}, fieldType[k.Name],
			[]ast.Stmt{&ast.ReturnStmt{Results: []ast.Expr{e}}}), name)
		if err != nil {
			return "", nil, fmt.Errorf("NewRendezvousShardSelector, field %s: %w", k.Name, err)
		}
		b.WriteString(fn + "\n")
	}
	if len(seen) != 3 {
		return "", nil, fmt.Errorf("rendezvousShard literal: not all fields set")
	}
	return b.String(), []string{"rendezvousShardSelector.GetShard(loop body)", "NewRendezvousShardSelector(stored record)"}, nil
}
