package main

import (
	"fmt"
	"strings"
)

func init() {
	units = append(units, unit{
		module: "Rendezvous",
		files:  []string{"pkg/blobstore/sharding/rendezvous_shard_selector.go"},
		run: func() (string, []string, error) {
			f, _, err := parseFile("pkg/blobstore/sharding/rendezvous_shard_selector.go")
			if err != nil {
				return "", nil, err
			}
			c := newCtx(f)
			var b strings.Builder
			b.WriteString(prelude + "namespace Rendezvous\n\n")
			t, err := c.table(f, "lut")
			if err != nil {
				return "", nil, err
			}
			b.WriteString(t + "\n")
			var names []string
			for _, n := range []string{"Log2Fixed", "score", "splitmix64"} {
				fd := findFunc(f, "", n)
				if fd == nil {
					return "", nil, fmt.Errorf("%s not found", n)
				}
				fn, err := c.function(fd, lowerFirst(n))
				if err != nil {
					return "", nil, err
				}
				b.WriteString(fn + "\n")
				names = append(names, n)
			}
			b.WriteString("end Rendezvous\nend BB.Gen\n")
			return b.String(), names, nil
		},
	})
}
