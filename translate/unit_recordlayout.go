package main

import (
	"fmt"
	"go/ast"
	"go/token"
	"strings"
)

// RecordLayout: the on-disk layout of blockDeviceBackedLocationRecordArray, read off the slice
// expressions and constants of its Put/Get/computeChecksumForRecord (sizes are constant expressions
// over sha256.Size = 32).
func init() {
	units = append(units, unit{
		module: "RecordLayout",
		files:  []string{"pkg/blobstore/local/block_device_backed_location_record_array.go"},
		run: func() (string, []string, error) {
			f, _, err := parseFile("pkg/blobstore/local/block_device_backed_location_record_array.go")
			if err != nil {
				return "", nil, err
			}
			c := newCtx(f)
			// sha256.Size
			c.consts["sha256Size"] = &ast.BasicLit{Kind: token.INT, Value: "32"}
			var evalErr error
			eval := func(e ast.Expr) uint64 {
				var walk func(e ast.Expr) ast.Expr
				walk = func(e ast.Expr) ast.Expr {
					switch x := e.(type) {
					case *ast.SelectorExpr:
						if p, ok := x.X.(*ast.Ident); ok && p.Name == "sha256" && x.Sel.Name == "Size" {
							return &ast.Ident{Name: "sha256Size"}
						}
					case *ast.BinaryExpr:
						return &ast.BinaryExpr{X: walk(x.X), Op: x.Op, Y: walk(x.Y)}
					case *ast.ParenExpr:
						return walk(x.X)
					}
					return e
				}
				v, ok := c.constInt(walk(e))
				if !ok && evalErr == nil {
					evalErr = fmt.Errorf("non-constant layout expression")
				}
				return v
			}
			size, ok := constants(f)["BlockDeviceBackedLocationRecordSize"]
			if !ok {
				return "", nil, fmt.Errorf("BlockDeviceBackedLocationRecordSize not found")
			}
			total := eval(size)
			// checksum loop bounds and multiplier
			cs := findFunc(f, "", "computeChecksumForRecord")
			if cs == nil || len(cs.Body.List) != 2 {
				return "", nil, fmt.Errorf("computeChecksumForRecord: unexpected shape")
			}
			loop, ok := cs.Body.List[0].(*ast.ForStmt)
			if !ok {
				return "", nil, fmt.Errorf("computeChecksumForRecord: no for loop")
			}
			init, ok1 := loop.Init.(*ast.AssignStmt)
			cond, ok2 := loop.Cond.(*ast.BinaryExpr)
			if !ok1 || !ok2 || cond.Op != token.LSS || len(loop.Body.List) != 2 {
				return "", nil, fmt.Errorf("computeChecksumForRecord: unexpected loop")
			}
			lo, hi := eval(init.Rhs[0]), eval(cond.Y)
			x1, okx := loop.Body.List[0].(*ast.AssignStmt)
			x2, okm := loop.Body.List[1].(*ast.AssignStmt)
			if !okx || !okm || x1.Tok != token.XOR_ASSIGN || x2.Tok != token.MUL_ASSIGN {
				return "", nil, fmt.Errorf("computeChecksumForRecord: body is not `h ^= ..; h *= ..`")
			}
			prime := eval(x2.Rhs[0])
			// field offsets: the slice expressions record[OFF:] used by Put, in order of appearance
			put := findFunc(f, "blockDeviceBackedLocationRecordArray", "Put")
			if put == nil {
				return "", nil, fmt.Errorf("Put not found")
			}
			var offs []uint64
			ast.Inspect(put, func(n ast.Node) bool {
				if se, ok := n.(*ast.SliceExpr); ok {
					if id, ok := se.X.(*ast.Ident); ok && id.Name == "record" && se.High == nil {
						if se.Low == nil {
							offs = append(offs, 0)
						} else {
							offs = append(offs, eval(se.Low))
						}
					}
				}
				return true
			})
			if evalErr != nil {
				return "", nil, evalErr
			}
			// expected order in Put: epoch(0) blocksFromLast key attempt offset size checksum, then record[:] of WriteAt
			if len(offs) < 7 {
				return "", nil, fmt.Errorf("Put: expected 7 field offsets, found %v", offs)
			}
			var b strings.Builder
			b.WriteString(prelude + "namespace RecordLayout\n\n")
			fmt.Fprintf(&b, "def recordSize : Nat := %d\n", total)
			names := []string{"offEpoch", "offBlocksFromLast", "offKey", "offAttempt", "offOffset", "offSize", "offChecksum"}
			for i, n := range names {
				fmt.Fprintf(&b, "def %s : Nat := %d\n", n, offs[i])
			}
			fmt.Fprintf(&b, "def checksumFrom : Nat := %d\ndef checksumTo : Nat := %d\n", lo, hi)
			fmt.Fprintf(&b, "def fnvPrime : UInt64 := %d\n\n", prime)
			b.WriteString("/-- One step of `computeChecksumForRecord`: `h ^= uint64(byte); h *= prime`. -/\n")
			b.WriteString("def fnvStep (h : UInt64) (byte : UInt8) : UInt64 := (h ^^^ byte.toUInt64) * fnvPrime\n\n")
			b.WriteString("end RecordLayout\nend BB.Gen\n")
			return b.String(), []string{"BlockDeviceBackedLocationRecordSize", "computeChecksumForRecord", "blockDeviceBackedLocationRecordArray.Put"}, nil
		},
	})
}
