package main

// Unit "Digest": the constant tables of pkg/digest on which the C20 model
// rests, re-read from the working tree on every run:
//
//   * SupportedDigestFunctions (enum value, lower-case REv2 name),
//   * the switch of getBareFunction (which bareFunction literal an enum value
//     or - for UNKNOWN - a hash string length selects) together with the
//     enumValue / hashBytesSize fields of those literals,
//   * shortestSupportedHashStringSize,
//   * the threshold above which a digest function gets an explicit ByteStream
//     path midfix, the "blobs" / "compressed-blobs/" midfixes,
//   * whether GetByteStreamReadPath/WritePath join their elements with
//     path.Join (which cleans "." and "..") or plainly (formatterCleans),
//   * reservedInstanceNameKeywords,
//   * the REv2 compressor enumeration (from the remote-apis module version
//     pinned by /repo/go.mod, the same package the code ranges over).
//
// Anything that does not have the expected shape is a translation failure
// (broken tie), never a guess.

import (
	"crypto/md5"
	"crypto/sha1"
	"crypto/sha256"
	"crypto/sha512"
	"fmt"
	"go/ast"
	"go/token"
	"sort"
	"strconv"
	"strings"

	remoteexecution "github.com/bazelbuild/remote-apis/build/bazel/remote/execution/v2"
	"github.com/buildbarn/go-sha256tree"
)

var digestPkgConsts = map[string]uint64{
	"md5.Size":        md5.Size,
	"sha1.Size":       sha1.Size,
	"sha256.Size":     sha256.Size,
	"sha512.Size384":  sha512.Size384,
	"sha512.Size":     sha512.Size,
	"sha256tree.Size": sha256tree.Size,
}

func digestConstInt(e ast.Expr) (uint64, error) {
	switch x := e.(type) {
	case *ast.BasicLit:
		if x.Kind == token.INT {
			v, err := strconv.ParseUint(x.Value, 0, 64)
			return v, err
		}
	case *ast.ParenExpr:
		return digestConstInt(x.X)
	case *ast.SelectorExpr:
		if id, ok := x.X.(*ast.Ident); ok {
			if v, ok := digestPkgConsts[id.Name+"."+x.Sel.Name]; ok {
				return v, nil
			}
			return 0, fmt.Errorf("unknown constant %s.%s", id.Name, x.Sel.Name)
		}
	case *ast.BinaryExpr:
		a, err := digestConstInt(x.X)
		if err != nil {
			return 0, err
		}
		b, err := digestConstInt(x.Y)
		if err != nil {
			return 0, err
		}
		switch x.Op {
		case token.MUL:
			return a * b, nil
		case token.ADD:
			return a + b, nil
		}
	}
	return 0, fmt.Errorf("unsupported constant expression %T", e)
}

// digestEnum resolves remoteexecution.DigestFunction_X to its value.
func digestEnum(e ast.Expr) (int, string, error) {
	sel, ok := e.(*ast.SelectorExpr)
	if !ok {
		return 0, "", fmt.Errorf("expected remoteexecution.DigestFunction_X, got %T", e)
	}
	id, ok := sel.X.(*ast.Ident)
	if !ok || id.Name != "remoteexecution" || !strings.HasPrefix(sel.Sel.Name, "DigestFunction_") {
		return 0, "", fmt.Errorf("expected remoteexecution.DigestFunction_X")
	}
	name := strings.TrimPrefix(sel.Sel.Name, "DigestFunction_")
	v, ok := remoteexecution.DigestFunction_Value_value[name]
	if !ok {
		return 0, "", fmt.Errorf("unknown digest function %s", name)
	}
	return int(v), name, nil
}

func leanChars(s string) string {
	if s == "" {
		return "[]"
	}
	parts := make([]string, 0, len(s))
	for i := 0; i < len(s); i++ {
		c := s[i]
		if c < 0x20 || c > 0x7e || c == '\'' || c == '\\' {
			parts = append(parts, fmt.Sprintf("Char.ofNat %d", c))
		} else {
			parts = append(parts, "'"+string(c)+"'")
		}
	}
	return "[" + strings.Join(parts, ", ") + "]"
}

func findVar(f *ast.File, name string) ast.Expr {
	for _, d := range f.Decls {
		gd, ok := d.(*ast.GenDecl)
		if !ok || (gd.Tok != token.VAR && gd.Tok != token.CONST) {
			continue
		}
		for _, s := range gd.Specs {
			vs := s.(*ast.ValueSpec)
			for i, n := range vs.Names {
				if n.Name == name && i < len(vs.Values) {
					return vs.Values[i]
				}
			}
		}
	}
	return nil
}

type bareFn struct {
	enum  int
	bytes uint64
}

func init() {
	files := []string{"pkg/digest/bare_function.go", "pkg/digest/digest.go", "pkg/digest/instance_name.go"}
	units = append(units, unit{
		module: "Digest",
		files:  files,
		run: func() (string, []string, error) {
			bf, _, err := parseFile(files[0])
			if err != nil {
				return "", nil, err
			}
			df, _, err := parseFile(files[1])
			if err != nil {
				return "", nil, err
			}
			inf, _, err := parseFile(files[2])
			if err != nil {
				return "", nil, err
			}
			var b strings.Builder
			b.WriteString("namespace BB.Gen.Digest\n\n")

			// ---- SupportedDigestFunctions
			sup, ok := findVar(bf, "SupportedDigestFunctions").(*ast.CompositeLit)
			if !ok {
				return "", nil, fmt.Errorf("SupportedDigestFunctions is not a composite literal")
			}
			var rows []string
			for _, e := range sup.Elts {
				v, name, err := digestEnum(e)
				if err != nil {
					return "", nil, err
				}
				// strings.ToLower(digestFunction.String())
				lower := strings.ToLower(remoteexecution.DigestFunction_Value(v).String())
				_ = name
				rows = append(rows, fmt.Sprintf("(%d, %s)", v, leanChars(lower)))
			}
			b.WriteString("/-- `SupportedDigestFunctions`: (enum value, lower-case REv2 name), in source order. -/\n")
			b.WriteString("def supported : List (Nat × List Char) :=\n  [" + strings.Join(rows, ",\n   ") + "]\n\n")

			// ---- bareFunction literals
			lits := map[string]bareFn{}
			for _, d := range bf.Decls {
				gd, ok := d.(*ast.GenDecl)
				if !ok || gd.Tok != token.VAR {
					continue
				}
				for _, s := range gd.Specs {
					vs := s.(*ast.ValueSpec)
					for i, n := range vs.Names {
						if i >= len(vs.Values) {
							continue
						}
						cl, ok := vs.Values[i].(*ast.CompositeLit)
						if !ok {
							continue
						}
						if id, ok := cl.Type.(*ast.Ident); !ok || id.Name != "bareFunction" {
							continue
						}
						var fn bareFn
						seen := 0
						for _, el := range cl.Elts {
							kv, ok := el.(*ast.KeyValueExpr)
							if !ok {
								return "", nil, fmt.Errorf("%s: positional bareFunction literal", n.Name)
							}
							switch kv.Key.(*ast.Ident).Name {
							case "enumValue":
								v, _, err := digestEnum(kv.Value)
								if err != nil {
									return "", nil, err
								}
								fn.enum = v
								seen |= 1
							case "hashBytesSize":
								v, err := digestConstInt(kv.Value)
								if err != nil {
									return "", nil, fmt.Errorf("%s.hashBytesSize: %v", n.Name, err)
								}
								fn.bytes = v
								seen |= 2
							}
						}
						if seen != 3 {
							return "", nil, fmt.Errorf("%s: enumValue/hashBytesSize missing", n.Name)
						}
						lits[n.Name] = fn
					}
				}
			}

			// ---- getBareFunction
			gbf := findFunc(bf, "", "getBareFunction")
			if gbf == nil || len(gbf.Body.List) != 2 {
				return "", nil, fmt.Errorf("getBareFunction: unexpected shape")
			}
			sw, ok := gbf.Body.List[0].(*ast.SwitchStmt)
			if !ok {
				return "", nil, fmt.Errorf("getBareFunction: expected a switch")
			}
			if rs, ok := gbf.Body.List[1].(*ast.ReturnStmt); !ok || len(rs.Results) != 1 {
				return "", nil, fmt.Errorf("getBareFunction: expected trailing return nil")
			} else if id, ok := rs.Results[0].(*ast.Ident); !ok || id.Name != "nil" {
				return "", nil, fmt.Errorf("getBareFunction: expected trailing return nil")
			}
			retLit := func(body []ast.Stmt) (bareFn, error) {
				if len(body) != 1 {
					return bareFn{}, fmt.Errorf("getBareFunction: case body is not a single return")
				}
				rs, ok := body[0].(*ast.ReturnStmt)
				if !ok || len(rs.Results) != 1 {
					return bareFn{}, fmt.Errorf("getBareFunction: case body is not a single return")
				}
				ue, ok := rs.Results[0].(*ast.UnaryExpr)
				if !ok || ue.Op != token.AND {
					return bareFn{}, fmt.Errorf("getBareFunction: expected return &xBareFunction")
				}
				id, ok := ue.X.(*ast.Ident)
				if !ok {
					return bareFn{}, fmt.Errorf("getBareFunction: expected return &xBareFunction")
				}
				fn, ok := lits[id.Name]
				if !ok {
					return bareFn{}, fmt.Errorf("getBareFunction: unknown literal %s", id.Name)
				}
				return fn, nil
			}
			var byEnum, byLen []string
			for _, cc := range sw.Body.List {
				cl := cc.(*ast.CaseClause)
				if len(cl.List) != 1 {
					return "", nil, fmt.Errorf("getBareFunction: multi-value or default case")
				}
				v, name, err := digestEnum(cl.List[0])
				if err != nil {
					return "", nil, err
				}
				if name == "UNKNOWN" {
					if len(cl.Body) != 1 {
						return "", nil, fmt.Errorf("getBareFunction: UNKNOWN case: unexpected shape")
					}
					isw, ok := cl.Body[0].(*ast.SwitchStmt)
					if !ok {
						return "", nil, fmt.Errorf("getBareFunction: UNKNOWN case: expected inner switch")
					}
					if id, ok := isw.Tag.(*ast.Ident); !ok || id.Name != "hashStringSize" {
						return "", nil, fmt.Errorf("getBareFunction: inner switch not on hashStringSize")
					}
					for _, icc := range isw.Body.List {
						icl := icc.(*ast.CaseClause)
						if len(icl.List) != 1 {
							return "", nil, fmt.Errorf("getBareFunction: inner multi-value or default case")
						}
						n, err := digestConstInt(icl.List[0])
						if err != nil {
							return "", nil, err
						}
						fn, err := retLit(icl.Body)
						if err != nil {
							return "", nil, err
						}
						byLen = append(byLen, fmt.Sprintf("(%d, %d, %d)", n, fn.enum, fn.bytes))
					}
					continue
				}
				fn, err := retLit(cl.Body)
				if err != nil {
					return "", nil, err
				}
				byEnum = append(byEnum, fmt.Sprintf("(%d, %d, %d)", v, fn.enum, fn.bytes))
			}
			b.WriteString("/-- `getBareFunction(e, _)` for `e ≠ UNKNOWN`: (case value, enumValue, hashBytesSize of the returned literal). -/\n")
			b.WriteString("def byEnum : List (Nat × Nat × Nat) :=\n  [" + strings.Join(byEnum, ", ") + "]\n\n")
			b.WriteString("/-- `getBareFunction(UNKNOWN, n)`: (hash string length, enumValue, hashBytesSize of the returned literal). -/\n")
			b.WriteString("def byLength : List (Nat × Nat × Nat) :=\n  [" + strings.Join(byLen, ", ") + "]\n\n")

			short := findVar(bf, "shortestSupportedHashStringSize")
			if short == nil {
				return "", nil, fmt.Errorf("shortestSupportedHashStringSize not found")
			}
			sv, err := digestConstInt(short)
			if err != nil {
				return "", nil, err
			}
			b.WriteString(fmt.Sprintf("def shortestSupportedHashStringSize : Nat := %d\n\n", sv))

			// ---- digest.go init(): midfix threshold and midfix strings
			initFn := findFunc(df, "", "init")
			if initFn == nil {
				return "", nil, fmt.Errorf("digest.go: init not found")
			}
			threshold := -1
			prefix := ""
			ast.Inspect(initFn, func(n ast.Node) bool {
				switch x := n.(type) {
				case *ast.BinaryExpr:
					if id, ok := x.X.(*ast.Ident); ok && id.Name == "digestFunction" && x.Op == token.GTR {
						if v, err := digestConstInt(x.Y); err == nil {
							threshold = int(v)
						}
					}
					if x.Op == token.ADD {
						if bl, ok := x.X.(*ast.BasicLit); ok && bl.Kind == token.STRING {
							if id, ok := x.Y.(*ast.Ident); ok && id.Name == "lowerName" {
								prefix, _ = strconv.Unquote(bl.Value)
							}
						}
					}
				}
				return true
			})
			if threshold < 0 || prefix == "" {
				return "", nil, fmt.Errorf("digest.go init: midfix threshold or compressed prefix not recognised")
			}
			idMid := ""
			if cl, ok := findVar(df, "compressorEnumToMidfix").(*ast.CompositeLit); ok && len(cl.Elts) == 1 {
				kv := cl.Elts[0].(*ast.KeyValueExpr)
				if sel, ok := kv.Key.(*ast.SelectorExpr); ok && sel.Sel.Name == "Compressor_IDENTITY" {
					if bl, ok := kv.Value.(*ast.BasicLit); ok {
						idMid, _ = strconv.Unquote(bl.Value)
					}
				}
			}
			if idMid == "" {
				return "", nil, fmt.Errorf("digest.go: compressorEnumToMidfix literal not recognised")
			}
			b.WriteString("/-- digest functions with an enum value above this get an explicit ByteStream path midfix. -/\n")
			b.WriteString(fmt.Sprintf("def midfixThreshold : Nat := %d\n", threshold))
			b.WriteString("def identityMidfix : List Char := " + leanChars(idMid) + "\n")
			b.WriteString("def compressedPrefix : List Char := " + leanChars(prefix) + "\n\n")

			// ---- how the ByteStream formatters join their elements
			// Recognised shapes of `return X(elems...)` in GetByteStreamReadPath/WritePath:
			//   X = path.Join                         -> cleaning (path.Clean removes "." and "..")
			//   X = a function of digest.go whose body uses strings.Join and neither path.Join nor
			//       path.Clean                        -> plain join of the non-empty elements
			// anything else is a translation failure.
			classify := func(name string) (bool, error) {
				fd := findFunc(df, "Digest", name)
				if fd == nil || len(fd.Body.List) == 0 {
					return false, fmt.Errorf("%s not found", name)
				}
				rs, ok := fd.Body.List[len(fd.Body.List)-1].(*ast.ReturnStmt)
				if !ok || len(rs.Results) != 1 {
					return false, fmt.Errorf("%s: last statement is not a single return", name)
				}
				call, ok := rs.Results[0].(*ast.CallExpr)
				if !ok {
					return false, fmt.Errorf("%s: return value is not a call", name)
				}
				uses := func(n ast.Node, pkg, fn string) bool {
					found := false
					ast.Inspect(n, func(x ast.Node) bool {
						if se, ok := x.(*ast.SelectorExpr); ok {
							if id, ok := se.X.(*ast.Ident); ok && id.Name == pkg && se.Sel.Name == fn {
								found = true
							}
						}
						return true
					})
					return found
				}
				switch fn := call.Fun.(type) {
				case *ast.SelectorExpr:
					if id, ok := fn.X.(*ast.Ident); ok && id.Name == "path" && fn.Sel.Name == "Join" {
						return true, nil
					}
				case *ast.Ident:
					helper := findFunc(df, "", fn.Name)
					if helper != nil {
						if uses(helper, "path", "Join") || uses(helper, "path", "Clean") {
							return true, nil
						}
						if uses(helper, "strings", "Join") {
							return false, nil
						}
					}
				}
				return false, fmt.Errorf("%s: unrecognised way of joining the path elements", name)
			}
			cr, err := classify("GetByteStreamReadPath")
			if err != nil {
				return "", nil, err
			}
			cw, err := classify("GetByteStreamWritePath")
			if err != nil {
				return "", nil, err
			}
			if cr != cw {
				return "", nil, fmt.Errorf("GetByteStreamReadPath and GetByteStreamWritePath join their elements differently")
			}
			b.WriteString("/-- `GetByteStreamReadPath`/`WritePath` join their elements with `path.Join` (which cleans `.`/`..`)\nrather than with a plain join of the non-empty elements. -/\n")
			b.WriteString(fmt.Sprintf("def formatterCleans : Bool := %v\n\n", cr))

			// ---- compressors: every non-IDENTITY value of the REv2 enumeration, lower-cased
			var cvals []int
			for v := range remoteexecution.Compressor_Value_name {
				cvals = append(cvals, int(v))
			}
			sort.Ints(cvals)
			var crows []string
			for _, v := range cvals {
				if remoteexecution.Compressor_Value(v) == remoteexecution.Compressor_IDENTITY {
					if v != 0 {
						return "", nil, fmt.Errorf("Compressor_IDENTITY is not 0")
					}
					continue
				}
				crows = append(crows, fmt.Sprintf("(%d, %s)", v, leanChars(strings.ToLower(remoteexecution.Compressor_Value_name[int32(v)]))))
			}
			b.WriteString("/-- non-IDENTITY `Compressor.Value`s: (enum value, lower-case name). IDENTITY is 0. -/\n")
			b.WriteString("def compressors : List (Nat × List Char) :=\n  [" + strings.Join(crows, ", ") + "]\n\n")

			// ---- reserved keywords
			rk, ok := findVar(inf, "reservedInstanceNameKeywords").(*ast.CompositeLit)
			if !ok {
				return "", nil, fmt.Errorf("reservedInstanceNameKeywords is not a composite literal")
			}
			var kws []string
			for _, el := range rk.Elts {
				kv, ok := el.(*ast.KeyValueExpr)
				if !ok {
					return "", nil, fmt.Errorf("reservedInstanceNameKeywords: unexpected element")
				}
				bl, ok := kv.Key.(*ast.BasicLit)
				if !ok || bl.Kind != token.STRING {
					return "", nil, fmt.Errorf("reservedInstanceNameKeywords: non-literal key")
				}
				if id, ok := kv.Value.(*ast.Ident); !ok || id.Name != "true" {
					// the code tests presence (`_, ok :=`), so a false value is still reserved; keep it
				}
				s, _ := strconv.Unquote(bl.Value)
				kws = append(kws, s)
			}
			sort.Strings(kws)
			var krows []string
			for _, k := range kws {
				krows = append(krows, leanChars(k))
			}
			b.WriteString("/-- keys of `reservedInstanceNameKeywords` (sorted). -/\n")
			b.WriteString("def reservedKeywords : List (List Char) :=\n  [" + strings.Join(krows, ",\n   ") + "]\n\n")
			b.WriteString("end BB.Gen.Digest\n")
			return b.String(), []string{"SupportedDigestFunctions", "getBareFunction", "bareFunction literals",
				"shortestSupportedHashStringSize", "init (midfixes)", "GetByteStreamReadPath/WritePath (join shape)", "reservedInstanceNameKeywords", "Compressor_Value_name"}, nil
		},
	})
}
