package main

import (
	"fmt"
	"strings"
)

func init() {
	units = append(units, unit{
		module: "GrowthPolicy",
		files:  []string{"pkg/blobstore/local/block_list_growth_policy.go"},
		run: func() (string, []string, error) {
			f, _, err := parseFile("pkg/blobstore/local/block_list_growth_policy.go")
			if err != nil {
				return "", nil, err
			}
			c := newCtx(f)
			var b strings.Builder
			b.WriteString(prelude)
			var names []string
			for _, s := range []struct{ goName, lean string }{
				{"immutableBlockListGrowthPolicy", "ImmutablePolicy"},
				{"mutableBlockListGrowthPolicy", "MutablePolicy"},
			} {
				st, err := c.structure(f, s.goName, s.lean)
				if err != nil {
					return "", nil, err
				}
				b.WriteString(st + "\n")
				for _, m := range []string{"ShouldGrowNewBlocks", "ShouldGrowCurrentBlocks"} {
					fd := findFunc(f, s.goName, m)
					if fd == nil {
						return "", nil, fmt.Errorf("%s.%s not found", s.goName, m)
					}
					fn, err := c.function(fd, s.lean+"."+lowerFirst(m))
					if err != nil {
						return "", nil, err
					}
					b.WriteString(fn + "\n")
					names = append(names, s.goName+"."+m)
				}
			}
			b.WriteString("end BB.Gen\n")
			return b.String(), names, nil
		},
	})
}
