package main

import (
	"fmt"
	"go/ast"
	"strings"
)

// MemRecord: what inMemoryLocationRecordArray does to the offset and size of a location on its way into a record
// (Put) and back (Get): the integer conversions applied by the expressions of the two composite literals and by the
// types of the struct fields. The model stores locations as unbounded integers; the obligation proved over this file
// is that every int64 the store can produce survives the round trip.
func init() {
	units = append(units, unit{
		module: "MemRecord",
		files:  []string{"pkg/blobstore/local/in_memory_location_record_array.go", "pkg/blobstore/local/location.go"},
		run: func() (string, []string, error) {
			f, _, err := parseFile("pkg/blobstore/local/in_memory_location_record_array.go")
			if err != nil {
				return "", nil, err
			}
			lf, _, err := parseFile("pkg/blobstore/local/location.go")
			if err != nil {
				return "", nil, err
			}
			intTypes := map[string][2]int{ // bits, signed
				"int8": {8, 1}, "int16": {16, 1}, "int32": {32, 1}, "int64": {64, 1}, "int": {64, 1},
				"uint8": {8, 0}, "uint16": {16, 0}, "uint32": {32, 0}, "uint64": {64, 0}, "uint": {64, 0}, "byte": {8, 0},
			}
			conv := func(t string) (string, error) {
				w, ok := intTypes[t]
				if !ok {
					return "", fmt.Errorf("type %q is not a plain integer type", t)
				}
				return fmt.Sprintf("conv %d %v", w[0], w[1] == 1), nil
			}
			fieldType := func(file *ast.File, typ, field string) (string, error) {
				for _, d := range file.Decls {
					gd, ok := d.(*ast.GenDecl)
					if !ok {
						continue
					}
					for _, s := range gd.Specs {
						ts, ok := s.(*ast.TypeSpec)
						if !ok || ts.Name.Name != typ {
							continue
						}
						st, ok := ts.Type.(*ast.StructType)
						if !ok {
							return "", fmt.Errorf("%s is not a struct", typ)
						}
						for _, fl := range st.Fields.List {
							for _, n := range fl.Names {
								if n.Name == field {
									id, ok := fl.Type.(*ast.Ident)
									if !ok {
										return "", fmt.Errorf("%s.%s: unexpected type expression", typ, field)
									}
									return id.Name, nil
								}
							}
						}
					}
				}
				return "", fmt.Errorf("%s.%s not found", typ, field)
			}
			// value of `key:` in the composite literal of type `lit` inside fn (searched at any nesting depth)
			litValue := func(fn *ast.FuncDecl, lit, key string) (ast.Expr, error) {
				var found ast.Expr
				n := 0
				ast.Inspect(fn, func(nd ast.Node) bool {
					cl, ok := nd.(*ast.CompositeLit)
					if !ok {
						return true
					}
					if id, ok := cl.Type.(*ast.Ident); !ok || id.Name != lit {
						return true
					}
					for _, e := range cl.Elts {
						if kv, ok := e.(*ast.KeyValueExpr); ok {
							if k, ok := kv.Key.(*ast.Ident); ok && k.Name == key {
								found = kv.Value
								n++
							}
						}
					}
					return true
				})
				if n != 1 {
					return nil, fmt.Errorf("%s: expected exactly one %s{%s: ...}, found %d", fn.Name.Name, lit, key, n)
				}
				return found, nil
			}
			// chain of conversions around a selector expression ending in .<leaf>; innermost first
			var chain func(e ast.Expr, leaf string) ([]string, error)
			chain = func(e ast.Expr, leaf string) ([]string, error) {
				switch x := e.(type) {
				case *ast.ParenExpr:
					return chain(x.X, leaf)
				case *ast.SelectorExpr:
					if x.Sel.Name != leaf {
						return nil, fmt.Errorf("expression reads .%s, expected .%s", x.Sel.Name, leaf)
					}
					return nil, nil
				case *ast.CallExpr:
					id, ok := x.Fun.(*ast.Ident)
					if !ok || len(x.Args) != 1 {
						return nil, fmt.Errorf("unsupported call in a record field expression")
					}
					inner, err := chain(x.Args[0], leaf)
					if err != nil {
						return nil, err
					}
					c, err := conv(id.Name)
					if err != nil {
						return nil, err
					}
					return append(inner, c), nil
				}
				return nil, fmt.Errorf("unsupported record field expression %T", e)
			}
			put := findFunc(f, "inMemoryLocationRecordArray", "Put")
			get := findFunc(f, "inMemoryLocationRecordArray", "Get")
			if put == nil || get == nil {
				return "", nil, fmt.Errorf("inMemoryLocationRecordArray.Put/Get not found")
			}
			var b strings.Builder
			b.WriteString(prelude + "namespace MemRecord\n\n")
			b.WriteString("/-- Go's conversion of an integer to an integer type of `bits` bits (wraps around). -/\n")
			b.WriteString("def conv (bits : Nat) (signed : Bool) (v : Int) : Int :=\n  if signed then Int.bmod v (2 ^ bits) else v % (2 ^ bits : Int)\n\n")
			for _, fld := range [][3]string{{"Offset", "offsetBytes", "OffsetBytes"}, {"Size", "sizeBytes", "SizeBytes"}} {
				name, rec, loc := fld[0], fld[1], fld[2]
				// Put: expression over locationRecord.Location.<loc>, then the type of the record field
				pv, err := litValue(put, "inMemoryLocationRecord", rec)
				if err != nil {
					return "", nil, err
				}
				pc, err := chain(pv, loc)
				if err != nil {
					return "", nil, fmt.Errorf("Put %s: %v", rec, err)
				}
				rt, err := fieldType(f, "inMemoryLocationRecord", rec)
				if err != nil {
					return "", nil, err
				}
				rc, err := conv(rt)
				if err != nil {
					return "", nil, err
				}
				pc = append(pc, rc)
				// Get: expression over record.<rec>, then the type of Location.<loc>
				gv, err := litValue(get, "Location", loc)
				if err != nil {
					return "", nil, err
				}
				gc, err := chain(gv, rec)
				if err != nil {
					return "", nil, fmt.Errorf("Get %s: %v", loc, err)
				}
				lt, err := fieldType(lf, "Location", loc)
				if err != nil {
					return "", nil, err
				}
				lc, err := conv(lt)
				if err != nil {
					return "", nil, err
				}
				gc = append(gc, lc)
				emit := func(fn string, cs []string) {
					expr := "v"
					for _, c := range cs {
						expr = "(" + c + " " + expr + ")"
					}
					fmt.Fprintf(&b, "def %s%s (v : Int) : Int := %s\n", fn, name, expr)
				}
				emit("store", pc)
				emit("load", gc)
			}
			b.WriteString("\nend MemRecord\nend BB.Gen\n")
			return b.String(), []string{"inMemoryLocationRecord", "inMemoryLocationRecordArray.Put", "inMemoryLocationRecordArray.Get"}, nil
		},
	})
}
