package main

import (
	"fmt"
)

func init() {
	units = append(units, unit{
		module: "Location",
		files:  []string{"pkg/blobstore/local/location.go"},
		run: func() (string, []string, error) {
			f, _, err := parseFile("pkg/blobstore/local/location.go")
			if err != nil {
				return "", nil, err
			}
			c := newCtx(f)
			st, err := c.structure(f, "Location", "Location")
			if err != nil {
				return "", nil, err
			}
			fd := findFunc(f, "Location", "IsOlder")
			if fd == nil {
				return "", nil, fmt.Errorf("Location.IsOlder not found")
			}
			fn, err := c.function(fd, "Location.isOlder")
			if err != nil {
				return "", nil, err
			}
			return prelude + st + "\n" + fn + "\nend BB.Gen\n", []string{"Location.IsOlder"}, nil
		},
	})
}
