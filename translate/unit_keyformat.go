package main

import (
	"fmt"
	"go/ast"
	"go/token"
	"strings"
)

// KeyFormat: the enumeration constants of digest.KeyFormat (an iota block) and KeyFormat.Combine, whose body must be a
// chain of `if <receiver|parameter> == <constant> { return <constant|receiver|parameter> }` ended by a plain return.
// Decorators that sit on two backends announce Combine of the two formats; the obligation proved over the generated
// definition is that the result carries the instance name as soon as one side does.
func init() {
	units = append(units, unit{
		module: "KeyFormat",
		files:  []string{"pkg/digest/digest.go"},
		run: func() (string, []string, error) {
			f, _, err := parseFile("pkg/digest/digest.go")
			if err != nil {
				return "", nil, err
			}
			// the const block whose first spec has type KeyFormat and value iota
			vals := map[string]int{}
			var order []string
			for _, d := range f.Decls {
				gd, ok := d.(*ast.GenDecl)
				if !ok || gd.Tok != token.CONST || len(gd.Specs) == 0 {
					continue
				}
				first := gd.Specs[0].(*ast.ValueSpec)
				tid, ok := first.Type.(*ast.Ident)
				if !ok || tid.Name != "KeyFormat" {
					continue
				}
				if len(first.Values) != 1 {
					return "", nil, fmt.Errorf("KeyFormat constants: first value is not iota")
				}
				if id, ok := first.Values[0].(*ast.Ident); !ok || id.Name != "iota" {
					return "", nil, fmt.Errorf("KeyFormat constants: first value is not iota")
				}
				for i, s := range gd.Specs {
					vs := s.(*ast.ValueSpec)
					if len(vs.Names) != 1 || (i > 0 && (len(vs.Values) != 0 || vs.Type != nil)) {
						return "", nil, fmt.Errorf("KeyFormat constants: not a plain iota block")
					}
					vals[vs.Names[0].Name] = i
					order = append(order, vs.Names[0].Name)
				}
			}
			if len(order) == 0 {
				return "", nil, fmt.Errorf("KeyFormat constants not found")
			}
			fd := findFunc(f, "KeyFormat", "Combine")
			if fd == nil || fd.Recv == nil || len(fd.Recv.List[0].Names) != 1 || len(fd.Type.Params.List) != 1 || len(fd.Type.Params.List[0].Names) != 1 {
				return "", nil, fmt.Errorf("KeyFormat.Combine(other) not found")
			}
			recv, param := fd.Recv.List[0].Names[0].Name, fd.Type.Params.List[0].Names[0].Name
			term := func(e ast.Expr) (string, error) {
				id, ok := e.(*ast.Ident)
				if !ok {
					return "", fmt.Errorf("Combine: unsupported expression %T", e)
				}
				switch {
				case id.Name == recv:
					return "kf", nil
				case id.Name == param:
					return "other", nil
				}
				if _, ok := vals[id.Name]; ok {
					return lowerFirst(id.Name), nil
				}
				return "", fmt.Errorf("Combine: unknown identifier %s", id.Name)
			}
			var body strings.Builder
			closed := false
			for i, st := range fd.Body.List {
				switch s := st.(type) {
				case *ast.IfStmt:
					cond, ok := s.Cond.(*ast.BinaryExpr)
					if !ok || cond.Op != token.EQL || s.Init != nil || s.Else != nil || len(s.Body.List) != 1 {
						return "", nil, fmt.Errorf("Combine: unsupported if statement")
					}
					ret, ok := s.Body.List[0].(*ast.ReturnStmt)
					if !ok || len(ret.Results) != 1 {
						return "", nil, fmt.Errorf("Combine: if body is not a return")
					}
					l, err := term(cond.X)
					if err != nil {
						return "", nil, err
					}
					r, err := term(cond.Y)
					if err != nil {
						return "", nil, err
					}
					v, err := term(ret.Results[0])
					if err != nil {
						return "", nil, err
					}
					fmt.Fprintf(&body, "  if %s = %s then %s else\n", l, r, v)
				case *ast.ReturnStmt:
					if i != len(fd.Body.List)-1 || len(s.Results) != 1 {
						return "", nil, fmt.Errorf("Combine: unexpected return")
					}
					v, err := term(s.Results[0])
					if err != nil {
						return "", nil, err
					}
					fmt.Fprintf(&body, "  %s\n", v)
					closed = true
				default:
					return "", nil, fmt.Errorf("Combine: unsupported statement %T", st)
				}
			}
			if !closed {
				return "", nil, fmt.Errorf("Combine: does not end in a return")
			}
			var b strings.Builder
			b.WriteString(prelude + "namespace KeyFormat\n\n")
			for _, n := range order {
				fmt.Fprintf(&b, "def %s : Nat := %d\n", lowerFirst(n), vals[n])
			}
			b.WriteString("\n/-- `KeyFormat.Combine`. -/\ndef combine (kf other : Nat) : Nat :=\n" + body.String())
			b.WriteString("\nend KeyFormat\nend BB.Gen\n")
			return b.String(), []string{"KeyFormat", "KeyFormat.Combine"}, nil
		},
	})
}
