#!/usr/bin/env python3
"""Collect the shrunk failing inputs that the checks find against the seeded changes into corpus/<property>/.

For every seeded/<id>/ (or the ids given on the command line) the check of the property the change was written for
is run against the change (tools/seedrun.sh: scratch worktree + private copy of /verif); the first replay of kind
"failing-input" becomes corpus/<property>/seeded-<id>.json ({"case", "script", "what"}). Corpus scripts run first in
every later run of that check, so a regression of the same kind is found whatever the seed. They must pass on the
unchanged tree: run the check afterwards."""
import json, os, subprocess, sys, glob, shutil
ROOT = os.path.dirname(os.path.dirname(os.path.abspath(__file__)))
ids = sys.argv[1:] or sorted(os.path.basename(d) for d in glob.glob(os.path.join(ROOT, "seeded", "C*-*")))
for sid in ids:
    meta = json.load(open(os.path.join(ROOT, "seeded", sid, "meta.json")))
    prop = meta["breaks_property"]
    keep = "/tmp/seedcorpus-%s" % sid
    shutil.rmtree(keep, ignore_errors=True)
    env = dict(os.environ, SEEDRUN_KEEP=keep)
    subprocess.run([os.path.join(ROOT, "tools", "seedrun.sh"), os.path.join(ROOT, "seeded", sid, "patch.diff"), "quick", prop],
                   env=env, stdout=subprocess.DEVNULL, stderr=subprocess.DEVNULL)
    got = None
    for f in sorted(glob.glob(keep + "/*.json")):
        r = json.load(open(f))
        if r.get("kind") == "failing-input" and r.get("script"):
            got = r
            break
    if got:
        out = os.path.join(ROOT, "corpus", prop)
        os.makedirs(out, exist_ok=True)
        json.dump({"case": "seeded-" + sid, "what": got.get("what"), "script": got["script"]}, open(os.path.join(out, "seeded-%s.json" % sid), "w"), indent=1)
        print(sid, "->", prop, "|", got.get("what"), "| %d lines" % len(got["script"]), flush=True)
    else:
        print(sid, "-> no failing input from", prop, flush=True)
    shutil.rmtree(keep, ignore_errors=True)
