#!/bin/sh
# tools/commit.sh "<message>": commit /verif without committing the momentary absence of an evidence file (a running
# check removes its evidence file first and rewrites it at the end).
cd "$(dirname "$0")/.." || exit 1
for f in $(git ls-files -d evidence); do git checkout -- "$f"; done
git add -A
git commit -qm "$1" && git log --oneline | head -1
