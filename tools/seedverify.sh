#!/bin/sh
# tools/seedverify.sh <worktree> <A|B> <seeded-id> <property>: confirm a seeded change (demo passes unchanged,
# fails changed, baseline passes changed, builds) and store it under /verif/seeded/<seeded-id>/.
set -u
WT=$1; X=$2; ID=$3; PROP=$4
export GOFLAGS=-mod=mod GOPROXY=off GOSUMDB=off GOTOOLCHAIN=local
cd "$WT" || exit 1
x=$(echo $X | tr A-Z a-z)
run="Test Demo$X"
git checkout -q -- pkg 2>/dev/null
U=$(go1.26.8 test -vet=off -count=1 -run "TestDemo$X\$" ./verifdemo/ 2>&1 | tail -1)
git apply patch$X.diff || { echo "patch does not apply"; exit 1; }
C=$(go1.26.8 test -vet=off -count=1 -run "TestDemo$X\$" ./verifdemo/ 2>&1 | grep -E "^(FAIL|ok)" | tail -1)
B=$(go1.26.8 build ./pkg/... 2>&1 | tail -1)
S=$(go1.26.8 test -vet=off -count=1 ./pkg/blockdevice/... ./pkg/eviction/... ./pkg/random/... ./pkg/zstd/... 2>&1 | grep -c "^ok")
git checkout -q -- pkg
echo "unchanged: $U | changed: $C | build: ${B:-ok} | baseline ok packages: $S/4"
D=/verif/seeded/$ID
mkdir -p $D
cp patch$X.diff $D/patch.diff
cp verifdemo/demo_${x}_test.go $D/
[ -f verifdemo/helpers_test.go ] && cp verifdemo/helpers_test.go $D/
echo "$U|$C|$S" > $D/.verify
