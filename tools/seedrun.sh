#!/bin/sh
# Run checks against a seeded change without disturbing /repo or /verif:
#   tools/seedrun.sh <patch.diff> <tier> <ID> [<ID>...]
# A scratch worktree of /repo HEAD gets the patch, a private copy of /verif runs the checks with
# VERIF_REPO pointing at it. SEEDRUN_REPLAY=<replay.json> replays that file instead of running the tier.
# Prints the check output; exit 0 always. Cleans up after itself.
set -u
PATCH=$(readlink -f "$1"); TIER=$2; shift 2
TAG=$$
WT=/tmp/seedrun-wt-$TAG
VC=/tmp/seedrun-verif-$TAG
git -C /repo worktree add -q "$WT" HEAD || exit 0
if ! git -C "$WT" apply "$PATCH"; then echo "PATCH DOES NOT APPLY"; git -C /repo worktree remove --force "$WT"; exit 0; fi
rsync -a --delete --exclude .git /verif/ "$VC"/
cd "$VC"
for id in "$@"; do
  echo "=== $id ($TIER) against $(basename "$PATCH")"
  if [ -n "${SEEDRUN_REPLAY:-}" ]; then VERIF_REPO="$WT" ./check "$id" --replay "$SEEDRUN_REPLAY" 2>&1 | grep -v "^slot"; continue; fi
  VERIF_REPO="$WT" ./check "$id" --tier "$TIER" 2>&1 | tail -4
  if [ -n "${SEEDRUN_KEEP:-}" ]; then mkdir -p "$SEEDRUN_KEEP"; for r in replays/$id-*.json; do [ -f "$r" ] && cp "$r" "$SEEDRUN_KEEP/"; done; fi
  for r in replays/$id-*.json; do
    [ -f "$r" ] && python3 - "$r" <<'PY'
import json,sys
r=json.load(open(sys.argv[1]))
print("   replay:", r.get("kind"), "|", r.get("what"), "|", (r.get("detail") or "")[:200])
if r.get("script"): print("   script:", r["script"][:40])
if r.get("broken"): print("   broken:", [(b["kind"], b["name"]) for b in r["broken"]][:6])
PY
  done
done
cd /
git -C /repo worktree remove --force "$WT"
rm -rf "$VC"
