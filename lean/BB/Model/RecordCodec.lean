import BB.Gen.RecordLayout
/-!
# Model of the serialized location record (block_device_backed_location_record_array.go)

66 bytes: epoch id (4, LE) | blocks from last (2, LE) | key (32) | attempt (4, LE) | offset (8, LE) |
size (8, LE) | checksum (8, LE).  The checksum is FNV-1a over bytes `[checksumFrom, checksumTo)`
seeded with the epoch's hash seed.  Offsets, sizes and the FNV step are regenerated from the Go
source (`BB.Gen.RecordLayout`).
-/
namespace BB.RecordCodec
open BB.Gen.RecordLayout

/-- `n` bytes, little endian. -/
def le : Nat → Nat → List UInt8
  | 0, _ => []
  | n+1, v => UInt8.ofNat (v % 256) :: le n (v / 256)

def ofLe : List UInt8 → Nat
  | [] => 0
  | b :: bs => b.toNat + 256 * ofLe bs

structure Rec where
  epoch : Nat
  blocksFromLast : Nat
  key : List UInt8
  attempt : Nat
  off : Nat
  size : Nat
deriving DecidableEq, Repr

def Rec.WF (r : Rec) : Prop :=
  r.epoch < 2^32 ∧ r.blocksFromLast < 2^16 ∧ r.key.length = 32 ∧ r.attempt < 2^32 ∧ r.off < 2^64 ∧ r.size < 2^64

/-- Bytes covered by the checksum. -/
def body (r : Rec) : List UInt8 := r.key ++ le 4 r.attempt ++ le 8 r.off ++ le 8 r.size

def checksum (seed : UInt64) (bytes : List UInt8) : UInt64 := bytes.foldl fnvStep seed

def encode (seed : UInt64) (r : Rec) : List UInt8 :=
  le 4 r.epoch ++ le 2 r.blocksFromLast ++ body r ++ le 8 (checksum seed (body r)).toNat

def slice (bytes : List UInt8) (from_ to : Nat) : List UInt8 := (bytes.drop from_).take (to - from_)

/-- `Get`: `resolve epoch blocksFromLast = some (blockIndex, seed)` is the BlockReferenceResolver. -/
def decode (resolve : Nat → Nat → Option (Nat × UInt64)) (bytes : List UInt8) : Option (Rec × Nat) :=
  if bytes.length ≠ recordSize then none else
  let epoch := ofLe (slice bytes offEpoch offBlocksFromLast)
  let bfl := ofLe (slice bytes offBlocksFromLast offKey)
  match resolve epoch bfl with
  | none => none
  | some (idx, seed) =>
    if (checksum seed (slice bytes checksumFrom checksumTo)).toNat ≠ ofLe (slice bytes offChecksum recordSize) then none
    else some ({ epoch := epoch, blocksFromLast := bfl, key := slice bytes offKey offAttempt,
                 attempt := ofLe (slice bytes offAttempt offOffset), off := ofLe (slice bytes offOffset offSize),
                 size := ofLe (slice bytes offSize offChecksum) }, idx)

end BB.RecordCodec
