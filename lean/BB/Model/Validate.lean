/-!
# Model of the CAS buffer validators (pkg/blobstore/buffer)

* Bytes are naturals; contents are `List Nat`.
* The digest is `(size, h)`; the hash function is a parameter `H : List Nat → Nat`
  of the configuration.  (For GITSHA1 the real hasher is seeded with the digest's
  size, so `H` may depend on `size`; the theorems hold for every `H`.)
* Sources are finite scripts.  A reader source (`io.ReadCloser`) is a list of
  items (what one `Read` returns at most), a terminator (EOF or an error) and a
  flag saying whether the terminator is delivered together with the last item
  (`(n, io.EOF)` read form).  A chunk source is a list of chunks and a terminator.
* Source error `k = 0` is Go's `io.ErrUnexpectedEOF` *value* (consumers built
  on `io.ReadFull` compare against it); `k ≥ 1` is a gRPC status error of code `k`.
* `strict` selects the repaired behaviour of `casValidatingReader.doRead`
  (a source's `io.ErrUnexpectedEOF` is replaced by a status error carrying the
  Source's code); `strict = false` is the code as pinned.
* Loops of the Go code that are not structurally bounded by the script take
  `fuel`; running out of fuel yields `Err.stuck` (never a success).
-/
namespace BB.Validate

inductive Err
  | src (k : Nat)      -- error returned by the source, verbatim
  | tooBig | sizeMismatch | hashMismatch   -- Source.notifyCAS*
  | truncated          -- strict mode: replacement of a source's io.ErrUnexpectedEOF
  | negOff | offBeyond | tooLarge          -- argument errors of the consumption methods
  | stuck              -- model artefact: fuel exhausted
deriving DecidableEq, Repr

inductive Res
  | ok | eof
  | err (e : Err)
deriving DecidableEq, Repr

inductive Term
  | eof
  | err (k : Nat)
deriving DecidableEq, Repr

def Term.res : Term → Res
  | .eof => .eof
  | .err k => .err (.src k)

structure Cfg where
  H : List Nat → Nat
  size : Nat
  h : Nat
  /-- gRPC code of the `Source`: 3 (INVALID_ARGUMENT, UserProvided) or 13 (INTERNAL, BackendProvided). -/
  code : Nat := 13
  strict : Bool := false
  copyBuf : Nat := 32768       -- io.Copy
  discardBuf : Nat := 8192     -- io.Discard.ReadFrom
  defaultChunk : Nat := 65536  -- defaultChunkSizeBytes of casClonedBuffer
  fuel : Nat := 100000

/-- What both validators expose: bytes handed out so far (ghost), the sticky
result (`r.err`), and the verdicts passed to the DataIntegrityCallback. -/
structure Core where
  out : List Nat := []
  fin : Option Res := none
  verdicts : List Bool := []
deriving Repr

/-! ## Scripted sources -/

structure RSrc where
  items : List (List Nat)
  term : Term
  joined : Bool
deriving Repr

/-- One `Read(p)` with `len(p) = cap` on the scripted reader; `none` is a nil error. -/
def RSrc.read (s : RSrc) (cap : Nat) : RSrc × List Nat × Option Term :=
  match s.items with
  | [] => (s, [], some s.term)
  | c :: rest =>
    if c.length ≤ cap then
      ({ s with items := rest }, c, if rest.isEmpty && s.joined then some s.term else none)
    else
      ({ s with items := c.drop cap :: rest }, c.take cap, none)

structure CSrc where
  chunks : List (List Nat)
  term : Term
deriving Repr

/-! ## casValidatingReader -/

structure VR where
  src : RSrc
  remaining : Nat
  acc : List Nat := []
  core : Core := {}
deriving Repr

/-- `io.ReadFull(r.ReadCloser, p[:1])` of the trailing-data probe: remaining
items, number of bytes obtained (0 or 1) and the error (`none` = nil). -/
def probe (term : Term) (joined : Bool) : List (List Nat) → List (List Nat) × Nat × Option Term
  | [] => ([], 0, some term)
  | [] :: rest =>
    -- a zero-byte read; if it carried the terminator, ReadFull stops with it
    if rest.isEmpty && joined then ([], 0, some term) else probe term joined rest
  | (_ :: c) :: rest =>
    -- one byte obtained: ReadFull reports success whatever came with it
    (if c.isEmpty then rest else c :: rest, 1, none)

/-- The error a source failure is turned into by `doRead`. -/
def srcErr (c : Cfg) (k : Nat) : Err :=
  if c.strict && k == 0 then .truncated else .src k

def VR.fail (v : VR) (src : RSrc) (e : Err) : VR × List Nat × Res :=
  ({ v with src := src, core := { v.core with fin := some (.err e), verdicts := v.core.verdicts ++ [false] } }, [], .err e)

def VR.valid (v : VR) (src : RSrc) (acc : List Nat) (d : List Nat) : VR × List Nat × Res :=
  ({ v with src := src, remaining := 0, acc := acc, core := { out := v.core.out ++ d, fin := some .eof, verdicts := v.core.verdicts ++ [true] } }, d, .eof)

def VR.srcFail (v : VR) (src : RSrc) (rem : Nat) (acc : List Nat) (e : Err) : VR × List Nat × Res :=
  ({ v with src := src, remaining := rem, acc := acc, core := { v.core with fin := some (.err e) } }, [], .err e)

/-- `casValidatingReader.Read(p)` with `len(p) = cap`. -/
def VR.read (c : Cfg) (v : VR) (cap : Nat) : VR × List Nat × Res :=
  match v.core.fin with
  | some r => (v, [], r)
  | none =>
    let (s1, d, sr) := v.src.read cap
    if d.length > v.remaining then v.fail s1 .tooBig else
    let acc := v.acc ++ d
    let rem := v.remaining - d.length
    match sr with
    | some .eof =>
      if rem ≠ 0 then v.fail s1 .sizeMismatch
      else if c.H acc ≠ c.h then v.fail s1 .hashMismatch
      else v.valid s1 acc d
    | some (.err k) => v.srcFail s1 rem acc (srcErr c k)
    | none =>
      if rem = 0 then
        -- no more data expected: probe for EOF
        let (items2, nFinal, pr) := probe s1.term s1.joined s1.items
        let s2 := { s1 with items := items2 }
        match pr with
        | some (.err (k+1)) => v.srcFail s2 0 acc (.src (k+1))
        | _ =>   -- nil, io.EOF or io.ErrUnexpectedEOF
          if nFinal > 0 then v.fail s2 .tooBig
          else if c.H acc ≠ c.h then v.fail s2 .hashMismatch
          else v.valid s2 acc d
      else
        ({ v with src := s1, remaining := rem, acc := acc, core := { v.core with out := v.core.out ++ d } }, d, .ok)

def VR.init (c : Cfg) (s : RSrc) : VR := { src := s, remaining := c.size }

/-! ## casValidatingChunkReader -/

structure VC where
  src : CSrc
  remaining : Nat
  acc : List Nat := []
  core : Core := {}
deriving Repr

inductive Drain
  | clean | tooBig
  | srcErr (k : Nat)
deriving DecidableEq, Repr

/-- The loop of `maybeFinalize` over trailing chunks. -/
def drain (term : Term) : List (List Nat) → List (List Nat) × Drain
  | [] => ([], match term with | .eof => .clean | .err k => .srcErr k)
  | ch :: rest => if ch.isEmpty then drain term rest else (rest, .tooBig)

def VC.setFin (v : VC) (r : Res) : VC := { v with core := { v.core with fin := some r } }
def VC.verdict (v : VC) (b : Bool) : VC := { v with core := { v.core with verdicts := v.core.verdicts ++ [b] } }
def VC.emit (v : VC) (d : List Nat) : VC := { v with core := { v.core with out := v.core.out ++ d } }

/-- `maybeFinalize`: `none` is a nil error.  The sticky error is set by the callers. -/
def VC.maybeFinalize (c : Cfg) (v : VC) : VC × Option Res :=
  if v.remaining > 0 then (v, none) else
  let (rest, dr) := drain v.src.term v.src.chunks
  let v1 := { v with src := { v.src with chunks := rest } }
  match dr with
  | .srcErr k => (v1, some (.err (.src k)))
  | .tooBig => (v1.verdict false, some (.err .tooBig))
  | .clean =>
    if c.H v.acc ≠ c.h then (v1.verdict false, some (.err .hashMismatch))
    else (v1.verdict true, some .eof)

/-- `casValidatingChunkReader.Read()`. -/
def VC.read (c : Cfg) (v : VC) : VC × List Nat × Res :=
  match v.core.fin with
  | some r => (v, [], r)
  | none =>
    let (v1, f1) := v.maybeFinalize c
    match f1 with
    | some r => (v1.setFin r, [], r)
    | none =>
      match v1.src.chunks with
      | [] =>
        match v1.src.term with
        | .eof => ((v1.verdict false).setFin (.err .sizeMismatch), [], .err .sizeMismatch)
        | .err k => (v1.setFin (.err (.src k)), [], .err (.src k))
      | ch :: rest =>
        let v1' := { v1 with src := { v1.src with chunks := rest } }
        if ch.length > v1.remaining then ((v1'.verdict false).setFin (.err .tooBig), [], .err .tooBig) else
        let v2 := { v1' with acc := v1.acc ++ ch, remaining := v1.remaining - ch.length }
        let (v3, f2) := v2.maybeFinalize c
        match f2 with
        | none => (v3.emit ch, ch, .ok)
        | some .eof => ((v3.emit ch).setFin .eof, ch, .ok)
        | some r => (v3.setFin r, [], r)

def VC.init (c : Cfg) (s : CSrc) : VC := { src := s, remaining := c.size }

/-! ## Generic readers: `io.ReadFull`, `io.Copy`, `io.CopyN(io.Discard, ..)`

A reader is a state `σ` with `rd : σ → cap → σ × data × Res`; a chunk reader
is `step : σ → σ × chunk × Res`. -/

abbrev Rd (σ : Type) := σ → Nat → σ × List Nat × Res
abbrev Step (σ : Type) := σ → σ × List Nat × Res

/-- `io.ReadFull(r, buf)` with `need` bytes of `buf` still unfilled (`io.ReadAtLeast`). -/
def readFull {σ : Type} (rd : Rd σ) : Nat → σ → Nat → List Nat → σ × List Nat × Res
  | _, s, 0, got => (s, got, .ok)
  | 0, s, _+1, got => (s, got, .err .stuck)
  | f+1, s, need+1, got =>
    let (s', d, r) := rd s (need+1)
    let got' := got ++ d
    match r with
    | .ok => readFull rd f s' (need + 1 - d.length) got'
    | r =>
      if d.length ≥ need + 1 then (s', got', .ok)
      else if got'.length > 0 ∧ r = .eof then (s', got', .err (.src 0))   -- io.ErrUnexpectedEOF
      else (s', got', r)

/-- The loop of `io.Copy` with a buffer of `buf` bytes: the `Write` calls made and the result. -/
def copyLoop {σ : Type} (rd : Rd σ) (buf : Nat) : Nat → σ → List (List Nat) → σ × List (List Nat) × Res
  | 0, s, ws => (s, ws, .err .stuck)
  | f+1, s, ws =>
    let (s', d, r) := rd s buf
    let ws' := if d.isEmpty then ws else ws ++ [d]
    match r with
    | .ok => copyLoop rd buf f s' ws'
    | .eof => (s', ws', .ok)
    | r => (s', ws', r)

/-- `io.CopyN(io.Discard, r, n)`: discarded bytes (ghost) and the result (`eof` = short). -/
def discardN {σ : Type} (rd : Rd σ) (buf : Nat) : Nat → σ → Nat → List Nat → σ × List Nat × Res
  | _, s, 0, dropped => (s, dropped, .ok)
  | 0, s, _+1, dropped => (s, dropped, .err .stuck)
  | f+1, s, n+1, dropped =>
    let (s', d, r) := rd s (min buf (n+1))
    let left := n + 1 - d.length
    match r with
    | .ok => discardN rd buf f s' left (dropped ++ d)
    | r => (s', dropped ++ d, if left = 0 then .ok else r)

/-! ## Chunk reader adapters -/

/-- What `readerBackedChunkReader.Read` stores in `r.err` after `io.ReadFull` returned `r`:
`if err == io.ErrUnexpectedEOF { r.err = io.EOF } else { r.err = err }`. -/
def rbcSticky (r : Res) : Option Res :=
  if r = .ok then none else if r = .err (.src 0) then some .eof else some r

/-- `readerBackedChunkReader`: the reader state and `r.err`. -/
def rbcStep {σ : Type} (rd : Rd σ) (fuel max : Nat) : Step (σ × Option Res)
  | (s, some r) => ((s, some r), [], r)
  | (s, none) =>
    let (s', got, r) := readFull rd fuel s max []
    let st := rbcSticky r
    if got.length > 0 then ((s', st), got, .ok) else ((s', st), [], st.getD .ok)

/-- `discardFromChunkReader`: dropped bytes (ghost), the remainder of the chunk
straddling the offset, and the error if any (`eof` included). -/
def discardChunks {σ : Type} (step : Step σ) : Nat → σ → Nat → List Nat → σ × List Nat × List Nat × Option Res
  | _, s, 0, dropped => (s, dropped, [], none)
  | 0, s, _+1, dropped => (s, dropped, [], some (.err .stuck))
  | f+1, s, off+1, dropped =>
    let (s', ch, r) := step s
    match r with
    | .ok =>
      if off + 1 < ch.length then (s', dropped ++ ch.take (off+1), ch.drop (off+1), none)
      else discardChunks step f s' (off + 1 - ch.length) (dropped ++ ch)
    | r => (s', dropped, [], some r)

/-- `offsetChunkReader` (or the error chunk reader `newOffsetChunkReader` falls back to). -/
structure Off (σ : Type) where
  inner : σ
  pending : List Nat := []
  fixed : Option Res := none

def offInit {σ : Type} (step : Step σ) (fuel : Nat) (s : σ) (off : Nat) : Off σ × List Nat :=
  let (s', dropped, pre, e) := discardChunks step fuel s off []
  ({ inner := s', pending := pre, fixed := e }, dropped)

def offStep {σ : Type} (step : Step σ) : Step (Off σ) := fun o =>
  match o.fixed with
  | some r => (o, [], r)
  | none =>
    if o.pending.isEmpty then
      let (s', ch, r) := step o.inner
      ({ o with inner := s' }, ch, r)
    else ({ o with pending := [] }, o.pending, .ok)

/-- The loop of `normalizingChunkReader.Read` while `lastChunk` is empty: read until a
non-empty chunk or an error arrives. -/
def normFetch {σ : Type} (step : Step σ) : Nat → σ → σ × List Nat × Res
  | 0, s => (s, [], .err .stuck)
  | f+1, s =>
    let (s', ch, r) := step s
    match r with
    | .ok => if ch.length > 0 then (s', ch, .ok) else normFetch step f s'
    | r => (s', [], r)

/-- Hand out at most `max` bytes of a non-empty `lastChunk`. -/
def normSplit {σ : Type} (max : Nat) (s : σ) (last : List Nat) : (σ × List Nat) × List Nat × Res :=
  if last.length > max then ((s, last.drop max), last.take max, .ok) else ((s, []), last, .ok)

/-- `normalizingChunkReader.Read`; the state is the chunk reader and `lastChunk`. -/
def normStep {σ : Type} (step : Step σ) (max fuel : Nat) : Step (σ × List Nat)
  | (s, last) =>
    if last.length > 0 then normSplit max s last
    else
      let (s', ch, r) := normFetch step fuel s
      match r with
      | .ok => normSplit max s' ch
      | r => ((s', []), [], r)

/-- The loop of `chunkReaderBackedReader.Read` with `left` bytes of `p` unfilled. -/
def cbrLoop {σ : Type} (step : Step σ) : Nat → σ → Nat → List Nat → (σ × List Nat) × List Nat × Res
  | _, s, 0, got => ((s, []), got, .ok)
  | 0, s, _+1, got => ((s, []), got, .err .stuck)
  | f+1, s, left+1, got =>
    let (s', ch, r) := step s
    match r with
    | .ok =>
      if ch.length > left + 1 then ((s', ch.drop (left+1)), got ++ ch.take (left+1), .ok)
      else cbrLoop step f s' (left + 1 - ch.length) (got ++ ch)
    | r => ((s', []), got, r)

/-- `chunkReaderBackedReader.Read(p)`, `len(p) = cap`; the state is the chunk reader and `lastChunk`. -/
def cbrRead {σ : Type} (step : Step σ) (fuel : Nat) : Rd (σ × List Nat)
  | (s, last), cap =>
    if cap < last.length then ((s, last.drop cap), last.take cap, .ok)
    else cbrLoop step fuel s (cap - last.length) last

/-! ## Consumers -/

/-- What the consumer of a buffer observes. -/
structure Obs where
  /-- data handed to the consumer, per `Write` / `Read` / chunk / returned slice / `p[:n]` of `ReadAt` -/
  pieces : List (List Nat) := []
  /-- `none`: the consumer stopped reading before the stream ended -/
  res : Option Res := none
  /-- the count returned by `ReadAt` -/
  n : Nat := 0
  verdicts : List Bool := []
deriving Repr

def Obs.data (o : Obs) : List Nat := o.pieces.flatten

/-- `k` calls of `Read()` on a chunk reader, stopping at the first error / EOF. -/
def drainSteps {σ : Type} (step : Step σ) : Nat → σ → List (List Nat) → σ × List (List Nat) × Option Res
  | 0, s, ps => (s, ps, none)
  | k+1, s, ps =>
    let (s', ch, r) := step s
    match r with
    | .ok => drainSteps step k s' (ps ++ [ch])
    | r => (s', ps, some r)

/-- `intoWriterViaChunkReader` (also the loop of `toByteSliceViaChunkReader`). -/
def intoWriterVia {σ : Type} (step : Step σ) : Nat → σ → List (List Nat) → σ × List (List Nat) × Res
  | 0, s, ps => (s, ps, .err .stuck)
  | f+1, s, ps =>
    let (s', ch, r) := step s
    match r with
    | .ok => intoWriterVia step f s' (ps ++ [ch])
    | .eof => (s', ps, .ok)
    | r => (s', ps, r)

/-- First loop of `readAtViaChunkReader`: copy chunks into `p` (`left` bytes unfilled). -/
def fillLoop {σ : Type} (step : Step σ) : Nat → σ → Nat → List Nat → σ × List Nat × Res
  | _, s, 0, got => (s, got, .ok)
  | 0, s, _+1, got => (s, got, .err .stuck)
  | f+1, s, left+1, got =>
    let (s', ch, r) := step s
    match r with
    | .ok => fillLoop step f s' (left + 1 - ch.length) (got ++ ch.take (left+1))
    | r => (s', got, r)

/-- Second loop of `readAtViaChunkReader`: read to the end to force validation. -/
def forceLoop {σ : Type} (step : Step σ) : Nat → σ → σ × Res
  | 0, s => (s, .err .stuck)
  | f+1, s =>
    let (s', _, r) := step s
    match r with
    | .ok => forceLoop step f s'
    | .eof => (s', .ok)
    | r => (s', r)

/-- `readAtViaChunkReader(r, p, off)`, `len(p) = len`, `off ≥ 0`. -/
def readAtVia {σ : Type} (step : Step σ) (fuel : Nat) (s : σ) (off len : Nat) : σ × Obs :=
  let (o, _) := offInit step fuel s off
  let (o1, got, r) := fillLoop (offStep step) fuel o len []
  match r with
  | .ok =>
    let (o2, r2) := forceLoop (offStep step) fuel o1
    match r2 with
    | .ok => (o2.inner, { pieces := [got], res := some .ok, n := got.length })
    | r2 => (o2.inner, { res := some r2 })
  | .eof => (o1.inner, { pieces := [got], res := some .eof, n := got.length })
  | r => (o1.inner, { res := some r })

/-- `toByteSliceViaChunkReader`. -/
def toByteSliceVia {σ : Type} (step : Step σ) (fuel : Nat) (s : σ) (size max : Nat) : σ × Obs :=
  if size > max then (s, { res := some (.err .tooLarge) }) else
  let (s', ps, r) := intoWriterVia step fuel s []
  match r with
  | .ok => (s', { pieces := [ps.flatten], res := some .ok })
  | r => (s', { res := some r })

/-- `Read(p)` calls with the given `len(p)`s, stopping at the first error / EOF. -/
def readSeq {σ : Type} (rd : Rd σ) : List Nat → σ → List (List Nat) → σ × List (List Nat) × Option Res
  | [], s, ps => (s, ps, none)
  | c :: cs, s, ps =>
    let (s', d, r) := rd s c
    match r with
    | .ok => readSeq rd cs s' (ps ++ [d])
    | r => (s', ps ++ [d], some r)

inductive Method
  | intoWriter
  | readAt (off : Int) (len : Nat)
  | toByteSlice (max : Nat)
  | toChunkReader (off : Int) (max : Nat) (reads : Nat)
  | toReader (sizes : List Nat)
  | cloneCopy (max : Nat) (m : Method)
  | cloneStream (m : Method)
  /-- `Buffer.WithTask(task)` with a task that succeeds, then `m` on the decorated buffer.
  `casBufferWithBackgroundTask` forwards every method to its base and appends the task's (nil)
  error; its readers forward every `Read`: the consumer observes what it would on the base. -/
  | withTask (m : Method)
deriving Repr

/-- `byteSliceChunkReader.Read`. -/
def bsStep (max : Nat) : Step (List Nat) := fun d =>
  if d.isEmpty then (d, [], .eof)
  else if d.length ≤ max then ([], d, .ok)
  else (d.drop max, d.take max, .ok)

/-- `bytes.Buffer.Read`. -/
def bufRead : Rd (List Nat) := fun d cap =>
  if d.isEmpty then (d, [], if cap = 0 then .ok else .eof) else (d.drop cap, d.take cap, .ok)

def errStep (r : Res) : Step Unit := fun u => (u, [], r)
def errRead (r : Res) : Rd Unit := fun u _ => (u, [], r)

def obsOf (x : List (List Nat) × Option Res) : Obs := { pieces := x.1, res := x.2 }

/-- Methods of `errorBuffer` holding the error `r`. -/
def runErr (r : Res) : Method → Obs
  | .intoWriter | .readAt _ _ | .toByteSlice _ => { res := some r }
  | .toChunkReader _ _ k => obsOf (drainSteps (errStep r) k () []).2
  | .toReader sizes => obsOf (readSeq (errRead r) sizes () []).2
  | .cloneCopy _ m => runErr r m
  | .cloneStream m => runErr r m
  | .withTask m => runErr r m

/-- Methods of `validatedByteSliceBuffer`. -/
def runSlice (data : List Nat) : Method → Obs
  | .intoWriter => { pieces := [data], res := some .ok }
  | .readAt off len =>
    if off < 0 then { res := some (.err .negOff) }
    else if off.toNat > data.length then { res := some .eof }
    else
      let got := (data.drop off.toNat).take len
      { pieces := [got], n := got.length, res := some (if got.length < len then .eof else .ok) }
  | .toByteSlice max =>
    if data.length > max then { res := some (.err .tooLarge) } else { pieces := [data], res := some .ok }
  | .toChunkReader off max k =>
    if off < 0 then obsOf (drainSteps (errStep (.err .negOff)) k () []).2
    else if off.toNat > data.length then obsOf (drainSteps (errStep (.err .offBeyond)) k () []).2
    else obsOf (drainSteps (bsStep max) k (data.drop off.toNat) []).2
  | .toReader sizes => obsOf (readSeq bufRead sizes data []).2
  | .cloneCopy _ m => runSlice data m
  | .cloneStream m => runSlice data m
  | .withTask m => runSlice data m

/-- `cloneCopyViaByteSlice`: continue on the buffer made from `ToByteSlice`'s result. -/
def afterCopy (o : Obs) (m : Method) : Obs :=
  match o.res with
  | some .ok => runSlice o.data m
  | some r => runErr r m
  | none => o

/-- Chunk size `casClonedBuffer` settles on: the minimum over the consumer's
wish and `defaultChunkSizeBytes` of the discarded handles. -/
def cmaxOf (c : Cfg) : Method → Nat
  | .toChunkReader _ max _ => min max c.defaultChunk
  | .cloneStream m => cmaxOf c m
  | .withTask m => cmaxOf c m
  | _ => c.defaultChunk

/-- Methods of `casClonedBuffer` with a single reading consumer (the other
handles are discarded); `mk cm` is `base.ToChunkReader(0, cm)`. -/
def runCloned {σ : Type} (c : Cfg) (mk : Nat → Step σ) (s : σ) : Method → σ × Obs
  | .intoWriter =>
    let (s', ps, r) := intoWriterVia (mk c.defaultChunk) c.fuel s []
    (s', { pieces := ps, res := some r })
  | .readAt off len =>
    if off < 0 then (s, { res := some (.err .negOff) })
    else readAtVia (mk c.defaultChunk) c.fuel s off.toNat len
  | .toByteSlice max => toByteSliceVia (mk c.defaultChunk) c.fuel s c.size max
  | .toChunkReader off max k =>
    if off < 0 then (s, obsOf (drainSteps (errStep (.err .negOff)) k () []).2) else
    let cm := min max c.defaultChunk
    let (o, _) := offInit (mk cm) c.fuel s off.toNat
    let (o', ps, r) := drainSteps (offStep (mk cm)) k o []
    (o'.inner, obsOf (ps, r))
  | .toReader sizes =>
    let (st, ps, r) := readSeq (cbrRead (mk c.defaultChunk) c.fuel) sizes (s, []) []
    (st.1, obsOf (ps, r))
  | .cloneCopy max m =>
    let (s', o) := toByteSliceVia (mk c.defaultChunk) c.fuel s c.size max
    (s', afterCopy o m)
  | .cloneStream m => runCloned c mk s m
  | .withTask m => runCloned c mk s m

/-- `casReaderBuffer.ToByteSlice`. -/
def readerToByteSlice (c : Cfg) (v0 : VR) (max : Nat) : VR × Obs :=
  if c.size > max then (v0, { res := some (.err .tooLarge) })
  else if c.size > 0 then
    let (v1, got, r) := readFull (VR.read c) c.fuel v0 c.size []
    match r with
    | .ok => (v1, { pieces := [got], res := some .ok })
    | r => (v1, { res := some r })
  else
    let (v1, _, r) := VR.read c v0 0
    match r with
    | .err e => (v1, { res := some (.err e) })
    | _ => (v1, { pieces := [[]], res := some .ok })

/-- `casReaderBuffer.ReadAt(p, off)`, `off ≥ 0`. -/
def readerReadAt (c : Cfg) (v0 : VR) (off len : Nat) : VR × Obs :=
  let (v1, _, r) := discardN (VR.read c) c.discardBuf c.fuel v0 off []
  match r with
  | .ok =>
    let (v2, got, r2) := readFull (VR.read c) c.fuel v1 len []
    match r2 with
    | .ok =>
      let (v3, _, r3) := copyLoop (VR.read c) c.discardBuf c.fuel v2 []
      match r3 with
      | .ok => (v3, { pieces := [got], n := got.length, res := some .ok })
      | r3 => (v3, { res := some r3 })
    | .eof | .err (.src 0) => (v2, { pieces := [got], n := got.length, res := some .eof })
    | r2 => (v2, { res := some r2 })
  | r => (v1, { res := some r })

/-- Methods of `casReaderBuffer`. -/
def runReader (c : Cfg) (v0 : VR) : Method → VR × Obs
  | .intoWriter =>
    let (v, ps, r) := copyLoop (VR.read c) c.copyBuf c.fuel v0 []
    (v, { pieces := ps, res := some r })
  | .readAt off len =>
    if off < 0 then (v0, { res := some (.err .negOff) }) else readerReadAt c v0 off.toNat len
  | .toByteSlice max => readerToByteSlice c v0 max
  | .toChunkReader off max k =>
    if off < 0 then (v0, obsOf (drainSteps (errStep (.err .negOff)) k () []).2)
    else if off.toNat > c.size then (v0, obsOf (drainSteps (errStep (.err .offBeyond)) k () []).2)
    else
      let (v1, _, r) := discardN (VR.read c) c.discardBuf c.fuel v0 off.toNat []
      match r with
      | .ok =>
        let (st, ps, r) := drainSteps (rbcStep (VR.read c) c.fuel max) k (v1, none) []
        (st.1, obsOf (ps, r))
      | r => (v1, obsOf (drainSteps (errStep r) k () []).2)
  | .toReader sizes =>
    let (v, ps, r) := readSeq (VR.read c) sizes v0 []
    (v, obsOf (ps, r))
  | .cloneCopy max m =>
    let (v, o) := readerToByteSlice c v0 max
    (v, afterCopy o m)
  | .cloneStream m =>
    let (st, o) := runCloned c (fun cm => rbcStep (VR.read c) c.fuel cm) (v0, none) m
    (st.1, o)
  | .withTask m => runReader c v0 m

/-- Methods of `casChunkReaderBuffer`. -/
def runChunk (c : Cfg) (v0 : VC) : Method → VC × Obs
  | .intoWriter =>
    let (v, ps, r) := intoWriterVia (VC.read c) c.fuel v0 []
    (v, { pieces := ps, res := some r })
  | .readAt off len =>
    if off < 0 then (v0, { res := some (.err .negOff) }) else readAtVia (VC.read c) c.fuel v0 off.toNat len
  | .toByteSlice max => toByteSliceVia (VC.read c) c.fuel v0 c.size max
  | .toChunkReader off max k =>
    if off < 0 then (v0, obsOf (drainSteps (errStep (.err .negOff)) k () []).2)
    else if off.toNat > c.size then (v0, obsOf (drainSteps (errStep (.err .offBeyond)) k () []).2)
    else
      let (o, _) := offInit (VC.read c) c.fuel v0 off.toNat
      let (st, ps, r) := drainSteps (normStep (offStep (VC.read c)) max c.fuel) k (o, []) []
      (st.1.inner, obsOf (ps, r))
  | .toReader sizes =>
    let (st, ps, r) := readSeq (cbrRead (VC.read c) c.fuel) sizes (v0, []) []
    (st.1, obsOf (ps, r))
  | .cloneCopy max m =>
    let (v, o) := toByteSliceVia (VC.read c) c.fuel v0 c.size max
    (v, afterCopy o m)
  | .cloneStream m =>
    let (st, o) := runCloned c (fun cm => normStep (VC.read c) cm c.fuel) (v0, []) m
    (st.1, o)
  | .withTask m => runChunk c v0 m

inductive Ctor
  | slice (data : List Nat)
  | reader (src : RSrc)
  | chunks (src : CSrc)
deriving Repr

/-- Create the buffer with the given constructor and consume it with the given method. -/
def run (c : Cfg) : Ctor → Method → Obs
  | .slice data, m =>
    if data.length ≠ c.size then { runErr (.err .sizeMismatch) m with verdicts := [false] }
    else if c.H data ≠ c.h then { runErr (.err .hashMismatch) m with verdicts := [false] }
    else { runSlice data m with verdicts := [true] }
  | .reader src, m =>
    let (v, o) := runReader c (VR.init c src) m
    { o with verdicts := v.core.verdicts }
  | .chunks src, m =>
    let (v, o) := runChunk c (VC.init c src) m
    { o with verdicts := v.core.verdicts }

/-- gRPC status code of an error as seen by the consumer (2 = UNKNOWN for the
plain Go error `io.ErrUnexpectedEOF`, 3 = INVALID_ARGUMENT). -/
def Err.code (c : Cfg) : Err → Nat
  | .src 0 => 2
  | .src k => k
  | .tooBig | .sizeMismatch | .hashMismatch | .truncated => c.code
  | .negOff | .offBeyond | .tooLarge => 3
  | .stuck => 0

def RSrc.content (s : RSrc) : List Nat := s.items.flatten
def CSrc.content (s : CSrc) : List Nat := s.chunks.flatten

def Ctor.content : Ctor → List Nat
  | .slice d => d
  | .reader s => s.content
  | .chunks s => s.content

def Ctor.term : Ctor → Term
  | .slice _ => .eof
  | .reader s => s.term
  | .chunks s => s.term
