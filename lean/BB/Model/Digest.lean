import BB.Gen.Digest
import BB.Gen.KeyFormat
/-!
# Model of `pkg/digest`: packed digests, resource-name codecs, digest sets (C20)

Executable, total, core Lean only.  The model says *what the Go code does*:

* A Go `string` is a `List Char` with one `Char` per byte (code points 0..255);
  every operation of the package used here is byte-wise (`strings.FieldsFunc`
  with the ASCII separator `/`, `path.Join`, `strconv`, indexing).
* A `Digest` is its packed string `"<fn>-<hash>-<size>-<instance>"`; all
  accessors go through `unpack`, which re-parses that string exactly as
  `Digest.unpack` does (function digits, the scan for `-` starting at offset
  `shortestSupportedHashStringSize`, the size digits).  `none` = the Go code
  would index out of range / read a non-digit (outside the type's invariant).
* An `InstanceName` is its string; `fields` gives the components.
* `pathJoin` is Go's `path.Join` (drop leading empty elements, join with `/`,
  `path.Clean`); `clean` works on components with a stack, which is the
  documented meaning of `path.Clean` (the correspondence run checks `pathJoin`
  against the real `path.Join` on its own stream of inputs).  Whether the
  ByteStream formatters use it, or a plain join, is read off the source
  (`formatterCleans`).
* Tables (supported functions, hash sizes, inference by hash length, reserved
  keywords, compressors, midfixes) come from `BB.Gen.Digest`, regenerated from
  /repo on every run.
* Where the Go code would panic the model returns `Err.panic`; the theorems
  show that the parsers never do.
* Sets are lists; the operations are the merge loops of `set.go`.  `Build`
  (hash map + `slices.SortFunc`) is modelled by insertion into a sorted
  duplicate-free list and `GetUnion`'s k-way heap merge by a fold of binary
  merges: tied to the code at the observable level only (a sorted
  duplicate-free list is determined by its members: `BB.Digest.sorted_ext`).
-/
namespace BB.Digest
open BB.Gen.Digest

abbrev Str := List Char

/-- Error classes of the package (gRPC code + which message), plus `panic`. -/
inductive Err
  | scheme          -- InvalidArgument "Invalid resource naming scheme"
  | reserved        -- InvalidArgument "Instance name contains reserved keyword"
  | slashes         -- InvalidArgument "Instance name contains redundant slashes"
  | compressor      -- Unimplemented   "Unsupported compression scheme"
  | function        -- InvalidArgument "Unsupported digest function"
  | blobSize        -- InvalidArgument "Invalid blob size"
  | hashLength      -- InvalidArgument "Hash has length"
  | hashChar        -- InvalidArgument "Non-hexadecimal character in digest hash"
  | negSize         -- InvalidArgument "Invalid digest size"
  | unknownFunction -- InvalidArgument "Unknown digest function"
  | nilDigest       -- InvalidArgument "No digest provided"
  | eof             -- io.EOF from the byte reader
  | unexpectedEof   -- io.ErrUnexpectedEOF (inside a varint)
  | varintOverflow  -- binary: varint overflows a 64-bit integer
  | panic           -- the Go code would panic
  deriving DecidableEq, Repr

deriving instance DecidableEq for Except

def Err.label : Err → String
  | .scheme => "InvalidArgument scheme"
  | .reserved => "InvalidArgument reserved"
  | .slashes => "InvalidArgument slashes"
  | .compressor => "Unimplemented compressor"
  | .function => "InvalidArgument function"
  | .blobSize => "InvalidArgument blob-size"
  | .hashLength => "InvalidArgument hash-length"
  | .hashChar => "InvalidArgument hash-char"
  | .negSize => "InvalidArgument digest-size"
  | .unknownFunction => "InvalidArgument unknown-function"
  | .nilDigest => "InvalidArgument nil-digest"
  | .eof => "other eof"
  | .unexpectedEof => "other unexpected-eof"
  | .varintOverflow => "other varint-overflow"
  | .panic => "panic"

/-! ### Strings: fields, join, `path.Join`, decimal and hexadecimal -/

/-- `strings.FieldsFunc(s, r == '/')`: maximal runs of non-slash bytes. `cur` is the current
run, reversed. -/
def fieldsGo : Str → Str → List Str
  | [], cur => if cur.isEmpty then [] else [cur.reverse]
  | c :: cs, cur =>
    if c = '/' then (if cur.isEmpty then fieldsGo cs [] else cur.reverse :: fieldsGo cs [])
    else fieldsGo cs (c :: cur)

def fields (s : Str) : List Str := fieldsGo s []

/-- `strings.Join(xs, "/")`. -/
def join : List Str → Str
  | [] => []
  | [a] => a
  | a :: b :: rest => a ++ '/' :: join (b :: rest)

def dot : Str := ['.']
def dotdot : Str := ['.', '.']

/-- One component of `path.Clean`'s loop; `st` is the output so far as a stack of components
(top first).  For a non-rooted path the stack is always `..`s below ordinary names, so "can
backtrack" (`out.w > dotdot`) is "the top exists and is not `..`". -/
def cleanStep (rooted : Bool) (st : List Str) (c : Str) : List Str :=
  if c = dot then st
  else if c = dotdot then
    match st with
    | [] => if rooted then [] else [dotdot]
    | top :: rest => if top = dotdot then (if rooted then st else dotdot :: st) else rest
  else c :: st

/-- `path.Clean`. -/
def clean (p : Str) : Str :=
  if p.isEmpty then dot else
  let rooted := p.head? = some '/'
  let st := (fields p).foldl (cleanStep rooted) []
  if rooted then '/' :: join st.reverse
  else if st.isEmpty then dot else join st.reverse

/-- `path.Join`. -/
def pathJoin (elems : List Str) : Str :=
  if elems.all (·.isEmpty) then []
  else clean (join (elems.dropWhile (·.isEmpty)))

def digitChar (n : Nat) : Char :=
  match n with
  | 0 => '0' | 1 => '1' | 2 => '2' | 3 => '3' | 4 => '4'
  | 5 => '5' | 6 => '6' | 7 => '7' | 8 => '8' | _ => '9'

def digitVal (c : Char) : Option Nat :=
  if '0' ≤ c ∧ c ≤ '9' then some (c.toNat - 48) else none

def toDecFuel : Nat → Nat → Str
  | 0, _ => []
  | fuel + 1, n => if n < 10 then [digitChar n] else toDecFuel fuel (n / 10) ++ [digitChar (n % 10)]

/-- `strconv.FormatInt(n, 10)` for `n ≥ 0`. -/
def toDec (n : Nat) : Str := toDecFuel (n + 1) n

/-- The digit loop `acc = acc*10 + (c - '0')`; `none` on a non-digit. -/
def decValAux : Str → Nat → Option Nat
  | [], acc => some acc
  | c :: cs, acc =>
    match digitVal c with
    | some d => decValAux cs (acc * 10 + d)
    | none => none

/-- `strconv.ParseUint(s, 10, _)` without the range check. -/
def parseUint (s : Str) : Option Nat := if s.isEmpty then none else decValAux s 0

/-- `strconv.ParseInt(s, 10, 64)`: optional sign, at least one digit, range of int64. -/
def parseInt64 (s : Str) : Option Int :=
  match s with
  | [] => none
  | c :: rest =>
    let neg := decide (c = '-')
    let body := if c = '+' ∨ c = '-' then rest else s
    match parseUint body with
    | none => none
    | some n =>
      if neg then (if n ≤ 2 ^ 63 then some (-(n : Int)) else none)
      else (if n < 2 ^ 63 then some (n : Int) else none)

def isLowerHex (c : Char) : Bool := ('0' ≤ c ∧ c ≤ '9') || ('a' ≤ c ∧ c ≤ 'f')

def hexChar (n : Nat) : Char :=
  match n with
  | 0 => '0' | 1 => '1' | 2 => '2' | 3 => '3' | 4 => '4' | 5 => '5' | 6 => '6' | 7 => '7'
  | 8 => '8' | 9 => '9' | 10 => 'a' | 11 => 'b' | 12 => 'c' | 13 => 'd' | 14 => 'e' | _ => 'f'

def hexVal (c : Char) : Option Nat :=
  if '0' ≤ c ∧ c ≤ '9' then some (c.toNat - 48)
  else if 'a' ≤ c ∧ c ≤ 'f' then some (c.toNat - 87)
  else if 'A' ≤ c ∧ c ≤ 'F' then some (c.toNat - 55)
  else none

/-- `hex.EncodeToString`. Bytes are naturals below 256. -/
def hexEncode : List Nat → Str
  | [] => []
  | b :: bs => hexChar (b / 16 % 16) :: hexChar (b % 16) :: hexEncode bs

/-- `hex.DecodeString`. -/
def hexDecode : Str → Option (List Nat)
  | [] => some []
  | [_] => none
  | a :: b :: rest =>
    match hexVal a, hexVal b, hexDecode rest with
    | some x, some y, some r => some ((x * 16 + y) :: r)
    | _, _, _ => none

/-! ### Digest functions and compressors (tables from `BB.Gen.Digest`) -/

structure BareFn where
  enum : Nat
  hashBytes : Nat
  deriving DecidableEq, Repr

/-- `getBareFunction(e, hashStringSize)`; `UNKNOWN = 0` infers from the hash length. -/
def getBareFunction (e : Nat) (hashStringSize : Nat) : Option BareFn :=
  if e = 0 then (byLength.find? (fun r => r.1 = hashStringSize)).map fun r => ⟨r.2.1, r.2.2⟩
  else (byEnum.find? (fun r => r.1 = e)).map fun r => ⟨r.2.1, r.2.2⟩

/-- `digestFunctionNameToBareFunction[name]`. -/
def fnByName (name : Str) : Option BareFn :=
  (supported.find? (fun r => midfixThreshold < r.1 ∧ r.2 = name)).bind fun r => getBareFunction r.1 0

/-- `digestFunctionEnumToMidfix[e]` (`""` when absent). -/
def fnMidfix (e : Nat) : Str :=
  match supported.find? (fun r => r.1 = e ∧ midfixThreshold < r.1) with
  | some r => r.2
  | none => []

/-- `compressorEnumToMidfix[c]` (`""` when absent). -/
def compressorMidfix (c : Nat) : Str :=
  if c = 0 then identityMidfix
  else match compressors.find? (fun r => r.1 = c) with
    | some r => compressedPrefix ++ r.2
    | none => []

/-- `compressorNameToEnum[name]`. -/
def compressorByName (name : Str) : Option Nat :=
  (compressors.find? (fun r => r.2 = name)).map (·.1)

/-! ### Instance names -/

def kwBlobs : Str := ['b', 'l', 'o', 'b', 's']
def kwCompressedBlobs : Str := ['c', 'o', 'm', 'p', 'r', 'e', 's', 's', 'e', 'd', '-', 'b', 'l', 'o', 'b', 's']
def kwUploads : Str := ['u', 'p', 'l', 'o', 'a', 'd', 's']

def isReserved (c : Str) : Bool := reservedKeywords.contains c

/-- `validateInstanceNameComponents`: in order, an empty component panics, a reserved one is an
error. -/
def validateComponents : List Str → Except Err Unit
  | [] => .ok ()
  | c :: cs =>
    if c.isEmpty then .error .panic
    else if isReserved c then .error .reserved
    else validateComponents cs

def hasDoubleSlash : Str → Bool
  | a :: b :: rest => (a = '/' ∧ b = '/') || hasDoubleSlash (b :: rest)
  | _ => false

/-- `NewInstanceName`. -/
def newInstanceName (s : Str) : Except Err Str :=
  if s.head? = some '/' ∨ s.getLast? = some '/' ∨ hasDoubleSlash s then .error .slashes
  else match validateComponents (fields s) with
    | .error e => .error e
    | .ok _ => .ok s

/-- `NewInstanceNameFromComponents`. -/
def instFromComponents (comps : List Str) : Except Err Str :=
  match validateComponents comps with
  | .error e => .error e
  | .ok _ => .ok (join comps)

/-! ### The packed digest string -/

/-- `Function.newDigestUnchecked`. -/
def pack (fn : Nat) (hash : Str) (size : Nat) (inst : Str) : Str :=
  toDec fn ++ '-' :: (hash ++ '-' :: (toDec size ++ '-' :: inst))

/-- `Function.NewDigest`. -/
def newDigest (f : BareFn) (inst : Str) (hash : Str) (size : Int) : Except Err Str :=
  if hash.length ≠ 2 * f.hashBytes then .error .hashLength
  else if !(hash.all isLowerHex) then .error .hashChar
  else if size < 0 then .error .negSize
  else .ok (pack f.enum hash size.toNat inst)

/-- `InstanceName.GetDigestFunction(e, 0)` followed by `NewDigest`. -/
def mkDigest (inst : Str) (e : Nat) (hash : Str) (size : Int) : Except Err Str :=
  match getBareFunction e 0 with
  | none => .error .unknownFunction
  | some f => newDigest f inst hash size

structure Unpacked where
  fn : Nat
  hashStart : Nat
  hashEnd : Nat
  size : Nat
  sizeEnd : Nat
  deriving DecidableEq, Repr

def notDash (c : Char) : Bool := !(c = '-')

/-- The function digits at the start of the packed string: `v[0]-'0'`, and `v[1]` as a second
digit unless it is the separator.  Returns the function and where the hash starts. -/
def fnDigits (v : Str) : Option (Nat × Nat) :=
  match v with
  | c0 :: c1 :: _ =>
    match digitVal c0 with
    | none => none
    | some d0 =>
      if c1 = '-' then some (d0, 2) else (digitVal c1).map fun d1 => (d0 * 10 + d1, 3)
  | _ => none

/-- `for v[i] != '-' { i++ }` from index `start`: the bytes skipped and the index of the `-`;
`none` when the scan runs off the end (index out of range in Go). -/
def scanFrom (v : Str) (start : Nat) : Option (Str × Nat) :=
  let tail := v.drop start
  let run := tail.takeWhile notDash
  if run.length = tail.length then none else some (run, start + run.length)

/-- `Digest.unpack`. -/
def unpack (v : Str) : Option Unpacked :=
  match fnDigits v with
  | none => none
  | some (fn, hs) =>
    match scanFrom v shortestSupportedHashStringSize with
    | none => none
    | some (_, hashEnd) =>
      match scanFrom v (hashEnd + 1) with
      | none => none
      | some (digits, sizeEnd) =>
        match decValAux digits 0 with
        | none => none
        | some size => some ⟨fn, hs, hashEnd, size, sizeEnd⟩

def hashOf (v : Str) (u : Unpacked) : Str := (v.take u.hashEnd).drop u.hashStart
def instOf (v : Str) (u : Unpacked) : Str := v.drop (u.sizeEnd + 1)

/-- `GetInstanceName` -/
def getInstanceName (v : Str) : Option Str := (unpack v).map (instOf v)
/-- `GetSizeBytes` -/
def getSizeBytes (v : Str) : Option Nat := (unpack v).map (·.size)
/-- `GetHashString` -/
def getHashString (v : Str) : Option Str := (unpack v).map (hashOf v)
/-- `GetDigestFunction().GetEnumValue()` -/
def getFunctionEnum (v : Str) : Option Nat := (unpack v).map (·.fn)

/-- `GetDigestFunction`: the bare function is re-derived with `getBareFunction(fn, 0)`, the
instance name is cut out of the packed string. -/
def getDigestFunction (v : Str) : Option (BareFn × Str) :=
  match unpack v with
  | none => none
  | some u => (getBareFunction u.fn 0).map fun f => (f, instOf v u)

/-- `InstanceName.GetDigestFunction(e, fallbackHashLength)` for an arbitrary `int32` value: only
the enumeration value (or, for `UNKNOWN`, the fallback length) decides; negative values match no
case of the switch. Returns the function's `GetEnumValue()`. -/
def getDigestFunctionEnum (e : Int) (fallback : Nat) : Except Err Nat :=
  if e < 0 then .error .unknownFunction
  else match getBareFunction e.toNat fallback with
    | none => .error .unknownFunction
    | some f => .ok f.enum

/-- `KeyFormat.Combine` (regenerated from the source). -/
def combineKeyFormat (a b : Nat) : Nat := BB.Gen.KeyFormat.combine a b

/-- `GetKey(format)`; `withInstance = true` is `KeyWithInstance`. -/
def getKey (v : Str) (withInstance : Bool) : Option Str :=
  if withInstance then some v else (unpack v).map fun u => v.take u.sizeEnd

/-- `GetProto`: (hash, size_bytes). -/
def getProto (v : Str) : Option (Str × Nat) := (unpack v).map fun u => (hashOf v u, u.size)

/-- `d.GetDigestFunction().NewDigestFromProto(p)`; `p = none` is the nil message. The function of
`d` is re-derived with `getBareFunction(fn, 0)` exactly as `GetDigestFunction` does. -/
def newDigestFromProto (f : BareFn) (inst : Str) (p : Option (Str × Int)) : Except Err Str :=
  match p with
  | none => .error .nilDigest
  | some (hash, size) => newDigest f inst hash size

/-- What the CAS / AC servers do with a request: `GetDigestFunction(e, len(hash))` followed by
`NewDigestFromProto`. -/
def mkDigestWithFallback (inst : Str) (e : Int) (hash : Str) (size : Int) : Except Err Str :=
  if e < 0 then .error .unknownFunction
  else match getBareFunction e.toNat hash.length with
    | none => .error .unknownFunction
    | some f => newDigestFromProto f inst (some (hash, size))

/-! ### ByteStream resource names -/

/-- How the formatters join their elements.  `cleans = true`: `path.Join` (drops empty elements,
joins with `/`, then `path.Clean`, which removes `.` and resolves `..`).  `cleans = false`: the
plain join of the non-empty elements (the repair of the defect found by C20).  Which of the two
the code under test does is read off its source on every run (`BB.Gen.Digest.formatterCleans`). -/
def formatPathWith (cleans : Bool) (elems : List Str) : Str :=
  if cleans then pathJoin elems else join (elems.filter (fun e => !e.isEmpty))

def readPathWith (cleans : Bool) (v : Str) (compressor : Nat) : Option Str :=
  (unpack v).map fun u =>
    formatPathWith cleans [instOf v u, compressorMidfix compressor, fnMidfix u.fn, hashOf v u, toDec u.size]

def writePathWith (cleans : Bool) (v : Str) (uuid : Str) (compressor : Nat) : Option Str :=
  (unpack v).map fun u =>
    formatPathWith cleans
      [instOf v u, kwUploads, uuid, compressorMidfix compressor, fnMidfix u.fn, hashOf v u, toDec u.size]

/-- `GetByteStreamReadPath(compressor)`. -/
def readPath (v : Str) (compressor : Nat) : Option Str := readPathWith formatterCleans v compressor

/-- `GetByteStreamWritePath(uuid, compressor)`; `uuid` is `uuid.String()`. -/
def writePath (v : Str) (uuid : Str) (compressor : Nat) : Option Str :=
  writePathWith formatterCleans v uuid compressor

/-- The loops `for fields[split] != marker { split++; if split > len(fields)-k { error } }`.
Returns the fields before the marker and the fields from the marker on. -/
def findSplit (isMarker : Str → Bool) (k : Nat) : List Str → List Str → Except Err (List Str × List Str)
  | _, [] => .error .panic
  | hdrRev, f :: rest =>
    if isMarker f then .ok (hdrRev.reverse, f :: rest)
    else if rest.length < k then .error .scheme
    else findSplit isMarker k (f :: hdrRev) rest

/-- Remove the leading compression scheme name: `switch trailer[0] { case "blobs": …; case
"compressed-blobs": … }` (no default: anything else is left alone and means IDENTITY). -/
def stripCompression (trailer : List Str) : Except Err (Nat × List Str) :=
  match trailer with
  | [] => .error .panic
  | t0 :: rest =>
    if t0 = kwBlobs then .ok (0, rest)
    else if t0 = kwCompressedBlobs then
      match rest with
      | [] => .error .panic
      | name :: rest' =>
        match compressorByName name with
        | none => .error .compressor
        | some c => .ok (c, rest')
    else .ok (0, trailer)

/-- Explicit digest function name, or inference from the length of the hash field. -/
def resolveFunction (trailer : List Str) : Except Err (BareFn × List Str) :=
  match trailer with
  | [] => .error .panic
  | t0 :: rest =>
    match fnByName t0 with
    | some bf => .ok (bf, rest)
    | none =>
      match getBareFunction 0 t0.length with
      | some bf => .ok (bf, trailer)
      | none => .error .function

/-- Hash and size fields. -/
def finishDigest (bf : BareFn) (inst : Str) (compressor : Nat) (trailer : List Str) : Except Err (Str × Nat) :=
  match trailer with
  | h :: sz :: _ =>
    match parseInt64 sz with
    | none => .error .blobSize
    | some n =>
      match newDigest bf inst h n with
      | .error e => .error e
      | .ok d => .ok (d, compressor)
  | _ => .error .scheme

/-- `newDigestFromByteStreamPathCommon`. -/
def common (header trailer : List Str) : Except Err (Str × Nat) :=
  match instFromComponents header with
  | .error e => .error e
  | .ok inst =>
    match stripCompression trailer with
    | .error e => .error e
    | .ok (compressor, trailer) =>
      match resolveFunction trailer with
      | .error e => .error e
      | .ok (bf, trailer) => finishDigest bf inst compressor trailer

def isBlobsMarker (f : Str) : Bool := decide (f = kwBlobs) || decide (f = kwCompressedBlobs)
def isUploadsMarker (f : Str) : Bool := decide (f = kwUploads)

/-- `NewDigestFromByteStreamReadPath`. -/
def parseRead (p : Str) : Except Err (Str × Nat) :=
  let fs := fields p
  if fs.length < 3 then .error .scheme else
  match findSplit isBlobsMarker 3 [] fs with
  | .error e => .error e
  | .ok (hdr, tr) => common hdr tr

/-- `NewDigestFromByteStreamWritePath`. -/
def parseWrite (p : Str) : Except Err (Str × Nat) :=
  let fs := fields p
  if fs.length < 5 then .error .scheme else
  match findSplit isUploadsMarker 5 [] fs with
  | .error e => .error e
  | .ok (hdr, tr) => common hdr (tr.drop 2)

/-! ### Compact binary -/

def putUvarintFuel : Nat → Nat → List Nat
  | 0, _ => []
  | fuel + 1, x => if x < 128 then [x] else (x % 128 + 128) :: putUvarintFuel fuel (x / 128)

/-- `binary.PutUvarint`. -/
def putUvarint (x : Nat) : List Nat := putUvarintFuel (x + 1) x

/-- `binary.PutVarint` (zig-zag). -/
def putVarint (x : Int) : List Nat :=
  putUvarint (if 0 ≤ x then 2 * x.toNat else 2 * (-x).toNat - 1)

/-- `binary.ReadUvarint`'s loop with `k` iterations left, at iteration `i`, accumulated value `x`,
shift `s`.  Returns the value and the unread bytes. -/
def readUvarintGo : Nat → Nat → Nat → Nat → List Nat → Except Err (Nat × List Nat)
  | 0, _, _, _, _ => .error .varintOverflow
  | _ + 1, i, _, _, [] => .error (if 0 < i then .unexpectedEof else .eof)
  | k + 1, i, x, s, b :: bs =>
    if b < 128 then
      (if i = 9 ∧ 1 < b then .error .varintOverflow else .ok (x + b * 2 ^ s, bs))
    else readUvarintGo k (i + 1) (x + (b % 128) * 2 ^ s) (s + 7) bs

def readUvarint (bs : List Nat) : Except Err (Nat × List Nat) := readUvarintGo 10 0 0 0 bs

/-- `binary.ReadVarint`. -/
def readVarint (bs : List Nat) : Except Err (Int × List Nat) :=
  match readUvarint bs with
  | .error e => .error e
  | .ok (ux, rest) => .ok (if ux % 2 = 1 then -((ux / 2 : Nat) : Int) - 1 else ((ux / 2 : Nat) : Int), rest)

/-- `GetCompactBinary`. -/
def getCompactBinary (v : Str) : Option (List Nat) :=
  match unpack v with
  | none => none
  | some u =>
    match hexDecode (hashOf v u) with
    | none => none     -- panic("Failed to decode digest hash ...")
    | some hb => some (u.fn % 256 :: (hb ++ putVarint u.size))

/-- `InstanceName.NewDigestFromCompactBinary` over a reader holding `bs`. -/
def newDigestFromCompactBinary (inst : Str) (bs : List Nat) : Except Err Str :=
  match bs with
  | [] => .error .eof
  | e :: rest =>
    match getBareFunction e 0 with
    | none => .error .unknownFunction
    | some f =>
      if rest.length < f.hashBytes then .error .eof else
      match readVarint (rest.drop f.hashBytes) with
      | .error e => .error e
      | .ok (size, _) => newDigest f inst (hexEncode (rest.take f.hashBytes)) size

/-! ### Ancestors -/

/-- One round of the trimming loop of `GetDigestsWithParentInstanceNames`:
`end := len-1; for v[end-1] != '/' { end-- }; v = v[:end-1]`. -/
def trimLast (v : Str) : Option Str :=
  match v.reverse with
  | [] => none
  | _ :: r =>
    match r.dropWhile (fun c => !(c = '/')) with
    | [] => none
    | _ :: r' => some r'.reverse

def ancLoop : Nat → Str → List Str → Option (List Str)
  | 0, _, acc => some acc
  | 1, v, acc => some (v :: acc)
  | n + 2, v, acc =>
    match trimLast v with
    | none => none
    | some v' => ancLoop (n + 1) v' (v :: acc)

/-- `GetDigestsWithParentInstanceNames`. -/
def ancestors (v : Str) : Option (List Str) :=
  match unpack v with
  | none => none
  | some u =>
    let start := u.sizeEnd + 1
    let base := v.take start
    if start = v.length then some [base]
    else
      let inst := v.drop start
      let components := 1 + ((inst.drop 1).dropLast).count '/'
      (ancLoop components v []).map (base :: ·)

/-! ### Sets -/

/-- Go's `<` on strings: byte-wise lexicographic. -/
def strLt : Str → Str → Bool
  | [], [] => false
  | [], _ :: _ => true
  | _ :: _, [] => false
  | a :: as, b :: bs => if a < b then true else if a = b then strLt as bs else false

/-- Insert into a sorted duplicate-free list. -/
def insertSorted (x : Str) : List Str → List Str
  | [] => [x]
  | y :: ys => if strLt x y then x :: y :: ys else if x = y then y :: ys else y :: insertSorted x ys

/-- `SetBuilder.Add*` + `Build`: the sorted duplicate-free list of what was added. -/
def build (xs : List Str) : List Str := xs.foldl (fun acc x => insertSorted x acc) []

/-- The loop of `GetDifferenceAndIntersection`: (onlyA, both, onlyB). -/
def daiFuel : Nat → List Str → List Str → List Str × List Str × List Str
  | 0, a, b => (a, [], b)
  | _ + 1, [], b => ([], [], b)
  | _ + 1, a, [] => (a, [], [])
  | fuel + 1, x :: a, y :: b =>
    if strLt x y then
      let r := daiFuel fuel a (y :: b); (x :: r.1, r.2.1, r.2.2)
    else if x = y then
      let r := daiFuel fuel a b; (r.1, x :: r.2.1, r.2.2)
    else
      let r := daiFuel fuel (x :: a) b; (r.1, r.2.1, y :: r.2.2)

def differenceAndIntersection (a b : List Str) : List Str × List Str × List Str :=
  daiFuel (a.length + b.length) a b

/-- Binary merge without duplicates. -/
def mergeFuel : Nat → List Str → List Str → List Str
  | 0, a, b => a ++ b
  | _ + 1, [], b => b
  | _ + 1, a, [] => a
  | fuel + 1, x :: a, y :: b =>
    if strLt x y then x :: mergeFuel fuel a (y :: b)
    else if x = y then x :: mergeFuel fuel a b
    else y :: mergeFuel fuel (x :: a) b

def merge (a b : List Str) : List Str := mergeFuel (a.length + b.length) a b

/-- `GetUnion` (k-way merge as a fold of binary merges; observational tie). -/
def union (sets : List (List Str)) : List Str := sets.foldl merge []

def isEmptyBlob (v : Str) : Bool := getSizeBytes v = some 0

/-- `RemoveEmptyBlob`: scan for the first empty blob; if there is none return the set itself,
otherwise copy the prefix and filter the rest. -/
def removeEmptyBlob : List Str → List Str
  | [] => []
  | d :: ds => if isEmptyBlob d then ds.filter (fun x => !isEmptyBlob x) else d :: removeEmptyBlob ds

/-- Append `d` to the group with key `k`, or open a new group at the end. -/
def addToGroup {κ : Type} [DecidableEq κ] (k : κ) (d : Str) : List (κ × List Str) → List (κ × List Str)
  | [] => [(k, [d])]
  | (k', g) :: rest => if k' = k then (k', g ++ [d]) :: rest else (k', g) :: addToGroup k d rest

def partitionBy {κ : Type} [DecidableEq κ] (key : Str → κ) (s : List Str) : List (κ × List Str) :=
  s.foldl (fun acc d => addToGroup (key d) d acc) []

/-- `PartitionByInstanceName`: groups in order of first occurrence, each in set order. -/
def partitionByInstanceName (s : List Str) : List (List Str) :=
  (partitionBy getInstanceName s).map (·.2)

end BB.Digest
