import BB.Gen.Location
/-!
# Model of `hashingKeyLocationMap` (pkg/blobstore/local/hashing_key_location_map.go)

* Keys are opaque naturals (the harness numbers the 32-byte keys it uses).
* The slot function `FNV-1a(key, attempt) mod recordsCount` is an arbitrary
  function `slot : key → attempt → slot`; the theorems hold for every such
  function, the driver is told the real slots by the harness.
* Block indices are absolute (number of blocks released so far + the relative
  index the Go code uses).  A record is *live* when its block has not been
  released: `thr ≤ loc.blockIndex`, where `thr` is the number of released
  blocks.  This is what `LocationRecordArray.Get` returning
  `ErrLocationRecordInvalid` means (never-written slots are `none`).
* `Location` and `Location.isOlder` are regenerated from location.go.
-/
namespace BB.Index
open BB.Gen

abbrev Loc := Location

structure Rec where
  key : Nat
  att : Nat
  loc : Loc
deriving DecidableEq, Repr

structure Cfg where
  slot : Nat → Nat → Nat
  maxGet : Nat
  maxPut : Nat

/-- The record array, by slot. -/
abbrev Tab := Nat → Option Rec

def Tab.empty : Tab := fun _ => none

def Tab.set (t : Tab) (s : Nat) (r : Rec) : Tab := fun i => if i = s then some r else t i

/-- `recordArray.Get(slot)`: `none` = `ErrLocationRecordInvalid`. -/
def live (thr : Int) (o : Option Rec) : Option Rec :=
  match o with
  | some r => if thr ≤ r.loc.blockIndex then some r else none
  | none => none

/-- `hashingKeyLocationMap.Get`; the fuel is `maximumGetAttempts`. -/
def getAux (c : Cfg) (thr : Int) (t : Tab) (k : Nat) : Nat → Nat → Option Loc
  | 0, _ => none
  | fuel+1, a =>
    match live thr (t (c.slot k a)) with
    | none => none
    | some r => if r.key = k ∧ r.att = a then some r.loc else getAux c thr t k fuel (a+1)

def get (c : Cfg) (thr : Int) (t : Tab) (k : Nat) : Option Loc := getAux c thr t k c.maxGet 0

/-- The label of the Prometheus observation `Put` makes; the two discarding
outcomes carry the record that was dropped. -/
inductive Outcome
  | inserted | updated | ignored
  | tooManyAttempts (r : Rec)
  | tooManyIterations (r : Rec)
deriving Repr

def Outcome.label : Outcome → String
  | .inserted => "inserted"
  | .updated => "updated"
  | .ignored => "ignored"
  | .tooManyAttempts _ => "too-many-attempts"
  | .tooManyIterations _ => "too-many-iterations"

/-- The record a discarding outcome dropped. -/
def Outcome.discarded : Outcome → Option Rec
  | .tooManyAttempts r => some r
  | .tooManyIterations r => some r
  | _ => none

/-- `hashingKeyLocationMap.Put`, one loop iteration per unit of fuel
(`maximumPutAttempts`). -/
def putAux (c : Cfg) (thr : Int) : Nat → Tab → Rec → Tab × Outcome
  | 0, t, r => (t, .tooManyIterations r)
  | fuel+1, t, r =>
    let s := c.slot r.key r.att
    match live thr (t s) with
    | none => (t.set s r, .inserted)
    | some old =>
      if old.key = r.key ∧ old.att = r.att then
        if old.loc.isOlder r.loc then (t.set s r, .updated) else (t, .ignored)
      else
        let t' := if old.loc.isOlder r.loc then t.set s r else t
        let r' := if old.loc.isOlder r.loc then old else r
        let r'' : Rec := { r' with att := r'.att + 1 }
        if c.maxGet ≤ r''.att then (t', .tooManyAttempts r'') else putAux c thr fuel t' r''

def put (c : Cfg) (thr : Int) (t : Tab) (k : Nat) (l : Loc) : Tab × Outcome :=
  putAux c thr c.maxPut t ⟨k, 0, l⟩

end BB.Index
