import BB.Model.CachingLimit
/-!
# `deduplicatingBlobReplicator.ReplicateMultiple` as a concurrent protocol (property C17)

deduplicating_blob_replicator.go:78-139.  Shared state: `inFlight` (the map
`inFlightReplications`, guarded by `br.lock`) and the `replicatingBlob` records it points to
(`regs`; a waiter keeps its pointer after the record has left the map, so records are never
reused: every registration gets a fresh index).  Atomic steps of a caller, chosen after the
lock regions and blocking points of the code:

* `enter`    `br.lock.Lock()` … lookup of the current digest's key … either (not found) create a
             record, store it in the map, `Unlock()` - now *leader* - or (found) `Unlock()` and
             go into the `select` on that record's `finished` channel.  One lock region, so atomic.
* `wake`     the `finished` case of the `select`: success → next digest, failure → `Lock()` and
             loop (= `enter` again for the same digest).
* `abort`    the `ctx.Done()` case of the `select`: return the context's error.
* `sinkReply` return of `br.sink.FindMissing` (error / present / missing; on missing the call of
             `br.base.ReplicateMultiple` starts).
* `copyEnd`  return of `br.base.ReplicateMultiple`.
* `dereg`    `Lock(); delete(map, key); Unlock()`.
* `publish`  `replicatingBlob.success = err == nil; close(finished)` and the return / continue
             that follows (waiters read `success` only after `finished` is closed, so nobody
             can observe the two writes apart).

`sink` and `base` are the environment: their answers are arguments of the steps.
Ghost state (never read by the steps' control flow): the step counter `now`, `tReg`/`tDereg`
of a record, `tStart`/`tEnd`/`seen`/`wit` of a caller.  `wit` collects for every digest the
caller has passed the record that justified passing it together with an instant at which the
caller had seen that record registered.
-/
namespace BB.Caching

inductive Outcome where
  | present              -- sink.FindMissing reported the object present
  | copied               -- base.ReplicateMultiple succeeded
  | sinkErr (e : Err)
  | copyErr (e : Err)
deriving DecidableEq, Repr

def Outcome.err : Outcome → Option Err
  | .present => none
  | .copied => none
  | .sinkErr e => some e
  | .copyErr e => some e

def Outcome.isOk (o : Outcome) : Bool := o.err.isNone

/-- A `replicatingBlob`.  `outcome = none`: `finished` still open. `success` is `outcome.isOk`. -/
structure Reg where
  key : Key := 0
  owner : Nat := 0
  outcome : Option Outcome := none
  tReg : Nat := 0
  tDereg : Option Nat := none
deriving Repr

inductive DPc where
  | enter
  | wait (r : Nat)
  | sink (r : Nat)
  | copy (r : Nat)
  | dereg (r : Nat) (o : Outcome)
  | publish (r : Nat) (o : Outcome)
  | done (res : Option Err)
deriving DecidableEq, Repr

structure DCaller where
  digests : List Key := []          -- ghost: the request
  todo : List Key := []             -- head = digest being processed
  cancelled : Bool := false
  pc : DPc := .done none
  tStart : Nat := 0
  tEnd : Nat := 0
  seen : Nat := 0
  wit : List (Key × Nat × Nat) := []
deriving Repr

structure DState where
  inFlight : Key → Option Nat := fun _ => none
  regs : Nat → Reg := fun _ => {}
  nregs : Nat := 0
  callers : Nat → DCaller := fun _ => {}
  ncallers : Nat := 0
  now : Nat := 0

inductive SinkReply where
  | present
  | missing
  | err (e : Err)
deriving Repr

inductive DAct where
  | call (ks : List Key) (cancelled : Bool)
  | cancel (i : Nat)
  | enter (i : Nat)
  | wake (i : Nat)
  | abort (i : Nat)
  | sinkReply (i : Nat) (r : SinkReply)
  | copyEnd (i : Nat) (r : Option Err)
  | dereg (i : Nat)
  | publish (i : Nat)
deriving Repr

def DState.setCaller (s : DState) (i : Nat) (c : DCaller) : DState :=
  { s with callers := fun j => if j = i then c else s.callers j, now := s.now + 1 }

def DState.setReg (s : DState) (r : Nat) (x : Reg) : DState :=
  { s with regs := fun q => if q = r then x else s.regs q }

/-- What a caller does after a digest has been dealt with successfully. -/
def DCaller.advance (c : DCaller) (k r t now : Nat) (rest : List Key) : DCaller :=
  { c with todo := rest, wit := c.wit ++ [(k, r, t)]
           pc := if rest.isEmpty then .done none else .enter
           tEnd := now }

def dstep (s : DState) : DAct → Option DState
  | .call ks cn =>
    some { s with callers := fun j => if j = s.ncallers then
                    { digests := ks, todo := ks, cancelled := cn, tStart := s.now, tEnd := s.now,
                      pc := if ks.isEmpty then .done none else .enter } else s.callers j
                  ncallers := s.ncallers + 1, now := s.now + 1 }
  | .cancel i =>
    if i < s.ncallers then some (s.setCaller i { s.callers i with cancelled := true }) else none
  | .enter i =>
    if i < s.ncallers then
      let c := s.callers i
      match c.pc, c.todo with
      | .enter, k :: _ =>
        match s.inFlight k with
        | none =>
          some ({ s with inFlight := fun k' => if k' = k then some s.nregs else s.inFlight k'
                         nregs := s.nregs + 1 }.setReg s.nregs { key := k, owner := i, tReg := s.now }
                |>.setCaller i { c with pc := .sink s.nregs })
        | some r => some (s.setCaller i { c with pc := .wait r, seen := s.now })
      | _, _ => none
    else none
  | .wake i =>
    if i < s.ncallers then
      let c := s.callers i
      match c.pc, c.todo with
      | .wait r, k :: rest =>
        match (s.regs r).outcome with
        | some o =>
          if o.isOk then some (s.setCaller i (c.advance k r c.seen s.now rest))
          else some (s.setCaller i { c with pc := .enter })
        | none => none
      | _, _ => none
    else none
  | .abort i =>
    if i < s.ncallers then
      let c := s.callers i
      match c.pc with
      | .wait _ => if c.cancelled then some (s.setCaller i { c with pc := .done (some Err.ctx), tEnd := s.now }) else none
      | _ => none
    else none
  | .sinkReply i rep =>
    if i < s.ncallers then
      let c := s.callers i
      match c.pc with
      | .sink r =>
        some (s.setCaller i { c with pc := match rep with
          | .present => .dereg r .present
          | .missing => .copy r
          | .err e => .dereg r (.sinkErr e) })
      | _ => none
    else none
  | .copyEnd i res =>
    if i < s.ncallers then
      let c := s.callers i
      match c.pc with
      | .copy r =>
        some (s.setCaller i { c with pc := .dereg r (match res with | none => .copied | some e => .copyErr e) })
      | _ => none
    else none
  | .dereg i =>
    if i < s.ncallers then
      let c := s.callers i
      match c.pc, c.todo with
      | .dereg r o, k :: _ =>
        some ({ s with inFlight := fun k' => if k' = k then none else s.inFlight k' }.setReg r
                { s.regs r with tDereg := some s.now }
              |>.setCaller i { c with pc := .publish r o })
      | _, _ => none
    else none
  | .publish i =>
    if i < s.ncallers then
      let c := s.callers i
      match c.pc, c.todo with
      | .publish r o, k :: rest =>
        let s1 := s.setReg r { s.regs r with outcome := some o }
        match o.err with
        | none => some (s1.setCaller i (c.advance k r ((s.regs r).tDereg.getD s.now) s.now rest))
        | some e => some (s1.setCaller i { c with pc := .done (some e), tEnd := s.now })
      | _, _ => none
    else none

def drun (s : DState) : List DAct → Option DState
  | [] => some s
  | a :: as => match dstep s a with
    | some s' => drun s' as
    | none => none

/-- Caller `c` is inside `base.ReplicateMultiple` for key `k`. -/
def DCaller.copying (c : DCaller) (k : Key) : Prop := (∃ r, c.pc = .copy r) ∧ c.todo.head? = some k

end BB.Caching
