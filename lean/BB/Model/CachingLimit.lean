import BB.Model.Caching
/-!
# Concurrency-limiting and queued replicators as counter protocols (property C17)

Callers are entries of a list (index = caller id); a step is taken by one caller or by the
environment (a new call, a context cancellation, the return of the wrapped `base` replicator).
`lstep` / `qstep` return `none` when the step is not enabled.  The theorems quantify over all
step sequences.

`concurrencyLimitingBlobReplicator.ReplicateMultiple` (concurrency_limiting_blob_replicator.go:60-67):
`AcquireSemaphore` (error of the context when it is cancelled before or while waiting), `base`,
`Release`.  `semaphore.Weighted` hands out permits in FIFO order; the model allows any waiting
caller to acquire when a permit is free (a superset of the FIFO behaviours).

`queuedBlobReplicator.ReplicateMultiple` (queued_blob_replicator.go:64-90): `RemoveExisting` (return
nil if nothing is left), take the token from the 1-buffered channel or give up on cancellation,
`RemoveExisting` again, `base` with what is left, `Add` on success, put the token back.
-/
namespace BB.Caching

/-- `util.StatusFromContext` of a cancelled context: CANCELLED. -/
def Err.ctx : Err := ⟨1, 0⟩

/-! ## concurrency limiting -/

inductive LPc where
  | waiting                      -- in AcquireSemaphore
  | inBase                       -- inside base.ReplicateMultiple, holding a permit
  | afterBase (r : Option Err)   -- base returned, permit not yet released
  | done (r : Option Err)
deriving DecidableEq, Repr

/-- Which entry point the caller used.  `ReplicateSingle` and `ReplicateComposite`
(concurrency_limiting_blob_replicator.go:37-58) both call `br.ReplicateMultiple` of the
(parent) digest - so they take a permit exactly like `multi` - and then read the sink, turning
NOT_FOUND into INTERNAL. -/
inductive LKind where
  | multi
  | single
  | composite
deriving DecidableEq, Repr

structure LCaller where
  keys : List Key
  cancelled : Bool
  pc : LPc
  kind : LKind := .multi
deriving Repr

structure LState where
  cap : Nat
  held : Nat := 0
  callers : List LCaller := []
  sink : Key → Bool := fun _ => false   -- what the sink holds (only read by single / composite)

inductive LAct where
  | call (keys : List Key) (cancelled : Bool)
  | callRead (kind : LKind) (key : Key) (cancelled : Bool)   -- ReplicateSingle / ReplicateComposite
  | baseCopied (i : Nat)           -- base returned nil after copying its digests into the sink
  | cancel (i : Nat)
  | acquire (i : Nat)
  | abort (i : Nat)
  | baseEnd (i : Nat) (r : Option Err)
  | release (i : Nat)
deriving Repr

def LPc.holds : LPc → Bool
  | .inBase => true
  | .afterBase _ => true
  | _ => false

def LPc.isInBase : LPc → Bool
  | .inBase => true
  | _ => false

/-- What the caller finally returns once the permit is back. -/
def LCaller.final (c : LCaller) (sink : Key → Bool) (r : Option Err) : Option Err :=
  match r, c.kind with
  | some e, _ => some e
  | none, .multi => none
  | none, _ => if c.keys.all sink then none else some ⟨internal, 0⟩

def lstep (s : LState) : LAct → Option LState
  | .call ks cn => some { s with callers := s.callers ++ [⟨ks, cn, .waiting, .multi⟩] }
  | .callRead kind k cn => some { s with callers := s.callers ++ [⟨[k], cn, .waiting, kind⟩] }
  | .baseCopied i =>
    match s.callers[i]? with
    | some c =>
      match c.pc with
      | .inBase => some { s with callers := s.callers.set i { c with pc := .afterBase none }
                                 sink := fun k => c.keys.contains k || s.sink k }
      | _ => none
    | none => none
  | .cancel i =>
    match s.callers[i]? with
    | some c => some { s with callers := s.callers.set i { c with cancelled := true } }
    | none => none
  | .acquire i =>
    match s.callers[i]? with
    | some c =>
      match c.pc with
      | .waiting =>
        if s.held < s.cap then
          some { s with held := s.held + 1, callers := s.callers.set i { c with pc := .inBase } }
        else none
      | _ => none
    | none => none
  | .abort i =>
    match s.callers[i]? with
    | some c =>
      match c.pc with
      | .waiting =>
        if c.cancelled then some { s with callers := s.callers.set i { c with pc := .done (some Err.ctx) } }
        else none
      | _ => none
    | none => none
  | .baseEnd i r =>
    match s.callers[i]? with
    | some c =>
      match c.pc with
      | .inBase => some { s with callers := s.callers.set i { c with pc := .afterBase r } }
      | _ => none
    | none => none
  | .release i =>
    match s.callers[i]? with
    | some c =>
      match c.pc with
      | .afterBase r =>
        some { s with held := s.held - 1, callers := s.callers.set i { c with pc := .done (c.final s.sink r) } }
      | _ => none
    | none => none

def lrun (s : LState) : List LAct → Option LState
  | [] => some s
  | a :: as => match lstep s a with
    | some s' => lrun s' as
    | none => none

/-- Number of callers currently inside `base.ReplicateMultiple`. -/
def LState.inBase (s : LState) : Nat := s.callers.countP fun c => c.pc.isInBase

/-! ## queued -/

inductive QPc where
  | queueing                     -- in the select on the token channel
  | inBase (ks : List Key)       -- inside base.ReplicateMultiple(ks), holding the token
  | afterBase (r : Option Err)   -- base returned (and Add done), token not yet returned
  | done (r : Option Err)
deriving DecidableEq, Repr

structure QCaller where
  keys : List Key
  cancelled : Bool
  pc : QPc
deriving Repr

structure QState where
  token : Bool := true
  cache : ECache
  callers : List QCaller := []

inductive QAct where
  | call (keys : List Key) (cancelled : Bool) (now : Nat)
  | cancel (i : Nat)
  | take (i : Nat) (now : Nat)
  | abort (i : Nat)
  | baseEnd (i : Nat) (r : Option Err) (now : Nat)
  | giveBack (i : Nat)

def QPc.holds : QPc → Bool
  | .inBase _ => true
  | .afterBase _ => true
  | _ => false

def QPc.isInBase : QPc → Bool
  | .inBase _ => true
  | _ => false

def qstep (s : QState) : QAct → Option QState
  | .call ks cn now =>
    let r := s.cache.removeExisting now ks
    some { s with cache := r.1
                  callers := s.callers ++ [⟨ks, cn, if r.2.isEmpty then .done none else .queueing⟩] }
  | .cancel i =>
    match s.callers[i]? with
    | some c => some { s with callers := s.callers.set i { c with cancelled := true } }
    | none => none
  | .take i now =>
    match s.callers[i]? with
    | some c =>
      match c.pc with
      | .queueing =>
        if s.token then
          let r := s.cache.removeExisting now c.keys
          some { s with token := false, cache := r.1, callers := s.callers.set i { c with pc := .inBase r.2 } }
        else none
      | _ => none
    | none => none
  | .abort i =>
    match s.callers[i]? with
    | some c =>
      match c.pc with
      | .queueing =>
        if c.cancelled then some { s with callers := s.callers.set i { c with pc := .done (some Err.ctx) } }
        else none
      | _ => none
    | none => none
  | .baseEnd i r now =>
    match s.callers[i]? with
    | some c =>
      match c.pc with
      | .inBase ks =>
        some { s with cache := (if r.isNone then s.cache.add now ks else s.cache)
                      callers := s.callers.set i { c with pc := .afterBase r } }
      | _ => none
    | none => none
  | .giveBack i =>
    match s.callers[i]? with
    | some c =>
      match c.pc with
      | .afterBase r => some { s with token := true, callers := s.callers.set i { c with pc := .done r } }
      | _ => none
    | none => none

def qrun (s : QState) : List QAct → Option QState
  | [] => some s
  | a :: as => match qstep s a with
    | some s' => qrun s' as
    | none => none

def QState.inBase (s : QState) : Nat := s.callers.countP fun c => c.pc.isInBase

end BB.Caching
