import BB.Gen.KeyFormat
/-!
# What an existence cache in front of a configured stack is keyed by (property C17)

`pkg/blobstore/configuration/new_blob_access.go` hands every constructed backend on together
with the digest key format (`BlobAccessInfo.DigestKeyFormat`) that decorators with per-digest
state - the existence cache above all - have to use: `local` announces its own format,
`read_fallback` and `mirrored` the `Combine` of their two backends' formats, `read_caching` the
slow backend's (its `FindMissing` only asks the slow backend).  `combine` is the *generated*
`BB.Gen.KeyFormat.combine` (regenerated from pkg/digest/digest.go on every run).
`digestKey` is `Digest.GetKey`: the instance name is part of the key only with `keyWithInstance`.
-/
namespace BB.Caching
open BB.Gen.KeyFormat

inductive Shape where
  | localS      -- the first backend on its own
  | fallback    -- read_fallback: first = primary, second = secondary
  | caching     -- read_caching: first = fast, second = slow
  | mirrored    -- mirrored: backend A, backend B
deriving DecidableEq, Repr

/-- The format announced for a stack of the given shape over backends announcing `fa` and `fb`. -/
def stackFormat : Shape → Nat → Nat → Nat
  | .localS, fa, _ => fa
  | .fallback, fa, fb => combine fa fb
  | .caching, _, fb => fb
  | .mirrored, fa, fb => combine fa fb

/-- `Digest.GetKey(format)` for a digest of instance name `inst` and hash/size `hash`. -/
def digestKey (fmt : Nat) (inst hash : Nat) : Option Nat × Nat :=
  if fmt = keyWithInstance then (some inst, hash) else (none, hash)

end BB.Caching
