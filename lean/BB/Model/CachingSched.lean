import BB.Model.CachingDedup
/-!
# Running the protocol models to quiescence (used by the C17 driver)

The harness performs one environment action at a time (start a caller, cancel a context,
release a gated `sink` / `base` call) and then lets the real goroutines run until all of them
are blocked.  `settle` does the same on a model: it repeatedly lets the first caller (in a
priority order supplied by the harness: callers it saw arriving at a gate first) that has an
enabled *internal* step take it - every such step is an application of `dstep` / `lstep` /
`qstep`, i.e. the transition functions the theorems are about.  `aborters` are the callers the
harness saw returning their context's error; they resolve the one choice a caller has
(`select` between its wake-up and `ctx.Done()`).

The theorems quantify over all schedules; this particular scheduler only has to reproduce the
schedules the Go runtime actually produced.
-/
namespace BB.Caching

def settleLoop {σ : Type} (f : σ → Nat → Option σ) (order : List Nat) : Nat → σ → σ
  | 0, s => s
  | fuel + 1, s =>
    match order.findSome? (f s) with
    | some s' => settleLoop f order fuel s'
    | none => s

/-- The internal step caller `i` can take (if any). -/
def dInternal (aborters : List Nat) (s : DState) (i : Nat) : Option DState :=
  if i < s.ncallers then
    match (s.callers i).pc with
    | .enter => dstep s (.enter i)
    | .wait r =>
      let finished := (s.regs r).outcome.isSome
      if (s.callers i).cancelled && (!finished || aborters.contains i) then dstep s (.abort i)
      else if finished then dstep s (.wake i)
      else none
    | .dereg _ _ => dstep s (.dereg i)
    | .publish _ _ => dstep s (.publish i)
    | _ => none
  else none

def dSettle (prio aborters : List Nat) (s : DState) : DState :=
  settleLoop (dInternal aborters) (prio ++ List.range s.ncallers) (64 + 16 * s.ncallers) s

def lInternal (aborters : List Nat) (s : LState) (i : Nat) : Option LState :=
  match s.callers[i]? with
  | some c =>
    match c.pc with
    | .waiting =>
      if c.cancelled && aborters.contains i then lstep s (.abort i)
      else lstep s (.acquire i)
    | .afterBase _ => lstep s (.release i)
    | _ => none
  | none => none

def lSettle (prio aborters : List Nat) (s : LState) : LState :=
  settleLoop (lInternal aborters) (prio ++ List.range s.callers.length) (64 + 16 * s.callers.length) s

def qInternal (now : Nat) (aborters : List Nat) (s : QState) (i : Nat) : Option QState :=
  match s.callers[i]? with
  | some c =>
    match c.pc with
    | .queueing =>
      if c.cancelled && aborters.contains i then qstep s (.abort i)
      else qstep s (.take i now)
    | .afterBase _ => qstep s (.giveBack i)
    | _ => none
  | none => none

def qSettle (now : Nat) (prio aborters : List Nat) (s : QState) : QState :=
  settleLoop (qInternal now aborters) (prio ++ List.range s.callers.length) (64 + 16 * s.callers.length) s

end BB.Caching
