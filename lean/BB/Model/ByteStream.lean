/-!
# Model of the ByteStream / CAS / AC gRPC services and of the CAS client

Go sources: `pkg/blobstore/grpcservers/{byte_stream_server,content_addressable_storage_server,
action_cache_server}.go`, `pkg/blobstore/grpcclients/cas_blob_access.go`.

* Bytes are naturals, contents are `List Nat`.  A digest is `(hash, size)`.
* External collaborators are parameters (`Codec`): the hash function `H`, the
  streaming zstd decoder `dec` (output produced from a complete input, and how the
  decoder ends on it: cleanly at a frame boundary, in the middle of a frame =
  `io.ErrUnexpectedEOF`, or with a format error) and the encoder `enc`.
* The client side of a `Write` RPC is a finite script: the messages and the event
  `Recv` reports after them (`io.EOF` = half-close, or a status error).
* The backend is an association list that validates nothing by itself on `Put`;
  `Get` wraps what is stored into a validating CAS buffer (`getValidated`).
* `Flags` selects the behaviour as pinned (`strictW = strictR = false`) or
  repaired (D5: the zstd write path checks that the first `write_offset` is 0;
  D6: the zstd read path honours `read_offset`; D10: the zstd client does not hand
  out data together with `io.EOF`).
-/
namespace BB.ByteStream

abbrev Bytes := List Nat

structure Digest where
  hash : Bytes
  size : Nat
deriving DecidableEq, Repr

structure Err where
  code : Nat
  tag : String
deriving DecidableEq, Repr

def eOffset : Err := ⟨3, "offset"⟩
def eTwice : Err := ⟨3, "twice"⟩
def eNoFinish : Err := ⟨3, "nofinish"⟩
def eNoInit : Err := ⟨3, "noinit"⟩
def eName : Err := ⟨3, "name"⟩
def eCompressor : Err := ⟨12, "compressor"⟩
def eLimit : Err := ⟨12, "limit"⟩
def eDecoder : Err := ⟨2, "decoder"⟩
def eNotFound : Err := ⟨5, "notfound"⟩
def eDigest : Err := ⟨3, "digest"⟩
def eBatchSize : Err := ⟨3, "batch-size"⟩
def eTooLarge : Err := ⟨3, "toolarge"⟩
def eTooBig (code : Nat) : Err := ⟨code, "toobig"⟩
def eSize (code : Nat) : Err := ⟨code, "size"⟩
def eHash (code : Nat) : Err := ⟨code, "hash"⟩
def eInjected (code : Nat) : Err := ⟨code, "injected"⟩

inductive DFin
  | clean | trunc | corrupt
deriving DecidableEq, Repr

structure Codec where
  H : Bytes → Bytes
  dec : Bytes → Bytes × DFin
  enc : Bytes → Bytes
  /-- on this input, ending inside a frame, the decoder reports an error of its reader as
  `io.ErrUnexpectedEOF` instead of passing it on (depends on where the input ends) -/
  masks : Bytes → Bool := fun _ => false

structure Flags where
  /-- D5 repaired: `writeZstd` rejects a first request whose `write_offset` is not 0. -/
  strictW : Bool := false
  /-- D6 repaired: the zstd `Read` path validates and honours `read_offset`. -/
  strictR : Bool := false
  /-- `casValidatingReader`'s end-of-data probe accepts `io.ErrUnexpectedEOF` (as pinned). -/
  lenient : Bool := true
  /-- what a decoder's `io.ErrUnexpectedEOF` surfaces as. -/
  truncErr : Err := ⟨2, "unexpected-eof"⟩
  /-- D10 present: the client's `zstdByteStreamChunkReader.Read` hands out the final chunk
  together with `io.EOF`, and the validating chunk reader drops it (happens when the last
  read does not fill the `readChunkSize` buffer and the decoder already saw the end). -/
  clientEOF : Bool := false

/-- Content matches its digest. -/
def Valid (C : Codec) (d : Digest) (c : Bytes) : Prop := c.length = d.size ∧ C.H c = d.hash

instance (C : Codec) (d : Digest) (c : Bytes) : Decidable (Valid C d c) := by
  unfold Valid; exact inferInstance

/-! ## Backend -/

abbrev Store := List (Digest × Bytes)

def Store.get : Store → Digest → Option Bytes
  | [], _ => none
  | (k, v) :: r, d => if k = d then some v else Store.get r d

def Store.put (s : Store) (d : Digest) (c : Bytes) : Store := (d, c) :: s

/-- `Get` of a backend: the stored bytes behind a CAS buffer with `BackendProvided` source
(eager size and checksum validation, INTERNAL on mismatch). -/
def getValidated (C : Codec) (st : Store) (d : Digest) (fault : Option Nat) : Except Err Bytes :=
  match fault with
  | some code => .error (eInjected code)
  | none =>
    match st.get d with
    | none => .error eNotFound
    | some c =>
      if c.length ≠ d.size then .error (eSize 13)
      else if C.H c ≠ d.hash then .error (eHash 13)
      else .ok c

/-- `Put` of a CAS buffer that has already been reduced to "these bytes or this error":
`early` faults discard the buffer, late faults strike after it was consumed. -/
def backendPut (st : Store) (d : Digest) (content : Except Err Bytes) (fault : Option (Nat × Bool)) :
    Store × Option Err :=
  match fault with
  | some (code, true) => (st, some (eInjected code))
  | _ =>
    match content with
    | .error e => (st, some e)
    | .ok c =>
      match fault with
      | some (code, _) => (st, some (eInjected code))
      | none => (st.put d c, none)

/-! ## ByteStream.Write -/

structure WriteReq where
  offset : Int
  data : Bytes
  finish : Bool
deriving DecidableEq, Repr

inductive StreamEnd
  | eof
  | err (code : Nat)
deriving DecidableEq, Repr

inductive NameKind
  | identity | zstd
  | unsupported   -- a compressor REv2 knows, but the server does not implement
  | unknown       -- a compressor name the resource name parser rejects
  | bad           -- malformed resource name
deriving DecidableEq, Repr

/-- `byteStreamWriteServerChunkReader` read to its end through
`casValidatingChunkReader` (UserProvided): per message first the protocol checks of
`setRequest`, then the validator's size check of the chunk; at the end of the
stream the finish / size / checksum checks. -/
def idLoop (C : Codec) (d : Digest) : Int → Bool → Bytes → List WriteReq → StreamEnd → Except Err Bytes
  | _, fin, acc, [], .eof =>
    if !fin then .error eNoFinish
    else if acc.length < d.size then .error (eSize 3)
    else if C.H acc = d.hash then .ok acc else .error (eHash 3)
  | _, _, _, [], .err code => .error (eInjected code)
  | woff, fin, acc, m :: ms, e =>
    if fin then .error eTwice
    else if m.offset ≠ woff then .error eOffset
    else if acc.length + m.data.length > d.size then .error (eTooBig 3)
    else idLoop C d (woff + m.data.length) m.finish (acc ++ m.data) ms e

/-- `zstdWriteStreamReader`: the compressed bytes presented to the decoder and
the event that ends them (`none` = `io.EOF` after a request with `finish_write`). -/
def zCollect : Int → Bool → Bytes → List WriteReq → StreamEnd → Bytes × Option Err
  | _, fin, acc, [], e =>
    if fin then (acc, none)
    else match e with
      | .eof => (acc, some eNoFinish)
      | .err code => (acc, some (eInjected code))
  | noff, fin, acc, m :: ms, e =>
    if fin then (acc, none)
    else if m.offset ≠ noff then (acc, some eOffset)
    else zCollect (noff + m.data.length) m.finish (acc ++ m.data) ms e

/-- The decoder's output read to its end through `casValidatingReader` (UserProvided). -/
def zValidate (C : Codec) (F : Flags) (d : Digest) (acc : Bytes) (term : Option Err) : Except Err Bytes :=
  let out := (C.dec acc).1
  let fin := (C.dec acc).2
  let check : Except Err Bytes := if C.H out = d.hash then .ok out else .error (eHash 3)
  if out.length > d.size then .error (eTooBig 3)
  else if fin = .corrupt then .error eDecoder
  else match term with
    | some e => if fin = .trunc ∧ C.masks acc then .error F.truncErr else .error e
    | none =>
      if fin = .clean then
        (if out.length < d.size then .error (eSize 3) else check)
      else
        (if out.length < d.size then .error F.truncErr
         else if F.lenient then check else .error F.truncErr)

structure WriteFaults where
  put : Option (Nat × Bool) := none
  send : Option Nat := none

/-- `blobAccess.Put` of the buffer followed by `SendAndClose`. -/
def finishWrite (st : Store) (d : Digest) (content : Except Err Bytes) (committed : Nat)
    (wf : WriteFaults) : Store × Except Err Nat :=
  match backendPut st d content wf.put with
  | (st', some e) => (st', .error e)
  | (st', none) =>
    match wf.send with
    | some code => (st', .error (eInjected code))
    | none => (st', .ok committed)

/-- `byteStreamServer.Write`: `kind`/`d` are what the resource name of the first
request parses to. Result: the backend afterwards and the RPC's outcome
(`committed_size` or the error). -/
def write (C : Codec) (F : Flags) (st : Store) (kind : NameKind) (d : Digest)
    (msgs : List WriteReq) (e : StreamEnd) (wf : WriteFaults) : Store × Except Err Nat :=
  match msgs with
  | [] => (st, .error (match e with | .eof => eNoInit | .err code => eInjected code))
  | first :: rest =>
    match kind with
    | .bad => (st, .error eName)
    | .unknown => (st, .error eCompressor)
    | .unsupported => (st, .error eCompressor)
    | .identity =>
      if first.offset ≠ 0 then (st, .error eOffset)
      else finishWrite st d (idLoop C d 0 false [] msgs e) d.size wf
    | .zstd =>
      if F.strictW ∧ first.offset ≠ 0 then (st, .error eOffset)
      else
        let r := zCollect first.data.length first.finish first.data rest e
        finishWrite st d (zValidate C F d r.1 r.2) r.1.length wf

/-! ## ByteStream.Read -/

def chunksAux (cs : Nat) : Nat → Bytes → List Bytes
  | 0, _ => []
  | fuel + 1, l => if l = [] then [] else l.take cs :: chunksAux cs fuel (l.drop cs)

/-- `byteSliceChunkReader`: pieces of exactly `cs` bytes, the last one shorter. -/
def chunks (cs : Nat) (l : Bytes) : List Bytes := chunksAux cs l.length l

structure ReadOut where
  /-- messages sent (identity), in order -/
  sent : List Bytes := []
  /-- zstd: the bytes fed to the encoder are `enc`oded; `zdata` is the encoder's whole output -/
  zdata : Option Bytes := none
  res : Option Err := none
deriving DecidableEq, Repr

/-- `validateReaderOffset`. -/
def offsetOk (size : Nat) (off : Int) : Bool := decide (0 ≤ off) && decide (off ≤ (size : Int))

/-- Send the chunks one by one; the `failAt`-th `Send` (1-based, 0 = never) fails. -/
def sendAll (cks : List Bytes) (failAt : Nat) : ReadOut :=
  if failAt = 0 ∨ cks.length < failAt then { sent := cks }
  else { sent := cks.take (failAt - 1), res := some (eInjected 14) }

/-- Compressed path (repaired): what reaches the client of `plain` when the `failAt`-th `Send`
fails.  Only `0` (never) and `1` (the first) are meaningful: how the encoder cuts its output
into `Send`s is not modelled (a frame is sent also for empty input).  `term` is how the buffer
ended. -/
def zsend (C : Codec) (plain : Bytes) (failAt : Nat) (term : Option Err) : ReadOut :=
  if failAt = 0 then { zdata := some (C.enc plain), res := term }
  else { res := match term with | some e => some e | none => some (eInjected 14) }

/-- `byteStreamServer.Read`. -/
def read (C : Codec) (F : Flags) (st : Store) (kind : NameKind) (d : Digest) (off : Int)
    (limit : Int) (cs : Nat) (failAt : Nat) (getFault : Option Nat) : ReadOut :=
  if limit ≠ 0 then { res := some eLimit } else
  match kind with
  | .bad => { res := some eName }
  | .unknown => { res := some eCompressor }
  | .unsupported => { res := some eCompressor }
  | .identity =>
    match getValidated C st d getFault with
    | .error e => { res := some e }
    | .ok c =>
      if !offsetOk c.length off then { res := some eOffset }
      else sendAll (chunks cs (c.drop off.toNat)) failAt
  | .zstd =>
    match getValidated C st d getFault with
    | .error e => { res := some e }
    | .ok c =>
      if F.strictR then
        (if !offsetOk c.length off then { res := some eOffset }
         else zsend C (c.drop off.toNat) failAt none)
      else { zdata := some (C.enc c) }

/-! ## ByteStream.Read in front of a streaming backend

The backend hands out `NewCASBufferFromChunkReader(digest, medium, BackendProvided)`: the
storage medium yields `pieces` and then ends with `term` (`none` = `io.EOF`, or an I/O
error); validation happens while streaming, so a failing medium or an object that does not
match its digest shows only after part of it has been handed out. -/

structure Source where
  pieces : List Bytes
  term : Option Err
deriving DecidableEq, Repr

/-- what the validator finds when it looks for trailing data after the last expected byte -/
def drain (code : Nat) : List Bytes → Option Err → Option Err
  | [], term => term
  | p :: ps, term => if p.length > 0 then some (eTooBig code) else drain code ps term

/-- `casValidatingChunkReader` over a medium, `acc` already handed out: the chunks it hands
out and how it ends (`none` = `io.EOF` after a positive verdict).  The chunk that completes
the object is withheld unless everything checks out. -/
def vstream (C : Codec) (d : Digest) (code : Nat) : Bytes → List Bytes → Option Err → List Bytes × Option Err
  | _, [], none => ([], some (eSize code))
  | _, [], some e => ([], some e)
  | acc, p :: ps, term =>
    if acc.length + p.length > d.size then ([], some (eTooBig code))
    else if acc.length + p.length = d.size then
      match drain code ps term with
      | some e => ([], some e)
      | none => if C.H (acc ++ p) = d.hash then ([p], none) else ([], some (eHash code))
    else
      let r := vstream C d code (acc ++ p) ps term
      (p :: r.1, r.2)

def vstart (C : Codec) (d : Digest) (code : Nat) (src : Source) : List Bytes × Option Err :=
  if d.size = 0 then
    match drain code src.pieces src.term with
    | some e => ([], some e)
    | none => if C.H [] = d.hash then ([], none) else ([], some (eHash code))
  else vstream C d code [] src.pieces src.term

/-- `discardFromChunkReader` -/
def skipBytes : Nat → List Bytes → List Bytes
  | _, [] => []
  | n, p :: ps => if n = 0 then p :: ps else if n < p.length then p.drop n :: ps else skipBytes (n - p.length) ps

/-- `normalizingChunkReader`: empty chunks dropped, long ones cut, none merged -/
def normalize (cs : Nat) (l : List Bytes) : List Bytes := l.flatMap (chunks cs)

/-- send the chunks, then report how the buffer ended -/
def sendAllThen (cks : List Bytes) (failAt : Nat) (term : Option Err) : ReadOut :=
  if failAt = 0 ∨ cks.length < failAt then { sent := cks, res := term }
  else { sent := cks.take (failAt - 1), res := some (eInjected 14) }

/-- `byteStreamServer.Read` when `Get` yields a streaming CAS buffer over `src`
(or fails outright: `.error`). -/
def readS (C : Codec) (F : Flags) (src : Except Err Source) (kind : NameKind) (d : Digest) (off : Int)
    (limit : Int) (cs : Nat) (failAt : Nat) : ReadOut :=
  if limit ≠ 0 then { res := some eLimit } else
  match kind with
  | .bad => { res := some eName }
  | .unknown => { res := some eCompressor }
  | .unsupported => { res := some eCompressor }
  | .identity =>
    match src with
    | .error e => { res := some e }
    | .ok s =>
      if !offsetOk d.size off then { res := some eOffset }
      else
        let v := vstart C d 13 s
        sendAllThen (normalize cs (skipBytes off.toNat v.1)) failAt v.2
  | .zstd =>
    match src with
    | .error e => { res := some e }
    | .ok s =>
      if F.strictR ∧ !offsetOk d.size off then { res := some eOffset }
      else
        let v := vstart C d 13 s
        let cks := normalize cs (skipBytes (if F.strictR then off.toNat else 0) v.1)
        if cks = [] ∧ v.2 ≠ none then { res := v.2 }
        else if F.strictR then zsend C cks.flatten failAt v.2
        else { zdata := some (C.enc cks.flatten), res := v.2 }

/-- the medium of the recording backend: the stored bytes in pieces of `piece` bytes, cut
short by an I/O error after `k` bytes if `fail = some (k, code)` -/
def mkSource (piece : Nat) (fail : Option (Nat × Nat)) (data : Bytes) : Source :=
  match fail with
  | none => { pieces := chunks piece data, term := none }
  | some (k, code) => { pieces := chunks piece (data.take k), term := some (eInjected code) }

/-! ## ContentAddressableStorage batch calls -/

structure UpdEntry where
  /-- the proto digest does not parse (bad hash, negative size, nil) -/
  bad : Bool
  d : Digest
  data : Bytes
deriving DecidableEq, Repr

/-- `NewCASBufferFromByteSlice` with `UserProvided`, reduced to bytes or error. -/
def sliceBuffer (C : Codec) (d : Digest) (data : Bytes) : Except Err Bytes :=
  if data.length ≠ d.size then .error (eSize 3)
  else if C.H data ≠ d.hash then .error (eHash 3)
  else .ok data

def updLoop (C : Codec) (fault : Option (Nat × Bool)) : Store → List UpdEntry → Store × List (Option Err)
  | st, [] => (st, [])
  | st, u :: us =>
    if u.bad then
      let r := updLoop C fault st us
      (r.1, some eDigest :: r.2)
    else
      let p := backendPut st u.d (sliceBuffer C u.d u.data) fault
      let r := updLoop C fault p.1 us
      (r.1, p.2 :: r.2)

/-- `BatchUpdateBlobs`: `callErr` is the error of the instance name / digest function
of the request as a whole, if any (only looked at for a non-empty request). -/
def batchUpdate (C : Codec) (st : Store) (callErr : Option Err) (us : List UpdEntry)
    (fault : Option (Nat × Bool)) : Store × Except Err (List (Option Err)) :=
  if us = [] then (st, .ok []) else
  match callErr with
  | some e => (st, .error e)
  | none => let r := updLoop C fault st us; (r.1, .ok r.2)

structure RdEntry where
  bad : Bool
  d : Digest
deriving DecidableEq, Repr

/-- first loop of `BatchReadBlobs`: digest parsing and the cumulative size limit -/
def readAdmit : Int → List RdEntry → Option Err
  | _, [] => none
  | remaining, r :: rs =>
    if r.bad then some eDigest
    else if (r.d.size : Int) > remaining then some eBatchSize
    else readAdmit (remaining - r.d.size) rs

def batchRead (C : Codec) (st : Store) (callErr : Option Err) (rs : List RdEntry) (maxBytes : Int)
    (getFault : Option Nat) : Except Err (List (Except Err Bytes)) :=
  if rs = [] then .ok [] else
  match callErr with
  | some e => .error e
  | none =>
    match readAdmit maxBytes rs with
    | some e => .error e
    | none => .ok (rs.map fun r => getValidated C st r.d getFault)

def dedup : List Digest → List Digest
  | [] => []
  | d :: ds => if d ∈ ds then dedup ds else d :: dedup ds

/-- `FindMissingBlobs` in front of an arbitrary backend `FindMissing` function. -/
def findMissing (backend : List Digest → Except Err (List Digest)) (callErr : Option Err)
    (rs : List RdEntry) : Except Err (List Digest) :=
  if rs = [] then .ok [] else
  match callErr with
  | some e => .error e
  | none =>
    if rs.any (·.bad) then .error eDigest
    else backend (dedup (rs.map (·.d)))

/-- the recording backend's `FindMissing` -/
def storeMissing (st : Store) (fault : Option Nat) (ds : List Digest) : Except Err (List Digest) :=
  match fault with
  | some code => .error (eInjected code)
  | none => .ok (ds.filter fun d => (st.get d).isNone)

/-! ## ActionCache -/

/-- `GetActionResult`: the stored marshalled message (`parses` = it unmarshals as an
ActionResult) through `ToProto` with the configured maximum message size. -/
def acGet (parses : Bytes → Bool) (st : Store) (callErr : Option Err) (d : Digest) (maxBytes : Nat)
    (getFault : Option Nat) : Except Err Bytes :=
  match callErr with
  | some e => .error e
  | none =>
    match getFault with
    | some code => .error (eInjected code)
    | none =>
      match st.get d with
      | none => .error eNotFound
      | some m =>
        if !parses m then .error ⟨13, "unmarshal"⟩
        else if m.length > maxBytes then .error eTooLarge
        else .ok m

/-- `UpdateActionResult`: the marshalled message is stored under the action digest as is. -/
def acUpdate (st : Store) (callErr : Option Err) (d : Digest) (m : Bytes)
    (fault : Option (Nat × Bool)) : Store × Option Err :=
  match callErr with
  | some e => (st, some e)
  | none => backendPut st d (.ok m) fault

/-! ## The client (`grpcclients.NewCASBlobAccess`) -/

/-- Messages of `Put`: one per chunk with running offsets, then an empty one carrying
`finish_write`. -/
def putMsgsFrom : Int → List Bytes → List WriteReq
  | off, [] => [⟨off, [], true⟩]
  | off, c :: cs => ⟨off, c, false⟩ :: putMsgsFrom (off + c.length) cs

/-- identity: the buffer cut by `ToChunkReader(0, readChunkSize)` -/
def clientPutMsgs (cs : Nat) (data : Bytes) : List WriteReq := putMsgsFrom 0 (chunks cs data)

/-- zstd: the encoder's `Write` calls (`pieces`, any cutting of the compressed stream) -/
def clientPutMsgsZ (pieces : List Bytes) : List WriteReq := putMsgsFrom 0 pieces

/-- `casValidatingChunkReader` with source code `code` read to the end: chunks, then
`term` (`none` = `io.EOF`). -/
def cvLoop (C : Codec) (d : Digest) (code : Nat) : Bytes → List Bytes → Option Err → Except Err Bytes
  | acc, [], none =>
    if acc.length < d.size then .error (eSize code)
    else if C.H acc = d.hash then .ok acc else .error (eHash code)
  | _, [], some e => .error e
  | acc, c :: cs, term =>
    if acc.length + c.length > d.size then .error (eTooBig code)
    else cvLoop C d code (acc ++ c) cs term

/-- `Get` of the client applied to what the server's `Read` produced. -/
def clientGet (C : Codec) (F : Flags) (cs : Nat) (d : Digest) (r : ReadOut) : Except Err Bytes :=
  match r.zdata with
  | none => cvLoop C d 13 [] r.sent r.res
  | some z =>
    let out := (C.dec z).1
    let fin := (C.dec z).2
    let term : Option Err :=
      if fin = .corrupt then some eDecoder
      else match r.res with
        | some e => some e
        | none => if fin = .clean then none else some F.truncErr
    let seen := if F.clientEOF ∧ term = none then out.take (out.length - out.length % cs) else out
    cvLoop C d 13 [] [seen] term

/-- `FindMissing` of the client in front of the server: one call per digest function
(a single one here), results converted back. -/
def clientFindMissing (backend : List Digest → Except Err (List Digest)) (ds : List Digest) :
    Except Err (List Digest) :=
  findMissing backend none (ds.map fun d => ⟨false, d⟩)

/-- `FindMissing` of the client for a set that spans several instance names / digest
functions: the digests are partitioned (`groups`), one `FindMissingBlobs` call is issued per
partition, the answers are united; the first failing call fails the whole operation. -/
def clientFindMissingP (backend : List Digest → Except Err (List Digest)) :
    List (List Digest) → Except Err (List Digest)
  | [] => .ok []
  | g :: gs =>
    match clientFindMissing backend g with
    | .error e => .error e
    | .ok m =>
      match clientFindMissingP backend gs with
      | .error e => .error e
      | .ok ms => .ok (m ++ ms)

end BB.ByteStream
