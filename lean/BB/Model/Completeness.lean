/-!
# Model of `completenessCheckingBlobAccess`
(pkg/blobstore/completenesschecking/completeness_checking_blob_access.go)

What is modelled, branch by branch:

* `findMissingQueue.add` / `deriveDigest` / `finalize`: a `nil` digest field is skipped, a
  malformed one ends the call with NOT_FOUND, a well-formed one first *flushes* the pending set
  when it already holds `batchSize` distinct digests (`FindMissing`, error => that error, a
  non-empty answer => NOT_FOUND, then a fresh set) and is then added (set semantics: a duplicate
  does not grow the set).
* `checkCompleteness`: the top-level digests in the order output files, per output directory
  tree digest then root directory digest, stdout, stderr; then per output directory:
  tree digest re-derived (absent or malformed => NOT_FOUND), the declared size is taken from the
  remaining total tree size budget (too large => NOT_FOUND), `CAS.Get(tree)`, the streaming walk
  over the top-level fields of the Tree, and finally one more `finalize` (always, also with an
  empty pending set).
* The walk (`util.VisitProtoBytesFields` + the visitor): the Tree as the CAS served it is a list
  of top-level field events - a `root`/`children` field holding a parsable `Directory`
  (`Ev.dir`), a length-delimited field with another number (`Ev.skip`, ignored), or anything the
  wire parser or the `Directory` parser rejects (`Ev.malformed`, INVALID_ARGUMENT; a
  `Directory` larger than the maximum message size is INVALID_ARGUMENT too) - followed by the
  status the underlying reader delivers when read to its end (`readErr`: checksum/size mismatch
  or an I/O error of the CAS; an unreadable object is the empty event list with a `readErr`).
  For every `Directory` the digests of `files` are added, and those of `directories` iff the
  output directory carries a root directory digest.  When the walk fails the reader is drained
  and a read error is preferred over the error of the walk.
* `Get`: an error of the Action Cache is passed on; an `ActionResult` larger than the maximum
  message size is INVALID_ARGUMENT; otherwise the result is returned iff `checkCompleteness`
  returned no error.

External collaborators: the CAS is an arbitrary function of (index of the call within this
`Get`, argument); the presence-oracle-with-fault-script CAS used by the driver is `scriptCas`.
Digests are `(hash id, size)`; the digest function and instance name are fixed per call.
gRPC codes are naturals.

Abstraction noted: when the reader fails, bufio's `Peek(32)` may report the failure before
top-level fields that lie completely inside the last 31 delivered bytes are visited.  Such a
field cannot hold a well-formed digest (a hash has at least 32 characters), so neither the
`FindMissing` batches nor the outcome depend on it; the model visits every delivered complete
field first.
-/
namespace BB.Completeness

abbrev Code := Nat
def notFound : Code := 5
def invalidArgument : Code := 3

/-- A well-formed digest (digest function and instance name fixed). -/
structure Dg where
  hash : Nat
  size : Nat
deriving DecidableEq, Repr

/-- A `Digest` message present on the wire. -/
inductive PD
  | good (d : Dg)
  | bad
deriving DecidableEq, Repr

/-- An optional `Digest` field (`nil` = `none`). -/
abbrev OD := Option PD

structure OutDir where
  tree : OD
  root : OD
deriving DecidableEq, Repr

structure AR where
  /-- marshaled size in bytes -/
  size : Nat
  files : List OD
  dirs : List OutDir
  stdout : OD
  stderr : OD
deriving DecidableEq, Repr

structure Dir where
  /-- marshaled size in bytes -/
  size : Nat
  files : List OD
  dirs : List OD
deriving DecidableEq, Repr

/-- One top-level field of a served Tree, as the streaming visitor experiences it. -/
inductive Ev
  | dir (d : Dir)
  | skip
  | malformed
deriving DecidableEq, Repr

/-- What `CAS.Get(tree).ToReader()` delivers. -/
structure Blob where
  evs : List Ev
  readErr : Option Code
deriving DecidableEq, Repr

/-- Answer of one `FindMissing` call. -/
inductive Ans
  | ok (missing : List Dg)
  | err (c : Code)
deriving DecidableEq, Repr

/-- The CAS: arbitrary behaviour per (index of the call within this `Get`, argument). -/
structure Cas where
  findMissing : Nat → List Dg → Ans
  get : Nat → Dg → Blob

/-- A call the decorator made to the CAS, with the reply it got. -/
inductive Call
  | fm (batch : List Dg) (ans : Ans)
  | get (d : Dg) (b : Blob)
deriving DecidableEq, Repr

structure Cfg where
  batchSize : Nat
  maxMsg : Nat
  budget : Nat

structure St where
  pending : List Dg := []
  trace : List Call := []

abbrev Res := St × Option Code

/-- `findMissingQueue.finalize`. -/
def finalize (cas : Cas) (s : St) : Res :=
  let ans := cas.findMissing s.trace.length s.pending
  let s' : St := { s with trace := s.trace ++ [Call.fm s.pending ans] }
  match ans with
  | .err c => (s', some c)
  | .ok [] => (s', none)
  | .ok (_ :: _) => (s', some notFound)

/-- `findMissingQueue.add`. -/
def add (bs : Nat) (cas : Cas) (s : St) : OD → Res
  | none => (s, none)
  | some .bad => (s, some notFound)
  | some (.good d) =>
    if bs ≤ s.pending.length then
      match finalize cas s with
      | (s', some c) => (s', some c)
      | (s', none) => ({ s' with pending := [d] }, none)
    else
      (if d ∈ s.pending then s else { s with pending := s.pending ++ [d] }, none)

def addAll (bs : Nat) (cas : Cas) : St → List OD → Res
  | s, [] => (s, none)
  | s, d :: ds =>
    match add bs cas s d with
    | (s', some c) => (s', some c)
    | (s', none) => addAll bs cas s' ds

/-- The digest fields of a `Directory` the visitor adds, in its order. -/
def dirDigests (withDirs : Bool) (d : Dir) : List OD :=
  d.files ++ (if withDirs then d.dirs else [])

/-- The visitor run over the top-level fields of one Tree. -/
def walk (cfg : Cfg) (cas : Cas) (withDirs : Bool) : St → List Ev → Res
  | s, [] => (s, none)
  | s, .skip :: es => walk cfg cas withDirs s es
  | s, .malformed :: _ => (s, some invalidArgument)
  | s, .dir d :: es =>
    if cfg.maxMsg < d.size then (s, some invalidArgument) else
    match addAll cfg.batchSize cas s (dirDigests withDirs d) with
    | (s', some c) => (s', some c)
    | (s', none) => walk cfg cas withDirs s' es

/-- One iteration of the second loop of `checkCompleteness`; the third component is the
remaining tree size budget. -/
def checkTree (cfg : Cfg) (cas : Cas) (s : St) (remaining : Nat) (od : OutDir) : St × Option Code × Nat :=
  match od.tree with
  | none => (s, some notFound, remaining)
  | some .bad => (s, some notFound, remaining)
  | some (.good t) =>
    if remaining < t.size then (s, some notFound, remaining) else
    let blob := cas.get s.trace.length t
    let s1 : St := { s with trace := s.trace ++ [Call.get t blob] }
    match walk cfg cas od.root.isSome s1 blob.evs with
    | (s2, some c) => (s2, some (blob.readErr.getD c), remaining - t.size)
    | (s2, none) =>
      match blob.readErr with
      | some c => (s2, some c, remaining - t.size)
      | none => (s2, none, remaining - t.size)

def checkTrees (cfg : Cfg) (cas : Cas) : St → Nat → List OutDir → Res
  | s, _, [] => (s, none)
  | s, rem, od :: ods =>
    match checkTree cfg cas s rem od with
    | (s', some c, _) => (s', some c)
    | (s', none, rem') => checkTrees cfg cas s' rem' ods

/-- The digest fields of the `ActionResult` itself, in the order of the first loops. -/
def topDigests (ar : AR) : List OD :=
  ar.files ++ ar.dirs.flatMap (fun od => [od.tree, od.root]) ++ [ar.stdout, ar.stderr]

/-- `checkCompleteness`. -/
def check (cfg : Cfg) (cas : Cas) (ar : AR) : Res :=
  match addAll cfg.batchSize cas {} (topDigests ar) with
  | (s, some c) => (s, some c)
  | (s, none) =>
    match checkTrees cfg cas s cfg.budget ar.dirs with
    | (s', some c) => (s', some c)
    | (s', none) => finalize cas s'

/-- Reply of the Action Cache backend. -/
inductive AcReply
  | err (c : Code)
  | ok (ar : AR)

inductive Outcome
  | result
  | error (c : Code)
deriving DecidableEq, Repr

/-- `completenessCheckingBlobAccess.Get`: the CAS calls made and what the caller receives. -/
def getAR (cfg : Cfg) (ac : AcReply) (cas : Cas) : List Call × Outcome :=
  match ac with
  | .err c => ([], .error c)
  | .ok ar =>
    if cfg.maxMsg < ar.size then ([], .error invalidArgument) else
    match check cfg cas ar with
    | (s, none) => (s.trace, .result)
    | (s, some c) => (s.trace, .error c)

/-- `completenessCheckingBlobAccess.GetFromComposite`: `slicer.Slice(ba.Get(parent), child)`.
The slicer is an external collaborator that only has the buffer `Get` produced: from an error
buffer it can obtain nothing but that error; from the checked result it produces the child
(`sliceErr = none`) or fails with a code of its own. -/
def getFromComposite (cfg : Cfg) (ac : AcReply) (cas : Cas) (sliceErr : Option Code) : List Call × Outcome :=
  match getAR cfg ac cas with
  | (tr, .result) =>
    (tr, match sliceErr with
      | none => .result
      | some c => .error c)
  | (tr, .error c) => (tr, .error c)

/-- One request as the backends and the caller see it. -/
structure Served where
  /-- CAS calls with their replies -/
  calls : List Call
  /-- number of reads of the Action Cache backend -/
  acReads : Nat
  outcome : Outcome
  /-- the message handed to the caller (`Get`) or to the slicer (`GetFromComposite`) -/
  message : Option AR

/-- A request against an Action Cache whose answer may change from read to read (`acs i` is the
reply to read number `i` of this request; entries can be overwritten while a check is in flight).
The decorator reads the Action Cache once: `CloneCopy` gives it one copy to unmarshal and check and
one to return, so the message handed out is the message that was checked.
`composite = none`: `Get`; `some sliceErr`: `GetFromComposite`. -/
def serve (cfg : Cfg) (acs : Nat → AcReply) (cas : Cas) (composite : Option (Option Code)) : Served :=
  let r := match composite with
    | none => getAR cfg (acs 0) cas
    | some e => getFromComposite cfg (acs 0) cas e
  { calls := r.1, acReads := 1, outcome := r.2,
    message := match r.2, acs 0 with
      | .result, .ok ar => some ar
      | _, _ => none }

/-! ### The scripted CAS of the driver: presence oracle + blob table + fault script -/

/-- `FindMissing` answers `batch ∩ missing`; `Get` serves the blob registered for the digest
(none registered: NOT_FOUND); call number `i` fails with `c` when `(i, c)` is in `faults`. -/
def scriptCas (missing : List Dg) (blobs : List (Dg × Blob)) (faults : List (Nat × Code)) : Cas where
  findMissing := fun i b =>
    match faults.lookup i with
    | some c => .err c
    | none => .ok (b.filter (fun d => decide (d ∈ missing)))
  get := fun i t =>
    match faults.lookup i with
    | some c => ⟨[], some c⟩
    | none =>
      match blobs.lookup t with
      | some b => b
      | none => ⟨[], some notFound⟩

end BB.Completeness
