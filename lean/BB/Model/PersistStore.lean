import BB.Model.PersistWorld
import BB.Model.Store
/-!
# The flat store over the persistence layer

`flatBlobAccess` over `OldCurrentNewLocationBlobMap` (model: `BB.BlockMap`, which decides which
blocks are popped, pushed and written to), `hashingKeyLocationMap` (model: `BB.Index`, run on the
table *as the running process sees it*: every slot of the index device resolved through the block
list) and the world of `BB.Persist`.

The block map model keeps the allocator's free count itself; a block that is in the persistent
block list, or popped from it but not yet released by `NotifyPersistentStateWritten`, is
represented there by one extra entry in `pins` (the list's own reference to the block), which is
exactly what delays the return of its space.

Every function is one lock region of the Go code (or one unlocked action).  `broken` results mark
states the Go code cannot reach without panicking; the harness treats them as disagreements.
-/
namespace BB.Persist
open BB.Index BB.BlockMap

structure FCfg where
  idx : Index.Cfg
  bm : BlockMap.Cfg
  fuelGrow : Nat

structure Full where
  w : World
  bm : BlockMap.St

namespace Full

/-- The key-location table as `LocationRecordArray.Get` presents it: records that do not resolve
(unknown epoch, wrong seed, released block) are invalid. Block indices are absolute. -/
def tab (f : Full) : Index.Tab := fun s =>
  match f.w.idx.curGet s with
  | none => none
  | some r =>
    match f.w.resolve r with
    | none => none
    | some i => some ⟨r.key, r.att, BB.Store.mkLoc (f.w.pbl.released + i) r.off r.size⟩

/-- Records in quarantined blocks are invalid as well (`OldCurrentNewLocationBlobMap`'s resolver). -/
def thr (f : Full) : Int := (f.bm.toBeReleased : Nat)

def lookup (c : FCfg) (f : Full) (k : Nat) : Option BB.Store.Loc := Index.get c.idx f.thr f.tab k

/-- The slots `hashingKeyLocationMap.Put` writes, in order (same recursion as `Index.putAux`). -/
def putWrites (c : Index.Cfg) (thr : Int) : Nat → Index.Tab → Index.Rec → List (Nat × Index.Rec)
  | 0, _, _ => []
  | fuel + 1, t, r =>
    let s := c.slot r.key r.att
    match Index.live thr (t s) with
    | none => [(s, r)]
    | some old =>
      if old.key = r.key ∧ old.att = r.att then
        if old.loc.isOlder r.loc then [(s, r)] else []
      else
        let wr := if old.loc.isOlder r.loc then [(s, r)] else []
        let t' := if old.loc.isOlder r.loc then t.set s r else t
        let r' := if old.loc.isOlder r.loc then old else r
        let r'' : Index.Rec := { r' with att := r'.att + 1 }
        if c.maxGet ≤ r''.att then wr else wr ++ putWrites c thr fuel t' r''

/-- Apply record writes to the index device. `none` = a Go panic in `BlockIndexToBlockReference`. -/
def applyWrites (w : World) : List (Nat × Index.Rec) → Option World
  | [] => some w
  | (s, r) :: rest =>
    match w.recWrite s r.key r.att (BB.Store.locBlk r.loc) (BB.Store.locOff r.loc) (BB.Store.locSize r.loc) with
    | none => none
    | some w => applyWrites w rest

/-- `keyLocationMap.Put(key, location)`. -/
def indexPut (c : FCfg) (f : Full) (k : Nat) (l : BB.Store.Loc) : Option Full :=
  match applyWrites f.w (putWrites c.idx f.thr c.idx.maxPut f.tab ⟨k, 0, l⟩) with
  | none => none
  | some w => some { f with w := w }

def iter {α : Type} (g : α → Option α) : Nat → α → Option α
  | 0, a => some a
  | n + 1, a => match g a with | some a => iter g n a | none => none

/-- Replay on the world what `findBlockWithSpace` did to the block list: `pops` × `PopFront`,
`pushes` × `PushBack`. -/
def replay (w : World) (pops pushes : Nat) : Option World :=
  match iter World.popFront pops w with
  | none => none
  | some w => iter World.pushBack pushes w

/-- Give every block pushed by the last call the list's own reference (they are the last `n`
blocks of the list). -/
def pinPushed (bm0 bm1 : BlockMap.St) : BlockMap.St :=
  let n := bm1.pushes - bm0.pushes
  { bm1 with pins := (List.range n).map (fun i => bm1.released + bm1.caps.length - n + i) ++ bm1.pins }

inductive Alloc
  | ok (id : Nat) (abs off : Nat) (f : Full)
  | closed (f : Full)               -- a writer that discards, a finalizer that says UNAVAILABLE
  | err (code : String) (f : Full)
  | broken

/-- Region 1 of `Put` (and of a refresh): `locationBlobMap.Put(size)`. -/
def allocate (c : FCfg) (f : Full) (size key : Nat) (upload : Bool) : Alloc :=
  if f.bm.free ≠ f.w.free.length ∨ f.bm.released ≠ f.w.pbl.released then .broken else
  if f.w.pbl.closed then
    -- PushBack fails at once; Put on the block list does not touch the block
    match findBlockWithSpace c.bm c.fuelGrow size { f.bm with free := 0 } with
    | .ok (_, bm1) =>
      match replay f.w (bm1.released - f.bm.released) 0 with
      | some w => .closed { w := w, bm := { bm1 with free := f.bm.free } }
      | none => .broken
    | .err e bm1 =>
      match replay f.w (bm1.released - f.bm.released) 0 with
      | some w => .err e { w := w, bm := { bm1 with free := f.bm.free } }
      | none => .broken
    | _ => .broken
  else
    match BlockMap.put c.bm c.fuelGrow size f.bm with
    | .ok (t, bm1) =>
      match replay f.w (bm1.released - f.bm.released) (bm1.pushes - f.bm.pushes) with
      | none => .broken
      | some w =>
        match w.reserve (t.blk - bm1.released) size key upload with
        | .ok o w => if o.off = t.off ∧ o.abs = t.blk then .ok o.id o.abs o.off { w := w, bm := pinPushed f.bm bm1 } else .broken
        | _ => .broken
    | .err e bm1 =>
      match replay f.w (bm1.released - f.bm.released) (bm1.pushes - f.bm.pushes) with
      | none => .broken
      | some w => .err e { w := w, bm := pinPushed f.bm bm1 }
    | _ => .broken

/-- The unlocked copy of an upload. -/
def copy (f : Full) (id data : Nat) : Option Full :=
  match f.w.obj? id, f.w.copy id data with
  | some o, some w => if o.upload then some { w := w, bm := BlockMap.unpin f.bm o.abs } else none
  | _, _ => none

/-- The unlocked copy of a refresh from the location `(slot, off, size)`. -/
def refreshCopy (f : Full) (id slot off size : Nat) : Option (Nat × Full) :=
  match f.w.obj? id, f.w.refreshCopy id slot off size with
  | some o, some (d, w) => some (d, { w := w, bm := BlockMap.unpin f.bm o.abs })
  | _, _ => none

/-- Region 2: `finalizePut`. -/
def finalizePut (c : FCfg) (f : Full) (id : Nat) : Option (String × Full) :=
  match f.w.obj? id with
  | none => none
  | some o =>
    match f.w.finalize id with
    | .bad => none
    | .unavailable => some ("err unavailable", f)
    | .internal => some ("err internal", f)
    | .ok w =>
      let f1 : Full := { f with w := w }
      if f.bm.toBeReleased > o.abs then some ("err internal", f1) else
      match indexPut c f1 o.key (BB.Store.mkLoc o.abs o.off o.size) with
      | some f2 => some ("ok", f2)
      | none => none

/-- `NotifyPersistentStateWritten` seen from the block map: the list's references to the blocks it
releases now are dropped (their absolute indices end at `released - remaining toRelease`). -/
def swDone (f : Full) : Option Full :=
  match f.w.swDone with
  | none => none
  | some w =>
    let n := f.w.pbl.toRelease.length
    let k := min f.w.pbl.releasing n
    let first := f.w.pbl.released - n
    some { w := w, bm := (List.range k).foldl (fun bm i => BlockMap.unpin bm (first + i)) f.bm }

/-- Crash + restart: the world, then `NewOldCurrentNewLocationBlobMap(initialBlocksCount)`. -/
def crashRestart (c : FCfg) (f : Full) (keepData keepIdx : List Bool) (pick : Nat) (leftover : Bool) : Full :=
  let w := f.w.crashRestart keepData keepIdx pick leftover
  let caps := w.pbl.blocks.map fun b => w.cfg.bs - b.cursor
  let bm := BlockMap.init c.bm caps w.free.length
  { w := w, bm := { bm with pins := List.range caps.length } }

end Full

end BB.Persist
