/-!
# Model of stream cloning and background tasks (pkg/blobstore/buffer)

Part A - the concurrency protocol:
* `multiplexedChunkReader` (multiplexed_chunk_reader.go) as a state machine.
  One step = one critical section under the reader's mutex (`readBegin`,
  `close`; the underlying `Read`/`Close` of the source happens inside it) or
  the receive from the one-slot channel a waiting consumer was handed
  (`readEnd`).  The channel has capacity 1 and is fresh per `Read`, so the send
  inside the critical section never blocks: a consumer is `waiting` (its
  channel is in `waitingConsumers`, empty), then `ready r` (channel filled,
  consumer not yet resumed), then `idle` again.
* the source is an arbitrary function `Nat → Res`: the result of its j-th
  `Read` (chunks, EOF or an error at any position, sticky or not).
* `casClonedBuffer` (cas_cloned_buffer.go) negotiation: `consumersRemaining`,
  `consumersWaiting`, `needsValidation`, `maximumChunkSizeBytes` (`none` = -1).

Part B - programs: buffers as a tree of the Go decorator structs, every
method of the `Buffer` interface by structural recursion (further down).

Bytes are naturals, errors are gRPC codes.
-/
namespace BB.Mux

/-- What one `ChunkReader.Read` returns. -/
inductive Res
  | chunk (d : List Nat)
  | eof
  | err (k : Nat)
deriving DecidableEq, Repr, Inhabited

/-- Where a consumer of the multiplexed reader is. -/
inductive CS
  | idle                -- not inside a call
  | waiting             -- inside `Read`, channel registered in `waitingConsumers`, empty
  | ready (r : Res)     -- inside `Read`, channel holds `r`, receive not yet executed
  | closed              -- has called `Close`
deriving DecidableEq, Repr

structure Con where
  st : CS := .idle
  /-- ghost: results its `Read` calls returned so far, oldest first -/
  got : List Res := []
deriving Repr

def Con.live (c : Con) : Bool :=
  match c.st with
  | .idle | .ready _ => true
  | _ => false

def Con.isWaiting (c : Con) : Bool :=
  match c.st with
  | .waiting => true
  | _ => false

def Con.isClosed (c : Con) : Bool :=
  match c.st with
  | .closed => true
  | _ => false

structure St where
  /-- `pendingConsumers` -/
  pending : Nat
  cons : List Con
  /-- number of `Read` calls performed on the source -/
  pos : Nat := 0
  /-- number of `Close` calls performed on the source -/
  closes : Nat := 0
  /-- `r.r != nil` -/
  srcLive : Bool := true
  /-- a Go panic happened ("no pending consumers", or a nil source was used) -/
  panicked : Bool := false
deriving Repr

/-- `newMultiplexedChunkReader(r, additionalConsumers)` -/
def St.init (additional : Nat) : St :=
  { pending := 1 + additional, cons := List.replicate (1 + additional) {} }

inductive Act
  | readBegin (i : Nat)
  | readEnd (i : Nat)
  | close (i : Nat)
deriving DecidableEq, Repr

def Act.who : Act → Nat
  | .readBegin i | .readEnd i | .close i => i

def nWaiting (cons : List Con) : Nat := cons.countP Con.isWaiting

/-- hand the result to every waiting consumer (`c <- readResult{...}`) -/
def deliver (r : Res) (c : Con) : Con :=
  if c.isWaiting then { c with st := .ready r } else c

def St.panic (s : St) : St := { s with panicked := true }

/-- `readAndShareWithOthers(cont)` on behalf of consumer `i`, which ends up in
status `mine` (`cont = 1`: it continues and gets the result itself). -/
def St.share (src : Nat → Res) (s : St) (i : Nat) (cont : Bool) : St :=
  if !s.srcLive then s.panic else
  let r := src s.pos
  let cons1 := s.cons.map (deliver r)
  let cons2 := cons1.modify i fun c =>
    if cont then { c with got := c.got ++ [r] } else { c with st := .closed }
  { s with pending := nWaiting s.cons + (if cont then 1 else 0), cons := cons2, pos := s.pos + 1 }

/-- One atomic step. `none`: the action is not one a well-behaved consumer can
perform now (unknown consumer, a second call while one is in progress, a call
after `Close`, a receive on an empty channel). -/
def step (src : Nat → Res) (s : St) : Act → Option St
  | .readBegin i =>
    match s.cons[i]? with
    | some c =>
      if c.st ≠ .idle then none else
      if s.pending = 0 then some s.panic else
      if s.pending - 1 = 0 then some (s.share src i true)
      else some { s with pending := s.pending - 1, cons := s.cons.modify i fun c => { c with st := .waiting } }
    | none => none
  | .readEnd i =>
    match s.cons[i]? with
    | some c =>
      match c.st with
      | .ready r => some { s with cons := s.cons.modify i fun c => { st := .idle, got := c.got ++ [r] } }
      | _ => none
    | none => none
  | .close i =>
    match s.cons[i]? with
    | some c =>
      if c.st ≠ .idle then none else
      if s.pending = 0 then some s.panic else
      if s.pending - 1 > 0 then
        some { s with pending := s.pending - 1, cons := s.cons.modify i fun c => { c with st := .closed } }
      else if nWaiting s.cons = 0 then
        some { s with pending := 0, cons := s.cons.modify i fun c => { c with st := .closed },
                      closes := s.closes + 1, srcLive := false }
      else some (s.share src i false)
    | none => none

/-- Run a schedule; `none` as soon as an action is not enabled. -/
def run (src : Nat → Res) (s : St) : List Act → Option St
  | [] => some s
  | a :: as => match step src s a with
    | some s' => run src s' as
    | none => none

/-- States reachable from `newMultiplexedChunkReader(r, additional)` by
well-behaved consumers under any interleaving. -/
inductive Reach (src : Nat → Res) (additional : Nat) : St → Prop
  | init : Reach src additional (St.init additional)
  | step {s s' : St} (a : Act) : Reach src additional s → step src s a = some s' → Reach src additional s'

/-- the first `k` results of the source -/
def srcPrefix (src : Nat → Res) (k : Nat) : List Res := (List.range k).map src

/-- A script as used by the driver and the harness: chunks, then the
terminator for ever. -/
def scriptSrc (chunks : List (List Nat)) (term : Res) : Nat → Res :=
  fun j => match chunks[j]? with
    | some d => .chunk d
    | none => term

/-! ## `casClonedBuffer`: the negotiation before the shared reader exists

Every handle (`b, b := CloneStream()` returns the same object twice; a handle
is the right to consume it once) is `fresh`, then `arrived` (inside
`toChunkReader`, blocked on its channel) or directly `served`. -/

inductive HS
  | fresh | arrived | served
deriving DecidableEq, Repr

/-- one creation of the underlying reader: `base.ToChunkReader(0, chunk)` if
`validated`, else `base.toUnvalidatedChunkReader(0, chunk)`, wrapped by
`newMultiplexedChunkReader(r, consumers - 1)` -/
structure Made where
  validated : Bool
  chunk : Nat
  consumers : Nat
deriving DecidableEq, Repr

/-- `b.maximumChunkSizeBytes < 0 || b.maximumChunkSizeBytes > m` -/
def negChunk (cur : Option Nat) (m : Nat) : Option Nat :=
  match cur with
  | none => some m
  | some c => if c > m then some m else some c

structure Neg where
  remaining : Nat := 1
  hs : List HS := [.fresh]
  needsValidation : Bool := false
  maxChunk : Option Nat := none
  made : List Made := []
  /-- ghost: the constraints supplied so far -/
  reqs : List (Bool × Nat) := []
  panicked : Bool := false
deriving Repr

inductive NAct
  | clone (i : Nat)
  | consume (i : Nat) (needsValidation : Bool) (maxChunk : Nat)
deriving DecidableEq, Repr

def HS.isFresh : HS → Bool
  | .fresh => true
  | _ => false

def HS.isArrived : HS → Bool
  | .arrived => true
  | _ => false

def serve (h : HS) : HS := if h.isArrived then .served else h

def Neg.step (s : Neg) : NAct → Option Neg
  | .clone i =>
    match s.hs[i]? with
    | some .fresh =>
      if s.remaining = 0 then some { s with panicked := true }
      else some { s with remaining := s.remaining + 1, hs := s.hs ++ [.fresh] }
    | _ => none
  | .consume i nv mc =>
    match s.hs[i]? with
    | some .fresh =>
      if s.remaining = 0 then some { s with panicked := true } else
      let nv' := s.needsValidation || nv
      let mc' := negChunk s.maxChunk mc
      let reqs' := s.reqs ++ [(nv, mc)]
      if s.remaining - 1 = 0 then
        some { s with remaining := 0, needsValidation := nv', maxChunk := mc', reqs := reqs',
                      made := s.made ++ [⟨nv', mc'.getD 0, 1 + s.hs.countP HS.isArrived⟩],
                      hs := (s.hs.map serve).modify i fun _ => .served }
      else
        some { s with remaining := s.remaining - 1, needsValidation := nv', maxChunk := mc', reqs := reqs',
                      hs := s.hs.modify i fun _ => .arrived }
    | _ => none

inductive NReach : Neg → Prop
  | init : NReach {}
  | step {s s' : Neg} (a : NAct) : NReach s → s.step a = some s' → NReach s'

/-- what the negotiation must arrive at -/
def wantValidated (reqs : List (Bool × Nat)) : Bool := reqs.any (·.1)
def wantChunk (reqs : List (Bool × Nat)) : Option Nat := reqs.foldl (fun m r => negChunk m r.2) none

/-! ## Part B: buffers as decorator trees, every `Buffer` method

One program works on one blob: `d` is the content its digest describes.  A
stream-backed base buffer delivers that content (`good`), other bytes
(`corrupt`: wrong hash or wrong length, what the validators turn into the
Source's code 13), or fails with an I/O error of code `k`.  Whole-stream
semantics: what a consumer observes after reading to the end; partial data in
front of an error is not part of the observation.

`dg` is the `digest` field of the Go struct: `some size`, or `none` for the
zero `digest.Digest` (any use of which panics with an index out of range).

Tasks have ids (`t`) and a result (`none` = nil, `some k` = an error of code
`k`).  Each result carries the set of tasks that are *guaranteed* complete when
the call returns (`waited`): the call executed `<-task.completion` itself, or
obtained its result from a call that did. -/

inductive Quality
  | good | corrupt | ioerr (k : Nat)
deriving DecidableEq, Repr

/-- what the goroutine owning the other handle of a stream clone does with it -/
inductive Sib
  | discard | read
  /-- the owner returns without consuming or discarding the handle (a violation of the contract of
  `CloneStream`; e.g. a task body with an early exit in front of `sink.Put(ctx, digest, b2)`) -/
  | abandon
deriving DecidableEq, Repr

inductive Out
  | ok (d : List Nat) (sound : Bool)   -- `sound = false`: bytes that do not match the digest
  | err (k : Nat)
  | panic
deriving DecidableEq, Repr

inductive Buf
  | err (k : Nat)                                            -- errorBuffer
  | bytes (d : List Nat)                                     -- validatedByteSliceBuffer, protoBuffer
  | readerAt (d : List Nat)                                  -- validatedReaderBuffer
  | stream (chunked : Bool) (size : Nat) (q : Quality) (d : List Nat)  -- casReaderBuffer / casChunkReaderBuffer
  | cloned (base : Buf) (dg : Option Nat) (sibs : List Sib)  -- one handle of a casClonedBuffer
  | task (base : Buf) (dg : Option Nat) (t : Nat) (r : Option Nat)   -- casBufferWithBackgroundTask
  | eh (base : Buf) (dg : Option Nat)                        -- casErrorHandlingBuffer
deriving Repr

/-- the error handler of the programs: translates every error -/
def tr (k : Nat) : Nat := k + 20

def streamRes (q : Quality) (d : List Nat) (validated : Bool) : Out :=
  match q with
  | .good => .ok d true
  | .corrupt => if validated then .err 13 else .ok d false
  | .ioerr k => .err k

/-- `newCASValidating{Chunk,}Reader` on top of an unvalidated stream -/
def validate : Out → Out
  | .ok _ false => .err 13
  | o => o

def trOut : Out → Out
  | .err k => .err (tr k)
  | o => o

def Out.isOk : Out → Bool
  | .ok _ _ => true
  | _ => false

/-- A stream (chunk reader or reader) drained to its end and closed. -/
structure SR where
  res : Out
  /-- tasks complete when the successful end of stream is returned ([] when `res` is an error) -/
  wTerm : List Nat := []
  /-- tasks complete when `Close` returns, whatever was read -/
  wClose : List Nat := []
  /-- readers: the error `Close` returns -/
  closeErr : Option Nat := none
deriving Repr

def SR.panic : SR := { res := .panic }

def wantsValidation (v : Bool) (sibs : List Sib) : Bool := v || sibs.any (· == .read)

/-- `ToChunkReader(0, _)` (`v`) / `toUnvalidatedChunkReader(0, _)` (`!v`) -/
def cr : Buf → Bool → SR
  | .err k, _ => { res := .err k }
  | .bytes d, _ => { res := .ok d true }
  | .readerAt d, _ => { res := .ok d true }
  | .stream _ _ q d, v => { res := streamRes q d v }
  | .cloned base _ sibs, v =>
    -- the multiplexed reader: the result sequence of the negotiated base reader;
    -- this handle's Close need not be the last one
    let r := cr base (wantsValidation v sibs)
    { res := r.res, wTerm := r.wTerm }
  | .task base _ t r, v =>
    let b := cr base v
    match b.res with
    | .panic => SR.panic
    | .err k => { res := .err k, wClose := b.wClose ++ [t] }
    | .ok d s =>
      -- at EOF: Close (which waits), then the task's error or EOF
      match r with
      | some e => { res := .err e, wClose := b.wClose ++ [t] }
      | none => { res := .ok d s, wTerm := b.wTerm ++ b.wClose ++ [t], wClose := b.wClose ++ [t] }
  | .eh base dg, v =>
    let b := cr base false
    let u : SR := { b with res := trOut b.res }
    if !v then u else
    match dg with
    | none => SR.panic
    | some _ =>
      let res := validate u.res
      { res := res, wTerm := if res.isOk then u.wTerm else [], wClose := u.wClose }

/-- `ToReader()` (`v`) / `toUnvalidatedReader(0)` (`!v`) -/
def rd : Buf → Bool → SR
  | .err k, _ => { res := .err k }
  | .bytes d, _ => { res := .ok d true }
  | .readerAt d, _ => { res := .ok d true }
  | .stream _ _ q d, v => { res := streamRes q d v }
  | .cloned base dg sibs, v => cr (.cloned base dg sibs) v
  | .task base _ t r, v =>
    -- Read is not decorated; Close waits and reports
    let b := rd base v
    match b.res with
    | .panic => SR.panic
    | _ => { res := b.res, wTerm := b.wTerm, wClose := b.wClose ++ [t],
             closeErr := match b.closeErr with | some e => some e | none => r }
  | .eh base dg, v =>
    let b := rd base false
    let u : SR := { b with res := trOut b.res }
    if !v then u else
    match dg with
    | none => SR.panic
    | some _ =>
      let res := validate u.res
      { res := res, wTerm := if res.isOk then u.wTerm else [], wClose := u.wClose, closeErr := u.closeErr }

/-- What one method call (for readers and chunk readers: create, drain or not, Close) observes. -/
structure MOut where
  res : Out
  /-- `ReadAt`: `io.EOF` came with the bytes -/
  eof : Bool := false
  closeErr : Option Nat := none
  wTerm : List Nat := []
  /-- tasks guaranteed complete when the call has returned -/
  waited : List Nat := []
deriving Repr

def MOut.panic : MOut := { res := .panic }
/-- a call without a result value (`Discard`, `Close`) -/
def unit : Out := .ok [] true

/-- the decorator's `<-b.task.completion; if err != nil {return err}; return b.task.err` -/
def afterTask (b : MOut) (t : Nat) (r : Option Nat) : MOut :=
  match b.res with
  | .panic => MOut.panic
  | .err k => { b with res := .err k, waited := b.waited ++ [t] }
  | .ok d s =>
    if b.eof then { b with waited := b.waited ++ [t] }   -- ReadAt: io.EOF is returned as the error
    else match r with
      | some e => { b with res := .err e, waited := b.waited ++ [t] }
      | none => { b with res := .ok d s, waited := b.waited ++ [t] }

def trM (b : MOut) : MOut := { b with res := trOut b.res }

def ofSR (r : SR) : MOut :=
  { res := r.res, wTerm := r.wTerm, waited := (if r.res.isOk then r.wTerm else []) ++ r.wClose, closeErr := r.closeErr }

def tooLarge (size max : Nat) : Bool := size > max

def toByteSlice : Buf → Nat → MOut
  | .err k, _ => { res := .err k }
  | .bytes d, max => if tooLarge d.length max then { res := .err 3 } else { res := .ok d true }
  | .readerAt d, max => if tooLarge d.length max then { res := .err 3 } else { res := .ok d true }
  | .stream _ size q d, max => if tooLarge size max then { res := .err 3 } else { res := streamRes q d true }
  | .cloned base dg sibs, max =>
    -- toByteSliceViaChunkReader(b.toChunkReader(true, ..), b.digest, max): reader first, deferred Close
    let r := cr (.cloned base dg sibs) true
    match r.res, dg with
    | .panic, _ => MOut.panic
    | _, none => MOut.panic
    | _, some n => if tooLarge n max then { res := .err 3 } else ofSR r
  | .task base _ t r, max => afterTask (toByteSlice base max) t r
  | .eh base _, max => trM (toByteSlice base max)

/-- every implementation is `ToByteSlice` followed by unmarshalling, or delegates -/
def toProto (b : Buf) (max : Nat) : MOut := toByteSlice b max

def slice (d : List Nat) (off len : Nat) : MOut :=
  let s := (d.drop off).take len
  { res := .ok s true, eof := s.length < len }

def sliceOut (o : Out) (off len : Nat) : MOut :=
  match o with
  | .ok d true => slice d off len
  | o => { res := o }

def readAt : Buf → Nat → Nat → MOut
  | .err k, _, _ => { res := .err k }
  | .bytes d, off, len => slice d off len
  | .readerAt d, off, len => slice d off len
  | .stream _ _ q d, off, len => sliceOut (streamRes q d true) off len
  | .cloned base dg sibs, off, len =>
    let r := cr (.cloned base dg sibs) true
    let m := sliceOut r.res off len
    { m with wTerm := r.wTerm, waited := (if r.res.isOk then r.wTerm else []) ++ r.wClose }
  | .task base _ t r, off, len => afterTask (readAt base off len) t r
  | .eh base _, off, len => trM (readAt base off len)

def intoWriter : Buf → MOut
  | .err k => { res := .err k }
  | .bytes d => { res := .ok d true }
  | .readerAt d => { res := .ok d true }
  | .stream _ _ q d => { res := streamRes q d true }
  | .cloned base dg sibs => ofSR (cr (.cloned base dg sibs) true)
  | .task base _ t r => afterTask (intoWriter base) t r
  | .eh base dg => ofSR (cr (.eh base dg) true)

def discard : Buf → MOut
  | .cloned base _ sibs =>
    -- toChunkReader(false, ..).Close(); whoever arrives last creates the shared reader
    match (cr base (wantsValidation false sibs)).res with
    | .panic => MOut.panic
    | _ => { res := unit }
  | .task base _ t _ =>
    match (discard base).res with
    | .panic => MOut.panic
    | _ => { res := unit, waited := (discard base).waited ++ [t] }
  | .eh base _ => discard base
  | _ => { res := unit }

/-- `IntoWriter(w)` where `w.Write` may fail: how many `Write` calls the data takes depends on
the chunking, which this model does not carry, so `res` is the result in case the writer
survives; otherwise the call returns the writer's error - after closing its reader
(`defer r.Close()` / `defer b.Discard()`), hence after everything `Close` waits for.  `waited`
is what holds in both cases. -/
def intoWriterF : Buf → MOut
  | .task base _ t r =>
    match (intoWriterF base).res with
    | .panic => MOut.panic
    | _ => { afterTask (intoWriter base) t r with wTerm := [], waited := (intoWriterF base).waited ++ [t] }
  | .eh base dg =>
    let r := cr (.eh base dg) true
    match r.res with
    | .panic => MOut.panic
    | _ => { res := r.res, waited := r.wClose }
  | b => { res := (intoWriter b).res }

def dropOut (o : Out) (off : Nat) : Out :=
  match o with
  | .ok d s => .ok (d.drop off) s
  | o => o

/-- `ToChunkReader(off, _)`, read to the end (`all`) or not at all, then `Close` -/
def toChunkReader (b : Buf) (off : Nat) (all : Bool) : MOut :=
  let r := cr b true
  match r.res with
  | .panic => MOut.panic
  | _ => if all then { ofSR r with res := dropOut r.res off }
         else { res := unit, waited := r.wClose }

/-- `ToReader()`, read to the end or not at all, then `Close` -/
def toReader (b : Buf) (all : Bool) : MOut :=
  let r := rd b true
  match r.res with
  | .panic => MOut.panic
  | _ => if all then ofSR r else { res := unit, waited := r.wClose, closeErr := r.closeErr }

inductive SizeOut
  | size (n : Nat)
  | err (k : Nat)
  | panic
deriving DecidableEq, Repr

def getSize : Buf → SizeOut
  | .err k => .err k
  | .bytes d => .size d.length
  | .readerAt d => .size d.length
  | .stream _ size _ _ => .size size
  | .cloned _ dg _ | .task _ dg _ _ | .eh _ dg =>
    match dg with
    | some n => .size n
    | none => .panic

/-! ### Programs -/

inductive Kind
  | err (k : Nat)            -- NewBufferFromError
  | bytes                    -- NewValidatedBufferFromByteSlice, NewCASBufferFromByteSlice, NewProtoBufferFrom*
  | readerAt                 -- NewValidatedBufferFromReaderAt
  | reader (q : Quality)     -- NewCASBufferFromReader
  | chunks (q : Quality)     -- NewCASBufferFromChunkReader
deriving DecidableEq, Repr

inductive BufExpr
  | base (k : Kind)
  /-- `b1, b2 := e.CloneStream()`: continue with one of them (`side`), a second goroutine owns the other -/
  | cloneStream (e : BufExpr) (side : Bool) (sib : Sib)
  /-- `b1, b2 := e.CloneCopy(max)` with `max` large enough -/
  | cloneCopy (e : BufExpr) (side : Bool)
  | withTask (e : BufExpr) (r : Option Nat)
  | withErrorHandler (e : BufExpr)
  /-- the replication pattern (`localBlobReplicator.ReplicateSingle`, the refresh of `flatBlobAccess.Get`):
  `b1, b2 := e.CloneStream(); b1.WithTask(func() error { consume b2; return r })` - the task itself owns
  the other handle, so it can complete only while this handle is being read or after it was closed -/
  | replicate (e : BufExpr) (side : Bool) (sib : Sib) (r : Option Nat)
deriving Repr

structure Env where
  /-- the content the digest describes -/
  d : List Nat
  /-- `decorateBuffer` passes `digest` and `source` on to the decorated clones (the repair of D1);
  `false`: the code as pinned, which leaves them zero -/
  repaired : Bool := true
  /-- `validatedReaderBuffer.WithTask` releases the buffer when the foreground task fails (the
  repair of D11); `false`: the code as pinned, which drops it without `Discard` -/
  ratRepaired : Bool := true
deriving Repr

def baseBuf (env : Env) : Kind → Buf
  | .err k => .err k
  | .bytes => .bytes env.d
  | .readerAt => .readerAt env.d
  | .reader q => .stream false env.d.length q env.d
  | .chunks q => .stream true env.d.length q env.d

/-- the `digest` the Go constructors copy from the receiver (`b.digest`) -/
def Buf.dg : Buf → Option Nat
  | .stream _ size _ _ => some size
  | .cloned _ dg _ | .task _ dg _ _ | .eh _ dg => dg
  | _ => none

def Env.decorated (env : Env) (dg : Option Nat) : Option Nat := if env.repaired then dg else none

def cloneStreamB (env : Env) (sib : Sib) : Buf → Buf
  | .stream c n q d => .cloned (.stream c n q d) (some n) [sib]
  | .cloned base dg sibs => .cloned base dg (sib :: sibs)
  | .eh base dg => .cloned (.eh base dg) dg [sib]
  | .task base dg t r => .task (cloneStreamB env sib base) (env.decorated dg) t r
  | b => b      -- errorBuffer, byte slice: `return b, b`; reader-at: reference count

/-- `none`: the call panicked -/
def cloneCopyB (env : Env) (max : Nat) : Buf → Option Buf
  | .task base dg t r =>
    match cloneCopyB env max base with
    | some b' => some (.task b' (env.decorated dg) t r)
    | none => none
  | .err k => some (.err k)
  | .bytes d => some (.bytes d)
  | .readerAt d => some (.readerAt d)
  | b =>   -- cloneCopyViaByteSlice
    match (toByteSlice b max).res with
    | .ok d _ => some (.bytes d)
    | .err k => some (.err k)
    | .panic => none

def withTaskB (t : Nat) (r : Option Nat) : Buf → Buf
  | .err k => .err k                 -- task(); the error is dropped
  | .bytes d => match r with | some e => .err e | none => .bytes d
  | .readerAt d => match r with | some e => .err e | none => .readerAt d
  | b => .task b b.dg t r

def withErrorHandlerB : Buf → Buf
  | .err k => .err (tr k)
  | .bytes d => .bytes d
  | .readerAt d => .readerAt d
  | b => .eh b b.dg

def bigMax : Nat := 1000000000

/-- Evaluate a program; tasks are numbered in the order their `WithTask` executes. -/
def build (env : Env) : BufExpr → Nat → Option (Buf × Nat)
  | .base k, n => some (baseBuf env k, n)
  | .cloneStream e _ sib, n =>
    match build env e n with
    | some (b, n') => some (cloneStreamB env sib b, n')
    | none => none
  | .cloneCopy e _, n =>
    match build env e n with
    | some (b, n') => match cloneCopyB env bigMax b with
      | some b' => some (b', n')
      | none => none
    | none => none
  | .withTask e r, n =>
    match build env e n with
    | some (b, n') => some (withTaskB n' r b, n' + 1)
    | none => none
  | .withErrorHandler e, n =>
    match build env e n with
    | some (b, n') => some (withErrorHandlerB b, n')
    | none => none
  | .replicate e _ sib r, n =>
    match build env e n with
    | some (b, n') => some (withTaskB n' r (cloneStreamB env sib b), n' + 1)
    | none => none

/-- the consumption methods of the `Buffer` interface (the cloning and decorating ones are `BufExpr` nodes) -/
inductive Method
  | getSizeBytes
  | intoWriter
  | readAt (off len : Nat)
  | toProto (max : Nat)
  | toByteSlice (max : Nat)
  | toChunkReader (off : Nat) (all : Bool)
  | toReader (all : Bool)
  | discard
  /-- `IntoWriter` into a writer whose `Write` fails after `k` successful calls -/
  | intoWriterFailing (k : Nat)
deriving DecidableEq, Repr

def call (b : Buf) : Method → MOut
  | .getSizeBytes => match getSize b with
    | .size n => { res := .ok [n] true }
    | .err k => { res := .err k }
    | .panic => MOut.panic
  | .intoWriter => intoWriter b
  | .readAt off len => readAt b off len
  | .toProto max => toProto b max
  | .toByteSlice max => toByteSlice b max
  | .toChunkReader off all => toChunkReader b off all
  | .toReader all => toReader b all
  | .discard => discard b
  | .intoWriterFailing _ => intoWriterF b

/-- run a program and one method on its result; `none` = building the buffer panicked -/
def exec (env : Env) (e : BufExpr) (m : Method) : Option MOut :=
  match build env e 0 with
  | some (b, _) => some (call b m)
  | none => none

/-! ### release of the underlying source

Every path of every method releases the buffer it is called on, clones count
references; the one place where a buffer is dropped is the failing foreground
task of a reader-at buffer in the pinned code. -/

/-- the program drops a buffer without releasing it -/
def leaks (env : Env) : BufExpr → Bool
  | .base _ => false
  | .cloneStream e _ _ => leaks env e
  | .cloneCopy e _ => leaks env e
  | .withErrorHandler e => leaks env e
  | .withTask e r =>
    leaks env e || (!env.ratRepaired && r.isSome &&
      match build env e 0 with
      | some (.readerAt _, _) => true
      | _ => false)
  | .replicate e _ _ r =>
    leaks env e || (!env.ratRepaired && r.isSome &&
      match build env e 0 with
      | some (.readerAt _, _) => true
      | _ => false)

def baseKind : BufExpr → Kind
  | .base k => k
  | .cloneStream e _ _ => baseKind e
  | .cloneCopy e _ => baseKind e
  | .withTask e _ => baseKind e
  | .withErrorHandler e => baseKind e
  | .replicate e _ _ _ => baseKind e

/-- How often the source (`ReadAtCloser`, `io.ReadCloser`, `ChunkReader`) has been
closed once the method has returned and the goroutines owning the other
handles are done; `none`: the base buffer has no source. -/
def closes (env : Env) (e : BufExpr) : Option Nat :=
  match baseKind e with
  | .err _ | .bytes => none
  | _ => some (if leaks env e then 0 else 1)

/-! ### the order of releasing and waiting

What a consuming call does to the decorators, in order: the task decorator
first lets the buffer / reader underneath finish (`b.base.X()` has returned,
`r.r.Close()` has been called: `closed t`) and only then executes
`<-task.completion` (`wait t`).  A task that owns the other handle of a stream
clone (`replicate`) completes only once this handle is closed or drained, so
waiting first would never end. -/

inductive Ev
  | closed (t : Nat)
  | wait (t : Nat)
deriving DecidableEq, Repr

/-- events of any consuming method, of `Close` of a chunk reader / reader, and of the `Close`
that the decorated chunk reader performs itself at the end of the stream -/
def events : Buf → List Ev
  | .task base _ t _ => events base ++ [.closed t, .wait t]
  | .eh base _ => events base
  | _ => []

/-- The first task the call would wait for for ever: a task `dep` says completes only after the
reader under its decorator was closed, waited for before that happened. -/
def blockedAt (dep : Nat → Bool) : List Ev → List Nat → Option Nat
  | [], _ => none
  | .closed t :: rest, seen => blockedAt dep rest (t :: seen)
  | .wait t :: rest, seen => if dep t && !seen.contains t then some t else blockedAt dep rest seen

/-! ### handles that are never consumed -/

/-- `CloneStream` of this buffer yields handles that have to meet (a `casClonedBuffer`) -/
def needsPeers : Buf → Bool
  | .stream _ _ _ _ => true
  | .cloned _ _ _ => true
  | .eh _ _ => true
  | .task base _ _ _ => needsPeers base
  | _ => false

def peersOf (env : Env) (e : BufExpr) : Bool :=
  match build env e 0 with
  | some (b, _) => needsPeers b
  | none => false

/-- The program abandons a handle of a stream clone: whoever consumes or discards another handle
of that clone waits in `toChunkReader` for ever (`C15_unconsumed_handle_blocks`), the source is
neither read nor closed. -/
def blocks (env : Env) : BufExpr → Bool
  | .base _ => false
  | .cloneStream e _ s => blocks env e || (s == .abandon && peersOf env e)
  | .cloneCopy e _ => blocks env e
  | .withTask e _ => blocks env e
  | .withErrorHandler e => blocks env e
  | .replicate e _ s _ => blocks env e || (s == .abandon && peersOf env e)

def usesAbandon : BufExpr → Bool
  | .base _ => false
  | .cloneStream e _ s => usesAbandon e || s == .abandon
  | .cloneCopy e _ => usesAbandon e
  | .withTask e _ => usesAbandon e
  | .withErrorHandler e => usesAbandon e
  | .replicate e _ s _ => usesAbandon e || s == .abandon

/-- an action of the negotiation is performed on behalf of handle `i` -/
def NAct.who : NAct → Nat
  | .clone i => i
  | .consume i _ _ => i

end BB.Mux
