/-!
# Model of stream cloning and background tasks (pkg/blobstore/buffer)

Part A - the concurrency protocol:
* `multiplexedChunkReader` (multiplexed_chunk_reader.go) as a state machine.
  One step = one critical section under the reader's mutex (`readBegin`,
  `close`; the underlying `Read`/`Close` of the source happens inside it) or
  the receive from the one-slot channel a waiting consumer was handed
  (`readEnd`).  The channel has capacity 1 and is fresh per `Read`, so the send
  inside the critical section never blocks: a consumer is `waiting` (its
  channel is in `waitingConsumers`, empty), then `ready r` (channel filled,
  consumer not yet resumed), then `idle` again.
* the source is an arbitrary function `Nat → Res`: the result of its j-th
  `Read` (chunks, EOF or an error at any position, sticky or not).
* `casClonedBuffer` (cas_cloned_buffer.go) negotiation: `consumersRemaining`,
  `consumersWaiting`, `needsValidation`, `maximumChunkSizeBytes` (`none` = -1).

Part B - programs: buffers as a tree of the Go decorator structs, every
method of the `Buffer` interface by structural recursion (further down).

Bytes are naturals, errors are gRPC codes.
-/
namespace BB.Mux

/-- What one `ChunkReader.Read` returns. -/
inductive Res
  | chunk (d : List Nat)
  | eof
  | err (k : Nat)
deriving DecidableEq, Repr, Inhabited

/-- Where a consumer of the multiplexed reader is. -/
inductive CS
  | idle                -- not inside a call
  | waiting             -- inside `Read`, channel registered in `waitingConsumers`, empty
  | ready (r : Res)     -- inside `Read`, channel holds `r`, receive not yet executed
  | closed              -- has called `Close`
deriving DecidableEq, Repr

structure Con where
  st : CS := .idle
  /-- ghost: results its `Read` calls returned so far, oldest first -/
  got : List Res := []
deriving Repr

def Con.live (c : Con) : Bool :=
  match c.st with
  | .idle | .ready _ => true
  | _ => false

def Con.isWaiting (c : Con) : Bool :=
  match c.st with
  | .waiting => true
  | _ => false

def Con.isClosed (c : Con) : Bool :=
  match c.st with
  | .closed => true
  | _ => false

structure St where
  /-- `pendingConsumers` -/
  pending : Nat
  cons : List Con
  /-- number of `Read` calls performed on the source -/
  pos : Nat := 0
  /-- number of `Close` calls performed on the source -/
  closes : Nat := 0
  /-- `r.r != nil` -/
  srcLive : Bool := true
  /-- a Go panic happened ("no pending consumers", or a nil source was used) -/
  panicked : Bool := false
deriving Repr

/-- `newMultiplexedChunkReader(r, additionalConsumers)` -/
def St.init (additional : Nat) : St :=
  { pending := 1 + additional, cons := List.replicate (1 + additional) {} }

inductive Act
  | readBegin (i : Nat)
  | readEnd (i : Nat)
  | close (i : Nat)
deriving DecidableEq, Repr

def Act.who : Act → Nat
  | .readBegin i | .readEnd i | .close i => i

def nWaiting (cons : List Con) : Nat := cons.countP Con.isWaiting

/-- hand the result to every waiting consumer (`c <- readResult{...}`) -/
def deliver (r : Res) (c : Con) : Con :=
  if c.isWaiting then { c with st := .ready r } else c

def St.panic (s : St) : St := { s with panicked := true }

/-- `readAndShareWithOthers(cont)` on behalf of consumer `i`, which ends up in
status `mine` (`cont = 1`: it continues and gets the result itself). -/
def St.share (src : Nat → Res) (s : St) (i : Nat) (cont : Bool) : St :=
  if !s.srcLive then s.panic else
  let r := src s.pos
  let cons1 := s.cons.map (deliver r)
  let cons2 := cons1.modify i fun c =>
    if cont then { c with got := c.got ++ [r] } else { c with st := .closed }
  { s with pending := nWaiting s.cons + (if cont then 1 else 0), cons := cons2, pos := s.pos + 1 }

/-- One atomic step. `none`: the action is not one a well-behaved consumer can
perform now (unknown consumer, a second call while one is in progress, a call
after `Close`, a receive on an empty channel). -/
def step (src : Nat → Res) (s : St) : Act → Option St
  | .readBegin i =>
    match s.cons[i]? with
    | some c =>
      if c.st ≠ .idle then none else
      if s.pending = 0 then some s.panic else
      if s.pending - 1 = 0 then some (s.share src i true)
      else some { s with pending := s.pending - 1, cons := s.cons.modify i fun c => { c with st := .waiting } }
    | none => none
  | .readEnd i =>
    match s.cons[i]? with
    | some c =>
      match c.st with
      | .ready r => some { s with cons := s.cons.modify i fun c => { st := .idle, got := c.got ++ [r] } }
      | _ => none
    | none => none
  | .close i =>
    match s.cons[i]? with
    | some c =>
      if c.st ≠ .idle then none else
      if s.pending = 0 then some s.panic else
      if s.pending - 1 > 0 then
        some { s with pending := s.pending - 1, cons := s.cons.modify i fun c => { c with st := .closed } }
      else if nWaiting s.cons = 0 then
        some { s with pending := 0, cons := s.cons.modify i fun c => { c with st := .closed },
                      closes := s.closes + 1, srcLive := false }
      else some (s.share src i false)
    | none => none

/-- Run a schedule; `none` as soon as an action is not enabled. -/
def run (src : Nat → Res) (s : St) : List Act → Option St
  | [] => some s
  | a :: as => match step src s a with
    | some s' => run src s' as
    | none => none

/-- States reachable from `newMultiplexedChunkReader(r, additional)` by
well-behaved consumers under any interleaving. -/
inductive Reach (src : Nat → Res) (additional : Nat) : St → Prop
  | init : Reach src additional (St.init additional)
  | step {s s' : St} (a : Act) : Reach src additional s → step src s a = some s' → Reach src additional s'

/-- the first `k` results of the source -/
def srcPrefix (src : Nat → Res) (k : Nat) : List Res := (List.range k).map src

/-- A script as used by the driver and the harness: chunks, then the
terminator for ever. -/
def scriptSrc (chunks : List (List Nat)) (term : Res) : Nat → Res :=
  fun j => match chunks[j]? with
    | some d => .chunk d
    | none => term

/-! ## `casClonedBuffer`: the negotiation before the shared reader exists

Every handle (`b, b := CloneStream()` returns the same object twice; a handle
is the right to consume it once) is `fresh`, then `arrived` (inside
`toChunkReader`, blocked on its channel) or directly `served`. -/

inductive HS
  | fresh | arrived | served
deriving DecidableEq, Repr

/-- one creation of the underlying reader: `base.ToChunkReader(0, chunk)` if
`validated`, else `base.toUnvalidatedChunkReader(0, chunk)`, wrapped by
`newMultiplexedChunkReader(r, consumers - 1)` -/
structure Made where
  validated : Bool
  chunk : Nat
  consumers : Nat
deriving DecidableEq, Repr

/-- `b.maximumChunkSizeBytes < 0 || b.maximumChunkSizeBytes > m` -/
def negChunk (cur : Option Nat) (m : Nat) : Option Nat :=
  match cur with
  | none => some m
  | some c => if c > m then some m else some c

structure Neg where
  remaining : Nat := 1
  hs : List HS := [.fresh]
  needsValidation : Bool := false
  maxChunk : Option Nat := none
  made : List Made := []
  /-- ghost: the constraints supplied so far -/
  reqs : List (Bool × Nat) := []
  panicked : Bool := false
deriving Repr

inductive NAct
  | clone (i : Nat)
  | consume (i : Nat) (needsValidation : Bool) (maxChunk : Nat)
deriving DecidableEq, Repr

def HS.isFresh : HS → Bool
  | .fresh => true
  | _ => false

def HS.isArrived : HS → Bool
  | .arrived => true
  | _ => false

def serve (h : HS) : HS := if h.isArrived then .served else h

def Neg.step (s : Neg) : NAct → Option Neg
  | .clone i =>
    match s.hs[i]? with
    | some .fresh =>
      if s.remaining = 0 then some { s with panicked := true }
      else some { s with remaining := s.remaining + 1, hs := s.hs ++ [.fresh] }
    | _ => none
  | .consume i nv mc =>
    match s.hs[i]? with
    | some .fresh =>
      if s.remaining = 0 then some { s with panicked := true } else
      let nv' := s.needsValidation || nv
      let mc' := negChunk s.maxChunk mc
      let reqs' := s.reqs ++ [(nv, mc)]
      if s.remaining - 1 = 0 then
        some { s with remaining := 0, needsValidation := nv', maxChunk := mc', reqs := reqs',
                      made := s.made ++ [⟨nv', mc'.getD 0, 1 + s.hs.countP HS.isArrived⟩],
                      hs := (s.hs.map serve).modify i fun _ => .served }
      else
        some { s with remaining := s.remaining - 1, needsValidation := nv', maxChunk := mc', reqs := reqs',
                      hs := s.hs.modify i fun _ => .arrived }
    | _ => none

inductive NReach : Neg → Prop
  | init : NReach {}
  | step {s s' : Neg} (a : NAct) : NReach s → s.step a = some s' → NReach s'

/-- what the negotiation must arrive at -/
def wantValidated (reqs : List (Bool × Nat)) : Bool := reqs.any (·.1)
def wantChunk (reqs : List (Bool × Nat)) : Option Nat := reqs.foldl (fun m r => negChunk m r.2) none

end BB.Mux
