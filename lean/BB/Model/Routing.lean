/-!
# Instance-name routing (property C19)

Executable model of

* `pkg/digest/instance_name_trie.go` - the trie (`Set`, `Remove`, `GetExact`, `GetLongestPrefix`,
  `ContainsPrefix`) over the code's node structure (children by component, optional value);
* `pkg/digest/instance_name_patcher.go` - prefix replacement, both on component lists and on the
  character strings the code slices by byte offsets;
* `pkg/blobstore/configuration/new_blob_access.go` (case `Demultiplexing`) - trie + backend table
  built from the configured prefixes and the getter closure;
* `pkg/blobstore/demultiplexing_blob_access.go` - `Get`, `Put`, `GetFromComposite`, `FindMissing`
  (partitioning by backend, patched names in, unpatched names out);
* `pkg/blobstore/hierarchical_instance_names_blob_access.go` - `Get` with fallback to ancestors
  and the `FindMissing` loop with its in-place swap-remove pruning.

Instance names are lists of components; a component is a list of characters (so that the
string-level patcher, which works with byte offsets, can be stated over the same type).
Backends are parameters (functions), errors are a gRPC code and a message.
Core Lean only.
-/
namespace BB.Routing

abbrev Comp := List Char
abbrev Name := List Comp

/-! ## Association lists (Go maps keyed by component) -/

section Assoc
variable {α : Type}

def aget : List (Comp × α) → Comp → Option α
  | [], _ => none
  | (k, v) :: rest, c => if k = c then some v else aget rest c

def adel (cs : List (Comp × α)) (c : Comp) : List (Comp × α) :=
  cs.filter (fun e => decide (e.1 ≠ c))

def aset (cs : List (Comp × α)) (c : Comp) (v : α) : List (Comp × α) :=
  (c, v) :: adel cs c

end Assoc

/-! ## The trie -/

/-- `instanceNameTrieNode`: `value = none` is the code's `-1`. -/
inductive Node where
  | mk (value : Option Nat) (children : List (Comp × Node))

namespace Node
def value : Node → Option Nat
  | .mk v _ => v
def children : Node → List (Comp × Node)
  | .mk _ cs => cs
/-- `NewInstanceNameTrie` / a freshly allocated node. -/
def empty : Node := .mk none []
end Node

instance : Inhabited Node := ⟨Node.empty⟩

/-- `Set`: walk down, creating nodes, store the value in the last one. -/
def set : Node → Name → Nat → Node
  | .mk _ cs, [], v => .mk (some v) cs
  | .mk val cs, c :: r, v =>
    .mk val (aset cs c (set ((aget cs c).getD Node.empty) r v))

/-- `GetExact`. -/
def exact : Node → Name → Option Nat
  | .mk v _, [] => v
  | .mk _ cs, c :: r =>
    match aget cs c with
    | none => none
    | some ch => exact ch r

/-- The loop of `GetLongestPrefix`: `last` is `lastValue`. A missing child ends the walk; the
final component contributes its value exactly like an inner one. -/
def walk : Node → Name → Option Nat → Option Nat
  | _, [], last => last
  | .mk _ cs, c :: r, last =>
    match aget cs c with
    | none => last
    | some ch => walk ch r (match ch.value with | some v => some v | none => last)

/-- `GetLongestPrefix`. -/
def longest (root : Node) (name : Name) : Option Nat :=
  walk root name root.value

/-- The loop of `ContainsPrefix`. -/
def hasPrefixWalk : Node → Name → Bool
  | _, [] => false
  | .mk _ cs, c :: r =>
    match aget cs c with
    | none => false
    | some ch => ch.value.isSome || hasPrefixWalk ch r

/-- `ContainsPrefix`. -/
def containsPrefix (root : Node) (name : Name) : Bool :=
  root.value.isSome || hasPrefixWalk root name

/-- Outcome of removing below a node: the node survives (changed), or the node was part of the
valueless single-child chain above the removed leaf and goes away with it. -/
inductive Rem where
  | keep (n : Node)
  | prune

/-- `Remove` below the root. The code remembers the deepest edge whose upper node has a value
or more than one child (`mapDelete`, `componentDelete`) and deletes that edge if the final node
has no children; here the same decision is taken on the way back up. `none` = the path does not
exist in the trie (the code dereferences a nil node and panics). -/
def rem : Node → Name → Option Rem
  | .mk _ cs, [] => some (if cs.isEmpty then .prune else .keep (.mk none cs))
  | .mk val cs, c :: r =>
    match aget cs c with
    | none => none
    | some ch =>
      match rem ch r with
      | none => none
      | some (.keep ch') => some (.keep (.mk val (aset cs c ch')))
      | some .prune =>
        if val.isSome || cs.length > 1 then some (.keep (.mk val (adel cs c))) else some .prune

/-- Did the trie become empty (`it.root.value < 0 && len(it.root.children) == 0`). -/
def isEmptyTrie (root : Node) : Bool := root.value.isNone && root.children.isEmpty

/-- `Remove`: the root is never cut (`mapDelete == nil` on the first iteration makes the root's
edge the fallback). Returns the new trie and the "became empty" flag; `none` = panic. -/
def remove : Node → Name → Option (Node × Bool)
  | .mk _ cs, [] => some (.mk none cs, cs.isEmpty)
  | .mk val cs, c :: r =>
    match aget cs c with
    | none => none
    | some ch =>
      match rem ch r with
      | none => none
      | some (.keep ch') => let t := Node.mk val (aset cs c ch'); some (t, isEmptyTrie t)
      | some .prune => let t := Node.mk val (adel cs c); some (t, isEmptyTrie t)

/-- Operations on the trie (histories). -/
inductive Op where
  | set (name : Name) (v : Nat)
  | remove (name : Name)

/-- One operation; a panicking `Remove` leaves the trie as it was (the code panics before it
mutates anything). -/
def applyOp (t : Node) : Op → Node
  | .set n v => set t n v
  | .remove n => match remove t n with
    | some (t', _) => t'
    | none => t

def run (t : Node) (ops : List Op) : Node := ops.foldl applyOp t

/-! ### The specification: a list of (prefix, value) -/

abbrev Spec := List (Name × Nat)

def specLookup : Spec → Name → Option Nat
  | [], _ => none
  | (k, v) :: rest, n => if k = n then some v else specLookup rest n

def specDel (l : Spec) (n : Name) : Spec := l.filter (fun e => decide (e.1 ≠ n))

def specApply (l : Spec) : Op → Spec
  | .set n v => (n, v) :: specDel l n
  | .remove n => specDel l n

def specRun (l : Spec) (ops : List Op) : Spec := ops.foldl specApply l

/-- Longest registered component-wise prefix, computed naively: of all entries whose key is a
prefix of the name keep the one with the longest key. -/
def specLongest (l : Spec) (name : Name) : Option Nat :=
  let step (best : Option (Nat × Nat)) (e : Name × Nat) : Option (Nat × Nat) :=
    if e.1.isPrefixOf name then
      match best with
      | some (len, _) => if len < e.1.length then some (e.1.length, e.2) else best
      | none => some (e.1.length, e.2)
    else best
  (l.foldl step none).map (·.2)

/-! ## The patcher -/

/-- `NewInstanceNamePatcher(old, new).PatchInstanceName` on components: the no-op patcher when
both prefixes are equal, otherwise drop as many components as the old prefix has and prepend
the new prefix. -/
def patchName (old new : Name) (i : Name) : Name :=
  if old = new then i else new ++ i.drop old.length

def joinS : Name → List Char
  | [] => []
  | [c] => c
  | c :: r => c ++ '/' :: joinS r

def withSlash (p : List Char) : List Char := if p = [] then [] else p ++ ['/']

/-- `patchInstanceName` as the code computes it, on character strings with offsets. -/
def patchStr (oldP newP i : List Char) : List Char :=
  if oldP = newP then i
  else if i.length > (withSlash oldP).length then withSlash newP ++ i.drop (withSlash oldP).length
  else newP

/-! ## Digests, errors, backends -/

structure Dg where
  name : Name
  hash : Nat
deriving DecidableEq, Repr

structure Err where
  code : Nat
  msg : String
deriving DecidableEq, Repr

def codeInvalidArgument : Nat := 3
def codeNotFound : Nat := 5

def showName (n : Name) : String := String.ofList (joinS n)

/-- Go's `%#v` of a string without special characters. -/
def quote (s : String) : String := "\"" ++ s ++ "\""

/-- `util.StatusWrap`: same code, message prefixed. -/
def wrapErr (pre : String) (e : Err) : Err := { e with msg := pre ++ ": " ++ e.msg }

def patchDg (old new : Name) (d : Dg) : Dg := { d with name := patchName old new d.name }
/-- `UnpatchDigest` is `patchDigest` with the roles of the prefixes exchanged. -/
def unpatchDg (old new : Name) (d : Dg) : Dg := patchDg new old d

/-! ## Demultiplexing -/

/-- What a `DemultiplexedBlobAccessGetter` returns on success: backend (by index), the backend
name (also the partition key), the patcher (old, new). -/
structure Route where
  id : Nat
  bname : Name
  old : Name
  new : Name
deriving DecidableEq, Repr

abbrev Getter := Name → Except Err Route

/-- The configuration: (instance name prefix to match, prefix to add), in the order the
configuration code happened to iterate over its map. -/
abbrev Cfg := List (Name × Name)

/-- `backendsTrie.Set(matchInstanceNamePrefix, len(backends))` for every entry. -/
def buildTrie : Cfg → Nat → Node → Node
  | [], _, t => t
  | (m, _) :: es, k, t => buildTrie es (k + 1) (set t m k)

def cfgTrie (cfg : Cfg) : Node := buildTrie cfg 0 Node.empty

def unknownName (n : Name) : Err :=
  { code := codeInvalidArgument, msg := "Unknown instance name: " ++ quote (showName n) }

/-- The getter closure of `new_blob_access.go`. -/
def cfgGetter (cfg : Cfg) : Getter := fun n =>
  match longest (cfgTrie cfg) n with
  | none => .error (unknownName n)
  | some idx =>
    match cfg[idx]? with
    | some (m, a) => .ok { id := idx, bname := m, old := m, new := a }
    | none => .error { code := 2, msg := "index out of range" }  -- unreachable (`cfgGetter_route`)

def backendPrefix (bname : Name) : String := "Backend " ++ quote (showName bname)

inductive GetRes where
  | ok (payload : Nat)
  | err (e : Err)
deriving DecidableEq, Repr

def GetRes.wrap (pre : String) : GetRes → GetRes
  | .ok p => .ok p
  | .err e => .err (wrapErr pre e)

/-- `Get`: which backend is asked for which digest, and the result. -/
def demuxGet (g : Getter) (get : Nat → Dg → GetRes) (d : Dg) : Option (Nat × Dg) × GetRes :=
  match g d.name with
  | .error e => (none, .err e)
  | .ok r =>
    let d' := patchDg r.old r.new d
    (some (r.id, d'), (get r.id d').wrap (backendPrefix r.bname))

/-- `GetFromComposite`: routed by the parent's instance name, both digests patched. -/
def demuxGetFromComposite (g : Getter) (get : Nat → Dg → Dg → GetRes) (p c : Dg) :
    Option (Nat × Dg × Dg) × GetRes :=
  match g p.name with
  | .error e => (none, .err e)
  | .ok r =>
    let p' := patchDg r.old r.new p
    let c' := patchDg r.old r.new c
    (some (r.id, p', c'), (get r.id p' c').wrap (backendPrefix r.bname))

/-- `Put`. -/
def demuxPut (g : Getter) (put : Nat → Dg → Option Err) (d : Dg) : Option (Nat × Dg) × Option Err :=
  match g d.name with
  | .error e => (none, some e)
  | .ok r =>
    let d' := patchDg r.old r.new d
    (some (r.id, d'), (put r.id d').map (wrapErr (backendPrefix r.bname)))

/-- `partitionInfo`, keyed by the backend name; the patcher is the one returned for the first
instance name that resolved to the backend. -/
structure Part where
  route : Route
  digests : List Dg
deriving DecidableEq, Repr

def addToParts : List Part → Route → Dg → List Part
  | [], r, d => [{ route := r, digests := [patchDg r.old r.new d] }]
  | p :: ps, r, d =>
    if p.route.bname = r.bname then
      { p with digests := p.digests ++ [patchDg p.route.old p.route.new d] } :: ps
    else p :: addToParts ps r d

/-- First loop of `FindMissing`. (`perInstanceNamePartitions` only caches the getter.) -/
def partition (g : Getter) : List Dg → List Part → Except Err (List Part)
  | [], parts => .ok parts
  | d :: ds, parts =>
    match g d.name with
    | .error e => .error e
    | .ok r => partition g ds (addToParts parts r d)

/-- Go iterates over `perBackendPartitions` in an unspecified order. `order` (backend indices)
chooses it: the listed partitions first, in that order, then the others. -/
def arrange : List Nat → List Part → List Part
  | [], ps => ps
  | i :: is, ps =>
    match ps.find? (fun p => p.route.id == i) with
    | some p => p :: arrange is (ps.erase p)
    | none => arrange is ps

abbrev FM := List Dg → Except Err (List Dg)

/-- Second loop of `FindMissing`: calls made (backend, digests asked) and the outcome. -/
def callAll (fm : Nat → FM) : List Part → List Dg → List (Nat × List Dg) × Except Err (List Dg)
  | [], acc => ([], .ok acc)
  | p :: ps, acc =>
    match fm p.route.id p.digests with
    | .error e => ([(p.route.id, p.digests)], .error (wrapErr (backendPrefix p.route.bname) e))
    | .ok ans =>
      let (calls, res) := callAll fm ps (acc ++ ans.map (unpatchDg p.route.old p.route.new))
      ((p.route.id, p.digests) :: calls, res)

def demuxFindMissing (g : Getter) (fm : Nat → FM) (order : List Nat) (digests : List Dg) :
    List (Nat × List Dg) × Except Err (List Dg) :=
  match partition g digests [] with
  | .error e => ([], .error e)
  | .ok parts => callAll fm (arrange order parts) []

/-! ## Hierarchical instance names -/

/-- All component prefixes of a name, shortest first (`GetDigestsWithParentInstanceNames`). -/
def inits : Name → List Name
  | [] => [[]]
  | c :: r => [] :: (inits r).map (c :: ·)

def withParents (d : Dg) : List Dg := (inits d.name).map (fun n => { d with name := n })

def instancePrefix (n : Name) : String := "Instance name " ++ quote (showName n)

/-- `Get` with its error handler. `ds` are the digests still to be tried, most specific first.
Returns the digests asked and the result. -/
def hierGetAux (get : Dg → GetRes) : List Dg → List Dg × GetRes
  | [] => ([], .err { code := codeNotFound, msg := "unreachable" })
  | [d] =>
    match get d with
    | .ok p => ([d], .ok p)
    | .err e => ([d], if e.code = codeNotFound then .err e else .err (wrapErr (instancePrefix d.name) e))
  | d :: d' :: rest =>
    match get d with
    | .ok p => ([d], .ok p)
    | .err e =>
      if e.code = codeNotFound then
        let (tr, r) := hierGetAux get (d' :: rest)
        (d :: tr, r)
      else ([d], .err (wrapErr (instancePrefix d.name) e))

def hierGet (get : Dg → GetRes) (d : Dg) : List Dg × GetRes :=
  hierGetAux get (withParents d).reverse

/-- `GetFromComposite` (parent and child digests are shortened in lockstep; the model covers
parent and child carrying the same instance name). -/
def hierGetFromCompositeAux (get : Dg → Dg → GetRes) : List (Dg × Dg) → List (Dg × Dg) × GetRes
  | [] => ([], .err { code := codeNotFound, msg := "unreachable" })
  | [d] =>
    match get d.1 d.2 with
    | .ok p => ([d], .ok p)
    | .err e => ([d], if e.code = codeNotFound then .err e else .err (wrapErr (instancePrefix d.1.name) e))
  | d :: d' :: rest =>
    match get d.1 d.2 with
    | .ok p => ([d], .ok p)
    | .err e =>
      if e.code = codeNotFound then
        let (tr, r) := hierGetFromCompositeAux get (d' :: rest)
        (d :: tr, r)
      else ([d], .err (wrapErr (instancePrefix d.1.name) e))

def hierGetFromComposite (get : Dg → Dg → GetRes) (p c : Dg) : List (Dg × Dg) × GetRes :=
  hierGetFromCompositeAux get ((withParents p).zip (withParents c)).reverse

/-- `digestWithParents`: `parents` are the digests with the not yet checked ancestor names,
shortest first; the last one is the next to be checked. -/
structure Item where
  orig : Dg
  parents : List Dg
deriving DecidableEq, Repr

/-- `*digestWithParents = digestsWithParents[len-1]; digestsWithParents = digestsWithParents[:len-1]` -/
def swapRemove {α : Type} (l : List α) (i : Nat) : List α :=
  match l.getLast? with
  | none => l
  | some x => (l.set i x).dropLast

/-- The pruning scan `for i := 0; i < len(digestsWithParents);`. `fuel` bounds the number of
iterations (`len - i` suffices). Returns the work list and `finallyMissing`. -/
def scan (miss : Dg → Bool) : Nat → Nat → List Item → List Dg → List Item × List Dg
  | 0, _, w, f => (w, f)
  | fuel + 1, i, w, f =>
    match w[i]? with
    | none => (w, f)
    | some it =>
      match it.parents.getLast? with
      | none => (w, f)   -- unreachable: parent lists are never empty
      | some p =>
        if !miss p then scan miss fuel i (swapRemove w i) f
        else if it.parents.length > 1 then
          scan miss fuel (i + 1) (w.set i { it with parents := it.parents.dropLast }) f
        else scan miss fuel i (swapRemove w i) (f ++ [it.orig])

def lastParents (w : List Item) : List Dg := w.filterMap (fun it => it.parents.getLast?)

/-- `for len(digestsWithParents) > 0`: `k` numbers the backend calls. Returns the digest lists
asked and the outcome. -/
def hierLoop (fm : Nat → FM) : Nat → Nat → List Item → List Dg → List (List Dg) × Except Err (List Dg)
  | 0, _, _, f => ([], .ok f)
  | fuel + 1, k, w, f =>
    if w.isEmpty then ([], .ok f)
    else
      let ask := lastParents w
      match fm k ask with
      | .error e => ([ask], .error e)
      | .ok m =>
        let (w', f') := scan (fun d => decide (d ∈ m)) w.length 0 w f
        let (calls, res) := hierLoop fm fuel (k + 1) w' f'
        (ask :: calls, res)

/-- Split the initially missing digests into the work list and the finally missing ones. -/
def hierSplit : List Dg → List Item × List Dg
  | [] => ([], [])
  | d :: ds =>
    let (w, f) := hierSplit ds
    let ps := withParents d
    if ps.length > 1 then ({ orig := d, parents := ps.dropLast } :: w, f) else (w, d :: f)

def maxDepth : List Item → Nat
  | [] => 0
  | it :: r => Nat.max it.parents.length (maxDepth r)

/-- `FindMissing` of the hierarchical decorator: call 0 asks the digests as given. -/
def hierFindMissing (fm : Nat → FM) (digests : List Dg) : List (List Dg) × Except Err (List Dg) :=
  match fm 0 digests with
  | .error e => ([digests], .error e)
  | .ok m =>
    let (w, f) := hierSplit m
    let (calls, res) := hierLoop fm (maxDepth w + 1) 1 w f
    (digests :: calls, res)

end BB.Routing
