import BB.Model.Persist
/-!
# The world of the persistence model: objects, allocator, devices, syncer, crash and restart

Every function below is one lock region of the Go code or one unlocked action on a collaborator.
Fields marked *ghost* do not influence any reply of the model; they name facts about the history
that the invariants of `BB/Proofs/Persist*.lean` speak about.
-/
namespace BB.Persist

/-- One allocation (`Block.Put`): identity, place, and what is known about its content. -/
structure Obj where
  id : Nat
  gid : Nat
  slot : Nat
  off : Nat
  size : Nat
  key : Nat
  abs : Nat                     -- absolute block index in the process that allocated it
  upload : Bool                 -- written by a client (otherwise: a refresh copy)
  data : Nat := 0               -- content token, valid once `copied`
  copied : Bool := false        -- the writer finished successfully (all sector writes issued)
  mine : Bool := true           -- allocated by the running process (its bytes are in the sector images)
  fin : Option Nat := none      -- the latest epoch when its finalizer succeeded
  precov : Bool := false        -- ghost: copied before the data sync in progress was entered
  durable : Bool := false       -- ghost: copied before a data sync that completed was entered
deriving Repr, DecidableEq

/-- Program counter of the goroutine looping over `ProcessBlockPut`. -/
inductive G1
  | idle
  | started (final : Bool)    -- NotifySyncStarting done; data sync not running
  | syncing (final : Bool)    -- inside dataSyncer()
  | synced (final : Bool)     -- dataSyncer() returned nil
  | want (final : Bool)       -- NotifySyncCompleted done; persistent state to be written
  | finished                  -- ProcessBlockPut returned false
deriving Repr, DecidableEq

/-- A `writePersistentState` call in progress (they are serialised by `storeLock`).
Stages: 0 state taken, 1 `state.new` removed, 2 created, 3 written, 4 fsynced, 5 renamed,
6 directory fsynced. -/
structure Sw where
  owner : Nat      -- 1 = ProcessBlockPut, 2 = ProcessBlockRelease
  file : SFile
  stage : Nat
deriving Repr

structure World where
  cfg : Cfg
  pbl : PBL := {}
  free : List Nat                 -- allocator's `freeOffsets` (as slots)
  pins : List Nat := []           -- gid per open writer / reader
  zombies : List Blk := []        -- released by the list while pinned
  objs : List Obj := []
  data : DataDev := {}
  idx : IdxDev := {}
  dir : StateDir := {}
  nextSeed : Nat := 1
  nextGid : Nat := 0
  nextObj : Nat := 0
  g1 : G1 := .idle
  sw : Option Sw := none
  shadow : List (Nat × Nat) := []   -- ghost: (key, data) of every upload whose copy completed
deriving Repr

def World.fresh (c : Cfg) : World := { cfg := c, free := List.range c.nslots }

namespace World

def obj? (w : World) (id : Nat) : Option Obj := w.objs.find? (·.id == id)

def updObj (w : World) (id : Nat) (f : Obj → Obj) : World :=
  { w with objs := w.objs.map fun o => if o.id == id then f o else o }

/-- Is the object's every sector, in the given view of the device, carrying its bytes? -/
def presentIn (w : World) (view : Nat → Nat → List Nat) (o : Obj) : Bool :=
  (secsOf w.cfg.ss o.off o.size).all fun s => (view o.slot s).contains o.id

def presentCur (w : World) (o : Obj) : Bool := w.presentIn w.data.curGet o

/-- A read of `size` bytes at `off` of the block at `slot`: the object found there, if intact. -/
def readAt (w : World) (slot off size : Nat) : Option Obj :=
  w.objs.find? fun o => o.copied && o.slot == slot && o.off == off && o.size == size && w.presentCur o

/-- The in-memory image of a sector of block generation `gid`: the objects of that block the running
process has copied so far. -/
def imageAt (w : World) (gid sec : Nat) : List Nat :=
  (w.objs.filter fun o => o.gid == gid && o.mine && o.copied && (secsOf w.cfg.ss o.off o.size).contains sec).map (·.id)

/-- `BlockReferenceToBlockIndex` + checksum verification of a record. -/
def resolve (w : World) (r : PRec) : Option Nat :=
  match w.pbl.refToIdx r.epoch r.bfl with
  | some (i, sd) => if sd == r.seed then some i else none
  | none => none

/-- `Block.Release` by a reader or writer. -/
def unpin (w : World) (gid : Nat) : World :=
  let pins := w.pins.erase gid
  match w.zombies.find? (·.gid == gid) with
  | some z =>
    if pins.contains gid then { w with pins := pins }
    else { w with pins := pins, zombies := w.zombies.filter (·.gid != gid), free := w.free ++ [z.slot] }
  | none => { w with pins := pins }

/-- `Block.Release` by the block list. -/
def listRelease (w : World) (b : Blk) : World :=
  if w.pins.contains b.gid then { w with zombies := w.zombies ++ [b] }
  else { w with free := w.free ++ [b.slot] }

def popFront (w : World) : Option World :=
  match w.pbl.popFront with
  | some (_, p) => some { w with pbl := p }
  | none => none

/-- `PushBack`; `none` = UNAVAILABLE (closed for writing, or no unused block). -/
def pushBack (w : World) : Option World :=
  if w.pbl.closed then none else
  match w.free with
  | [] => none
  | slot :: rest =>
    some { w with pbl := w.pbl.pushBack w.nextGid slot, free := rest, nextGid := w.nextGid + 1 }

inductive Reserve
  | ok (o : Obj) (w : World)
  | closed          -- `Put` on a list that is closed for writing: a writer that only discards
  | bad             -- no such block / no space: not reachable through `findBlockWithSpace`

/-- `blockList.Put(index, size)`: the locked part. -/
def reserve (w : World) (i size key : Nat) (upload : Bool) : Reserve :=
  if w.pbl.closed then .closed else
  match w.pbl.blocks[i]? with
  | none => .bad
  | some b =>
    if size = 0 ∨ b.cursor + size > w.cfg.bs then .bad else
    let o : Obj := { id := w.nextObj, gid := b.gid, slot := b.slot, off := b.cursor, size := size,
                     key := key, abs := w.pbl.released + i, upload := upload }
    .ok o { w with pbl := w.pbl.setBlk i fun b => { b with cursor := b.cursor + size }
                   objs := w.objs ++ [o], pins := b.gid :: w.pins, nextObj := w.nextObj + 1 }

/-- The sector writes of one object's writer, in the order they are issued: each carries the image
of its sector. -/
def emit (w : World) (o : Obj) : World :=
  { w with data := { w.data with pend := w.data.pend ++
      (secsOf w.cfg.ss o.off o.size).map fun s => { slot := o.slot, sec := s, objs := w.imageAt o.gid s } } }

/-- The unlocked part of a write: `data` is copied into the block, the block reference taken by
`Put` is dropped. -/
def copyCore (w : World) (id data : Nat) : Option (Obj × World) :=
  match w.obj? id with
  | none => none
  | some o =>
    if o.copied || !o.mine then none else
    let w1 := w.updObj id fun o => { o with data := data, copied := true }
    let w2 := w1.emit { o with data := data, copied := true }
    some (o, { w2 with shadow := if o.upload then (o.key, data) :: w.shadow else w.shadow })

def copy (w : World) (id data : Nat) : Option World :=
  match w.copyCore id data with
  | some (o, w') => some (w'.unpin o.gid)
  | none => none

/-- The copy of a refresh: the data is what a (validated) read of the source location yields. -/
def refreshCopy (w : World) (id slot off size : Nat) : Option (Nat × World) :=
  match w.obj? id, w.readAt slot off size with
  | some o, some src =>
    if o.upload || src.key != o.key then none else
    match w.copy id src.data with
    | some w' => some (src.data, w')
    | none => none
  | _, _ => none

inductive Fin
  | ok (w : World)
  | unavailable
  | internal
  | bad            -- unknown object, or its writer did not finish: no finalizer to call

/-- The locked part after the copy: `PersistentBlockList`'s finalizer. -/
def finalize (w : World) (id : Nat) : Fin :=
  match w.obj? id with
  | none => .bad
  | some o =>
    if !o.copied || !o.mine || o.fin.isSome then .bad else
    match w.pbl.finalize o.abs o.off o.size w.nextSeed with
    | .unavailable => .unavailable
    | .internal => .internal
    | .ok p e =>
      let w1 := { w with pbl := p, nextSeed := if w.pbl.bumps o.abs then w.nextSeed + 1 else w.nextSeed }
      .ok (w1.updObj id fun o => { o with fin := some e })

/-- `LocationRecordArray.Put`: serialise a record for a location in the block with absolute index
`abs` under the latest epoch and write it to the index device. `none` = a Go panic. -/
def recWrite (w : World) (slot key att abs off size : Nat) : Option World :=
  if abs < w.pbl.released then none else
  match w.pbl.idxToRef (abs - w.pbl.released) with
  | none => none
  | some (e, bfl, sd) => some { w with idx := w.idx.write slot ⟨e, bfl, key, att, off, size, sd⟩ }

/-! ### PeriodicSyncer -/

/-- `ProcessBlockPut` takes the lock after its wait: `NotifySyncStarting(false)`. -/
def g1Start (w : World) : Option World :=
  match w.g1 with
  | .idle => some { w with g1 := .started false, pbl := w.pbl.notifySyncStarting false }
  | _ => none

/-- `dataSyncer()` is entered. -/
def syncBegin (w : World) : Option World :=
  match w.g1 with
  | .started f =>
    some { w with g1 := .syncing f, data := w.data.syncBegin
                  objs := w.objs.map fun o => if o.mine && o.copied then { o with precov := true } else o }
  | _ => none

/-- `dataSyncer()` returns nil. -/
def syncEnd (w : World) : Option World :=
  match w.g1 with
  | .syncing f =>
    some { w with g1 := .synced f, data := w.data.syncEnd
                  objs := w.objs.map fun o => if o.precov then { o with precov := false, durable := true } else o }
  | _ => none

/-- `dataSyncer()` returns an error; it is called again after a delay. -/
def syncFail (w : World) : Option World :=
  match w.g1 with
  | .syncing f =>
    some { w with g1 := .started f, data := w.data.syncFail
                  objs := w.objs.map fun o => { o with precov := false } }
  | _ => none

/-- The lock region after a data sync: `NotifySyncCompleted`, and, when shutting down after the
first sync, `NotifySyncStarting(true)` without releasing the lock in between. -/
def g1Completed (w : World) (shutdown : Bool) : Option World :=
  match w.g1 with
  | .synced false =>
    let p := w.pbl.notifySyncCompleted
    if shutdown then some { w with g1 := .started true, pbl := p.notifySyncStarting true }
    else some { w with g1 := .want false, pbl := p }
  | .synced true => some { w with g1 := .want true, pbl := w.pbl.notifySyncCompleted }
  | _ => none

/-- `writePersistentState` acquires `storeLock` and calls `GetPersistentState`. -/
def swBegin (w : World) (owner : Nat) : Option World :=
  if w.sw.isSome then none else
  if owner == 1 && !(w.g1 == .want false || w.g1 == .want true) then none else
  if owner != 1 && owner != 2 then none else
  match w.pbl.getPersistentState with
  | none => none
  | some (f, p) => some { w with pbl := p, sw := some ⟨owner, f, 0⟩ }

/-- The next directory operation of `WritePersistentState`. -/
def swStep (w : World) : Option World :=
  match w.sw with
  | none => none
  | some s =>
    let dir? : Option StateDir :=
      match s.stage with
      | 0 => some w.dir.remove
      | 1 => w.dir.create
      | 2 => w.dir.writeTmp s.file
      | 3 => w.dir.fsyncTmp
      | 4 => w.dir.rename
      | 5 => some w.dir.dirSync
      | _ => none
    match dir? with
    | none => none
    | some d => some { w with dir := d, sw := some { s with stage := s.stage + 1 } }

/-- A directory operation fails: `writePersistentState` returns the error (the caller retries). -/
def swFail (w : World) : Option World :=
  match w.sw with
  | some s => if s.stage < 6 then some { w with sw := none } else none
  | none => none

/-- `NotifyPersistentStateWritten`, `storeLock` released, and `ProcessBlockPut` returns. -/
def swDone (w : World) : Option World :=
  match w.sw with
  | some s =>
    if s.stage != 6 then none else
    let (rel, p) := w.pbl.notifyPersistentStateWritten
    let w1 := rel.foldl listRelease { w with pbl := p, sw := none }
    some (if s.owner == 1 then
      { w1 with g1 := match w.g1 with | .want true => .finished | _ => .idle } else w1)
  | none => none

/-! ### Crash and restart -/

/-- `NewBlockAtLocation`: take the slot out of the free list (swap with the last, truncate). -/
def attach (free : List Nat) (slot : Nat) : Option (List Nat) :=
  match free.findIdx? (· == slot), free.getLast? with
  | some i, some l => some (free.set i l).dropLast
  | _, _ => none

/-- The loop of `NewPersistentBlockList`: stops at the first block that cannot be re-attached.
The restored write cursor is the synchronised offset rounded up to a sector. -/
def restore (ss : Nat) : List BState → List Nat → PBL → PBL × List Nat
  | [], free, p => (p, free)
  | b :: rest, free, p =>
    match attach free b.slot with
    | none => (p, free)
    | some free' =>
      restore ss rest free'
        { p with
          blocks := p.blocks ++ [{ gid := b.gid, slot := b.slot, cursor := (b.wo + ss - 1) / ss * ss,
                                   base := (b.wo + ss - 1) / ss * ss,
                                   written := b.wo, syncing := b.wo, synced := b.wo,
                                   epochCount := b.seeds.length }]
          seeds := p.seeds ++ b.seeds
          epochLast := p.epochLast ++ List.replicate b.seeds.length p.blocks.length }

/-- `ReadPersistentState`: a missing file means a fresh store (oldest epoch 1, no blocks). -/
def readState (d : StateDir) : SFile := d.state.getD ⟨1, []⟩

/-- Ghost: the objects a restart can still speak about are those of restored blocks whose epoch is
in the restored state; everything else is garbage on the medium. -/
def survives (p : PBL) (o : Obj) : Bool :=
  p.blocks.any (·.gid == o.gid) &&
    match o.fin with
    | some e => decide (e < p.oldestEpoch + p.seeds.length)
    | none => false

/-- The process dies; the medium keeps what the choices say; the store is assembled again from
the medium (`ReadPersistentState`, `NewBlockDeviceBackedBlockAllocator`, `NewPersistentBlockList`).
Nothing is written during start-up, so a crash during recovery is a crash with nothing pending. -/
def crashRestart (w : World) (keepData keepIdx : List Bool) (pick : Nat) (leftover : Bool) : World :=
  let dir := w.dir.crash pick leftover
  let f := readState dir
  let (p0, free) := restore w.cfg.ss f.blocks (List.range w.cfg.nslots) {}
  let p : PBL := { p0 with oldestEpoch := f.oldest, syncingEpochs := p0.seeds.length, syncedEpochs := p0.seeds.length }
  { w with
    pbl := p, free := free, pins := [], zombies := []
    objs := (w.objs.filter (survives p)).map fun o => { o with mine := false, precov := false }
    nextGid := match p.blocks.getLast? with | some b => b.gid + 1 | none => w.nextGid
    data := w.data.crash keepData, idx := w.idx.crash keepIdx, dir := dir
    g1 := .idle, sw := none }

end World

end BB.Persist
