/-!
Model of `PeriodicSyncer` (pkg/blobstore/local/periodic_syncer.go) running its
two loops against the parts of `PersistentBlockList`
(pkg/blobstore/local/persistent_block_list.go) it interacts with.

One model step = one lock region of the Go code or one collaborator call
(data sync, state-file write, timer expiry, channel receive).  Core Lean only.
-/
namespace BB.Syncer

/-! ## notificationChannel -/

/-- `notificationChannel`: the Go channel objects are numbered by generation;
`closed` lists the generations on which `close()` has been called.  Closing a
generation twice is the Go runtime panic `close of closed channel`. -/
structure Chan where
  blocking : Bool := true
  gen : Nat := 0
  closed : List Nat := []
  panicked : Bool := false
deriving Repr

/-- `notificationChannel.block()` -/
def Chan.block (c : Chan) : Chan :=
  if c.blocking then c else { c with blocking := true, gen := c.gen + 1 }

/-- `notificationChannel.unblock()` -/
def Chan.unblock (c : Chan) : Chan :=
  if c.blocking then
    if c.closed.contains c.gen then { c with blocking := false, panicked := true }
    else { c with blocking := false, closed := c.gen :: c.closed }
  else c

/-- `<-ch` on the channel object of generation `g` does not block. -/
def Chan.ready (c : Chan) (g : Nat) : Bool := c.closed.contains g

/-! ## PersistentBlockList -/

/-- `persistentBlockInfo`; `id` stands for the block / its `BlockLocation`. -/
structure Blk where
  id : Nat
  written : Nat := 0
  syncing : Nat := 0
  synced : Nat := 0
  ec : Nat := 0
deriving Repr

/-- What `GetPersistentState` returns: oldest epoch id and per block
(location, write offset, number of epoch hash seeds). -/
structure Snap where
  oldest : Nat := 0
  blocks : List (Nat × Nat × Nat) := []
deriving Repr, BEq, DecidableEq

def Snap.ids (s : Snap) : List Nat := s.blocks.map (·.1)
def Snap.count (s : Snap) : Nat := (s.blocks.map (·.2.2)).sum
/-- One past the newest epoch id the state lists. -/
def Snap.bound (s : Snap) : Nat := s.oldest + s.count

structure BL where
  blocks : List Blk := []
  /-- `epochLastAbsoluteBlockIndex` (`epochHashSeeds` has the same length). -/
  epochLast : List Nat := []
  totalReleased : Nat := 0
  oldest : Nat := 0
  syncingE : Nat := 0
  syncedE : Nat := 0
  putCh : Chan := {}
  toRelease : List Nat := []
  releasing : Nat := 0
  relCh : Chan := {}
  closedW : Bool := false
  /-- the block allocator's `freeOffsets` (FIFO) -/
  free : List Nat := []
  /-- an index-out-of-range panic of the Go code was reached -/
  oob : Bool := false
deriving Repr

def BL.nE (b : BL) : Nat := b.epochLast.length

/-- `PushBack`; `none` = error returned (closed for writing / allocator empty). -/
def BL.pushBack (b : BL) : Option BL :=
  if b.closedW then none else
  match b.free with
  | [] => none
  | id :: rest => some { b with blocks := b.blocks ++ [{ id := id }], free := rest }

/-- `PopFront` (the caller guarantees a non-empty list; `none` otherwise). -/
def BL.popFront (b : BL) : Option BL :=
  match b.blocks with
  | [] => none
  | f :: rest =>
    let epochLast := b.epochLast.drop f.ec
    let syncedE := b.syncedE - f.ec
    some { b with
      blocks := rest
      toRelease := b.toRelease ++ [f.id]
      relCh := b.relCh.unblock
      oldest := b.oldest + f.ec
      epochLast := epochLast
      totalReleased := b.totalReleased + 1
      syncingE := b.syncingE - f.ec
      syncedE := syncedE
      oob := b.oob || decide (b.epochLast.length < f.ec)
      putCh := if syncedE = epochLast.length then b.putCh.block else b.putCh }

def bumpWritten (e : Nat) (k : Blk) : Blk := { k with written := max k.written e }
def bumpEc (k : Blk) : Blk := { k with ec := k.ec + 1 }

/-- Result of the lock region of a put finalizer. -/
inductive FinRes
  | ok (epoch : Nat)   -- acknowledged; the epoch id the write belongs to
  | closed             -- errClosedForWriting
  | released           -- INTERNAL: block already released
deriving Repr, DecidableEq

/-- The finalizer returned by `Put`, from `if bl.closedForWriting` on, for a
write into absolute block `abs` ending at offset `e`.  `none`: `abs` is not a
block the list ever handed out (not a finalizer that can exist). -/
def BL.fin (b : BL) (abs e : Nat) : Option (BL × FinRes) :=
  if b.closedW then some (b, .closed) else
  if abs < b.totalReleased then some (b, .released) else
  if abs - b.totalReleased ≥ b.blocks.length then none else
  let blocks := b.blocks.modify (abs - b.totalReleased) (bumpWritten e)
  let newEpoch : Bool :=
    b.epochLast.length == b.syncingE ||
      (match b.epochLast.getLast? with
       | some l => decide (l < abs)
       | none => true)
  if newEpoch then
    let b' := { b with
      blocks := blocks.modify (blocks.length - 1) bumpEc
      epochLast := b.epochLast ++ [b.totalReleased + b.blocks.length - 1]
      putCh := b.putCh.unblock }
    some (b', .ok (b'.oldest + b'.nE - 1))
  else some ({ b with blocks := blocks }, .ok (b.oldest + b.nE - 1))

/-- `NotifySyncStarting(isFinalSync)` -/
def BL.syncStarting (b : BL) (final : Bool) : BL :=
  { b with
    closedW := b.closedW || final
    syncingE := b.nE
    blocks := b.blocks.map fun k => { k with syncing := k.written } }

/-- `NotifySyncCompleted` -/
def BL.syncCompleted (b : BL) : BL :=
  { b with
    syncedE := b.syncingE
    putCh := if b.syncingE = b.nE then b.putCh.block else b.putCh
    blocks := b.blocks.map fun k => { k with synced := k.syncing } }

/-- The loop of `GetPersistentState`: `rem` = `synchronizedEpochs - lastEpochIndex`.
`none` = `bl.blocks[blockIndex]` out of range. -/
def snapBlocks : List Blk → Nat → Option (List (Nat × Nat × Nat))
  | _, 0 => some []
  | [], _ + 1 => none
  | k :: ks, rem + 1 =>
    let n := min k.ec (rem + 1)
    match snapBlocks ks (rem + 1 - n) with
    | some r => some ((k.id, k.synced, n) :: r)
    | none => none

/-- `GetPersistentState` -/
def BL.getState (b : BL) : BL × Snap :=
  match snapBlocks b.blocks b.syncedE with
  | some bs => ({ b with releasing := b.toRelease.length }, { oldest := b.oldest, blocks := bs })
  | none => ({ b with oob := true }, { oldest := b.oldest, blocks := [] })

/-- `NotifyPersistentStateWritten` -/
def BL.stateWritten (b : BL) : BL :=
  let rest := b.toRelease.drop b.releasing
  { b with
    free := b.free ++ b.toRelease.take b.releasing
    toRelease := rest
    releasing := 0
    oob := b.oob || decide (b.toRelease.length < b.releasing)
    relCh := if rest.isEmpty then b.relCh.block else b.relCh }

/-! ## PeriodicSyncer: the two loops -/

structure Cfg where
  /-- `minimumEpochInterval` -/
  minInt : Nat
  /-- `errorRetryInterval` -/
  retryInt : Nat
deriving Repr

/-- Position inside `writePersistentStateRetrying`. -/
inductive WPc
  | idle                -- about to take `storeLock` and call `GetPersistentState`
  | writing (s : Snap)  -- inside `store.WritePersistentState` (holds `storeLock`)
  | written             -- the write returned nil; `NotifyPersistentStateWritten` is next (holds `storeLock`)
  | sleep (d : Nat)     -- `logErrorAndSleep`, timer deadline `d`
deriving Repr, DecidableEq

/-- Position of the goroutine running `ProcessBlockPut` in a loop. -/
inductive PPc
  | get                                 -- about to call `GetBlockPutWakeup`
  | poll (g : Nat)                      -- holds channel `g`, at the first `select`
  | wait (g : Nat)                      -- at the inner `select` (ctx.Done / ch)
  | timer (d armed : Nat)               -- at the last `select` (ctx.Done / timer with deadline `d`, armed at `armed`)
  | lock (kg : Bool)                    -- about to `NotifySyncStarting(false)`
  | sync (kg final : Bool)              -- `dataSyncer()` in progress
  | syncSleep (kg final : Bool) (d : Nat)
  | synced (kg final : Bool)            -- `dataSyncer()` returned nil, `NotifySyncCompleted` is next
  | write (kg : Bool) (w : WPc)
  | done                                -- returned false
deriving Repr, DecidableEq

/-- Position of the goroutine running `ProcessBlockRelease` in a loop. -/
inductive RPc
  | get
  | wait (g : Nat)
  | write (w : WPc)
deriving Repr, DecidableEq

structure State where
  bl : BL := {}
  now : Nat := 0
  cancelled : Bool := false
  lastSync : Nat := 0          -- `lastSynchronizationTime`
  storeLocked : Bool := false  -- `storeLock`
  p : PPc := .get
  r : RPc := .get
  -- ghost state (never read by a step)
  durable : Snap := {}         -- last state file written successfully
  freedTotal : Nat := 0        -- blocks handed back to the allocator so far
  target : Nat := 0            -- one past the newest epoch id at the put loop's last NotifySyncStarting
  goal : Nat := 0              -- `totalBlocksReleased` at the release loop's last wake-up
  syncOk : Bool := false       -- a data sync succeeded since the put loop's last NotifySyncStarting(false)
  starts : List (Nat × Nat) := []  -- (start time, lastSynchronizationTime) of non-final syncs of running iterations, newest first
  acked : List Nat := []       -- epoch ids of acknowledged writes
deriving Repr

inductive WAct
  | get | ret (ok : Bool) | notify | wake
deriving Repr, DecidableEq

/-- One step inside `writePersistentStateRetrying`; the Bool says the function returned. -/
def wStep (c : Cfg) (s : State) (w : WPc) (a : WAct) : Option (State × WPc × Bool) :=
  match w, a with
  | .idle, .get =>
    if s.storeLocked then none else
    let r := s.bl.getState
    some ({ s with bl := r.1, storeLocked := true }, .writing r.2, false)
  | .writing snap, .ret true => some ({ s with durable := snap }, .written, false)
  | .writing _, .ret false => some ({ s with storeLocked := false }, .sleep (s.now + c.retryInt), false)
  | .written, .notify =>
    some ({ s with bl := s.bl.stateWritten, storeLocked := false,
                   freedTotal := s.freedTotal + (s.bl.toRelease.take s.bl.releasing).length }, .idle, true)
  | .sleep d, .wake => if s.now < d then none else some (s, .idle, false)
  | _, _ => none

inductive Act
  | tick (n : Nat) | cancel | push | pop | fin (abs e : Nat)
  | pGet | pPoll | pWake | pCancel | pFire | pStart | pData (ok : Bool) | pRetry | pCompleted
  | pW (a : WAct)
  | rGet | rWake | rW (a : WAct)
deriving Repr, DecidableEq

/-- The transition function; `none` = the action is not enabled. -/
def step (c : Cfg) (s : State) : Act → Option State
  | .tick n => some { s with now := s.now + n }
  | .cancel => some { s with cancelled := true }
  | .push => some (match s.bl.pushBack with | some b => { s with bl := b } | none => s)
  | .pop => (s.bl.popFront).map fun b => { s with bl := b }
  | .fin abs e => (s.bl.fin abs e).map fun r =>
      { s with bl := r.1, acked := match r.2 with | .ok ep => ep :: s.acked | _ => s.acked }
  | .pGet => match s.p with
    | .get => some { s with p := .poll s.bl.putCh.gen }
    | _ => none
  | .pPoll => match s.p with
    | .poll g => some { s with p := if s.bl.putCh.ready g then .timer (max s.now (s.lastSync + c.minInt)) s.now else .wait g }
    | _ => none
  | .pWake => match s.p with
    | .wait g => if s.bl.putCh.ready g then some { s with p := .timer (s.now + c.minInt) s.now } else none
    | _ => none
  | .pCancel => if !s.cancelled then none else match s.p with
    | .wait _ => some { s with p := .lock false }
    | .timer _ _ => some { s with p := .lock false }
    | _ => none
  | .pFire => match s.p with
    | .timer d _ => if s.now < d then none else some { s with p := .lock true, lastSync := s.now }
    | _ => none
  | .pStart => match s.p with
    | .lock kg =>
      let b := s.bl.syncStarting false
      some { s with bl := b, p := .sync kg false, target := b.oldest + b.nE, syncOk := false,
                    starts := if kg then (s.now, s.lastSync) :: s.starts else s.starts }
    | _ => none
  | .pData ok => match s.p with
    | .sync kg f => some (if ok then { s with p := .synced kg f, syncOk := true }
                          else { s with p := .syncSleep kg f (s.now + c.retryInt) })
    | _ => none
  | .pRetry => match s.p with
    | .syncSleep kg f d => if s.now < d then none else some { s with p := .sync kg f }
    | _ => none
  | .pCompleted => match s.p with
    | .synced kg f =>
      let b := s.bl.syncCompleted
      if !kg && !f then
        let b2 := b.syncStarting true
        some { s with bl := b2, p := .sync false true, target := b2.oldest + b2.nE }
      else some { s with bl := b, p := .write kg .idle }
    | _ => none
  | .pW a => match s.p with
    | .write kg w => (wStep c s w a).map fun r =>
        { r.1 with p := if r.2.2 then (if kg then .get else .done) else .write kg r.2.1 }
    | _ => none
  | .rGet => match s.r with
    | .get => some { s with r := .wait s.bl.relCh.gen }
    | _ => none
  | .rWake => match s.r with
    | .wait g => if s.bl.relCh.ready g then some { s with r := .write .idle, goal := s.bl.totalReleased } else none
    | _ => none
  | .rW a => match s.r with
    | .write w => (wStep c s w a).map fun r =>
        { r.1 with r := if r.2.2 then .get else .write r.2.1 }
    | _ => none

/-- A freshly constructed store: empty block list, `free` allocator blocks, created at `t0`. -/
def init (free : List Nat) (oldest t0 : Nat) : State :=
  { bl := { free := free, oldest := oldest }, now := t0, lastSync := t0, durable := { oldest := oldest } }

/-- States reachable under any interleaving of the environment and the two loops. -/
inductive Reachable (c : Cfg) (free : List Nat) (oldest t0 : Nat) : State → Prop
  | init : Reachable c free oldest t0 (init free oldest t0)
  | step {s s' : State} (a : Act) : Reachable c free oldest t0 s → step c s a = some s' → Reachable c free oldest t0 s'

/-- Run a list of actions. -/
def run (c : Cfg) : State → List Act → Option State
  | s, [] => some s
  | s, a :: as => match step c s a with
    | some s' => run c s' as
    | none => none

end BB.Syncer
