/-!
# Model of `buffer.WithErrorHandler` (pkg/blobstore/buffer)

What is modelled (every branch of the Go code named next to the definition):

* the four buffer kinds a handler chain is built from: validated byte slice,
  error buffer, CAS buffer over a `ChunkReader`, CAS buffer over an
  `io.ReadCloser` (`NewCASBufferFromByteSlice` reduces to the first two at
  construction time, `casBytes`);
* `WithErrorHandler`/`applyErrorHandler` (`withEH`): immediate `Done` on a
  validated byte slice, immediate `OnError` on an error buffer, wrapping into
  `casErrorHandlingBuffer` otherwise;
* `casErrorHandlingBuffer`: `tryRepeatedly` (`retry`) for `ToByteSlice`/`ReadAt`,
  `errorHandlingChunkReader` (`ehChunks`) under `casValidatingChunkReader`
  (`validate`) for `IntoWriter`/`ToChunkReader` (+ `offsetChunkReader`,
  `skipEv`), `errorHandlingReader` (`EHR.read`) under `casValidatingReader`
  (`VR.read`) for `ToReader`, `Discard`, `GetSizeBytes`.

Sources are *scripts*: a list of data chunks and failures, end of list = EOF.
The error handler is a script too: the list of its answers, one per `OnError`
call (a replacement buffer or a translated error).  Everything is a total
function; every retry loop consumes one handler answer and is structurally
recursive on the answer list.

The digest is a size plus a predicate `valid` ("the hash of these bytes is
the digest's hash"); the theorems hold for every predicate.

Errors carry just enough to be compared with the real ones: scripted error
values are `tag k` (the harness gives every scripted error value its own `k`,
so equality of tags is identity of error values).

Simplifications (all checked against the real code by the correspondence run):
* "too big" carries no byte counts (the real message depends on the size of the
  `Read` buffer that happened to be in use);
* an unwrapped CAS buffer read as a whole (`ToByteSlice`/`ReadAt` of a base or
  replacement buffer inside `tryRepeatedly`) is summarised by `casFull`; the
  validating layers are modelled operationally where parts are stitched
  (`validate`, `VR.read`);
* a scripted source reports a failure with zero bytes; the scripted
  `io.Reader` skips empty data items and returns at most one item per `Read`;
* `Read` buffer sizes and maximum chunk sizes are `≥ 1`, offsets are `≥ 0`;
* not modelled: `ToProto`, `CloneCopy`, `CloneStream`, `WithTask` on a buffer
  with an error handler, nested error handlers.
-/
namespace BB.ErrorHandling

abbrev Bytes := List Nat

inductive Err
  | tag (k : Nat)                         -- a scripted error value (source failure, error buffer, handler answer)
  | exhausted                             -- the scripted handler ran out of answers (a fixed error value)
  | sizeMismatch (expected observed : Nat) -- Source.notifyCASSizeMismatch
  | tooBig                                -- Source.notifyCASTooBig
  | hashMismatch                          -- Source.notifyCASHashMismatch
  | badOffset (size off : Nat)            -- validateReaderOffset
  | tooLarge (size max : Nat)             -- "Buffer is %d bytes in size, while a maximum of %d bytes is permitted"
  | writer                                -- the consumer's io.Writer failed
deriving DecidableEq, Repr

/-- How a stream ends: `io.EOF` or an error. -/
inductive Term
  | eof
  | err (e : Err)
deriving DecidableEq, Repr

/-- What one `Read` call reports next to its bytes. -/
inductive Status
  | ok
  | eof
  | err (e : Err)
deriving DecidableEq, Repr

def Term.status : Term → Status
  | .eof => .eof
  | .err e => .err e

/-- One step of a scripted source. -/
inductive Item
  | data (b : Bytes)
  | fail (k : Nat)
deriving DecidableEq, Repr

structure Digest where
  size : Nat
  valid : Bytes → Bool

inductive Buf
  | bytes (data : Bytes)                  -- NewValidatedBufferFromByteSlice
  | error (e : Err)                       -- NewBufferFromError
  | chunks (d : Digest) (s : List Item)   -- NewCASBufferFromChunkReader over a scripted ChunkReader
  | reader (d : Digest) (s : List Item)   -- NewCASBufferFromReader over a scripted io.ReadCloser
  /-- one half of `NewCASBufferFromChunkReader(d, r).CloneStream()` (a `casClonedBuffer`); the other
  half is discarded by its owner, so this half sees the shared stream alone -/
  | clone (d : Digest) (s : List Item)
  /-- `NewValidatedBufferFromReaderAt(r, len data)` where `r` holds `data` followed by `suffix`
  (objects stored back to back: the backing storage continues with other bytes) -/
  | readerAt (data suffix : Bytes)

/-- One answer of the scripted `ErrorHandler.OnError`. -/
inductive Resp
  | repl (b : Buf)
  | fail (k : Nat)

/-- `NewCASBufferFromByteSlice`. -/
def casBytes (d : Digest) (data : Bytes) : Buf :=
  if d.size ≠ data.length then .error (.sizeMismatch d.size data.length)
  else if d.valid data then .bytes data
  else .error .hashMismatch

/-! ## Scripted sources -/

/-- The chunks a scripted source yields before its first failure, and how it ends. -/
def scan : List Item → List Bytes × Term
  | [] => ([], .eof)
  | .fail k :: _ => ([], .err (.tag k))
  | .data b :: r => ((b :: (scan r).1), (scan r).2)

/-- Bytes a source holds before its first failure. -/
def content : Buf → Bytes
  | .bytes data => data
  | .error _ => []
  | .chunks _ s => (scan s).1.flatten
  | .reader _ s => (scan s).1.flatten
  | .clone _ s => (scan s).1.flatten
  | .readerAt data _ => data

def piecesF (m : Nat) : Nat → Bytes → List Bytes
  | 0, _ => []
  | f+1, b =>
    if b = [] then []
    else if b.length ≤ m ∨ m = 0 then [b]
    else b.take m :: piecesF m f (b.drop m)

/-- Cut into non-empty pieces of at most `m` bytes (`byteSliceChunkReader`,
`normalizingChunkReader`, `readerBackedChunkReader`; `m ≥ 1`). -/
def pieces (m : Nat) (b : Bytes) : List Bytes := piecesF m b.length b

/-- `discardFromChunkReader` / `discardFromReader` over the chunks still to come:
`none` = the source ended (EOF or failure) before `off` bytes were skipped. -/
def dropChunks : List Bytes → Nat → Option (List Bytes)
  | cs, 0 => some cs
  | [], _+1 => none
  | c :: cs, off+1 =>
    if off + 1 < c.length then some (c.drop (off+1) :: cs)
    else dropChunks cs (off + 1 - c.length)

/-- `defaultChunkSizeBytes`: the chunk size a cloned buffer's other consumers ask for. -/
def cloneChunk : Nat := 65536

/-- `Buffer.toUnvalidatedChunkReader(off, m)`: all chunks the reader returns, then its terminal. -/
def openChunks (b : Buf) (off m : Nat) : List Bytes × Term :=
  match b with
  | .bytes data =>
    if off > data.length then ([], .err (.badOffset data.length off))
    else (pieces m (data.drop off), .eof)
  | .readerAt data _ =>
    -- readerBackedChunkReader over io.NewSectionReader(r, off, size - off): stops at the object's end
    if off > data.length then ([], .err (.badOffset data.length off))
    else (pieces m (data.drop off), .eof)
  | .error e => ([], .err e)
  | .chunks _ s =>
    -- normalizingChunkReader(offsetChunkReader(r, off), m)
    match dropChunks (scan s).1 off with
    | none => ([], (scan s).2)
    | some cs => (cs.flatMap (pieces m), (scan s).2)
  | .reader _ s =>
    -- discardFromReader, then readerBackedChunkReader (io.ReadFull into m-byte chunks)
    if off > (scan s).1.flatten.length then ([], (scan s).2)
    else (pieces m ((scan s).1.flatten.drop off), (scan s).2)
  | .clone _ s =>
    -- casClonedBuffer: offsetChunkReader(multiplexed(base.toUnvalidatedChunkReader(0, min m 64K)), off):
    -- the shared stream is normalised first, the offset is skipped afterwards
    match dropChunks ((scan s).1.flatMap (pieces (min m cloneChunk))) off with
    | none => ([], (scan s).2)
    | some cs => (cs, (scan s).2)

/-! ## `errorHandlingChunkReader` -/

/-- What happens below a validating layer, in order. -/
inductive Ev
  | chunk (c : Bytes)
  | onErr (e : Err)      -- `ErrorHandler.OnError(e)` is called
deriving DecidableEq, Repr

/-- `errorHandlingChunkReader` over the opened reader `cur` that starts at offset `off`:
the full sequence of chunks it returns and `OnError` calls it makes, and its terminal.
The replacement is opened at `off +` the bytes returned so far. -/
def ehChunks (m : Nat) : List Bytes × Term → Nat → List Resp → List Ev × Term
  | (cs, .eof), _, _ => (cs.map .chunk, .eof)
  | (cs, .err e), _, [] => (cs.map .chunk ++ [.onErr e], .err .exhausted)
  | (cs, .err e), _, .fail k :: _ => (cs.map .chunk ++ [.onErr e], .err (.tag k))
  | (cs, .err e), off, .repl b :: h =>
    let off' := off + cs.flatten.length
    let r := ehChunks m (openChunks b off' m) off' h
    (cs.map .chunk ++ .onErr e :: r.1, r.2)

/-! ## `casValidatingChunkReader` -/

/-- `maybeFinalize` once `bytesRemaining = 0`: read on to EOF (only empty chunks may follow),
then compare the checksum of `acc`.  Returns the `OnError` calls made on the way and
`none` for success. -/
def finalize (d : Digest) (acc : Bytes) : List Ev → Term → List Ev × Option Err
  | [], .eof => ([], if d.valid acc then none else some .hashMismatch)
  | [], .err e => ([], some e)
  | .onErr e :: r, t => (.onErr e :: (finalize d acc r t).1, (finalize d acc r t).2)
  | .chunk c :: r, t => if c.length > 0 then ([], some .tooBig) else finalize d acc r t

/-- `casValidatingChunkReader` over an underlying sequence: what its consumer gets, in order.
`rem` = `bytesRemaining`, `acc` = the bytes hashed so far.  The chunk that completes the size
is returned only after finalisation succeeded. -/
def validateAux (d : Digest) : Nat → Bytes → List Ev → Term → List Ev × Term
  | rem, _, [], .eof => ([], .err (.sizeMismatch d.size (d.size - rem)))
  | _, _, [], .err e => ([], .err e)
  | rem, acc, .onErr e :: r, t => (.onErr e :: (validateAux d rem acc r t).1, (validateAux d rem acc r t).2)
  | rem, acc, .chunk c :: r, t =>
    if c.length > rem then ([], .err .tooBig)
    else if c.length = rem then
      match finalize d (acc ++ c) r t with
      | (evs, none) => (evs ++ [.chunk c], .eof)
      | (evs, some e) => (evs, .err e)
    else
      (.chunk c :: (validateAux d (rem - c.length) (acc ++ c) r t).1,
       (validateAux d (rem - c.length) (acc ++ c) r t).2)

def validate (d : Digest) (evs : List Ev) (t : Term) : List Ev × Term :=
  if d.size = 0 then
    match finalize d [] evs t with
    | (l, none) => (l, .eof)
    | (l, some e) => (l, .err e)
  else validateAux d d.size [] evs t

/-- A consumer makes at most `k` `Read` calls and stops at the first one that does not return a
chunk.  Result: what each call returned, and the `OnError` calls made during them. -/
def consume : List Ev → Term → Nat → List (Bytes × Status) × List Err
  | _, _, 0 => ([], [])
  | [], t, _+1 => ([([], t.status)], [])
  | .onErr e :: r, t, k+1 => ((consume r t (k+1)).1, e :: (consume r t (k+1)).2)
  | .chunk c :: r, t, k+1 => ((c, .ok) :: (consume r t k).1, (consume r t k).2)

/-- `newOffsetChunkReader`'s eager `discardFromChunkReader` on a sequence: the `OnError` calls made
while skipping, and what is left (`none` = the terminal was hit first). -/
def skipEv : List Ev → Term → Nat → List Err × Option (List Ev)
  | evs, _, 0 => ([], some evs)
  | [], _, _+1 => ([], none)
  | .onErr e :: r, t, off+1 => (e :: (skipEv r t (off+1)).1, (skipEv r t (off+1)).2)
  | .chunk c :: r, t, off+1 =>
    if off + 1 < c.length then ([], some (.chunk (c.drop (off+1)) :: r))
    else skipEv r t (off + 1 - c.length)

/-! ## Readers -/

/-- An opened unvalidated `io.ReadCloser`. -/
inductive RSrc
  /-- returns at most one piece per `Read` (`bytes.Buffer`, the scripted reader, `errorReader`) -/
  | short (cs : List Bytes) (t : Term)
  /-- fills the caller's buffer across chunks and reports the terminal together with the last
  bytes (`chunkReaderBackedReader`) -/
  | fill (data : Bytes) (t : Term)

def readShort (n : Nat) : List Bytes → Term → Bytes × Status × List Bytes
  | [], t => ([], t.status, [])
  | [] :: cs, t => readShort n cs t
  | (x :: c) :: cs, _ =>
    ((x :: c).take n, .ok, if n ≥ (x :: c).length then cs else (x :: c).drop n :: cs)

def RSrc.read (n : Nat) : RSrc → Bytes × Status × RSrc
  | .short cs t => let r := readShort n cs t; (r.1, r.2.1, .short r.2.2 t)
  | .fill data t =>
    if n ≤ data.length then (data.take n, .ok, .fill (data.drop n) t)
    else (data, t.status, .fill [] t)

/-- `Buffer.toUnvalidatedReader(off)`. -/
def openReader (b : Buf) (off : Nat) : RSrc :=
  match b with
  | .bytes data =>
    if off > data.length then .short [] (.err (.badOffset data.length off))
    else .short [data.drop off] .eof
  | .readerAt data _ =>
    -- io.NewSectionReader(r, off, size - off): exactly the object's bytes from `off` to its size,
    -- whatever follows the object in the backing storage
    if off > data.length then .short [] (.err (.badOffset data.length off))
    else .short [data.drop off] .eof
  | .error e => .short [] (.err e)
  | .chunks _ s =>
    match dropChunks (scan s).1 off with
    | none => .short [] (scan s).2
    | some cs => .fill cs.flatten (scan s).2
  | .reader _ s =>
    match dropChunks (scan s).1 off with
    | none => .short [] (scan s).2
    | some cs => .short cs (scan s).2
  | .clone _ s =>
    -- casClonedBuffer.toUnvalidatedReader(off) = chunkReaderBackedReader(toUnvalidatedChunkReader(off, 64K)):
    -- the reader skips `off` bytes of the shared stream
    match dropChunks ((scan s).1.flatMap (pieces cloneChunk)) off with
    | none => .short [] (scan s).2
    | some cs => .fill cs.flatten (scan s).2

/-- `errorHandlingReader`. -/
structure EHR where
  src : RSrc
  off : Nat
  h : List Resp

/-- `errorHandlingReader.Read(p)`, `len(p) = n`: bytes, status, new state, `OnError` calls (0 or 1). -/
def EHR.read (r : EHR) (n : Nat) : Bytes × Status × EHR × List Err :=
  match r.src.read n with
  | (bs, .ok, s) => (bs, .ok, { r with src := s, off := r.off + bs.length }, [])
  | (bs, .eof, s) => (bs, .eof, { r with src := s, off := r.off + bs.length }, [])
  | (bs, .err e, s) =>
    match r.h with
    | [] => (bs, .err .exhausted, { src := s, off := r.off + bs.length, h := [] }, [e])
    | .fail k :: h => (bs, .err (.tag k), { src := s, off := r.off + bs.length, h := h }, [e])
    | .repl b :: h =>
      (bs, .ok, { src := openReader b (r.off + bs.length), off := r.off + bs.length, h := h }, [e])

/-- The one-byte look-ahead of `casValidatingReader.doRead` (`io.ReadFull` of one byte over the
`errorHandlingReader`): `none` = EOF seen, `some none` = a byte arrived, `some (some e)` = error. -/
def peek : RSrc → Nat → List Resp → Option (Option Err) × EHR × List Err
  | src, off, h =>
    match src.read 1 with
    | (bs, .ok, s) => (some none, { src := s, off := off + bs.length, h := h }, [])
    | (bs, .eof, s) =>
      if bs.length > 0 then (some none, { src := s, off := off + bs.length, h := h }, [])
      else (none, { src := s, off := off, h := h }, [])
    | (bs, .err e, s) =>
      -- (a read of one byte never returns a byte together with an error, so `bs = []` here)
      match h with
      | [] => (some (some .exhausted), { src := s, off := off + bs.length, h := [] }, [e])
      | .fail k :: h' => (some (some (.tag k)), { src := s, off := off + bs.length, h := h' }, [e])
      | .repl b :: h' =>
        let r := peek (openReader b (off + bs.length)) (off + bs.length) h'
        (r.1, r.2.1, e :: r.2.2)

/-- `casValidatingReader`. -/
structure VR where
  d : Digest
  sticky : Option Status
  rem : Nat
  acc : Bytes
  eh : EHR

/-- `casValidatingReader.Read(p)`, `len(p) = n`. -/
def VR.read (v : VR) (n : Nat) : Bytes × Status × VR × List Err :=
  match v.sticky with
  | some st => ([], st, v, [])
  | none =>
    match v.eh.read n with
    | (bs, st, eh, l) =>
      if bs.length > v.rem then ([], .err .tooBig, { v with sticky := some (.err .tooBig), eh := eh }, l)
      else
        let acc := v.acc ++ bs
        let rem := v.rem - bs.length
        match st with
        | .eof =>
          if rem ≠ 0 then
            let e := Err.sizeMismatch v.d.size (v.d.size - rem)
            ([], .err e, { v with sticky := some (.err e), rem := rem, acc := acc, eh := eh }, l)
          else if v.d.valid acc then
            (bs, .eof, { v with sticky := some .eof, rem := rem, acc := acc, eh := eh }, l)
          else ([], .err .hashMismatch, { v with sticky := some (.err .hashMismatch), rem := rem, acc := acc, eh := eh }, l)
        | .err e => ([], .err e, { v with sticky := some (.err e), rem := rem, acc := acc, eh := eh }, l)
        | .ok =>
          if rem ≠ 0 then (bs, .ok, { v with rem := rem, acc := acc, eh := eh }, l)
          else
            match peek eh.src eh.off eh.h with
            | (some none, eh', l') =>
              ([], .err .tooBig, { v with sticky := some (.err .tooBig), rem := rem, acc := acc, eh := eh' }, l ++ l')
            | (some (some e), eh', l') =>
              ([], .err e, { v with sticky := some (.err e), rem := rem, acc := acc, eh := eh' }, l ++ l')
            | (none, eh', l') =>
              if v.d.valid acc then
                (bs, .eof, { v with sticky := some .eof, rem := rem, acc := acc, eh := eh' }, l ++ l')
              else
                ([], .err .hashMismatch,
                 { v with sticky := some (.err .hashMismatch), rem := rem, acc := acc, eh := eh' }, l ++ l')

/-- A consumer calls `Read` with the given buffer sizes and stops after the first call that does
not report `ok` (then it calls `Close`). -/
def VR.run (v : VR) : List Nat → List (Bytes × Status) × List Err
  | [] => ([], [])
  | n :: ns =>
    match v.read n with
    | (bs, .ok, v', l) => ((bs, .ok) :: (v'.run ns).1, l ++ (v'.run ns).2)
    | (bs, st, _, l) => ([(bs, st)], l)

/-! ## Whole-operation retries (`tryRepeatedly`) -/

/-- The outcome of reading a CAS buffer (not wrapped in an error handler) completely through its
validating reader: all bytes, or the first error. -/
def casFull (d : Digest) (s : List Item) : Except Err Bytes :=
  let pre := (scan s).1.flatten
  if pre.length > d.size then .error .tooBig
  else match (scan s).2 with
    | .err e => .error e
    | .eof =>
      if pre.length < d.size then .error (.sizeMismatch d.size pre.length)
      else if d.valid pre then .ok pre
      else .error .hashMismatch

/-- `Buffer.ToByteSlice(max)` of an unwrapped buffer. -/
def baseSlice (max : Nat) : Buf → Except Err Bytes
  | .bytes data => if data.length > max then .error (.tooLarge data.length max) else .ok data
  | .readerAt data _ => if data.length > max then .error (.tooLarge data.length max) else .ok data
  | .error e => .error e
  | .chunks d s => if d.size > max then .error (.tooLarge d.size max) else casFull d s
  | .reader d s => if d.size > max then .error (.tooLarge d.size max) else casFull d s
  | .clone d s => if d.size > max then .error (.tooLarge d.size max) else casFull d s

/-- `Buffer.ReadAt(p, off)`, `len(p) = n`, of an unwrapped buffer: the bytes and whether `io.EOF`
accompanies them. -/
def baseReadAt (off n : Nat) : Buf → Except Err (Bytes × Bool)
  | .bytes data =>
    if off > data.length then .ok ([], true)
    else .ok ((data.drop off).take n, decide ((data.drop off).length < n))
  | .readerAt data suffix =>
    -- `b.r.ReadAt(p, off)`: delegated to the backing ReaderAt, not bounded by the object's size
    if off ≥ (data ++ suffix).length then .ok ([], true)
    else .ok (((data ++ suffix).drop off).take n, decide (((data ++ suffix).drop off).length < n))
  | .error e => .error e
  | .chunks d s =>
    match casFull d s with
    | .error e => .error e
    | .ok data => .ok ((data.drop off).take n, decide (0 < n ∧ data.length < off + n))
  | .clone d s =>
    match casFull d s with
    | .error e => .error e
    | .ok data => .ok ((data.drop off).take n, decide (0 < n ∧ data.length < off + n))
  | .reader d s =>
    match casFull d s with
    | .error e => .error e
    | .ok data =>
      if off > data.length then .ok ([], true)
      else .ok ((data.drop off).take n, decide (0 < n ∧ data.length < off + n))

/-- `casErrorHandlingBuffer.tryRepeatedly`. -/
def retry {α : Type} (f : Buf → Except Err α) : Buf → List Resp → Except Err α × List Err
  | b, h =>
    match f b with
    | .ok a => (.ok a, [])
    | .error e =>
      match h with
      | [] => (.error .exhausted, [e])
      | .fail k :: _ => (.error (.tag k), [e])
      | .repl b' :: h' => ((retry f b' h').1, e :: (retry f b' h').2)

/-! ## `WithErrorHandler` and the operations -/

/-- What `WithErrorHandler` returns. -/
inductive WBuf
  | plain (b : Buf)               -- the handler is finished already; `b` is `bytes`, `readerAt` or `error`
  | eh (base : Buf) (d : Digest)  -- `casErrorHandlingBuffer`

/-- `WithErrorHandler(b, handler)`: the buffer, the `OnError` calls made, the `Done` calls made. -/
def withEH : Buf → List Resp → WBuf × List Err × Nat
  | .bytes data, _ => (.plain (.bytes data), [], 1)
  | .readerAt data suffix, _ => (.plain (.readerAt data suffix), [], 1)
  | .chunks d s, _ => (.eh (.chunks d s) d, [], 0)
  | .reader d s, _ => (.eh (.reader d s) d, [], 0)
  | .clone d s, _ => (.eh (.clone d s) d, [], 0)
  | .error e, [] => (.plain (.error .exhausted), [e], 1)
  | .error e, .fail k :: _ => (.plain (.error (.tag k)), [e], 1)
  | .error e, .repl b :: h => ((withEH b h).1, e :: (withEH b h).2.1, (withEH b h).2.2)

inductive Op
  | slice (max : Nat)                       -- ToByteSlice(max)
  | writer (failAt : Option Nat)            -- IntoWriter(w); w fails on its failAt-th Write (0-based)
  | readAt (off n : Nat)                    -- ReadAt(p, off), len(p) = n
  | reader (sizes : List Nat)               -- ToReader(); Read with these sizes until not ok; Close
  | chunkReader (off m k : Nat)             -- ToChunkReader(off, m); at most k Reads until not ok; Close
  | discard                                 -- Discard()
  | size                                    -- GetSizeBytes(); Discard()

inductive Result
  | slice (r : Except Err Bytes)
  | readAt (r : Except Err (Bytes × Bool))
  | reads (rs : List (Bytes × Status))
  | writes (ws : List Bytes) (e : Option Err)
  | size (r : Except Err Nat)
  | unit

structure Outcome where
  result : Result
  log : List Err     -- errors passed to OnError, in call order
  done : Nat         -- number of Done calls

/-- `intoWriterViaChunkReader`-style loop: chunks written before the writer fails or the stream ends. -/
def writeAll : List (Bytes × Status) → Option Nat → List Bytes × Option Err
  | [], _ => ([], none)
  | (_, .eof) :: _, _ => ([], none)
  | (_, .err e) :: _, _ => ([], some e)
  | (_, .ok) :: _, some 0 => ([], some .writer)
  | (c, .ok) :: r, some (j+1) => (c :: (writeAll r (some j)).1, (writeAll r (some j)).2)
  | (c, .ok) :: r, none => (c :: (writeAll r none).1, (writeAll r none).2)

def bigChunk : Nat := 65536

/-- Number of chunks after which the writer consumer stops reading. -/
def writerReads : Option Nat → Nat → Nat
  | some j, _ => j + 1
  | none, total => total + 1

/-- Reading an unwrapped reader with the given buffer sizes until a call does not report `ok`. -/
def rawRun : RSrc → List Nat → List (Bytes × Status)
  | _, [] => []
  | s, n :: ns =>
    match s.read n with
    | (bs, .ok, s') => (bs, .ok) :: rawRun s' ns
    | (bs, st, _) => [(bs, st)]

/-- The operations of a validated byte slice buffer / error buffer (no handler involved any more). -/
def plainOp (b : Buf) (op : Op) : Result :=
  match op with
  | .slice max => .slice (baseSlice max b)
  | .writer failAt =>
    match b with
    | .bytes data => if failAt = some 0 then .writes [] (some .writer) else .writes [data] none
    | .readerAt data _ =>
      -- io.Copy from a SectionReader: no Write at all for an empty object
      if data = [] then .writes [] none
      else if failAt = some 0 then .writes [] (some .writer) else .writes [data] none
    | .error e => .writes [] (some e)
    | _ => .unit
  | .readAt off n => .readAt (baseReadAt off n b)
  | .reader sizes => .reads (rawRun (openReader b 0) sizes)
  | .chunkReader off m k =>
    let o := openChunks b off m
    .reads (consume (o.1.map .chunk) o.2 k).1
  | .discard => .unit
  | .size =>
    match b with
    | .bytes data => .size (.ok data.length)
    | .readerAt data _ => .size (.ok data.length)
    | .error e => .size (.error e)
    | _ => .unit

/-- The operations of `casErrorHandlingBuffer{base, handler = h, digest = d}`. -/
def ehOp (base : Buf) (d : Digest) (h : List Resp) (op : Op) : Outcome :=
  match op with
  | .slice max =>
    let r := retry (baseSlice max) base h
    ⟨.slice r.1, r.2, 1⟩                       -- tryRepeatedly: defer Done()
  | .readAt off n =>
    let r := retry (baseReadAt off n) base h
    ⟨.readAt r.1, r.2, 1⟩
  | .writer failAt =>
    let u := ehChunks bigChunk (openChunks base 0 bigChunk) 0 h
    let v := validate d u.1 u.2
    let c := consume v.1 v.2 (writerReads failAt v.1.length)
    let w := writeAll c.1 failAt
    ⟨.writes w.1 w.2, c.2, 1⟩                  -- intoWriterViaChunkReader: defer r.Close()
  | .chunkReader off m k =>
    if off > d.size then
      ⟨.reads (consume [] (.err (.badOffset d.size off)) k).1, [], 1⟩   -- b.Discard()
    else
      let u := ehChunks m (openChunks base 0 m) 0 h
      let v := validate d u.1 u.2
      match skipEv v.1 v.2 off with
      | (l, none) => ⟨.reads (consume [] v.2 k).1, l, 1⟩                -- r.Close() in newOffsetChunkReader
      | (l, some evs) =>
        let c := consume evs v.2 k
        ⟨.reads c.1, l ++ c.2, 1⟩                                       -- the consumer's Close()
  | .reader sizes =>
    let v : VR := { d := d, sticky := none, rem := d.size, acc := [], eh := ⟨openReader base 0, 0, h⟩ }
    let r := v.run sizes
    ⟨.reads r.1, r.2, 1⟩                                                -- the consumer's Close()
  | .discard => ⟨.unit, [], 1⟩
  | .size => ⟨.size (.ok d.size), [], 1⟩

/-- `WithErrorHandler(base, handler)` followed by one consuming operation. -/
def runOp (base : Buf) (h : List Resp) (op : Op) : Outcome :=
  match withEH base h with
  | (.plain b, l, dn) => ⟨plainOp b op, l, dn⟩
  | (.eh b d, l, dn) =>
    let o := ehOp b d (h.drop l.length) op
    ⟨o.result, l ++ o.log, dn + o.done⟩

end BB.ErrorHandling
