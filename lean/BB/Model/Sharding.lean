import BB.Gen.Rendezvous
/-!
# Model of `pkg/blobstore/sharding` (property C12)

What the code does, not what it should do:

* `NewRendezvousShardSelector` (rendezvous_shard_selector.go:34-56): rejects the
  empty list and colliding key hashes, records for each shard its weight, its
  position in the argument list and `hashServer(key)`, and sorts by that hash.
  `hashServer` (sha256, first eight bytes big endian) is external: the hash is a
  field of the shard description here; the harness computes it the way the Go
  code does and passes numbers.
* `GetShard` (:143-155): a fold with `best = 0`, `bestIndex = 0` and a strict
  `current > best` update.  The score function is a parameter `sc` of the
  generic definitions; `rscore` is the real one, built from the *generated*
  `BB.Gen.Rendezvous.score` and `splitmix64`.
* `shardingBlobAccess` (sharding_blob_access.go): `getBackendIndexByDigest`
  (first eight hash bytes, big endian, then `GetShard`), `Get`, `Put`,
  `FindMissing` (partition, ask every backend with a non-empty part, union or
  first error, errors prefixed with the shard key).

`GetFromComposite` routes by the parent digest exactly like `Get`.
Left out (not covered by C12): `GetCapabilities` (round robin through `GetShard` of a
counter), buffers/streaming of `Get`/`Put` payloads, digest key formats.
`sort.Slice` is not stable; with distinct hashes (which the constructor
enforces) every correct sort yields the same list, so insertion sort is used.
Concurrency of `FindMissing`: all asked backends are called; when several fail
the code returns whichever error `errgroup` saw first - the model picks the
failing backend with the lowest index (the harness makes that one fail first,
and in free-running mode only checks that the error is one of the failing
shards').
-/
namespace BB.Sharding
open BB.Gen.Rendezvous

/-- A shard as the selector sees it: `hash = hashServer(key)`, the weight, and a tag.
With `tag := key` this is `sharding.Shard` (the constructor argument), with
`tag := index` it is the internal `rendezvousShard`. -/
structure Entry (α : Type) where
  hash : UInt64
  weight : UInt32
  tag : α
deriving Repr, DecidableEq

variable {α β : Type}

def Entry.mapTag (f : α → β) (e : Entry α) : Entry β := ⟨e.hash, e.weight, f e.tag⟩

/-- `sort.Slice(internalShards, hash <)`, as insertion sort. -/
def insertE (e : Entry α) : List (Entry α) → List (Entry α)
  | [] => [e]
  | x :: xs => if e.hash < x.hash then e :: x :: xs else x :: insertE e xs

def sortE (l : List (Entry α)) : List (Entry α) := l.foldr insertE []

/-- `keyMap` check of the constructor: some later shard has the same key hash. -/
def collides : List (Entry α) → Bool
  | [] => false
  | s :: rest => rest.any (fun x => x.hash == s.hash) || collides rest

inductive CtorError where
  | empty
  | collision
deriving Repr, DecidableEq

/-- The sorted internal shard list for an accepted argument list. -/
def selOf (ss : List (Entry α)) : List (Entry Nat) :=
  sortE (ss.zipIdx.map fun p => ⟨p.1.hash, p.1.weight, p.2⟩)

/-- `NewRendezvousShardSelector`. -/
def newSelector (ss : List (Entry α)) : Except CtorError (List (Entry Nat)) :=
  if ss.isEmpty then .error .empty
  else if collides ss then .error .collision
  else .ok (selOf ss)

/-- One iteration of the loop of `GetShard`. -/
def step (sc : UInt64 → UInt32 → UInt64) (acc : UInt64 × α) (e : Entry α) : UInt64 × α :=
  let current := sc e.hash e.weight
  if current > acc.1 then (current, e.tag) else acc

/-- The loop of `GetShard`: `(best, bestIndex)` after all shards, starting from `(0, d)`. -/
def pick (sc : UInt64 → UInt32 → UInt64) (l : List (Entry α)) (d : α) : UInt64 × α :=
  l.foldl (step sc) (0, d)

/-- `GetShard` for an arbitrary score function. -/
def getShardG (sc : UInt64 → UInt32 → UInt64) (sel : List (Entry Nat)) : Nat := (pick sc sel 0).2

/-- The real score of a shard `(kh, w)` for object hash `h`: generated `score` and `splitmix64`. -/
def rscore (h : UInt64) (kh : UInt64) (w : UInt32) : UInt64 := score (splitmix64 (kh ^^^ h)) w

/-- `rendezvousShardSelector.GetShard`. -/
def getShard (sel : List (Entry Nat)) (h : UInt64) : Nat := getShardG (rscore h) sel

/-- The key of the shard `GetShard` points at, for the argument list `ss` (what an observer of
the composite sees: which backend is addressed). -/
def chosenKey (sc : UInt64 → UInt32 → UInt64) (ss : List (Entry α)) : Option α :=
  (ss[getShardG sc (selOf ss)]?).map Entry.tag

/-! ### The sharding composite -/

structure Digest where
  instanceName : String
  /-- REv2 digest function enum value (SHA256 = 1, ..., GITSHA1 = 10); never looked at by the routing. -/
  function : Nat
  hashBytes : List UInt8
  sizeBytes : Nat
deriving Repr, DecidableEq

/-- `binary.BigEndian.Uint64(hb[:8])`. -/
def be64 (bs : List UInt8) : UInt64 := (bs.take 8).foldl (fun a b => (a <<< 8) ||| b.toUInt64) 0

/-- `getBackendIndexByDigest`. -/
def shardOf (sel : List (Entry Nat)) (d : Digest) : Nat := getShard sel (be64 d.hashBytes)

/-- The composite: backend keys (aligned with the selector's indices), the selector, and the
behaviour of the backends as arbitrary functions. -/
structure Access (κ ε ν : Type) where
  keys : List κ
  sel : List (Entry Nat)
  get : Nat → Digest → Except ε ν
  put : Nat → Digest → ν → Except ε Unit
  fm : Nat → List Digest → Except ε (List Digest)
  /-- `GetFromComposite(parent, child)` of backend `i` (defaults to "whatever `get` of the child gives";
  theorems quantify over every function). -/
  getc : Nat → Digest → Digest → Except ε ν := fun i _ c => get i c

/-- A call received by backend `i`. -/
inductive Call where
  | get (i : Nat) (d : Digest)
  | put (i : Nat) (d : Digest)
  | fm (i : Nat) (ds : List Digest)
  | getc (i : Nat) (parent child : Digest)
deriving Repr, DecidableEq

variable {κ ε ν : Type}

/-- `util.StatusWrapf(err, "Shard %s", key)`: the error together with the key of the shard. -/
def annotate (a : Access κ ε ν) (i : Nat) (r : Except ε β) : Except (Option κ × ε) β :=
  match r with
  | .ok v => .ok v
  | .error e => .error (a.keys[i]?, e)

def getOp (a : Access κ ε ν) (d : Digest) : List Call × Except (Option κ × ε) ν :=
  let i := shardOf a.sel d
  ([Call.get i d], annotate a i (a.get i d))

def putOp (a : Access κ ε ν) (d : Digest) (v : ν) : List Call × Except (Option κ × ε) Unit :=
  let i := shardOf a.sel d
  ([Call.put i d], annotate a i (a.put i d v))

/-- `shardingBlobAccess.GetFromComposite`: the backend is chosen by the **parent** digest (the
object that is stored; the child is only carved out of it), both digests are passed on. -/
def getFromCompositeOp (a : Access κ ε ν) (parent child : Digest) : List Call × Except (Option κ × ε) ν :=
  let i := shardOf a.sel parent
  ([Call.getc i parent child], annotate a i (a.getc i parent child))

/-- The per-backend parts of a digest list, empty parts dropped (`digests.Length() > 0`). -/
def asked (route : Digest → Nat) (n : Nat) (ds : List Digest) : List (Nat × List Digest) :=
  ((List.range n).map fun i => (i, ds.filter fun d => route d == i)).filter fun p => !p.2.isEmpty

def firstError : List (Nat × Except ε (List Digest)) → Option (Nat × ε)
  | [] => none
  | (i, .error e) :: _ => some (i, e)
  | (_, .ok _) :: r => firstError r

def unionOk : List (Nat × Except ε (List Digest)) → List Digest
  | [] => []
  | (_, .ok m) :: r => m ++ unionOk r
  | (_, .error _) :: r => unionOk r

/-- `shardingBlobAccess.FindMissing`. -/
def findMissing (a : Access κ ε ν) (ds : List Digest) : List Call × Except (Option κ × ε) (List Digest) :=
  let parts := asked (shardOf a.sel) a.keys.length ds
  let answers := parts.map fun p => (p.1, a.fm p.1 p.2)
  (parts.map fun p => Call.fm p.1 p.2,
   match firstError answers with
   | some (i, e) => .error (a.keys[i]?, e)
   | none => .ok (unionOk answers))

end BB.Sharding
