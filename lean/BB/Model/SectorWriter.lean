/-!
# Model of `blockDeviceBackedBlock.Put` / `blockDeviceBackedBlockWriter` (block_device_backed_block_allocator.go)

One block of `S`-byte sectors. Objects are stored back to back without padding, so the first
and the last sector of an object may be *shared* with its neighbours. A shared sector has an
in-memory image (`sharedSector.data`); every writer touching it copies its own bytes into the image
and writes the *whole* image to the device while holding the sector's mutex. Whole sectors in the
middle of an object are written directly.

* `Alloc` is the locked part (`Put`): where the object goes, which shared sectors it uses.
* `W` is the writer; `W.write` is one `Write(p)` call, `W.flush` the final `flush()`. Each is one atomic
  step: the only state shared between writers (images, device sectors of shared sectors) is touched
  under the sector mutex, everything else a writer touches is its own.
* Bytes are naturals; a sector image / device sector is a function `index → byte`, initially 0.
-/
namespace BB.SectorWriter

structure Mem where
  S : Nat                              -- sector size in bytes
  dev : Nat → Nat → Nat := fun _ _ => 0  -- device: sector (relative to the block) → index → byte
  img : Nat → Nat → Nat := fun _ _ => 0  -- shared sector images (`sharedSector.data`) by object identity → index → byte
  wlog : List (Nat × Nat) := []        -- the `WriteAt` calls so far, most recent first: (first sector, number of sectors)

/-- Allocation state of the block (`writeOffsetSectors`, `sharedSector`). -/
structure Alloc where
  wos : Nat := 0
  shared : Option (Nat × Nat) := none  -- identity and `writeOffsetBytes` of `pb.sharedSector`
  nextId : Nat := 0                    -- identities handed out so far (`&sharedSector{}`)

/-- A writer (`blockDeviceBackedBlockWriter`). -/
structure W where
  off : Nat                            -- `offsetSectors`: sector of the next device write
  firstImg : Option Nat                -- `firstSector` (identity); cleared when the first sector is complete
  firstOff : Nat                       -- `firstSectorOffsetBytes`
  part : List Nat := []                -- `partialSector`
  lastImg : Option Nat                 -- `lastSector` (identity)

/-- `writeOffsetBytes` of the shared sector, 0 when there is none. -/
def Alloc.off (a : Alloc) : Nat := match a.shared with | some (_, o) => o | none => 0

/-- `HasSpace(size)` for a block of `sectors` sectors (the Go code computes in `int64`; `wos ≤ sectors` is an invariant,
see `C01Sector.sector_in_block`, so natural-number subtraction agrees with it). -/
def hasSpace (S sectors : Nat) (a : Alloc) (size : Nat) : Bool :=
  decide ((sectors - a.wos) * S - a.off ≥ size)

/-- `Put(size)`: the new allocation state, the writer and the byte offset of the object within the block. -/
def alloc (S : Nat) (a : Alloc) (size : Nat) : Alloc × W × Nat :=
  let firstOff := a.off
  let start := a.wos * S + firstOff
  let endOff := firstOff + size
  let sectorCount := endOff / S
  let last := endOff % S
  let a' : Alloc :=
    if last = 0 then { a with wos := a.wos + sectorCount, shared := none }
    else if a.shared.isNone ∨ sectorCount > 0 then
      { wos := a.wos + sectorCount, shared := some (a.nextId, last), nextId := a.nextId + 1 }
    else { a with wos := a.wos + sectorCount, shared := a.shared.map fun (i, _) => (i, last) }
  (a', { off := a.wos, firstImg := a.shared.map (·.1), firstOff := firstOff, lastImg := a'.shared.map (·.1) }, start)

def setRange (f : Nat → Nat) (at_ : Nat) (bytes : List Nat) : Nat → Nat :=
  fun i => if at_ ≤ i ∧ i < at_ + bytes.length then bytes.getD (i - at_) 0 else f i

def setAt (m : Nat → Nat → Nat) (s : Nat) (v : Nat → Nat) : Nat → Nat → Nat :=
  fun s' => if s' = s then v else m s'

/-- Device write of `n` whole sectors starting at sector `s` taken from `bytes`. -/
def writeSectors (S : Nat) (dev : Nat → Nat → Nat) (s n : Nat) (bytes : List Nat) : Nat → Nat → Nat :=
  fun s' i => if s ≤ s' ∧ s' < s + n ∧ i < S then bytes.getD ((s' - s) * S + i) 0 else dev s' i

/-- Step 1 of `Write(p)`: the first sector, when it is shared with the previous object (under its mutex).
Returns the rest of `p`, and whether `Write` returns right away (sector still incomplete). -/
def W.stage1 (m : Mem) (w : W) (p : List Nat) : Mem × W × List Nat × Bool :=
  match w.firstImg with
  | some id =>
    let n := min p.length (m.S - w.firstOff)
    let image := setRange (m.img id) w.firstOff (p.take n)
    let m := { m with img := setAt m.img id image }
    if w.firstOff + n < m.S then (m, { w with firstOff := w.firstOff + n }, p.drop n, true)
    else ({ m with dev := setAt m.dev w.off image, wlog := (w.off, 1) :: m.wlog },
          { w with firstImg := none, firstOff := w.firstOff + n, off := w.off + 1 }, p.drop n, false)
  | none => (m, w, p, false)

/-- Step 2: complete a partially filled private sector. -/
def W.stage2 (m : Mem) (w : W) (p : List Nat) : Mem × W × List Nat × Bool :=
  if w.part.length > 0 then
    let n := min p.length (m.S - w.part.length)
    let part := w.part ++ p.take n
    if part.length < m.S then (m, { w with part := part }, p.drop n, true)
    else ({ m with dev := setAt m.dev w.off (fun i => part.getD i 0), wlog := (w.off, 1) :: m.wlog },
          { w with part := [], off := w.off + 1 }, p.drop n, false)
  else (m, w, p, false)

/-- Steps 3 and 4: whole sectors go to the device directly, the remainder is kept. -/
def W.stage3 (m : Mem) (w : W) (p : List Nat) : Mem × W :=
  let cnt := p.length / m.S
  ({ m with dev := if cnt > 0 then writeSectors m.S m.dev w.off cnt p else m.dev,
            wlog := if cnt > 0 then (w.off, cnt) :: m.wlog else m.wlog },
   { w with off := w.off + cnt, part := w.part ++ p.drop (cnt * m.S) })

/-- `Write(p)`. -/
def W.write (m : Mem) (w : W) (p : List Nat) : Mem × W :=
  let (m, w, p, stop) := w.stage1 m p
  if stop then (m, w) else
  let (m, w, p, stop) := w.stage2 m p
  if stop then (m, w) else
  w.stage3 m p

/-- `Write(p)` during which the `j`-th `WriteAt` this call makes (counting from 0) fails: the call returns the error,
the failing `WriteAt` and everything after it does not happen, and the upload is abandoned (no further `Write`, no
`flush`): `none`. What remains is what the call did before - in particular the bytes already copied into the shared
first-sector image. When the call makes fewer `WriteAt`s it simply succeeds (`some` the writer, as `W.write`). -/
def W.writeFail (m : Mem) (w : W) (p : List Nat) (j : Nat) : Mem × Option W :=
  let r1 := w.stage1 m p
  let wrote1 := w.firstImg.isSome && !r1.2.2.2     -- step 1 completed the first sector: a `WriteAt`
  if wrote1 && j == 0 then ({ m with img := r1.1.img }, none)
  else if r1.2.2.2 then (r1.1, some r1.2.1)
  else
    let j := if wrote1 then j - 1 else j
    let r2 := r1.2.1.stage2 r1.1 r1.2.2.1
    let wrote2 := decide (r1.2.1.part.length > 0) && !r2.2.2.2   -- step 2 completed a private sector: a `WriteAt`
    if wrote2 && j == 0 then (r1.1, none)
    else if r2.2.2.2 then (r2.1, some r2.2.1)
    else
      let j := if wrote2 then j - 1 else j
      if decide (r2.2.2.1.length / m.S > 0) && j == 0 then (r2.1, none)   -- the run of whole sectors: a `WriteAt`
      else
        let r3 := r2.2.1.stage3 r2.1 r2.2.2.1
        (r3.1, some r3.2)

/-- `flush()`. -/
def W.flush (m : Mem) (w : W) : Mem :=
  match w.lastImg with
  | none => m
  | some id =>
    let image := setRange (m.img id) 0 w.part
    { m with img := setAt m.img id image, dev := setAt m.dev w.off image, wlog := (w.off, 1) :: m.wlog }

/-- Byte at byte offset `pos` of the block as found on the device. -/
def devByte (m : Mem) (pos : Nat) : Nat := m.dev (pos / m.S) (pos % m.S)

/-! ## A block with any number of concurrent writers -/

/-- A writer together with what it is going to write (`data`), where (`start`, as returned by `Put`), how many
bytes it has passed to `Write` so far and whether `flush` has run. -/
structure Wr where
  w : W
  start : Nat
  data : List Nat
  c : Nat := 0
  flushed : Bool := false
  dead : Bool := false                 -- a `WriteAt` of this writer failed: the upload was abandoned

structure Sys where
  m : Mem
  a : Alloc := {}
  ws : List Wr := []

def Sys.init (S : Nat) : Sys := { m := { S := S } }

/-- The atomic steps: `Put(len objs[n])` for the next object, one `Write` call of writer `i` with the next `n` bytes
of its data (any chunking, a writer may stop at any point), `flush()` of writer `i` once all its data was written. -/
inductive Ev where
  | alloc
  | write (i n : Nat)
  | writeFail (i n k : Nat)
  | flush (i : Nat)

def Sys.step (objs : List (List Nat)) (s : Sys) : Ev → Sys
  | .alloc =>
    let data := objs.getD s.ws.length []
    let (a', w, start) := alloc s.m.S s.a data.length
    { s with a := a', ws := s.ws ++ [{ w := w, start := start, data := data }] }
  | .write i n =>
    match s.ws[i]? with
    | some r =>
      if r.flushed ∨ r.dead then s else
      let p := (r.data.drop r.c).take n
      let (m', w') := r.w.write s.m p
      { s with m := m', ws := s.ws.set i { r with w := w', c := r.c + p.length } }
    | none => s
  | .writeFail i n k =>
    match s.ws[i]? with
    | some r =>
      if r.flushed ∨ r.dead then s else
      let p := (r.data.drop r.c).take n
      match r.w.writeFail s.m p k with
      | (m', some w') => { s with m := m', ws := s.ws.set i { r with w := w', c := r.c + p.length } }
      | (m', none) => { s with m := m', ws := s.ws.set i { r with dead := true } }
    | none => s
  | .flush i =>
    match s.ws[i]? with
    | some r =>
      if r.flushed ∨ r.dead ∨ r.c ≠ r.data.length then s else
      { s with m := r.w.flush s.m, ws := s.ws.set i { r with flushed := true } }
    | none => s

def Sys.run (objs : List (List Nat)) (S : Nat) (evs : List Ev) : Sys := evs.foldl (Sys.step objs) (Sys.init S)

/-- Every `Put` of the run was preceded by a successful `HasSpace` (as `findBlockWithSpace` guarantees). -/
def Sys.guarded (objs : List (List Nat)) (sectors : Nat) : Sys → List Ev → Bool
  | _, [] => true
  | s, e :: es =>
    (match e with
     | .alloc => hasSpace s.m.S sectors s.a (objs.getD s.ws.length []).length
     | _ => true) && Sys.guarded objs sectors (s.step objs e) es

end BB.SectorWriter
