/-!
# Model of read caching, read fallback, sequential replicators and the existence cache (property C17)

What the code does, not what it should do.

* Backends are `Key → Option Val` plus a *fault script*: every call into a
  backend (`Get`, `GetFromComposite`, `Put`, `FindMissing`) consumes one entry of
  the script; `some e` makes that call fail with `e`, `none` (or an exhausted
  script) lets it act on the data.  `calls` counts the calls, so that "this
  backend was not touched" is expressible.
* `readcaching` / `readfallback` `Get` (read_caching_blob_access.go:35-56,
  read_fallback_blob_access.go:38-72) are both `GetWithBlobReplicator` with a
  single-shot selector: ask the first backend (`fast` resp. `primary`, the
  replication *sink*); an error other than NOT_FOUND is final; on the first
  NOT_FOUND call `replicator.ReplicateSingle`, whose buffer's error is final
  (the selector's replicator is `nil` the second time).  The two selectors
  differ only in the text they prepend to errors, which is not modelled
  (errors are gRPC code + the identity of the injected fault).
* Replicators used sequentially: `noop`, `local` (ReplicateSingle: clone the
  source buffer, `sink.Put` as task - on an error buffer the task still runs,
  in the foreground, and its result is dropped (error_buffer.go:57-63);
  ReplicateMultiple / ReplicateComposite: `sink.Put(source.Get)` per digest,
  then read the sink), `dedup b` (deduplicating_blob_replicator.go: per digest
  `sink.FindMissing`, then `b.ReplicateMultiple` of that digest if missing;
  Single/Composite = Multiple then `sink.Get` with NOT_FOUND → INTERNAL) and
  `limit b` (concurrency_limiting: forward; Single = Multiple then sink read).
  The concurrent behaviour of `dedup`, `limit` and `queued` is modelled in
  `BB.Model.CachingDedup` / further down.
* `GetFromComposite` on a backend is modelled as a read of the parent (the
  harness backends hand back the parent's bytes for every child).
* Digest sets are lists in the order of `digest.Set.Items()` (ascending keys).
-/
namespace BB.Caching

abbrev Key := Nat
abbrev Val := Nat

/-- An error: gRPC code and the identity of the injected fault (0 = produced by genuine absence). -/
structure Err where
  code : Nat
  id : Nat
deriving DecidableEq, Repr

def notFound : Nat := 5
def internal : Nat := 13
/-- NOT_FOUND of a backend that does not hold the object. -/
def Err.absent : Err := ⟨notFound, 0⟩
/-- `notFoundToInternalErrorHandler`. -/
def Err.nfToInternal (e : Err) : Err := if e.code = notFound then ⟨internal, e.id⟩ else e

structure Backend where
  data : Key → Option Val
  faults : List (Option Err) := []
  calls : Nat := 0

/-- The fault (if any) the next call will hit. -/
def Backend.fault (b : Backend) : Option Err := b.faults.head?.join
/-- The backend after one call has consumed its script entry. -/
def Backend.ticked (b : Backend) : Backend := { b with faults := b.faults.tail, calls := b.calls + 1 }

def Backend.get (b : Backend) (k : Key) : Backend × Except Err Val :=
  (b.ticked, match b.fault with
    | some e => .error e
    | none => match b.data k with
      | some v => .ok v
      | none => .error Err.absent)

/-- `Put(k, buffer)`: a fault wins; otherwise the buffer is consumed and its error (if it is an
error buffer) is the result; otherwise the value is stored. -/
def Backend.put (b : Backend) (k : Key) (src : Except Err Val) : Backend × Option Err :=
  match b.fault with
  | some e => (b.ticked, some e)
  | none => match src with
    | .error e => (b.ticked, some e)
    | .ok v => ({ b.ticked with data := fun k' => if k' = k then some v else b.data k' }, none)

def Backend.findMissing (b : Backend) (ks : List Key) : Backend × Except Err (List Key) :=
  (b.ticked, match b.fault with
    | some e => .error e
    | none => .ok (ks.filter fun k => (b.data k).isNone))

/-- Source and sink of a replicator.  Read caching: `src` = slow, `sink` = fast.
Read fallback: `src` = secondary, `sink` = primary. -/
structure Pair where
  src : Backend
  sink : Backend

inductive Repl where
  | noop
  | localR
  | dedup (base : Repl)
  | limit (base : Repl)
deriving Repr

/-- `localBlobReplicator.ReplicateMultiple`: stop at the first failing `Put`. -/
def localMultiple (p : Pair) : List Key → Pair × Option Err
  | [] => (p, none)
  | k :: ks =>
    let g := p.src.get k
    let w := p.sink.put k g.2
    match w.2 with
    | some e => (⟨g.1, w.1⟩, some e)
    | none => localMultiple ⟨g.1, w.1⟩ ks

/-- The per-digest loop of `deduplicatingBlobReplicator.ReplicateMultiple` run by a single caller. -/
def dedupLoop (base : Pair → List Key → Pair × Option Err) (p : Pair) : List Key → Pair × Option Err
  | [] => (p, none)
  | k :: ks =>
    let f := p.sink.findMissing [k]
    let p1 : Pair := ⟨p.src, f.1⟩
    match f.2 with
    | .error e => (p1, some e)
    | .ok [] => dedupLoop base p1 ks
    | .ok (_ :: _) =>
      let r := base p1 [k]
      match r.2 with
      | some e => (r.1, some e)
      | none => dedupLoop base r.1 ks

def replMultiple : Repl → Pair → List Key → Pair × Option Err
  | .noop, p, _ => (p, none)
  | .localR, p, ks => localMultiple p ks
  | .dedup b, p, ks => dedupLoop (replMultiple b) p ks
  | .limit b, p, ks => replMultiple b p ks

/-- `ReplicateMultiple` of one digest followed by a read of the sink with NOT_FOUND → INTERNAL. -/
def thenReadSink (m : Pair × Option Err) (k : Key) : Pair × Except Err Val :=
  match m.2 with
  | some e => (m.1, .error e)
  | none =>
    let g := m.1.sink.get k
    (⟨m.1.src, g.1⟩, match g.2 with
      | .ok v => .ok v
      | .error e => .error e.nfToInternal)

def replSingle : Repl → Pair → Key → Pair × Except Err Val
  | .noop, p, k => let g := p.src.get k; (⟨g.1, p.sink⟩, g.2)
  | .localR, p, k =>
    let g := p.src.get k
    let w := p.sink.put k g.2
    (⟨g.1, w.1⟩, match g.2 with
      | .error e => .error e            -- task result dropped
      | .ok v => match w.2 with
        | some e => .error e            -- "Replication failed"
        | none => .ok v)
  | .dedup b, p, k => thenReadSink (replMultiple (.dedup b) p [k]) k
  | .limit b, p, k => thenReadSink (replMultiple (.limit b) p [k]) k

def replComposite : Repl → Pair → Key → Pair × Except Err Val
  | .noop, p, k => let g := p.src.get k; (⟨g.1, p.sink⟩, g.2)
  | r, p, k => thenReadSink (replMultiple r p [k]) k

/-- `GetWithBlobReplicator` with the single-shot selector of readcaching / readfallback. -/
def getThrough (single : Repl → Pair → Key → Pair × Except Err Val) (r : Repl) (p : Pair) (k : Key) :
    Pair × Except Err Val :=
  let g := p.sink.get k
  let p1 : Pair := ⟨p.src, g.1⟩
  match g.2 with
  | .ok v => (p1, .ok v)
  | .error e => if e.code = notFound then single r p1 k else (p1, .error e)

def compGet (r : Repl) (p : Pair) (k : Key) := getThrough replSingle r p k
def compGetComposite (r : Repl) (p : Pair) (k : Key) := getThrough replComposite r p k

/-- readcaching: `Put` and `FindMissing` are the embedded slow backend's. -/
def cachePut (p : Pair) (k : Key) (v : Val) : Pair × Option Err :=
  let w := p.src.put k (.ok v); (⟨w.1, p.sink⟩, w.2)
def cacheFindMissing (p : Pair) (ks : List Key) : Pair × Except Err (List Key) :=
  let f := p.src.findMissing ks; (⟨f.1, p.sink⟩, f.2)

/-- readfallback: `Put` is the embedded primary's. -/
def fallbackPut (p : Pair) (k : Key) (v : Val) : Pair × Option Err :=
  let w := p.sink.put k (.ok v); (⟨p.src, w.1⟩, w.2)

/-- read_fallback_blob_access.go:74-100. -/
def fallbackFindMissing (r : Repl) (p : Pair) (ks : List Key) : Pair × Except Err (List Key) :=
  let f1 := p.sink.findMissing ks
  match f1.2 with
  | .error e => (⟨p.src, f1.1⟩, .error e)
  | .ok missingInPrimary =>
    let f2 := p.src.findMissing missingInPrimary
    match f2.2 with
    | .error e => (⟨f2.1, f1.1⟩, .error e)
    | .ok missingInBoth =>
      let onlySecondary := missingInPrimary.filter fun k => !missingInBoth.contains k
      let m := replMultiple r ⟨f2.1, f1.1⟩ onlySecondary
      match m.2 with
      | some e => (m.1, .error e.nfToInternal)
      | none => (m.1, .ok missingInBoth)

/-! ## `digest.ExistenceCache` over `eviction.NewLRUSet` and `ExistenceCachingBlobAccess`

`ins` is `insertionTimes`, `size` is `len(insertionTimes)`, `lru` is the LRU
queue (oldest first).  `log` is ghost state (never read by the operations):
every digest handed to `Add` with the time of that `Add`, and every eviction.
Times are naturals; `!insertionTime.Before(now.Add(-duration))` is
`now ≤ insertionTime + duration`.  `evict` on an empty queue and `touch` of an
absent key cannot happen when `cap ≥ 1` (`ECache.Wf`, proved to be preserved);
the real code would corrupt the list resp. dereference nil there. -/

inductive EEvent where
  | added (k : Key) (t : Nat)
  | evicted (k : Key)
deriving DecidableEq, Repr

structure ECache where
  cap : Nat
  dur : Nat
  ins : Key → Option Nat := fun _ => none
  size : Nat := 0
  lru : List Key := []
  log : List EEvent := []

/-- The entry of `k` is fresh enough at `now`: `RemoveExisting` drops `k` from the set. -/
def ECache.hides (c : ECache) (now : Nat) (k : Key) : Bool :=
  match c.ins k with
  | some t => decide (now ≤ t + c.dur)
  | none => false

/-- `lruSet.Touch`. -/
def ECache.touch (c : ECache) (k : Key) : ECache := { c with lru := c.lru.erase k ++ [k] }

def ECache.removeExisting (c : ECache) (now : Nat) : List Key → ECache × List Key
  | [] => (c, [])
  | k :: ks =>
    if c.hides now k then (c.touch k).removeExisting now ks
    else let r := c.removeExisting now ks; (r.1, k :: r.2)

/-- `delete(insertionTimes, Peek()); Remove()`. -/
def ECache.evict (c : ECache) : ECache :=
  match c.lru with
  | [] => c
  | h :: rest =>
    { c with ins := fun k => if k = h then none else c.ins k
             size := if (c.ins h).isSome then c.size - 1 else c.size
             lru := rest
             log := c.log ++ [.evicted h] }

/-- One iteration of the loop of `Add`: make room first, then insert or refresh. -/
def ECache.addOne (now : Nat) (c : ECache) (k : Key) : ECache :=
  let c := if c.size ≥ c.cap then c.evict else c
  match c.ins k with
  | some t =>
    if t < now then { c with ins := fun k' => if k' = k then some now else c.ins k', log := c.log ++ [.added k now] }
    else { c with log := c.log ++ [.added k now] }
  | none =>
    { c with ins := fun k' => if k' = k then some now else c.ins k'
             size := c.size + 1
             lru := c.lru ++ [k]
             log := c.log ++ [.added k now] }

def ECache.add (c : ECache) (now : Nat) (ks : List Key) : ECache := ks.foldl (ECache.addOne now) c

/-- `existenceCachingBlobAccess.FindMissing`; `ask` is the backend's answer to the digests it is
asked about, `now1`/`now2` the clock readings of `RemoveExisting` and `Add`. -/
def ecFindMissingR (c : ECache) (now1 now2 : Nat) (ds : List Key) (ask : List Key → Except Err (List Key)) :
    ECache × Except Err (List Key) :=
  let r := c.removeExisting now1 ds
  match ask r.2 with
  | .error e => (r.1, .error e)
  | .ok missing => (r.1.add now2 (r.2.filter fun k => !missing.contains k), .ok missing)

/-- The same over a model backend (used by the driver). -/
def ecFindMissing (c : ECache) (b : Backend) (now1 now2 : Nat) (ds : List Key) :
    (ECache × Backend) × Except Err (List Key) :=
  let r := ecFindMissingR c now1 now2 ds (fun ks => (b.findMissing ks).2)
  ((r.1, b.ticked), r.2)

end BB.Caching
