/-!
# Model of the persistence layer of the local store

`PersistentBlockList` (pkg/blobstore/local/persistent_block_list.go) field for field, the block
device backed allocator's free list and write cursors (block_device_backed_block_allocator.go),
the key-location record array on a block device (block_device_backed_location_record_array.go),
the state directory (directory_backed_persistent_state_store.go), the steps of `PeriodicSyncer`
(periodic_syncer.go) and restart (`ReadPersistentState` + `NewPersistentBlockList`), all over a
*crashable medium*.

Conventions.
* Epoch hash seeds are tokens drawn from a counter that survives crashes (assumption A3: seeds are
  pairwise distinct, a record checksummed under one seed does not verify under another).
* Object contents are tokens: the data device holds, per sector, the list of objects whose bytes of
  that sector are present (a sector write carries the in-memory image of the sector: the bytes of
  every object of the same block that was copied so far, which is what `sharedSector.data` holds).
  A read of `(slot, offset, size)` yields the data token of the object present there, or garbage.
* Data device: durable sectors + the ordered list of sector writes since the last completed sync;
  a sync makes durable exactly the writes issued before it *began* (assumption A2; sector writes
  are atomic).  Index device: durable records + pending record writes, never synced.  State
  directory: durable `state`, renames not yet made durable by a directory fsync (assumption A4).
* Block generations (`gid`) are ghost names of "a block between `NewBlock` and its release";
  `slot` is the block's location on the device.
-/
namespace BB.Persist

structure Cfg where
  ss : Nat        -- sector size in bytes
  bs : Nat        -- block size in bytes (a multiple of `ss`)
  nslots : Nat    -- number of blocks the device is partitioned into
deriving Repr

/-- `persistentBlockInfo` plus the block object's write cursor
(`writeOffsetSectors * sectorSize + sharedSector.writeOffsetBytes`). -/
structure Blk where
  gid : Nat
  slot : Nat
  cursor : Nat := 0
  written : Nat := 0
  syncing : Nat := 0
  synced : Nat := 0
  epochCount : Nat := 0
deriving Repr, DecidableEq

/-- `pb.BlockState` (the generation is ghost). -/
structure BState where
  gid : Nat
  slot : Nat
  wo : Nat
  seeds : List Nat
deriving Repr, DecidableEq

/-- `pb.PersistentState` without the key-location map hash initialisation. -/
structure SFile where
  oldest : Nat
  blocks : List BState
deriving Repr, DecidableEq

structure PBL where
  blocks : List Blk := []
  seeds : List Nat := []            -- epochHashSeeds
  epochLast : List Nat := []        -- epochLastAbsoluteBlockIndex
  released : Nat := 0               -- totalBlocksReleased
  oldestEpoch : Nat := 1
  syncingEpochs : Nat := 0
  syncedEpochs : Nat := 0
  toRelease : List Blk := []        -- blocksToRelease
  releasing : Nat := 0              -- blocksReleasing
  closed : Bool := false            -- closedForWriting
deriving Repr

namespace PBL

/-- `BlockReferenceToBlockIndex`: relative block index and the epoch's hash seed. -/
def refToIdx (p : PBL) (epoch bfl : Nat) : Option (Nat × Nat) :=
  if epoch < p.oldestEpoch then none else
  match p.seeds[epoch - p.oldestEpoch]?, p.epochLast[epoch - p.oldestEpoch]? with
  | some sd, some last =>
    if last < p.released then none
    else if bfl > last - p.released then none
    else some (last - p.released - bfl, sd)
  | _, _ => none

/-- `BlockIndexToBlockReference`: (epoch id, blocks from last, seed) of the latest epoch.
`none` is a Go panic (no epoch, or the block is newer than the latest epoch's last block). -/
def idxToRef (p : PBL) (idx : Nat) : Option (Nat × Nat × Nat) :=
  match p.seeds.getLast?, p.epochLast.getLast? with
  | some sd, some last =>
    if last < p.released + idx then none
    else some (p.oldestEpoch + (p.seeds.length - 1), last - p.released - idx, sd)
  | _, _ => none

/-- `PopFront`. Returns the popped block. -/
def popFront (p : PBL) : Option (Blk × PBL) :=
  match p.blocks with
  | [] => none
  | b :: rest =>
    let seeds := p.seeds.drop b.epochCount
    some (b, { p with
      blocks := rest
      toRelease := p.toRelease ++ [b]
      oldestEpoch := p.oldestEpoch + b.epochCount
      seeds := seeds
      epochLast := p.epochLast.drop b.epochCount
      released := p.released + 1
      syncingEpochs := if b.epochCount ≥ p.syncingEpochs then 0 else p.syncingEpochs - b.epochCount
      syncedEpochs := if b.epochCount ≥ p.syncedEpochs then 0 else p.syncedEpochs - b.epochCount })

/-- `PushBack` once the allocator has handed out `(gid, slot)`. -/
def pushBack (p : PBL) (gid slot : Nat) : PBL :=
  { p with blocks := p.blocks ++ [{ gid := gid, slot := slot }] }

def setBlk (p : PBL) (i : Nat) (f : Blk → Blk) : PBL :=
  { p with blocks := p.blocks.modify i f }

/-- `Put`, the locked part: reserve `size` bytes in block `i`; returns the offset. -/
def reserve (p : PBL) (i size : Nat) : Option (Nat × PBL) :=
  match p.blocks[i]? with
  | none => none
  | some b => some (b.cursor, p.setBlk i fun b => { b with cursor := b.cursor + size })

inductive FinRes
  | ok (p : PBL) (epoch : Nat)   -- success; the (absolute) id of the latest epoch afterwards
  | unavailable
  | internal
deriving Repr

/-- Does the finalizer start a new epoch (and draw a seed)?  Case 1: the latest epoch is already
being synchronised.  Case 2: the latest epoch is older than the block written to. -/
def bumps (p : PBL) (abs : Nat) : Bool :=
  p.epochLast.length == p.syncingEpochs ||
    (match p.epochLast.getLast? with | some l => decide (l < abs) | none => true)

/-- The finalizer returned by `Put` (after the block's own finalizer reported success):
`abs` is the absolute block index, `fresh` the seed the crypto generator would return. -/
def finalize (p : PBL) (abs off size fresh : Nat) : FinRes :=
  if p.closed then .unavailable
  else if abs < p.released then .internal
  else
    let p1 := p.setBlk (abs - p.released) fun b => { b with written := max b.written (off + size) }
    let p2 := if p.bumps abs then
        { (p1.setBlk (p1.blocks.length - 1) fun b => { b with epochCount := b.epochCount + 1 }) with
          seeds := p1.seeds ++ [fresh]
          epochLast := p1.epochLast ++ [p1.released + p1.blocks.length - 1] }
      else p1
    .ok p2 (p2.oldestEpoch + (p2.seeds.length - 1))

def notifySyncStarting (p : PBL) (final : Bool) : PBL :=
  { p with
    closed := p.closed || final
    syncingEpochs := p.seeds.length
    blocks := p.blocks.map fun b => { b with syncing := b.written } }

def notifySyncCompleted (p : PBL) : PBL :=
  { p with
    syncedEpochs := p.syncingEpochs
    blocks := p.blocks.map fun b => { b with synced := b.syncing } }

/-- The loop of `GetPersistentState`; `none` is an index-out-of-range panic. -/
def stateBlocks : List Blk → List Nat → Nat → Option (List BState)
  | _, _, 0 => some []
  | [], _, _ + 1 => none
  | b :: bs, seeds, rem + 1 =>
    let k := min b.epochCount (rem + 1)
    match stateBlocks bs (seeds.drop b.epochCount) (rem + 1 - k) with
    | none => none
    | some r => some (⟨b.gid, b.slot, b.synced, seeds.take k⟩ :: r)

def getPersistentState (p : PBL) : Option (SFile × PBL) :=
  match stateBlocks p.blocks p.seeds p.syncedEpochs with
  | none => none
  | some bl => some (⟨p.oldestEpoch, bl⟩, { p with releasing := p.toRelease.length })

/-- `NotifyPersistentStateWritten`: the blocks whose list reference is dropped now. -/
def notifyPersistentStateWritten (p : PBL) : List Blk × PBL :=
  (p.toRelease.take p.releasing, { p with toRelease := p.toRelease.drop p.releasing, releasing := 0 })

end PBL

/-! ## The medium -/

/-- Sectors touched by the writer of an object at `[off, off+size)`: every sector that contains one
of its bytes, plus (size 0 in the middle of a sector) the shared sector its flush rewrites. -/
def secsOf (ss off size : Nat) : List Nat :=
  List.range' (off / ss) ((off + size + ss - 1) / ss - off / ss)

/-- One sector write: the objects whose bytes of that sector it carries. -/
structure SecW where
  slot : Nat
  sec : Nat
  objs : List Nat
  covered : Bool := false   -- issued before the data sync in progress began
deriving Repr, DecidableEq

structure DataDev where
  dur : List ((Nat × Nat) × List Nat) := []   -- newest first
  pend : List SecW := []                      -- oldest first
deriving Repr

namespace DataDev

def durGet (d : DataDev) (slot sec : Nat) : List Nat := (d.dur.lookup (slot, sec)).getD []

/-- What the running system reads: the newest write, else the durable content. -/
def curGet (d : DataDev) (slot sec : Nat) : List Nat :=
  match d.pend.reverse.find? (fun w => w.slot == slot && w.sec == sec) with
  | some w => w.objs
  | none => d.durGet slot sec

def applyW (dur : List ((Nat × Nat) × List Nat)) (w : SecW) : List ((Nat × Nat) × List Nat) :=
  ((w.slot, w.sec), w.objs) :: dur

def write (d : DataDev) (w : SecW) : DataDev := { d with pend := d.pend ++ [w] }

/-- `Sync()` is entered: everything written so far will be durable when it returns. -/
def syncBegin (d : DataDev) : DataDev :=
  { d with pend := d.pend.map fun w => { w with covered := true } }

/-- `Sync()` returns successfully. -/
def syncEnd (d : DataDev) : DataDev :=
  { dur := (d.pend.filter (·.covered)).foldl applyW d.dur, pend := d.pend.filter (!·.covered) }

/-- `Sync()` fails: nothing is promised. -/
def syncFail (d : DataDev) : DataDev :=
  { d with pend := d.pend.map fun w => { w with covered := false } }

def kept {α : Type} : List α → List Bool → List α
  | a :: as, true :: ks => a :: kept as ks
  | _ :: as, false :: ks => kept as ks
  | _, _ => []

/-- Crash: `keep` says for every pending write (oldest first) whether it reached the medium. -/
def crash (d : DataDev) (keep : List Bool) : DataDev :=
  { dur := (kept d.pend keep).foldl applyW d.dur, pend := [] }

end DataDev

/-- A serialised `LocationRecord` as it sits on the index device: block reference, key, attempt,
offset, size, and the seed its checksum was computed with. -/
structure PRec where
  epoch : Nat
  bfl : Nat
  key : Nat
  att : Nat
  off : Nat
  size : Nat
  seed : Nat
deriving Repr, DecidableEq

structure IdxDev where
  dur : List (Nat × PRec) := []    -- newest first
  pend : List (Nat × PRec) := []   -- oldest first
deriving Repr

namespace IdxDev

def curGet (d : IdxDev) (slot : Nat) : Option PRec :=
  match d.pend.reverse.lookup slot with
  | some r => some r
  | none => d.dur.lookup slot

def write (d : IdxDev) (slot : Nat) (r : PRec) : IdxDev := { d with pend := d.pend ++ [(slot, r)] }

def crash (d : IdxDev) (keep : List Bool) : IdxDev :=
  { dur := (DataDev.kept d.pend keep).foldl (fun m w => w :: m) d.dur, pend := [] }

end IdxDev

/-- `state.new`. -/
inductive Tmp
  | absent
  | empty
  | written (f : SFile)
  | synced (f : SFile)
deriving Repr, DecidableEq

structure StateDir where
  state : Option SFile := none      -- `state` as it is on the medium
  renamed : List SFile := []        -- renames over `state` since the last directory fsync
  tmp : Tmp := .absent
deriving Repr

namespace StateDir

def remove (d : StateDir) : StateDir := { d with tmp := .absent }

/-- `OpenAppend(CreateExcl)`; `none` = EEXIST. -/
def create (d : StateDir) : Option StateDir :=
  match d.tmp with
  | .absent => some { d with tmp := .empty }
  | _ => none

def writeTmp (d : StateDir) (f : SFile) : Option StateDir :=
  match d.tmp with
  | .empty => some { d with tmp := .written f }
  | _ => none

def fsyncTmp (d : StateDir) : Option StateDir :=
  match d.tmp with
  | .written f => some { d with tmp := .synced f }
  | _ => none

/-- `Rename(state.new, state)`. Only a file whose content was fsynced keeps it across a crash;
the code never renames anything else, other cases are not modelled (`none`). -/
def rename (d : StateDir) : Option StateDir :=
  match d.tmp with
  | .synced f => some { d with tmp := .absent, renamed := d.renamed ++ [f] }
  | _ => none

def dirSync (d : StateDir) : StateDir :=
  match d.renamed.getLast? with
  | some f => { d with state := some f, renamed := [] }
  | none => d

/-- The state files a restart may find after a crash now. -/
def candidates (d : StateDir) : List (Option SFile) := d.state :: d.renamed.map some

/-- Crash: which candidate survives, and whether a stale `state.new` is left behind. -/
def crash (d : StateDir) (pick : Nat) (leftover : Bool) : StateDir :=
  { state := (d.candidates[pick]?).getD d.state, renamed := [],
    tmp := if leftover && d.tmp != .absent then .empty else .absent }

end StateDir

/-! ## Objects, the world -/

/-- One allocation (`Block.Put`): identity, place, and what is known about its content. -/
structure Obj where
  id : Nat
  gid : Nat
  slot : Nat
  off : Nat
  size : Nat
  key : Nat
  abs : Nat                     -- absolute block index in the process that allocated it
  upload : Bool                 -- written by a client (otherwise: a refresh copy)
  data : Nat := 0               -- content token, valid once `copied`
  copied : Bool := false        -- the writer finished successfully (all sector writes issued)
  inImg : Bool := false         -- its bytes are in the running process's shared sector images
  fin : Option Nat := none      -- the latest epoch when its finalizer succeeded
deriving Repr, DecidableEq

/-- Program counter of the goroutine looping over `ProcessBlockPut`. -/
inductive G1
  | idle
  | started (final : Bool)    -- NotifySyncStarting done; data sync not running
  | syncing (final : Bool)    -- inside dataSyncer()
  | synced (final : Bool)     -- dataSyncer() returned nil
  | want (final : Bool)       -- NotifySyncCompleted done; persistent state to be written
  | finished                  -- ProcessBlockPut returned false
deriving Repr, DecidableEq

/-- A `writePersistentState` call in progress (they are serialised by `storeLock`).
Stages: 0 state taken, 1 `state.new` removed, 2 created, 3 written, 4 fsynced, 5 renamed,
6 directory fsynced. -/
structure Sw where
  owner : Nat      -- 1 = ProcessBlockPut, 2 = ProcessBlockRelease
  file : SFile
  stage : Nat
deriving Repr

structure World where
  cfg : Cfg
  pbl : PBL := {}
  free : List Nat                 -- allocator's `freeOffsets` (as slots)
  pins : List Nat := []           -- gid per open writer / reader
  zombies : List Blk := []        -- released by the list while pinned
  objs : List Obj := []
  data : DataDev := {}
  idx : IdxDev := {}
  dir : StateDir := {}
  nextSeed : Nat := 1
  nextGid : Nat := 0
  g1 : G1 := .idle
  sw : Option Sw := none
  shadow : List (Nat × Nat) := []   -- ghost: (key, data) of acknowledged uploads
deriving Repr

def World.fresh (c : Cfg) : World := { cfg := c, free := List.range c.nslots }

namespace World

def obj? (w : World) (id : Nat) : Option Obj := w.objs.find? (·.id == id)

def updObj (w : World) (id : Nat) (f : Obj → Obj) : World :=
  { w with objs := w.objs.map fun o => if o.id == id then f o else o }

/-- Is the object's every sector, in the given view of the device, carrying its bytes? -/
def presentIn (w : World) (view : Nat → Nat → List Nat) (o : Obj) : Bool :=
  (secsOf w.cfg.ss o.off o.size).all fun s => (view o.slot s).contains o.id

def presentCur (w : World) (o : Obj) : Bool := w.presentIn w.data.curGet o

/-- A read of `size` bytes at `off` of the block at `slot`: the object found there, if intact. -/
def readAt (w : World) (slot off size : Nat) : Option Obj :=
  w.objs.find? fun o => o.copied && o.slot == slot && o.off == off && o.size == size && w.presentCur o

/-- The in-memory image of a sector of block generation `gid`. -/
def imageAt (w : World) (gid sec : Nat) : List Nat :=
  (w.objs.filter fun o => o.gid == gid && o.inImg && (secsOf w.cfg.ss o.off o.size).contains sec).map (·.id)

/-- `BlockReferenceToBlockIndex` + checksum verification of a record. -/
def resolve (w : World) (r : PRec) : Option Nat :=
  match w.pbl.refToIdx r.epoch r.bfl with
  | some (i, sd) => if sd == r.seed then some i else none
  | none => none

/-- `Block.Release` by a reader or writer. -/
def unpin (w : World) (gid : Nat) : World :=
  let pins := w.pins.erase gid
  match w.zombies.find? (·.gid == gid) with
  | some z =>
    if pins.contains gid then { w with pins := pins }
    else { w with pins := pins, zombies := w.zombies.filter (·.gid != gid), free := w.free ++ [z.slot] }
  | none => { w with pins := pins }

/-- `Block.Release` by the block list. -/
def listRelease (w : World) (b : Blk) : World :=
  if w.pins.contains b.gid then { w with zombies := w.zombies ++ [b] }
  else { w with free := w.free ++ [b.slot] }

def popFront (w : World) : Option World :=
  match w.pbl.popFront with
  | some (_, p) => some { w with pbl := p }
  | none => none

/-- `PushBack`; `none` = UNAVAILABLE (closed for writing, or no unused block). -/
def pushBack (w : World) : Option World :=
  if w.pbl.closed then none else
  match w.free with
  | [] => none
  | slot :: rest =>
    some { w with pbl := w.pbl.pushBack w.nextGid slot, free := rest, nextGid := w.nextGid + 1 }

inductive Reserve
  | ok (o : Obj) (w : World)
  | closed          -- `Put` on a list that is closed for writing: a writer that only discards
  | bad             -- no such block / no space: not reachable through `findBlockWithSpace`

/-- `blockList.Put(index, size)`: the locked part. -/
def reserve (w : World) (i size key : Nat) (upload : Bool) : Reserve :=
  if w.pbl.closed then .closed else
  match w.pbl.blocks[i]? with
  | none => .bad
  | some b =>
    if b.cursor + size > w.cfg.bs then .bad else
    match w.pbl.reserve i size with
    | none => .bad
    | some (off, p) =>
      let o : Obj := { id := w.objs.length, gid := b.gid, slot := b.slot, off := off, size := size,
                       key := key, abs := w.pbl.released + i, upload := upload }
      .ok o { w with pbl := p, objs := w.objs ++ [o], pins := b.gid :: w.pins }

/-- The sector writes of one object's writer, in the order they are issued. -/
def emit (w : World) (o : Obj) : World :=
  (secsOf w.cfg.ss o.off o.size).foldl
    (fun w s => { w with data := w.data.write { slot := o.slot, sec := s, objs := w.imageAt o.gid s } }) w

/-- The unlocked part of an upload: the data is copied into the block, the block reference taken
by `Put` is dropped. -/
def copy (w : World) (id data : Nat) : Option World :=
  match w.obj? id with
  | none => none
  | some o =>
    if o.copied then none else
    let w := w.updObj id fun o => { o with data := data, copied := true, inImg := true }
    some ((w.emit { o with data := data, copied := true, inImg := true }).unpin o.gid)

/-- The writer is abandoned before it issued any write (source failed at once). -/
def abandon (w : World) (id : Nat) : Option World :=
  match w.obj? id with
  | none => none
  | some o => if o.copied then none else some (w.unpin o.gid)

inductive Fin
  | ok (w : World)
  | unavailable
  | internal
  | bad            -- unknown object, or its writer did not finish: no finalizer to call

/-- The locked part after the copy: `PersistentBlockList`'s finalizer. -/
def finalize (w : World) (id : Nat) : Fin :=
  match w.obj? id with
  | none => .bad
  | some o =>
    if !o.copied || o.fin.isSome then .bad else
    match w.pbl.finalize o.abs o.off o.size w.nextSeed with
    | .unavailable => .unavailable
    | .internal => .internal
    | .ok p e =>
      let w1 := { w with pbl := p, nextSeed := if w.pbl.bumps o.abs then w.nextSeed + 1 else w.nextSeed,
                         shadow := if o.upload then (o.key, o.data) :: w.shadow else w.shadow }
      .ok (w1.updObj id fun o => { o with fin := some e })

/-- `LocationRecordArray.Put`: serialise a record for a location in the block with absolute index
`abs` under the latest epoch and write it to the index device. `none` = a Go panic. -/
def recWrite (w : World) (slot key att abs off size : Nat) : Option World :=
  if abs < w.pbl.released then none else
  match w.pbl.idxToRef (abs - w.pbl.released) with
  | none => none
  | some (e, bfl, sd) => some { w with idx := w.idx.write slot ⟨e, bfl, key, att, off, size, sd⟩ }

/-! ### PeriodicSyncer -/

/-- `ProcessBlockPut` takes the lock after its wait: `NotifySyncStarting(false)`. -/
def g1Start (w : World) : Option World :=
  match w.g1 with
  | .idle => some { w with g1 := .started false, pbl := w.pbl.notifySyncStarting false }
  | _ => none

def syncBegin (w : World) : Option World :=
  match w.g1 with
  | .started f => some { w with g1 := .syncing f, data := w.data.syncBegin }
  | _ => none

def syncEnd (w : World) : Option World :=
  match w.g1 with
  | .syncing f => some { w with g1 := .synced f, data := w.data.syncEnd }
  | _ => none

def syncFail (w : World) : Option World :=
  match w.g1 with
  | .syncing f => some { w with g1 := .started f, data := w.data.syncFail }
  | _ => none

/-- The lock region after a data sync: `NotifySyncCompleted`, and, when shutting down after the
first sync, `NotifySyncStarting(true)` without releasing the lock in between. -/
def g1Completed (w : World) (shutdown : Bool) : Option World :=
  match w.g1 with
  | .synced false =>
    let p := w.pbl.notifySyncCompleted
    if shutdown then some { w with g1 := .started true, pbl := p.notifySyncStarting true }
    else some { w with g1 := .want false, pbl := p }
  | .synced true => some { w with g1 := .want true, pbl := w.pbl.notifySyncCompleted }
  | _ => none

/-- `writePersistentState` acquires `storeLock` and calls `GetPersistentState`. -/
def swBegin (w : World) (owner : Nat) : Option World :=
  if w.sw.isSome then none else
  if owner == 1 && !(w.g1 == .want false || w.g1 == .want true) then none else
  if owner != 1 && owner != 2 then none else
  match w.pbl.getPersistentState with
  | none => none
  | some (f, p) => some { w with pbl := p, sw := some ⟨owner, f, 0⟩ }

/-- The next directory operation of `WritePersistentState`. -/
def swStep (w : World) : Option World :=
  match w.sw with
  | none => none
  | some s =>
    let dir? : Option StateDir :=
      match s.stage with
      | 0 => some w.dir.remove
      | 1 => w.dir.create
      | 2 => w.dir.writeTmp s.file
      | 3 => w.dir.fsyncTmp
      | 4 => w.dir.rename
      | 5 => some w.dir.dirSync
      | _ => none
    match dir? with
    | none => none
    | some d => some { w with dir := d, sw := some { s with stage := s.stage + 1 } }

/-- A directory operation fails: `writePersistentState` returns the error (the caller retries). -/
def swFail (w : World) : Option World :=
  match w.sw with
  | some s => if s.stage < 6 then some { w with sw := none } else none
  | none => none

/-- `NotifyPersistentStateWritten`, `storeLock` released, and `ProcessBlockPut` returns. -/
def swDone (w : World) : Option World :=
  match w.sw with
  | some s =>
    if s.stage != 6 then none else
    let (rel, p) := w.pbl.notifyPersistentStateWritten
    let w1 := rel.foldl listRelease { w with pbl := p, sw := none }
    some (if s.owner == 1 then
      { w1 with g1 := match w.g1 with | .want true => .finished | _ => .idle } else w1)
  | none => none

/-! ### Crash and restart -/

/-- `NewBlockAtLocation`: take the slot out of the free list (swap with the last, truncate). -/
def attach (free : List Nat) (slot : Nat) : Option (List Nat) :=
  match free.findIdx? (· == slot), free.getLast? with
  | some i, some l => some (free.set i l).dropLast
  | _, _ => none

/-- The loop of `NewPersistentBlockList`: stops at the first block that cannot be re-attached. -/
def restore (ss : Nat) : List BState → List Nat → PBL → PBL × List Nat
  | [], free, p => (p, free)
  | b :: rest, free, p =>
    match attach free b.slot with
    | none => (p, free)
    | some free' =>
      restore ss rest free'
        { p with
          blocks := p.blocks ++ [{ gid := b.gid, slot := b.slot, cursor := (b.wo + ss - 1) / ss * ss,
                                   written := b.wo, syncing := b.wo, synced := b.wo,
                                   epochCount := b.seeds.length }]
          seeds := p.seeds ++ b.seeds
          epochLast := p.epochLast ++ List.replicate b.seeds.length p.blocks.length }

/-- `ReadPersistentState`: a missing file means a fresh store (oldest epoch 1, no blocks). -/
def readState (d : StateDir) : SFile := d.state.getD ⟨1, []⟩

/-- The process dies; the medium keeps what the choices say; the store is assembled again from
the medium (`ReadPersistentState`, `NewBlockDeviceBackedBlockAllocator`, `NewPersistentBlockList`).
Nothing is written during start-up, so a crash during recovery is a crash with nothing pending. -/
def crashRestart (w : World) (keepData keepIdx : List Bool) (pick : Nat) (leftover : Bool) : World :=
  let dir := w.dir.crash pick leftover
  let f := readState dir
  let (p, free) := restore w.cfg.ss f.blocks (List.range w.cfg.nslots) {}
  { w with
    pbl := { p with oldestEpoch := f.oldest, syncingEpochs := p.seeds.length, syncedEpochs := p.seeds.length }
    free := free, pins := [], zombies := []
    objs := w.objs.map fun o => { o with inImg := false }
    data := w.data.crash keepData, idx := w.idx.crash keepIdx, dir := dir
    g1 := .idle, sw := none }

end World

end BB.Persist
