/-!
# Model of the persistence layer of the local store

`PersistentBlockList` (pkg/blobstore/local/persistent_block_list.go) field for field, the block
device backed allocator's free list and write cursors (block_device_backed_block_allocator.go),
the key-location record array on a block device (block_device_backed_location_record_array.go),
the state directory (directory_backed_persistent_state_store.go), the steps of `PeriodicSyncer`
(periodic_syncer.go) and restart (`ReadPersistentState` + `NewPersistentBlockList`), all over a
*crashable medium*.

Conventions.
* Epoch hash seeds are tokens drawn from a counter that survives crashes (assumption A3: seeds are
  pairwise distinct, a record checksummed under one seed does not verify under another).
* Object contents are tokens: the data device holds, per sector, the list of objects whose bytes of
  that sector are present (a sector write carries the in-memory image of the sector: the bytes of
  every object of the same block that was copied so far, which is what `sharedSector.data` holds).
  A read of `(slot, offset, size)` yields the data token of the object present there, or garbage.
* Data device: durable sectors + the ordered list of sector writes since the last completed sync;
  a sync makes durable exactly the writes issued before it *began* (assumption A2; sector writes
  are atomic).  Index device: durable records + pending record writes, never synced.  State
  directory: durable `state`, renames not yet made durable by a directory fsync (assumption A4).
* Block generations (`gid`) are ghost names of "a block between `NewBlock` and its release";
  `slot` is the block's location on the device.
-/
namespace BB.Persist

structure Cfg where
  ss : Nat        -- sector size in bytes
  bs : Nat        -- block size in bytes (a multiple of `ss`)
  nslots : Nat    -- number of blocks the device is partitioned into
deriving Repr

/-- `persistentBlockInfo` plus the block object's write cursor
(`writeOffsetSectors * sectorSize + sharedSector.writeOffsetBytes`). -/
structure Blk where
  gid : Nat
  slot : Nat
  cursor : Nat := 0
  written : Nat := 0
  syncing : Nat := 0
  synced : Nat := 0
  epochCount : Nat := 0
  base : Nat := 0     -- ghost: the cursor the block was (re)attached with
deriving Repr, DecidableEq

/-- `pb.BlockState` (the generation is ghost). -/
structure BState where
  gid : Nat
  slot : Nat
  wo : Nat
  seeds : List Nat
deriving Repr, DecidableEq

/-- `pb.PersistentState` without the key-location map hash initialisation. -/
structure SFile where
  oldest : Nat
  blocks : List BState
deriving Repr, DecidableEq

structure PBL where
  blocks : List Blk := []
  seeds : List Nat := []            -- epochHashSeeds
  epochLast : List Nat := []        -- epochLastAbsoluteBlockIndex
  released : Nat := 0               -- totalBlocksReleased
  oldestEpoch : Nat := 1
  syncingEpochs : Nat := 0
  syncedEpochs : Nat := 0
  toRelease : List Blk := []        -- blocksToRelease
  releasing : Nat := 0              -- blocksReleasing
  closed : Bool := false            -- closedForWriting
deriving Repr

namespace PBL

/-- `BlockReferenceToBlockIndex`: relative block index and the epoch's hash seed. -/
def refToIdx (p : PBL) (epoch bfl : Nat) : Option (Nat × Nat) :=
  if epoch < p.oldestEpoch then none else
  match p.seeds[epoch - p.oldestEpoch]?, p.epochLast[epoch - p.oldestEpoch]? with
  | some sd, some last =>
    if last < p.released then none
    else if bfl > last - p.released then none
    else some (last - p.released - bfl, sd)
  | _, _ => none

/-- `BlockIndexToBlockReference`: (epoch id, blocks from last, seed) of the latest epoch.
`none` is a Go panic (no epoch, or the block is newer than the latest epoch's last block). -/
def idxToRef (p : PBL) (idx : Nat) : Option (Nat × Nat × Nat) :=
  match p.seeds.getLast?, p.epochLast.getLast? with
  | some sd, some last =>
    if last < p.released + idx then none
    else some (p.oldestEpoch + (p.seeds.length - 1), last - p.released - idx, sd)
  | _, _ => none

/-- `PopFront`. Returns the popped block. -/
def popFront (p : PBL) : Option (Blk × PBL) :=
  match p.blocks with
  | [] => none
  | b :: rest =>
    let seeds := p.seeds.drop b.epochCount
    some (b, { p with
      blocks := rest
      toRelease := p.toRelease ++ [b]
      oldestEpoch := p.oldestEpoch + b.epochCount
      seeds := seeds
      epochLast := p.epochLast.drop b.epochCount
      released := p.released + 1
      syncingEpochs := if b.epochCount ≥ p.syncingEpochs then 0 else p.syncingEpochs - b.epochCount
      syncedEpochs := if b.epochCount ≥ p.syncedEpochs then 0 else p.syncedEpochs - b.epochCount })

/-- `PushBack` once the allocator has handed out `(gid, slot)`. -/
def pushBack (p : PBL) (gid slot : Nat) : PBL :=
  { p with blocks := p.blocks ++ [{ gid := gid, slot := slot }] }

def setBlk (p : PBL) (i : Nat) (f : Blk → Blk) : PBL :=
  { p with blocks := p.blocks.modify i f }

/-- `Put`, the locked part: reserve `size` bytes in block `i`; returns the offset. -/
def reserve (p : PBL) (i size : Nat) : Option (Nat × PBL) :=
  match p.blocks[i]? with
  | none => none
  | some b => some (b.cursor, p.setBlk i fun b => { b with cursor := b.cursor + size })

inductive FinRes
  | ok (p : PBL) (epoch : Nat)   -- success; the (absolute) id of the latest epoch afterwards
  | unavailable
  | internal
deriving Repr

/-- Does the finalizer start a new epoch (and draw a seed)?  Case 1: the latest epoch is already
being synchronised.  Case 2: the latest epoch is older than the block written to. -/
def bumps (p : PBL) (abs : Nat) : Bool :=
  p.epochLast.length == p.syncingEpochs ||
    (match p.epochLast.getLast? with | some l => decide (l < abs) | none => true)

/-- The finalizer returned by `Put` (after the block's own finalizer reported success):
`abs` is the absolute block index, `fresh` the seed the crypto generator would return. -/
def finalize (p : PBL) (abs off size fresh : Nat) : FinRes :=
  if p.closed then .unavailable
  else if abs < p.released then .internal
  else
    let p1 := p.setBlk (abs - p.released) fun b => { b with written := max b.written (off + size) }
    let p2 := if p.bumps abs then
        { (p1.setBlk (p1.blocks.length - 1) fun b => { b with epochCount := b.epochCount + 1 }) with
          seeds := p1.seeds ++ [fresh]
          epochLast := p1.epochLast ++ [p1.released + p1.blocks.length - 1] }
      else p1
    .ok p2 (p2.oldestEpoch + (p2.seeds.length - 1))

def notifySyncStarting (p : PBL) (final : Bool) : PBL :=
  { p with
    closed := p.closed || final
    syncingEpochs := p.seeds.length
    blocks := p.blocks.map fun b => { b with syncing := b.written } }

def notifySyncCompleted (p : PBL) : PBL :=
  { p with
    syncedEpochs := p.syncingEpochs
    blocks := p.blocks.map fun b => { b with synced := b.syncing } }

/-- The loop of `GetPersistentState`; `none` is an index-out-of-range panic. -/
def stateBlocks : List Blk → List Nat → Nat → Option (List BState)
  | _, _, 0 => some []
  | [], _, _ + 1 => none
  | b :: bs, seeds, rem + 1 =>
    let k := min b.epochCount (rem + 1)
    match stateBlocks bs (seeds.drop b.epochCount) (rem + 1 - k) with
    | none => none
    | some r => some (⟨b.gid, b.slot, b.synced, seeds.take k⟩ :: r)

def getPersistentState (p : PBL) : Option (SFile × PBL) :=
  match stateBlocks p.blocks p.seeds p.syncedEpochs with
  | none => none
  | some bl => some (⟨p.oldestEpoch, bl⟩, { p with releasing := p.toRelease.length })

/-- `NotifyPersistentStateWritten`: the blocks whose list reference is dropped now. -/
def notifyPersistentStateWritten (p : PBL) : List Blk × PBL :=
  (p.toRelease.take p.releasing, { p with toRelease := p.toRelease.drop p.releasing, releasing := 0 })

end PBL

/-! ## The medium -/

/-- Sectors touched by the writer of an object at `[off, off+size)`: every sector that contains one
of its bytes, plus (size 0 in the middle of a sector) the shared sector its flush rewrites. -/
def secsOf (ss off size : Nat) : List Nat :=
  List.range' (off / ss) ((off + size + ss - 1) / ss - off / ss)

/-- One sector write: the objects whose bytes of that sector it carries. -/
structure SecW where
  slot : Nat
  sec : Nat
  objs : List Nat
  covered : Bool := false   -- issued before the data sync in progress began
deriving Repr, DecidableEq

structure DataDev where
  dur : List ((Nat × Nat) × List Nat) := []   -- newest first
  pend : List SecW := []                      -- oldest first
deriving Repr

namespace DataDev

def durGet (d : DataDev) (slot sec : Nat) : List Nat := (d.dur.lookup (slot, sec)).getD []

/-- What the running system reads: the newest write, else the durable content. -/
def curGet (d : DataDev) (slot sec : Nat) : List Nat :=
  match d.pend.reverse.find? (fun w => w.slot == slot && w.sec == sec) with
  | some w => w.objs
  | none => d.durGet slot sec

def applyW (dur : List ((Nat × Nat) × List Nat)) (w : SecW) : List ((Nat × Nat) × List Nat) :=
  ((w.slot, w.sec), w.objs) :: dur

def write (d : DataDev) (w : SecW) : DataDev := { d with pend := d.pend ++ [w] }

/-- `Sync()` is entered: everything written so far will be durable when it returns. -/
def syncBegin (d : DataDev) : DataDev :=
  { d with pend := d.pend.map fun w => { w with covered := true } }

/-- `Sync()` returns successfully. -/
def syncEnd (d : DataDev) : DataDev :=
  { dur := (d.pend.filter (·.covered)).foldl applyW d.dur, pend := d.pend.filter (!·.covered) }

/-- `Sync()` fails: nothing is promised. -/
def syncFail (d : DataDev) : DataDev :=
  { d with pend := d.pend.map fun w => { w with covered := false } }

def kept {α : Type} : List α → List Bool → List α
  | a :: as, true :: ks => a :: kept as ks
  | _ :: as, false :: ks => kept as ks
  | _, _ => []

/-- Crash: `keep` says for every pending write (oldest first) whether it reached the medium. -/
def crash (d : DataDev) (keep : List Bool) : DataDev :=
  { dur := (kept d.pend keep).foldl applyW d.dur, pend := [] }

end DataDev

/-- A serialised `LocationRecord` as it sits on the index device: block reference, key, attempt,
offset, size, and the seed its checksum was computed with. -/
structure PRec where
  epoch : Nat
  bfl : Nat
  key : Nat
  att : Nat
  off : Nat
  size : Nat
  seed : Nat
deriving Repr, DecidableEq

structure IdxDev where
  dur : List (Nat × PRec) := []    -- newest first
  pend : List (Nat × PRec) := []   -- oldest first
deriving Repr

namespace IdxDev

def curGet (d : IdxDev) (slot : Nat) : Option PRec :=
  match d.pend.reverse.lookup slot with
  | some r => some r
  | none => d.dur.lookup slot

def write (d : IdxDev) (slot : Nat) (r : PRec) : IdxDev := { d with pend := d.pend ++ [(slot, r)] }

def crash (d : IdxDev) (keep : List Bool) : IdxDev :=
  { dur := (DataDev.kept d.pend keep).foldl (fun m w => w :: m) d.dur, pend := [] }

end IdxDev

/-- `state.new`. -/
inductive Tmp
  | absent
  | empty
  | written (f : SFile)
  | synced (f : SFile)
deriving Repr, DecidableEq

structure StateDir where
  state : Option SFile := none      -- `state` as it is on the medium
  renamed : List SFile := []        -- renames over `state` since the last directory fsync
  tmp : Tmp := .absent
deriving Repr

namespace StateDir

def remove (d : StateDir) : StateDir := { d with tmp := .absent }

/-- `OpenAppend(CreateExcl)`; `none` = EEXIST. -/
def create (d : StateDir) : Option StateDir :=
  match d.tmp with
  | .absent => some { d with tmp := .empty }
  | _ => none

def writeTmp (d : StateDir) (f : SFile) : Option StateDir :=
  match d.tmp with
  | .empty => some { d with tmp := .written f }
  | _ => none

def fsyncTmp (d : StateDir) : Option StateDir :=
  match d.tmp with
  | .written f => some { d with tmp := .synced f }
  | _ => none

/-- `Rename(state.new, state)`. Only a file whose content was fsynced keeps it across a crash;
the code never renames anything else, other cases are not modelled (`none`). -/
def rename (d : StateDir) : Option StateDir :=
  match d.tmp with
  | .synced f => some { d with tmp := .absent, renamed := d.renamed ++ [f] }
  | _ => none

def dirSync (d : StateDir) : StateDir :=
  match d.renamed.getLast? with
  | some f => { d with state := some f, renamed := [] }
  | none => d

/-- The state files a restart may find after a crash now. -/
def candidates (d : StateDir) : List (Option SFile) := d.state :: d.renamed.map some

/-- Crash: which candidate survives, and whether a stale `state.new` is left behind. -/
def crash (d : StateDir) (pick : Nat) (leftover : Bool) : StateDir :=
  { state := (d.candidates[pick]?).getD d.state, renamed := [],
    tmp := if leftover && d.tmp != .absent then .empty else .absent }

end StateDir


end BB.Persist
