/-!
# Model of `util.VisitProtoBytesFields` (pkg/util/proto.go) over a complete byte string

The reader delivers exactly the bytes `bs` and then a clean end of file (reader failures are
the business of `BB.Completeness.Blob.readErr`).  Per iteration the Go code peeks at up to 32
bytes, parses the tag varint (`protowire.ConsumeTag`: at most ten bytes, the tenth < 2; field
number between 1 and 2^31-1), insists on wire type 2, parses the length varint, rejects a
length above `MaxInt64 - offset`, calls the visitor with (field number, offset of the payload,
length) and skips the payload; a payload shorter than announced is an error *after* the visitor
was called.  Tag and length together are at most 20 bytes, so the 32-byte peek window never
cuts a header; the model parses from the remaining input directly.

`visit bs = (fields for which the visitor was called, in order; true iff nil error)`.
Bytes are naturals below 256.
-/
namespace BB.Completeness.Wire

/-- `protowire.ConsumeVarint` with `fuel` bytes still allowed (10 initially): value and number of
bytes consumed; `none` = truncated or overflow. -/
def varintAux : Nat → Nat → Nat → Nat → List Nat → Option (Nat × Nat)
  | 0, _, _, _, _ => none
  | _ + 1, _, _, _, [] => none
  | f + 1, shift, acc, n, b :: bs =>
    if b < 128 then
      (if f = 0 ∧ 2 ≤ b then none else some (acc + b * 2 ^ shift, n + 1))
    else varintAux f (shift + 7) (acc + (b - 128) * 2 ^ shift) (n + 1) bs

def consumeVarint (bs : List Nat) : Option (Nat × Nat) := varintAux 10 0 0 0 bs

structure Field where
  num : Nat
  /-- offset of the payload -/
  offset : Nat
  size : Nat
deriving DecidableEq, Repr

def maxInt64 : Nat := 2 ^ 63 - 1
def maxInt32 : Nat := 2 ^ 31 - 1

/-- Tag and length of the field starting at `offset`: (field number, payload size, header bytes). -/
def header (offset : Nat) (bs : List Nat) : Option (Nat × Nat × Nat) :=
  match consumeVarint bs with
  | none => none
  | some (tag, nTag) =>
    let num := tag / 8
    if maxInt32 < num ∨ num < 1 then none
    else if tag % 8 ≠ 2 then none
    else
      match consumeVarint (bs.drop nTag) with
      | none => none
      | some (size, nLen) =>
        if maxInt64 - offset < size then none else some (num, size, nTag + nLen)

def visitAux : Nat → Nat → List Nat → List Field × Bool
  | 0, _, _ => ([], false)
  | _ + 1, _, [] => ([], true)
  | f + 1, off, b :: bs =>
    match header off (b :: bs) with
    | none => ([], false)
    | some (num, size, n) =>
      let body := (b :: bs).drop n
      let fld : Field := ⟨num, off + n, size⟩
      if body.length < size then ([fld], false)
      else
        let r := visitAux f (off + n + size) (body.drop size)
        (fld :: r.1, r.2)

def visit (bs : List Nat) : List Field × Bool := visitAux (bs.length + 1) 0 bs

end BB.Completeness.Wire
