/-!
# Model of the authorizing decorator and of the `any` authorizer

Sources: `pkg/auth/authorizer.go`, `pkg/auth/any_authorizer.go`,
`pkg/auth/static_authorizer.go`, `pkg/blobstore/authorizing_blob_access.go`.

* An instance name is an opaque `Nat`.
* What an authorizer returns for one instance name is a `Verdict`: `none` is the Go `nil` error
  (authorized), `some e` an error with a gRPC code and a tag standing for the rest of the error
  (message).  `status.Code(err) == codes.PermissionDenied` is `Verdict.pending`.
* An authorizer is a tree: a leaf answers every name by a function (an arbitrary one in the
  theorems; the contract of `Authorizer.Authorize` - one error per name, in order - is built in),
  `any ms` is `auth.NewAnyAuthorizer(ms)`.
* `Authz.authorize` follows the code of `anyAuthorizer.Authorize` on a *batch* of names: the first
  member sees the whole batch, every further member sees the names that are still denied, results
  are written back by position.  The index bookkeeping of the Go code (`currentErrsIndex`) is the
  positional `merge` here: a position is "current" exactly if its entry in `errs` is a denial.
* `run` is the decorator: one operation in, the backend calls made, what the caller receives and
  what happened to the upload buffer out.

Core Lean only.
-/
namespace BB.Auth

abbrev Name := Nat

/-- A non-nil error: gRPC status code and a tag identifying the error value (its message). -/
structure Err where
  code : Nat
  tag : Nat
deriving DecidableEq, Repr, Inhabited

/-- `codes.PermissionDenied`. -/
def permissionDenied : Nat := 7

def Err.isDenial (e : Err) : Bool := e.code == permissionDenied

/-- Result of authorizing one instance name: `none` = `nil` error = authorized. -/
abbrev Verdict := Option Err

/-- `status.Code(err) == codes.PermissionDenied`: the name goes on to the next member. -/
def pending : Verdict → Bool
  | some e => e.isDenial
  | none => false

/-- `errPermissionDenied` of `static_authorizer.go`. -/
def staticDenied : Err := ⟨permissionDenied, 0⟩

/-- Authorizer configurations. `leaf id beh`: any authorizer that answers per name (`id` only
labels it in the call log); `any ms`: `NewAnyAuthorizer(ms)`. -/
inductive Authz where
  | leaf (id : Nat) (beh : Name → Verdict)
  | any (members : List Authz)

/-- `NewStaticAuthorizer(matcher)`. -/
def Authz.static (id : Nat) (matcher : Name → Bool) : Authz :=
  .leaf id fun n => if matcher n then none else some staticDenied

/-- The names at the positions whose current entry is a denial
(`currentInstanceNames` of the Go code). -/
def pendingNames : List Name → List Verdict → List Name
  | n :: ns, e :: errs => if pending e then n :: pendingNames ns errs else pendingNames ns errs
  | _, _ => []

/-- Write the answers `res` of the next member (one per pending position, in order) back into
`errs`: a denial leaves the entry as it is (and pending), anything else replaces it. -/
def merge : List Verdict → List Verdict → List Verdict
  | [], _ => []
  | e :: errs, res =>
    if pending e then
      match res with
      | [] => e :: merge errs []
      | r :: res' => (if pending r then e else r) :: merge errs res'
    else e :: merge errs res

mutual
  /-- `Authorizer.Authorize(ctx, instanceNames)`: one verdict per name, in order. -/
  def Authz.authorize : Authz → List Name → List Verdict
    | .leaf _ beh, ns => ns.map beh
    | .any ms, ns => authorizeAny ms ns
  /-- `NewAnyAuthorizer(ms).Authorize`: no members - the static deny-all authorizer; otherwise the
  first member on the whole batch, then the successive members (for a single member the loop
  is empty, which is the `case 1: return authorizers[0]` of the constructor). -/
  def authorizeAny : List Authz → List Name → List Verdict
    | [], ns => ns.map fun _ => some staticDenied
    | m0 :: rest, ns => successive rest ns (m0.authorize ns)
  /-- The loop over `a.authorizers[1:]`. -/
  def successive : List Authz → List Name → List Verdict → List Verdict
    | [], _, errs => errs
    | m :: rest, ns, errs =>
      let cur := pendingNames ns errs
      if cur.isEmpty then errs
      else successive rest ns (merge errs (m.authorize cur))
end

mutual
  /-- The `Authorize` calls that reach the leaves, in order: (leaf id, names asked). -/
  def Authz.calls : Authz → List Name → List (Nat × List Name)
    | .leaf id _, ns => [(id, ns)]
    | .any ms, ns => callsAny ms ns
  def callsAny : List Authz → List Name → List (Nat × List Name)
    | [], _ => []
    | m0 :: rest, ns => m0.calls ns ++ callsRest rest ns (m0.authorize ns)
  def callsRest : List Authz → List Name → List Verdict → List (Nat × List Name)
    | [], _, _ => []
    | m :: rest, ns, errs =>
      let cur := pendingNames ns errs
      if cur.isEmpty then []
      else m.calls cur ++ callsRest rest ns (merge errs (m.authorize cur))
end

/-- `AuthorizeSingleInstanceName`: element 0 of the answer for a one-element batch
(`none` here = the Go code would index out of range; shown impossible in `BB.C18`). -/
def Authz.single (a : Authz) (n : Name) : Option Verdict := (a.authorize [n]).head?

/-! ## The decorator -/

structure Digest where
  inst : Name
  blob : Nat
deriving DecidableEq, Repr

/-- The three authorizers of `NewAuthorizingBlobAccess`. -/
structure Config where
  getA : Authz
  putA : Authz
  fmA : Authz

/-- One call into the decorator. `findMissing ds order`: `order` is the order in which the Go map
iteration happened to list the distinct instance names of `ds` (any order is possible). -/
inductive Op where
  | get (d : Digest)
  | getComposite (parent child : Digest)
  | put (d : Digest)
  | findMissing (ds : List Digest) (order : List Name)

/-- A call that reaches the wrapped backend, with exactly the arguments it receives. -/
inductive BCall where
  | get (d : Digest)
  | getComposite (parent child : Digest)
  | put (d : Digest)
  | findMissing (ds : List Digest)
deriving DecidableEq, Repr

/-- The prefix `util.StatusWrap` puts in front of the authorizer's error. -/
inductive Wrap where
  | authorization
  | instanceName (n : Name)
deriving DecidableEq, Repr

/-- What the caller receives. -/
inductive Result where
  /-- exactly what the backend returned for the one call made -/
  | forwarded
  /-- the authorizer's error (same code, message prefixed); for FindMissing with the empty set -/
  | denied (e : Err) (w : Wrap)
  /-- index out of range in `AuthorizeSingleInstanceName` (unreachable) -/
  | panic
deriving DecidableEq, Repr

structure Outcome where
  backend : List BCall
  result : Result
  /-- `Discard()` calls the decorator itself makes on the upload buffer -/
  discards : Nat := 0
  /-- times the upload buffer is handed on to the backend (which then owns it) -/
  handed : Nat := 0
  /-- leaf authorizer calls -/
  authCalls : List (Nat × List Name) := []
deriving Repr

/-- First non-nil error in `errs` with the instance name at the same index. -/
def firstError : List Name → List Verdict → Option (Name × Err)
  | n :: _, some e :: _ => some (n, e)
  | _ :: ns, none :: errs => firstError ns errs
  | _, _ => none

/-- Get / GetFromComposite / Put share the shape "authorize one name, then delegate". -/
def guardSingle (a : Authz) (n : Name) (call : BCall) (isPut : Bool) : Outcome :=
  let log := a.calls [n]
  match a.single n with
  | none => { backend := [], result := .panic, authCalls := log }
  | some none =>
    { backend := [call], result := .forwarded, handed := if isPut then 1 else 0, authCalls := log }
  | some (some e) =>
    -- Put: the repaired behaviour (`b.Discard()` before returning the error); the pinned tree
    -- returns without discarding, which is defect D8 - see `BB.C18.C18_put_buffer_released`.
    { backend := [], result := .denied e .authorization, discards := if isPut then 1 else 0,
      authCalls := log }

/-- `authorizingBlobAccess.{Get,GetFromComposite,Put,FindMissing}`. -/
def run (c : Config) : Op → Outcome
  | .get d => guardSingle c.getA d.inst (.get d) false
  | .getComposite p ch => guardSingle c.getA p.inst (.getComposite p ch) false
  | .put d => guardSingle c.putA d.inst (.put d) true
  | .findMissing ds order =>
    let log := c.fmA.calls order
    match firstError order (c.fmA.authorize order) with
    | some (n, e) => { backend := [], result := .denied e (.instanceName n), authCalls := log }
    | none => { backend := [.findMissing ds], result := .forwarded, authCalls := log }

/-- The instance names the decorator has to get authorized for an operation, and by whom.
GetFromComposite: the code authorizes the parent's instance name only (the child is a slice of
the parent object). -/
def Op.names : Op → List Name
  | .get d => [d.inst]
  | .getComposite p _ => [p.inst]
  | .put d => [d.inst]
  | .findMissing ds _ => ds.map (·.inst)

def Op.authorizer (c : Config) : Op → Authz
  | .get _ => c.getA
  | .getComposite _ _ => c.getA
  | .put _ => c.putA
  | .findMissing _ _ => c.fmA

/-- The backend call an operation is delegated as. -/
def Op.call : Op → BCall
  | .get d => .get d
  | .getComposite p ch => .getComposite p ch
  | .put d => .put d
  | .findMissing ds _ => .findMissing ds

/-- `order` lists exactly the distinct instance names of `ds` (checked by the driver on the order
observed in the real run). -/
def validOrder (ds : List Digest) (order : List Name) : Bool :=
  ds.all (fun d => order.contains d.inst) &&
  order.all (fun n => ds.any fun d => d.inst == n) &&
  decide order.Nodup

/-- Only `findMissing` carries an order. -/
def Op.wellFormed : Op → Bool
  | .findMissing ds order => validOrder ds order
  | _ => true

end BB.Auth
