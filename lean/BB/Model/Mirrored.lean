/-!
# Model of `mirroredBlobAccess` (pkg/blobstore/mirrored/mirrored_blob_access.go)
  with the replicators `local` and `noop` (pkg/blobstore/replication)

* A replica is a store `Key → Option Val`, a fault script (for every method and
  every call index of that method: `none` = the call behaves, `some code` = the
  call fails with that gRPC code) and a call counter per method.  Counting per
  method (not per replica) makes the outcome independent of how the two
  goroutines of `Put` / `FindMissing` interleave: each goroutine uses its own
  (replica, method) counters.
* Errors are a gRPC code, the chain of prefixes `util.StatusWrap` put in front
  (outermost first) and the origin (which call failed, or which replica said
  NOT_FOUND), so that "the error names the replica" is a statement about `tags`.
* Where `errgroup.Wait` reports whichever goroutine failed first, the operation
  takes a preference `pref : Side` saying whose error wins when both fail; the
  theorems quantify over it.
* Backends ignore context cancellation (both goroutines run to completion).
* `round` is `atomic.Uint32`; only its parity is used and 2^32 is even, so a
  natural number is faithful.
* Buffers are consumed completely (`ToByteSlice`): an error of the first replica
  surfaces before any byte is returned, which is the only case in which the
  replicating error handler may switch buffers.
-/
namespace BB.Mirrored

abbrev Key := Nat
abbrev Val := Nat
abbrev Code := Nat

/-- `codes.NotFound` -/
def nf : Code := 5
/-- `codes.Internal` -/
def internal : Code := 13
/-- `codes.Canceled`: what a replica returns (`util.StatusFromContext`) when its
context is cancelled while it is still working - by the caller giving up, or by
the errgroup because the other replica failed. For the composite it is a
failure of that replica's call like any other: a scripted fault with this code. -/
def canceled : Code := 1

inductive Side | A | B
deriving DecidableEq, Repr

def Side.other : Side → Side
  | .A => .B
  | .B => .A

inductive Meth | get | getc | put | fm | caps
deriving DecidableEq, Repr

/-- One `StatusWrap` prefix. -/
inductive Tag
  | backend (s : Side)   -- "Backend A" / "Backend B"
  | repl                 -- "Replication failed" (localBlobReplicator.ReplicateSingle)
  | dig (k : Key)        -- the digest (localBlobReplicator.ReplicateMultiple)
  | sync (src : Side)    -- "Failed to synchronize from backend <src> to backend <other>"
  | incons (src : Side)  -- "Backend <src> returned inconsistent results while synchronizing"
  | sinkAbsent           -- "Blob absent from sink after replication"
deriving DecidableEq, Repr

inductive Origin
  | fault (s : Side) (m : Meth) (i : Nat)   -- injected failure of call #i of method m on replica s
  | absent (s : Side) (k : Key)             -- replica s does not hold k
deriving DecidableEq, Repr

structure Err where
  code : Code
  tags : List Tag
  origin : Origin
deriving DecidableEq, Repr

/-- `util.StatusWrap(err, msg)`: same code, message prefixed. -/
def Err.wrap (e : Err) (t : Tag) : Err := { e with tags := t :: e.tags }
/-- `util.StatusWrapWithCode(err, code, msg)`. -/
def Err.wrapCode (e : Err) (c : Code) (t : Tag) : Err := { e with code := c, tags := t :: e.tags }

abbrev Res (α : Type) := Except Err α

structure Replica where
  store : Key → Option Val
  script : Meth → Nat → Option Code
  cnt : Meth → Nat

def Replica.bump (r : Replica) (m : Meth) : Replica :=
  { r with cnt := fun m' => if m' = m then r.cnt m + 1 else r.cnt m' }

/-- The fault (if any) the next call of method `m` runs into. -/
def Replica.faultAt (r : Replica) (m : Meth) : Option Code := r.script m (r.cnt m)

def Replica.write (r : Replica) (k : Key) (v : Val) : Replica :=
  { r with store := fun k' => if k' = k then some v else r.store k' }

structure Pair where
  rep : Side → Replica
  round : Nat

def Pair.setRep (p : Pair) (s : Side) (r : Replica) : Pair :=
  { p with rep := fun s' => if s' = s then r else p.rep s' }

/-! ## Calls into one replica -/

/-- `backend.Get(digest)` consumed to the end. -/
def getOn (s : Side) (p : Pair) (k : Key) : Pair × Res Val :=
  let r := p.rep s
  let p' := p.setRep s (r.bump .get)
  match r.faultAt .get with
  | some c => (p', .error ⟨c, [], .fault s .get (r.cnt .get)⟩)
  | none =>
    match r.store k with
    | some v => (p', .ok v)
    | none => (p', .error ⟨nf, [], .absent s k⟩)

/-- `backend.GetFromComposite(parent, child, slicer)`; the value is the parent's. -/
def getcOn (s : Side) (p : Pair) (k : Key) : Pair × Res Val :=
  let r := p.rep s
  let p' := p.setRep s (r.bump .getc)
  match r.faultAt .getc with
  | some c => (p', .error ⟨c, [], .fault s .getc (r.cnt .getc)⟩)
  | none =>
    match r.store k with
    | some v => (p', .ok v)
    | none => (p', .error ⟨nf, [], .absent s k⟩)

/-- `backend.Put(digest, b)` where reading `b` yields `inp` (a replicator hands
the sink the source's buffer, which may be an error buffer: the call is still
made, stores nothing and returns the read error). -/
def putOn (s : Side) (p : Pair) (k : Key) (inp : Res Val) : Pair × Res Unit :=
  let r := p.rep s
  match r.faultAt .put with
  | some c => (p.setRep s (r.bump .put), .error ⟨c, [], .fault s .put (r.cnt .put)⟩)
  | none =>
    match inp with
    | .ok v => (p.setRep s ((r.bump .put).write k v), .ok ())
    | .error e => (p.setRep s (r.bump .put), .error e)

/-- `backend.FindMissing(digests)`. -/
def fmOn (s : Side) (p : Pair) (ks : List Key) : Pair × Res (List Key) :=
  let r := p.rep s
  let p' := p.setRep s (r.bump .fm)
  match r.faultAt .fm with
  | some c => (p', .error ⟨c, [], .fault s .fm (r.cnt .fm)⟩)
  | none => (p', .ok (ks.filter fun k => (r.store k).isNone))

/-- `backend.GetCapabilities(instanceName)`. -/
def capsOn (s : Side) (p : Pair) : Pair × Res Unit :=
  let r := p.rep s
  let p' := p.setRep s (r.bump .caps)
  match r.faultAt .caps with
  | some c => (p', .error ⟨c, [], .fault s .caps (r.cnt .caps)⟩)
  | none => (p', .ok ())

/-! ## Replicators (pkg/blobstore/replication) -/

inductive Strat | local | noop
deriving DecidableEq, Repr

/-- `localBlobReplicator.ReplicateMultiple`: for every digest in order
`sink.Put(d, source.Get(d))`, stopping at the first failure, which is prefixed
with the digest. -/
def localMultiple (src snk : Side) : Pair → List Key → Pair × Res Unit
  | p, [] => (p, .ok ())
  | p, k :: ks =>
    let g := getOn src p k
    let w := putOn snk g.1 k g.2
    match w.2 with
    | .error e => (w.1, .error (e.wrap (.dig k)))
    | .ok _ => localMultiple src snk w.1 ks

def replMultiple (st : Strat) (src snk : Side) (p : Pair) (ks : List Key) : Pair × Res Unit :=
  match st with
  | .noop => (p, .ok ())
  | .local => localMultiple src snk p ks

/-- `ReplicateSingle`. `local`: `b1, b2 := source.Get(d).CloneStream();
b1.WithTask(sink.Put(d, b2))`. The sink's `Put` is called even when the source
failed (`errorBuffer.WithTask` runs the task and drops its result); when the
source delivered, a failure of the task replaces the data by
"Replication failed: ...". `noop`: `source.Get(d)`. -/
def replSingle (st : Strat) (src snk : Side) (p : Pair) (k : Key) : Pair × Res Val :=
  match st with
  | .noop => getOn src p k
  | .local =>
    let g := getOn src p k
    let w := putOn snk g.1 k g.2
    match g.2 with
    | .error e => (w.1, .error e)
    | .ok v =>
      match w.2 with
      | .ok _ => (w.1, .ok v)
      | .error e => (w.1, .error (e.wrap .repl))

/-- `notFoundToInternalErrorHandler`. -/
def nfToInternal (r : Res Val) : Res Val :=
  match r with
  | .ok v => .ok v
  | .error e => if e.code = nf then .error (e.wrapCode internal .sinkAbsent) else .error e

/-- `ReplicateComposite`. `local`: `ReplicateMultiple({parent})`, then
`sink.GetFromComposite` with NOT_FOUND turned into INTERNAL. `noop`:
`source.GetFromComposite`. -/
def replComposite (st : Strat) (src snk : Side) (p : Pair) (k : Key) : Pair × Res Val :=
  match st with
  | .noop => getcOn src p k
  | .local =>
    let m := localMultiple src snk p [k]
    match m.2 with
    | .error e => (m.1, .error e)
    | .ok _ =>
      let g := getcOn snk m.1 k
      (g.1, nfToInternal g.2)

/-! ## `digest.GetDifferenceAndIntersection` (pkg/digest/set.go): merge of two sorted lists -/

def diffInter : List Key → List Key → List Key × List Key × List Key
  | [], b => ([], [], b)
  | x :: a, [] => (x :: a, [], [])
  | x :: a, y :: b =>
    if x < y then
      let r := diffInter a (y :: b)
      (x :: r.1, r.2.1, r.2.2)
    else if x = y then
      let r := diffInter a b
      (r.1, x :: r.2.1, r.2.2)
    else
      let r := diffInter (x :: a) b
      (r.1, r.2.1, y :: r.2.2)
termination_by a b => a.length + b.length

/-! ## The mirrored composite -/

structure Cfg where
  ab : Strat   -- replicatorAToB
  ba : Strat   -- replicatorBToA

/-- The replica `getBlobReplicatorSelector` / `GetCapabilities` consult first. -/
def firstSide (p : Pair) : Side := if (p.round + 1) % 2 = 1 then .A else .B

/-- The replicator that copies from the other replica into `first`. -/
def Cfg.toward (c : Cfg) (first : Side) : Strat :=
  match first with
  | .A => c.ba
  | .B => c.ab

/-- Second invocation of the selector (`replicator == nil`): a non-NOT_FOUND
error gets the second replica's name, NOT_FOUND is returned as it is. -/
def finish2 (second : Side) (x : Pair × Res Val) : Pair × Res Val :=
  match x.2 with
  | .ok v => (x.1, .ok v)
  | .error e => if e.code = nf then (x.1, .error e) else (x.1, .error (e.wrap (.backend second)))

/-- `mirroredBlobAccess.Get` (+ `GetWithBlobReplicator`). -/
def get (c : Cfg) (p : Pair) (k : Key) : Pair × Res Val :=
  let f := firstSide p
  let g := getOn f { p with round := p.round + 1 } k
  match g.2 with
  | .ok v => (g.1, .ok v)
  | .error e =>
    if e.code = nf then finish2 f.other (replSingle (c.toward f) f.other f g.1 k)
    else (g.1, .error (e.wrap (.backend f)))

/-- `mirroredBlobAccess.GetFromComposite`. -/
def getc (c : Cfg) (p : Pair) (k : Key) : Pair × Res Val :=
  let f := firstSide p
  let g := getcOn f { p with round := p.round + 1 } k
  match g.2 with
  | .ok v => (g.1, .ok v)
  | .error e =>
    if e.code = nf then finish2 f.other (replComposite (c.toward f) f.other f g.1 k)
    else (g.1, .error (e.wrap (.backend f)))

/-- `errgroup.Wait` over the A-goroutine and the B-goroutine. -/
def join2 (pref : Side) (ra rb : Res Unit) : Res Unit :=
  match ra, rb with
  | .ok _, .ok _ => .ok ()
  | .error e, .ok _ => .error e
  | .ok _, .error e => .error e
  | .error ea, .error eb =>
    match pref with
    | .A => .error ea
    | .B => .error eb

def wrapRes {α : Type} (t : Tag) : Res α → Res Unit
  | .ok _ => .ok ()
  | .error e => .error (e.wrap t)

/-- `mirroredBlobAccess.Put`: both replicas, each failure prefixed with its name. -/
def put (p : Pair) (k : Key) (v : Val) (pref : Side) : Pair × Res Unit :=
  let wa := putOn .A p k (.ok v)
  let wb := putOn .B wa.1 k (.ok v)
  (wb.1, join2 pref (wrapRes (.backend .A) wa.2) (wrapRes (.backend .B) wb.2))

/-- The error of a replication goroutine of `FindMissing`. -/
def syncErr (src : Side) : Res Unit → Res Unit
  | .ok _ => .ok ()
  | .error e => if e.code = nf then .error (e.wrapCode internal (.incons src)) else .error (e.wrap (.sync src))

/-- `mirroredBlobAccess.FindMissing`. -/
def findMissing (c : Cfg) (p : Pair) (ks : List Key) (pref1 pref2 : Side) : Pair × Res (List Key) :=
  let fa := fmOn .A p ks
  let fb := fmOn .B fa.1 ks
  match fa.2, fb.2 with
  | .ok ma, .ok mb =>
    let d := diffInter ma mb   -- (missing from A only, missing from both, missing from B only)
    let r1 := replMultiple c.ab .A .B fb.1 d.2.2
    let r2 := replMultiple c.ba .B .A r1.1 d.1
    match join2 pref2 (syncErr .A r1.2) (syncErr .B r2.2) with
    | .ok _ => (r2.1, .ok d.2.1)
    | .error e => (r2.1, .error e)
  | ra, rb =>
    match join2 pref1 (wrapRes (.backend .A) ra) (wrapRes (.backend .B) rb) with
    | .ok _ => (fb.1, .ok [])   -- unreachable: one of the two failed
    | .error e => (fb.1, .error e)

/-- `mirroredBlobAccess.GetCapabilities`. -/
def caps (p : Pair) : Pair × Res Unit :=
  let f := firstSide p
  let g := capsOn f { p with round := p.round + 1 }
  (g.1, wrapRes (.backend f) g.2)

/-! ## Histories -/

inductive Op
  | get (k : Key)
  | getc (k : Key)
  | put (k : Key) (v : Val) (pref : Side)
  | fm (ks : List Key) (pref1 pref2 : Side)
  | caps

inductive Reply
  | val (v : Val)
  | unit
  | missing (ks : List Key)
  | err (e : Err)
deriving DecidableEq, Repr

def ofVal : Res Val → Reply
  | .ok v => .val v
  | .error e => .err e
def ofUnit : Res Unit → Reply
  | .ok _ => .unit
  | .error e => .err e
def ofList : Res (List Key) → Reply
  | .ok l => .missing l
  | .error e => .err e

def step (c : Cfg) (p : Pair) : Op → Pair × Reply
  | .get k => let r := get c p k; (r.1, ofVal r.2)
  | .getc k => let r := getc c p k; (r.1, ofVal r.2)
  | .put k v pref => let r := put p k v pref; (r.1, ofUnit r.2)
  | .fm ks a b => let r := findMissing c p ks a b; (r.1, ofList r.2)
  | .caps => let r := caps p; (r.1, ofUnit r.2)

def run (c : Cfg) : Pair → List Op → Pair × List Reply
  | p, [] => (p, [])
  | p, o :: os =>
    let r := step c p o
    let rest := run c r.1 os
    (rest.1, r.2 :: rest.2)

/-- Does the operation consume a round (consult "the first replica")? -/
def Op.rounds : Op → Bool
  | .get _ | .getc _ | .caps => true
  | _ => false

end BB.Mirrored
