import BB.Gen.GrowthPolicy
/-!
# Model of `OldCurrentNewLocationBlobMap` (pkg/blobstore/local/old_current_new_location_blob_map.go)

Bookkeeping only: how many blocks are "old"/"current"/"new", how many were
released, the quarantine counter `totalBlocksToBeReleased`, the allocation
cursor, and per block its free capacity (`blockSize - bytes handed out`, which
is what `HasSpace` of both allocators computes).

Block indices handed to the outside are *absolute* (`released + relative`).
`free` is the number of blocks the allocator can still hand out (`PushBack` fails with
UNAVAILABLE when it is 0). A popped block returns to it at once unless a reader or writer still
holds it (`pins`, the block's use count); then it becomes a zombie until the last pin is dropped.

The four loops of `findBlockWithSpace` carry explicit fuel; `Res.stuck` is what
running out of fuel means and `BB/Props/C05.lean` proves it unreachable.
`Res.panic` is an index-out-of-range in the Go code, also proved unreachable.
-/
namespace BB.BlockMap
open BB.Gen

inductive Policy
  | immutable (p : ImmutablePolicy)
  | mutable (p : MutablePolicy)
deriving Repr

def Policy.growNew : Policy → Nat → Nat → Bool
  | .immutable p, c, n => p.shouldGrowNewBlocks c n
  | .mutable p, c, n => p.shouldGrowNewBlocks c n

def Policy.growCur : Policy → Nat → Bool
  | .immutable p, c => p.shouldGrowCurrentBlocks c
  | .mutable p, c => p.shouldGrowCurrentBlocks c

structure Cfg where
  policy : Policy
  blockSize : Nat
  desiredOld : Nat
  desiredNew : Nat
deriving Repr

structure St where
  old : Nat := 0
  cur : Nat := 0
  new : Nat := 0
  released : Nat := 0
  toBeReleased : Nat := 0
  allocIdx : Int := -1
  allocRem : Nat := 0
  caps : List Nat := []      -- free capacity of every block in the list, oldest first
  free : Nat                 -- blocks the allocator can still hand out
  pushes : Nat := 0          -- successful PushBack calls so far (observable: NewBlock count)
  pins : List Nat := []      -- one entry (absolute block) per open reader / in-flight writer
  zombies : List Nat := []   -- blocks popped while pinned: their space is not reusable yet
deriving Repr

inductive Res (α : Type)
  | ok (a : α)
  | err (code : String) (s : St)
  | stuck
  | panic
deriving Repr

def St.total (s : St) : Nat := s.old + s.cur + s.new

def resetAlloc (s : St) : St := { s with allocIdx := -1, allocRem := 0 }

/-- `lbm.popFront()` + the bookkeeping of the quarantine loop. -/
def popFront (s : St) : Option St :=
  match s.caps with
  | [] => none
  | _ :: rest =>
    some { s with caps := rest, released := s.released + 1,
                  free := s.free + (if s.released ∈ s.pins then 0 else 1),
                  zombies := if s.released ∈ s.pins then s.released :: s.zombies else s.zombies }

/-- `PushBack`: a fresh, empty block at the end. -/
def pushBack (c : Cfg) (s : St) : Option St :=
  if s.free = 0 then none
  else some { s with caps := s.caps ++ [c.blockSize], free := s.free - 1, pushes := s.pushes + 1 }

def hasSpace (s : St) (idx : Nat) (size : Nat) : Option Bool :=
  match s.caps[idx]? with
  | some cap => some (decide (size ≤ cap))
  | none => none

/-- One iteration of loop 1 (`for totalBlocksReleased < totalBlocksToBeReleased`): pop the oldest
block and take it out of the bookkeeping. `none` = `PopFront` on an empty list (a Go panic). -/
def quarantineStep (s : St) : Option St :=
  match popFront s with
  | none => none
  | some s =>
    some (if s.old > 0 then { s with old := s.old - 1 }
          else if s.cur > 0 then { s with cur := s.cur - 1 }
          else resetAlloc { s with new := s.new - 1 })

/-- Loop 1. Fuel = `totalBlocksToBeReleased - totalBlocksReleased`. -/
def quarantineLoop : Nat → St → Res St
  | 0, s => .ok s
  | n+1, s =>
    match quarantineStep s with
    | none => .panic
    | some s => quarantineLoop n s

/-- Loop 2: `for ShouldGrowNewBlocks(current, new)`. -/
def growLoop (c : Cfg) : Nat → St → Res St
  | 0, _ => .stuck
  | fuel+1, s =>
    if c.policy.growNew s.cur s.new then
      match pushBack c s with
      | none => .err "unavailable" s
      | some s => growLoop c fuel { s with new := s.new + 1 }
    else .ok s

/-- Body of loop 3 when the first "new" block has no room for the blob. -/
def rotateStep (c : Cfg) (s : St) : Res St :=
  if s.new > c.desiredNew then
    .ok (resetAlloc { s with cur := s.cur + 1, new := s.new - 1 })
  else
    match pushBack c s with
    | none => .err "unavailable" s
    | some s =>
      if c.policy.growCur s.cur then
        .ok (resetAlloc { s with cur := s.cur + 1 })
      else
        let s := { s with old := s.old + 1 }
        if s.old > c.desiredOld then
          match popFront s with
          | none => .panic
          | some s =>
            -- removeOldestOldBlock; increaseTotalBlocksToBeReleased(totalBlocksReleased)
            .ok (resetAlloc { s with old := s.old - 1, toBeReleased := max s.toBeReleased s.released })
        else .ok (resetAlloc s)

/-- Loop 3: `for !HasSpace(len(old)+current, size)`. -/
def rotateLoop (c : Cfg) (size : Nat) : Nat → St → Res St
  | 0, _ => .stuck
  | fuel+1, s =>
    match hasSpace s (s.old + s.cur) size with
    | none => .panic
    | some true => .ok s
    | some false =>
      match rotateStep c s with
      | .ok s => rotateLoop c size fuel s
      | r => r

/-- `incrementAllocationBlockIndex`. `none` = division by zero (`% newBlocks` with no new blocks). -/
def incrementAlloc (c : Cfg) (s : St) : Option St :=
  if s.new = 0 then none else
  let idx : Int := (s.allocIdx + 1) % (s.new : Int)
  let rem : Nat :=
    if idx ≥ (s.new : Int) - (c.desiredNew : Int) then 2 ^ (s.new - idx.toNat - 1)
    else 2 ^ c.desiredNew
  some { s with allocIdx := idx, allocRem := rem }

/-- Loop 4: pick a "new" block. Returns the relative index. -/
def pickLoop (c : Cfg) (size : Nat) : Nat → St → Res (Nat × St)
  | 0, _ => .stuck
  | fuel+1, s =>
    let try? : Option (Nat × St) :=
      if s.allocRem > 0 then
        let index : Int := (s.old + s.cur : Nat) + s.allocIdx
        if index < 0 then none else
        match hasSpace s index.toNat size with
        | some true => some (index.toNat, { s with allocRem := s.allocRem - 1 })
        | _ => none
      else none
    match try? with
    | some r => .ok r
    | none =>
      -- an out-of-range HasSpace is a Go panic
      if s.allocRem > 0 ∧ (((s.old + s.cur : Nat) + s.allocIdx < 0) ∨
          (hasSpace s ((s.old + s.cur : Nat) + s.allocIdx).toNat size).isNone) then .panic else
      match incrementAlloc c s with
      | none => .panic
      | some s => pickLoop c size fuel s

/-- `findBlockWithSpace`. `fuelGrow` bounds loop 2 (policy dependent), the others are derived. -/
def findBlockWithSpace (c : Cfg) (fuelGrow : Nat) (size : Nat) (s : St) : Res (Nat × St) :=
  if size > c.blockSize then .err "invalid-argument" s else
  match quarantineLoop (s.toBeReleased - s.released) s with
  | .ok s =>
    match growLoop c fuelGrow s with
    | .ok s =>
      match rotateLoop c size (s.new + 2) s with
      | .ok s => pickLoop c size (s.new + 2) s
      | .err e s => .err e s
      | .stuck => .stuck
      | .panic => .panic
    | .err e s => .err e s
    | .stuck => .stuck
    | .panic => .panic
  | .err e s => .err e s
  | .stuck => .stuck
  | .panic => .panic

/-- An allocation ticket: absolute block, offset inside the block, size. -/
structure Ticket where
  blk : Nat
  off : Nat
  size : Nat
deriving Repr, DecidableEq

def setCap (caps : List Nat) (i : Nat) (v : Nat) : List Nat := caps.set i v

/-- `OldCurrentNewLocationBlobMap.Put` up to and including `blockList.Put` (space reserved). -/
def put (c : Cfg) (fuelGrow : Nat) (size : Nat) (s : St) : Res (Ticket × St) :=
  match findBlockWithSpace c fuelGrow size s with
  | .ok (idx, s) =>
    match s.caps[idx]? with
    | none => .panic
    | some cap =>
      .ok (⟨s.released + idx, c.blockSize - cap, size⟩,
           { s with caps := s.caps.set idx (cap - size), pins := (s.released + idx) :: s.pins })
  | .err e s => .err e s
  | .stuck => .stuck
  | .panic => .panic

/-- A reader is opened on a block (`Block.Get`: use count + 1). -/
def pin (s : St) (blk : Nat) : St := { s with pins := blk :: s.pins }

/-- A reader is closed / a writer finished (`Block.Release`: use count - 1; at zero the space of a
block that already left the list returns to the allocator). -/
def unpin (s : St) (blk : Nat) : St :=
  let pins := s.pins.erase blk
  if blk ∈ s.pins ∧ blk ∉ pins ∧ blk ∈ s.zombies then
    { s with pins := pins, zombies := s.zombies.erase blk, free := s.free + 1 }
  else { s with pins := pins }

/-- The finalizer's check: `absoluteBlockIndex < totalBlocksToBeReleased` ⇒ INTERNAL. -/
def finalizeOk (s : St) (t : Ticket) : Bool := decide (s.toBeReleased ≤ t.blk)

/-- `increaseTotalBlocksToBeReleased` as called by the data integrity callback of a buffer that was
opened when `released = rel0` for relative index `idx` (the closure captures the sum). -/
def reportCorruption (s : St) (absBlk : Nat) : St := { s with toBeReleased := max s.toBeReleased (absBlk + 1) }

/-- `BlockReferenceToBlockIndex` of the map: is the (absolute) block still resolvable? -/
def resolvable (s : St) (absBlk : Nat) : Bool :=
  decide (s.released ≤ absBlk) && decide (absBlk < s.released + s.caps.length) &&
  !decide (absBlk - s.released < s.toBeReleased - s.released)

/-- `Get(location)`'s second result. -/
def needsRefresh (s : St) (absBlk : Nat) : Bool := decide (absBlk - s.released < s.old)

/-- Constructor: layout from the number of restored blocks. -/
def initLoopNew (p : Policy) : Nat → Nat → Nat → Nat × Nat
  | 0, old, new => (old, new)
  | fuel+1, old, new => if old > 0 ∧ p.growNew 0 new then initLoopNew p fuel (old - 1) (new + 1) else (old, new)

def initLoopCur (p : Policy) : Nat → Nat → Nat → Nat × Nat
  | 0, old, cur => (old, cur)
  | fuel+1, old, cur => if old > 0 ∧ p.growCur cur then initLoopCur p fuel (old - 1) (cur + 1) else (old, cur)

def init (c : Cfg) (initialCaps : List Nat) (free : Nat) : St :=
  let n := initialCaps.length
  let (o1, new) := initLoopNew c.policy n n 0
  let (o2, cur) := initLoopCur c.policy o1 o1 0
  { old := o2, cur := cur, new := new, caps := initialCaps, free := free,
    toBeReleased := if o2 > c.desiredOld then o2 - c.desiredOld else 0 }

end BB.BlockMap
