import BB.Model.Index
import BB.Model.BlockMap
/-!
# Model of the local store: `flatBlobAccess` / `hierarchicalCASBlobAccess` over
`OldCurrentNewLocationBlobMap`, the block list / allocators and `hashingKeyLocationMap`

One function per *lock region* of the Go code (a maximal stretch executed under the store's
`sync.RWMutex`) and one per unlocked action (copying bytes into reserved space, reading bytes).
Operations of the blob-access layer are compositions of these; the driver exposes the multi-region
operations as `begin`/`end` pairs so that the harness can interleave other operations between the
regions exactly where the Go code drops the lock.

* Keys are opaque naturals. Blocks are absolute (`released + relative index`); the medium is indexed
  by absolute block, i.e. a released block's bytes are never seen again under a new number (that the
  device region of a block is not handed out again while a reader/writer holds it is C04).
* The index's liveness threshold is the block map's quarantine counter:
  `BlockReferenceToBlockIndex` fails exactly below it.
-/
namespace BB.Store
open BB.Gen BB.Index BB.BlockMap

abbrev Loc := BB.Gen.Location

structure Cfg where
  idx : Index.Cfg
  bm : BlockMap.Cfg
  fuelGrow : Nat

structure St where
  tab : Index.Tab := Index.Tab.empty
  bm : BlockMap.St
  /-- bytes on the medium: absolute block → offset → byte -/
  medium : Nat → Nat → Nat := fun _ _ => 0

/-- Threshold below which index records are invalid (`ErrLocationRecordInvalid`). -/
def St.thr (s : St) : Int := (s.bm.toBeReleased : Nat)

def lookup (c : Cfg) (s : St) (k : Nat) : Option Loc := Index.get c.idx s.thr s.tab k

def locBlk (l : Loc) : Nat := l.blockIndex.toNat
def locOff (l : Loc) : Nat := l.offsetBytes.toNat
def locSize (l : Loc) : Nat := l.sizeBytes.toNat

def mkLoc (blk off size : Nat) : Loc := ⟨(blk : Nat), (off : Nat), (size : Nat)⟩

/-- Bytes of a location as currently on the medium. -/
def readLoc (s : St) (l : Loc) : List Nat :=
  (List.range (locSize l)).map fun i => s.medium (locBlk l) (locOff l + i)

/-- Unlocked copy phase: `bytes` land at offset `at` inside the ticket's reserved range. -/
def writeAt (s : St) (t : Ticket) (at_ : Nat) (bytes : List Nat) : St :=
  { s with medium := fun b o =>
      if b = t.blk ∧ t.off + at_ ≤ o ∧ o < t.off + at_ + bytes.length ∧ o < t.off + t.size
      then bytes.getD (o - (t.off + at_)) 0 else s.medium b o }

/-- `needsRefresh` of `LocationBlobMap.Get`. -/
def locNeedsRefresh (s : St) (l : Loc) : Bool := needsRefresh s.bm (locBlk l)

inductive AllocRes
  | ok (t : Ticket) (s : St)
  | err (code : String) (s : St)
  | broken            -- stuck / panic of the block map model (proved unreachable)

/-- Locked: `locationBlobMap.Put(size)`. -/
def allocate (c : Cfg) (s : St) (size : Nat) : AllocRes :=
  match BlockMap.put c.bm c.fuelGrow size s.bm with
  | .ok (t, bm) => .ok t { s with bm := bm }
  | .err e bm => .err e { s with bm := bm }
  | _ => .broken

/-- A table in a box: folding over a *function-typed* accumulator makes the compiled code re-run the
fold at every table access (the definition is eta-expanded), which is exponential over a history;
a structure-typed accumulator is evaluated once. -/
structure TabBox where
  t : Index.Tab

/-- `keyLocationMap.Put(key, l)` for each key in turn. -/
def putKeys (c : Index.Cfg) (thr : Int) : TabBox → List Nat → Loc → TabBox
  | b, [], _ => b
  | b, k :: ks, l => putKeys c thr ⟨(Index.put c thr b.t k l).1⟩ ks l

/-- Locked: `putFinalizer()` followed by `keyLocationMap.Put(key, location)` for each key.
Returns `none` when the finalizer reports that the block was released meanwhile (INTERNAL). -/
def finalize (c : Cfg) (s : St) (t : Ticket) (keys : List Nat) : Option St :=
  if finalizeOk s.bm t then
    let l := mkLoc t.blk t.off t.size
    some { s with tab := (putKeys c.idx s.thr ⟨s.tab⟩ keys l).t }
  else none

/-- A reader on the block of `l` is opened / closed (the block's use count). -/
def pinLoc (s : St) (l : Loc) : St := { s with bm := pin s.bm (locBlk l) }
def unpinLoc (s : St) (l : Loc) : St := { s with bm := unpin s.bm (locBlk l) }
/-- The writer of a ticket finished (`Block.Release` at the end of the put writer). -/
def unpinTicket (s : St) (t : Ticket) : St := { s with bm := unpin s.bm t.blk }

/-- Reserve space for a copy of `src` while a reader on `src` is open (`getter(digest)` is called
before `locationBlobMap.Put`); on failure the reader is discarded again. -/
def allocateForRefresh (c : Cfg) (s : St) (src : Loc) : AllocRes :=
  match allocate c (pinLoc s src) (locSize src) with
  | .ok t s => .ok t s
  | .err e s => .err e (unpinLoc s src)
  | .broken => .broken

/-- End of a refresh copy: writer and source reader are done. -/
def refreshDone (s : St) (t : Ticket) (src : Loc) : St := unpinLoc (unpinTicket s t) src

/-- Locked: register a location under a key (`keyLocationMap.Put`). -/
def indexPut (c : Cfg) (s : St) (k : Nat) (l : Loc) : St :=
  { s with tab := (Index.put c.idx s.thr s.tab k l).1 }

/-- The data-integrity callback fired for a read of location `l`. -/
def reportBad (s : St) (l : Loc) : St := { s with bm := reportCorruption s.bm (locBlk l) }

/-! ## flatBlobAccess -/

/-- Outcome of the first part of an operation that may have to refresh. -/
inductive Begin
  | done (reply : String) (s : St)          -- finished in its fast path
  | refresh (t : Ticket) (src : Loc) (s : St)  -- space reserved; copy `src` into `t`, then `end`
  | broken

def showBytes (bs : List Nat) : String := " ".intercalate (bs.map toString)

/-- `flatBlobAccess.Get` up to the point where the lock is dropped for copying. -/
def flatGetBegin (c : Cfg) (s : St) (k : Nat) : Begin :=
  match lookup c s k with
  | none => .done "not-found" s
  | some l =>
    if !locNeedsRefresh s l then .done s!"data {showBytes (readLoc s l)}" s
    else
      match allocateForRefresh c s l with
      | .ok t s => .refresh t l s
      | .err e s => .done s!"err {e}" s
      | .broken => .broken

/-- The copy of a refresh (unlocked), whole object at once. -/
def copyLoc (s : St) (t : Ticket) (src : Loc) : St := writeAt s t 0 (readLoc s src)

/-- `finalizePut` of a refresh. -/
def flatRefreshEnd (c : Cfg) (s : St) (t : Ticket) (src : Loc) (k : Nat) : St × Bool :=
  let s := refreshDone s t src
  match finalize c s t [k] with
  | some s' => (s', true)
  | none => (s, false)

/-- `flatBlobAccess.Put`: region 1. -/
def flatPutBegin (c : Cfg) (s : St) (size : Nat) : AllocRes := allocate c s size

/-- `flatBlobAccess.Put`: region 2, `copied` says whether the buffer was ingested without error
(sizes and checksum fine, source did not fail). -/
def flatPutEnd (c : Cfg) (s : St) (t : Ticket) (k : Nat) (copied : Bool) : String × St :=
  let s := unpinTicket s t
  if !copied then ("err copy", s) else
  match finalize c s t [k] with
  | some s => ("ok", s)
  | none => ("err internal", s)

/-- One element of `FindMissing`'s second scan. -/
def flatFindMissingBegin (c : Cfg) (s : St) (k : Nat) : Begin :=
  match lookup c s k with
  | none => .done "missing" s
  | some l =>
    if !locNeedsRefresh s l then .done "present" s
    else
      match allocateForRefresh c s l with
      | .ok t s => .refresh t l s
      | .err e s => .done s!"err {e}" s
      | .broken => .broken

/-! ### GetFromComposite (flat) -/

inductive CompBegin
  | done (reply : String) (s : St)
  | slice (parent : Loc) (t : Option Ticket) (s : St)  -- slicer runs now; `t` = refresh in progress
  | broken

def flatCompositeBegin (c : Cfg) (s : St) (parentKey childKey : Nat) : CompBegin :=
  match lookup c s parentKey with
  | none => .done "not-found" s
  | some pl =>
    if locNeedsRefresh s pl then
      match allocateForRefresh c s pl with
      | .ok t s => .slice pl (some t) s
      | .err e s => .done s!"err {e}" s
      | .broken => .broken
    else
      match lookup c s childKey with
      | some cl => .done s!"data {showBytes (readLoc s cl)}" s
      | none => .slice pl none (pinLoc s pl)   -- the parent reader stays open while the slicer runs

/-- Region after slicing: finalize the refresh if any, then register every slice relative to the
parent's location. `slices` = (key, offset, size). Without a refresh the parent is looked up again
under the lock (the pinned tree reused a stale relative block index here; repaired in /repo b5781c3). -/
def flatCompositeEnd (c : Cfg) (s : St) (parentKey : Nat) (src : Loc) (t : Option Ticket)
    (slices : List (Nat × Nat × Nat)) : String × St :=
  -- the slicer consumed the parent: its reader (and the refresh writer) are done
  let s := match t with
    | some t => refreshDone s t src
    | none => unpinLoc s src
  let parent? : Option (Loc × St) :=
    match t with
    | some t =>
      match finalize c s t [parentKey] with
      | some s => some (mkLoc t.blk t.off t.size, s)
      | none => none
    | none =>
      match lookup c s parentKey with
      | some l => some (l, s)
      | none => none
  match parent? with
  | none => (match t with | some _ => "err internal" | none => "ok", s)  -- parent gone: child returned, nothing registered
  | some (pl, s) =>
    ("ok", slices.foldl (fun s (k, off, size) => indexPut c s k (mkLoc (locBlk pl) (locOff pl + off) size)) s)

/-! ## hierarchicalCASBlobAccess -/

/-- `getLeastSpecificLookupEntry`. -/
def leastSpecific (c : Cfg) (s : St) : List Nat → Option (Nat × Loc)
  | [] => none
  | k :: rest =>
    match lookup c s k with
    | some l => some (k, l)
    | none => leastSpecific c s rest

/-- `syncFromCanonicalEntry`: `some s'` when the canonical entry exists and is fresh. -/
def syncFromCanonical (c : Cfg) (s : St) (canonicalKey lookupKey : Nat) : Option (Loc × St) :=
  match lookup c s canonicalKey with
  | none => none
  | some cl => if locNeedsRefresh s cl then none else some (cl, indexPut c s lookupKey cl)

def hierGetBegin (c : Cfg) (s : St) (lookupKeys : List Nat) (canonicalKey : Nat) : Begin :=
  match leastSpecific c s lookupKeys with
  | none => .done "not-found" s
  | some (lk, l) =>
    if !locNeedsRefresh s l then .done s!"data {showBytes (readLoc s l)}" s
    else
      match syncFromCanonical c s canonicalKey lk with
      | some (cl, s) => .done s!"data {showBytes (readLoc s cl)}" s
      | none =>
        match allocateForRefresh c s l with
        | .ok t s => .refresh t l s
        | .err e s => .done s!"err {e}" s
        | .broken => .broken

/-- Which lookup key a hierarchical refresh writes back to (the one that was found). -/
def hierFoundKey (c : Cfg) (s : St) (lookupKeys : List Nat) : Option Nat :=
  (leastSpecific c s lookupKeys).map (·.1)

def hierRefreshEnd (c : Cfg) (s : St) (t : Ticket) (src : Loc) (canonicalKey lookupKey : Nat) : St × Bool :=
  let s := refreshDone s t src
  match finalize c s t [canonicalKey, lookupKey] with
  | some s' => (s', true)
  | none => (s, false)

inductive HierPut
  | dedup (s : St)                     -- canonical entry exists and is fresh: only validate the upload
  | alloc (r : AllocRes)

def hierPutBegin (c : Cfg) (s : St) (canonicalKey : Nat) (size : Nat) : HierPut :=
  match lookup c s canonicalKey with
  | some cl => if !locNeedsRefresh s cl then .dedup s else .alloc (allocate c s size)
  | none => .alloc (allocate c s size)

/-- Second region of the dedup branch. -/
def hierPutDedupEnd (c : Cfg) (s : St) (canonicalKey lookupKey : Nat) (copied : Bool) : String × St :=
  if !copied then ("err copy", s) else
  match lookup c s canonicalKey with
  | none => ("err internal", s)
  | some cl => ("ok", indexPut c s lookupKey cl)

def hierPutEnd (c : Cfg) (s : St) (t : Ticket) (canonicalKey lookupKey : Nat) (copied : Bool) : String × St :=
  let s := unpinTicket s t
  if !copied then ("err copy", s) else
  match finalize c s t [canonicalKey, lookupKey] with
  | some s => ("ok", s)
  | none => ("err internal", s)

def hierFindMissingBegin (c : Cfg) (s : St) (lookupKeys : List Nat) (canonicalKey : Nat) : Begin :=
  match leastSpecific c s lookupKeys with
  | none => .done "missing" s
  | some (lk, l) =>
    if !locNeedsRefresh s l then .done "present" s
    else
      match syncFromCanonical c s canonicalKey lk with
      | some (_, s) => .done "present" s
      | none =>
        match allocateForRefresh c s l with
        | .ok t s => .refresh t l s
        | .err e s => .done s!"err {e}" s
        | .broken => .broken

end BB.Store
