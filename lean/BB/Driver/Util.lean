/-
Shared plumbing of the line-protocol drivers (core Lean only).
One request line in, exactly one reply line out, flushed, so that the Go
harness can drive a model interactively.
-/
namespace BB.Driver

/-- Split a protocol line into blank-separated words. -/
def words (line : String) : List String :=
  let isSep (c : Char) : Bool := c == ' ' || c == '\n' || c == '\r' || c == '\t'
  let rec go (cs : List Char) (cur : List Char) (acc : List String) : List String :=
    match cs with
    | [] => (if cur.isEmpty then acc else String.ofList cur.reverse :: acc).reverse
    | c :: rest =>
      if isSep c then go rest [] (if cur.isEmpty then acc else String.ofList cur.reverse :: acc)
      else go rest (c :: cur) acc
  go line.toList [] []

/-- Parse a decimal natural; `none` on anything else (never a default). -/
def nat? (s : String) : Option Nat := s.toNat?

def int? (s : String) : Option Int := s.toInt?

def allNats? (ws : List String) : Option (List Nat) := ws.mapM nat?

def hexDigit? (c : Char) : Option Nat :=
  if '0' ≤ c ∧ c ≤ '9' then some (c.toNat - '0'.toNat)
  else if 'a' ≤ c ∧ c ≤ 'f' then some (c.toNat - 'a'.toNat + 10)
  else none

/-- Decode a lowercase hex string into bytes (as naturals < 256). "-" is the empty string. -/
def hexBytes? (s : String) : Option (List Nat) :=
  if s == "-" then some [] else
  let rec go : List Char → Option (List Nat)
    | [] => some []
    | [_] => none
    | a :: b :: rest => do
      let x ← hexDigit? a
      let y ← hexDigit? b
      let r ← go rest
      pure ((x * 16 + y) :: r)
  go s.toList

def hexOfNat (n : Nat) : String :=
  let d (k : Nat) : Char := if k < 10 then Char.ofNat (k + 48) else Char.ofNat (k - 10 + 97)
  String.ofList [d (n / 16 % 16), d (n % 16)]

def bytesHex (bs : List Nat) : String :=
  if bs.isEmpty then "-" else String.join (bs.map hexOfNat)

/-- Run a step function over stdin: one reply line per request line. -/
partial def loop {σ : Type} (step : σ → String → σ × String) (s : σ) : IO Unit := do
  let stdin ← IO.getStdin
  let stdout ← IO.getStdout
  let rec go (s : σ) : IO Unit := do
    let line ← stdin.getLine
    if line.isEmpty then return ()
    let (s', out) := step s line
    stdout.putStrLn out
    stdout.flush
    go s'
  go s

end BB.Driver
