import BB.Driver.BlockMapCommon
def main : IO Unit := BB.Driver.loop BB.Driver.BlockMapCommon.step {}
