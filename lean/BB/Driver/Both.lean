import BB.Driver.BlockMapCommon
import BB.Driver.StoreCommon
/-!
Driver that serves both the block-map protocol (C05/C08 at the level of
OldCurrentNewLocationBlobMap) and the store protocol (the same properties at the level of
flatBlobAccess): an `init` line with 6 arguments selects the former, one with 8 the latter.
-/
namespace BB.Driver.Both
open BB.Driver

structure S where
  storeMode : Bool := false
  bm : BlockMapCommon.S := {}
  st : StoreCommon.S := {}

def step (s : S) (line : String) : S × String :=
  let ws := words line
  let mode := match ws with
    | "init" :: rest => rest.length == 8
    | _ => s.storeMode
  if mode then
    let (st, r) := StoreCommon.step s.st line
    ({ s with storeMode := true, st := st }, r)
  else
    let (bm, r) := BlockMapCommon.step s.bm line
    ({ s with storeMode := false, bm := bm }, r)

end BB.Driver.Both
