import BB.Driver.Util
import BB.Model.Completeness
import BB.Model.CompletenessWire
/-!
Line-protocol driver of the C13 completeness-checking model.

    reset <batchSize> <maxMsg> <budget>      new case
    ac err <code>                            the Action Cache fails
    ac ok <size> <stdout D> <stderr D>       the Action Cache returns an ActionResult of <size> bytes
    file <D>                                 append an output file
    acswap <size> <D>                        reads of the Action Cache after the first return the message with one more
                                             output file <D> (an entry overwritten while the check is in flight)
    dir <tree D> <root D>                    append an output directory
    blob <h.s> <readErr|->                   start the blob the CAS serves for Get(<h.s>)
    ev dir <size> <nfiles> <D>...            append a Directory field to the last blob (files, then directories)
    ev skip | ev malformed                   append another field / a rejected field
    missing <h.s>...                         digests FindMissing reports missing
    fault <callIndex> <code>                 CAS call number <callIndex> of the Get fails with <code>
    run                                      -> result | error <code>, ac:<reads of the Action Cache>, then the CAS calls:
                                                fm[<sorted h.s,...>] get[h.s]
    runc <sliceErr|->                        the same through GetFromComposite with a slicer that yields the child (-) or fails
    visit <hex>                              -> the wire-level visitor model on raw bytes:
                                                ok|error, then <num>:<offset>:<size> per field the visitor saw

  D ::= -  (nil) | bad | bad:<k> (malformed, <k> names the kind for the harness) | <hash id>.<size>
-/
open BB.Driver BB.Completeness

structure S where
  cfg : Cfg := ⟨1, 0, 0⟩
  ac : Option (Code ⊕ (Nat × OD × OD)) := none
  files : List OD := []
  dirs : List OutDir := []
  blobs : List (Dg × Blob) := []
  missing : List Dg := []
  faults : List (Nat × Code) := []
  swap : Option (Nat × OD) := none

def splitDot (s : String) : List String :=
  let rec go (cs : List Char) (cur : List Char) (acc : List String) : List String :=
    match cs with
    | [] => (String.ofList cur.reverse :: acc).reverse
    | c :: rest => if c == '.' then go rest [] (String.ofList cur.reverse :: acc) else go rest (c :: cur) acc
  go s.toList [] []

def dg? (s : String) : Option Dg :=
  match splitDot s with
  | [h, z] => do
    let h ← nat? h
    let z ← nat? z
    pure ⟨h, z⟩
  | _ => none

/-- `none` = unparsable; `some none` = nil field. -/
def od? (s : String) : Option OD :=
  if s == "-" then some none
  else if s == "bad" then some (some .bad)
  else if s.toList.take 4 == "bad:".toList then
    (nat? (String.ofList (s.toList.drop 4))).map fun _ => some .bad
  else (dg? s).map fun d => some (.good d)

def showDg (d : Dg) : String := s!"{d.hash}.{d.size}"

def dgLe (a b : Dg) : Bool := a.hash < b.hash || (a.hash == b.hash && a.size ≤ b.size)

def insertSorted (d : Dg) : List Dg → List Dg
  | [] => [d]
  | x :: xs => if dgLe d x then d :: x :: xs else x :: insertSorted d xs

def sortDgs (l : List Dg) : List Dg := l.foldr insertSorted []

def showCall : Call → String
  | .fm b _ => "fm[" ++ ",".intercalate ((sortDgs b).map showDg) ++ "]"
  | .get t _ => "get[" ++ showDg t ++ "]"

def runCase (s : S) (composite : Option (Option Code) := none) : String :=
  match s.ac with
  | none => "bad-op"
  | some ac =>
    let first : AcReply := match ac with
      | .inl c => .err c
      | .inr (size, so, se) => .ok { size := size, files := s.files, dirs := s.dirs, stdout := so, stderr := se }
    let later : AcReply := match ac, s.swap with
      | .inr (_, so, se), some (size, d) =>
        .ok { size := size, files := s.files ++ [d], dirs := s.dirs, stdout := so, stderr := se }
      | _, _ => first
    let cas := scriptCas s.missing s.blobs s.faults
    let r := serve s.cfg (fun i => if i = 0 then first else later) cas composite
    let o := match r.outcome with
      | .result => "result"
      | .error c => s!"error {c}"
    " ".intercalate (o :: s!"ac:{r.acReads}" :: r.calls.map showCall)

def addEv (s : S) (e : Ev) : S × String :=
  match s.blobs.reverse with
  | [] => (s, "bad-op")
  | (t, b) :: rest => ({ s with blobs := (((t, { b with evs := b.evs ++ [e] }) :: rest).reverse) }, "ok")

def showVisit (r : List BB.Completeness.Wire.Field × Bool) : String :=
  " ".intercalate ((if r.2 then "ok" else "error") :: r.1.map fun f => s!"{f.num}:{f.offset}:{f.size}")

def step (s : S) (line : String) : S × String :=
  match words line with
  | ["reset", b, m, g] =>
    match nat? b, nat? m, nat? g with
    | some b, some m, some g => ({ cfg := ⟨b, m, g⟩ }, "ok")
    | _, _, _ => (s, "bad-op")
  | ["ac", "err", c] =>
    match nat? c with
    | some c => ({ s with ac := some (.inl c) }, "ok")
    | none => (s, "bad-op")
  | ["ac", "ok", z, so, se] =>
    match nat? z, od? so, od? se with
    | some z, some so, some se => ({ s with ac := some (.inr (z, so, se)) }, "ok")
    | _, _, _ => (s, "bad-op")
  | ["file", d] =>
    match od? d with
    | some d => ({ s with files := s.files ++ [d] }, "ok")
    | none => (s, "bad-op")
  | ["acswap", z, d] =>
    match nat? z, od? d with
    | some z, some d => ({ s with swap := some (z, d) }, "ok")
    | _, _ => (s, "bad-op")
  | ["dir", t, r] =>
    match od? t, od? r with
    | some t, some r => ({ s with dirs := s.dirs ++ [⟨t, r⟩] }, "ok")
    | _, _ => (s, "bad-op")
  | ["blob", t, e] =>
    match dg? t, (if e == "-" then some none else (nat? e).map some) with
    | some t, some e => ({ s with blobs := s.blobs ++ [(t, ⟨[], e⟩)] }, "ok")
    | _, _ => (s, "bad-op")
  | "ev" :: "dir" :: z :: n :: ds =>
    match nat? z, nat? n, ds.mapM od? with
    | some z, some n, some ds =>
      if ds.length < n then (s, "bad-op") else addEv s (.dir ⟨z, ds.take n, ds.drop n⟩)
    | _, _, _ => (s, "bad-op")
  | ["ev", "skip"] => addEv s .skip
  | ["ev", "malformed"] => addEv s .malformed
  | "missing" :: ds =>
    match ds.mapM dg? with
    | some ds => ({ s with missing := s.missing ++ ds }, "ok")
    | none => (s, "bad-op")
  | ["fault", i, c] =>
    match nat? i, nat? c with
    | some i, some c => ({ s with faults := s.faults ++ [(i, c)] }, "ok")
    | _, _ => (s, "bad-op")
  | ["run"] => (s, runCase s)
  | ["runc", e] =>
    match (if e == "-" then some none else (nat? e).map some) with
    | some e => (s, runCase s (some e))
    | none => (s, "bad-op")
  | ["visit", h] =>
    match hexBytes? h with
    | some bs => (s, showVisit (BB.Completeness.Wire.visit bs))
    | none => (s, "bad-op")
  | _ => (s, "bad-op")

def main : IO Unit := loop step {}
