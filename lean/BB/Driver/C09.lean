import BB.Driver.Util
import BB.Model.Validate
/-!
Line-protocol driver of the C09 validator model.

    hash <hexcontent> <token>     declare H(content) = token (replaces the previous declaration)
    run <size> <token> <code> <strict> ; <ctor> ; <method>
        ctor   := slice <hex> | reader <j|s> <term> <hex>* | chunks <term> <hex>*
        term   := eof | e<k>          (e0 = io.ErrUnexpectedEOF, e<k> = status code k)
        method := iw | ra <off> <len> | bs <max> | cr <off> <max> <reads> | rd <size>* | cc <max> <method> | cs <method>
                  | wt <method>      (Buffer.WithTask with a succeeding task, then the method)
      -> res=<open|ok|eof|err:<code>:<tag>> n=<n> pieces=<hex,hex,..|none> verdicts=<t|f>*

The model never computes a hash: `H` is the declared pair, every other input maps to token 0
(declared tokens are shifted by one).  A `run` whose validator could need an undeclared hash is `bad-op`.
-/
open BB.Driver BB.Validate

structure S where
  decl : Option (List Nat × Nat) := none

def natOfBytes (bs : List Nat) : Nat := bs.foldl (fun a b => a * 256 + b) 1

def token? (s : String) : Option Nat := (hexBytes? s).map natOfBytes

def splitOn (ws : List String) (sep : String) : List (List String) :=
  let rec go : List String → List String → List (List String) → List (List String)
    | [], cur, acc => (cur.reverse :: acc).reverse
    | w :: rest, cur, acc => if w == sep then go rest [] (cur.reverse :: acc) else go rest (w :: cur) acc
  go ws [] []

def term? (s : String) : Option Term :=
  if s == "eof" then some .eof
  else match s.toList with
    | 'e' :: ds => (nat? (String.ofList ds)).map Term.err
    | _ => none

def ctor? : List String → Option Ctor
  | ["slice", h] => (hexBytes? h).map Ctor.slice
  | "reader" :: j :: t :: items => do
    let joined ← if j == "j" then some true else if j == "s" then some false else none
    let term ← term? t
    let items ← items.mapM hexBytes?
    pure (.reader { items := items, term := term, joined := joined })
  | "chunks" :: t :: items => do
    let term ← term? t
    let items ← items.mapM hexBytes?
    pure (.chunks { chunks := items, term := term })
  | _ => none

def method? : List String → Option Method
  | ["iw"] => some .intoWriter
  | ["ra", o, l] => do pure (.readAt (← int? o) (← nat? l))
  | ["bs", m] => do pure (.toByteSlice (← nat? m))
  | ["cr", o, m, k] => do pure (.toChunkReader (← int? o) (← nat? m) (← nat? k))
  | "rd" :: sizes => (allNats? sizes).map Method.toReader
  | "cc" :: m :: rest => do pure (.cloneCopy (← nat? m) (← method? rest))
  | "cs" :: rest => do pure (.cloneStream (← method? rest))
  | "wt" :: rest => do pure (.withTask (← method? rest))
  | _ => none

def errTag : Err → String
  | .src 0 => "ueof"
  | .src _ => "src"
  | .tooBig => "toobig"
  | .sizeMismatch => "size"
  | .hashMismatch => "hash"
  | .truncated => "other"
  | .negOff => "negoff"
  | .offBeyond => "offbeyond"
  | .tooLarge => "toolarge"
  | .stuck => "stuck"

def showRes (c : Cfg) : Option Res → String
  | none => "open"
  | some .ok => "ok"
  | some .eof => "eof"
  | some (.err e) => s!"err:{e.code c}:{errTag e}"

def showObs (c : Cfg) (o : Obs) : String :=
  let ps := if o.pieces.isEmpty then "none" else ",".intercalate (o.pieces.map bytesHex)
  let vs := String.ofList (o.verdicts.map fun b => if b then 't' else 'f')
  s!"res={showRes c o.res} n={o.n} pieces={ps} verdicts={vs}"

def step (s : S) (line : String) : S × String :=
  match words line with
  | ["hash", content, tok] =>
    match hexBytes? content, token? tok with
    | some bs, some t => ({ decl := some (bs, t) }, "ok")
    | _, _ => (s, "bad-op")
  | "run" :: size :: tok :: code :: strict :: ";" :: rest =>
    match nat? size, token? tok, nat? code, nat? strict, splitOn rest ";" with
    | some size, some h, some code, some strict, [cw, mw] =>
      match ctor? cw, method? mw with
      | some ct, some m =>
        let content := ct.content
        let declared : Bool := content.length < size ||
          (match s.decl with | some (bs, _) => bs == content.take size | none => false)
        if !declared || strict > 1 then (s, "bad-op") else
        let H : List Nat → Nat := fun bs =>
          match s.decl with
          | some (k, t) => if bs == k then t else 0
          | none => 0
        let c : Cfg := { H := H, size := size, h := h, code := code, strict := strict == 1, fuel := 1000000 }
        (s, showObs c (run c ct m))
      | _, _ => (s, "bad-op")
    | _, _, _, _, _ => (s, "bad-op")
  | _ => (s, "bad-op")

def main : IO Unit := loop step {}
