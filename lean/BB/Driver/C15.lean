import BB.Driver.Util
import BB.Model.Mux
/-!
Line-protocol driver of the C15 models (stateless: every line is a whole case).

    mux <n> <term> <chunk>... ; <act>...      n consumers, term = eof | e<k>, chunks in hex ("-" = empty)
                                              act = rb<i> | re<i> | c<i>   (readBegin / readEnd / close)
       -> ok closes=.. pos=.. pending=.. panic=.. | <i>:<i|w|r|x>:<res>,<res>.. ...   or   stuck@<k>
    neg <act>...                              act = cl<i> | co<i>.<0|1>.<maxChunk>
       -> ok remaining=.. made=<none | v.chunk.consumers,..> panic=..                   or   stuck@<k>
    prog <repaired> <ratRepaired> <content hex> ; <expr, postfix> ; <method>
       expr:   b.err<k> b.bytes b.rat b.rd.<q> b.ch.<q>  (q = g | c | e<k>)
               cs.<l|r>.<d|r>  cc.<l|r>  wt.<0|k>  eh  rp.<l|r>.<d|r>.<0|k>
       method: size | iw | ra <off> <len> | proto <max> | bs <max> | cr <off> <all|close|one> | rdr <all|close> | discard | iwf <k>
               (iwf: res is the result if the writer survives; the writer's error is the alternative)
       -> res=<ok:hex | unsound:hex | err:k | size:n | panic> eof=.. cerr=.. wterm=.. waited=.. closes=<n|-> order=<c<t>,w<t>..|->   or   buildpanic   or   blocked (a handle of a stream clone is abandoned: sib = a)
-/
open BB.Driver BB.Mux

def showRes : Res → String
  | .chunk d => "c" ++ bytesHex d
  | .eof => "eof"
  | .err k => s!"e{k}"

def parseTerm (w : String) : Option Res :=
  if w == "eof" then some .eof
  else match w.toList with
    | 'e' :: rest => (String.ofList rest).toNat?.map Res.err
    | _ => none

def parseAct (w : String) : Option Act :=
  match w.toList with
  | 'r' :: 'b' :: rest => (String.ofList rest).toNat?.map Act.readBegin
  | 'r' :: 'e' :: rest => (String.ofList rest).toNat?.map Act.readEnd
  | 'c' :: rest => (String.ofList rest).toNat?.map Act.close
  | _ => none

def showCon (i : Nat) (c : Con) : String :=
  let st := match c.st with
    | .idle => "i" | .waiting => "w" | .ready _ => "r" | .closed => "x"
  let got := if c.got.isEmpty then "-" else ",".intercalate (c.got.map showRes)
  s!"{i}:{st}:{got}"

def runMux (src : Nat → Res) : St → List Act → Nat → St ⊕ Nat
  | s, [], _ => .inl s
  | s, a :: as, k => match step src s a with
    | some s' => runMux src s' as (k + 1)
    | none => .inr k

def splitOn (ws : List String) (sep : String) : List (List String) :=
  let rec go : List String → List String → List (List String) → List (List String)
    | [], cur, acc => (cur.reverse :: acc).reverse
    | w :: rest, cur, acc => if w == sep then go rest [] (cur.reverse :: acc) else go rest (w :: cur) acc
  go ws [] []

def zipIdx {α : Type} (l : List α) : List (Nat × α) := (List.range l.length).zip l

def doMux (args : List String) : String :=
  match splitOn args ";" with
  | [n :: term :: chunks, acts] =>
    match nat? n, parseTerm term, chunks.mapM hexBytes?, acts.mapM parseAct with
    | some n, some term, some chunks, some acts =>
      if n = 0 then "bad-op" else
      match runMux (scriptSrc chunks term) (St.init (n - 1)) acts 0 with
      | .inr k => s!"stuck@{k}"
      | .inl s =>
        let cons := " ".intercalate ((zipIdx s.cons).map fun p => showCon p.1 p.2)
        s!"ok closes={s.closes} pos={s.pos} pending={s.pending} panic={if s.panicked then 1 else 0} | {cons}"
    | _, _, _, _ => "bad-op"
  | _ => "bad-op"

def parseNAct (w : String) : Option NAct :=
  match w.toList with
  | 'c' :: 'l' :: rest => (String.ofList rest).toNat?.map NAct.clone
  | 'c' :: 'o' :: rest =>
    match (String.ofList rest).splitOn "." with
    | [i, nv, mc] =>
      match i.toNat?, nv.toNat?, mc.toNat? with
      | some i, some nv, some mc => if nv ≤ 1 then some (.consume i (nv == 1) mc) else none
      | _, _, _ => none
    | _ => none
  | _ => none

def runNeg : Neg → List NAct → Nat → Neg ⊕ Nat
  | s, [], _ => .inl s
  | s, a :: as, k => match s.step a with
    | some s' => runNeg s' as (k + 1)
    | none => .inr k

def doNeg (args : List String) : String :=
  match args.mapM parseNAct with
  | some acts =>
    match runNeg {} acts 0 with
    | .inr k => s!"stuck@{k}"
    | .inl s =>
      let made := if s.made.isEmpty then "none" else
        ",".intercalate (s.made.map fun m => s!"{if m.validated then 1 else 0}.{m.chunk}.{m.consumers}")
      s!"ok remaining={s.remaining} made={made} panic={if s.panicked then 1 else 0}"
  | none => "bad-op"

def parseQ (w : String) : Option Quality :=
  if w == "g" then some .good else if w == "c" then some .corrupt else
  match w.toList with
  | 'e' :: rest => (String.ofList rest).toNat?.map Quality.ioerr
  | _ => none

def parseSide (w : String) : Option Bool :=
  if w == "l" then some true else if w == "r" then some false else none

/-- one postfix token applied to the stack of expressions -/
def pushTok (stack : List BufExpr) (w : String) : Option (List BufExpr) :=
  match w.splitOn "." with
  | ["b", k] =>
    if k == "bytes" then some (.base .bytes :: stack)
    else if k == "rat" then some (.base .readerAt :: stack)
    else match k.toList with
      | 'e' :: 'r' :: 'r' :: rest => (String.ofList rest).toNat?.map fun n => .base (.err n) :: stack
      | _ => none
  | ["b", "rd", q] => (parseQ q).map fun q => .base (.reader q) :: stack
  | ["b", "ch", q] => (parseQ q).map fun q => .base (.chunks q) :: stack
  | ["cs", side, sib] =>
    match stack, parseSide side with
    | e :: rest, some sd =>
      if sib == "d" then some (.cloneStream e sd .discard :: rest)
      else if sib == "r" then some (.cloneStream e sd .read :: rest)
      else if sib == "a" then some (.cloneStream e sd .abandon :: rest) else none
    | _, _ => none
  | ["cc", side] =>
    match stack, parseSide side with
    | e :: rest, some sd => some (.cloneCopy e sd :: rest)
    | _, _ => none
  | ["wt", r] =>
    match stack, r.toNat? with
    | e :: rest, some r => some (.withTask e (if r = 0 then none else some r) :: rest)
    | _, _ => none
  | ["rp", side, sib, r] =>
    match stack, parseSide side, r.toNat? with
    | e :: rest, some sd, some r =>
      let res := if r = 0 then none else some r
      if sib == "d" then some (.replicate e sd .discard res :: rest)
      else if sib == "r" then some (.replicate e sd .read res :: rest)
      else if sib == "a" then some (.replicate e sd .abandon res :: rest) else none
    | _, _, _ => none
  | ["eh"] =>
    match stack with
    | e :: rest => some (.withErrorHandler e :: rest)
    | _ => none
  | _ => none

def parseExpr (ws : List String) : Option BufExpr :=
  match ws.foldlM pushTok [] with
  | some [e] => some e
  | _ => none

def parseAll (w : String) : Option Bool :=
  -- `one`: a single Read, then Close: observed like `close` (the chunk is not part of the observation)
  if w == "all" then some true else if w == "close" || w == "one" then some false else none

def parseMethod : List String → Option Method
  | ["size"] => some .getSizeBytes
  | ["iw"] => some .intoWriter
  | ["ra", off, len] => match nat? off, nat? len with
    | some off, some len => some (.readAt off len)
    | _, _ => none
  | ["proto", max] => (nat? max).map Method.toProto
  | ["bs", max] => (nat? max).map Method.toByteSlice
  | ["cr", off, a] => match nat? off, parseAll a with
    | some off, some a => some (.toChunkReader off a)
    | _, _ => none
  | ["rdr", a] => (parseAll a).map Method.toReader
  | ["discard"] => some .discard
  | ["iwf", k] => (nat? k).map Method.intoWriterFailing
  | _ => none

def showIds (l : List Nat) : String :=
  let l := l.eraseDups
  if l.isEmpty then "-" else ",".intercalate (l.map toString)

def showOut (m : Method) (o : MOut) : String :=
  let res := match o.res, m with
    | .panic, _ => "panic"
    | .err k, _ => s!"err:{k}"
    | .ok [n] _, .getSizeBytes => s!"size:{n}"
    | .ok d true, _ => "ok:" ++ bytesHex d
    | .ok d false, _ => "unsound:" ++ bytesHex d
  let cerr := match o.closeErr with | some k => toString k | none => "-"
  s!"res={res} eof={if o.eof then 1 else 0} cerr={cerr} wterm={showIds o.wTerm} waited={showIds o.waited}"

def doProg (args : List String) : String :=
  match splitOn args ";" with
  | [[rep, rat, d], expr, meth] =>
    match nat? rep, nat? rat, hexBytes? d, parseExpr expr, parseMethod meth with
    | some rep, some rat, some d, some e, some m =>
      if rep > 1 || rat > 1 then "bad-op" else
      let env : Env := { d := d, repaired := rep == 1, ratRepaired := rat == 1 }
      let cl := match closes env e with | some n => toString n | none => "-"
      let order := match build env e 0 with
        | some (b, _) =>
          let evs := (events b).map fun (ev : Ev) => match ev with | Ev.closed t => s!"c{t}" | Ev.wait t => s!"w{t}"
          if evs.isEmpty || m == Method.getSizeBytes then "-" else ",".intercalate evs
        | none => "-"
      if blocks env e then "blocked" else
      match exec env e m with
      | some o => showOut m o ++ s!" closes={cl} order={order}"
      | none => "buildpanic"
    | _, _, _, _, _ => "bad-op"
  | _ => "bad-op"

def step15 (s : Unit) (line : String) : Unit × String :=
  match words line with
  | "mux" :: args => (s, doMux args)
  | "neg" :: args => (s, doNeg args)
  | "prog" :: args => (s, doProg args)
  | _ => (s, "bad-op")

def main : IO Unit := loop step15 ()
