import BB.Driver.Util
import BB.Model.Routing
/-!
Line-protocol driver of the C19 routing model.

Names are written `a/b/c`, the empty name `-`; digests `<name>:<hash>`; digest lists are
comma-separated (`_` = empty) and printed sorted without duplicates.

    t.reset | t.set <name> <v> | t.remove <name> -> panic | empty=<bool>
    t.exact <name> -> <int>      t.longest <name> -> <trie walk> <list spec>
    t.hasprefix <name> -> <bool>
    p.patch <old> <new> <name> -> <components> <string level>      p.unpatch likewise
    d.cfg <match>=<add> ...      d.store <b> <digest> <payload>    d.fault <b> fm|get|put|getc <code>
    d.get <digest> | d.getc <parent> <child> | d.put <digest> <payload> -> call=... res=...
    d.fm <order> <digests> -> calls=<b>:<digests>;... res=ok:<digests> | res=err:<code>:<msg>
    h.reset | h.store <digest> <payload> | h.fault get <digest> <code> | h.fault fm <k> <code>
    h.get <digest> | h.getc <parent> <child> -> calls=... res=...
    h.fm <digests> -> calls=<digests>;<digests>;... res=...
-/
open BB.Driver BB.Routing

/-! parsing / printing -/

def splitOn (sep : Char) (cs : List Char) : List (List Char) :=
  let rec go (cs : List Char) (cur : List Char) (acc : List (List Char)) : List (List Char) :=
    match cs with
    | [] => (cur.reverse :: acc).reverse
    | c :: rest => if c == sep then go rest [] (cur.reverse :: acc) else go rest (c :: cur) acc
  go cs [] []

def name? (s : String) : Option Name :=
  if s == "-" then some [] else
  let parts := splitOn '/' s.toList
  if parts.any (·.isEmpty) then none else some parts

def nameStr (n : Name) : String := if n.isEmpty then "-" else showName n

def dg? (s : String) : Option Dg :=
  match splitOn ':' s.toList with
  | [n, h] =>
    match name? (String.ofList n), (String.ofList h).toNat? with
    | some n, some h => some ⟨n, h⟩
    | _, _ => none
  | _ => none

def dgs? (s : String) : Option (List Dg) :=
  if s == "_" then some [] else (splitOn ',' s.toList).mapM (fun w => dg? (String.ofList w))

def nats? (s : String) : Option (List Nat) :=
  if s == "_" then some [] else (splitOn ',' s.toList).mapM (fun w => (String.ofList w).toNat?)

def dgStr (d : Dg) : String := s!"{nameStr d.name}:{d.hash}"

def dgLe (a b : Dg) : Bool :=
  let x := nameStr a.name
  let y := nameStr b.name
  x < y || (x == y && a.hash ≤ b.hash)

def canon (l : List Dg) : List Dg := (l.mergeSort dgLe).eraseDups

def dgsStr (l : List Dg) : String :=
  if l.isEmpty then "_" else ",".intercalate (l.map dgStr)

def setStr (l : List Dg) : String := dgsStr (canon l)

def errStr (e : Err) : String :=
  s!"err:{e.code}:{e.msg.map (fun c => if c == ' ' then '_' else c)}"

def getResStr : GetRes → String
  | .ok p => s!"ok:{p}"
  | .err e => errStr e

def fmResStr : Except Err (List Dg) → String
  | .ok l => s!"ok:{setStr l}"
  | .error e => errStr e

def optInt (o : Option Nat) : String := match o with | some v => toString v | none => "-1"

/-! state -/

structure Backend where
  contents : List (Dg × Nat) := []
  fmFault : Nat := 0
  getFault : Nat := 0
  putFault : Nat := 0
  getcFault : Nat := 0

structure S where
  trie : Node := Node.empty
  spec : Spec := []
  cfg : Cfg := []
  backends : List Backend := []
  hstore : List (Dg × Nat) := []
  hGetFaults : List (Dg × Nat) := []
  hFmFault : Option (Nat × Nat) := none

def lookupDg (l : List (Dg × Nat)) (d : Dg) : Option Nat :=
  match l.find? (fun e => e.1 == d) with
  | some e => some e.2
  | none => none

def notFoundErr : Err := { code := codeNotFound, msg := "not found" }

def S.backend (s : S) (b : Nat) : Backend := s.backends.getD b {}

def S.get (s : S) (b : Nat) (d : Dg) : GetRes :=
  let be := s.backend b
  if be.getFault ≠ 0 then .err { code := be.getFault, msg := s!"injected get b{b}" }
  else match lookupDg be.contents d with
    | some p => .ok p
    | none => .err notFoundErr

def S.getc (s : S) (b : Nat) (_p c : Dg) : GetRes :=
  let be := s.backend b
  if be.getcFault ≠ 0 then .err { code := be.getcFault, msg := s!"injected getc b{b}" }
  else match lookupDg be.contents c with
    | some p => .ok p
    | none => .err notFoundErr

def S.put (s : S) (b : Nat) (_d : Dg) : Option Err :=
  let be := s.backend b
  if be.putFault ≠ 0 then some { code := be.putFault, msg := s!"injected put b{b}" } else none

def S.fm (s : S) (b : Nat) : FM := fun asked =>
  let be := s.backend b
  if be.fmFault ≠ 0 then .error { code := be.fmFault, msg := s!"injected fm b{b}" }
  else .ok (asked.filter fun d => (lookupDg be.contents d).isNone)

def S.hget (s : S) (d : Dg) : GetRes :=
  match lookupDg s.hGetFaults d with
  | some c => .err { code := c, msg := s!"injected get {dgStr d}" }
  | none => match lookupDg s.hstore d with
    | some p => .ok p
    | none => .err notFoundErr

def S.hgetc (s : S) (p c : Dg) : GetRes :=
  match lookupDg s.hGetFaults p with
  | some code => .err { code := code, msg := s!"injected get {dgStr p}" }
  | none => match lookupDg s.hstore c with
    | some v => .ok v
    | none => .err notFoundErr

def S.hfm (s : S) (k : Nat) : FM := fun asked =>
  match s.hFmFault with
  | some (k', c) =>
    if k = k' then .error { code := c, msg := s!"injected fm call {k}" }
    else .ok (asked.filter fun d => (lookupDg s.hstore d).isNone)
  | none => .ok (asked.filter fun d => (lookupDg s.hstore d).isNone)

def setBackend (s : S) (b : Nat) (f : Backend → Backend) : S :=
  { s with backends := (List.range s.backends.length).map fun i =>
      if i = b then f (s.backend i) else s.backend i }

def storeDg (l : List (Dg × Nat)) (d : Dg) (p : Nat) : List (Dg × Nat) :=
  (d, p) :: l.filter (fun e => e.1 != d)

def cfgEntry? (w : String) : Option (Name × Name) :=
  match splitOn '=' w.toList with
  | [m, a] =>
    match name? (String.ofList m), name? (String.ofList a) with
    | some m, some a => some (m, a)
    | _, _ => none
  | _ => none

def boolStr (b : Bool) : String := if b then "true" else "false"

def step (s : S) (line : String) : S × String :=
  match words line with
  | ["t.reset"] => ({ s with trie := Node.empty, spec := [] }, "ok")
  | ["t.set", n, v] =>
    match name? n, nat? v with
    | some n, some v =>
      ({ s with trie := applyOp s.trie (.set n v), spec := specApply s.spec (.set n v) }, "ok")
    | _, _ => (s, "bad-op")
  | ["t.remove", n] =>
    match name? n with
    | some n =>
      let s' := { s with trie := applyOp s.trie (.remove n), spec := specApply s.spec (.remove n) }
      match remove s.trie n with
      | some (_, e) => (s', s!"empty={boolStr e}")
      | none => (s', "panic")
    | none => (s, "bad-op")
  | ["t.exact", n] =>
    match name? n with
    | some n => (s, optInt (exact s.trie n))
    | none => (s, "bad-op")
  | ["t.longest", n] =>
    match name? n with
    | some n => (s, s!"{optInt (longest s.trie n)} {optInt (specLongest s.spec n)}")
    | none => (s, "bad-op")
  | ["t.hasprefix", n] =>
    match name? n with
    | some n => (s, boolStr (containsPrefix s.trie n))
    | none => (s, "bad-op")
  | ["p.patch", o, n, i] =>
    match name? o, name? n, name? i with
    | some o, some n, some i =>
      (s, s!"{nameStr (patchName o n i)} {nameStr' (patchStr (joinS o) (joinS n) (joinS i))}")
    | _, _, _ => (s, "bad-op")
  | ["p.unpatch", o, n, i] =>
    match name? o, name? n, name? i with
    | some o, some n, some i =>
      (s, s!"{nameStr (patchName n o i)} {nameStr' (patchStr (joinS n) (joinS o) (joinS i))}")
    | _, _, _ => (s, "bad-op")
  | "d.cfg" :: ws =>
    match ws.mapM cfgEntry? with
    | some cfg =>
      if (cfg.map (·.1)).eraseDups.length ≠ cfg.length then (s, "bad-op") else
      ({ s with cfg := cfg, backends := cfg.map fun _ => {} }, "ok")
    | none => (s, "bad-op")
  | ["d.store", b, d, p] =>
    match nat? b, dg? d, nat? p with
    | some b, some d, some p =>
      if b ≥ s.backends.length then (s, "bad-op") else
      (setBackend s b fun be => { be with contents := storeDg be.contents d p }, "ok")
    | _, _, _ => (s, "bad-op")
  | ["d.fault", b, op, c] =>
    match nat? b, nat? c with
    | some b, some c =>
      if b ≥ s.backends.length then (s, "bad-op") else
      match op with
      | "fm" => (setBackend s b fun be => { be with fmFault := c }, "ok")
      | "get" => (setBackend s b fun be => { be with getFault := c }, "ok")
      | "put" => (setBackend s b fun be => { be with putFault := c }, "ok")
      | "getc" => (setBackend s b fun be => { be with getcFault := c }, "ok")
      | _ => (s, "bad-op")
    | _, _ => (s, "bad-op")
  | ["d.get", d] =>
    match dg? d with
    | some d =>
      let (call, res) := demuxGet (cfgGetter s.cfg) s.get d
      let c := match call with | some (b, d') => s!"{b}:{dgStr d'}" | none => "none"
      (s, s!"call={c} res={getResStr res}")
    | none => (s, "bad-op")
  | ["d.getc", p, c] =>
    match dg? p, dg? c with
    | some p, some c =>
      let (call, res) := demuxGetFromComposite (cfgGetter s.cfg) s.getc p c
      let cs := match call with | some (b, p', c') => s!"{b}:{dgStr p'}|{dgStr c'}" | none => "none"
      (s, s!"call={cs} res={getResStr res}")
    | _, _ => (s, "bad-op")
  | ["d.put", d, p] =>
    match dg? d, nat? p with
    | some d, some p =>
      let (call, res) := demuxPut (cfgGetter s.cfg) s.put d
      match call, res with
      | some (b, d'), none =>
        (setBackend s b fun be => { be with contents := storeDg be.contents d' p }, s!"call={b}:{dgStr d'} res=ok")
      | some (b, d'), some e => (s, s!"call={b}:{dgStr d'} res={errStr e}")
      | none, some e => (s, s!"call=none res={errStr e}")
      | none, none => (s, "call=none res=ok")
    | _, _ => (s, "bad-op")
  | ["d.fm", o, ds] =>
    match nats? o, dgs? ds with
    | some o, some ds =>
      let (calls, res) := demuxFindMissing (cfgGetter s.cfg) s.fm o ds
      let cs := if calls.isEmpty then "none" else ";".intercalate (calls.map fun (b, l) => s!"{b}:{setStr l}")
      (s, s!"calls={cs} res={fmResStr res}")
    | _, _ => (s, "bad-op")
  | ["h.reset"] => ({ s with hstore := [], hGetFaults := [], hFmFault := none }, "ok")
  | ["h.store", d, p] =>
    match dg? d, nat? p with
    | some d, some p => ({ s with hstore := storeDg s.hstore d p }, "ok")
    | _, _ => (s, "bad-op")
  | ["h.fault", "get", d, c] =>
    match dg? d, nat? c with
    | some d, some c =>
      ({ s with hGetFaults := if c = 0 then s.hGetFaults.filter (fun e => e.1 != d) else storeDg s.hGetFaults d c }, "ok")
    | _, _ => (s, "bad-op")
  | ["h.fault", "fm", k, c] =>
    match nat? k, nat? c with
    | some k, some c => ({ s with hFmFault := if c = 0 then none else some (k, c) }, "ok")
    | _, _ => (s, "bad-op")
  | ["h.get", d] =>
    match dg? d with
    | some d =>
      let (calls, res) := hierGet s.hget d
      (s, s!"calls={dgsStr calls} res={getResStr res}")
    | none => (s, "bad-op")
  | ["h.getc", p, c] =>
    match dg? p, dg? c with
    | some p, some c =>
      if p.name ≠ c.name then (s, "bad-op") else
      let (calls, res) := hierGetFromComposite s.hgetc p c
      let cs := ",".intercalate (calls.map fun (a, b) => s!"{dgStr a}|{dgStr b}")
      (s, s!"calls={cs} res={getResStr res}")
    | _, _ => (s, "bad-op")
  | ["h.fm", ds] =>
    match dgs? ds with
    | some ds =>
      let (calls, res) := hierFindMissing s.hfm ds
      (s, s!"calls={";".intercalate (calls.map setStr)} res={fmResStr res}")
    | none => (s, "bad-op")
  | _ => (s, "bad-op")
where
  nameStr' (cs : List Char) : String := if cs.isEmpty then "-" else String.ofList cs

def main : IO Unit := loop step {}
