import BB.Model.SectorWriter
import BB.Driver.Util
/-!
Line protocol for `BB.SectorWriter` (the sector-sharing block writer):

* `sw-init S`           new block with sector size `S`                       → `ok`
* `sw-put n`            `Put(n)`: new writer                                 → `<writer index> <offset>`
* `sw-write i hex`      one `Write` call of writer `i` with these bytes      → device image
* `sw-writeflush i hex` the last `Write` call of writer `i`, then `flush()`   → device image and the `WriteAt` calls of this step
* `sw-writefail i hex j` a `Write` call whose `j`-th `WriteAt` fails                → image, `WriteAt`s, `alive`/`dead`
* `sw-flush i`          `flush()` of writer `i`                              → device image
* `sw-space c n`        `HasSpace(n)` for a block of `c` sectors                 → `true` / `false`
* `sw-dev n`            first `n` bytes of the device                        → hex

The driver does not go through `Sys.step` (which draws the bytes from a fixed object list): the harness supplies
the bytes, so that writers which stop half way or are fed garbage are covered; the `Mem`/`Alloc`/`W` functions are
the ones the theorems are about.
-/
namespace BB.Driver.SectorWriter
open BB.SectorWriter BB.Driver

structure S where
  m : Mem := { S := 1 }
  a : Alloc := {}
  ws : Array W := #[]
  top : Nat := 0            -- bytes allocated so far

def image (s : S) : String := bytesHex ((List.range s.top).map (devByte s.m))

/-- Device image plus the `WriteAt` calls (first sector:sector count) made since `before`, oldest first. -/
def report (before : S) (s : S) : String :=
  let fresh := (s.m.wlog.take (s.m.wlog.length - before.m.wlog.length)).reverse
  image s ++ " w=" ++ (if fresh.isEmpty then "-" else ",".intercalate (fresh.map fun (a, n) => s!"{a}:{n}"))

def step (s : S) (line : String) : S × String :=
  match words line with
  | ["sw-init", n] =>
    match nat? n with
    | some k => if k = 0 then (s, "bad-op") else ({ m := { S := k } }, "ok")
    | none => (s, "bad-op")
  | ["sw-put", n] =>
    match nat? n with
    | some k =>
      let (a', w, start) := alloc s.m.S s.a k
      ({ s with a := a', ws := s.ws.push w, top := start + k }, s!"{s.ws.size} {start}")
    | none => (s, "bad-op")
  | ["sw-write", i, hex] =>
    match nat? i, hexBytes? hex with
    | some i, some bs =>
      match s.ws[i]? with
      | some w =>
        let (m', w') := w.write s.m bs
        let s' := { s with m := m', ws := s.ws.set! i w' }
        (s', report s s')
      | none => (s, "bad-op")
    | _, _ => (s, "bad-op")
  | ["sw-writeflush", i, hex] =>
    match nat? i, hexBytes? hex with
    | some i, some bs =>
      match s.ws[i]? with
      | some w =>
        let (m', w') := w.write s.m bs
        let s' := { s with m := w'.flush m', ws := s.ws.set! i w' }
        (s', report s s')
      | none => (s, "bad-op")
    | _, _ => (s, "bad-op")
  | ["sw-writefail", i, hex, j] =>   -- a Write call during which the j-th WriteAt fails (if there are that many)
    match nat? i, hexBytes? hex, nat? j with
    | some i, some bs, some j =>
      match s.ws[i]? with
      | some w =>
        match w.writeFail s.m bs j with
        | (m', some w') => let s' := { s with m := m', ws := s.ws.set! i w' }; (s', report s s' ++ " alive")
        | (m', none) => let s' := { s with m := m' }; (s', report s s' ++ " dead")
      | none => (s, "bad-op")
    | _, _, _ => (s, "bad-op")
  | ["sw-flush", i] =>
    match nat? i with
    | some i =>
      match s.ws[i]? with
      | some w => let s' := { s with m := w.flush s.m }; (s', report s s')
      | none => (s, "bad-op")
    | none => (s, "bad-op")
  | ["sw-space", sectors, n] =>
    match nat? sectors, nat? n with
    | some c, some k => (s, toString (hasSpace s.m.S c s.a k))
    | _, _ => (s, "bad-op")
  | ["sw-dev", n] =>
    match nat? n with
    | some k => (s, bytesHex ((List.range k).map (devByte s.m)))
    | none => (s, "bad-op")
  | _ => (s, "bad-op")

end BB.Driver.SectorWriter
