import BB.Driver.Util
import BB.Model.ErrorHandling
/-!
Line-protocol driver of the C16 error-handling model (stateless: one case per line).

    run <D> <size> <op> <base> <resp>*

* `<D>` hex of the bytes the digest stands for (`-` = empty), `<size>` the digest's size field
  (the digest matches a byte string iff it equals `<D>`; all CAS buffers of a case carry it).
* `<op>`: `slice:<max>` | `writer:<j>` | `writer:-` | `readat:<off>:<n>` | `reader:<n1>.<n2>...` |
  `reader:-` | `chunks:<off>:<m>:<k>` | `discard` | `size`
* `<base>`, and `<resp>` unless it is `F:<k>` (handler returns error `k`), is a buffer:
  `B:<hex>` validated byte slice, `E:<k>` error buffer, `S:<hex>` NewCASBufferFromByteSlice,
  `C:<items>` / `R:<items>` CAS buffer over a scripted chunk reader / reader, `K:<items>` one half of
  `CloneStream()` of a CAS buffer over a scripted chunk reader (the other half is discarded), `A:<obj>/<suffix>[/<prefix>]` NewValidatedBufferFromReaderAt over storage
  holding prefix, object, suffix back to back (the prefix is invisible to the buffer); items are
  `.`-separated: hex data, `-` empty chunk, `!<k>` failure `k`; `_` = no items.

Reply: `<result> log=<errors offered to OnError> done=<number of Done calls>`.
-/
open BB.Driver BB.ErrorHandling

def splitOnChar (s : String) (sep : Char) : List String :=
  let rec go (cs : List Char) (cur : List Char) (acc : List String) : List String :=
    match cs with
    | [] => (String.ofList cur.reverse :: acc).reverse
    | c :: rest => if c == sep then go rest [] (String.ofList cur.reverse :: acc) else go rest (c :: cur) acc
  go s.toList [] []

def item? (w : String) : Option Item :=
  match w.toList with
  | '!' :: r => (nat? (String.ofList r)).map Item.fail
  | _ => (hexBytes? w).map Item.data

def items? (w : String) : Option (List Item) :=
  if w == "_" then some [] else (splitOnChar w '.').mapM item?

def buf? (d : Digest) (w : String) : Option Buf :=
  match splitOnChar w ':' with
  | ["B", x] => (hexBytes? x).map Buf.bytes
  | ["E", k] => (nat? k).map fun k => Buf.error (.tag k)
  | ["S", x] => (hexBytes? x).map (casBytes d)
  | ["C", x] => (items? x).map (Buf.chunks d)
  | ["R", x] => (items? x).map (Buf.reader d)
  | ["K", x] => (items? x).map (Buf.clone d)
  | ["A", x] =>
    match splitOnChar x '/' with
    | [o, sfx] | [o, sfx, _] => do
      let o ← hexBytes? o
      let sfx ← hexBytes? sfx
      pure (Buf.readerAt o sfx)
    | _ => none
  | _ => none

def resp? (d : Digest) (w : String) : Option Resp :=
  match splitOnChar w ':' with
  | ["F", k] => (nat? k).map Resp.fail
  | _ => (buf? d w).map Resp.repl

def op? (w : String) : Option Op :=
  match splitOnChar w ':' with
  | ["slice", m] => (nat? m).map Op.slice
  | ["writer", "-"] => some (Op.writer none)
  | ["writer", j] => (nat? j).map fun j => Op.writer (some j)
  | ["readat", o, n] => do let o ← nat? o; let n ← nat? n; pure (Op.readAt o n)
  | ["reader", "-"] => some (Op.reader [])
  | ["reader", ns] => do
      let l ← (splitOnChar ns '.').mapM nat?
      if l.any (· == 0) then none else pure (Op.reader l)
  | ["chunks", o, m, k] => do
      let o ← nat? o; let m ← nat? m; let k ← nat? k
      if m == 0 then none else pure (Op.chunkReader o m k)
  | ["discard"] => some Op.discard
  | ["size"] => some Op.size
  | _ => none

def showErr : Err → String
  | .tag k => s!"t{k}"
  | .exhausted => "exhausted"
  | .sizeMismatch e o => s!"size:{e}:{o}"
  | .tooBig => "toobig"
  | .hashMismatch => "hash"
  | .badOffset s o => s!"badoff:{s}:{o}"
  | .tooLarge s m => s!"toolarge:{s}:{m}"
  | .writer => "writer"

def showStatus : Status → String
  | .ok => "ok"
  | .eof => "eof"
  | .err e => "err:" ++ showErr e

def joinOr (sep : String) (l : List String) : String :=
  if l.isEmpty then "-" else sep.intercalate l

def showResult : Result → String
  | .slice (.ok b) => "ok:" ++ bytesHex b
  | .slice (.error e) => "err:" ++ showErr e
  | .readAt (.ok (b, false)) => "ok:" ++ bytesHex b
  | .readAt (.ok (b, true)) => "eof:" ++ bytesHex b
  | .readAt (.error e) => "err:" ++ showErr e
  | .reads rs => joinOr "," (rs.map fun (b, st) => bytesHex b ++ "/" ++ showStatus st)
  | .writes ws none => joinOr "." (ws.map bytesHex) ++ "/ok"
  | .writes ws (some e) => joinOr "." (ws.map bytesHex) ++ "/err:" ++ showErr e
  | .size (.ok n) => s!"ok:{n}"
  | .size (.error e) => "err:" ++ showErr e
  | .unit => "ok"

def runLine (ws : List String) : Option String :=
  match ws with
  | "run" :: dh :: sz :: op :: base :: resps => do
    let dbytes ← hexBytes? dh
    let size ← nat? sz
    let d : Digest := { size := size, valid := fun b => b == dbytes }
    let op ← op? op
    let base ← buf? d base
    let h ← resps.mapM (resp? d)
    let o := runOp base h op
    pure s!"{showResult o.result} log={joinOr "," (o.log.map showErr)} done={o.done}"
  | _ => none

def step (s : Unit) (line : String) : Unit × String :=
  match runLine (words line) with
  | some r => (s, r)
  | none => (s, "bad-op")

def main : IO Unit := BB.Driver.loop step ()
