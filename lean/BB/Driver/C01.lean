import BB.Driver.StoreCommon
import BB.Driver.SectorWriter
/-- Lines starting with `sw-` go to the sector-writer model, everything else to the store model. -/
def step (s : BB.Driver.StoreCommon.S × BB.Driver.SectorWriter.S) (line : String) :
    (BB.Driver.StoreCommon.S × BB.Driver.SectorWriter.S) × String :=
  if line.startsWith "sw-" then
    let (b, out) := BB.Driver.SectorWriter.step s.2 line
    ((s.1, b), out)
  else
    let (a, out) := BB.Driver.StoreCommon.step s.1 line
    ((a, s.2), out)
def main : IO Unit := BB.Driver.loop step ({}, {})
