import BB.Driver.Util
/-! Placeholder driver for C01 (replaced when the model is built). -/
def main : IO Unit := BB.Driver.loop (fun (s : Unit) _ => (s, "unimplemented")) ()
