import BB.Driver.Util
import BB.Model.PersistStore
/-!
Line-protocol driver of the persistence model (shared by C02 and C03).

    init <imm|mut> <old> <cur> <new> <sector> <sectorsPerBlock> <slots> <maxGet> <maxPut>
    slot <key> <attempt> <slot>            declare the real index slot of (key, attempt)
    put.begin <op> <key> <size>            -> ok <slot> <offset> | closed | err <code>
    put.copy <op> <data>                   -> ok
    put.end <op>                           -> ok | err <code>
    get <op> <key>                         -> not-found | data <token> | garbage | refresh | closed | err <code>
    fm <op> <key>                          -> missing | present | refresh | closed | err <code>
    refresh.copy <op>                      -> ok <token> | garbage
    refresh.end <op>                       -> ok | err <code>
    g1.start | sync.begin | sync.end | sync.fail | g1.completed <0|1>
    sw.begin <1|2> -> state <oldest> <slot>:<writeOffset>:<seeds> ... | sw.step | sw.fail | sw.done
    crash <dataBits> <indexBits> <pick> <leftover>   -> restored <blocks> ...
    state                                  -> summary of block list, devices and syncer
-/
namespace BB.Driver.PersistCommon
open BB.Driver BB.Persist BB.BlockMap

structure OpRec where
  id : Option Nat := none              -- object being written
  src : Option (Nat × Nat × Nat) := none   -- refresh source: slot, offset, size
  closed : Bool := false

structure S where
  idxSlots : List ((Nat × Nat) × Nat) := []
  maxGet : Nat := 1
  maxPut : Nat := 1
  bmCfg : BlockMap.Cfg := ⟨.mutable ⟨0⟩, 0, 0, 0⟩
  f : Full := { w := World.fresh ⟨1, 1, 0⟩, bm := { free := 0 } }
  ops : List (Nat × OpRec) := []

def S.cfg (s : S) : FCfg :=
  { idx := { slot := fun k a => match s.idxSlots.lookup (k, a) with
                                | some v => v
                                | none => 1000000000 + a
             maxGet := s.maxGet, maxPut := s.maxPut }
    bm := s.bmCfg, fuelGrow := 1000 }

def S.declared (s : S) (k : Nat) : Bool :=
  (List.range s.maxGet).all fun a => (s.idxSlots.lookup (k, a)).isSome

def S.op (s : S) (n : Nat) : OpRec := (s.ops.lookup n).getD {}
def S.setOp (s : S) (n : Nat) (r : OpRec) : S := { s with ops := (n, r) :: s.ops.filter (·.1 ≠ n) }
def S.dropOp (s : S) (n : Nat) : S := { s with ops := s.ops.filter (·.1 ≠ n) }

def bits? (w : String) : Option (List Bool) :=
  if w == "-" then some [] else
  w.toList.mapM fun c => if c == '1' then some true else if c == '0' then some false else none

def showFile (f : SFile) : String :=
  s!"state {f.oldest}" ++ String.join (f.blocks.map fun b => s!" {b.slot}:{b.wo}:{b.seeds.length}")

def showG1 : G1 → String
  | .idle => "idle" | .started f => s!"started{if f then 1 else 0}" | .syncing f => s!"syncing{if f then 1 else 0}"
  | .synced f => s!"synced{if f then 1 else 0}" | .want f => s!"want{if f then 1 else 0}" | .finished => "finished"

def showState (s : S) : String :=
  let w := s.f.w
  let p := w.pbl
  let blocks := String.join (p.blocks.map fun b => s!" {b.slot}:{b.cursor}:{b.written}:{b.syncing}:{b.synced}:{b.epochCount}")
  s!"blocks{blocks} | epochs {p.oldestEpoch} {p.seeds.length} {p.syncingEpochs} {p.syncedEpochs} | rel {p.released} {p.toRelease.length} {p.releasing} " ++
  s!"| closed {if p.closed then 1 else 0} | free {w.free.length} | layout {s.f.bm.old} {s.f.bm.cur} {s.f.bm.new} {s.f.bm.toBeReleased} " ++
  s!"| pend {w.data.pend.length} {w.idx.pend.length} | g1 {showG1 w.g1} | sw {match w.sw with | some x => toString x.stage | none => "-"}"

def showPend (s : S) : String :=
  "data" ++ String.join (s.f.w.data.pend.map fun x => s!" {x.slot}.{x.sec}") ++ " idx" ++
    String.join (s.f.w.idx.pend.map fun x => s!" {x.1}")

/-- The device slot of the block with absolute index `abs`. -/
def slotOf (s : S) (abs : Nat) : Option Nat :=
  if abs < s.f.w.pbl.released then none else (s.f.w.pbl.blocks[abs - s.f.w.pbl.released]?).map (·.slot)

/-- First part of `Get` / `FindMissing` for one key. -/
def lookupOp (s : S) (n k : Nat) (isGet : Bool) : S × String :=
  let c := s.cfg
  match Full.lookup c s.f k with
  | none => (s, if isGet then "not-found" else "missing")
  | some l =>
    let abs := BB.Store.locBlk l
    match slotOf s abs with
    | none => (s, "model-broken")
    | some slot =>
      if !needsRefresh s.f.bm abs then
        if !isGet then (s, "present") else
        match s.f.w.readAt slot (BB.Store.locOff l) (BB.Store.locSize l) with
        | some o => (s, s!"data {o.data}")
        | none => (s, "garbage")
      else
        match Full.allocate c s.f (BB.Store.locSize l) k false with
        | .ok id _ _ f =>
          (({ s with f := f }).setOp n { id := some id, src := some (slot, BB.Store.locOff l, BB.Store.locSize l) }, "refresh")
        | .closed f => (({ s with f := f }).setOp n { closed := true, src := some (slot, BB.Store.locOff l, BB.Store.locSize l) }, "closed")
        | .err e f => ({ s with f := f }, s!"err {e}")
        | .broken => (s, "model-broken")

/-- `keyLocationMap.Get` + a read of the location, no refresh. -/
def peekOp (s : S) (k : Nat) : S × String :=
  let c := s.cfg
  if !s.declared k then (s, "bad-op") else
  match Full.lookup c s.f k with
  | none => (s, "not-found")
  | some l =>
    match slotOf s (BB.Store.locBlk l) with
    | none => (s, "model-broken")
    | some slot =>
      match s.f.w.readAt slot (BB.Store.locOff l) (BB.Store.locSize l) with
      | some o => (s, s!"data {o.data}")
      | none => (s, "garbage")

def worldStep (s : S) (g : World → Option World) : S × String :=
  match g s.f.w with
  | some w => ({ s with f := { s.f with w := w } }, "ok")
  | none => (s, "bad-op")

def step (s : S) (line : String) : S × String :=
  let c := s.cfg
  match words line with
  | ["init", pol, o, cu, n, ss, spb, slots, g, p] =>
    match nat? o, nat? cu, nat? n, nat? ss, nat? spb, nat? slots, nat? g, nat? p with
    | some o, some cu, some n, some ss, some spb, some slots, some g, some p =>
      let policy? : Option Policy :=
        if pol == "imm" then some (.immutable ⟨(cu + n : Nat)⟩)
        else if pol == "mut" then some (.mutable ⟨(cu : Nat)⟩) else none
      match policy? with
      | some pl =>
        if ss = 0 then (s, "bad-op") else
        let bc : BlockMap.Cfg := ⟨pl, ss * spb, o, n⟩
        let w := World.fresh ⟨ss, ss * spb, slots⟩
        ({ maxGet := g, maxPut := p, bmCfg := bc, f := { w := w, bm := BlockMap.init bc [] slots } }, "ok")
      | none => (s, "bad-op")
    | _, _, _, _, _, _, _, _ => (s, "bad-op")
  | ["slot", k, a, v] =>
    match nat? k, nat? a, nat? v with
    | some k, some a, some v => ({ s with idxSlots := ((k, a), v) :: s.idxSlots }, "ok")
    | _, _, _ => (s, "bad-op")
  | ["state"] => (s, showState s)
  | ["pend"] => (s, showPend s)
  | ["put.begin", n, k, z] =>
    match nat? n, nat? k, nat? z with
    | some n, some k, some z =>
      if !s.declared k || z = 0 then (s, "bad-op") else
      match Full.allocate c s.f z k true with
      | .ok id _ off f =>
        (({ s with f := f }).setOp n { id := some id }, s!"ok {match f.w.obj? id with | some o => o.slot | none => 0} {off}")
      | .closed f => (({ s with f := f }).setOp n { closed := true }, "closed")
      | .err e f => ({ s with f := f }, s!"err {e}")
      | .broken => (s, "model-broken")
    | _, _, _ => (s, "bad-op")
  | ["put.copy", n, d] =>
    match nat? n, nat? d with
    | some n, some d =>
      match (s.op n).id with
      | some id =>
        match Full.copy s.f id d with
        | some f => ({ s with f := f }, "ok")
        | none => (s, "bad-op")
      | none => (s, "bad-op")
    | _, _ => (s, "bad-op")
  | [cmd, n] =>
    if cmd == "put.end" || cmd == "refresh.end" then
      match nat? n with
      | some n =>
        if (s.op n).closed then (s.dropOp n, "err unavailable") else
        match (s.op n).id with
        | some id =>
          match Full.finalizePut c s.f id with
          | some (r, f) => (({ s with f := f }).dropOp n, r)
          | none => (s, "model-broken")
        | none => (s, "bad-op")
      | none => (s, "bad-op")
    else if cmd == "refresh.copy" then
      match nat? n with
      | some n =>
        match (s.op n).id, (s.op n).src with
        | some id, some (slot, off, size) =>
          match Full.refreshCopy s.f id slot off size with
          | some (d, f) => ({ s with f := f }, s!"ok {d}")
          | none => (s, "garbage")
        | _, _ => (s, "bad-op")
      | none => (s, "bad-op")
    else if cmd == "peek" then
      match nat? n with
      | some k => peekOp s k
      | none => (s, "bad-op")
    else if cmd == "g1.completed" then
      match nat? n with
      | some v => worldStep s fun w => w.g1Completed (v != 0)
      | none => (s, "bad-op")
    else if cmd == "sw.begin" then
      match nat? n with
      | some owner =>
        match s.f.w.swBegin owner with
        | some w => ({ s with f := { s.f with w := w } }, match w.sw with | some x => showFile x.file | none => "model-broken")
        | none => (s, "bad-op")
      | none => (s, "bad-op")
    else (s, "bad-op")
  | ["get", n, k] =>
    match nat? n, nat? k with
    | some n, some k => if !s.declared k then (s, "bad-op") else lookupOp s n k true
    | _, _ => (s, "bad-op")
  | ["fm", n, k] =>
    match nat? n, nat? k with
    | some n, some k => if !s.declared k then (s, "bad-op") else lookupOp s n k false
    | _, _ => (s, "bad-op")
  | ["g1.start"] => worldStep s World.g1Start
  | ["sync.begin"] => worldStep s World.syncBegin
  | ["sync.end"] => worldStep s World.syncEnd
  | ["sync.fail"] => worldStep s World.syncFail
  | ["sw.step"] => worldStep s World.swStep
  | ["sw.fail"] => worldStep s World.swFail
  | ["sw.done"] =>
    match Full.swDone s.f with
    | some f => ({ s with f := f }, "ok")
    | none => (s, "bad-op")
  | ["crash", db, ib, pick, lo] =>
    match bits? db, bits? ib, nat? pick, nat? lo with
    | some db, some ib, some pick, some lo =>
      let f := Full.crashRestart c s.f db ib pick (lo != 0)
      let s' : S := { s with f := f, ops := [] }
      (s', s!"restored {f.w.pbl.blocks.length} oldest {f.w.pbl.oldestEpoch} epochs {f.w.pbl.seeds.length} old {f.bm.old}")
    | _, _, _, _ => (s, "bad-op")
  | _ => (s, "bad-op")

/-- `save` / `restore`: the harness evaluates several crash choices from one state. -/
def step2 (p : S × Option S) (line : String) : (S × Option S) × String :=
  match words line with
  | ["save"] => ((p.1, some p.1), "ok")
  | ["restore"] =>
    match p.2 with
    | some s => ((s, some s), "ok")
    | none => (p, "bad-op")
  | _ => let (s, r) := step p.1 line; ((s, p.2), r)

end BB.Driver.PersistCommon
