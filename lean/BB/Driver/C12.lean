import BB.Driver.Util
import BB.Model.Sharding
/-!
Line-protocol driver of the C12 sharding model.  Numbers are decimal.

    splitmix64 <x>                  -> <y>           generated BB.Gen.Rendezvous.splitmix64
    log2fixed <x>                   -> <y>           generated log2Fixed
    score <x> <w>                   -> <y>           generated score
    sel <key>:<keyhash>:<weight>... -> ok | error:empty | error:collision
                                       (NewRendezvousShardSelector; backends get the same keys, same order)
    getshard <h>                    -> <index> <key>   (GetShard; key = chosenKey)
    route <hexhash>                 -> <index>         (getBackendIndexByDigest)
    fmans <i> missing <digest>*     backend i answers FindMissing with asked ∩ listed
    fmans <i> raw <digest>*         ... with the listed digests whatever was asked
    fmans <i> err <code>            ... with an error
    gpans <i> ok | gpans <i> err <code>     backend i's answer to Get/Put
    clear                           forget all scripted answers
    fm <digest>*                    -> calls <i>=[d,d] ... -> ok <d>* | error <code> shard <key>
    get <digest> | put <digest>     -> get<i>=<d> ok | ... error <code> shard <key>
    getc <parent> <child>           -> getc<i>=<parent>><child> ok | ... error <code> shard <key>   (GetFromComposite)
    dump                            -> the constructor's internal list: <keyhash>:<weight>:<index> ... in stored order

A digest is `<instance>:<digest function enum>:<hexhash>:<size>` (instance may be empty).  Output lists are sorted and
deduplicated (presentation only; the real code works on sorted sets).
-/
open BB.Driver BB.Sharding BB.Gen.Rendezvous

inductive FmAns where
  | missing (s : List Digest)
  | raw (s : List Digest)
  | err (code : Nat)

structure S where
  shards : List (Entry String) := []
  sel : Option (List (Entry Nat)) := none
  fmAns : List (Nat × FmAns) := []
  gpAns : List (Nat × Nat) := []

def splitOnChar (c : Char) (s : String) : List String :=
  let rec go (cs : List Char) (cur : List Char) (acc : List String) : List String :=
    match cs with
    | [] => (String.ofList cur.reverse :: acc).reverse
    | x :: rest => if x == c then go rest [] (String.ofList cur.reverse :: acc) else go rest (x :: cur) acc
  go s.toList [] []

def u64? (s : String) : Option UInt64 := do
  let n ← nat? s
  if n < 2 ^ 64 then some (UInt64.ofNat n) else none

def u32? (s : String) : Option UInt32 := do
  let n ← nat? s
  if n < 2 ^ 32 then some (UInt32.ofNat n) else none

def digest? (tok : String) : Option Digest :=
  match splitOnChar ':' tok with
  | [inst, fn, hx, sz] => do
    let f ← nat? fn
    let bs ← hexBytes? hx
    let n ← nat? sz
    some ⟨inst, f, bs.map UInt8.ofNat, n⟩
  | _ => none

def showDigest (d : Digest) : String :=
  s!"{d.instanceName}:{d.function}:{bytesHex (d.hashBytes.map UInt8.toNat)}:{d.sizeBytes}"

def shard? (tok : String) : Option (Entry String) :=
  match splitOnChar ':' tok with
  | [k, kh, w] => do
    let kh ← u64? kh
    let w ← u32? w
    some ⟨kh, w, k⟩
  | _ => none

def sortDedup (l : List String) : List String :=
  (l.mergeSort fun a b => !(b < a)).eraseDups

def showDigests (ds : List Digest) : String := ",".intercalate (sortDedup (ds.map showDigest))

def S.access (s : S) (sel : List (Entry Nat)) : Access String Nat Unit :=
  { keys := s.shards.map Entry.tag
    sel := sel
    get := fun i _ => match s.gpAns.lookup i with
      | some c => .error c
      | none => .ok ()
    put := fun i _ _ => match s.gpAns.lookup i with
      | some c => .error c
      | none => .ok ()
    fm := fun i qs => match s.fmAns.lookup i with
      | some (.missing m) => .ok (qs.filter fun d => m.contains d)
      | some (.raw m) => .ok m
      | some (.err c) => .error c
      | none => .ok [] }

def showErr (e : Option String × Nat) : String :=
  match e.1 with
  | some k => s!"error {e.2} shard {k}"
  | none => s!"error {e.2} shard ?"

def showCall : Call → String
  | .fm i ds => s!"{i}=[{showDigests ds}]"
  | .get i d => s!"get{i}={showDigest d}"
  | .put i d => s!"put{i}={showDigest d}"
  | .getc i p c => s!"getc{i}={showDigest p}>{showDigest c}"

def step (s : S) (line : String) : S × String :=
  match words line with
  | ["splitmix64", x] =>
    match u64? x with
    | some x => (s, toString (splitmix64 x).toNat)
    | none => (s, "bad-op")
  | ["log2fixed", x] =>
    match u64? x with
    | some x => (s, toString (log2Fixed x).toNat)
    | none => (s, "bad-op")
  | ["score", x, w] =>
    match u64? x, u32? w with
    | some x, some w => (s, toString (score x w).toNat)
    | _, _ => (s, "bad-op")
  | "sel" :: toks =>
    match toks.mapM shard? with
    | some ss =>
      match newSelector ss with
      | .ok sel => ({ s with shards := ss, sel := some sel }, "ok")
      | .error .empty => ({ s with shards := [], sel := none }, "error:empty")
      | .error .collision => ({ s with shards := [], sel := none }, "error:collision")
    | none => (s, "bad-op")
  | ["getshard", h] =>
    match u64? h, s.sel with
    | some h, some sel =>
      let k := match chosenKey (rscore h) s.shards with
        | some k => k
        | none => "?"
      (s, s!"{getShard sel h} {k}")
    | _, _ => (s, "bad-op")
  | ["route", hx] =>
    match hexBytes? hx, s.sel with
    | some bs, some sel => (s, toString (shardOf sel ⟨"", 0, bs.map UInt8.ofNat, 0⟩))
    | _, _ => (s, "bad-op")
  | "fmans" :: i :: "missing" :: toks =>
    match nat? i, toks.mapM digest? with
    | some i, some ds => ({ s with fmAns := (i, .missing ds) :: s.fmAns }, "ok")
    | _, _ => (s, "bad-op")
  | "fmans" :: i :: "raw" :: toks =>
    match nat? i, toks.mapM digest? with
    | some i, some ds => ({ s with fmAns := (i, .raw ds) :: s.fmAns }, "ok")
    | _, _ => (s, "bad-op")
  | ["fmans", i, "err", c] =>
    match nat? i, nat? c with
    | some i, some c => ({ s with fmAns := (i, .err c) :: s.fmAns }, "ok")
    | _, _ => (s, "bad-op")
  | ["gpans", i, "ok"] =>
    match nat? i with
    | some i => ({ s with gpAns := s.gpAns.filter fun p => p.1 != i }, "ok")
    | none => (s, "bad-op")
  | ["gpans", i, "err", c] =>
    match nat? i, nat? c with
    | some i, some c => ({ s with gpAns := (i, c) :: s.gpAns }, "ok")
    | _, _ => (s, "bad-op")
  | ["clear"] => ({ s with fmAns := [], gpAns := [] }, "ok")
  | "fm" :: toks =>
    match toks.mapM digest?, s.sel with
    | some ds, some sel =>
      let (calls, res) := findMissing (s.access sel) ds
      let cs := " ".intercalate (calls.map showCall)
      match res with
      | .ok m => (s, s!"calls {cs} -> ok {showDigests m}")
      | .error e => (s, s!"calls {cs} -> {showErr e}")
    | _, _ => (s, "bad-op")
  | ["get", tok] =>
    match digest? tok, s.sel with
    | some d, some sel =>
      let (calls, res) := getOp (s.access sel) d
      let cs := " ".intercalate (calls.map showCall)
      match res with
      | .ok _ => (s, s!"{cs} ok")
      | .error e => (s, s!"{cs} {showErr e}")
    | _, _ => (s, "bad-op")
  | ["getc", ptok, ctok] =>
    match digest? ptok, digest? ctok, s.sel with
    | some p, some c, some sel =>
      let (calls, res) := getFromCompositeOp (s.access sel) p c
      let cs := " ".intercalate (calls.map showCall)
      match res with
      | .ok _ => (s, s!"{cs} ok")
      | .error e => (s, s!"{cs} {showErr e}")
    | _, _, _ => (s, "bad-op")
  | ["dump"] =>
    match s.sel with
    | some sel => (s, " ".intercalate (sel.map fun e => s!"{e.hash.toNat}:{e.weight.toNat}:{e.tag}"))
    | none => (s, "bad-op")
  | ["put", tok] =>
    match digest? tok, s.sel with
    | some d, some sel =>
      let (calls, res) := putOp (s.access sel) d ()
      let cs := " ".intercalate (calls.map showCall)
      match res with
      | .ok _ => (s, s!"{cs} ok")
      | .error e => (s, s!"{cs} {showErr e}")
    | _, _ => (s, "bad-op")
  | _ => (s, "bad-op")

def main : IO Unit := loop step {}
