import BB.Driver.Util
import BB.Model.ByteStream
/-!
Line-protocol driver of the C14 model (ByteStream / CAS / AC services and the CAS client).

    reset
    cfg <chunk> <maxmsg> <strictW> <strictR> <lenient> <trunccode> <trunctag> <clientEOF>
    store <hash> <size> <hex> | acstore <hash> <size> <hex> <parses 0|1>
    fault put <code> <early 0|1> | fault get <code> | fault fm <code> | fault clear
    dec <hexin> <c|t|u|x> <hexout>            declare the decoder's behaviour on one input (u = t, and a
                                              reader error is reported as io.ErrUnexpectedEOF)
    write <kind> <hash> <size> <eof|e<code>> <senderr> [; <off> <hex> <fin 0|1>]*
    getmode slice | getmode stream <piece> <k|-> <code>   how Get serves ByteStream.Read: eagerly validated
                                                          slice, or streaming CAS buffer failing after k bytes
    read <kind> <hash> <size> <off> <limit> <failat>
    bupd <call> [; <bad> <hash> <size> <hex>]*     call := ok | instance | function | digest (+ .variant)
    bread <call> [; <bad> <hash> <size>]*
    fmb <call> [; <bad> <hash> <size>]*
    acput <call> <hash> <size> <hex> | acget <call> <hash> <size>
    cacput <function.instance> <hash> <size> <hex> | cacget <function.instance> <hash> <size>
                                              the AC client against the AC server (max message 1 MiB)
    cput <z 0|1> <hash> <size> <hex> | cget <z> <hash> <size> | cfm [; [<function.instance>] <hash> <size>]*
    dump

`H` is SHA-256 (implemented below); kind tokens may carry a harness-only
`.variant` suffix.  The end-to-end operations (`cput`, `cget`) run with the
identity codec (`enc = id`, `dec x = (x, clean)`); `write` uses the declared table.
-/
open BB.Driver BB.ByteStream

namespace Sha256

def K : Array UInt32 := #[
  0x428a2f98, 0x71374491, 0xb5c0fbcf, 0xe9b5dba5, 0x3956c25b, 0x59f111f1, 0x923f82a4, 0xab1c5ed5,
  0xd807aa98, 0x12835b01, 0x243185be, 0x550c7dc3, 0x72be5d74, 0x80deb1fe, 0x9bdc06a7, 0xc19bf174,
  0xe49b69c1, 0xefbe4786, 0x0fc19dc6, 0x240ca1cc, 0x2de92c6f, 0x4a7484aa, 0x5cb0a9dc, 0x76f988da,
  0x983e5152, 0xa831c66d, 0xb00327c8, 0xbf597fc7, 0xc6e00bf3, 0xd5a79147, 0x06ca6351, 0x14292967,
  0x27b70a85, 0x2e1b2138, 0x4d2c6dfc, 0x53380d13, 0x650a7354, 0x766a0abb, 0x81c2c92e, 0x92722c85,
  0xa2bfe8a1, 0xa81a664b, 0xc24b8b70, 0xc76c51a3, 0xd192e819, 0xd6990624, 0xf40e3585, 0x106aa070,
  0x19a4c116, 0x1e376c08, 0x2748774c, 0x34b0bcb5, 0x391c0cb3, 0x4ed8aa4a, 0x5b9cca4f, 0x682e6ff3,
  0x748f82ee, 0x78a5636f, 0x84c87814, 0x8cc70208, 0x90befffa, 0xa4506ceb, 0xbef9a3f7, 0xc67178f2]

def rotr (x : UInt32) (n : UInt32) : UInt32 := (x >>> n) ||| (x <<< (32 - n))

def be64 (n : Nat) : List Nat := (List.range 8).map fun i => (n / 256 ^ (7 - i)) % 256

def pad (msg : List Nat) : List Nat :=
  let l := msg.length
  let zeros := (64 - (l + 9) % 64) % 64
  msg ++ [0x80] ++ List.replicate zeros 0 ++ be64 (l * 8)

def word (b : Array Nat) (i : Nat) : UInt32 :=
  UInt32.ofNat (b[i]! * 16777216 + b[i+1]! * 65536 + b[i+2]! * 256 + b[i+3]!)

def schedule (blk : Array Nat) : Array UInt32 := Id.run do
  let mut w : Array UInt32 := Array.replicate 64 0
  for i in [0:16] do
    w := w.set! i (word blk (4 * i))
  for i in [16:64] do
    let a := w[i-15]!
    let b := w[i-2]!
    let s0 := rotr a 7 ^^^ rotr a 18 ^^^ (a >>> 3)
    let s1 := rotr b 17 ^^^ rotr b 19 ^^^ (b >>> 10)
    w := w.set! i (w[i-16]! + s0 + w[i-7]! + s1)
  return w

def compress (h : Array UInt32) (blk : Array Nat) : Array UInt32 := Id.run do
  let w := schedule blk
  let mut a := h[0]!; let mut b := h[1]!; let mut c := h[2]!; let mut d := h[3]!
  let mut e := h[4]!; let mut f := h[5]!; let mut g := h[6]!; let mut hh := h[7]!
  for i in [0:64] do
    let s1 := rotr e 6 ^^^ rotr e 11 ^^^ rotr e 25
    let ch := (e &&& f) ^^^ ((~~~ e) &&& g)
    let t1 := hh + s1 + ch + K[i]! + w[i]!
    let s0 := rotr a 2 ^^^ rotr a 13 ^^^ rotr a 22
    let mj := (a &&& b) ^^^ (a &&& c) ^^^ (b &&& c)
    let t2 := s0 + mj
    hh := g; g := f; f := e; e := d + t1; d := c; c := b; b := a; a := t1 + t2
  return #[h[0]! + a, h[1]! + b, h[2]! + c, h[3]! + d, h[4]! + e, h[5]! + f, h[6]! + g, h[7]! + hh]

def blocks : Nat → List Nat → List (Array Nat)
  | 0, _ => []
  | n + 1, l => if l.isEmpty then [] else (l.take 64).toArray :: blocks n (l.drop 64)

def hash (msg : List Nat) : List Nat :=
  let p := pad msg
  let h0 : Array UInt32 := #[0x6a09e667, 0xbb67ae85, 0x3c6ef372, 0xa54ff53a, 0x510e527f, 0x9b05688c, 0x1f83d9ab, 0x5be0cd19]
  let h := (blocks p.length p).foldl compress h0
  h.toList.flatMap fun x =>
    let n := x.toNat
    [n / 16777216 % 256, n / 65536 % 256, n / 256 % 256, n % 256]

end Sha256

structure S where
  cs : Nat := 16
  maxMsg : Int := 1000
  flags : Flags := {}
  cas : Store := []
  ac : Store := []
  garbage : List Bytes := []
  putFault : Option (Nat × Bool) := none
  getFault : Option Nat := none
  fmFault : Option Nat := none
  decTab : List (Bytes × (Bytes × DFin × Bool)) := []
  /-- `some (piece, fail)`: ByteStream.Read is served from a streaming CAS buffer -/
  getMode : Option (Nat × Option (Nat × Nat)) := none

def splitOn (ws : List String) (sep : String) : List (List String) :=
  let rec go : List String → List String → List (List String) → List (List String)
    | [], cur, acc => (cur.reverse :: acc).reverse
    | w :: rest, cur, acc => if w == sep then go rest [] (cur.reverse :: acc) else go rest (w :: cur) acc
  go ws [] []

def bool? (s : String) : Option Bool :=
  if s == "1" then some true else if s == "0" then some false else none

def kind? (s : String) : Option NameKind :=
  let base := String.ofList (s.toList.takeWhile (· != '.'))
  if base == "id" then some .identity
  else if base == "zstd" then some .zstd
  else if base == "unsupported" then some .unsupported
  else if base == "unknown" then some .unknown
  else if base == "bad" then some .bad
  else none

def digest? (h sz : String) : Option Digest := do
  let hb ← hexBytes? h
  let n ← nat? sz
  pure ⟨hb, n⟩

def end? (s : String) : Option StreamEnd :=
  if s == "eof" then some .eof
  else match s.toList with
    | 'e' :: ds => (nat? (String.ofList ds)).map StreamEnd.err
    | _ => none

def call? (s0 : String) : Option (Option Err) :=
  let s := String.ofList (s0.toList.takeWhile (· != '.'))
  if s == "ok" then some none
  else if s == "instance" then some (some ⟨3, "instance"⟩)
  else if s == "function" then some (some ⟨3, "function"⟩)
  else if s == "digest" then some (some ⟨3, "digest"⟩)
  else none

def msg? : List String → Option WriteReq
  | [o, h, f] => do pure ⟨← int? o, ← hexBytes? h, ← bool? f⟩
  | _ => none

/-- entries flagged bad carry the malformed digest literally (ignored here) -/
def upd? : List String → Option UpdEntry
  | [b, h, sz, x] => do
    let b ← bool? b
    let x ← hexBytes? x
    if b then pure ⟨true, ⟨[], 0⟩, x⟩ else pure ⟨false, ← digest? h sz, x⟩
  | _ => none

def rd? : List String → Option RdEntry
  | [b, h, sz] => do
    let b ← bool? b
    if b then pure ⟨true, ⟨[], 0⟩⟩ else pure ⟨false, ← digest? h sz⟩
  | _ => none

/-- REv2 enumeration value of a digest function name -/
def fnCode? (name : String) : Option Nat :=
  [("sha256", 1), ("sha1", 2), ("md5", 3), ("sha384", 5), ("sha512", 6), ("sha256tree", 8),
   ("blake3", 9), ("gitsha1", 10)].lookup name

/-- digest qualified by the digest function of a `<function>.<instance>` tag: backends key objects
by function and hash, so every function other than SHA-256 is made part of the key (`ff <code>`) -/
def tagDigest? (tag h sz : String) : Option Digest := do
  let code ← fnCode? (String.ofList (tag.toList.takeWhile (· != '.')))
  let d ← digest? h sz
  pure (if code = 1 then d else ⟨255 :: code :: d.hash, d.size⟩)

def showErr (e : Err) : String := s!"{e.code} {e.tag}"
def showKey (d : Digest) : String := s!"{bytesHex d.hash}-{d.size}"
def showChunks (l : List Bytes) : String := if l.isEmpty then "-" else ",".intercalate (l.map bytesHex)

def showStore (st : Store) : String :=
  let rec go : Store → List Digest → List String → List String
    | [], _, acc => acc.reverse
    | (k, v) :: r, seen, acc =>
      if seen.contains k then go r seen acc else go r (k :: seen) (s!"{showKey k}={bytesHex v}" :: acc)
  " ".intercalate (go st [] [])

def tableCodec (s : S) : Codec :=
  { H := Sha256.hash
    dec := fun x => match s.decTab.lookup x with | some r => (r.1, r.2.1) | none => ([], .corrupt)
    enc := id
    masks := fun x => match s.decTab.lookup x with | some r => r.2.2 | none => false }

def idCodec : Codec := { H := Sha256.hash, dec := fun x => (x, .clean), enc := id }

def stepWrite (s : S) (kind : NameKind) (d : Digest) (e : StreamEnd) (sendErr : Nat)
    (msgs : List WriteReq) : S × String :=
  -- a zstd write needs the decoder's behaviour on the bytes the server feeds it
  let need : Option Bytes :=
    match kind, msgs with
    | .zstd, first :: rest => some (zCollect first.data.length first.finish first.data rest e).1
    | _, _ => none
  match need with
  | some acc => if (s.decTab.lookup acc).isNone then (s, "dec-missing") else run
  | none => run
where
  run : S × String :=
    let wf : WriteFaults := { put := s.putFault, send := if sendErr = 0 then none else some sendErr }
    let r := write (tableCodec s) s.flags s.cas kind d msgs e wf
    ({ s with cas := r.1 }, match r.2 with | .ok n => s!"ok {n}" | .error er => s!"err {showErr er}")

def showRead (r : ReadOut) : String :=
  match r.res, r.zdata with
  | some e, some z => s!"err {showErr e} {bytesHex z}"
  | some e, none => s!"err {showErr e} {showChunks r.sent}"
  | none, some z => s!"okz {bytesHex z}"
  | none, none => s!"ok {showChunks r.sent}"

def showStatus : Option Err → String
  | none => "0"
  | some e => s!"{e.code}.{e.tag}"

def showEntry : Except Err Bytes → String
  | .ok b => s!"d:{bytesHex b}"
  | .error e => s!"e:{e.code}.{e.tag}"

def sections? (rest : List String) : Option (List (List String)) :=
  match rest with
  | [] => some []
  | ";" :: r => some (splitOn r ";")
  | _ => none

def step (s : S) (line : String) : S × String :=
  match words line with
  | ["reset"] => ({}, "ok")
  | ["cfg", cs, mx, sw, sr, ln, tc, tt, ce] =>
    match nat? cs, int? mx, bool? sw, bool? sr, bool? ln, nat? tc, bool? ce with
    | some cs, some mx, some sw, some sr, some ln, some tc, some ce =>
      if cs = 0 then (s, "bad-op") else
      ({ s with cs := cs, maxMsg := mx,
                flags := { strictW := sw, strictR := sr, lenient := ln, truncErr := ⟨tc, tt⟩, clientEOF := ce } }, "ok")
    | _, _, _, _, _, _, _ => (s, "bad-op")
  | ["store", h, sz, x] =>
    match digest? h sz, hexBytes? x with
    | some d, some b => ({ s with cas := s.cas.put d b }, "ok")
    | _, _ => (s, "bad-op")
  | ["acstore", h, sz, x, p] =>
    match digest? h sz, hexBytes? x, bool? p with
    | some d, some b, some p => ({ s with ac := s.ac.put d b, garbage := if p then s.garbage else b :: s.garbage }, "ok")
    | _, _, _ => (s, "bad-op")
  | ["fault", "clear"] => ({ s with putFault := none, getFault := none, fmFault := none }, "ok")
  | ["fault", "put", c, e] =>
    match nat? c, bool? e with
    | some c, some e => ({ s with putFault := some (c, e) }, "ok")
    | _, _ => (s, "bad-op")
  | ["fault", "get", c] => match nat? c with | some c => ({ s with getFault := some c }, "ok") | none => (s, "bad-op")
  | ["fault", "fm", c] => match nat? c with | some c => ({ s with fmFault := some c }, "ok") | none => (s, "bad-op")
  | ["getmode", "slice"] => ({ s with getMode := none }, "ok")
  | ["getmode", "stream", piece, k, code] =>
    match nat? piece, nat? code with
    | some piece, some code =>
      if piece = 0 then (s, "bad-op")
      else if k == "-" then ({ s with getMode := some (piece, none) }, "ok")
      else match nat? k with
        | some k => ({ s with getMode := some (piece, some (k, code)) }, "ok")
        | none => (s, "bad-op")
    | _, _ => (s, "bad-op")
  | ["dec", i, f, o] =>
    let fin : Option (DFin × Bool) :=
      if f == "c" then some (.clean, false) else if f == "t" then some (.trunc, false)
      else if f == "u" then some (.trunc, true) else if f == "x" then some (.corrupt, false) else none
    match hexBytes? i, fin, hexBytes? o with
    | some i, some f, some o => ({ s with decTab := (i, (o, f.1, f.2)) :: s.decTab }, "ok")
    | _, _, _ => (s, "bad-op")
  | "write" :: k :: h :: sz :: e :: se :: rest =>
    match kind? k, digest? h sz, end? e, nat? se, (sections? rest).bind (·.mapM msg?) with
    | some k, some d, some e, some se, some msgs => stepWrite s k d e se msgs
    | _, _, _, _, _ => (s, "bad-op")
  | ["read", k, h, sz, off, lim, fa] =>
    match kind? k, digest? h sz, int? off, int? lim, nat? fa with
    | some k, some d, some off, some lim, some fa =>
      match s.getMode with
      | none => (s, showRead (read idCodec s.flags s.cas k d off lim s.cs fa s.getFault))
      | some (piece, fail) =>
        let src : Except Err Source :=
          match s.getFault with
          | some code => .error (eInjected code)
          | none => match s.cas.get d with
            | none => .error eNotFound
            | some data => .ok (mkSource piece fail data)
        (s, showRead (readS idCodec s.flags src k d off lim s.cs fa))
    | _, _, _, _, _ => (s, "bad-op")
  | "bupd" :: c :: rest =>
    match call? c, (sections? rest).bind (·.mapM upd?) with
    | some ce, some us =>
      let r := batchUpdate idCodec s.cas ce us s.putFault
      ({ s with cas := r.1 }, match r.2 with
        | .ok sts => " ".intercalate ("ok" :: sts.map showStatus)
        | .error e => s!"err {showErr e}")
    | _, _ => (s, "bad-op")
  | "bread" :: c :: rest =>
    match call? c, (sections? rest).bind (·.mapM rd?) with
    | some ce, some rs =>
      (s, match batchRead idCodec s.cas ce rs s.maxMsg s.getFault with
        | .ok es => " ".intercalate ("ok" :: es.map showEntry)
        | .error e => s!"err {showErr e}")
    | _, _ => (s, "bad-op")
  | "fmb" :: c :: rest =>
    match call? c, (sections? rest).bind (·.mapM rd?) with
    | some ce, some rs =>
      (s, match findMissing (storeMissing s.cas s.fmFault) ce rs with
        | .ok ds => " ".intercalate ("ok" :: ds.map showKey)
        | .error e => s!"err {showErr e}")
    | _, _ => (s, "bad-op")
  | ["acput", c, h, sz, x] =>
    match call? c, digest? h sz, hexBytes? x with
    | some ce, some d, some m =>
      let r := acUpdate s.ac ce d m s.putFault
      ({ s with ac := r.1 }, match r.2 with | none => "ok" | some e => s!"err {showErr e}")
    | _, _, _ => (s, "bad-op")
  | ["acget", c, h, sz] =>
    match call? c, digest? h sz with
    | some ce, some d =>
      (s, match acGet (fun m => !s.garbage.contains m) s.ac ce d s.maxMsg.toNat s.getFault with
        | .ok m => s!"ok {bytesHex m}"
        | .error e => s!"err {showErr e}")
    | _, _ => (s, "bad-op")
  | ["cacput", tag, h, sz, x] =>
    match tagDigest? tag h sz, hexBytes? x with
    | some d, some m =>
      let r := acUpdate s.ac none d m s.putFault
      ({ s with ac := r.1 }, match r.2 with | none => "ok" | some e => s!"err {showErr e}")
    | _, _ => (s, "bad-op")
  | ["cacget", tag, h, sz] =>
    match tagDigest? tag h sz with
    | some d =>
      (s, match acGet (fun m => !s.garbage.contains m) s.ac none d 1048576 s.getFault with
        | .ok m => s!"ok {bytesHex m}"
        | .error e => s!"err {showErr e}")
    | none => (s, "bad-op")
  | ["cput", z, h, sz, x] =>
    match bool? z, digest? h sz, hexBytes? x with
    | some z, some d, some data =>
      let msgs := if z then clientPutMsgsZ [idCodec.enc data] else clientPutMsgs s.cs data
      let r := write idCodec s.flags s.cas (if z then .zstd else .identity) d msgs .eof { put := s.putFault }
      ({ s with cas := r.1 }, match r.2 with | .ok _ => "ok" | .error e => s!"err {showErr e}")
    | _, _, _ => (s, "bad-op")
  | ["cget", z, h, sz] =>
    match bool? z, digest? h sz with
    | some z, some d =>
      let r := read idCodec s.flags s.cas (if z then .zstd else .identity) d 0 0 s.cs 0 s.getFault
      (s, match clientGet idCodec s.flags s.cs d r with
        | .ok b => s!"ok {bytesHex b}"
        | .error e => s!"err {showErr e}")
    | _, _ => (s, "bad-op")
  | "cfm" :: rest =>
    -- entries: <hash> <size> (SHA-256, empty instance name) or <function.instance> <hash> <size>
    let ent? (ws : List String) : Option (String × Digest) :=
      match ws with
      | [h, sz] => (digest? h sz).map fun d => ("sha256.-", d)
      | [tag, h, sz] => (tagDigest? tag h sz).map fun d => (tag, d)
      | _ => none
    match (sections? rest).bind (·.mapM ent?) with
    | some es =>
      -- one partition per (digest function, instance name), in order of first appearance
      let tags := es.foldl (fun acc e => if acc.contains e.1 then acc else acc ++ [e.1]) ([] : List String)
      let groups := tags.map fun t => (es.filter (·.1 == t)).map (·.2)
      -- the answer is a set of digests; it is printed per partition (a digest requested under two
      -- instance names is missing under both or under neither)
      (s, match clientFindMissingP (storeMissing s.cas s.fmFault) groups with
        | .ok ms =>
          let keys := (tags.zip groups).flatMap fun (t, g) =>
            ((dedup g).filter (ms.contains ·)).map fun d => s!"{t}/{showKey d}"
          " ".intercalate ("ok" :: keys)
        | .error e => s!"err {showErr e}")
    | none => (s, "bad-op")
  | ["dump"] => (s, s!"cas {showStore s.cas} | ac {showStore s.ac}")
  | _ => (s, "bad-op")

def main : IO Unit := loop step {}
