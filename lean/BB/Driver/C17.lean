import BB.Driver.Util
import BB.Model.CachingSched
import BB.Model.CachingKey
/-!
Line-protocol driver of the C17 models.  Sections are independent; the first word selects one.

Composites (`BB.Caching.compGet` …; backends `src` = slow/secondary, `sink` = fast/primary):
    c.init <repl>                 repl = noop | local | dedup.local | limit.local | dedup.limit.local | …
    c.set <src|sink> <k> <v>      c.del <src|sink> <k>
    c.fault <src|sink> <code> <id> | c.fault <src|sink> none     append to the backend's fault script
    c.get <k> | c.getc <k>        -> ok <v> | err <code> <id>
    c.cput <k> <v> | c.fput <k> <v>   readcaching / readfallback Put -> ok | err <code> <id>
    c.cfm <k>… | c.ffm <k>…       readcaching / readfallback FindMissing -> ok <k>… | err <code> <id>
    c.repl <k>…                   the replicator's ReplicateMultiple on its own -> ok | err <code> <id>
    c.dump <n>                    contents (keys < n), calls, remaining script length of both backends

Deduplicating replicator (`dstep`, `dSettle`):
    d.init | d.call <cancelled> <k>… | d.cancel <i> | d.sink <i> present|missing|err <code> <id>
    d.copy <i> ok | d.copy <i> err <code> <id> | d.settle [p <i>…] [a <i>…]  -> state of every caller
Concurrency limiting (`lstep`): l.init <cap> | l.call <cancelled> <m|s|c> <k>… (ReplicateMultiple / Single / Composite) | l.cancel <i>
    l.base <i> ok (base copied into the sink) | okn (nil without copying) | err <code> <id> | l.settle …
Queued (`qstep`): q.init <cap> <dur> | q.call <cancelled> <now> <k>… | q.cancel <i> | q.base <i> <now> ok|err… | q.settle <now> …
Existence caching (`ecFindMissing`): e.init <cap> <dur> | e.set <k> | e.del <k> | e.fault <code> <id> | e.fault none
    e.fm <now1> <now2> <k>…       -> ok <missing>… / asked <k>… | err <code> <id> / asked <k>…
-/
open BB.Driver BB.Caching

structure S where
  repl : Repl := .noop
  pair : Pair := ⟨{ data := fun _ => none }, { data := fun _ => none }⟩
  d : DState := {}
  l : LState := { cap := 1 }
  q : QState := { cache := { cap := 1, dur := 0 } }
  ec : ECache := { cap := 1, dur := 0 }
  eb : Backend := { data := fun _ => none }

def showKeys (ks : List Nat) : String :=
  if ks.isEmpty then "-" else " ".intercalate (ks.map toString)

def showErr (e : Err) : String := s!"err {e.code} {e.id}"
def showVal : Except Err Val → String
  | .ok v => s!"ok {v}"
  | .error e => showErr e
def showOpt : Option Err → String
  | none => "ok"
  | some e => showErr e
def showMissing : Except Err (List Key) → String
  | .ok ks => s!"ok {showKeys ks}"
  | .error e => showErr e

def parseRepl (s : String) : Option Repl :=
  let rec go : List String → Option Repl
    | ["noop"] => some .noop
    | ["local"] => some .localR
    | "dedup" :: rest => (go rest).map .dedup
    | "limit" :: rest => (go rest).map .limit
    | _ => none
  go (s.splitOn ".")

def parseErr : List String → Option (Option Err)
  | ["ok"] => some none
  | ["none"] => some none
  | ["err", c, i] => match nat? c, nat? i with
    | some c, some i => some (some ⟨c, i⟩)
    | _, _ => none
  | _ => none

def Backend.setKey (b : Backend) (k : Key) (v : Option Val) : Backend :=
  { b with data := fun k' => if k' = k then v else b.data k' }

def dumpBackend (b : Backend) (n : Nat) : String :=
  let items := (List.range n).filterMap fun k => (b.data k).map fun v => s!"{k}={v}"
  s!"{if items.isEmpty then "-" else ",".intercalate items} calls={b.calls} script={b.faults.length}"

def onBackend (s : S) (which : String) (f : Backend → Backend) : Option S :=
  if which == "src" then some { s with pair := ⟨f s.pair.src, s.pair.sink⟩ }
  else if which == "sink" then some { s with pair := ⟨s.pair.src, f s.pair.sink⟩ }
  else none

/-- `p <i>… a <i>…` -/
def parseSettle (ws : List String) : Option (List Nat × List Nat) :=
  let rec go (ws : List String) (mode : Nat) (p a : List Nat) : Option (List Nat × List Nat) :=
    match ws with
    | [] => some (p.reverse, a.reverse)
    | "p" :: rest => go rest 1 p a
    | "a" :: rest => go rest 2 p a
    | w :: rest => match nat? w with
      | some n => if mode == 1 then go rest mode (n :: p) a else if mode == 2 then go rest mode p (n :: a) else none
      | none => none
  go ws 0 [] []

def showDPc (c : DCaller) : String :=
  let k := match c.todo with | k :: _ => toString k | [] => "?"
  match c.pc with
  | .enter => "enter"          -- never visible after a settle
  | .wait _ => "wait"
  | .sink _ => s!"sink({k})"
  | .copy _ => s!"copy({k})"
  | .dereg _ _ => "dereg"
  | .publish _ _ => "publish"
  | .done r => s!"ret({showOpt r})"

def showD (s : DState) : String :=
  if s.ncallers = 0 then "-" else
  " ".intercalate ((List.range s.ncallers).map fun i => s!"{i}:{showDPc (s.callers i)}")

def showL (s : LState) : String :=
  if s.callers.isEmpty then "-" else
  " ".intercalate (s.callers.zipIdx.map fun (c, i) =>
    let p := match c.pc with
      | .waiting => "wait"
      | .inBase => "base"
      | .afterBase _ => "afterbase"
      | .done r => s!"ret({showOpt r})"
    s!"{i}:{p}")

def showQ (s : QState) : String :=
  if s.callers.isEmpty then "-" else
  " ".intercalate (s.callers.zipIdx.map fun (c, i) =>
    let p := match c.pc with
      | .queueing => "wait"
      | .inBase ks => s!"base({",".intercalate (ks.map toString)})"
      | .afterBase _ => "afterbase"
      | .done r => s!"ret({showOpt r})"
    s!"{i}:{p}")

def bool? (w : String) : Option Bool := if w == "0" then some false else if w == "1" then some true else none

def stepC (s : S) : List String → S × String
  | ["c.init", r] =>
    match parseRepl r with
    | some r => ({ s with repl := r, pair := ⟨{ data := fun _ => none }, { data := fun _ => none }⟩ }, "ok")
    | none => (s, "bad-op")
  | ["c.set", w, k, v] =>
    match nat? k, nat? v with
    | some k, some v => match onBackend s w (fun b => Backend.setKey b k (some v)) with
      | some s' => (s', "ok")
      | none => (s, "bad-op")
    | _, _ => (s, "bad-op")
  | ["c.del", w, k] =>
    match nat? k with
    | some k => match onBackend s w (fun b => Backend.setKey b k none) with
      | some s' => (s', "ok")
      | none => (s, "bad-op")
    | none => (s, "bad-op")
  | "c.fault" :: w :: rest =>
    match parseErr (if rest == ["none"] then rest else "err" :: rest) with
    | some f => match onBackend s w (fun b => { b with faults := b.faults ++ [f] }) with
      | some s' => (s', "ok")
      | none => (s, "bad-op")
    | none => (s, "bad-op")
  | ["c.get", k] =>
    match nat? k with
    | some k => let r := compGet s.repl s.pair k; ({ s with pair := r.1 }, showVal r.2)
    | none => (s, "bad-op")
  | ["c.getc", k] =>
    match nat? k with
    | some k => let r := compGetComposite s.repl s.pair k; ({ s with pair := r.1 }, showVal r.2)
    | none => (s, "bad-op")
  | ["c.cput", k, v] =>
    match nat? k, nat? v with
    | some k, some v => let r := cachePut s.pair k v; ({ s with pair := r.1 }, showOpt r.2)
    | _, _ => (s, "bad-op")
  | ["c.fput", k, v] =>
    match nat? k, nat? v with
    | some k, some v => let r := fallbackPut s.pair k v; ({ s with pair := r.1 }, showOpt r.2)
    | _, _ => (s, "bad-op")
  | "c.cfm" :: ks =>
    match allNats? ks with
    | some ks => let r := cacheFindMissing s.pair ks; ({ s with pair := r.1 }, showMissing r.2)
    | none => (s, "bad-op")
  | "c.ffm" :: ks =>
    match allNats? ks with
    | some ks => let r := fallbackFindMissing s.repl s.pair ks; ({ s with pair := r.1 }, showMissing r.2)
    | none => (s, "bad-op")
  | "c.repl" :: ks =>
    match allNats? ks with
    | some ks => let r := replMultiple s.repl s.pair ks; ({ s with pair := r.1 }, showOpt r.2)
    | none => (s, "bad-op")
  | ["c.dump", n] =>
    match nat? n with
    | some n => (s, s!"src:{dumpBackend s.pair.src n} sink:{dumpBackend s.pair.sink n}")
    | none => (s, "bad-op")
  | _ => (s, "bad-op")

def stepD (s : S) : List String → S × String
  | ["d.init"] => ({ s with d := {} }, "ok")
  | "d.call" :: cn :: ks =>
    match bool? cn, allNats? ks with
    | some cn, some ks =>
      match dstep s.d (.call ks cn) with
      | some d => ({ s with d := d }, s!"ok {s.d.ncallers}")
      | none => (s, "disabled")
    | _, _ => (s, "bad-op")
  | ["d.cancel", i] =>
    match nat? i with
    | some i => match dstep s.d (.cancel i) with
      | some d => ({ s with d := d }, "ok")
      | none => (s, "disabled")
    | none => (s, "bad-op")
  | "d.sink" :: i :: rest =>
    let rep : Option SinkReply := match rest with
      | ["present"] => some .present
      | ["missing"] => some .missing
      | ["err", c, e] => match nat? c, nat? e with
        | some c, some e => some (.err ⟨c, e⟩)
        | _, _ => none
      | _ => none
    match nat? i, rep with
    | some i, some rep => match dstep s.d (.sinkReply i rep) with
      | some d => ({ s with d := d }, "ok")
      | none => (s, "disabled")
    | _, _ => (s, "bad-op")
  | "d.copy" :: i :: rest =>
    match nat? i, parseErr rest with
    | some i, some r => match dstep s.d (.copyEnd i r) with
      | some d => ({ s with d := d }, "ok")
      | none => (s, "disabled")
    | _, _ => (s, "bad-op")
  | "d.settle" :: rest =>
    match parseSettle rest with
    | some (p, a) => let d := dSettle p a s.d; ({ s with d := d }, showD d)
    | none => (s, "bad-op")
  | _ => (s, "bad-op")

def stepL (s : S) : List String → S × String
  | ["l.init", cap] =>
    match nat? cap with
    | some cap => ({ s with l := { cap := cap } }, "ok")
    | none => (s, "bad-op")
  | "l.call" :: cn :: kind :: ks =>
    let act : Option LAct := match bool? cn, allNats? ks with
      | some cn, some ks =>
        if kind == "m" then some (.call ks cn)
        else match ks with
          | [k] => if kind == "s" then some (.callRead .single k cn)
                   else if kind == "c" then some (.callRead .composite k cn) else none
          | _ => none
      | _, _ => none
    match act with
    | some act =>
      match lstep s.l act with
      | some l => ({ s with l := l }, s!"ok {s.l.callers.length}")
      | none => (s, "disabled")
    | none => (s, "bad-op")
  | ["l.base", i, "ok"] =>
    match nat? i with
    | some i => match lstep s.l (.baseCopied i) with
      | some l => ({ s with l := l }, "ok")
      | none => (s, "disabled")
    | none => (s, "bad-op")
  | ["l.cancel", i] =>
    match nat? i with
    | some i => match lstep s.l (.cancel i) with
      | some l => ({ s with l := l }, "ok")
      | none => (s, "disabled")
    | none => (s, "bad-op")
  | "l.base" :: i :: rest =>
    match nat? i, parseErr (if rest == ["okn"] then ["ok"] else rest) with
    | some i, some r => match lstep s.l (.baseEnd i r) with
      | some l => ({ s with l := l }, "ok")
      | none => (s, "disabled")
    | _, _ => (s, "bad-op")
  | "l.settle" :: rest =>
    match parseSettle rest with
    | some (p, a) => let l := lSettle p a s.l; ({ s with l := l }, s!"{showL l} held={l.held}")
    | none => (s, "bad-op")
  | _ => (s, "bad-op")

def stepQ (s : S) : List String → S × String
  | ["q.init", cap, dur] =>
    match nat? cap, nat? dur with
    | some cap, some dur => ({ s with q := { cache := { cap := cap, dur := dur } } }, "ok")
    | _, _ => (s, "bad-op")
  | "q.call" :: cn :: now :: ks =>
    match bool? cn, nat? now, allNats? ks with
    | some cn, some now, some ks =>
      match qstep s.q (.call ks cn now) with
      | some q => ({ s with q := q }, s!"ok {s.q.callers.length}")
      | none => (s, "disabled")
    | _, _, _ => (s, "bad-op")
  | ["q.cancel", i] =>
    match nat? i with
    | some i => match qstep s.q (.cancel i) with
      | some q => ({ s with q := q }, "ok")
      | none => (s, "disabled")
    | none => (s, "bad-op")
  | "q.base" :: i :: now :: rest =>
    match nat? i, nat? now, parseErr rest with
    | some i, some now, some r => match qstep s.q (.baseEnd i r now) with
      | some q => ({ s with q := q }, "ok")
      | none => (s, "disabled")
    | _, _, _ => (s, "bad-op")
  | "q.settle" :: now :: rest =>
    match nat? now, parseSettle rest with
    | some now, some (p, a) => let q := qSettle now p a s.q; ({ s with q := q }, s!"{showQ q} token={q.token}")
    | _, _ => (s, "bad-op")
  | _ => (s, "bad-op")

def stepE (s : S) : List String → S × String
  | ["e.init", cap, dur] =>
    match nat? cap, nat? dur with
    | some cap, some dur => ({ s with ec := { cap := cap, dur := dur }, eb := { data := fun _ => none } }, "ok")
    | _, _ => (s, "bad-op")
  | ["e.set", k] =>
    match nat? k with
    | some k => ({ s with eb := Backend.setKey s.eb k (some 1) }, "ok")
    | none => (s, "bad-op")
  | ["e.del", k] =>
    match nat? k with
    | some k => ({ s with eb := Backend.setKey s.eb k none }, "ok")
    | none => (s, "bad-op")
  | "e.fault" :: rest =>
    match parseErr (if rest == ["none"] then rest else "err" :: rest) with
    | some f => ({ s with eb := { s.eb with faults := s.eb.faults ++ [f] } }, "ok")
    | none => (s, "bad-op")
  | "e.fm" :: n1 :: n2 :: ks =>
    match nat? n1, nat? n2, allNats? ks with
    | some n1, some n2, some ks =>
      let asked := (s.ec.removeExisting n1 ks).2
      let r := ecFindMissing s.ec s.eb n1 n2 ks
      ({ s with ec := r.1.1, eb := r.1.2 }, s!"{showMissing r.2} / asked {showKeys asked}")
    | _, _, _ => (s, "bad-op")
  | _ => (s, "bad-op")

def parseShape : String → Option Shape
  | "local" => some .localS
  | "fallback" => some .fallback
  | "caching" => some .caching
  | "mirrored" => some .mirrored
  | _ => none

/-- `k.format <shape> <fa> <fb>`: the key format a configured stack announces (0 = without, 1 = with
instance name); `k.same <fmt> <inst> <hash> <inst'> <hash'>`: do two digests share a cache key. -/
def stepK (s : S) : List String → S × String
  | ["k.format", sh, fa, fb] =>
    match parseShape sh, nat? fa, nat? fb with
    | some sh, some fa, some fb =>
      if fa ≤ 1 ∧ fb ≤ 1 then (s, toString (stackFormat sh fa fb)) else (s, "bad-op")
    | _, _, _ => (s, "bad-op")
  | ["k.same", f, i, h, i', h'] =>
    match nat? f, nat? i, nat? h, nat? i', nat? h' with
    | some f, some i, some h, some i', some h' =>
      (s, if digestKey f i h = digestKey f i' h' then "same" else "different")
    | _, _, _, _, _ => (s, "bad-op")
  | _ => (s, "bad-op")

def step (s : S) (line : String) : S × String :=
  let ws := words line
  match ws with
  | [] => (s, "bad-op")
  | w :: _ =>
    if w.startsWith "c." then stepC s ws
    else if w.startsWith "d." then stepD s ws
    else if w.startsWith "l." then stepL s ws
    else if w.startsWith "q." then stepQ s ws
    else if w.startsWith "e." then stepE s ws
    else if w.startsWith "k." then stepK s ws
    else (s, "bad-op")

def main : IO Unit := loop step {}
