import BB.Driver.Util
import BB.Model.Syncer
/-!
Line-protocol driver of the C07 syncer model (`BB.Syncer.step`).

    init <minInt> <retryInt> <nfree> <oldest> <t0>
    tick <n> | cancel | push | pop | fin <abs> <end>      environment (tick replies `ok <advanced>`:
                                 the clock stops early where a loop ends up waiting for storeLock)
    sync ok|fail                 the parked dataSyncer call returns
    write p|r ok|fail            the parked WritePersistentState call of that loop returns
    undo                         forget the last request (used to re-run it with another preference)
  every request may end with `prefer:r` (who wins `storeLock` when both loops reach for it).

Reply: `<result> | <events> | <summary>`.  After the stimulus both loops run until they
block (`settle`); the events are the collaborator calls they make, tagged by loop.
-/
open BB.Driver BB.Syncer

structure D where
  c : Cfg := ⟨1, 1⟩
  s : State := {}
  prev : Option State := none
  ready : Bool := false

def showSnap (n : Snap) : String :=
  s!"{n.oldest}[" ++ ",".intercalate (n.blocks.map fun b => s!"{b.1}:{b.2.1}:{b.2.2}") ++ "]"

def wEvents (tag : String) (c : Cfg) (s : State) (w : WPc) (a : WAct) : List String :=
  match w, a with
  | .idle, .get => let n := (s.bl.getState).2; [s!"{tag}:getstate {showSnap n}", s!"{tag}:write {showSnap n}"]
  | .writing _, .ret false => [s!"{tag}:log write", s!"{tag}:timer {c.retryInt}"]
  | .written, .notify => s!"{tag}:notify" :: (s.bl.toRelease.take s.bl.releasing).map fun i => s!"{tag}:free {i}"
  | _, _ => []

/-- The observable calls an (enabled) action makes, from its pre-state. -/
def events (c : Cfg) (s : State) : Act → List String
  | .pGet => ["p:getput"]
  | .pPoll => match s.p with
    | .poll g => if s.bl.putCh.ready g then
        [s!"p:timer {(Int.ofNat (s.lastSync + c.minInt)) - Int.ofNat s.now}"] else []
    | _ => []
  | .pWake => [s!"p:timer {c.minInt}"]
  | .pStart => ["p:start 0", "p:datasync"]
  | .pData false => ["p:log sync", s!"p:timer {c.retryInt}"]
  | .pRetry => ["p:datasync"]
  | .pCompleted => match s.p with
    | .synced kg f => if !kg && !f then ["p:completed", "p:start 1", "p:datasync"] else ["p:completed"]
    | _ => []
  | .pW a => match s.p with
    | .write _ w => wEvents "p" c s w a
    | _ => []
  | .rGet => ["r:getrel"]
  | .rW a => match s.r with
    | .write w => wEvents "r" c s w a
    | _ => []
  | _ => []

inductive Next | act (a : Act) | blocked | race | wantLock

def wNext (s : State) (w : WPc) : Option WAct ⊕ Unit :=
  match w with
  | .idle => .inr ()
  | .writing _ => .inl none
  | .written => .inl (some .notify)
  | .sleep d => .inl (if s.now < d then none else some .wake)

/-- What the put loop does next when left alone. -/
def pNext (s : State) : Next :=
  match s.p with
  | .get => .act .pGet
  | .poll _ => .act .pPoll
  | .wait g =>
    if s.bl.putCh.ready g && s.cancelled then .race
    else if s.bl.putCh.ready g then .act .pWake
    else if s.cancelled then .act .pCancel else .blocked
  | .timer d _ =>
    if s.cancelled && decide (d ≤ s.now) then .race
    else if s.cancelled then .act .pCancel
    else if d ≤ s.now then .act .pFire else .blocked
  | .lock _ => .act .pStart
  | .sync _ _ => .blocked
  | .syncSleep _ _ d => if s.now < d then .blocked else .act .pRetry
  | .synced _ _ => .act .pCompleted
  | .write _ w => match wNext s w with
    | .inr () => if s.storeLocked then .blocked else .wantLock
    | .inl (some a) => .act (.pW a)
    | .inl none => .blocked
  | .done => .blocked

def rNext (s : State) : Next :=
  match s.r with
  | .get => .act .rGet
  | .wait g => if s.bl.relCh.ready g then .act .rWake else .blocked
  | .write w => match wNext s w with
    | .inr () => if s.storeLocked then .blocked else .wantLock
    | .inl (some a) => .act (.rW a)
    | .inl none => .blocked

structure Settled where
  s : State
  ev : List String := []
  contended : Bool := false
  race : Bool := false
  stuck : Bool := false   -- an enabled-looking action was refused by `step` (driver bug)

/-- Run both loops until they block.  The put loop moves first except for `storeLock`. -/
def settle (c : Cfg) (preferR : Bool) : Nat → Settled → Settled
  | 0, r => { r with stuck := true }
  | fuel + 1, r =>
    let s := r.s
    let doAct (a : Act) : Settled :=
      match step c s a with
      | some s' => settle c preferR fuel { r with s := s', ev := r.ev ++ events c s a }
      | none => { r with stuck := true }
    match pNext s, rNext s with
    | .race, _ => { r with race := true }
    | .act a, _ => doAct a
    | .wantLock, .wantLock =>
      let r' := { r with contended := true }
      let a := if preferR then Act.rW .get else Act.pW .get
      match step c s a with
      | some s' => settle c preferR fuel { r' with s := s', ev := r'.ev ++ events c s a }
      | none => { r' with stuck := true }
    | .wantLock, .act a => doAct a
    | .wantLock, _ => doAct (.pW .get)
    | .blocked, .act a => doAct a
    | .blocked, .wantLock => doAct (.rW .get)
    | .blocked, _ => r

/-- A loop waits for `storeLock` while the other one holds it across a parked write. -/
def mutexWait (s : State) : Bool :=
  s.storeLocked &&
    ((match s.p with | .write _ .idle => true | _ => false) || (match s.r with | .write .idle => true | _ => false))

def wDeadline : WPc → List Nat
  | .sleep d => [d]
  | _ => []

/-- Pending timer deadlines of both loops. -/
def deadlines (s : State) : List Nat :=
  (match s.p with
   | .timer d _ => [d]
   | .syncSleep _ _ d => [d]
   | .write _ w => wDeadline w
   | _ => []) ++
  (match s.r with
   | .write w => wDeadline w
   | _ => [])

/-- Advance the clock to `target`, stopping at every timer deadline on the way. -/
def tickTo (c : Cfg) (preferR : Bool) (target : Nat) : Nat → Settled → Settled
  | 0, r => { r with stuck := true }
  | fuel + 1, r =>
    if r.race || r.stuck then r else
    let ds := (deadlines r.s).filter fun d => r.s.now < d && d ≤ target
    match ds.foldl (fun (m : Option Nat) d => match m with
        | none => some d
        | some x => some (min x d)) none with
    | some d =>
      let r' := settle c preferR 200 { r with s := { r.s with now := d } }
      -- virtual time cannot advance while a goroutine sits in `storeLock.Lock()`
      if d < target && !mutexWait r'.s then tickTo c preferR target fuel r' else r'
    | none => settle c preferR 200 { r with s := { r.s with now := target } }

def showW : WPc → String
  | .idle => "widle"
  | .writing _ => "writing"
  | .written => "written"
  | .sleep d => s!"wsleep@{d}"

def showP : PPc → String
  | .get => "get" | .poll _ => "poll" | .wait _ => "wait"
  | .timer d _ => s!"timer@{d}" | .lock _ => "lock"
  | .sync kg f => s!"sync{if kg then 1 else 0}{if f then 1 else 0}"
  | .syncSleep _ _ d => s!"ssleep@{d}"
  | .synced _ _ => "synced"
  | .write _ w => showW w
  | .done => "done"

def showR : RPc → String
  | .get => "get" | .wait _ => "wait" | .write w => showW w

def b01 (b : Bool) : String := if b then "1" else "0"

def summary (s : State) : String :=
  let blockedOnLock := mutexWait s
  s!"p={showP s.p} r={showR s.r} lock={b01 s.storeLocked} mutexwait={b01 blockedOnLock} now={s.now} last={s.lastSync} " ++
  s!"cancelled={b01 s.cancelled} closed={b01 s.bl.closedW} blocks={s.bl.blocks.length} free={s.bl.free.length} " ++
  s!"torelease={s.bl.toRelease.length} epochs={s.bl.nE} synced={s.bl.syncedE} syncing={s.bl.syncingE} oldest={s.bl.oldest} " ++
  s!"released={s.bl.totalReleased} durable={showSnap s.durable} freed={s.freedTotal} " ++
  s!"panic={b01 (s.bl.putCh.panicked || s.bl.relCh.panicked || s.bl.oob)}"

def reply (d : D) (pre : State) (res : String) (r : Settled) : D × String :=
  if r.stuck then (d, "model-stuck") else
  let flags := (if r.contended then " contended" else "") ++ (if r.race then " race" else "")
  ({ d with s := r.s, prev := some pre },
   s!"{res}{flags} | {";".intercalate r.ev} | {summary r.s}")

/-- Apply an environment/collaborator action, then let the loops run. -/
def stim (d : D) (preferR : Bool) (a : Act) (res : State → String) : D × String :=
  match step d.c d.s a with
  | none => (d, "bad-op")
  | some s' => reply d d.s (res s') (settle d.c preferR 200 { s := s', ev := events d.c d.s a })

def stepLine (d : D) (line : String) : D × String :=
  let ws := words line
  let preferR := ws.getLast? == some "prefer:r"
  let ws := ws.filter fun w => !(w.startsWith "prefer:")
  match ws with
  | ["init", m, r, n, o, t] =>
    match nat? m, nat? r, nat? n, nat? o, nat? t with
    | some m, some r, some n, some o, some t =>
      let c : Cfg := ⟨m, r⟩
      let s0 := init (List.range n) o t
      let r := settle c preferR 200 { s := s0 }
      reply { c := c, s := s0, prev := none, ready := true } s0 "ok" r
    | _, _, _, _, _ => (d, "bad-op")
  | _ =>
  if !d.ready then (d, "bad-op") else
  match ws with
  | ["undo"] => match d.prev with
    | some p => ({ d with s := p, prev := none }, "ok")
    | none => (d, "bad-op")
  | ["tick", n] => match nat? n with
    | some n =>
      if mutexWait d.s then (d, "bad-op") else
      let r := tickTo d.c preferR (d.s.now + n) 50 { s := d.s }
      reply d d.s s!"ok {r.s.now - d.s.now}" r
    | none => (d, "bad-op")
  | ["cancel"] => stim d preferR .cancel fun _ => "ok"
  | ["push"] =>
    let res := match d.s.bl.pushBack, d.s.bl.free with
      | some _, id :: _ => s!"ok {id}"
      | _, _ => if d.s.bl.closedW then "err closed" else "err full"
    stim d preferR .push fun _ => res
  | ["pop"] => stim d preferR .pop fun _ => "ok"
  | ["fin", a, e] => match nat? a, nat? e with
    | some a, some e =>
      let res := match d.s.bl.fin a e with
        | some (_, .ok ep) => s!"ok {ep}"
        | some (_, .closed) => "closed"
        | some (_, .released) => "released"
        | none => "bad-op"
      stim d preferR (.fin a e) fun _ => res
    | _, _ => (d, "bad-op")
  | ["sync", x] =>
    if x == "ok" then stim d preferR (.pData true) fun _ => "ok"
    else if x == "fail" then stim d preferR (.pData false) fun _ => "ok"
    else (d, "bad-op")
  | ["write", who, x] =>
    if x != "ok" && x != "fail" then (d, "bad-op") else
    if who == "p" then stim d preferR (.pW (.ret (x == "ok"))) fun _ => "ok"
    else if who == "r" then stim d preferR (.rW (.ret (x == "ok"))) fun _ => "ok"
    else (d, "bad-op")
  | _ => (d, "bad-op")

def main : IO Unit := loop stepLine {}
