import BB.Driver.StoreCommon
def main : IO Unit := BB.Driver.loop BB.Driver.StoreCommon.step {}
