import BB.Driver.Util
import BB.Model.Mirrored
/-!
Line-protocol driver of the C11 model (BB.Mirrored).

    init <ab> <ba>                     strategies of replicatorAToB / replicatorBToA: local | noop; resets everything
    place <k> <A|B|AB|-> <vA> <vB>     set what the replicas hold for key k (value ignored where absent)
    fault <A|B> <get|getc|put|fm|caps> <idx> <code>   call #idx of that method on that replica fails with that code
    get <k> | getc <k>                 -> val <v> | err ...
    put <k> <v> <pref>                 -> ok | err ...
    fm <pref1> <pref2> <k>*            -> missing <k>* | err ...
    caps                               -> ok | err ...
    state                              -> contents and call counters of both replicas, round

An error is rendered `err <code> <tag>/.../<origin>`.
-/
open BB.Driver BB.Mirrored

structure S where
  cfg : Cfg := ⟨.local, .local⟩
  p : Pair := ⟨fun _ => ⟨fun _ => none, fun _ _ => none, fun _ => 0⟩, 0⟩
  keys : List Nat := []

def side? : String → Option Side
  | "A" => some .A
  | "B" => some .B
  | _ => none

def meth? : String → Option Meth
  | "get" => some .get
  | "getc" => some .getc
  | "put" => some .put
  | "fm" => some .fm
  | "caps" => some .caps
  | _ => none

def strat? : String → Option Strat
  | "local" => some .local
  | "noop" => some .noop
  | _ => none

def showSide : Side → String
  | .A => "A"
  | .B => "B"

def showMeth : Meth → String
  | .get => "get"
  | .getc => "getc"
  | .put => "put"
  | .fm => "fm"
  | .caps => "caps"

def showTag : Tag → String
  | .backend s => showSide s
  | .repl => "repl"
  | .dig k => s!"k{k}"
  | .sync s => "sync" ++ showSide s
  | .incons s => "incons" ++ showSide s
  | .sinkAbsent => "sinkabsent"

def showOrigin : Origin → String
  | .fault s m i => s!"fault.{showSide s}.{showMeth m}.{i}"
  | .absent s k => s!"absent.{showSide s}.{k}"

def showErr (e : Err) : String :=
  s!"err {e.code} " ++ "/".intercalate (e.tags.map showTag ++ [showOrigin e.origin])

def showReply : Reply → String
  | .val v => s!"val {v}"
  | .unit => "ok"
  | .missing ks => if ks.isEmpty then "missing -" else "missing " ++ " ".intercalate (ks.map toString)
  | .err e => showErr e

def insertKey (k : Nat) (ks : List Nat) : List Nat :=
  if ks.contains k then ks else (k :: ks).mergeSort (· ≤ ·)

def setStore (p : Pair) (s : Side) (k : Nat) (v : Option Nat) : Pair :=
  let r := p.rep s
  p.setRep s { r with store := fun k' => if k' = k then v else r.store k' }

def addFault (p : Pair) (s : Side) (m : Meth) (i : Nat) (c : Nat) : Pair :=
  let r := p.rep s
  p.setRep s { r with script := fun m' i' => if m' = m ∧ i' = i then some c else r.script m' i' }

def showReplica (keys : List Nat) (r : Replica) : String :=
  let items := keys.filterMap fun k => (r.store k).map fun v => s!"{k}={v}"
  let c := " ".intercalate ([Meth.get, .getc, .put, .fm, .caps].map fun m => s!"{showMeth m}={r.cnt m}")
  (if items.isEmpty then "-" else ",".intercalate items) ++ " " ++ c

def runOp (s : S) (o : Op) : S × String :=
  let r := step s.cfg s.p o
  ({ s with p := r.1 }, showReply r.2)

def stepD (s : S) (line : String) : S × String :=
  match words line with
  | ["init", ab, ba] =>
    match strat? ab, strat? ba with
    | some ab, some ba => ({ cfg := ⟨ab, ba⟩ }, "ok")
    | _, _ => (s, "bad-op")
  | ["place", k, w, va, vb] =>
    match nat? k, nat? va, nat? vb with
    | some k, some va, some vb =>
      let inA := w == "A" || w == "AB"
      let inB := w == "B" || w == "AB"
      if !(inA || inB || w == "-") then (s, "bad-op") else
      let p := setStore s.p .A k (if inA then some va else none)
      let p := setStore p .B k (if inB then some vb else none)
      ({ s with p := p, keys := insertKey k s.keys }, "ok")
    | _, _, _ => (s, "bad-op")
  | ["fault", sd, m, i, c] =>
    match side? sd, meth? m, nat? i, nat? c with
    | some sd, some m, some i, some c => ({ s with p := addFault s.p sd m i c }, "ok")
    | _, _, _, _ => (s, "bad-op")
  | ["get", k] =>
    match nat? k with
    | some k => runOp { s with keys := insertKey k s.keys } (.get k)
    | none => (s, "bad-op")
  | ["getc", k] =>
    match nat? k with
    | some k => runOp { s with keys := insertKey k s.keys } (.getc k)
    | none => (s, "bad-op")
  | ["put", k, v, pref] =>
    match nat? k, nat? v, side? pref with
    | some k, some v, some pref => runOp { s with keys := insertKey k s.keys } (.put k v pref)
    | _, _, _ => (s, "bad-op")
  | "fm" :: p1 :: p2 :: ks =>
    match side? p1, side? p2, allNats? ks with
    | some p1, some p2, some ks => runOp s (.fm ks p1 p2)
    | _, _, _ => (s, "bad-op")
  | ["caps"] => runOp s .caps
  | ["state"] =>
    (s, s!"A {showReplica s.keys (s.p.rep .A)} | B {showReplica s.keys (s.p.rep .B)} | round {s.p.round}")
  | _ => (s, "bad-op")

def main : IO Unit := loop stepD {}
