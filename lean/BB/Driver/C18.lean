import BB.Driver.Util
import BB.Model.Auth
/-!
Line-protocol driver of the C18 authorization model (`BB.Auth`).

    reset                                       forget leaves and authorizers
    leaf <id> <default> [<name> <verdict>]...   declare a leaf authorizer: answer per instance name
                                                verdict: a | d.<tag> | e.<code>.<tag>
    auth get|put|fm <tree>                      configure one authorizer of the decorator
                                                tree (prefix): L <id> | A <k> <tree>*k
    get <n> <b>                                 Get of digest (instance name n, blob b)
    getc <n> <b> <n'> <b'>                      GetFromComposite parent child
    put <n> <b>                                 Put
    fm <k> <n> <b> ...(k pairs) <order...>      FindMissing of k digests; order = the order in which
                                                the distinct instance names were handed to the authorizer
    authz get|put|fm <n>...                     Authorize called directly with a batch

Replies: `ok`; for operations
`backend=<calls|none> result=<fwd|err.<code>.<tag>.<auth|name<n>>|panic> buf=<discards>.<handed> calls=<leaf calls|->`;
for authz `verdicts=<v,...|-> calls=<...>`; `bad-order` when the order of an `fm` line is not a
duplicate-free listing of exactly the instance names of its digests; `bad-op` otherwise.
-/
open BB.Driver BB.Auth

structure LeafDecl where
  id : Nat
  dflt : Verdict
  table : List (Name × Verdict)

def LeafDecl.beh (l : LeafDecl) : Name → Verdict := fun n =>
  match l.table.lookup n with
  | some v => v
  | none => l.dflt

structure S where
  leaves : List LeafDecl := []
  getA : Option Authz := none
  putA : Option Authz := none
  fmA : Option Authz := none

def splitDot (s : String) : List String :=
  let rec go (cs : List Char) (cur : List Char) (acc : List String) : List String :=
    match cs with
    | [] => (String.ofList cur.reverse :: acc).reverse
    | c :: rest => if c == '.' then go rest [] (String.ofList cur.reverse :: acc) else go rest (c :: cur) acc
  go s.toList [] []

def verdict? (w : String) : Option Verdict :=
  match splitDot w with
  | ["a"] => some none
  | ["d", t] => (nat? t).map fun t => some ⟨permissionDenied, t⟩
  | ["e", c, t] =>
    match nat? c, nat? t with
    | some c, some t => some (some ⟨c, t⟩)
    | _, _ => none
  | _ => none

def showVerdict : Verdict → String
  | none => "a"
  | some e => if e.isDenial then s!"d.{e.tag}" else s!"e.{e.code}.{e.tag}"

def pairs? : List String → Option (List (Name × Verdict))
  | [] => some []
  | [_] => none
  | n :: v :: rest => do
    let n ← nat? n
    let v ← verdict? v
    let r ← pairs? rest
    pure ((n, v) :: r)

mutual
  def parseTree (ls : List LeafDecl) : Nat → List String → Option (Authz × List String)
    | 0, _ => none
    | _ + 1, "L" :: id :: rest =>
      match nat? id with
      | some id =>
        match ls.find? (fun l => l.id == id) with
        | some l => some (.leaf id l.beh, rest)
        | none => none
      | none => none
    | fuel + 1, "A" :: k :: rest =>
      match nat? k with
      | some k =>
        match parseTrees ls fuel k rest with
        | some (ms, rest') => some (.any ms, rest')
        | none => none
      | none => none
    | _ + 1, _ => none
  def parseTrees (ls : List LeafDecl) : Nat → Nat → List String → Option (List Authz × List String)
    | 0, _, _ => none
    | _ + 1, 0, ws => some ([], ws)
    | fuel + 1, k + 1, ws =>
      match parseTree ls fuel ws with
      | some (m, rest) =>
        match parseTrees ls fuel k rest with
        | some (ms, rest') => some (m :: ms, rest')
        | none => none
      | none => none
end

def showNames (ns : List Name) : String := ",".intercalate (ns.map toString)

def showCalls (cs : List (Nat × List Name)) : String :=
  if cs.isEmpty then "-" else ";".intercalate (cs.map fun c => s!"L{c.1}[{showNames c.2}]")

def showDigest (d : Digest) : String := s!"{d.inst}.{d.blob}"

/-- A digest set prints sorted and without duplicates (what `digest.Set` holds). -/
def canonSet (ds : List Digest) : String :=
  let ps := (ds.map fun d => (d.inst, d.blob)).mergeSort
    (fun a b => a.1 < b.1 || (a.1 == b.1 && a.2 ≤ b.2))
  if ps.isEmpty then "-" else ",".intercalate (ps.eraseDups.map fun p => s!"{p.1}.{p.2}")

def showCall : BCall → String
  | .get d => s!"get:{showDigest d}"
  | .getComposite p c => s!"getc:{showDigest p}/{showDigest c}"
  | .put d => s!"put:{showDigest d}"
  | .findMissing ds => s!"fm:{canonSet ds}"

def showResult : Result → String
  | .forwarded => "fwd"
  | .denied e .authorization => s!"err.{e.code}.{e.tag}.auth"
  | .denied e (.instanceName n) => s!"err.{e.code}.{e.tag}.name{n}"
  | .panic => "panic"

def showOutcome (o : Outcome) : String :=
  let b := if o.backend.isEmpty then "none" else "+".intercalate (o.backend.map showCall)
  s!"backend={b} result={showResult o.result} buf={o.discards}.{o.handed} calls={showCalls o.authCalls}"

def S.config? (s : S) (needGet needPut needFm : Bool) : Option Config :=
  -- an authorizer that is not configured is never consulted by the operation at hand; a
  -- placeholder keeps `Config` total (the operation's own authorizer is required)
  let dummy : Authz := .any []
  match (if needGet then s.getA else some (s.getA.getD dummy)),
        (if needPut then s.putA else some (s.putA.getD dummy)),
        (if needFm then s.fmA else some (s.fmA.getD dummy)) with
  | some g, some p, some f => some ⟨g, p, f⟩
  | _, _, _ => none

def digests? : Nat → List String → Option (List Digest × List String)
  | 0, ws => some ([], ws)
  | k + 1, n :: b :: rest =>
    match nat? n, nat? b, digests? k rest with
    | some n, some b, some (ds, rest') => some (⟨n, b⟩ :: ds, rest')
    | _, _, _ => none
  | _ + 1, _ => none

def step (s : S) (line : String) : S × String :=
  match words line with
  | ["reset"] => ({}, "ok")
  | "leaf" :: id :: dflt :: rest =>
    match nat? id, verdict? dflt, pairs? rest with
    | some id, some d, some t =>
      if s.leaves.any (fun l => l.id == id) then (s, "bad-op")
      else ({ s with leaves := ⟨id, d, t⟩ :: s.leaves }, "ok")
    | _, _, _ => (s, "bad-op")
  | "auth" :: kind :: tree =>
    match parseTree s.leaves (tree.length + 1) tree with
    | some (a, []) =>
      match kind with
      | "get" => ({ s with getA := some a }, "ok")
      | "put" => ({ s with putA := some a }, "ok")
      | "fm" => ({ s with fmA := some a }, "ok")
      | _ => (s, "bad-op")
    | _ => (s, "bad-op")
  | ["get", n, b] =>
    match nat? n, nat? b, s.config? true false false with
    | some n, some b, some c => (s, showOutcome (run c (.get ⟨n, b⟩)))
    | _, _, _ => (s, "bad-op")
  | ["getc", n, b, n', b'] =>
    match nat? n, nat? b, nat? n', nat? b', s.config? true false false with
    | some n, some b, some n', some b', some c =>
      (s, showOutcome (run c (.getComposite ⟨n, b⟩ ⟨n', b'⟩)))
    | _, _, _, _, _ => (s, "bad-op")
  | ["put", n, b] =>
    match nat? n, nat? b, s.config? false true false with
    | some n, some b, some c => (s, showOutcome (run c (.put ⟨n, b⟩)))
    | _, _, _ => (s, "bad-op")
  | "fm" :: k :: rest =>
    match nat? k with
    | some k =>
      match digests? k rest, s.config? false false true with
      | some (ds, orderWs), some c =>
        match allNats? orderWs with
        | some order =>
          let op := Op.findMissing ds order
          if op.wellFormed then (s, showOutcome (run c op)) else (s, "bad-order")
        | none => (s, "bad-op")
      | _, _ => (s, "bad-op")
    | none => (s, "bad-op")
  | "authz" :: kind :: ns =>
    let a? := match kind with
      | "get" => s.getA
      | "put" => s.putA
      | "fm" => s.fmA
      | _ => none
    match a?, allNats? ns with
    | some a, some ns =>
      let vs := a.authorize ns
      let v := if vs.isEmpty then "-" else ",".intercalate (vs.map showVerdict)
      (s, s!"verdicts={v} calls={showCalls (a.calls ns)}")
    | _, _ => (s, "bad-op")
  | _ => (s, "bad-op")

def main : IO Unit := loop step {}
