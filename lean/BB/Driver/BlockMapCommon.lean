import BB.Driver.Util
import BB.Model.BlockMap
/-!
Line-protocol driver of the block-map model (shared by C05 and C08).

    init <imm|mut> <old> <cur> <new> <blockSize> <free>
    put <size>          -> ok <ticket> <relBlock> <off> | err <code>       (reserve space)
    fin <ticket>        -> ok <relBlock> <off> | err internal                (finalizer check)
    corrupt <ticket>    -> ok                                                 (integrity callback(false) for its block)
    hold <ticket> / badread <ticket>   -> ok   (reader kept open across other operations, then hits corruption)
    state               -> old=<n> total=<n> released=<n> pushes=<n> res=<bits>
-/
namespace BB.Driver.BlockMapCommon
open BB.Driver BB.BlockMap BB.Gen

structure S where
  cfg : Cfg := ⟨.mutable ⟨0⟩, 0, 0, 0⟩
  st : St := { free := 0 }
  tickets : List Ticket := []   -- newest first; ticket number = position from the end

def S.ticket? (s : S) (n : Nat) : Option Ticket :=
  if n < s.tickets.length then s.tickets[s.tickets.length - 1 - n]? else none

def showState (s : S) : String :=
  let bits := (List.range s.st.caps.length).map fun i => if resolvable s.st (s.st.released + i) then '1' else '0'
  s!"old={s.st.old} total={s.st.caps.length} released={s.st.released} pushes={s.st.pushes} res={String.ofList bits}"

def step (s : S) (line : String) : S × String :=
  match words line with
  | ["init", pol, o, c, n, bs, fr] =>
    match nat? o, nat? c, nat? n, nat? bs, nat? fr with
    | some o, some c, some n, some bs, some fr =>
      let policy? : Option Policy :=
        if pol == "imm" then some (.immutable ⟨(c + n : Nat)⟩)
        else if pol == "mut" then some (.mutable ⟨(c : Nat)⟩) else none
      match policy? with
      | some p =>
        let cfg : Cfg := ⟨p, bs, o, n⟩
        ({ cfg := cfg, st := init cfg [] fr }, "ok")
      | none => (s, "bad-op")
    | _, _, _, _, _ => (s, "bad-op")
  | ["put", z] =>
    match nat? z with
    | some z =>
      match put s.cfg 1000 z s.st with
      | .ok (t, st) =>
        -- the harness copies the data at once: the writer's pin is dropped immediately
        let st := unpin st t.blk
        ({ s with st := st, tickets := t :: s.tickets }, s!"ok {s.tickets.length} {t.blk - st.released} {t.off}")
      | .err e st => ({ s with st := st }, s!"err {e}")
      | .stuck => (s, "stuck")
      | .panic => (s, "panic")
    | none => (s, "bad-op")
  | ["putb", z, n] =>     -- a reservation during which a reader of ticket `n` detects corruption: the callback only
                          -- raises the quarantine counter (an atomic max), which commutes with the rest of `Put`
    match nat? z, (nat? n).bind s.ticket? with
    | some z, some tn =>
      match put s.cfg 1000 z s.st with
      | .ok (t, st) =>
        let during := st.pushes > s.st.pushes   -- a block was allocated: the detection came during the reservation
        let st := reportCorruption (unpin st t.blk) tn.blk
        -- the harness asks the finalizer for the location right after the reservation
        ({ s with st := st, tickets := t :: s.tickets },
         if !during || finalizeOk st t then s!"ok {s.tickets.length} {t.blk - st.released} {t.off}" else "err finalize-internal")
      | .err e st => ({ s with st := reportCorruption st tn.blk }, s!"err {e}")
      | .stuck => (s, "stuck")
      | .panic => (s, "panic")
    | _, _ => (s, "bad-op")
  | ["fin", n] =>
    match (nat? n).bind s.ticket? with
    | some t => (s, if finalizeOk s.st t then s!"ok {t.blk - s.st.released} {t.off}" else "err internal")
    | none => (s, "bad-op")
  | ["corrupt", n] =>
    match (nat? n).bind s.ticket? with
    | some t => ({ s with st := reportCorruption s.st t.blk }, "ok")
    | none => (s, "bad-op")
  | ["hold", n] =>        -- a reader is opened on the ticket's object and kept open
    match (nat? n).bind s.ticket? with
    | some t => ({ s with st := pin s.st t.blk }, "ok")
    | none => (s, "bad-op")
  | ["badread", n] =>     -- the held reader is consumed and detects corruption: callback(false), reader closed
    match (nat? n).bind s.ticket? with
    | some t => ({ s with st := unpin (reportCorruption s.st t.blk) t.blk }, "ok")
    | none => (s, "bad-op")
  | ["state"] => (s, showState s)
  | _ => (s, "bad-op")

end BB.Driver.BlockMapCommon
