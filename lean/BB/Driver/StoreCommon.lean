import BB.Driver.Util
import BB.Model.Store
/-!
Line-protocol driver of the store model (shared by C01, C04, C10 and the store-level parts of C05/C08).
See `step` for the commands; operations that span several lock regions are `*.begin` / `*.end` pairs
keyed by an operation number chosen by the harness.
-/
namespace BB.Driver.StoreCommon
open BB.Driver BB.Store BB.BlockMap BB.Index

structure OpRec where
  ticket : Option Ticket := none
  src : Option BB.Store.Loc := none
  foundKey : Option Nat := none
  parent : Option BB.Store.Loc := none

structure S where
  idxSlots : List ((Nat × Nat) × Nat) := []
  maxGet : Nat := 1
  maxPut : Nat := 1
  bmCfg : BlockMap.Cfg := ⟨.mutable ⟨0⟩, 0, 0, 0⟩
  st : BB.Store.St := { bm := { free := 0 } }
  ops : List (Nat × OpRec) := []

def S.cfg (s : S) : BB.Store.Cfg :=
  { idx := { slot := fun k a => match s.idxSlots.lookup (k, a) with
                                | some v => v
                                | none => 1000000000 + a
             maxGet := s.maxGet, maxPut := s.maxPut }
    bm := s.bmCfg, fuelGrow := 1000 }

def S.declared (s : S) (k : Nat) : Bool :=
  (List.range s.maxGet).all fun a => (s.idxSlots.lookup (k, a)).isSome

def S.op (s : S) (n : Nat) : OpRec := (s.ops.lookup n).getD {}
def S.setOp (s : S) (n : Nat) (r : OpRec) : S := { s with ops := (n, r) :: s.ops.filter (·.1 ≠ n) }
def S.dropOp (s : S) (n : Nat) : S := { s with ops := s.ops.filter (·.1 ≠ n) }

def showState (s : S) : String :=
  let b := s.st.bm
  let bits := (List.range b.caps.length).map fun i => if resolvable b (b.released + i) then '1' else '0'
  s!"old={b.old} total={b.caps.length} released={b.released} pushes={b.pushes} res={String.ofList bits}"

/-- Turn a `Begin` into a reply, remembering what `end` needs. -/
def handleBegin (s : S) (n : Nat) (foundKey : Option Nat) (b : Begin) : S × String :=
  match b with
  | .done r st => ({ s with st := st }, r)
  | .refresh t src st => (({ s with st := st }).setOp n { ticket := some t, src := some src, foundKey := foundKey }, "refresh")
  | .broken => (s, "model-broken")

def parseSlices : List Nat → Option (List (Nat × Nat × Nat))
  | [] => some []
  | k :: o :: z :: rest => (parseSlices rest).map ((k, o, z) :: ·)
  | _ => none

def step (s : S) (line : String) : S × String :=
  let c := s.cfg
  match words line with
  | ["init", pol, o, cu, n, bs, fr, g, p] =>
    match nat? o, nat? cu, nat? n, nat? bs, nat? fr, nat? g, nat? p with
    | some o, some cu, some n, some bs, some fr, some g, some p =>
      let policy? : Option Policy :=
        if pol == "imm" then some (.immutable ⟨(cu + n : Nat)⟩)
        else if pol == "mut" then some (.mutable ⟨(cu : Nat)⟩) else none
      match policy? with
      | some pl =>
        let bc : BlockMap.Cfg := ⟨pl, bs, o, n⟩
        ({ maxGet := g, maxPut := p, bmCfg := bc, st := { bm := BlockMap.init bc [] fr } }, "ok")
      | none => (s, "bad-op")
    | _, _, _, _, _, _, _ => (s, "bad-op")
  | ["slot", k, a, v] =>
    match nat? k, nat? a, nat? v with
    | some k, some a, some v => ({ s with idxSlots := ((k, a), v) :: s.idxSlots }, "ok")
    | _, _, _ => (s, "bad-op")
  | ["state"] => (s, showState s)
  | ["corrupt", k] =>            -- integrity callback(false) for the current location of key k
    match (nat? k).bind (lookup c s.st) with
    | some l => ({ s with st := reportBad s.st l }, "ok")
    | none => (s, "bad-op")
  | "hcorrupt" :: lks =>          -- integrity callback(false) for what a hierarchical read of these lookup keys serves now
    match allNats? lks with
    | some lks =>
      match leastSpecific c s.st lks with
      | some (_, l) => ({ s with st := reportBad s.st l }, "ok")
      | none => (s, "bad-op")
    | none => (s, "bad-op")
  | "write" :: n :: at_ :: rest =>  -- write <op> <at> <byte>...
    match nat? n, nat? at_, allNats? rest with
    | some n, some at_, some bytes =>
      match (s.op n).ticket with
      | some t => ({ s with st := writeAt s.st t at_ bytes }, "ok")
      | none => (s, "bad-op")
    | _, _, _ => (s, "bad-op")
  | ["abort", n] =>               -- a refresh whose copy failed: reader and writer are released, nothing is published
    match nat? n with
    | some n =>
      match (s.op n).ticket, (s.op n).src with
      | some t, some src => (({ s with st := refreshDone s.st t src }).dropOp n, "ok")
      | _, _ => (s, "bad-op")
    | none => (s, "bad-op")
  | ["corrupt-op", n] =>          -- integrity callback(false) for the source location of a refresh in progress
    match nat? n with
    | some n =>
      match (s.op n).src with
      | some src => ({ s with st := reportBad s.st src }, "ok")
      | none => (s, "bad-op")
    | none => (s, "bad-op")
  | ["copy", n] =>
    match nat? n with
    | some n =>
      match (s.op n).ticket, (s.op n).src with
      | some t, some src => ({ s with st := copyLoc s.st t src }, "ok")
      | _, _ => (s, "bad-op")
    | none => (s, "bad-op")
  -- ---------------- flat
  | ["fput.begin", n, z] =>
    match nat? n, nat? z with
    | some n, some z =>
      match flatPutBegin c s.st z with
      | .ok t st => (({ s with st := st }).setOp n { ticket := some t }, "ok")
      | .err e st => ({ s with st := st }, s!"err {e}")
      | .broken => (s, "model-broken")
    | _, _ => (s, "bad-op")
  | ["fput.end", n, k, cp] =>
    match nat? n, nat? k, nat? cp with
    | some n, some k, some cp =>
      if !s.declared k then (s, "bad-op") else
      match (s.op n).ticket with
      | some t =>
        let (r, st) := flatPutEnd c s.st t k (cp != 0)
        (({ s with st := st }).dropOp n, r)
      | none => (s, "bad-op")
    | _, _, _ => (s, "bad-op")
  | ["fget.begin", n, k] =>
    match nat? n, nat? k with
    | some n, some k => if !s.declared k then (s, "bad-op") else handleBegin s n none (flatGetBegin c s.st k)
    | _, _ => (s, "bad-op")
  | ["fget.end", n, k] =>
    match nat? n, nat? k with
    | some n, some k =>
      match (s.op n).ticket, (s.op n).src with
      | some t, some src =>
        match flatRefreshEnd c s.st t src k with
        | (st, true) => (({ s with st := st }).dropOp n, s!"data {showBytes (readLoc st src)}")
        | (st, false) => (({ s with st := st }).dropOp n, "err internal")
      | _, _ => (s, "bad-op")
    | _, _ => (s, "bad-op")
  | ["fscan", k] =>               -- first scan of FindMissing: pure classification
    match nat? k with
    | some k =>
      if !s.declared k then (s, "bad-op") else
      match lookup c s.st k with
      | none => (s, "missing")
      | some l => (s, if locNeedsRefresh s.st l then "old" else "fresh")
    | none => (s, "bad-op")
  | "hscan" :: ck :: lks =>
    match nat? ck, allNats? lks with
    | some ck, some lks =>
      if !s.declared ck || !(lks.all s.declared) then (s, "bad-op") else
      match leastSpecific c s.st lks with
      | none => (s, "missing")
      | some (_, l) => (s, if locNeedsRefresh s.st l then "old" else "fresh")
    | _, _ => (s, "bad-op")
  | ["ffm.begin", n, k] =>
    match nat? n, nat? k with
    | some n, some k => if !s.declared k then (s, "bad-op") else handleBegin s n none (flatFindMissingBegin c s.st k)
    | _, _ => (s, "bad-op")
  | ["ffm.end", n, k] =>
    match nat? n, nat? k with
    | some n, some k =>
      match (s.op n).ticket, (s.op n).src with
      | some t, some src =>
        match flatRefreshEnd c s.st t src k with
        | (st, true) => (({ s with st := st }).dropOp n, "present")
        | (st, false) => (({ s with st := st }).dropOp n, "err internal")
      | _, _ => (s, "bad-op")
    | _, _ => (s, "bad-op")
  | ["fcomp.begin", n, pk, ck] =>
    match nat? n, nat? pk, nat? ck with
    | some n, some pk, some ck =>
      if !s.declared pk || !s.declared ck then (s, "bad-op") else
      match flatCompositeBegin c s.st pk ck with
      | .done r st => ({ s with st := st }, r)
      | .slice pl t st =>
        (({ s with st := st }).setOp n { ticket := t, parent := some pl },
          s!"slice {if t.isSome then "refresh" else "plain"} {showBytes (readLoc st pl)}")
      | .broken => (s, "model-broken")
    | _, _, _ => (s, "bad-op")
  | "fcomp.end" :: n :: pk :: rest =>
    match nat? n, nat? pk, (allNats? rest).bind parseSlices with
    | some n, some pk, some slices =>
      if !(slices.all fun (k, _, _) => s.declared k) then (s, "bad-op") else
      match (s.op n).parent with
      | some pl =>
        let st0 := match (s.op n).ticket with
          | some t => copyLoc s.st t pl
          | none => s.st
        let (r, st) := flatCompositeEnd c st0 pk pl (s.op n).ticket slices
        (({ s with st := st }).dropOp n, r)
      | none => (s, "bad-op")
    | _, _, _ => (s, "bad-op")
  -- ---------------- hierarchical
  | ["hput.begin", n, ck, z] =>
    match nat? n, nat? ck, nat? z with
    | some n, some ck, some z =>
      if !s.declared ck then (s, "bad-op") else
      match hierPutBegin c s.st ck z with
      | .dedup st => ({ s with st := st }, "dedup")
      | .alloc (.ok t st) => (({ s with st := st }).setOp n { ticket := some t }, "ok")
      | .alloc (.err e st) => ({ s with st := st }, s!"err {e}")
      | .alloc .broken => (s, "model-broken")
    | _, _, _ => (s, "bad-op")
  | ["hput.end", n, ck, lk, cp] =>
    match nat? n, nat? ck, nat? lk, nat? cp with
    | some n, some ck, some lk, some cp =>
      if !s.declared ck || !s.declared lk then (s, "bad-op") else
      match (s.op n).ticket with
      | some t =>
        let (r, st) := hierPutEnd c s.st t ck lk (cp != 0)
        (({ s with st := st }).dropOp n, r)
      | none =>
        let (r, st) := hierPutDedupEnd c s.st ck lk (cp != 0)
        ({ s with st := st }, r)
    | _, _, _, _ => (s, "bad-op")
  | "hget.begin" :: n :: ck :: lks =>
    match nat? n, nat? ck, allNats? lks with
    | some n, some ck, some lks =>
      if !s.declared ck || !(lks.all s.declared) then (s, "bad-op") else
      handleBegin s n (hierFoundKey c s.st lks) (hierGetBegin c s.st lks ck)
    | _, _, _ => (s, "bad-op")
  | ["hget.end", n, ck] =>
    match nat? n, nat? ck with
    | some n, some ck =>
      match (s.op n).ticket, (s.op n).src, (s.op n).foundKey with
      | some t, some src, some lk =>
        match hierRefreshEnd c s.st t src ck lk with
        | (st, true) => (({ s with st := st }).dropOp n, s!"data {showBytes (readLoc st src)}")
        | (st, false) => (({ s with st := st }).dropOp n, "err internal")
      | _, _, _ => (s, "bad-op")
    | _, _ => (s, "bad-op")
  | "hfm.begin" :: n :: ck :: lks =>
    match nat? n, nat? ck, allNats? lks with
    | some n, some ck, some lks =>
      if !s.declared ck || !(lks.all s.declared) then (s, "bad-op") else
      handleBegin s n (hierFoundKey c s.st lks) (hierFindMissingBegin c s.st lks ck)
    | _, _, _ => (s, "bad-op")
  | ["hfm.end", n, ck] =>
    match nat? n, nat? ck with
    | some n, some ck =>
      match (s.op n).ticket, (s.op n).src, (s.op n).foundKey with
      | some t, some src, some lk =>
        match hierRefreshEnd c s.st t src ck lk with
        | (st, true) => (({ s with st := st }).dropOp n, "present")
        | (st, false) => (({ s with st := st }).dropOp n, "err internal")
      | _, _, _ => (s, "bad-op")
    | _, _ => (s, "bad-op")
  | _ => (s, "bad-op")

end BB.Driver.StoreCommon
