import BB.Driver.Both
def main : IO Unit := BB.Driver.loop BB.Driver.Both.step {}
