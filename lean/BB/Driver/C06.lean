import BB.Driver.Util
import BB.Model.Index
import BB.Model.RecordCodec
/-!
Line-protocol driver of the C06 index model.

    init <maxGet> <maxPut>          reset
    slot <key> <attempt> <slot>     declare the real slot of (key, attempt)
    push | pop                      block list grows / releases its oldest block
    put <key> <relBlock> <off> <size>   -> outcome label
    get <key>                       -> none | <relBlock> <off> <size>
    dump <slots>                    -> live records by slot
-/
open BB.Driver BB.Index BB.Gen

def toU8s (bs : List Nat) : List UInt8 := bs.map UInt8.ofNat
def ofU8s (bs : List UInt8) : List Nat := bs.map UInt8.toNat

structure S where
  maxGet : Nat := 1
  maxPut : Nat := 1
  slots : List ((Nat × Nat) × Nat) := []
  thr : Nat := 0      -- blocks released so far
  blocks : Nat := 0   -- blocks currently in the list
  tab : Tab := Tab.empty

def S.cfg (s : S) : Cfg :=
  { slot := fun k a => match s.slots.lookup (k, a) with
      | some v => v
      | none => 1000000000 + a   -- never reached: `declared` is checked first
    maxGet := s.maxGet, maxPut := s.maxPut }

def S.declared (s : S) (k : Nat) : Bool :=
  (List.range s.maxGet).all fun a => (s.slots.lookup (k, a)).isSome

def showLoc (s : S) (l : Loc) : String :=
  s!"{l.blockIndex - s.thr} {l.offsetBytes} {l.sizeBytes}"

def step (s : S) (line : String) : S × String :=
  match words line with
  | ["init", g, p] =>
    match nat? g, nat? p with
    | some g, some p => ({ maxGet := g, maxPut := p }, "ok")
    | _, _ => (s, "bad-op")
  | ["slot", k, a, v] =>
    match nat? k, nat? a, nat? v with
    | some k, some a, some v => ({ s with slots := ((k, a), v) :: s.slots }, "ok")
    | _, _, _ => (s, "bad-op")
  | ["push"] => ({ s with blocks := s.blocks + 1 }, "ok")
  | ["pop"] =>
    if s.blocks = 0 then (s, "bad-op") else ({ s with blocks := s.blocks - 1, thr := s.thr + 1 }, "ok")
  | ["put", k, b, o, z] =>
    match nat? k, nat? b, nat? o, nat? z with
    | some k, some b, some o, some z =>
      if !s.declared k || b ≥ s.blocks then (s, "bad-op") else
      let l : Loc := ⟨(s.thr + b : Nat), o, z⟩
      let (t', out) := put s.cfg s.thr s.tab k l
      ({ s with tab := t' }, out.label)
    | _, _, _, _ => (s, "bad-op")
  | ["putf", k, b, _, _] =>      -- a store whose first record read fails: the I/O error is returned, nothing changes
    match nat? k, nat? b with
    | some k, some b => if !s.declared k || b ≥ s.blocks then (s, "bad-op") else (s, "error:Internal")
    | _, _ => (s, "bad-op")
  | ["get", k] =>
    match nat? k with
    | some k =>
      if !s.declared k then (s, "bad-op") else
      match get s.cfg s.thr s.tab k with
      | some l => (s, showLoc s l)
      | none => (s, "none")
    | none => (s, "bad-op")
  | ["dump", n] =>
    match nat? n with
    | some n =>
      let parts := (List.range n).filterMap fun i =>
        match live s.thr (s.tab i) with
        | some r => some s!"{i}:{r.key}.{r.att}.{showLoc s r.loc}"
        | none => none
      (s, if parts.isEmpty then "empty" else " ".intercalate parts)
    | none => (s, "bad-op")
  | ["enc", seed, e, b, key, a, o, z] =>   -- serialise a record (on-disk record array)
    match nat? seed, nat? e, nat? b, hexBytes? key, nat? a, nat? o, nat? z with
    | some seed, some e, some b, some key, some a, some o, some z =>
      (s, bytesHex (ofU8s (BB.RecordCodec.encode (UInt64.ofNat seed) ⟨e, b, toU8s key, a, o, z⟩)))
    | _, _, _, _, _, _, _ => (s, "bad-op")
  | "dec" :: bytes :: rest =>              -- dec <hex> [<epoch> <bfl> <idx> <seed>]: the resolver knows exactly that reference
    match hexBytes? bytes, allNats? rest with
    | some bytes, some r =>
      let resolve : Nat → Nat → Option (Nat × UInt64) := fun e b =>
        match r with
        | [e', b', idx, seed] => if e = e' ∧ b = b' then some (idx, UInt64.ofNat seed) else none
        | _ => none
      match BB.RecordCodec.decode resolve (toU8s bytes) with
      | some (rc, idx) => (s, s!"{rc.epoch} {rc.blocksFromLast} {bytesHex (ofU8s rc.key)} {rc.attempt} {rc.off} {rc.size} {idx}")
      | none => (s, "invalid")
    | _, _ => (s, "bad-op")
  | _ => (s, "bad-op")

def main : IO Unit := loop step {}
