import BB.Driver.PersistCommon
/-! Driver of property C03: the persistence model (`BB.Persist`), see `BB.Driver.PersistCommon`. -/
def main : IO Unit := BB.Driver.loop BB.Driver.PersistCommon.step2 ({}, none)
