import BB.Driver.Util
import BB.Model.Digest
/-!
Line-protocol driver of the C20 model (`BB.Digest`).  Every Go string / byte slice travels as
lower-case hex (`-` = empty); a digest is its packed string (`Digest.String()`).

    inst <s>                         NewInstanceName                 -> ok <s> | err <label>
    instc <c>*                       NewInstanceNameFromComponents   -> ok <s> | err <label> | panic
    comps <s>                        strings.FieldsFunc(s, '/') (GetComponents) -> <c>* | empty
    pjoin <s>*                       path.Join                       -> <s>
  a digest is given by four words  D = <inst> <enum> <hash> <size>  (NewInstanceName,
  GetDigestFunction(enum, 0), NewDigest); a construction error is the reply of every D-operation
    mk D                             -> ok <d> | err <label>
    acc D                            -> ok <enum> <hash> <size> <inst>   (the getters)
    rtread D <compressor>            -> <d> <path> => ok <d'> <compressor'> | err <label>
    rtwrite D <uuid> <compressor>    -> <d> <path> => ...
    read <path> / write <path>       NewDigestFromByteStream{Read,Write}Path -> ok <d> <compressor> | err <label>
    rtproto D                        -> <d> <hash> <size> => ok <d'> | err   (d.GetDigestFunction().NewDigestFromProto(d.GetProto()))
    fromproto <inst> <enum> <hash> <size> / fromproto-nil <inst> <enum>
    key D <0|1>                      GetKey(KeyWithoutInstance|KeyWithInstance) -> <key>
    anc D                            GetDigestsWithParentInstanceNames -> <d>*
    rtcbin D                         -> <d> <bytes> => ok <d'> | err   (d.GetInstanceName().NewDigestFromCompactBinary(d.GetCompactBinary()))
    fromcbin <inst> <bytes>          NewDigestFromCompactBinary      -> ok <d> | err <label>
    gdf <inst> <enum> <fallback>     InstanceName.GetDigestFunction(enum, fallback), any int32 enum -> ok <enumValue> | err <label>
    mkf <inst> <enum> <hash> <size>  GetDigestFunction(enum, len(hash)) + NewDigestFromProto (CAS/AC servers) -> ok <d> | err <label>
    combine <a> <b>                  KeyFormat(a).Combine(KeyFormat(b))  -> <format>
    build <d>*                       SetBuilder.Add* / Build         -> <d>* | empty
    union <d>* (| <d>*)*             GetUnion                        -> <d>* | empty
    dai <d>* | <d>*                  GetDifferenceAndIntersection    -> onlyA | both | onlyB
    rmempty <d>*                     RemoveEmptyBlob                 -> <d>* | empty
    part <d>*                        PartitionByInstanceName         -> <d>* (| <d>*)* | empty
    sx <d>* (| <d>*)* :: <instr> (; <instr>)*   a program over a register file of sets: the base sets are
                                     registers 0.., every instruction appends its results as new registers
                                     (`same i`, `part i`, `rme i`, `dai i j`, `uni i j ...`), so that later
                                     instructions run on *derived* sets (sub-slices, aliases, results of
                                     fast paths of the real code)  -> all registers, `|`-separated

Set arguments of union/dai/rmempty/part must be sorted and duplicate free (they are values of
type `Set`); anything else is `bad-op`.
-/
open BB.Driver BB.Digest

def str? (w : String) : Option Str := (hexBytes? w).map fun bs => bs.map Char.ofNat
def hexOfStr (s : Str) : String := bytesHex (s.map Char.toNat)

def showList (l : List Str) : String :=
  if l.isEmpty then "empty" else " ".intercalate (l.map hexOfStr)

def showRes : Except Err Str → String
  | .ok d => "ok " ++ hexOfStr d
  | .error .panic => "panic"
  | .error e => "err " ++ e.label

def showResC : Except Err (Str × Nat) → String
  | .ok (d, c) => s!"ok {hexOfStr d} {c}"
  | .error .panic => "panic"
  | .error e => "err " ++ e.label

/-- Split a word list at "|" tokens. -/
def splitBar (ws : List String) : List (List String) :=
  let rec go : List String → List String → List (List String) → List (List String)
    | [], cur, acc => (cur.reverse :: acc).reverse
    | w :: rest, cur, acc => if w == "|" then go rest [] (cur.reverse :: acc) else go rest (w :: cur) acc
  go ws [] []

def isSortedSet : List Str → Bool
  | a :: b :: rest => strLt a b && isSortedSet (b :: rest)
  | _ => true

def set? (ws : List String) : Option (List Str) :=
  match ws.mapM str? with
  | some l => if isSortedSet l then some l else none
  | none => none

def opt {α : Type} (f : α → String) : Option α → String
  | some a => f a
  | none => "panic"

/-- `NewInstanceName` + `GetDigestFunction(e, 0)` + `NewDigest`. -/
def mk (i : Str) (e : Nat) (h : Str) (z : Int) : Except Err Str :=
  match newInstanceName i with
  | .error err => .error err
  | .ok i => mkDigest i e h z

def dig? (i e h z : String) : Option (Except Err Str) :=
  match str? i, nat? e, str? h, int? z with
  | some i, some e, some h, some z => some (mk i e h z)
  | _, _, _, _ => none

/-- Run `f` on the digest described by four words; construction errors are the reply. -/
def withDigest (i e h z : String) (f : Str → String) : String :=
  match dig? i e h z with
  | none => "bad-op"
  | some (.error err) => showRes (.error err)
  | some (.ok d) => f d

/-- Split a word list at a separator token. -/
def splitAt (sep : String) (ws : List String) : List (List String) :=
  let rec go : List String → List String → List (List String) → List (List String)
    | [], cur, acc => (cur.reverse :: acc).reverse
    | w :: rest, cur, acc => if w == sep then go rest [] (cur.reverse :: acc) else go rest (w :: cur) acc
  go ws [] []

/-- One instruction of a set program: it reads registers and appends its results as new
registers.  `none` = malformed instruction. -/
def sxInstr (regs : List (List Str)) : List String → Option (List (List Str))
  | ["same", i] => do let i ← nat? i; let a ← regs[i]?; pure (regs ++ [a])
  | ["part", i] => do let i ← nat? i; let a ← regs[i]?; pure (regs ++ partitionByInstanceName a)
  | ["rme", i] => do let i ← nat? i; let a ← regs[i]?; pure (regs ++ [removeEmptyBlob a])
  | ["dai", i, j] => do
    let i ← nat? i; let j ← nat? j; let a ← regs[i]?; let b ← regs[j]?
    let r := differenceAndIntersection a b
    pure (regs ++ [r.1, r.2.1, r.2.2])
  | "uni" :: is => do
    let is ← is.mapM nat?
    let sets ← is.mapM fun i => regs[i]?
    pure (regs ++ [union sets])
  | _ => none

def sxRun (regs : List (List Str)) : List (List String) → Option (List (List Str))
  | [] => some regs
  | ins :: rest =>
    match sxInstr regs ins with
    | some regs' => sxRun regs' rest
    | none => none

def stepWords : List String → String
  | ["inst", s] =>
    match str? s with
    | some s => showRes (newInstanceName s)
    | none => "bad-op"
  | "instc" :: cs =>
    match cs.mapM str? with
    | some cs => showRes (instFromComponents cs)
    | none => "bad-op"
  | ["comps", s] =>
    match str? s with
    | some s => showList (fields s)
    | none => "bad-op"
  | "pjoin" :: es =>
    match es.mapM str? with
    | some es => hexOfStr (pathJoin es)
    | none => "bad-op"
  | ["mk", i, e, h, z] =>
    match dig? i e h z with
    | some r => showRes r
    | none => "bad-op"
  | ["acc", i, e, h, z] =>
    withDigest i e h z fun d =>
      match unpack d with
      | some u => s!"ok {u.fn} {hexOfStr (hashOf d u)} {u.size} {hexOfStr (instOf d u)}"
      | none => "panic"
  | ["read", p] =>
    match str? p with
    | some p => showResC (parseRead p)
    | none => "bad-op"
  | ["write", p] =>
    match str? p with
    | some p => showResC (parseWrite p)
    | none => "bad-op"
  | ["rtread", i, e, h, z, c] =>
    match nat? c with
    | none => "bad-op"
    | some c => withDigest i e h z fun d =>
      match readPath d c with
      | none => "panic"
      | some p => s!"{hexOfStr d} {hexOfStr p} => {showResC (parseRead p)}"
  | ["rtwrite", i, e, h, z, u, c] =>
    match str? u, nat? c with
    | some u, some c => withDigest i e h z fun d =>
      match writePath d u c with
      | none => "panic"
      | some p => s!"{hexOfStr d} {hexOfStr p} => {showResC (parseWrite p)}"
    | _, _ => "bad-op"
  | ["rtproto", i, e, h, z] =>
    withDigest i e h z fun d =>
      match getProto d, getDigestFunction d with
      | some (ph, pz), some (f, inst) =>
        s!"{hexOfStr d} {hexOfStr ph} {pz} => {showRes (newDigestFromProto f inst (some (ph, (pz : Int))))}"
      | _, _ => "panic"
  | ["fromproto", i, e, h, z] =>
    match str? i, nat? e, str? h, int? z with
    | some i, some e, some h, some z =>
      match newInstanceName i with
      | .error err => showRes (.error err)
      | .ok i =>
        match getBareFunction e 0 with
        | none => showRes (.error .unknownFunction)
        | some f => showRes (newDigestFromProto f i (some (h, z)))
    | _, _, _, _ => "bad-op"
  | ["fromproto-nil", i, e] =>
    match str? i, nat? e with
    | some i, some e =>
      match newInstanceName i with
      | .error err => showRes (.error err)
      | .ok i =>
        match getBareFunction e 0 with
        | none => showRes (.error .unknownFunction)
        | some f => showRes (newDigestFromProto f i none)
    | _, _ => "bad-op"
  | ["key", i, e, h, z, k] =>
    match nat? k with
    | some 0 => withDigest i e h z fun d => opt hexOfStr (getKey d false)
    | some 1 => withDigest i e h z fun d => opt hexOfStr (getKey d true)
    | _ => "bad-op"
  | ["anc", i, e, h, z] =>
    withDigest i e h z fun d => opt showList (ancestors d)
  | ["rtcbin", i, e, h, z] =>
    withDigest i e h z fun d =>
      match getCompactBinary d, getInstanceName d with
      | some bs, some inst => s!"{hexOfStr d} {bytesHex bs} => {showRes (newDigestFromCompactBinary inst bs)}"
      | _, _ => "panic"
  | ["fromcbin", i, bs] =>
    match str? i, hexBytes? bs with
    | some i, some bs =>
      match newInstanceName i with
      | .error err => showRes (.error err)
      | .ok i => showRes (newDigestFromCompactBinary i bs)
    | _, _ => "bad-op"
  | "build" :: ds =>
    match ds.mapM str? with
    | some ds => showList (build ds)
    | none => "bad-op"
  | "union" :: ws =>
    match (splitBar ws).mapM set? with
    | some sets => showList (union sets)
    | none => "bad-op"
  | "dai" :: ws =>
    match (splitBar ws).mapM set? with
    | some [a, b] =>
      let r := differenceAndIntersection a b
      s!"{showList r.1} | {showList r.2.1} | {showList r.2.2}"
    | _ => "bad-op"
  | "rmempty" :: ws =>
    match set? ws with
    | some s => showList (removeEmptyBlob s)
    | none => "bad-op"
  | "part" :: ws =>
    match set? ws with
    | some s =>
      let gs := partitionByInstanceName s
      if gs.isEmpty then "empty" else " | ".intercalate (gs.map showList)
    | none => "bad-op"
  | ["gdf", i, e, n] =>
    match str? i, int? e, nat? n with
    | some i, some e, some n =>
      match newInstanceName i with
      | .error err => showRes (.error err)
      | .ok _ =>
        match getDigestFunctionEnum e n with
        | .ok v => s!"ok {v}"
        | .error err => showRes (.error err)
    | _, _, _ => "bad-op"
  | ["mkf", i, e, h, z] =>
    match str? i, int? e, str? h, int? z with
    | some i, some e, some h, some z =>
      match newInstanceName i with
      | .error err => showRes (.error err)
      | .ok i => showRes (mkDigestWithFallback i e h z)
    | _, _, _, _ => "bad-op"
  | ["combine", a, b] =>
    match nat? a, nat? b with
    | some a, some b => s!"{combineKeyFormat a b}"
    | _, _ => "bad-op"
  | "sx" :: ws =>
    match splitAt "::" ws with
    | [base, prog] =>
      match (splitBar base).mapM set? with
      | none => "bad-op"
      | some regs =>
        match sxRun regs ((splitAt ";" prog).filter (fun i => !i.isEmpty)) with
        | some out => " | ".intercalate (out.map showList)
        | none => "bad-op"
    | _ => "bad-op"
  | _ => "bad-op"

def step (s : Unit) (line : String) : Unit × String := (s, stepWords (words line))

def main : IO Unit := loop step ()
