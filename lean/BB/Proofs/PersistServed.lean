import BB.Proofs.PersistServe
/-!
# Under the invariant every record that resolves is served with the bytes of its own key
-/
namespace BB.Persist

theorem curGet_cases (d : DataDev) (slot s : Nat) :
    d.curGet slot s = d.durGet slot s ∨ ∃ x ∈ d.pend, x.slot = slot ∧ x.sec = s ∧ d.curGet slot s = x.objs := by
  rw [DataDev.curGet_eq]
  cases hl : lastAt d.pend slot s with
  | none => exact Or.inl rfl
  | some x =>
    obtain ⟨A, B, hp, hx, _⟩ := lastAt_some hl
    refine Or.inr ⟨x, by rw [hp]; simp, ?_, ?_, rfl⟩
    · simp [SecW.at] at hx; exact hx.1
    · simp [SecW.at] at hx; exact hx.2

/-- `lookup` + `read` in a world satisfying the invariant: a record that the running block list
resolves (known epoch, matching seed, block still in the list) points at an intact object that was
written under the record's key, with the bytes some client uploaded for that key. -/
theorem served_of_inv {w : World} (h : Inv w) {slot i : Nat} {r : PRec}
    (hcur : w.idx.curGet slot = some r) (hres : w.resolve r = some i) :
    ∃ b o, w.pbl.blocks[i]? = some b ∧ w.readAt b.slot r.off r.size = some o ∧ o ∈ w.objs ∧
      o.key = r.key ∧ o.off = r.off ∧ o.size = r.size ∧ o.gid = b.gid ∧ (r.key, o.data) ∈ w.shadow ∧
      ∃ e, o.fin = some e ∧ e ≤ r.epoch := by
  have hr := mem_recsOf_of_curGet hcur
  obtain ⟨b, o, hb, ho, hg, hk, hoff, hsz, hc, e, hfin, hle⟩ := h.recs.res r hr i (resolve_some hres)
  have hbm : b ∈ w.pbl.blocks := List.mem_of_getElem? hb
  have hslot : o.slot = b.slot :=
    h.obj.slotOk o ho b (List.mem_append_left _ (List.mem_append_left _ hbm)) hg.symm
  have hpres := present_of_inv h ho hc hbm hg.symm
  refine ⟨b, ?_⟩
  unfold World.readAt
  cases hf : w.objs.find? (fun o => o.copied && o.slot == b.slot && o.off == r.off && o.size == r.size && w.presentCur o) with
  | none =>
    have := List.find?_eq_none.1 hf o ho
    simp [hc, hslot, hoff, hsz, hpres] at this
  | some o' =>
    have hp' := List.find?_some hf
    have ho' := List.mem_of_find?_eq_some hf
    simp only [Bool.and_eq_true, beq_iff_eq] at hp'
    obtain ⟨⟨⟨⟨hc', hslot'⟩, hoff'⟩, hsz'⟩, hpres'⟩ := hp'
    -- both objects are present in the first sector of the range: they are the same object
    have hs0 : o.off / w.cfg.ss ∈ secsOf w.cfg.ss o.off o.size := secsOf_nonempty h.cfg (h.obj.size o ho)
    have hs0' : o.off / w.cfg.ss ∈ secsOf w.cfg.ss o'.off o'.size := by
      rw [hoff', hsz', ← hoff, ← hsz]; exact hs0
    have hin : o.id ∈ w.data.curGet b.slot (o.off / w.cfg.ss) := by
      have := hpres
      unfold World.presentCur World.presentIn at this
      rw [List.all_eq_true] at this
      simpa [hslot] using this _ hs0
    have hin' : o'.id ∈ w.data.curGet b.slot (o.off / w.cfg.ss) := by
      have := hpres'
      unfold World.presentCur World.presentIn at this
      rw [List.all_eq_true] at this
      simpa [hslot'] using this _ hs0'
    have hL : w.data.curGet b.slot (o.off / w.cfg.ss) = w.data.durGet b.slot (o.off / w.cfg.ss) ∨
        ∃ x ∈ w.data.pend, x.slot = b.slot ∧ x.sec = o.off / w.cfg.ss ∧ w.data.curGet b.slot (o.off / w.cfg.ss) = x.objs :=
      curGet_cases _ _ _
    have hid : o'.id = o.id :=
      h.dev.content o' ho' o ho _ b.slot (o.off / w.cfg.ss) hL hin' hin hslot' hslot (by rw [hoff', hoff])
    have heq : o' = o := obj_eq_of_id h.obj.ids ho' ho hid
    subst heq
    exact ⟨o', hb, rfl, ho, hk, hoff, hsz, hg, by rw [← hk]; exact h.obj.shadow o' ho hc, e, hfin, hle⟩

end BB.Persist
