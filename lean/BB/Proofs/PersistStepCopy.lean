import BB.Proofs.PersistCopyDev2
/-!
# Invariant preservation: the copy phase (`copyCore`), dropping a block reference (`unpin`)
-/
namespace BB.Persist

theorem inv_copyCore {w w' : World} {o : Obj} {id d : Nat} (h : Inv w) (hc : w.copyCore id d = some (o, w'))
    (hsh : o.upload = true ∨ (o.key, d) ∈ w.shadow) :
    Inv w' ∧ o ∈ w.objs ∧ o.mine = true ∧ o.copied = false ∧ w'.pins = w.pins ∧ w'.zombies = w.zombies ∧ w'.free = w.free ∧
      w'.pbl = w.pbl := by
  unfold World.copyCore at hc
  cases hobj : w.obj? id with
  | none => simp [hobj] at hc
  | some o0 =>
    simp only [hobj] at hc
    split at hc
    · cases hc
    · rename_i hcond
      simp only [Bool.or_eq_true, Bool.not_eq_true', not_or, Bool.not_eq_true, Bool.not_eq_false] at hcond
      obtain ⟨hcop, hmine⟩ := hcond
      simp only [Option.some.injEq, Prod.mk.injEq] at hc
      obtain ⟨rfl, rfl⟩ := hc
      obtain ⟨ho, hid⟩ := obj?_some hobj
      have hg := setCopied_same id d
      have hisO : ∀ x ∈ w.objs, x.id = id → x = o0 := fun x hx hxid => obj_eq_of_id h.obj.ids hx ho (by rw [hxid, hid])
      have hmono : ∀ x ∈ w.objs, x.copied = true → setCopied id d x = x := by
        intro x hx hxc
        apply setCopied_other
        intro hxid
        rw [hisO x hx hxid, hcop] at hxc; cases hxc
      have hobj' : ObjInv w.cfg (w.objs.map (setCopied id d)) w.pbl w.zombies w.pins w.nextObj w.nextGid
          (if o0.upload then (o0.key, d) :: w.shadow else w.shadow) := by
        refine objInv_copy _ hg hmono ?_ h.obj
        intro x hx hxc
        by_cases hxid : x.id = id
        · have := hisO x hx hxid; subst this
          rw [setCopied_self hxid]
          simp only
          rcases hsh with hup | hin
          · simp [hup]
          · split
            · exact List.mem_cons_of_mem _ hin
            · exact hin
        · rw [setCopied_other hxid] at hxc ⊢
          have := h.obj.shadow x hx hxc
          split
          · exact List.mem_cons_of_mem _ this
          · exact this
      have hdev' := devInv_copy (o := o0) (d := d) h ho hid hcop hmine
      refine ⟨?_, ho, hmine, hcop, rfl, rfl, rfl, rfl⟩
      exact ⟨h.cfg, h.wfp, h.own, hobj', epochInv_copy _ hg h.epoch, hdev',
        recInv_copy _ hg hmono h.recs, fun f hf => fileInv_copy _ hg hmono (h.files f hf),
        fun s hs => fileInv_copy _ hg hmono (h.swFile s hs), h.sw⟩

end BB.Persist
