import BB.Proofs.StoreRegions
/-!
`Carries c k s s'`: from `s` to `s'` the store invariant is kept, the block map made (possibly many) steps,
and key `k` did not lose ground: if it resolved to `l` and `l`'s block is still above the quarantine
threshold, it still resolves, to a location that is not older. This is the store-level half of C05; the
other half (the block stays above the threshold for `desiredOld` further blocks) is `BlockMap`'s.
-/
namespace BB.Store
open BB.Gen BB.Index BB.BlockMap

theorem step_pin {cb : BlockMap.Cfg} {b : BlockMap.St} (h : WF cb b) (blk : Nat) : Step cb b (pin b blk) :=
  ⟨⟨h.len, h.rel, h.tbr, h.cap, h.idxLo, h.idxHi, h.idxRem, h.pol⟩, Nat.le_refl _, Nat.le_refl _, Nat.le_refl _, rfl,
    Nat.le_refl _, fun o => o, fun o => o, fun q => ⟨q, Nat.le_refl _, by simp [pin], by simp [pin]⟩⟩

theorem step_unpin {cb : BlockMap.Cfg} {b : BlockMap.St} (h : WF cb b) (blk : Nat) : Step cb b (unpin b blk) := by
  obtain ⟨e1, e2, e3, e4, e5, e6, e7, e8, e9⟩ := unpin_fields b blk
  refine ⟨wf_unpin h blk, by rw [e4]; exact Nat.le_refl _, by rw [e5]; exact Nat.le_refl _, by rw [e4, e6]; exact Nat.le_refl _, ?_,
    by rw [e9]; exact Nat.le_refl _, fun o => by rw [e1]; exact o, fun o => by rw [e4, e5]; exact o, ?_⟩
  · rw [e6]
    unfold unpin
    simp only []
    split
    · next hc =>
      simp only []
      have := List.length_erase_of_mem hc.2.2
      have : 0 < b.zombies.length := List.length_pos_of_mem hc.2.2
      omega
    · rfl
  · intro q
    refine ⟨⟨by rw [e4, e5]; exact q.1, by rw [e1]; exact q.2⟩, by rw [e1]; exact Nat.le_refl _, by rw [e4, e1, e9]; omega, fun hlt => ?_⟩
    rw [e4] at hlt; omega

theorem inTab_thr {thr thr' : Int} {t : Tab} {k : Nat} {l : Loc} (hi : InTab thr t k l) (hl : thr' ≤ l.blockIndex) :
    InTab thr' t k l := by
  obtain ⟨s, R, h1, _, h3, h4⟩ := hi
  exact ⟨s, R, h1, by rw [h4]; exact hl, h3, h4⟩

theorem lookup_of_inTab {c : Cfg} {s : St} (h : SInv c s) {k : Nat} {l0 : Loc} (hi : InTab s.thr s.tab k l0) :
    ∃ l', lookup c s k = some l' ∧ l'.isOlder l0 = false := by
  cases hg : lookup c s k with
  | none => exact absurd hi (get_best_none h.idx hg l0)
  | some l' => exact ⟨l', rfl, (get_best_some h.idx hg).2 l0 hi⟩

structure Carries (c : Cfg) (k : Nat) (s s' : St) : Prop where
  inv : SInv c s'
  step : Step c.bm s.bm s'.bm
  keep : ∀ l, lookup c s k = some l → s'.thr ≤ l.blockIndex →
    ∃ l', lookup c s' k = some l' ∧ l'.isOlder l = false

theorem Carries.refl {c : Cfg} {k : Nat} {s : St} (h : SInv c s) : Carries c k s s :=
  ⟨h, Step.refl h.wf, fun l hl _ => ⟨l, hl, older_irrefl l⟩⟩

theorem Carries.trans {c : Cfg} {k : Nat} {s s' s'' : St} (h1 : Carries c k s s') (h2 : Carries c k s' s'') :
    Carries c k s s'' := by
  refine ⟨h2.inv, h1.step.trans h2.step, ?_⟩
  intro l hl hthr
  have hthr' : s'.thr ≤ s''.thr := thr_le_of_tbr h2.step.tbrMono
  obtain ⟨l', hl', ho'⟩ := h1.keep l hl (Int.le_trans hthr' hthr)
  have hb := not_older_blk ho'
  obtain ⟨l'', hl'', ho''⟩ := h2.keep l' hl' (Int.le_trans hthr hb)
  exact ⟨l'', hl'', not_older_trans ho' ho''⟩

/-- The table is untouched. -/
theorem carries_same_tab {c : Cfg} {k : Nat} {s s' : St} (h' : SInv c s') (st : Step c.bm s.bm s'.bm)
    (ht : s'.tab = s.tab) : Carries c k s s' := by
  refine ⟨h', st, ?_⟩
  intro l hl hthr
  have hi := inTab_thr (lookup_inTab hl) hthr
  rw [← ht] at hi
  exact lookup_of_inTab h' hi

/-- What one index `Put` keeps of key `k`, when the outcome reports no discarded record of `k`. -/
theorem put_keep {ci : Index.Cfg} {thr : Int} {t : Tab} {q k : Nat} {l1 l0 : Loc} (hl : thr ≤ l1.blockIndex)
    (hnd : ∀ d, (Index.put ci thr t q l1).2.discarded = some d → d.key ≠ k) (hi : InTab thr t k l0) :
    ∃ l', InTab thr (Index.put ci thr t q l1).1 k l' ∧ l'.isOlder l0 = false := by
  have hk := putAux_keeps ci thr ci.maxPut t ⟨q, 0, l1⟩ hl
  change Keeps thr t (Index.put ci thr t q l1).1 ⟨q, 0, l1⟩ (Index.put ci thr t q l1).2 at hk
  rcases hk.complete k l0 (Or.inl hi) with h | ⟨d, hd, hdk, _⟩
  · exact h
  · exact absurd hdk (hnd d hd)

/-- The records the index reports as discarded while a location is registered under several keys. -/
def putKeysDisc (ci : Index.Cfg) (thr : Int) : TabBox → List Nat → Loc → List Rec
  | _, [], _ => []
  | b, q :: qs, l =>
    (match (Index.put ci thr b.t q l).2.discarded with | some d => [d] | none => []) ++
      putKeysDisc ci thr ⟨(Index.put ci thr b.t q l).1⟩ qs l

theorem putKeys_keep (ci : Index.Cfg) (thr : Int) (l1 : Loc) (hl : thr ≤ l1.blockIndex) (k : Nat) :
    ∀ (keys : List Nat) (b : TabBox) (l0 : Loc), (∀ d, d ∈ putKeysDisc ci thr b keys l1 → d.key ≠ k) →
    InTab thr b.t k l0 → ∃ l', InTab thr (putKeys ci thr b keys l1).t k l' ∧ l'.isOlder l0 = false := by
  intro keys
  induction keys with
  | nil => intro b l0 _ hi; exact ⟨l0, hi, older_irrefl l0⟩
  | cons q qs ih =>
    intro b l0 hnd hi
    unfold putKeys
    have h1 : ∀ d, (Index.put ci thr b.t q l1).2.discarded = some d → d.key ≠ k := by
      intro d hd
      apply hnd d
      unfold putKeysDisc
      rw [hd]; simp
    obtain ⟨l', hi', ho'⟩ := put_keep hl h1 hi
    have h2 : ∀ d, d ∈ putKeysDisc ci thr ⟨(Index.put ci thr b.t q l1).1⟩ qs l1 → d.key ≠ k := by
      intro d hd
      apply hnd d
      unfold putKeysDisc
      exact List.mem_append_right _ hd
    obtain ⟨l'', hi'', ho''⟩ := ih ⟨(Index.put ci thr b.t q l1).1⟩ l' h2 hi'
    exact ⟨l'', hi'', not_older_trans ho' ho''⟩

theorem carries_indexPut {c : Cfg} {k : Nat} {s : St} (h : SInv c s) (q : Nat) (l1 : Loc) (hl : s.thr ≤ l1.blockIndex)
    (hnd : ∀ d, (Index.put c.idx s.thr s.tab q l1).2.discarded = some d → d.key ≠ k) :
    Carries c k s (indexPut c s q l1) := by
  have sp := indexPut_spec h q l1 hl
  refine ⟨sp.1, by rw [sp.2.1]; exact Step.refl h.wf, ?_⟩
  intro l hlk hthr
  obtain ⟨l', hi', ho'⟩ := put_keep hl hnd (lookup_inTab hlk)
  obtain ⟨l'', hl'', ho''⟩ := lookup_of_inTab sp.1 (k := k) (l0 := l') hi'
  exact ⟨l'', hl'', not_older_trans ho' ho''⟩

theorem carries_finalize {c : Cfg} {k : Nat} {s s' : St} (h : SInv c s) (t : Ticket) (keys : List Nat)
    (e : finalize c s t keys = some s')
    (hnd : ∀ d, d ∈ putKeysDisc c.idx s.thr ⟨s.tab⟩ keys (mkLoc t.blk t.off t.size) → d.key ≠ k) :
    Carries c k s s' := by
  have sp := finalize_spec h t keys
  rw [e] at sp
  obtain ⟨hinv, hbm, _, hle, _⟩ := sp
  refine ⟨hinv, by rw [hbm]; exact Step.refl h.wf, ?_⟩
  intro l hlk hthr
  unfold finalize at e
  by_cases hf : finalizeOk s.bm t = true
  · simp only [hf, if_true, Option.some.injEq] at e
    subst e
    have hl : s.thr ≤ (mkLoc t.blk t.off t.size).blockIndex := by simp [St.thr, mkLoc]; omega
    obtain ⟨l', hi', ho'⟩ := putKeys_keep c.idx s.thr _ hl k keys ⟨s.tab⟩ l hnd (lookup_inTab hlk)
    obtain ⟨l'', hl'', ho''⟩ := lookup_of_inTab hinv (k := k) (l0 := l') hi'
    exact ⟨l'', hl'', not_older_trans ho' ho''⟩
  · simp [hf] at e

/-- The primitive steps every store operation of the model is composed of; `k` is the key whose fate is followed,
the side conditions say that the index reported no discarded record of `k`. -/
inductive PStep (c : Cfg) (k : Nat) : St → St → Prop
  | allocOk {s s' : St} {size : Nat} {t : Ticket} : allocate c s size = .ok t s' → PStep c k s s'
  | allocErr {s s' : St} {size : Nat} {e : String} : allocate c s size = .err e s' → PStep c k s s'
  | finalize {s s' : St} {t : Ticket} {keys : List Nat} : finalize c s t keys = some s' →
      (∀ d, d ∈ putKeysDisc c.idx s.thr ⟨s.tab⟩ keys (mkLoc t.blk t.off t.size) → d.key ≠ k) → PStep c k s s'
  | indexPut {s : St} {q : Nat} {l : Loc} : s.thr ≤ l.blockIndex →
      (∀ d, (Index.put c.idx s.thr s.tab q l).2.discarded = some d → d.key ≠ k) → PStep c k s (indexPut c s q l)
  | pin {s : St} {blk : Nat} : PStep c k s { s with bm := pin s.bm blk }
  | unpin {s : St} {blk : Nat} : PStep c k s { s with bm := unpin s.bm blk }
  | write {s : St} {t : Ticket} {a : Nat} {bs : List Nat} : PStep c k s (writeAt s t a bs)

theorem carries_pstep {c : Cfg} {k : Nat} {s s' : St} (h : SInv c s) (p : PStep c k s s') : Carries c k s s' := by
  cases p with
  | @allocOk _ size _ e =>
    have sp := allocate_spec h size
    rw [e] at sp
    exact carries_same_tab sp.1 sp.2.2.2.2.1 sp.2.1
  | @allocErr _ size _ e =>
    have sp := allocate_spec h size
    rw [e] at sp
    exact carries_same_tab sp.1 sp.2.2.2.2 sp.2.1
  | finalize e hnd => exact carries_finalize h _ _ e hnd
  | indexPut hl hnd => exact carries_indexPut h _ _ hl hnd
  | pin => exact carries_same_tab (sinv_pin h _) (step_pin h.wf _) rfl
  | unpin => exact carries_same_tab (sinv_unpin h _) (step_unpin h.wf _) rfl
  | write => exact carries_same_tab (sinv_write h _ _ _) (Step.refl h.wf) rfl

/-- Histories of primitive steps. -/
inductive PReach (c : Cfg) (k : Nat) : St → St → Prop
  | nil {s : St} : PReach c k s s
  | cons {s s' s'' : St} : PStep c k s s' → PReach c k s' s'' → PReach c k s s''

theorem carries_reach {c : Cfg} {k : Nat} {s s' : St} (h : SInv c s) (r : PReach c k s s') : Carries c k s s' := by
  induction r with
  | nil => exact Carries.refl h
  | cons p _ ih =>
    have c1 := carries_pstep h p
    exact c1.trans (ih c1.inv)

end BB.Store
