import BB.Proofs.PersistCrash6
import BB.Model.PersistStore
import BB.Proofs.Store
/-!
# From the executable store (hash index + block map over the world) to steps of the world

`hashingKeyLocationMap.Put` writes records only for the location it was given and for locations it
read back from records that resolved; so every record write of `Full.indexPut` is a guarded
`Step.recWrite`.
-/
namespace BB.Persist
open BB.Index

/-- Several steps. -/
inductive Steps : World → World → Prop
  | refl (w : World) : Steps w w
  | tail {a b c : World} : Steps a b → Step b c → Steps a c

theorem Steps.trans {a b c : World} (h1 : Steps a b) (h2 : Steps b c) : Steps a c := by
  induction h2 with
  | refl => exact h1
  | tail _ hs ih => exact Steps.tail ih hs

theorem Steps.single {a b : World} (h : Step a b) : Steps a b := Steps.tail (Steps.refl a) h

theorem reach_steps {c : Cfg} {w w' : World} (hr : Reach c w) (hs : Steps w w') : Reach c w' := by
  induction hs with
  | refl => exact hr
  | tail _ hs ih => exact Reach.step ih hs

theorem inv_steps {w w' : World} (h : Inv w) (hs : Steps w w') : Inv w' := by
  induction hs with
  | refl => exact h
  | tail _ hs ih => exact inv_step ih hs

/-- The location of the record is that of a finalized object in a block of the list. -/
def Guard (w : World) (x : Index.Rec) : Prop :=
  ∃ o b, o ∈ w.objs ∧ o.key = x.key ∧ o.off = BB.Store.locOff x.loc ∧ o.size = BB.Store.locSize x.loc ∧ o.fin.isSome ∧
    w.pbl.released ≤ BB.Store.locBlk x.loc ∧ w.pbl.blocks[BB.Store.locBlk x.loc - w.pbl.released]? = some b ∧ b.gid = o.gid

/-- Every record `Put` writes carries the key and location of the record it was given or of a live
record of the table. -/
theorem putWrites_closed (c : Index.Cfg) (thr : Int) (Q : Nat → BB.Store.Loc → Prop) :
    ∀ (fuel : Nat) (t : Index.Tab) (r : Index.Rec), Q r.key r.loc →
    (∀ s R, Index.live thr (t s) = some R → Q R.key R.loc) →
    ∀ p ∈ Full.putWrites c thr fuel t r, Q p.2.key p.2.loc := by
  intro fuel
  induction fuel with
  | zero => intro t r _ _ p hp; simp [Full.putWrites] at hp
  | succ fuel ih =>
    intro t r hr ht p hp
    unfold Full.putWrites at hp
    simp only at hp
    split at hp
    · simp at hp; subst hp; exact hr
    · rename_i old hold
      have hqold := ht _ old hold
      split at hp
      · split at hp
        · simp at hp; subst hp; exact hr
        · simp at hp
      · by_cases holder : old.loc.isOlder r.loc = true
        · simp only [holder, if_true] at hp
          by_cases hmg : c.maxGet ≤ old.att + 1
          · simp only [hmg, if_true] at hp
            simp at hp; subst hp; exact hr
          · simp only [hmg, if_false] at hp
            rcases List.mem_append.1 hp with hp | hp
            · simp at hp; subst hp; exact hr
            · refine ih _ _ ?_ ?_ p hp
              · exact hqold
              · intro s R hR
                unfold Index.Tab.set at hR
                split at hR
                · unfold Index.live at hR
                  simp only at hR
                  split at hR
                  · simp at hR; subst hR; exact hr
                  · cases hR
                · exact ht s R hR
        · have hno : old.loc.isOlder r.loc = false := by simpa using holder
          simp only [hno, Bool.false_eq_true, if_false, List.nil_append] at hp
          by_cases hmg : c.maxGet ≤ r.att + 1
          · simp only [hmg, if_true] at hp
            simp at hp
          · simp only [hmg, if_false] at hp
            refine ih _ _ ?_ ht p hp
            exact hr

theorem applyWrites_steps : ∀ (ws : List (Nat × Index.Rec)) (w w' : World), (∀ p ∈ ws, Guard w p.2) →
    Full.applyWrites w ws = some w' → Steps w w' ∧ w'.objs = w.objs ∧ w'.pbl = w.pbl := by
  intro ws
  induction ws with
  | nil => intro w w' _ h; simp [Full.applyWrites] at h; subst h; exact ⟨Steps.refl _, rfl, rfl⟩
  | cons p ws ih =>
    intro w w' hg h
    obtain ⟨s, r⟩ := p
    simp only [Full.applyWrites] at h
    cases hw : w.recWrite s r.key r.att (BB.Store.locBlk r.loc) (BB.Store.locOff r.loc) (BB.Store.locSize r.loc) with
    | none => simp [hw] at h
    | some w1 =>
      simp only [hw] at h
      obtain ⟨o, b, ho, hk, hoff, hsz, hfin, hrel, hb, hbg⟩ := hg (s, r) (by simp)
      have hstep : Step w w1 := Step.recWrite ho hk hoff hsz hfin hrel hb hbg hw
      have hsame : w1.objs = w.objs ∧ w1.pbl = w.pbl := by
        unfold World.recWrite at hw
        split at hw
        · cases hw
        · split at hw
          · cases hw
          · simp only [Option.some.injEq] at hw; subst hw; exact ⟨rfl, rfl⟩
      have hg1 : ∀ p ∈ ws, Guard w1 p.2 := by
        intro p hp
        have := hg p (List.mem_cons_of_mem _ hp)
        unfold Guard at this ⊢
        rw [hsame.1, hsame.2]; exact this
      obtain ⟨h1, h2, h3⟩ := ih w1 w' hg1 h
      exact ⟨(Steps.single hstep).trans h1, h2.trans hsame.1, h3.trans hsame.2⟩

end BB.Persist
