import BB.Proofs.ByteStreamRead
/-!
# Read in front of a streaming backend: success means the whole, matching object
-/
namespace BB.ByteStream

theorem drain_none (code : Nat) (ps : List Bytes) (term : Option Err) (h : drain code ps term = none) :
    term = none ∧ ps.flatten = [] := by
  induction ps with
  | nil => simpa [drain] using h
  | cons p ps ih =>
    simp only [drain] at h
    by_cases hp : p.length > 0
    · simp [hp] at h
    · simp only [hp, if_false] at h
      have hnil : p = [] := List.eq_nil_of_length_eq_zero (by omega)
      have := ih h
      exact ⟨this.1, by simp [hnil, this.2]⟩

theorem vstream_ok (C : Codec) (d : Digest) (code : Nat) (ps : List Bytes) :
    ∀ (acc : Bytes) (term : Option Err) (out : List Bytes), vstream C d code acc ps term = (out, none) →
      term = none ∧ out.flatten = ps.flatten ∧ (acc ++ ps.flatten).length = d.size ∧
        C.H (acc ++ ps.flatten) = d.hash := by
  induction ps with
  | nil => intro acc term out h; cases term <;> simp [vstream] at h
  | cons p ps ih =>
    intro acc term out h
    simp only [vstream] at h
    by_cases h1 : acc.length + p.length > d.size
    · simp [h1] at h
    · simp only [h1, if_false] at h
      by_cases h2 : acc.length + p.length = d.size
      · simp only [h2, if_true] at h
        cases hd : drain code ps term with
        | some e => rw [hd] at h; simp at h
        | none =>
          rw [hd] at h
          have hdn := drain_none code ps term hd
          by_cases h3 : C.H (acc ++ p) = d.hash
          · simp only [h3, if_true, Prod.mk.injEq] at h
            refine ⟨hdn.1, by rw [← h.1]; simp [hdn.2], by simp [hdn.2, h2], by simp [hdn.2, h3]⟩
          · simp [h3] at h
      · simp only [h2, if_false, Prod.mk.injEq] at h
        have := ih (acc ++ p) term (vstream C d code (acc ++ p) ps term).1
          (by rw [← h.2])
        refine ⟨this.1, by rw [← h.1]; simp [this.2.1], by simpa [List.append_assoc] using this.2.2.1,
          by simpa [List.append_assoc] using this.2.2.2⟩

theorem vstart_ok (C : Codec) (d : Digest) (code : Nat) (s : Source) (out : List Bytes)
    (h : vstart C d code s = (out, none)) :
    s.term = none ∧ out.flatten = s.pieces.flatten ∧ Valid C d s.pieces.flatten := by
  unfold vstart at h
  by_cases h0 : d.size = 0
  · simp only [h0, if_true] at h
    cases hd : drain code s.pieces s.term with
    | some e => rw [hd] at h; simp at h
    | none =>
      rw [hd] at h
      have hdn := drain_none code _ _ hd
      by_cases h3 : C.H [] = d.hash
      · simp only [h3, if_true, Prod.mk.injEq] at h
        exact ⟨hdn.1, by rw [← h.1, hdn.2]; rfl, by rw [hdn.2]; exact ⟨by simp [h0], h3⟩⟩
      · simp [h3] at h
  · simp only [h0, if_false] at h
    have := vstream_ok C d code s.pieces [] s.term out h
    exact ⟨this.1, this.2.1, by simpa [Valid] using this.2.2⟩

theorem skipBytes_flatten (l : List Bytes) : ∀ n, (skipBytes n l).flatten = l.flatten.drop n := by
  induction l with
  | nil => intro n; simp [skipBytes]
  | cons p ps ih =>
    intro n
    simp only [skipBytes]
    by_cases h0 : n = 0
    · simp [h0]
    · by_cases h1 : n < p.length
      · simp only [h0, if_false, h1, if_true, List.flatten_cons]
        rw [List.drop_append_of_le_length (by omega)]
      · simp only [h0, if_false, h1, List.flatten_cons, ih]
        rw [List.drop_append]
        have : p.drop n = [] := List.drop_eq_nil_of_le (by omega)
        simp [this]

theorem normalize_flatten (cs : Nat) (hcs : 0 < cs) (l : List Bytes) : (normalize cs l).flatten = l.flatten := by
  induction l with
  | nil => simp [normalize]
  | cons p ps ih =>
    unfold normalize at ih ⊢
    simp only [List.flatMap_cons, List.flatten_append, List.flatten_cons, ih, chunks_flatten cs hcs]

theorem normalize_mem (cs : Nat) (hcs : 0 < cs) (l : List Bytes) (c : Bytes) (h : c ∈ normalize cs l) :
    c.length ≤ cs ∧ c ≠ [] := by
  unfold normalize at h
  simp only [List.mem_flatMap] at h
  obtain ⟨p, _, hc⟩ := h
  exact chunks_mem cs hcs p c hc

end BB.ByteStream
