import BB.Proofs.PersistStepCopy2
/-!
# The finalizer: shape of the list afterwards; the object gets its epoch
-/
namespace BB.Persist

def fW (off size : Nat) : Blk → Blk := fun b => { b with written := max b.written (off + size) }
def fE : Blk → Blk := fun b => { b with epochCount := b.epochCount + 1 }

theorem finalize_blocks_eq {p p' : PBL} {abs off size fresh e : Nat} (hf : p.finalize abs off size fresh = .ok p' e) :
    p'.blocks = (if p.bumps abs = true then (p.blocks.modify (abs - p.released) (fW off size)).modify (p.blocks.length - 1) fE
      else p.blocks.modify (abs - p.released) (fW off size)) := by
  unfold PBL.finalize at hf
  split at hf
  · cases hf
  · split at hf
    · cases hf
    · simp only [PBL.FinRes.ok.injEq] at hf
      obtain ⟨rfl, _⟩ := hf
      by_cases hb : p.bumps abs = true
      · simp [hb, PBL.setBlk]; rfl
      · simp [hb, PBL.setBlk]; rfl

/-- What the finalizer does to the blocks: generation, slot and cursors stay, offsets only grow,
the block written to has the object's end as written offset at least. -/
theorem finalize_blocks {p p' : PBL} {abs off size fresh e : Nat} (hf : p.finalize abs off size fresh = .ok p' e) :
    ∀ (i : Nat) (b' : Blk), p'.blocks[i]? = some b' → ∃ b : Blk, p.blocks[i]? = some b ∧ b'.gid = b.gid ∧ b'.slot = b.slot ∧
      b'.base = b.base ∧ b'.cursor = b.cursor ∧ b'.synced = b.synced ∧ b'.syncing = b.syncing ∧ b.written ≤ b'.written ∧
      (i = abs - p.released → off + size ≤ b'.written) := by
  intro i b' hb'
  rw [finalize_blocks_eq hf] at hb'
  have step1 : ∀ b1, (p.blocks.modify (abs - p.released) (fW off size))[i]? = some b1 →
      ∃ b : Blk, p.blocks[i]? = some b ∧ b1.gid = b.gid ∧ b1.slot = b.slot ∧ b1.base = b.base ∧ b1.cursor = b.cursor ∧
        b1.synced = b.synced ∧ b1.syncing = b.syncing ∧ b.written ≤ b1.written ∧ (i = abs - p.released → off + size ≤ b1.written) := by
    intro b1 hb1
    rw [List.getElem?_modify] at hb1
    cases h0 : p.blocks[i]? with
    | none => simp [h0] at hb1
    | some b =>
      by_cases hi : abs - p.released = i
      · simp [h0, hi] at hb1; subst hb1
        exact ⟨b, rfl, rfl, rfl, rfl, rfl, rfl, rfl, Nat.le_max_left _ _, fun _ => Nat.le_max_right _ _⟩
      · simp [h0, hi] at hb1; subst hb1
        exact ⟨b, rfl, rfl, rfl, rfl, rfl, rfl, rfl, Nat.le_refl _, fun e => absurd e.symm hi⟩
  by_cases hbm : p.bumps abs = true
  · simp only [hbm, if_true] at hb'
    rw [List.getElem?_modify] at hb'
    cases h1 : (p.blocks.modify (abs - p.released) (fW off size))[i]? with
    | none => simp [h1] at hb'
    | some b1 =>
      obtain ⟨b, r⟩ := step1 b1 h1
      simp only [h1, Option.map_some, Option.some.injEq] at hb'
      by_cases hk : p.blocks.length - 1 = i
      · simp [hk] at hb'; subst hb'; exact ⟨b, r⟩
      · simp [hk] at hb'; subst hb'; exact ⟨b, r⟩
  · simp only [hbm] at hb'
    exact step1 b' hb'

theorem finalize_like {p p' : PBL} {abs off size fresh e : Nat} (hf : p.finalize abs off size fresh = .ok p' e) :
    BlocksLike p p' := by
  obtain ⟨_, _, _, hrel, _, _, htr, _, _, hlen, _⟩ := finalize_fields hf
  refine ⟨htr, hrel, hlen, ?_⟩
  intro i b' hb'
  obtain ⟨b, hb, g1, g2, g3, g4, _⟩ := finalize_blocks hf i b' hb'
  exact ⟨b, hb, g1, g2, g3, Nat.le_of_eq g4.symm⟩

/-- `a` is `b` up to `fin`. -/
def SameButFin (a b : Obj) : Prop :=
  a.id = b.id ∧ a.gid = b.gid ∧ a.slot = b.slot ∧ a.off = b.off ∧ a.size = b.size ∧ a.key = b.key ∧ a.abs = b.abs ∧
  a.upload = b.upload ∧ a.data = b.data ∧ a.copied = b.copied ∧ a.mine = b.mine ∧ a.precov = b.precov ∧ a.durable = b.durable

def setFin (id e : Nat) (x : Obj) : Obj := if x.id == id then { x with fin := some e } else x

theorem setFin_same (id e : Nat) (x : Obj) : SameButFin (setFin id e x) x := by
  unfold setFin SameButFin; split <;> simp

theorem setFin_other {id e : Nat} {x : Obj} (h : x.id ≠ id) : setFin id e x = x := by
  unfold setFin; simp [h]

theorem setFin_self {id e : Nat} {x : Obj} (h : x.id = id) : setFin id e x = { x with fin := some e } := by
  unfold setFin; simp [h]

theorem objInv_fin {c : Cfg} {objs : List Obj} {p : PBL} {z : List Blk} {pins : List Nat} {no ng : Nat}
    {sh : List (Nat × Nat)} (g : Obj → Obj) (hg : ∀ x, SameButFin (g x) x)
    (hfin : ∀ x ∈ objs, (g x).fin.isSome → x.copied = true)
    (ho : ObjInv c objs p z pins no ng sh) : ObjInv c (objs.map g) p z pins no ng sh := by
  have hmem : ∀ o' ∈ objs.map g, ∃ o ∈ objs, o' = g o := fun o' h => mem_map_obj h
  constructor
  · have : (objs.map g).map (·.id) = objs.map (·.id) := by
      simp only [List.map_map]; apply List.map_congr_left; intro o _; exact (hg o).1
    rw [this]; exact ho.ids
  · intro o' h; obtain ⟨o, h1, rfl⟩ := hmem o' h; rw [(hg o).1]; exact ho.idLt o h1
  · intro o' h; obtain ⟨o, h1, rfl⟩ := hmem o' h; rw [(hg o).2.2.2.2.1]; exact ho.size o h1
  · intro o' h; obtain ⟨o, h1, rfl⟩ := hmem o' h; rw [(hg o).2.1]; exact ho.gidLt o h1
  · intro o' h b hb hgid; obtain ⟨o, h1, rfl⟩ := hmem o' h
    rw [(hg o).2.2.1]; exact ho.slotOk o h1 b hb (by rw [← (hg o).2.1]; exact hgid)
  · intro o' h hm i b hb hgid; obtain ⟨o, h1, rfl⟩ := hmem o' h
    obtain ⟨_, k2, _, k4, k5, _, k7, _, _, _, k11, _⟩ := hg o
    rw [k7, k4, k5]
    exact ho.place o h1 (by rw [← k11]; exact hm) i b hb (by rw [← k2]; exact hgid)
  · intro o' h hm; obtain ⟨o, h1, rfl⟩ := hmem o' h
    obtain ⟨_, k2, _, _, _, _, k7, _, _, _, k11, _⟩ := hg o
    rw [k7, k2]
    exact ho.absIn o h1 (by rw [← k11]; exact hm)
  · intro o' h hm b hb hgid; obtain ⟨o, h1, rfl⟩ := hmem o' h
    obtain ⟨_, k2, _, k4, _, _, _, _, _, _, k11, _⟩ := hg o
    rw [k4]
    exact ho.baseLe o h1 (by rw [← k11]; exact hm) b hb (by rw [← k2]; exact hgid)
  · intro o' h hm; obtain ⟨o, h1, rfl⟩ := hmem o' h
    obtain ⟨_, k2, _, k4, k5, _, _, _, _, k10, k11, _, k13⟩ := hg o
    rw [k13, k10, k2, k4, k5]
    exact ho.restored o h1 (by rw [← k11]; exact hm)
  · intro a' ha b' hb m1 m2 hgid hid
    obtain ⟨a, a1, rfl⟩ := hmem a' ha
    obtain ⟨b, b1, rfl⟩ := hmem b' hb
    obtain ⟨ka1, ka2, _, ka4, ka5, _, _, _, _, _, ka11, _⟩ := hg a
    obtain ⟨kb1, kb2, _, kb4, kb5, _, _, _, _, _, kb11, _⟩ := hg b
    rw [ka4, ka5, kb4, kb5]
    exact ho.disj a a1 b b1 (by rw [← ka11]; exact m1) (by rw [← kb11]; exact m2) (by rw [← ka2, ← kb2]; exact hgid)
      (by rw [← ka1, ← kb1]; exact hid)
  · intro o' h hm hc; obtain ⟨o, h1, rfl⟩ := hmem o' h
    obtain ⟨_, k2, _, _, _, _, _, _, _, k10, k11, _⟩ := hg o
    rw [k2]
    exact ho.heldW o h1 (by rw [← k11]; exact hm) (by rw [← k10]; exact hc)
  · intro gid
    refine Nat.le_trans (Nat.le_of_eq ?_) (ho.pinCount gid)
    rw [List.filter_map, List.length_map]
    congr 1
    apply List.filter_congr
    intro o _
    obtain ⟨_, k2, _, _, _, _, _, _, _, k10, k11, _⟩ := hg o
    simp [Function.comp, k2, k10, k11]
  · intro o' h hf; obtain ⟨o, h1, rfl⟩ := hmem o' h
    rw [(hg o).2.2.2.2.2.2.2.2.2.1]; exact hfin o h1 hf
  · intro o' h; obtain ⟨o, h1, rfl⟩ := hmem o' h
    obtain ⟨_, _, _, _, _, _, _, _, _, k10, k11, k12, k13⟩ := hg o
    rw [k10, k11, k12, k13]; exact ho.flags o h1
  · intro o' h hc; obtain ⟨o, h1, rfl⟩ := hmem o' h
    obtain ⟨_, _, _, _, _, k6, _, _, k9, k10, _⟩ := hg o
    rw [k6, k9]; exact ho.shadow o h1 (by rw [← k10]; exact hc)
  · exact ho.aligned
  · exact ho.cursor

end BB.Persist
