import BB.Proofs.PersistStepSwDone3
/-!
# Restart: `NewBlockAtLocation` and the loop of `NewPersistentBlockList`
-/
namespace BB.Persist

/-- Taking a slot that is in the (duplicate free) free list succeeds and removes exactly that slot. -/
theorem attach_spec {free : List Nat} {slot : Nat} (hn : free.Nodup) (hm : slot ∈ free) :
    ∃ free', World.attach free slot = some free' ∧ free'.Nodup ∧ ∀ x, x ∈ free' ↔ (x ∈ free ∧ x ≠ slot) := by
  unfold World.attach
  have hne : free ≠ [] := by intro h; rw [h] at hm; simp at hm
  obtain ⟨init, l, rfl⟩ : ∃ init l, free = init ++ [l] := by
    rcases List.eq_nil_or_concat free with h | ⟨l', b, h⟩
    · exact absurd h hne
    · exact ⟨l', b, by simpa using h⟩
  have hlast : (init ++ [l]).getLast? = some l := by simp
  rw [List.nodup_append] at hn
  obtain ⟨hni, _, hdisj⟩ := hn
  have hl : l ∉ init := fun h => hdisj l h l (by simp) rfl
  cases hf : (init ++ [l]).findIdx? (· == slot) with
  | none =>
    rw [List.findIdx?_eq_none_iff] at hf
    have := hf slot hm
    simp at this
  | some i =>
    rw [List.findIdx?_eq_some_iff_getElem] at hf
    obtain ⟨hi, hp, _⟩ := hf
    have hget : (init ++ [l])[i] = slot := by simpa using hp
    simp only [hlast]
    refine ⟨_, rfl, ?_, ?_⟩
    · -- nodup
      by_cases hii : i < init.length
      · rw [List.set_append_left _ _ hii, List.dropLast_concat]
        rw [List.getElem_append_left hii] at hget
        rw [List.set_eq_take_append_cons_drop, if_pos hii]
        have hsplit : init = init.take i ++ init[i] :: init.drop (i + 1) := by
          rw [List.getElem_cons_drop_succ_eq_drop hii, List.take_append_drop]
        rw [hsplit] at hni hl
        rw [List.nodup_append] at hni ⊢
        obtain ⟨n1, n2, n3⟩ := hni
        simp only [List.nodup_cons] at n2 ⊢
        simp only [List.mem_append, List.mem_cons, not_or] at hl
        refine ⟨n1, ⟨?_, n2.2⟩, ?_⟩
        · exact hl.2.2
        · intro a ha b hb
          simp only [List.mem_cons] at hb
          rcases hb with rfl | hb
          · intro he; exact hl.1 (he ▸ ha)
          · exact n3 a ha b (List.mem_cons_of_mem _ hb)
      · have hil : i = init.length := by simp at hi; omega
        subst hil
        have : (init ++ [l]).set init.length l = init ++ [l] := by
          rw [List.set_eq_take_append_cons_drop]; simp
        rw [this, List.dropLast_concat]; exact hni
    · intro x
      by_cases hii : i < init.length
      · rw [List.set_append_left _ _ hii, List.dropLast_concat]
        rw [List.getElem_append_left hii] at hget
        rw [List.set_eq_take_append_cons_drop, if_pos hii]
        have hsplit : init = init.take i ++ init[i] :: init.drop (i + 1) := by
          rw [List.getElem_cons_drop_succ_eq_drop hii, List.take_append_drop]
        have hni' := hni
        rw [hsplit] at hni'
        rw [List.nodup_append] at hni'
        obtain ⟨n1, n2, n3⟩ := hni'
        simp only [List.nodup_cons] at n2
        have hmem : ∀ y, y ∈ init ↔ (y ∈ init.take i ∨ y = slot ∨ y ∈ init.drop (i + 1)) := by
          intro y
          conv => lhs; rw [hsplit]
          simp [hget]
        have hslot_in : slot ∈ init := by rw [← hget]; exact List.getElem_mem hii
        rw [List.mem_append, List.mem_cons, List.mem_append, List.mem_singleton]
        constructor
        · intro hx
          rcases hx with h1 | h2 | h3
          · refine ⟨Or.inl ((hmem x).2 (Or.inl h1)), ?_⟩
            intro he
            exact n3 x h1 init[i] List.mem_cons_self (by rw [hget]; exact he)
          · refine ⟨Or.inr h2, ?_⟩
            intro he
            rw [h2] at he
            exact hl (by rw [he]; exact hslot_in)
          · refine ⟨Or.inl ((hmem x).2 (Or.inr (Or.inr h3))), ?_⟩
            intro he
            exact n2.1 (by rw [hget, ← he]; exact h3)
        · intro hx
          obtain ⟨hx1, hne'⟩ := hx
          rcases hx1 with h1 | h2
          · rcases (hmem x).1 h1 with h | h | h
            · exact Or.inl h
            · exact absurd h hne'
            · exact Or.inr (Or.inr h)
          · exact Or.inr (Or.inl h2)
      · have hil : i = init.length := by simp at hi; omega
        subst hil
        have hsl : slot = l := by simpa using hget.symm
        have : (init ++ [l]).set init.length l = init ++ [l] := by
          rw [List.set_eq_take_append_cons_drop]; simp
        rw [this, List.dropLast_concat]
        rw [List.mem_append, List.mem_singleton]
        constructor
        · intro h1
          refine ⟨Or.inl h1, ?_⟩
          intro he
          exact hl (by rw [← hsl, ← he]; exact h1)
        · intro hx
          obtain ⟨hx1, hne'⟩ := hx
          rcases hx1 with h1 | h2
          · exact h1
          · exact absurd (by rw [h2, hsl]) hne'

end BB.Persist
