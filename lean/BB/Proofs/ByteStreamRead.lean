import BB.Model.ByteStream
/-!
# ByteStream.Read: chunking and the suffix delivered
-/
namespace BB.ByteStream

theorem chunksAux_flatten (cs : Nat) (hcs : 0 < cs) :
    ∀ (fuel : Nat) (l : Bytes), l.length ≤ fuel → (chunksAux cs fuel l).flatten = l := by
  intro fuel
  induction fuel with
  | zero =>
    intro l hl
    have : l = [] := List.eq_nil_of_length_eq_zero (by omega)
    simp [chunksAux, this]
  | succ n ih =>
    intro l hl
    simp only [chunksAux]
    by_cases h : l = []
    · simp [h]
    · simp only [h, if_false, List.flatten_cons]
      have hpos : 0 < l.length := List.length_pos_iff.mpr h
      rw [ih (l.drop cs) (by simp; omega)]
      exact List.take_append_drop cs l

theorem chunksAux_mem (cs : Nat) (hcs : 0 < cs) :
    ∀ (fuel : Nat) (l c : Bytes), c ∈ chunksAux cs fuel l → c.length ≤ cs ∧ c ≠ [] := by
  intro fuel
  induction fuel with
  | zero => intro l c hc; simp [chunksAux] at hc
  | succ n ih =>
    intro l c hc
    simp only [chunksAux] at hc
    by_cases h : l = []
    · simp [h] at hc
    · simp only [h, if_false, List.mem_cons] at hc
      cases hc with
      | inl h1 =>
        subst h1
        refine ⟨by simp; omega, ?_⟩
        intro h2
        have hpos : 0 < l.length := List.length_pos_iff.mpr h
        have : (l.take cs).length = 0 := by rw [h2]; rfl
        rw [List.length_take] at this
        omega
      | inr h1 => exact ih _ _ h1

theorem chunks_flatten (cs : Nat) (hcs : 0 < cs) (l : Bytes) : (chunks cs l).flatten = l :=
  chunksAux_flatten cs hcs l.length l (Nat.le_refl _)

theorem chunks_mem (cs : Nat) (hcs : 0 < cs) (l c : Bytes) (h : c ∈ chunks cs l) :
    c.length ≤ cs ∧ c ≠ [] :=
  chunksAux_mem cs hcs l.length l c h

theorem flatten_take_prefix (cks : List Bytes) (k : Nat) : (cks.take k).flatten <+: cks.flatten := by
  refine ⟨(cks.drop k).flatten, ?_⟩
  rw [← List.flatten_append, List.take_append_drop]

theorem sendAll_sent_prefix (cks : List Bytes) (failAt : Nat) :
    (sendAll cks failAt).sent.flatten <+: cks.flatten := by
  unfold sendAll
  by_cases h : failAt = 0 ∨ cks.length < failAt
  · simp only [h, if_true]; exact List.prefix_refl _
  · simp only [h, if_false]; exact flatten_take_prefix cks (failAt - 1)

theorem sendAll_sent_mem (cks : List Bytes) (failAt : Nat) (c : Bytes)
    (h : c ∈ (sendAll cks failAt).sent) : c ∈ cks := by
  unfold sendAll at h
  by_cases h' : failAt = 0 ∨ cks.length < failAt
  · simpa [h'] using h
  · simp only [h', if_false] at h
    exact List.mem_of_mem_take h

theorem sendAll_zero (cks : List Bytes) : sendAll cks 0 = { sent := cks } := by
  simp [sendAll]

theorem getValidated_ok (C : Codec) (st : Store) (d : Digest) (fault : Option Nat) (c : Bytes) :
    getValidated C st d fault = .ok c ↔ fault = none ∧ st.get d = some c ∧ Valid C d c := by
  unfold getValidated Valid
  cases fault with
  | some code => simp
  | none =>
    cases hg : st.get d with
    | none => simp
    | some c' =>
      by_cases h1 : c'.length = d.size
      · by_cases h2 : C.H c' = d.hash
        · simp [h1, h2]
          intro h; subst h; exact ⟨h1, h2⟩
        · simp [h1, h2]; intro h; subst h; intro _ hh; exact absurd hh h2
      · simp [h1]; intro h; subst h; intro hl; exact absurd hl h1

theorem offsetOk_iff (size : Nat) (off : Int) : offsetOk size off = true ↔ 0 ≤ off ∧ off ≤ (size : Int) := by
  simp [offsetOk]

end BB.ByteStream
