import BB.Proofs.IndexFrame
/-! C06: releasing blocks removes exactly the entries that point into them. -/
namespace BB.Index
open BB.Gen

def keepFrom (thr' : Int) (o : Option Loc) : Option Loc :=
  match o with
  | some l => if thr' ≤ l.blockIndex then some l else none
  | none => none

theorem getAux_release {c : Cfg} {thr thr' : Int} {t : Tab} {k : Nat}
    (hinv : Inv c thr t) (hle : thr ≤ thr') : ∀ (fuel a : Nat),
    getAux c thr' t k fuel a = keepFrom thr' (getAux c thr t k fuel a) := by
  intro fuel
  induction fuel with
  | zero => intro a; simp [getAux, keepFrom]
  | succ fuel ih =>
    intro a
    unfold getAux
    cases hslot : t (c.slot k a) with
    | none => simp [live, keepFrom]
    | some R =>
      by_cases hl : thr ≤ R.loc.blockIndex
      · by_cases hl' : thr' ≤ R.loc.blockIndex
        · simp only [live, hl, hl', if_true]
          by_cases hm : R.key = k ∧ R.att = a
          · simp [hm, keepFrom, hl']
          · simp only [hm, if_false]; exact ih (a+1)
        · simp only [live, hl, hl', if_true, if_false]
          by_cases hm : R.key = k ∧ R.att = a
          · simp [hm, keepFrom, hl']
          · simp only [hm, if_false]
            -- whatever the old walk finds later lies in a block that is not newer than R's
            cases hres : getAux c thr t k fuel (a+1) with
            | none => simp [keepFrom]
            | some l =>
              obtain ⟨a', h1, _, ⟨R2, hR2, hR2l, hR2k, hR2a, hR2loc⟩, _⟩ := (getAux_spec c thr t k fuel (a+1)).1 l hres
              obtain ⟨_, _, hpath⟩ := hinv _ R2 hR2 hR2l
              obtain ⟨q, hq, _, hqo⟩ := hpath a (by omega)
              rw [hR2k, hslot] at hq; cases hq
              have := not_older_blk hqo
              rw [hR2loc] at this
              have hlt : ¬ thr' ≤ l.blockIndex := by omega
              simp [keepFrom, hlt]
      · have hl' : ¬ thr' ≤ R.loc.blockIndex := by omega
        simp [live, hl, hl', keepFrom]

end BB.Index
