import BB.Proofs.ValidateCore
/-! # Invariant of `casValidatingChunkReader` -/
namespace BB.Validate

structure CInv (c : Cfg) (T : Truth) (v : VC) : Prop where
  inv : Inv c T false v.core
  term : v.src.term = T.term
  live : v.core.fin = none →
    T.content = v.acc ++ v.src.content ∧ v.core.out = v.acc ∧ v.acc.length + v.remaining = c.size ∧
    (v.remaining = 0 → c.size = 0)

theorem CInv.init (c : Cfg) (s : CSrc) : CInv c ⟨s.content, s.term⟩ (VC.init c s) where
  inv := inv_init _ _ _
  term := rfl
  live := fun _ => by simp [VC.init]

theorem VC.mf_spec {c : Cfg} {T : Truth} {v : VC}
    (hcont : T.content = v.acc ++ v.src.content) (hterm : v.src.term = T.term) :
    (v.maybeFinalize c).1.acc = v.acc ∧ (v.maybeFinalize c).1.remaining = v.remaining ∧
    (v.maybeFinalize c).1.core.out = v.core.out ∧ (v.maybeFinalize c).1.core.fin = v.core.fin ∧
    (v.maybeFinalize c).1.src.term = v.src.term ∧
    ((0 < v.remaining ∧ v.maybeFinalize c = (v, none)) ∨
     (v.remaining = 0 ∧ ∃ k, (v.maybeFinalize c).2 = some (.err (.src k)) ∧ T.term = .err k ∧
        (v.maybeFinalize c).1.core.verdicts = v.core.verdicts) ∨
     (v.remaining = 0 ∧ (v.maybeFinalize c).2 = some (.err .tooBig) ∧ v.acc.length < T.content.length ∧
        (v.maybeFinalize c).1.core.verdicts = v.core.verdicts ++ [false]) ∨
     (v.remaining = 0 ∧ (v.maybeFinalize c).2 = some (.err .hashMismatch) ∧ T.content = v.acc ∧ T.term = .eof ∧
        c.H v.acc ≠ c.h ∧ (v.maybeFinalize c).1.core.verdicts = v.core.verdicts ++ [false]) ∨
     (v.remaining = 0 ∧ (v.maybeFinalize c).2 = some .eof ∧ T.content = v.acc ∧ T.term = .eof ∧
        c.H v.acc = c.h ∧ (v.maybeFinalize c).1.core.verdicts = v.core.verdicts ++ [true])) := by
  unfold VC.maybeFinalize
  by_cases hr : v.remaining > 0
  · rw [if_pos hr]; exact ⟨rfl, rfl, rfl, rfl, rfl, Or.inl ⟨hr, rfl⟩⟩
  · rw [if_neg hr]
    have hr0 : v.remaining = 0 := by omega
    have hd := drain_spec v.src.term v.src.chunks
    generalize drain v.src.term v.src.chunks = y at hd ⊢
    obtain ⟨rest, dr⟩ := y
    simp only at hd ⊢
    obtain ⟨hclean, hbig, hsrc⟩ := hd
    cases dr with
    | srcErr k =>
      refine ⟨rfl, rfl, rfl, rfl, rfl, Or.inr (Or.inl ⟨hr0, k, rfl, ?_, rfl⟩)⟩
      rw [← hterm]; exact (hsrc k rfl).2
    | tooBig =>
      refine ⟨rfl, rfl, rfl, rfl, rfl, Or.inr (Or.inr (Or.inl ⟨hr0, rfl, ?_, rfl⟩))⟩
      have : v.src.content.length > 0 := List.length_pos_iff.mpr (hbig rfl)
      rw [hcont]; simp only [List.length_append]; omega
    | clean =>
      obtain ⟨hemp, ht⟩ := hclean rfl
      have hc2 : T.content = v.acc := by
        rw [hcont]; show v.acc ++ v.src.chunks.flatten = v.acc; rw [hemp, List.append_nil]
      have ht2 : T.term = .eof := by rw [← hterm]; exact ht
      simp only []
      by_cases hh : c.H v.acc ≠ c.h
      · rw [if_pos hh]
        exact ⟨rfl, rfl, rfl, rfl, rfl, Or.inr (Or.inr (Or.inr (Or.inl ⟨hr0, rfl, hc2, ht2, hh, rfl⟩)))⟩
      · rw [if_neg hh]
        exact ⟨rfl, rfl, rfl, rfl, rfl, Or.inr (Or.inr (Or.inr (Or.inr ⟨hr0, rfl, hc2, ht2, Decidable.of_not_not hh, rfl⟩)))⟩

end BB.Validate

namespace BB.Validate

theorem cinv_fin {c : Cfg} {T : Truth} {v' : VC} (hi : Inv c T false v'.core) (ht : v'.src.term = T.term)
    (hf : v'.core.fin ≠ none) : CInv c T v' := ⟨hi, ht, fun h => absurd h hf⟩

/-- Facts about a step that ends the stream with an error. -/
theorem VC.err_step {c : Cfg} {T : Truth} {v v' : VC} {e : Err} {vs : List Bool} (h : CInv c T v)
    (hf : v.core.fin = none) (hcore : v'.core = ⟨v.core.out, some (.err e), vs⟩) (ht : v'.src.term = T.term)
    (he : ErrOK c T e vs) :
    CInv c T v' ∧ StepFacts v.core v'.core [] (.err e) := by
  refine ⟨cinv_fin ?_ ht (by rw [hcore]; simp), ⟨by rw [hcore]; simp, fun _ => by rw [hcore], fun _ _ => rfl, ?_⟩⟩
  · rw [hcore]; exact inv_err h.inv hf he (by simp)
  · intro x hx; rw [hf] at hx; cases hx

theorem VC.read_ok {c : Cfg} {T : Truth} {v : VC} (h : CInv c T v) :
    CInv c T (VC.read c v).1 ∧
    StepFacts v.core (VC.read c v).1.core (VC.read c v).2.1 (VC.read c v).2.2 ∧
    ((VC.read c v).2.2 ≠ .ok → (VC.read c v).2.1 = []) := by
  unfold VC.read
  cases hf : v.core.fin with
  | some r =>
    refine ⟨h, ⟨by simp, fun _ => hf, fun _ _ => rfl, ?_⟩, fun _ => rfl⟩
    intro x hx; rw [hf] at hx; cases hx; exact ⟨rfl, rfl⟩
  | none =>
    obtain ⟨hcont, hout, hlen, hrem⟩ := h.live hf
    have hv : v.core.verdicts = [] := h.inv.none hf
    have hm := VC.mf_spec (c := c) hcont h.term
    generalize v.maybeFinalize c = m at hm ⊢
    obtain ⟨v1, f1⟩ := m
    simp only at hm ⊢
    obtain ⟨h1a, h1r, h1o, h1f, h1t, hcase⟩ := hm
    have ht1 : v1.src.term = T.term := h1t.trans h.term
    rcases hcase with ⟨hpos, heq⟩ | ⟨hr0, k, hf1, htk, hvs⟩ | ⟨hr0, hf1, hlt, hvs⟩ | ⟨hr0, hf1, hc2, hte, hh, hvs⟩ |
        ⟨hr0, hf1, hc2, hte, hh, hvs⟩
    · -- bytes remaining: read the next chunk
      simp only [Prod.mk.injEq] at heq
      obtain ⟨rfl, rfl⟩ := heq
      simp only []
      cases hch : v1.src.chunks with
      | nil =>
        have hc0 : v1.src.content = [] := by simp [CSrc.content, hch]
        simp only []
        cases htm : v1.src.term with
        | eof =>
          simp only []
          have := VC.err_step (v' := (v1.verdict false).setFin (.err .sizeMismatch)) (e := .sizeMismatch)
            (vs := v1.core.verdicts ++ [false]) h hf rfl ht1
            (by rw [hv]; refine Or.inr (Or.inl ⟨rfl, ?_, by rw [← ht1, htm], rfl⟩)
                rw [hcont, hc0]; simp only [List.append_nil]; omega)
          exact ⟨this.1, this.2, by intros; first | rfl | trivial⟩
        | err k =>
          simp only []
          have := VC.err_step (v' := v1.setFin (.err (.src k))) (e := .src k) (vs := v1.core.verdicts) h hf rfl ht1
            (by rw [hv]; exact Or.inr (Or.inr (Or.inr (Or.inl ⟨k, rfl, by rw [← ht1, htm], rfl⟩))))
          exact ⟨this.1, this.2, by intros; first | rfl | trivial⟩
      | cons ch rest =>
        have hcc : v1.src.content = ch ++ rest.flatten := by simp [CSrc.content, hch]
        simp only []
        by_cases hbig : ch.length > v1.remaining
        · rw [if_pos hbig]
          have := VC.err_step
            (v' := (({ v1 with src := { v1.src with chunks := rest } } : VC).verdict false).setFin (.err .tooBig))
            (e := .tooBig) (vs := v1.core.verdicts ++ [false]) h hf rfl ht1
            (by rw [hv]; refine Or.inl ⟨rfl, ?_, rfl⟩
                rw [hcont, hcc]; simp only [List.length_append]; omega)
          exact ⟨this.1, this.2, by intros; first | rfl | trivial⟩
        · rw [if_neg hbig]
          have hcont2 : T.content = (v1.acc ++ ch) ++ rest.flatten := by
            rw [hcont, hcc, List.append_assoc]
          have hm2 := VC.mf_spec (c := c) (T := T)
            (v := { v1 with src := { v1.src with chunks := rest }, acc := v1.acc ++ ch, remaining := v1.remaining - ch.length })
            hcont2 ht1
          generalize VC.maybeFinalize c _ = m2 at hm2 ⊢
          obtain ⟨v3, f2⟩ := m2
          simp only at hm2 ⊢
          obtain ⟨h3a, h3r, h3o, h3f, h3t, hcase2⟩ := hm2
          have ht3 : v3.src.term = T.term := h3t.trans ht1
          rcases hcase2 with ⟨hpos2, heq2⟩ | ⟨hr2, k, hf2, htk, hvs2⟩ | ⟨hr2, hf2, hlt, hvs2⟩ |
              ⟨hr2, hf2, hc2, hte, hh, hvs2⟩ | ⟨hr2, hf2, hc2, hte, hh, hvs2⟩
          · simp only [Prod.mk.injEq] at heq2
            obtain ⟨rfl, rfl⟩ := heq2
            simp only []
            refine ⟨⟨?_, ht1, ?_⟩, ⟨rfl, fun h' => absurd rfl h', (fun e h' => by cases h'), ?_⟩, fun h' => absurd rfl h'⟩
            · refine inv_more (out := v1.core.out ++ ch) h.inv hf ?_ ?_
              · rw [hout, hcont2]; exact List.prefix_append _ _
              · rw [hout]; simp only [List.length_append]; omega
            · intro _
              refine ⟨hcont2, by simp [VC.emit, hout], ?_, ?_⟩
              · show (v1.acc ++ ch).length + (v1.remaining - ch.length) = c.size
                simp only [List.length_append]; omega
              · show v1.remaining - ch.length = 0 → c.size = 0
                have hpos2' : 0 < v1.remaining - ch.length := hpos2
                intro h0; omega
            · intro x hx; rw [hf] at hx; cases hx
          · subst hf2
            have := VC.err_step (v' := v3.setFin (.err (.src k))) (e := .src k) (vs := v3.core.verdicts) h hf
              (by simp [VC.setFin, h3o]) ht3
              (by rw [hvs2, hv]; exact Or.inr (Or.inr (Or.inr (Or.inl ⟨k, rfl, htk, rfl⟩))))
            exact ⟨this.1, this.2, by intros; first | rfl | trivial⟩
          · subst hf2
            have := VC.err_step (v' := v3.setFin (.err .tooBig)) (e := .tooBig) (vs := v3.core.verdicts) h hf
              (by simp [VC.setFin, h3o]) ht3
              (by rw [hvs2, hv]; refine Or.inl ⟨rfl, ?_, rfl⟩
                  simp only [List.length_append] at hlt ⊢; omega)
            exact ⟨this.1, this.2, by intros; first | rfl | trivial⟩
          · subst hf2
            have := VC.err_step (v' := v3.setFin (.err .hashMismatch)) (e := .hashMismatch) (vs := v3.core.verdicts) h hf
              (by simp [VC.setFin, h3o]) ht3
              (by rw [hvs2, hv]; refine Or.inr (Or.inr (Or.inl ⟨rfl, ?_, by rw [hc2]; exact hh, rfl⟩))
                  rw [hc2]; simp only [List.length_append]; omega)
            exact ⟨this.1, this.2, by intros; first | rfl | trivial⟩
          · subst hf2
            simp only []
            have hsz : T.content.length = c.size := by
              rw [hc2]; simp only [List.length_append]; omega
            refine ⟨cinv_fin ?_ ht3 (by simp [VC.setFin]), ⟨by simp [VC.setFin, VC.emit, h3o], fun h' => absurd rfl h',
              (fun e h' => by cases h'), ?_⟩, fun h' => absurd rfl h'⟩
            · have := inv_valid (c := c) (T := T) (rdr := false) (out := v1.core.out ++ ch)
                ⟨hsz, by rw [hc2]; exact hh⟩ (by rw [hout, hc2]) (Or.inl hte)
              simpa [VC.setFin, VC.emit, h3o, hvs2, hv] using this
            · intro x hx; rw [hf] at hx; cases hx
    · subst hf1
      have := VC.err_step (v' := v1.setFin (.err (.src k))) (e := .src k) (vs := v1.core.verdicts) h hf
        (by simp [VC.setFin, h1o]) ht1
        (by rw [hvs, hv]; exact Or.inr (Or.inr (Or.inr (Or.inl ⟨k, rfl, htk, rfl⟩))))
      exact ⟨this.1, this.2, by intros; first | rfl | trivial⟩
    · subst hf1
      have := VC.err_step (v' := v1.setFin (.err .tooBig)) (e := .tooBig) (vs := v1.core.verdicts) h hf
        (by simp [VC.setFin, h1o]) ht1
        (by rw [hvs, hv]; refine Or.inl ⟨rfl, ?_, rfl⟩; omega)
      exact ⟨this.1, this.2, by intros; first | rfl | trivial⟩
    · subst hf1
      have := VC.err_step (v' := v1.setFin (.err .hashMismatch)) (e := .hashMismatch) (vs := v1.core.verdicts) h hf
        (by simp [VC.setFin, h1o]) ht1
        (by rw [hvs, hv]; refine Or.inr (Or.inr (Or.inl ⟨rfl, ?_, by rw [hc2]; exact hh, rfl⟩))
            rw [hc2]; omega)
      exact ⟨this.1, this.2, by intros; first | rfl | trivial⟩
    · subst hf1
      simp only []
      have hsz : T.content.length = c.size := by rw [hc2]; omega
      refine ⟨cinv_fin ?_ ht1 (by simp [VC.setFin]), ⟨by simp [VC.setFin, h1o], fun _ => by simp [VC.setFin],
        (fun e h' => by cases h'), ?_⟩, by intros; first | rfl | trivial⟩
      · have := inv_valid (c := c) (T := T) (rdr := false) (out := v.core.out)
          ⟨hsz, by rw [hc2]; exact hh⟩ (by rw [hout, hc2]) (Or.inl hte)
        simpa [VC.setFin, h1o, hvs, hv] using this
      · intro x hx; rw [hf] at hx; cases hx

end BB.Validate
