import BB.Proofs.PersistCongrObj
/-!
# Transfer of `FileInv`; `NotifySyncStarting` / `NotifySyncCompleted` keep the shape of the list
-/
namespace BB.Persist

theorem fileInv_like {p p' : PBL} (h : BlocksLike p p') (h1 : p'.oldestEpoch = p.oldestEpoch) (h2 : p'.seeds = p.seeds)
    (h3 : p'.epochLast = p.epochLast) (hs : p.syncedEpochs ≤ p'.syncedEpochs)
    {ss : Nat} {f : SFile} {heldF heldF' : List Blk} {recs : List PRec} {objs : List Obj} {ns : Nat}
    (hh : ∀ b ∈ heldF, ∃ b' ∈ heldF', b'.gid = b.gid ∧ b'.slot = b.slot)
    (hf : FileInv ss f heldF recs objs p ns) : FileInv ss f heldF' recs objs p' ns := by
  refine ⟨hf.gids, ?_, by rw [h1]; have := hf.bound; omega, hf.seedLt, hf.committed, hf.res, ?_⟩
  · intro bs hbs
    obtain ⟨b, hb, g1, g2⟩ := hf.heldIn bs hbs
    obtain ⟨b', hb', g3, g4⟩ := hh b hb
    exact ⟨b', hb', by rw [g3]; exact g1, by rw [g4]; exact g2⟩
  · intro e i i' sd hfi hpi
    rw [refToIdx_congr h1 h2 h3 h.released] at hpi
    obtain ⟨bs, b, hbs, hb, hg⟩ := hf.agree e i i' sd hfi hpi
    obtain ⟨b', hb', g1, _⟩ := h.get' hb
    exact ⟨bs, b', hbs, hb', by rw [g1]; exact hg⟩

theorem BlocksLike.heldF {p p' : PBL} (h : BlocksLike p p') (k : Nat) :
    ∀ b ∈ p.blocks ++ p.toRelease.drop k, ∃ b' ∈ p'.blocks ++ p'.toRelease.drop k, b'.gid = b.gid ∧ b'.slot = b.slot := by
  intro b hb
  rw [h.toRelease]
  rcases List.mem_append.1 hb with hb | hb
  · obtain ⟨b', hb', g1, g2, _⟩ := h.mem' hb
    exact ⟨b', List.mem_append_left _ hb', g1, g2⟩
  · exact ⟨b, List.mem_append_right _ hb, rfl, rfl⟩

theorem blocksLike_map (p : PBL) (f : Blk → Blk)
    (hf : ∀ b, (f b).gid = b.gid ∧ (f b).slot = b.slot ∧ (f b).base = b.base ∧ b.cursor ≤ (f b).cursor)
    (p' : PBL) (hb : p'.blocks = p.blocks.map f) (ht : p'.toRelease = p.toRelease) (hr : p'.released = p.released) :
    BlocksLike p p' := by
  refine ⟨ht, hr, by simp [hb], ?_⟩
  intro i b' hb'
  rw [hb, List.getElem?_map] at hb'
  cases h0 : p.blocks[i]? with
  | none => simp [h0] at hb'
  | some b =>
    simp [h0] at hb'
    subst hb'
    exact ⟨b, rfl, hf b⟩

theorem blocksLike_modify (p : PBL) (k : Nat) (f : Blk → Blk)
    (hf : ∀ b, (f b).gid = b.gid ∧ (f b).slot = b.slot ∧ (f b).base = b.base ∧ b.cursor ≤ (f b).cursor) :
    BlocksLike p (p.setBlk k f) := by
  refine ⟨rfl, rfl, by simp [PBL.setBlk], ?_⟩
  intro i b' hb'
  simp only [PBL.setBlk, List.getElem?_modify] at hb'
  cases h0 : p.blocks[i]? with
  | none => simp [h0] at hb'
  | some b =>
    simp only [h0, Option.map_some] at hb'
    by_cases hk : k = i
    · simp [hk] at hb'; subst hb'; exact ⟨b, rfl, hf b⟩
    · simp [hk] at hb'; subst hb'; exact ⟨b, rfl, rfl, rfl, rfl, Nat.le_refl _⟩

theorem BlocksLike.trans {p p' p'' : PBL} (h1 : BlocksLike p p') (h2 : BlocksLike p' p'') : BlocksLike p p'' := by
  refine ⟨h2.toRelease.trans h1.toRelease, h2.released.trans h1.released, h2.len.trans h1.len, ?_⟩
  intro i b'' hb''
  obtain ⟨b', hb', g1, g2, g3, g4⟩ := h2.get i b'' hb''
  obtain ⟨b, hb, k1, k2, k3, k4⟩ := h1.get i b' hb'
  exact ⟨b, hb, g1.trans k1, g2.trans k2, g3.trans k3, Nat.le_trans k4 g4⟩

theorem blocksLike_notifyStart (p : PBL) (f : Bool) : BlocksLike p (p.notifySyncStarting f) :=
  blocksLike_map p _ (by intro b; simp) _ rfl rfl rfl

theorem blocksLike_notifyCompleted (p : PBL) : BlocksLike p p.notifySyncCompleted :=
  blocksLike_map p _ (by intro b; simp) _ rfl rfl rfl

end BB.Persist
