import BB.Model.Routing
/-!
Helper lemmas for C19, part 3: the hierarchical-instance-names decorator.

* `mem_inits`, `inits_pairwise`: `GetDigestsWithParentInstanceNames` lists exactly the component
  prefixes, shortest first;
* `hierGetAux_spec`: `Get` stops at the first digest whose lookup is not NOT_FOUND;
* `swapRemove_append`, `scan_spec`: the in-place pruning scan keeps exactly the items whose
  direct parent is missing and that have further parents, shortened by one, and reports exactly
  the exhausted ones;
* `hierLoop_ok`, `hierFindMissing_ok`: over a backend that answers honestly about a fixed
  content, the loop reports exactly the digests absent under their name and all ancestors.
Core Lean only.
-/
namespace BB.Routing

/-! ### ancestors -/

theorem mem_inits (name p : Name) : p ∈ inits name ↔ p <+: name := by
  induction name generalizing p with
  | nil => simp [inits]
  | cons c r ih =>
    simp only [inits, List.mem_cons, List.mem_map]
    constructor
    · rintro (rfl | ⟨a, ha, rfl⟩)
      · exact List.nil_prefix
      · exact List.prefix_cons_iff.mpr (Or.inr ⟨a, rfl, (ih a).mp ha⟩)
    · intro h
      rcases List.prefix_cons_iff.mp h with rfl | ⟨t, rfl, ht⟩
      · exact Or.inl rfl
      · exact Or.inr ⟨t, (ih t).mpr ht, rfl⟩

theorem inits_pairwise (name : Name) : (inits name).Pairwise (fun a b => a.length < b.length) := by
  induction name with
  | nil => simp [inits]
  | cons c r ih =>
    simp only [inits, List.pairwise_cons, List.mem_map]
    refine ⟨?_, ?_⟩
    · rintro b ⟨a, _, rfl⟩; simp
    · rw [List.pairwise_map]
      exact ih.imp (by intro a b h; simpa using h)

theorem inits_length (name : Name) : (inits name).length = name.length + 1 := by
  induction name with
  | nil => rfl
  | cons c r ih => simp [inits, ih]

theorem inits_getLast (name : Name) : (inits name).getLast? = some name := by
  induction name with
  | nil => rfl
  | cons c r ih =>
    simp only [inits]
    have hne : (inits r).map (c :: ·) ≠ [] := by
      intro h
      have := congrArg List.length h
      simp [inits_length] at this
    rw [List.getLast?_cons_of_ne_nil hne] <;> simp [List.getLast?_map, ih]

theorem mem_withParents (d a : Dg) : a ∈ withParents d ↔ a.hash = d.hash ∧ a.name <+: d.name := by
  simp only [withParents, List.mem_map, mem_inits]
  constructor
  · rintro ⟨n, hn, rfl⟩; exact ⟨rfl, hn⟩
  · rintro ⟨h1, h2⟩
    refine ⟨a.name, h2, ?_⟩
    cases a; cases d; simp_all

theorem withParents_length (d : Dg) : (withParents d).length = d.name.length + 1 := by
  simp [withParents, inits_length]

theorem withParents_getLast (d : Dg) : (withParents d).getLast? = some d := by
  simp [withParents, List.getLast?_map, inits_getLast]

theorem withParents_pairwise (d : Dg) :
    (withParents d).Pairwise (fun a b => a.name.length < b.name.length) := by
  simp only [withParents, List.pairwise_map]
  exact inits_pairwise d.name

/-! ### Get -/

/-- The lookup of this digest says NOT_FOUND. -/
def nf (get : Dg → GetRes) (d : Dg) : Bool :=
  match get d with
  | .ok _ => false
  | .err e => e.code = codeNotFound

/-- What `Get` returns when the search ends at `d`: the object, the NOT_FOUND as it is, or any
other error with the instance name prepended to the message (same code). -/
def outcome (get : Dg → GetRes) (d : Dg) : GetRes :=
  match get d with
  | .ok p => .ok p
  | .err e => if e.code = codeNotFound then .err e else .err (wrapErr (instancePrefix d.name) e)

theorem hierGetAux_spec (get : Dg → GetRes) (ds : List Dg) (hne : ds ≠ []) :
    ∃ pre x suf, ds = pre ++ x :: suf ∧ (hierGetAux get ds).1 = pre ++ [x] ∧
      (∀ y ∈ pre, nf get y = true) ∧ (hierGetAux get ds).2 = outcome get x ∧
      (suf ≠ [] → nf get x = false) := by
  induction ds with
  | nil => exact absurd rfl hne
  | cons d rest ih =>
    cases rest with
    | nil =>
      refine ⟨[], d, [], rfl, ?_, by simp, ?_, by simp⟩
      · simp only [hierGetAux]; cases get d <;> rfl
      · simp only [hierGetAux, outcome]; cases get d <;> rfl
    | cons d' rest' =>
      cases hg : get d with
      | ok p =>
        refine ⟨[], d, d' :: rest', rfl, ?_, by simp, ?_, ?_⟩
        · simp [hierGetAux, hg]
        · simp [hierGetAux, outcome, hg]
        · intro _; simp [nf, hg]
      | err e =>
        by_cases hc : e.code = codeNotFound
        · obtain ⟨pre, x, suf, h1, h2, h3, h4, h5⟩ := ih (by simp)
          refine ⟨d :: pre, x, suf, by simp [h1], ?_, ?_, ?_, h5⟩
          · simp [hierGetAux, hg, hc, h2]
          · intro y hy
            rcases List.mem_cons.mp hy with rfl | hy
            · simp [nf, hg, hc]
            · exact h3 y hy
          · simp [hierGetAux, hg, hc, h4]
        · refine ⟨[], d, d' :: rest', rfl, ?_, by simp, ?_, ?_⟩
          · simp [hierGetAux, hg, hc]
          · simp [hierGetAux, outcome, hg, hc]
          · intro _; simp [nf, hg, hc]

/-! ### the pruning scan -/

theorem dropLast_append_of_getLast? {α : Type} {l : List α} {a : α} (h : l.getLast? = some a) :
    l.dropLast ++ [a] = l := by
  obtain ⟨ys, rfl⟩ := List.getLast?_eq_some_iff.mp h
  simp

/-- The tail after a swap-remove of its head: the last element comes to the front. -/
def swapTail {α : Type} (rest : List α) : List α :=
  match rest.getLast? with
  | none => []
  | some y => y :: rest.dropLast

theorem swapTail_mem {α : Type} (rest : List α) (a : α) : a ∈ swapTail rest ↔ a ∈ rest := by
  unfold swapTail
  cases h : rest.getLast? with
  | none => simp [List.getLast?_eq_none_iff.mp h]
  | some y =>
    have := dropLast_append_of_getLast? h
    conv => rhs; rw [← this]
    constructor
    · intro h
      rcases List.mem_cons.mp h with h | h
      · exact List.mem_append_right _ (by simp [h])
      · exact List.mem_append_left _ h
    · intro h
      rcases List.mem_append.mp h with h | h
      · exact List.mem_cons_of_mem _ h
      · rw [List.mem_singleton.mp h]; exact List.mem_cons_self

theorem swapTail_length {α : Type} (rest : List α) : (swapTail rest).length = rest.length := by
  unfold swapTail
  cases h : rest.getLast? with
  | none => simp [List.getLast?_eq_none_iff.mp h]
  | some y =>
    have hne : rest ≠ [] := by intro e; simp [e] at h
    have : 0 < rest.length := List.length_pos_iff.mpr hne
    simp only [List.length_cons, List.length_dropLast]
    omega

theorem swapRemove_append {α : Type} (done : List α) (x : α) (rest : List α) :
    swapRemove (done ++ x :: rest) done.length = done ++ swapTail rest := by
  unfold swapRemove swapTail
  cases h : rest.getLast? with
  | none =>
    have hr : rest = [] := List.getLast?_eq_none_iff.mp h
    subst hr
    simp
  | some y =>
    have hne : rest ≠ [] := by intro e; simp [e] at h
    have hl : (done ++ x :: rest).getLast? = some y := by
      rw [List.getLast?_append, List.getLast?_cons_of_ne_nil hne, h]; rfl
    rw [hl]
    simp only
    have hset : (done ++ x :: rest).set done.length y = done ++ y :: rest := by
      rw [List.set_append_right _ _ (Nat.le_refl _)]
      simp
    rw [hset, List.dropLast_append_of_ne_nil (by simp)]
    congr 1
    cases rest with
    | nil => exact absurd rfl hne
    | cons r rs => simp [List.dropLast]

/-- The item survives the round (its direct parent is missing and it has further parents). -/
def keepOf (miss : Dg → Bool) (it : Item) : Option Item :=
  match it.parents.getLast? with
  | none => none
  | some p =>
    if miss p && decide (it.parents.length > 1) then some { it with parents := it.parents.dropLast }
    else none

/-- The item is exhausted in this round (direct parent missing, no further parents). -/
def finOf (miss : Dg → Bool) (it : Item) : Bool :=
  match it.parents.getLast? with
  | none => false
  | some p => miss p && !decide (it.parents.length > 1)

theorem scan_spec (miss : Dg → Bool) : ∀ (fuel : Nat) (done todo : List Item) (f : List Dg),
    todo.length ≤ fuel → (∀ it ∈ todo, it.parents ≠ []) →
    (∀ it, it ∈ (scan miss fuel done.length (done ++ todo) f).1 ↔
      it ∈ done ∨ ∃ x ∈ todo, keepOf miss x = some it) ∧
    (∀ d, d ∈ (scan miss fuel done.length (done ++ todo) f).2 ↔
      d ∈ f ∨ ∃ x ∈ todo, finOf miss x = true ∧ d = x.orig) := by
  intro fuel
  induction fuel with
  | zero =>
    intro done todo f hlen _
    have : todo = [] := List.length_eq_zero_iff.mp (Nat.le_zero.mp hlen)
    subst this
    simp [scan]
  | succ fuel ih =>
    intro done todo f hlen hne
    cases todo with
    | nil => simp [scan]
    | cons x rest =>
      have hget : (done ++ x :: rest)[done.length]? = some x := by
        rw [List.getElem?_append_right (Nat.le_refl _)]; simp
      have hxne : x.parents ≠ [] := hne x (by simp)
      obtain ⟨p, hp⟩ : ∃ p, x.parents.getLast? = some p := by
        cases h : x.parents.getLast? with
        | none => exact absurd (List.getLast?_eq_none_iff.mp h) hxne
        | some p => exact ⟨p, rfl⟩
      have hrest_len : (swapTail rest).length ≤ fuel := by
        rw [swapTail_length]; simp only [List.length_cons] at hlen; omega
      have hrest_ne : ∀ it ∈ swapTail rest, it.parents ≠ [] := by
        intro it hit
        exact hne it (List.mem_cons_of_mem _ ((swapTail_mem rest it).mp hit))
      simp only [scan, hget, hp]
      by_cases hm : miss p = true
      · by_cases hl : x.parents.length > 1
        · -- kept, one parent shorter
          simp only [hm, Bool.not_true, Bool.false_eq_true, ↓reduceIte, hl]
          have hset : (done ++ x :: rest).set done.length { x with parents := x.parents.dropLast } =
              (done ++ [{ x with parents := x.parents.dropLast }]) ++ rest := by
            rw [List.set_append_right _ _ (Nat.le_refl _)]; simp
          have hidx : done.length + 1 = (done ++ [{ x with parents := x.parents.dropLast }]).length := by simp
          rw [hset, hidx]
          have := ih (done ++ [{ x with parents := x.parents.dropLast }]) rest f
            (by simp only [List.length_cons] at hlen; omega)
            (fun it hit => hne it (List.mem_cons_of_mem _ hit))
          obtain ⟨h1, h2⟩ := this
          have hk : keepOf miss x = some { x with parents := x.parents.dropLast } := by
            simp [keepOf, hp, hm, hl]
          have hf : finOf miss x = false := by simp [finOf, hp, hm, hl]
          refine ⟨?_, ?_⟩
          · intro it
            rw [h1 it]
            constructor
            · rintro (h | ⟨y, hy, hky⟩)
              · rcases List.mem_append.mp h with h | h
                · exact Or.inl h
                · have : it = { x with parents := x.parents.dropLast } := List.mem_singleton.mp h
                  exact Or.inr ⟨x, by simp, by rw [hk, this]⟩
              · exact Or.inr ⟨y, List.mem_cons_of_mem _ hy, hky⟩
            · rintro (h | ⟨y, hy, hky⟩)
              · exact Or.inl (List.mem_append_left _ h)
              · rcases List.mem_cons.mp hy with rfl | hy
                · rw [hk] at hky
                  simp only [Option.some.injEq] at hky
                  left
                  rw [← hky]
                  simp
                · exact Or.inr ⟨y, hy, hky⟩
          · intro d
            rw [h2 d]
            constructor
            · rintro (h | ⟨y, hy, hfy, rfl⟩)
              · exact Or.inl h
              · exact Or.inr ⟨y, List.mem_cons_of_mem _ hy, hfy, rfl⟩
            · rintro (h | ⟨y, hy, hfy, rfl⟩)
              · exact Or.inl h
              · rcases List.mem_cons.mp hy with rfl | hy
                · rw [hf] at hfy; exact absurd hfy (by simp)
                · exact Or.inr ⟨y, hy, hfy, rfl⟩
        · -- exhausted
          simp only [hm, Bool.not_true, Bool.false_eq_true, ↓reduceIte, hl]
          rw [swapRemove_append]
          obtain ⟨h1, h2⟩ := ih done (swapTail rest) (f ++ [x.orig]) hrest_len hrest_ne
          have hk : keepOf miss x = none := by simp [keepOf, hp, hm, hl]
          have hf : finOf miss x = true := by simp [finOf, hp, hm, hl]
          refine ⟨?_, ?_⟩
          · intro it
            rw [h1 it]
            constructor
            · rintro (h | ⟨y, hy, hky⟩)
              · exact Or.inl h
              · exact Or.inr ⟨y, List.mem_cons_of_mem _ ((swapTail_mem rest y).mp hy), hky⟩
            · rintro (h | ⟨y, hy, hky⟩)
              · exact Or.inl h
              · rcases List.mem_cons.mp hy with rfl | hy
                · rw [hk] at hky; exact absurd hky (by simp)
                · exact Or.inr ⟨y, (swapTail_mem rest y).mpr hy, hky⟩
          · intro d
            rw [h2 d]
            constructor
            · rintro (h | ⟨y, hy, hfy, rfl⟩)
              · rcases List.mem_append.mp h with h | h
                · exact Or.inl h
                · have : d = x.orig := List.mem_singleton.mp h
                  exact Or.inr ⟨x, by simp, hf, this⟩
              · exact Or.inr ⟨y, List.mem_cons_of_mem _ ((swapTail_mem rest y).mp hy), hfy, rfl⟩
            · rintro (h | ⟨y, hy, hfy, rfl⟩)
              · exact Or.inl (List.mem_append_left _ h)
              · rcases List.mem_cons.mp hy with rfl | hy
                · left; simp
                · exact Or.inr ⟨y, (swapTail_mem rest y).mpr hy, hfy, rfl⟩
      · -- found: dropped
        have hm' : miss p = false := by simpa using hm
        simp only [hm', Bool.not_false, ↓reduceIte]
        rw [swapRemove_append]
        obtain ⟨h1, h2⟩ := ih done (swapTail rest) f hrest_len hrest_ne
        have hk : keepOf miss x = none := by simp [keepOf, hp, hm']
        have hf : finOf miss x = false := by simp [finOf, hp, hm']
        refine ⟨?_, ?_⟩
        · intro it
          rw [h1 it]
          constructor
          · rintro (h | ⟨y, hy, hky⟩)
            · exact Or.inl h
            · exact Or.inr ⟨y, List.mem_cons_of_mem _ ((swapTail_mem rest y).mp hy), hky⟩
          · rintro (h | ⟨y, hy, hky⟩)
            · exact Or.inl h
            · rcases List.mem_cons.mp hy with rfl | hy
              · rw [hk] at hky; exact absurd hky (by simp)
              · exact Or.inr ⟨y, (swapTail_mem rest y).mpr hy, hky⟩
        · intro d
          rw [h2 d]
          constructor
          · rintro (h | ⟨y, hy, hfy, rfl⟩)
            · exact Or.inl h
            · exact Or.inr ⟨y, List.mem_cons_of_mem _ ((swapTail_mem rest y).mp hy), hfy, rfl⟩
          · rintro (h | ⟨y, hy, hfy, rfl⟩)
            · exact Or.inl h
            · rcases List.mem_cons.mp hy with rfl | hy
              · rw [hf] at hfy; exact absurd hfy (by simp)
              · exact Or.inr ⟨y, (swapTail_mem rest y).mpr hy, hfy, rfl⟩

/-! ### the loop -/

/-- The backend answers every successful `FindMissing` honestly about a fixed content. -/
def Honest (fm : Nat → FM) (present : Dg → Bool) : Prop :=
  ∀ k ask m, fm k ask = .ok m → ∀ d, d ∈ m ↔ d ∈ ask ∧ present d = false

theorem mem_lastParents (w : List Item) (it : Item) (p : Dg) (h : it ∈ w)
    (hp : it.parents.getLast? = some p) : p ∈ lastParents w := by
  simp only [lastParents, List.mem_filterMap]
  exact ⟨it, h, hp⟩

theorem hierLoop_ok (fm : Nat → FM) (present : Dg → Bool) (hh : Honest fm present) :
    ∀ (fuel k : Nat) (w : List Item) (f R : List Dg),
    (∀ it ∈ w, it.parents ≠ [] ∧ it.parents.length ≤ fuel) →
    (hierLoop fm fuel k w f).2 = .ok R →
    ∀ d, d ∈ R ↔ d ∈ f ∨ ∃ it ∈ w, it.orig = d ∧ ∀ p ∈ it.parents, present p = false := by
  intro fuel
  induction fuel with
  | zero =>
    intro k w f R hw hr d
    have : w = [] := by
      cases w with
      | nil => rfl
      | cons it rest =>
        obtain ⟨h1, h2⟩ := hw it (by simp)
        have : 0 < it.parents.length := List.length_pos_iff.mpr h1
        omega
    subst this
    simp only [hierLoop, Except.ok.injEq] at hr
    subst hr
    simp
  | succ fuel ih =>
    intro k w f R hw hr d
    simp only [hierLoop] at hr
    by_cases hemp : w.isEmpty = true
    · have : w = [] := List.isEmpty_iff.mp hemp
      subst this
      simp only [List.isEmpty_nil, ↓reduceIte, Except.ok.injEq] at hr
      subst hr
      simp
    · simp only [hemp, Bool.false_eq_true, ↓reduceIte] at hr
      cases hfm : fm k (lastParents w) with
      | error e => simp [hfm] at hr
      | ok m =>
        simp only [hfm] at hr
        obtain ⟨s1, s2⟩ := scan_spec (fun d => decide (d ∈ m)) w.length [] w f (Nat.le_refl _)
          (fun it hit => (hw it hit).1)
        simp only [List.length_nil, List.nil_append, List.not_mem_nil, false_or] at s1 s2
        have hmiss : ∀ it ∈ w, ∀ p, it.parents.getLast? = some p →
            ((decide (p ∈ m)) = true ↔ present p = false) := by
          intro it hit p hp
          have := hh k _ m hfm p
          simp only [decide_eq_true_eq]
          rw [this]
          constructor
          · exact fun h => h.2
          · exact fun h => ⟨mem_lastParents w it p hit hp, h⟩
        have hw' : ∀ it ∈ (scan (fun d => decide (d ∈ m)) w.length 0 w f).1,
            it.parents ≠ [] ∧ it.parents.length ≤ fuel := by
          intro it hit
          obtain ⟨x, hx, hk⟩ := (s1 it).mp hit
          unfold keepOf at hk
          cases hp : x.parents.getLast? with
          | none => simp [hp] at hk
          | some p =>
            simp only [hp] at hk
            split at hk
            · rename_i hcond
              simp only [Option.some.injEq] at hk
              subst hk
              simp only [Bool.and_eq_true, decide_eq_true_eq] at hcond
              have := (hw x hx).2
              refine ⟨?_, ?_⟩
              · intro e
                have := congrArg List.length e
                simp only [List.length_dropLast, List.length_nil] at this
                omega
              · simp only [List.length_dropLast]; omega
            · simp at hk
        have hrec := ih (k + 1) _ _ R hw' (by simpa using hr) d
        rw [hrec, s2 d]
        constructor
        · rintro ((h | ⟨x, hx, hfin, rfl⟩) | ⟨it, hit, rfl, hall⟩)
          · exact Or.inl h
          · right
            refine ⟨x, hx, rfl, ?_⟩
            unfold finOf at hfin
            cases hp : x.parents.getLast? with
            | none => simp [hp] at hfin
            | some p =>
              simp only [hp, Bool.and_eq_true, Bool.not_eq_eq_eq_not, Bool.not_true,
                decide_eq_false_iff_not] at hfin
              have hsplit := dropLast_append_of_getLast? hp
              have hdl : x.parents.dropLast = [] := by
                apply List.eq_nil_of_length_eq_zero
                simp only [List.length_dropLast]; omega
              rw [hdl] at hsplit
              intro q hq
              rw [← hsplit] at hq
              simp only [List.nil_append, List.mem_singleton] at hq
              subst hq
              exact (hmiss x hx q hp).mp hfin.1
          · right
            obtain ⟨x, hx, hk⟩ := (s1 it).mp hit
            unfold keepOf at hk
            cases hp : x.parents.getLast? with
            | none => simp [hp] at hk
            | some p =>
              simp only [hp] at hk
              split at hk
              · rename_i hcond
                simp only [Option.some.injEq] at hk
                subst hk
                simp only [Bool.and_eq_true, decide_eq_true_eq] at hcond
                refine ⟨x, hx, rfl, ?_⟩
                have hsplit := dropLast_append_of_getLast? hp
                intro q hq
                rw [← hsplit] at hq
                rcases List.mem_append.mp hq with hq | hq
                · exact hall q hq
                · simp only [List.mem_singleton] at hq
                  subst hq
                  exact (hmiss x hx q hp).mp (decide_eq_true hcond.1)
              · simp at hk
        · rintro (h | ⟨x, hx, rfl, hall⟩)
          · exact Or.inl (Or.inl h)
          · obtain ⟨p, hp⟩ : ∃ p, x.parents.getLast? = some p := by
              cases h : x.parents.getLast? with
              | none => exact absurd (List.getLast?_eq_none_iff.mp h) (hw x hx).1
              | some p => exact ⟨p, rfl⟩
            have hsplit := dropLast_append_of_getLast? hp
            have hpabs : present p = false := hall p (by rw [← hsplit]; simp)
            have hpm := (hmiss x hx p hp).mpr hpabs
            by_cases hl : x.parents.length > 1
            · right
              refine ⟨{ x with parents := x.parents.dropLast }, ?_, rfl, ?_⟩
              · apply (s1 _).mpr
                exact ⟨x, hx, by simp [keepOf, hp, hpm, hl]⟩
              · intro q hq
                exact hall q (by rw [← hsplit]; exact List.mem_append_left _ hq)
            · left; right
              exact ⟨x, hx, by simp [finOf, hp, hpm, hl], rfl⟩

/-- An error of the loop is an error of one of the backend calls. -/
theorem hierLoop_error (fm : Nat → FM) : ∀ (fuel k : Nat) (w : List Item) (f : List Dg) (e : Err),
    (hierLoop fm fuel k w f).2 = .error e → ∃ k' ask, fm k' ask = .error e := by
  intro fuel
  induction fuel with
  | zero => intro k w f e h; simp [hierLoop] at h
  | succ fuel ih =>
    intro k w f e h
    simp only [hierLoop] at h
    by_cases hemp : w.isEmpty = true
    · simp [hemp] at h
    · simp only [hemp, Bool.false_eq_true, ↓reduceIte] at h
      cases hfm : fm k (lastParents w) with
      | error e' =>
        simp only [hfm, Except.error.injEq] at h
        subst h
        exact ⟨k, _, hfm⟩
      | ok m =>
        simp only [hfm] at h
        exact ih _ _ _ e (by simpa using h)

/-- Without backend errors the loop succeeds. -/
theorem hierLoop_total (fm : Nat → FM) (hok : ∀ k ask, ∃ m, fm k ask = .ok m) :
    ∀ (fuel k : Nat) (w : List Item) (f : List Dg), ∃ R, (hierLoop fm fuel k w f).2 = .ok R := by
  intro fuel
  induction fuel with
  | zero => intro k w f; exact ⟨f, by simp [hierLoop]⟩
  | succ fuel ih =>
    intro k w f
    simp only [hierLoop]
    by_cases hemp : w.isEmpty = true
    · exact ⟨f, by simp [hemp]⟩
    · obtain ⟨m, hm⟩ := hok k (lastParents w)
      simp only [hemp, Bool.false_eq_true, ↓reduceIte, hm]
      obtain ⟨R, hR⟩ := ih (k + 1) (scan (fun d => decide (d ∈ m)) w.length 0 w f).1
        (scan (fun d => decide (d ∈ m)) w.length 0 w f).2
      exact ⟨R, by simpa using hR⟩

/-! ### the split and the whole operation -/

theorem hierSplit_spec (m : List Dg) :
    (∀ it, it ∈ (hierSplit m).1 ↔
      ∃ d ∈ m, d.name ≠ [] ∧ it = { orig := d, parents := (withParents d).dropLast }) ∧
    (∀ d, d ∈ (hierSplit m).2 ↔ d ∈ m ∧ d.name = []) := by
  induction m with
  | nil => simp [hierSplit]
  | cons d ds ih =>
    obtain ⟨h1, h2⟩ := ih
    simp only [hierSplit]
    by_cases hn : d.name = []
    · have hl : ¬ (withParents d).length > 1 := by rw [withParents_length, hn]; simp
      simp only [hl, ↓reduceIte]
      refine ⟨?_, ?_⟩
      · intro it
        rw [h1 it]
        simp [hn]
      · intro x
        simp only [List.mem_cons, h2 x]
        constructor
        · rintro (rfl | h)
          · exact ⟨Or.inl rfl, hn⟩
          · exact ⟨Or.inr h.1, h.2⟩
        · rintro ⟨rfl | h, hx⟩
          · exact Or.inl rfl
          · exact Or.inr ⟨h, hx⟩
    · have hl : (withParents d).length > 1 := by
        rw [withParents_length]
        have : 0 < d.name.length := List.length_pos_iff.mpr hn
        omega
      simp only [hl, ↓reduceIte]
      refine ⟨?_, ?_⟩
      · intro it
        simp only [List.mem_cons, h1 it, exists_eq_or_imp]
        constructor
        · rintro (rfl | h)
          · exact Or.inl ⟨hn, rfl⟩
          · exact Or.inr h
        · rintro (⟨_, rfl⟩ | h)
          · exact Or.inl rfl
          · exact Or.inr h
      · intro x
        rw [h2 x]
        simp only [List.mem_cons]
        constructor
        · rintro ⟨h, hx⟩; exact ⟨Or.inr h, hx⟩
        · rintro ⟨rfl | h, hx⟩
          · exact absurd hx hn
          · exact ⟨h, hx⟩

theorem le_maxDepth (w : List Item) (it : Item) (h : it ∈ w) : it.parents.length ≤ maxDepth w := by
  induction w with
  | nil => simp at h
  | cons x rest ih =>
    simp only [maxDepth]
    rcases List.mem_cons.mp h with rfl | h
    · exact Nat.le_max_left _ _
    · exact Nat.le_trans (ih h) (Nat.le_max_right _ _)

/-- `FindMissing` over an honest backend: exactly the digests absent under their own name and
under every ancestor name. -/
theorem hierFindMissing_ok (fm : Nat → FM) (present : Dg → Bool) (hh : Honest fm present)
    (digests R : List Dg) (hr : (hierFindMissing fm digests).2 = .ok R) :
    ∀ d, d ∈ R ↔ d ∈ digests ∧ ∀ a ∈ withParents d, present a = false := by
  unfold hierFindMissing at hr
  cases hfm : fm 0 digests with
  | error e => simp [hfm] at hr
  | ok m =>
    simp only [hfm] at hr
    obtain ⟨s1, s2⟩ := hierSplit_spec m
    have hm := hh 0 digests m hfm
    have hw : ∀ it ∈ (hierSplit m).1, it.parents ≠ [] ∧ it.parents.length ≤ maxDepth (hierSplit m).1 + 1 := by
      intro it hit
      refine ⟨?_, Nat.le_succ_of_le (le_maxDepth _ it hit)⟩
      obtain ⟨d, _, hn, rfl⟩ := (s1 it).mp hit
      intro e
      have := congrArg List.length e
      simp only [List.length_dropLast, withParents_length, List.length_nil] at this
      have : 0 < d.name.length := List.length_pos_iff.mpr hn
      omega
    have hloop := hierLoop_ok fm present hh _ 1 _ _ R hw (by simpa using hr)
    intro d
    rw [hloop d, s2 d]
    have hsplit : ∀ x : Dg, (withParents x).dropLast ++ [x] = withParents x :=
      fun x => dropLast_append_of_getLast? (withParents_getLast x)
    constructor
    · rintro (⟨hdm, hn⟩ | ⟨it, hit, rfl, hall⟩)
      · refine ⟨((hm d).mp hdm).1, ?_⟩
        intro a ha
        have := (mem_withParents d a).mp ha
        rw [hn] at this
        have ha0 : a.name = [] := List.prefix_nil.mp this.2
        have : a = d := by cases a; cases d; simp_all
        subst this
        exact ((hm a).mp hdm).2
      · obtain ⟨x, hx, _, rfl⟩ := (s1 it).mp hit
        refine ⟨((hm x).mp hx).1, ?_⟩
        intro a ha
        rw [← hsplit x] at ha
        rcases List.mem_append.mp ha with ha | ha
        · exact hall a ha
        · simp only [List.mem_singleton] at ha
          subst ha
          exact ((hm a).mp hx).2
    · rintro ⟨hd, hall⟩
      have hdm : d ∈ m := (hm d).mpr ⟨hd, hall d (by rw [← hsplit d]; simp)⟩
      by_cases hn : d.name = []
      · exact Or.inl ⟨hdm, hn⟩
      · right
        refine ⟨{ orig := d, parents := (withParents d).dropLast }, (s1 _).mpr ⟨d, hdm, hn, rfl⟩, rfl, ?_⟩
        intro a ha
        exact hall a (by rw [← hsplit d]; exact List.mem_append_left _ ha)

/-- An error of `FindMissing` is the error of one of the backend calls, unchanged. -/
theorem hierFindMissing_error (fm : Nat → FM) (digests : List Dg) (e : Err)
    (h : (hierFindMissing fm digests).2 = .error e) : ∃ k ask, fm k ask = .error e := by
  unfold hierFindMissing at h
  cases hfm : fm 0 digests with
  | error e' =>
    simp only [hfm, Except.error.injEq] at h
    subst h
    exact ⟨0, digests, hfm⟩
  | ok m =>
    simp only [hfm] at h
    exact hierLoop_error fm _ _ _ _ e (by simpa using h)

theorem hierFindMissing_total (fm : Nat → FM) (hok : ∀ k ask, ∃ m, fm k ask = .ok m)
    (digests : List Dg) : ∃ R, (hierFindMissing fm digests).2 = .ok R := by
  unfold hierFindMissing
  obtain ⟨m, hm⟩ := hok 0 digests
  simp only [hm]
  obtain ⟨R, hR⟩ := hierLoop_total fm hok (maxDepth (hierSplit m).1 + 1) 1 (hierSplit m).1 (hierSplit m).2
  exact ⟨R, by simpa using hR⟩

end BB.Routing
