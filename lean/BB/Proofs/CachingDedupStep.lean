import BB.Proofs.CachingDedup
/-! Preservation of `DInv` by every step of the deduplicating replicator protocol. -/
namespace BB.Caching

@[simp] theorem setCaller_regs (s : DState) (i c) : (s.setCaller i c).regs = s.regs := rfl
@[simp] theorem setCaller_nregs (s : DState) (i c) : (s.setCaller i c).nregs = s.nregs := rfl
@[simp] theorem setCaller_inFlight (s : DState) (i c) : (s.setCaller i c).inFlight = s.inFlight := rfl
@[simp] theorem setCaller_now (s : DState) (i c) : (s.setCaller i c).now = s.now + 1 := rfl
@[simp] theorem setCaller_ncallers (s : DState) (i c) : (s.setCaller i c).ncallers = s.ncallers := rfl
@[simp] theorem setCaller_callers (s : DState) (i c j) :
    (s.setCaller i c).callers j = if j = i then c else s.callers j := rfl
@[simp] theorem setReg_regs (s : DState) (r x q) : (s.setReg r x).regs q = if q = r then x else s.regs q := rfl
@[simp] theorem setReg_nregs (s : DState) (r x) : (s.setReg r x).nregs = s.nregs := rfl
@[simp] theorem setReg_inFlight (s : DState) (r x) : (s.setReg r x).inFlight = s.inFlight := rfl
@[simp] theorem setReg_now (s : DState) (r x) : (s.setReg r x).now = s.now := rfl
@[simp] theorem setReg_ncallers (s : DState) (r x) : (s.setReg r x).ncallers = s.ncallers := rfl
@[simp] theorem setReg_callers (s : DState) (r x) : (s.setReg r x).callers = s.callers := rfl

/-- Assembling the invariant of the successor state from the frame and the acting caller's part. -/
theorem DInv.of_step {s s' : DState} (i : Nat) (hinv : DInv s) (hf : Frame s s' i)
    (hcal : ∀ j, j ≠ i → s'.callers j = s.callers j)
    (hn : ∀ j, j < s'.ncallers → j ≠ i → j < s.ncallers)
    (hi : CInv s' i (s'.callers i))
    (hinfl : ∀ k r, s'.inFlight k = some r → r < s'.nregs ∧ (s'.regs r).key = k ∧ (s'.regs r).tDereg = none)
    (hfin : ∀ r, r < s'.nregs → (s'.regs r).outcome ≠ none → (s'.regs r).tDereg ≠ none)
    (htreg : ∀ r, r < s'.nregs → (s'.regs r).tReg ≤ s'.now) : DInv s' := by
  refine ⟨hinfl, hfin, htreg, ?_⟩
  intro j hj
  by_cases hji : j = i
  · subst hji; exact hi
  · rw [hcal j hji]
    exact (hinv.callers j (hn j hj hji)).frame hinv hf hji

/-- Steps that only touch the acting caller's record. -/
theorem Frame.setCaller (s : DState) (i : Nat) (c : DCaller) (i' : Nat) : Frame s (s.setCaller i c) i' := by
  refine ⟨by simp, by simp, ?_, ?_, ?_, ?_, ?_, ?_, ?_⟩ <;> intros <;> simp_all

theorem DInv.setCaller {s : DState} {i : Nat} {c' : DCaller} (hinv : DInv s)
    (h : CInv (s.setCaller i c') i c') : DInv (s.setCaller i c') := by
  refine DInv.of_step i hinv (Frame.setCaller s i c' i) ?_ ?_ ?_ ?_ ?_ ?_
  · intro j hj; simp [hj]
  · intro j hj _; simpa using hj
  · simpa using h
  · simpa using hinv.infl
  · simpa using hinv.fin
  · intro r hr; have := hinv.treg r (by simpa using hr); simp; omega

/-- The acting caller's old invariant, transported to the state after its own `setCaller`. -/
theorem CInv.after {s : DState} {i : Nat} {c : DCaller} (c' : DCaller) (hinv : DInv s) (h : CInv s i c) :
    CInv (s.setCaller i c') i c := by
  have hf := Frame.setCaller s i c' (i + 1)
  exact h.frame hinv hf (by omega)

/-- Replacing the program counter (and nothing the other clauses read). -/
theorem CInv.withPc {s : DState} {i : Nat} {c : DCaller} (pc : DPc) (h : CInv s i c)
    (hpc : PcInv s i { c with pc := pc } pc) : CInv s i { c with pc := pc } :=
  ⟨h.tStart, h.tEnd, h.cover, h.wit, hpc⟩

theorem inv_cancel {s : DState} {i : Nat} (hinv : DInv s) (hi : i < s.ncallers) :
    DInv (s.setCaller i { s.callers i with cancelled := true }) := by
  apply hinv.setCaller
  have h := (hinv.callers i hi).after { s.callers i with cancelled := true } hinv
  exact ⟨h.tStart, h.tEnd, h.cover, h.wit, h.pc⟩

theorem inv_enter_wait {s : DState} {i k r : Nat} {rest : List Key} (hinv : DInv s) (hi : i < s.ncallers)
    (htodo : (s.callers i).todo = k :: rest) (hfl : s.inFlight k = some r) :
    DInv (s.setCaller i { s.callers i with pc := .wait r, seen := s.now }) := by
  apply hinv.setCaller
  have h := (hinv.callers i hi).after { s.callers i with pc := .wait r, seen := s.now } hinv
  obtain ⟨h1, h2, h3⟩ := hinv.infl k r hfl
  refine ⟨h.tStart, h.tEnd, h.cover, h.wit, ?_⟩
  refine ⟨k, rest, htodo, by simpa using h1, by simpa using h2, ?_, ?_, ?_, ?_⟩
  · simpa using hinv.treg r h1
  · exact (hinv.callers i hi).tStart
  · simp
  · intro td htd; simp [h3] at htd

theorem inv_wake_fail {s : DState} {i : Nat} (hinv : DInv s) (hi : i < s.ncallers)
    {k : Key} {rest : List Key} (htodo : (s.callers i).todo = k :: rest) :
    DInv (s.setCaller i { s.callers i with pc := .enter }) := by
  apply hinv.setCaller
  have h := (hinv.callers i hi).after { s.callers i with pc := .enter } hinv
  exact h.withPc _ (by simp [PcInv, htodo])

theorem inv_abort {s : DState} {i : Nat} (hinv : DInv s) (hi : i < s.ncallers) (e : Err) :
    DInv (s.setCaller i { s.callers i with pc := .done (some e), tEnd := s.now }) := by
  apply hinv.setCaller
  have h := (hinv.callers i hi).after { s.callers i with pc := .done (some e), tEnd := s.now } hinv
  have h0 := hinv.callers i hi
  refine ⟨h.tStart, by simp, h.cover, ?_, trivial⟩
  intro w hw
  obtain ⟨a1, a2, a3, a4, a5, a6, a7⟩ := h.wit w hw
  exact ⟨a1, a2, a3, a4, by have := h0.tEnd; simp; omega, a6, a7⟩

/-- A leader stays a leader while only its program counter moves within the leader phase. -/
theorem inv_leader_pc {s : DState} {i r : Nat} (hinv : DInv s) (hi : i < s.ncallers)
    (hl : Leader s i (s.callers i) r) (pc : DPc) (hpc : pc = .copy r ∨ ∃ o, pc = .dereg r o) :
    DInv (s.setCaller i { s.callers i with pc := pc }) := by
  apply hinv.setCaller
  have h := (hinv.callers i hi).after { s.callers i with pc := pc } hinv
  apply h.withPc
  obtain ⟨k, rest, h1, h2, h3, h4, h5, h6⟩ := hl
  have hl' : Leader (s.setCaller i { s.callers i with pc := pc }) i { s.callers i with pc := pc } r :=
    ⟨k, rest, h1, by simpa using h2, by simpa using h3, by simpa using h4, by simpa using h5, by simp; omega⟩
  rcases hpc with hpc | ⟨o, hpc⟩ <;> subst hpc <;> exact hl'

/-- Passing a digest: the new witness is fine, the old ones stay fine although `tEnd` moves. -/
theorem CInv.advance {s' : DState} {i : Nat} {c : DCaller} {k r t now : Nat} {rest : List Key}
    (hts : c.tStart ≤ s'.now) (hcov : c.wit.map (·.1) ++ c.todo = c.digests) (hwit : ∀ w ∈ c.wit, WitOk s' c w)
    (htodo : c.todo = k :: rest) (hnow : c.tEnd ≤ now) (hnow' : now ≤ s'.now)
    (hr : r < s'.nregs) (hk : (s'.regs r).key = k) (ho : ∃ o, (s'.regs r).outcome = some o ∧ o.isOk = true)
    (h1 : c.tStart ≤ t) (h2 : t ≤ now) (h3 : (s'.regs r).tReg ≤ t)
    (h4 : ∀ td, (s'.regs r).tDereg = some td → t ≤ td) :
    CInv s' i (c.advance k r t now rest) := by
  refine ⟨hts, hnow', ?_, ?_, ?_⟩
  · have := hcov
    rw [htodo] at this
    simp [DCaller.advance, ← this]
  · intro w hw
    simp only [DCaller.advance, List.mem_append, List.mem_singleton] at hw
    rcases hw with hw | hw
    · obtain ⟨a1, a2, a3, a4, a5, a6, a7⟩ := hwit w hw
      exact ⟨a1, a2, a3, a4, Nat.le_trans a5 hnow, a6, a7⟩
    · subst hw
      exact ⟨hr, hk, ho, h1, h2, h3, h4⟩
  · cases rest with
    | nil => simp [DCaller.advance, PcInv]
    | cons a l => simp [DCaller.advance, PcInv]

theorem inv_wake_ok {s : DState} {i r : Nat} {k : Key} {rest : List Key} {o : Outcome} (hinv : DInv s)
    (hi : i < s.ncallers) (hpc : (s.callers i).pc = .wait r) (htodo : (s.callers i).todo = k :: rest)
    (ho : (s.regs r).outcome = some o) (hok : o.isOk = true) :
    DInv (s.setCaller i ((s.callers i).advance k r (s.callers i).seen s.now rest)) := by
  apply hinv.setCaller
  have h0 := hinv.callers i hi
  have h := h0.after ((s.callers i).advance k r (s.callers i).seen s.now rest) hinv
  have hp := h0.pc
  rw [hpc] at hp
  obtain ⟨k', rest', b1, b2, b3, b4, b5, b6, b7⟩ := hp
  rw [htodo] at b1
  obtain ⟨rfl, rfl⟩ := List.cons.inj b1
  exact CInv.advance h.tStart h.cover h.wit htodo h0.tEnd (by simp) (by simpa using b2) (by simpa using b3)
    ⟨o, by simpa using ho, hok⟩ b5 b6 (by simpa using b4) (by simpa using b7)

theorem inv_call {s : DState} (hinv : DInv s) (ks : List Key) (cn : Bool) :
    DInv { s with callers := fun j => if j = s.ncallers then
                    { digests := ks, todo := ks, cancelled := cn, tStart := s.now, tEnd := s.now,
                      pc := if ks.isEmpty then .done none else .enter } else s.callers j
                  ncallers := s.ncallers + 1, now := s.now + 1 } := by
  refine DInv.of_step s.ncallers hinv ?_ ?_ ?_ ?_ ?_ ?_ ?_
  · refine ⟨by simp, by simp, ?_, ?_, ?_, ?_, ?_, ?_, ?_⟩ <;> intros <;> simp_all
  · intro j hj; simp [hj]
  · intro j hj hne; simp at hj; omega
  · refine ⟨by simp, by simp, by simp, by simp, ?_⟩
    cases ks with
    | nil => simp [PcInv]
    | cons a l => simp [PcInv]
  · simpa using hinv.infl
  · simpa using hinv.fin
  · intro r hr; have := hinv.treg r (by simpa using hr); simp; omega

/-- The state after `enter` found no registration. -/
def enterReg (s : DState) (i : Nat) (k : Key) : DState :=
  (({ s with inFlight := fun k' => if k' = k then some s.nregs else s.inFlight k', nregs := s.nregs + 1 }).setReg
    s.nregs { key := k, owner := i, tReg := s.now }).setCaller i { s.callers i with pc := .sink s.nregs }

theorem inv_enter_reg {s : DState} {i : Nat} {k : Key} {rest : List Key} (hinv : DInv s) (hi : i < s.ncallers)
    (htodo : (s.callers i).todo = k :: rest) (hfl : s.inFlight k = none) :
    DInv (enterReg s i k) := by
  have h0 := hinv.callers i hi
  have hfr : Frame s (enterReg s i k) (i + 1) := by
    unfold enterReg
    refine ⟨by simp, by simp, ?_, ?_, ?_, ?_, ?_, ?_, ?_⟩
    · intro r hr _; simp [Nat.ne_of_lt hr]
    · intro r hr; simp [Nat.ne_of_lt hr]
    · intro r hr; simp [Nat.ne_of_lt hr]
    · intro r hr; simp [Nat.ne_of_lt hr]
    · intro r hr o ho; simp [Nat.ne_of_lt hr, ho]
    · intro r hr td htd; left; simpa [Nat.ne_of_lt hr] using htd
    · intro k' r hk' _
      have : k' ≠ k := by intro h; subst h; simp [hfl] at hk'
      simp [this, hk']
  have hfr' : Frame s (enterReg s i k) i :=
    ⟨hfr.now_le, hfr.nregs_le, fun r hr _ => by simp [enterReg, Nat.ne_of_lt hr], hfr.key, hfr.owner, hfr.tReg,
      hfr.outcome, hfr.tDereg, fun k' r hk' _ => by
        have : k' ≠ k := by intro h; subst h; simp [hfl] at hk'
        simp [enterReg, this, hk']⟩
  have hfr0 := hfr
  unfold enterReg at hfr ⊢
  refine DInv.of_step i hinv hfr' ?_ ?_ ?_ ?_ ?_ ?_
  · intro j hj; simp [hj]
  · intro j hj _; simpa using hj
  · have h := h0.frame hinv hfr (by omega)
    simp only [setCaller_callers, if_true]
    apply h.withPc
    exact ⟨k, rest, htodo, by simp, by simp, by simp, by simpa using h0.tStart, by simp⟩
  · intro k' r hk'
    simp only [setCaller_inFlight, setReg_inFlight] at hk'
    by_cases hkk : k' = k
    · subst hkk; simp at hk'; subst hk'; simp
    · simp [hkk] at hk'
      obtain ⟨a1, a2, a3⟩ := hinv.infl k' r hk'
      simp [Nat.ne_of_lt a1, a2, a3]; omega
  · intro r hr
    by_cases hrr : r = s.nregs
    · subst hrr; simp
    · have : r < s.nregs := by simp at hr; omega
      simpa [hrr] using hinv.fin r this
  · intro r hr
    by_cases hrr : r = s.nregs
    · subst hrr; simp
    · have : r < s.nregs := by simp at hr; omega
      have := hinv.treg r this
      simp [hrr]; omega

/-- The state after `dereg`. -/
def deregState (s : DState) (i : Nat) (k : Key) (r : Nat) (o : Outcome) : DState :=
  (({ s with inFlight := fun k' => if k' = k then none else s.inFlight k' }).setReg
    r { s.regs r with tDereg := some s.now }).setCaller i { s.callers i with pc := .publish r o }

theorem inv_dereg {s : DState} {i r : Nat} {k : Key} {rest : List Key} {o : Outcome} (hinv : DInv s)
    (hi : i < s.ncallers) (hpc : (s.callers i).pc = .dereg r o) (htodo : (s.callers i).todo = k :: rest) :
    DInv (deregState s i k r o) := by
  have h0 := hinv.callers i hi
  have hp := h0.pc
  rw [hpc] at hp
  obtain ⟨k', rest', b1, b2, b3, b4, b5, b6⟩ := hp
  rw [htodo] at b1
  obtain ⟨rfl, rfl⟩ := List.cons.inj b1
  obtain ⟨c1, c2, c3⟩ := hinv.infl k r b2
  have hfr : Frame s (deregState s i k r o) i := by
    refine ⟨by simp [deregState], by simp [deregState], ?_, ?_, ?_, ?_, ?_, ?_, ?_⟩
    · intro q hq hne
      have : q ≠ r := by intro h; subst h; exact hne b3
      simp [deregState, this]
    · intro q hq; by_cases hqr : q = r <;> simp [deregState, hqr]
    · intro q hq; by_cases hqr : q = r <;> simp [deregState, hqr]
    · intro q hq; by_cases hqr : q = r <;> simp [deregState, hqr]
    · intro q hq o' ho'; by_cases hqr : q = r
      · subst hqr; simpa [deregState] using ho'
      · simpa [deregState, hqr] using ho'
    · intro q hq td htd; by_cases hqr : q = r
      · subst hqr; right; simp [deregState] at htd; omega
      · left; simpa [deregState, hqr] using htd
    · intro k' q hk' hne
      have : k' ≠ k := by
        intro h; subst h; rw [b2] at hk'; cases hk'; exact hne b3
      simp [deregState, this, hk']
  refine DInv.of_step i hinv hfr ?_ ?_ ?_ ?_ ?_ ?_
  · intro j hj; simp [deregState, hj]
  · intro j hj _; simpa [deregState] using hj
  · have hc : (deregState s i k r o).callers i = { s.callers i with pc := .publish r o } := by
      simp [deregState]
    rw [hc]
    refine ⟨by have := h0.tStart; simp [deregState]; omega, by have := h0.tEnd; simp [deregState]; omega,
      h0.cover, fun w hw => (h0.wit w hw).frame hfr h0.tEnd, ?_⟩
    refine ⟨k, rest, htodo, by simpa [deregState] using c1, by simpa [deregState] using c2,
      by simpa [deregState] using b3, by simpa [deregState] using b4, s.now, by simp [deregState],
      by simpa [deregState] using b6, h0.tStart, by simp [deregState]⟩
  · intro k' q hk'
    by_cases hkk : k' = k
    · subst hkk; simp [deregState] at hk'
    · simp [deregState, hkk] at hk'
      obtain ⟨a1, a2, a3⟩ := hinv.infl k' q hk'
      have : q ≠ r := by intro h; subst h; exact hkk (a2.symm.trans c2)
      simp [deregState, this, a1, a2, a3]
  · intro q hq
    by_cases hqr : q = r
    · subst hqr; simp [deregState]
    · simpa [deregState, hqr] using hinv.fin q (by simpa [deregState] using hq)
  · intro q hq
    have := hinv.treg q (by simpa [deregState] using hq)
    by_cases hqr : q = r
    · subst hqr; simp [deregState]; omega
    · simp [deregState, hqr]; omega

theorem Frame.publish {s : DState} {i r : Nat} (c' : DCaller) (o : Outcome) (hr : r < s.nregs)
    (hown : (s.regs r).owner = i) (hnone : (s.regs r).outcome = none) :
    Frame s ((s.setReg r { s.regs r with outcome := some o }).setCaller i c') i := by
  refine ⟨by simp, by simp, ?_, ?_, ?_, ?_, ?_, ?_, ?_⟩
  · intro q hq hne
    have : q ≠ r := by intro h; subst h; exact hne hown
    simp [this]
  · intro q hq; by_cases hqr : q = r <;> simp [hqr]
  · intro q hq; by_cases hqr : q = r <;> simp [hqr]
  · intro q hq; by_cases hqr : q = r <;> simp [hqr]
  · intro q hq o' ho'; by_cases hqr : q = r
    · subst hqr; rw [hnone] at ho'; cases ho'
    · simpa [hqr] using ho'
  · intro q hq td htd; left; by_cases hqr : q = r
    · subst hqr; simpa using htd
    · simpa [hqr] using htd
  · intro k' q hk' _; simpa using hk'

theorem inv_publish {s : DState} {i r : Nat} {k : Key} {rest : List Key} {o : Outcome} (hinv : DInv s)
    (hi : i < s.ncallers) (hpc : (s.callers i).pc = .publish r o) (htodo : (s.callers i).todo = k :: rest)
    (c' : DCaller)
    (hc' : c' = (s.callers i).advance k r ((s.regs r).tDereg.getD s.now) s.now rest ∧ o.isOk = true ∨
           ∃ e, c' = { s.callers i with pc := .done (some e), tEnd := s.now }) :
    DInv ((s.setReg r { s.regs r with outcome := some o }).setCaller i c') := by
  have h0 := hinv.callers i hi
  have hp := h0.pc
  rw [hpc] at hp
  obtain ⟨k', rest', b1, b2, b3, b4, b5, td, b6, b7, b8, b9⟩ := hp
  rw [htodo] at b1
  obtain ⟨rfl, rfl⟩ := List.cons.inj b1
  have hfr := Frame.publish c' o b2 b4 b5
  refine DInv.of_step i hinv hfr ?_ ?_ ?_ ?_ ?_ ?_
  · intro j hj; simp [hj]
  · intro j hj _; simpa using hj
  · simp only [setCaller_callers, if_true]
    have hts : ∀ c'' : DCaller,
        (s.callers i).tStart ≤ ((s.setReg r { s.regs r with outcome := some o }).setCaller i c'').now := by
      intro c''; have := h0.tStart; simp; omega
    have hwit : ∀ c'' : DCaller, ∀ w ∈ (s.callers i).wit,
        WitOk ((s.setReg r { s.regs r with outcome := some o }).setCaller i c'') (s.callers i) w :=
      fun c'' w hw => (h0.wit w hw).frame (Frame.publish c'' o b2 b4 b5) h0.tEnd
    have hget : (s.regs r).tDereg.getD s.now = td := by simp [b6]
    rcases hc' with ⟨rfl, hok⟩ | ⟨e, rfl⟩
    · rw [hget]
      exact CInv.advance (hts _) h0.cover (hwit _) htodo h0.tEnd (by simp) (by simpa using b2) (by simpa using b3)
        ⟨o, by simp, hok⟩ b8 b9 (by simpa using b7) (by intro td' h; simp [b6] at h; omega)
    · refine ⟨hts _, by simp, h0.cover, ?_, trivial⟩
      intro w hw
      obtain ⟨a1, a2, a3, a4, a5, a6, a7⟩ := hwit _ w hw
      exact ⟨a1, a2, a3, a4, by have := h0.tEnd; simp; omega, a6, a7⟩
  · intro k' q hk'
    obtain ⟨a1, a2, a3⟩ := hinv.infl k' q (by simpa using hk')
    by_cases hqr : q = r
    · subst hqr; simp [a1, a2, a3]
    · simp [hqr, a1, a2, a3]
  · intro q hq
    by_cases hqr : q = r
    · subst hqr; simp [b6]
    · simpa [hqr] using hinv.fin q (by simpa using hq)
  · intro q hq
    have := hinv.treg q (by simpa using hq)
    by_cases hqr : q = r
    · subst hqr; simp; omega
    · simp [hqr]; omega

end BB.Caching
