import BB.Model.Sharding
/-!
# `shardingBlobAccess.FindMissing`: partition, per-backend questions, union / first error
-/
namespace BB.Sharding

variable {κ ε ν : Type}

theorem mem_asked (route : Digest → Nat) (n : Nat) (ds : List Digest) (i : Nat) (qs : List Digest) :
    (i, qs) ∈ asked route n ds ↔ i < n ∧ qs = ds.filter (fun d => route d == i) ∧ qs ≠ [] := by
  unfold asked
  rw [List.mem_filter, List.mem_map]
  constructor
  · rintro ⟨⟨j, hj, heq⟩, hne⟩
    obtain ⟨rfl, rfl⟩ := Prod.mk.inj heq
    refine ⟨List.mem_range.mp hj, rfl, ?_⟩
    intro h
    simp [h] at hne
  · rintro ⟨hi, rfl, hne⟩
    refine ⟨⟨i, List.mem_range.mpr hi, rfl⟩, ?_⟩
    cases h : List.filter (fun d => route d == i) ds with
    | nil => exact absurd h hne
    | cons _ _ => rfl

/-- Each backend index occurs at most once among the questions. -/
theorem asked_nodup (route : Digest → Nat) (n : Nat) (ds : List Digest) :
    ((asked route n ds).map Prod.fst).Nodup := by
  unfold asked
  have hsub : List.Sublist
      ((((List.range n).map fun i => (i, ds.filter fun d => route d == i)).filter fun p => !p.2.isEmpty).map Prod.fst)
      (((List.range n).map fun i => (i, ds.filter fun d => route d == i)).map Prod.fst) :=
    List.Sublist.map _ List.filter_sublist
  have heq : ((List.range n).map fun i => (i, ds.filter fun d => route d == i)).map Prod.fst = List.range n := by
    rw [List.map_map]
    exact List.map_id' _
  rw [heq] at hsub
  exact List.Nodup.sublist hsub List.nodup_range

theorem firstError_none (answers : List (Nat × Except ε (List Digest))) :
    firstError answers = none ↔ ∀ p ∈ answers, ∃ m, p.2 = .ok m := by
  induction answers with
  | nil => simp [firstError]
  | cons p rest ih =>
    obtain ⟨i, r⟩ := p
    cases r with
    | error e =>
      simp only [firstError]
      constructor
      · intro h; cases h
      · intro h
        obtain ⟨m, hm⟩ := h (i, .error e) (List.mem_cons_self ..)
        cases hm
    | ok m =>
      simp only [firstError]
      rw [ih]
      constructor
      · intro h p hp
        rcases List.mem_cons.mp hp with rfl | hp
        · exact ⟨m, rfl⟩
        · exact h p hp
      · intro h p hp
        exact h p (List.mem_cons_of_mem _ hp)

/-- The reported error is the answer of a failing backend, and every backend before it in the
list answered. -/
theorem firstError_some (answers : List (Nat × Except ε (List Digest))) (i : Nat) (e : ε)
    (h : firstError answers = some (i, e)) :
    ∃ l1 l2, answers = l1 ++ (i, .error e) :: l2 ∧ ∀ p ∈ l1, ∃ m, p.2 = .ok m := by
  induction answers with
  | nil => simp [firstError] at h
  | cons p rest ih =>
    obtain ⟨j, r⟩ := p
    cases r with
    | error e' =>
      simp only [firstError, Option.some.injEq, Prod.mk.injEq] at h
      obtain ⟨rfl, rfl⟩ := h
      exact ⟨[], rest, rfl, fun p hp => absurd hp List.not_mem_nil⟩
    | ok m =>
      simp only [firstError] at h
      obtain ⟨l1, l2, hl, hall⟩ := ih h
      refine ⟨(j, .ok m) :: l1, l2, by rw [hl]; rfl, ?_⟩
      intro p hp
      rcases List.mem_cons.mp hp with rfl | hp
      · exact ⟨m, rfl⟩
      · exact hall p hp

theorem mem_unionOk (answers : List (Nat × Except ε (List Digest))) (d : Digest) :
    d ∈ unionOk answers ↔ ∃ i m, (i, Except.ok m) ∈ answers ∧ d ∈ m := by
  induction answers with
  | nil => simp [unionOk]
  | cons p rest ih =>
    obtain ⟨j, r⟩ := p
    cases r with
    | error e =>
      simp only [unionOk]
      rw [ih]
      constructor
      · rintro ⟨i, m, hm, hd⟩
        exact ⟨i, m, List.mem_cons_of_mem _ hm, hd⟩
      · rintro ⟨i, m, hm, hd⟩
        rcases List.mem_cons.mp hm with h | hm
        · cases h
        · exact ⟨i, m, hm, hd⟩
    | ok m' =>
      simp only [unionOk]
      rw [List.mem_append, ih]
      constructor
      · rintro (hd | ⟨i, m, hm, hd⟩)
        · exact ⟨j, m', List.mem_cons_self .., hd⟩
        · exact ⟨i, m, List.mem_cons_of_mem _ hm, hd⟩
      · rintro ⟨i, m, hm, hd⟩
        rcases List.mem_cons.mp hm with h | hm
        · cases h
          exact Or.inl hd
        · exact Or.inr ⟨i, m, hm, hd⟩

/-- The calls `FindMissing` makes are exactly: for each backend with a non-empty part, one
`FindMissing` with that part. -/
theorem findMissing_calls (a : Access κ ε ν) (ds : List Digest) (c : Call) :
    c ∈ (findMissing a ds).1 ↔
      ∃ i, i < a.keys.length ∧ c = Call.fm i (ds.filter fun d => shardOf a.sel d == i) ∧
        (ds.filter fun d => shardOf a.sel d == i) ≠ [] := by
  unfold findMissing
  simp only []
  rw [List.mem_map]
  constructor
  · rintro ⟨⟨i, qs⟩, hp, rfl⟩
    obtain ⟨hi, rfl, hne⟩ := (mem_asked _ _ _ _ _).mp hp
    exact ⟨i, hi, rfl, hne⟩
  · rintro ⟨i, hi, rfl, hne⟩
    exact ⟨(i, _), (mem_asked _ _ _ _ _).mpr ⟨hi, rfl, hne⟩, rfl⟩

end BB.Sharding
