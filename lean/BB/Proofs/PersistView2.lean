import BB.Proofs.PersistView
/-!
# C03: the syncer's steps through the control-state view
-/
namespace BB.Persist

theorem view_g1Start {w w' : World} (hg : w.g1Start = some w') : View w w' := by
  unfold World.g1Start at hg
  split at hg
  · rename_i heq
    simp only [Option.some.injEq] at hg
    subst hg
    refine View.g1 rfl rfl rfl ?_
    rw [heq]
    exact G1Step.start
  · simp at hg

theorem view_syncBegin {w w' : World} (hg : w.syncBegin = some w') : View w w' := by
  unfold World.syncBegin at hg
  split at hg
  · rename_i f heq
    simp only [Option.some.injEq] at hg
    subst hg
    refine View.g1 rfl rfl rfl ?_
    rw [heq]
    exact G1Step.syncBegin f
  · simp at hg

theorem view_syncEnd {w w' : World} (hg : w.syncEnd = some w') : View w w' := by
  unfold World.syncEnd at hg
  split at hg
  · rename_i f heq
    simp only [Option.some.injEq] at hg
    subst hg
    refine View.g1 rfl rfl rfl ?_
    rw [heq]
    exact G1Step.syncEnd f
  · simp at hg

theorem view_syncFail {w w' : World} (hg : w.syncFail = some w') : View w w' := by
  unfold World.syncFail at hg
  split at hg
  · rename_i f heq
    simp only [Option.some.injEq] at hg
    subst hg
    refine View.g1 rfl rfl rfl ?_
    rw [heq]
    exact G1Step.syncFail f
  · simp at hg

theorem view_g1Completed {w w' : World} {sd : Bool} (hg : w.g1Completed sd = some w') : View w w' := by
  unfold World.g1Completed at hg
  split at hg
  · rename_i heq
    simp only at hg
    split at hg
    · simp only [Option.some.injEq] at hg
      subst hg
      refine View.g1 rfl rfl rfl ?_
      rw [heq]
      exact G1Step.shutdown
    · simp only [Option.some.injEq] at hg
      subst hg
      refine View.g1 rfl rfl rfl ?_
      rw [heq]
      exact G1Step.completed false
  · rename_i heq
    simp only [Option.some.injEq] at hg
    subst hg
    refine View.g1 rfl rfl rfl ?_
    rw [heq]
    exact G1Step.completed true
  · simp at hg

theorem view_swBegin {w w' : World} {owner : Nat} (hg : w.swBegin owner = some w') : View w w' := by
  unfold World.swBegin at hg
  split at hg
  · simp at hg
  · rename_i h1
    split at hg
    · simp at hg
    · rename_i h2
      split at hg
      · simp at hg
      · cases hq : w.pbl.getPersistentState with
        | none => simp [hq] at hg
        | some fp =>
          obtain ⟨f, p⟩ := fp
          simp only [hq, Option.some.injEq] at hg
          subst hg
          refine View.swBegin (owner := owner) (f := f) rfl rfl rfl ?_ rfl hq ?_
          · cases hs : w.sw with
            | none => rfl
            | some s => simp [hs] at h1
          · intro ho
            subst ho
            simp only [beq_self_eq_true, Bool.true_and, Bool.not_eq_true', Bool.not_eq_false, Bool.or_eq_true,
              beq_iff_eq] at h2
            rcases h2 with h2 | h2
            · exact ⟨false, h2⟩
            · exact ⟨true, h2⟩

theorem view_swFail {w w' : World} (hg : w.swFail = some w') : View w w' := by
  unfold World.swFail at hg
  split at hg
  · rename_i s hs
    split at hg
    · simp only [Option.some.injEq] at hg
      subst hg
      exact View.swFail rfl rfl rfl rfl hs rfl
    · simp at hg
  · simp at hg

theorem view_swDone {w w' : World} (hg : w.swDone = some w') : View w w' := by
  unfold World.swDone at hg
  split at hg
  · rename_i s hs
    split at hg
    · simp at hg
    · rename_i hst
      simp only [Option.some.injEq] at hg
      rw [foldl_listRelease] at hg
      have h6 : s.stage = 6 := by simpa using hst
      by_cases ho : (s.owner == 1) = true
      · simp only [ho, if_true] at hg
        subst hg
        exact View.swDone rfl rfl ⟨rfl, rfl, rfl, rfl, rfl, rfl, rfl, rfl⟩ hs h6 rfl (by simp only [ho, if_true]; rfl)
      · simp only [ho, if_false] at hg
        subst hg
        exact View.swDone rfl rfl ⟨rfl, rfl, rfl, rfl, rfl, rfl, rfl, rfl⟩ hs h6 rfl (by simp only [ho, if_false]; rfl)
  · simp at hg

end BB.Persist
