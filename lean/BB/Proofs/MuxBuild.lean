import BB.Proofs.MuxProg
/-! Part B: every method on a well-formed buffer is total; programs build well-formed buffers. -/
namespace BB.Mux

theorem toChunkReader_np (n : Nat) (b : Buf) (off : Nat) (all : Bool) (h : WF n b) :
    NoPanic (toChunkReader b off all).res := by
  have g := cr_good n b true h
  simp only [toChunkReader]
  generalize cr b true = r at g ⊢
  cases r with | mk res wT wC cE =>
  cases res with
  | panic => exact absurd rfl g.1
  | err k => cases all <;> simp [NoPanic, ofSR, dropOut, unit]
  | ok d s => cases all <;> simp [NoPanic, ofSR, dropOut, unit]

theorem toReader_np (n : Nat) (b : Buf) (all : Bool) (h : WF n b) : NoPanic (toReader b all).res := by
  have g := rd_good n b true h
  simp only [toReader]
  generalize rd b true = r at g ⊢
  cases r with | mk res wT wC cE =>
  cases res with
  | panic => exact absurd rfl g.1
  | err k => cases all <;> simp [NoPanic, ofSR, unit]
  | ok d s => cases all <;> simp [NoPanic, ofSR, unit]

/-- `GetSizeBytes` answers the digest's size, or the error of an error buffer -/
theorem getSize_wf (n : Nat) : ∀ (b : Buf), WF n b → getSize b = .size n ∨ ∃ k, b = .err k
  | .err k, _ => Or.inr ⟨k, rfl⟩
  | .bytes d, h => Or.inl (by simp only [getSize]; rw [h])
  | .readerAt d, h => Or.inl (by simp only [getSize]; rw [h])
  | .stream _ sz _ _, h => Or.inl (by simp only [getSize]; rw [h.1])
  | .cloned _ dg _, h => Or.inl (by simp only [getSize]; rw [h.1])
  | .task _ dg _ _, h => Or.inl (by simp only [getSize]; rw [h.1])
  | .eh _ dg, h => Or.inl (by simp only [getSize]; rw [h.1])

theorem intoWriterF_np (n : Nat) : ∀ (b : Buf), WF n b → NoPanic (intoWriterF b).res
  | .err k, h => by simp only [intoWriterF]; exact (intoWriter_good n _ h).1
  | .bytes d, h => by simp only [intoWriterF]; exact (intoWriter_good n _ h).1
  | .readerAt d, h => by simp only [intoWriterF]; exact (intoWriter_good n _ h).1
  | .stream c sz q d, h => by simp only [intoWriterF]; exact (intoWriter_good n _ h).1
  | .cloned base dg sibs, h => by simp only [intoWriterF]; exact (intoWriter_good n _ h).1
  | .task base dg t r, h => by
    have ih := intoWriterF_np n base h.2
    have g := afterTask_np (intoWriter base) t r (intoWriter_good n base h.2).1
    simp only [intoWriterF]
    cases hb : (intoWriterF base).res with
    | panic => exact absurd hb ih
    | err k => exact g
    | ok d s => exact g
  | .eh base dg, h => by
    have g := cr_good n (.eh base dg) true h
    simp only [intoWriterF]
    cases hb : (cr (.eh base dg) true).res with
    | panic => exact absurd hb g.1
    | err k => simp [NoPanic]
    | ok d s => simp [NoPanic]

theorem call_np (n : Nat) (b : Buf) (h : WF n b) (m : Method) : NoPanic (call b m).res := by
  cases m with
  | getSizeBytes =>
    simp only [call]
    rcases getSize_wf n b h with e | ⟨k, e⟩
    · rw [e]; simp [NoPanic]
    · subst e; simp [getSize, NoPanic]
  | intoWriter => exact (intoWriter_good n b h).1
  | readAt off len => exact readAt_np n b off len h
  | toProto max => exact (toByteSlice_good n b max h).1
  | toByteSlice max => exact (toByteSlice_good n b max h).1
  | toChunkReader off all => exact toChunkReader_np n b off all h
  | toReader all => exact toReader_np n b all h
  | discard => exact discard_np n b h
  | intoWriterFailing k => exact intoWriterF_np n b h

/-! ### building -/

theorem dg_wf (n : Nat) : ∀ (b : Buf), WF n b →
    (match b with | .err _ | .bytes _ | .readerAt _ => True | _ => b.dg = some n)
  | .err _, _ => trivial
  | .bytes _, _ => trivial
  | .readerAt _, _ => trivial
  | .stream _ sz _ _, h => by simp only [Buf.dg]; rw [h.1]
  | .cloned _ dg _, h => h.1
  | .task _ dg _ _, h => h.1
  | .eh _ dg, h => h.1

theorem baseBuf_wf (env : Env) (k : Kind) : WF env.d.length (baseBuf env k) := by
  cases k <;> simp [baseBuf, WF]

theorem cloneStreamB_wf (env : Env) (hr : env.repaired = true) (n : Nat) (sib : Sib) :
    ∀ (b : Buf), WF n b → WF n (cloneStreamB env sib b)
  | .err _, h => h
  | .bytes _, h => h
  | .readerAt _, h => h
  | .stream c sz q d, h => ⟨by rw [h.1], h⟩
  | .cloned base dg sibs, h => h
  | .eh base dg, h => ⟨h.1, h⟩
  | .task base dg t r, h => ⟨by simp [Env.decorated, hr, h.1], cloneStreamB_wf env hr n sib base h.2⟩

theorem cloneCopy_via (n : Nat) (b : Buf) (max : Nat) (h : WF n b) :
    ∃ b', (match (toByteSlice b max).res with
            | .ok d _ => some (Buf.bytes d) | .err k => some (Buf.err k) | .panic => none) = some b' ∧ WF n b' := by
  have g := toByteSlice_good n b max h
  cases hb : (toByteSlice b max).res with
  | panic => exact absurd hb g.1
  | err k => exact ⟨_, rfl, trivial⟩
  | ok d s => exact ⟨_, rfl, g.2 d s hb⟩

theorem cloneCopyB_wf (env : Env) (hr : env.repaired = true) (n : Nat) (max : Nat) :
    ∀ (b : Buf), WF n b → ∃ b', cloneCopyB env max b = some b' ∧ WF n b'
  | .err k, _ => ⟨_, rfl, trivial⟩
  | .bytes d, h => ⟨_, rfl, h⟩
  | .readerAt d, h => ⟨_, rfl, h⟩
  | .stream c sz q d, h => by simp only [cloneCopyB]; exact cloneCopy_via n _ max h
  | .cloned base dg sibs, h => by simp only [cloneCopyB]; exact cloneCopy_via n _ max h
  | .eh base dg, h => by simp only [cloneCopyB]; exact cloneCopy_via n _ max h
  | .task base dg t r, h => by
    obtain ⟨b', e, w⟩ := cloneCopyB_wf env hr n max base h.2
    refine ⟨.task b' (env.decorated dg) t r, by simp only [cloneCopyB, e], ?_, w⟩
    simp [Env.decorated, hr, h.1]

theorem withTaskB_wf (n t : Nat) (r : Option Nat) : ∀ (b : Buf), WF n b → WF n (withTaskB t r b)
  | .err _, _ => trivial
  | .bytes d, h => by cases r <;> simp [withTaskB, WF, h]
  | .readerAt d, h => by cases r <;> simp [withTaskB, WF, h]
  | .stream c sz q d, h => ⟨dg_wf n _ h, h⟩
  | .cloned base dg sibs, h => ⟨dg_wf n _ h, h⟩
  | .task base dg t' r', h => ⟨dg_wf n _ h, h⟩
  | .eh base dg, h => ⟨dg_wf n _ h, h⟩

theorem withErrorHandlerB_wf (n : Nat) : ∀ (b : Buf), WF n b → WF n (withErrorHandlerB b)
  | .err _, _ => trivial
  | .bytes d, h => h
  | .readerAt d, h => h
  | .stream c sz q d, h => ⟨dg_wf n _ h, h⟩
  | .cloned base dg sibs, h => ⟨dg_wf n _ h, h⟩
  | .task base dg t' r', h => ⟨dg_wf n _ h, h⟩
  | .eh base dg, h => ⟨dg_wf n _ h, h⟩

theorem build_wf (env : Env) (hr : env.repaired = true) : ∀ (e : BufExpr) (k : Nat),
    ∃ b k', build env e k = some (b, k') ∧ WF env.d.length b
  | .base kd, k => ⟨_, _, rfl, baseBuf_wf env kd⟩
  | .cloneStream e side sib, k => by
    obtain ⟨b, k', hb, w⟩ := build_wf env hr e k
    exact ⟨cloneStreamB env sib b, k', by simp only [build, hb], cloneStreamB_wf env hr _ sib b w⟩
  | .cloneCopy e side, k => by
    obtain ⟨b, k', hb, w⟩ := build_wf env hr e k
    obtain ⟨b', hc, w'⟩ := cloneCopyB_wf env hr _ bigMax b w
    exact ⟨b', k', by simp only [build, hb, hc], w'⟩
  | .withTask e r, k => by
    obtain ⟨b, k', hb, w⟩ := build_wf env hr e k
    exact ⟨withTaskB k' r b, k' + 1, by simp only [build, hb], withTaskB_wf _ k' r b w⟩
  | .withErrorHandler e, k => by
    obtain ⟨b, k', hb, w⟩ := build_wf env hr e k
    exact ⟨withErrorHandlerB b, k', by simp only [build, hb], withErrorHandlerB_wf _ b w⟩
  | .replicate e side sib r, k => by
    obtain ⟨b, k', hb, w⟩ := build_wf env hr e k
    exact ⟨withTaskB k' r (cloneStreamB env sib b), k' + 1, by simp only [build, hb],
      withTaskB_wf _ k' r _ (cloneStreamB_wf env hr _ sib b w)⟩

end BB.Mux
