import BB.Model.Routing
import BB.Proofs.RoutingTrie
import BB.Proofs.RoutingPatch
/-!
Helper lemmas for C19, part 4: the demultiplexing composite.

* `buildTrie_spec`, `cfgGetter_ok`, `cfgGetter_error`, `cfgGetter_coherent`: the getter closure
  of the configuration code returns entry `b` exactly when the trie's longest prefix is `b`; the
  matched prefix is a component-wise prefix of the name; equal backend names mean equal routes;
* `partition_spec`: the first loop of `FindMissing` builds one partition per backend name,
  holding exactly the patched digests that resolve to it;
* `arrange_perm`: whatever order Go's map iteration picks, the same partitions are visited;
* `callAll_ok`, `callAll_error`, `callAll_calls`: the second loop.
Core Lean only.
-/
namespace BB.Routing

/-! ### the getter of the configuration code -/

theorem buildTrie_spec (es : Cfg) : ∀ (k : Nat) (t : Node) (p : Name) (v : Nat),
    exact (buildTrie es k t) p = some v →
    exact t p = some v ∨ (k ≤ v ∧ ∃ a, es[v - k]? = some (p, a)) := by
  induction es with
  | nil => intro k t p v h; exact Or.inl h
  | cons e es ih =>
    intro k t p v h
    obtain ⟨m, a⟩ := e
    simp only [buildTrie] at h
    rcases ih (k + 1) (set t m k) p v h with h' | ⟨hk, a', ha'⟩
    · rw [exact_set] at h'
      by_cases hp : p = m
      · simp only [hp, ↓reduceIte, Option.some.injEq] at h'
        subst h'
        right
        exact ⟨Nat.le_refl _, a, by simp [hp]⟩
      · simp only [hp, ↓reduceIte] at h'
        exact Or.inl h'
    · right
      refine ⟨by omega, a', ?_⟩
      have : v - k = (v - (k + 1)) + 1 := by omega
      rw [this]
      simpa using ha'

theorem cfgTrie_exact (cfg : Cfg) (p : Name) (v : Nat) (h : exact (cfgTrie cfg) p = some v) :
    ∃ a, cfg[v]? = some (p, a) := by
  rcases buildTrie_spec cfg 0 Node.empty p v h with h' | ⟨_, a, ha⟩
  · rw [exact_empty] at h'; exact absurd h' (by simp)
  · exact ⟨a, by simpa using ha⟩

/-- A lookup that finds entry `b` found it under the entry's own prefix, a component-wise prefix
of the name. -/
theorem cfg_longest (cfg : Cfg) (n : Name) (b : Nat) (h : longest (cfgTrie cfg) n = some b) :
    ∃ m a, cfg[b]? = some (m, a) ∧ m <+: n ∧ exact (cfgTrie cfg) m = some b := by
  have := longest_isLongest (cfgTrie cfg) n
  rw [h] at this
  obtain ⟨p, hp, hg, _⟩ := this
  obtain ⟨a, ha⟩ := cfgTrie_exact cfg p b hg
  exact ⟨p, a, ha, hp, hg⟩

theorem cfgGetter_ok (cfg : Cfg) (n : Name) (r : Route) (h : cfgGetter cfg n = .ok r) :
    longest (cfgTrie cfg) n = some r.id ∧ cfg[r.id]? = some (r.old, r.new) ∧ r.bname = r.old ∧
      r.old <+: n ∧ exact (cfgTrie cfg) r.old = some r.id := by
  unfold cfgGetter at h
  cases hl : longest (cfgTrie cfg) n with
  | none => simp [hl] at h
  | some b =>
    obtain ⟨m, a, hc, hp, he⟩ := cfg_longest cfg n b hl
    simp only [hl, hc, Except.ok.injEq] at h
    subst h
    exact ⟨rfl, hc, rfl, hp, he⟩

theorem cfgGetter_of_longest (cfg : Cfg) (n : Name) (b : Nat) (h : longest (cfgTrie cfg) n = some b) :
    ∃ m a, cfg[b]? = some (m, a) ∧ cfgGetter cfg n = .ok { id := b, bname := m, old := m, new := a } := by
  obtain ⟨m, a, hc, _, _⟩ := cfg_longest cfg n b h
  exact ⟨m, a, hc, by simp [cfgGetter, h, hc]⟩

theorem cfgGetter_error (cfg : Cfg) (n : Name) (e : Err) (h : cfgGetter cfg n = .error e) :
    longest (cfgTrie cfg) n = none ∧ e = unknownName n := by
  cases hl : longest (cfgTrie cfg) n with
  | none =>
    simp only [cfgGetter, hl, Except.error.injEq] at h
    exact ⟨rfl, h.symm⟩
  | some b =>
    obtain ⟨m, a, _, hg⟩ := cfgGetter_of_longest cfg n b hl
    rw [hg] at h
    exact absurd h (by simp)

theorem cfgGetter_none (cfg : Cfg) (n : Name) (h : longest (cfgTrie cfg) n = none) :
    cfgGetter cfg n = .error (unknownName n) := by
  simp [cfgGetter, h]

/-- Routes with the same backend name are the same route. -/
def Coherent (g : Getter) : Prop :=
  ∀ n m r s, g n = .ok r → g m = .ok s → r.bname = s.bname → r = s

theorem cfgGetter_coherent (cfg : Cfg) : Coherent (cfgGetter cfg) := by
  intro n m r s hr hs hb
  obtain ⟨_, hrc, hrb, _, hre⟩ := cfgGetter_ok cfg n r hr
  obtain ⟨_, hsc, hsb, _, hse⟩ := cfgGetter_ok cfg m s hs
  have hold : r.old = s.old := by rw [← hrb, ← hsb, hb]
  have hid : r.id = s.id := by
    rw [hold, hse] at hre
    exact (Option.some.inj hre).symm
  rw [hid, hsc] at hrc
  simp only [Option.some.injEq, Prod.mk.injEq] at hrc
  cases r; cases s
  simp_all

/-! ### the first loop: partitioning -/

/-- Members of a list that is pairwise related by a symmetric relation are related unless equal. -/
theorem pairwise_mem_ne {α : Type} {R : α → α → Prop} (hs : ∀ a b, R a b → R b a) {l : List α}
    (h : l.Pairwise R) {a b : α} (ha : a ∈ l) (hb : b ∈ l) (hne : a ≠ b) : R a b := by
  induction h with
  | nil => simp at ha
  | cons hx _ ih =>
    rcases List.mem_cons.mp ha with ha1 | ha1
    · rcases List.mem_cons.mp hb with hb1 | hb1
      · exact absurd (ha1.trans hb1.symm) hne
      · rw [ha1]; exact hx b hb1
    · rcases List.mem_cons.mp hb with hb1 | hb1
      · rw [hb1]; exact hs _ _ (hx a ha1)
      · exact ih ha1 hb1

/-- Backend names of the partitions are pairwise different (they are keys of a Go map). -/
def DistinctNames (parts : List Part) : Prop :=
  parts.Pairwise (fun a b => a.route.bname ≠ b.route.bname)

/-- Where the parts of `addToParts` come from. -/
theorem addToParts_cases (parts : List Part) (hpw : DistinctNames parts) (r : Route) (d : Dg) :
    ∀ q ∈ addToParts parts r d,
      (q ∈ parts ∧ q.route.bname ≠ r.bname) ∨
      (∃ p ∈ parts, p.route.bname = r.bname ∧
        q = { p with digests := p.digests ++ [patchDg p.route.old p.route.new d] }) ∨
      (q = { route := r, digests := [patchDg r.old r.new d] } ∧ ∀ p ∈ parts, p.route.bname ≠ r.bname) := by
  induction parts with
  | nil =>
    intro q hq
    simp only [addToParts, List.mem_singleton] at hq
    right; right
    exact ⟨hq, by simp⟩
  | cons p ps ih =>
    intro q hq
    simp only [DistinctNames, List.pairwise_cons] at hpw
    simp only [addToParts] at hq
    by_cases hb : p.route.bname = r.bname
    · simp only [hb, ↓reduceIte, List.mem_cons] at hq
      rcases hq with rfl | hq
      · right; left
        exact ⟨p, by simp, hb, rfl⟩
      · left
        refine ⟨List.mem_cons_of_mem _ hq, ?_⟩
        intro hqb
        exact hpw.1 q hq (by rw [hb, hqb])
    · simp only [hb, ↓reduceIte, List.mem_cons] at hq
      rcases hq with rfl | hq
      · exact Or.inl ⟨by simp, hb⟩
      · rcases ih hpw.2 q hq with ⟨h1, h2⟩ | ⟨p', hp', h1, h2⟩ | ⟨h1, h2⟩
        · exact Or.inl ⟨List.mem_cons_of_mem _ h1, h2⟩
        · exact Or.inr (Or.inl ⟨p', List.mem_cons_of_mem _ hp', h1, h2⟩)
        · right; right
          refine ⟨h1, ?_⟩
          intro p'' hp''
          rcases List.mem_cons.mp hp'' with rfl | hp''
          · exact hb
          · exact h2 p'' hp''

/-- Every old part survives in `addToParts` (possibly extended), and the new digest is in the
part of its backend name. -/
theorem addToParts_covers (parts : List Part) (r : Route) (d : Dg) :
    (∀ p ∈ parts, ∃ q ∈ addToParts parts r d, q.route = p.route ∧ ∀ x ∈ p.digests, x ∈ q.digests) ∧
    (∃ q ∈ addToParts parts r d, q.route.bname = r.bname ∧
      patchDg q.route.old q.route.new d ∈ q.digests ∧
      ((∀ p ∈ parts, p.route.bname ≠ r.bname) → q.route = r)) := by
  induction parts with
  | nil =>
    refine ⟨by simp, ?_⟩
    exact ⟨{ route := r, digests := [patchDg r.old r.new d] }, by simp [addToParts], rfl, by simp, fun _ => rfl⟩
  | cons p ps ih =>
    obtain ⟨ih1, q0, hq0, hq0b, hq0d, hq0r⟩ := ih
    by_cases hb : p.route.bname = r.bname
    · simp only [addToParts, hb, ↓reduceIte]
      refine ⟨?_, ?_⟩
      · intro p' hp'
        rcases List.mem_cons.mp hp' with rfl | hp'
        · exact ⟨_, List.mem_cons_self, rfl, fun x hx => List.mem_append_left _ hx⟩
        · exact ⟨p', List.mem_cons_of_mem _ hp', rfl, fun x hx => hx⟩
      · refine ⟨_, List.mem_cons_self, hb, by simp, ?_⟩
        intro h
        exact absurd hb (h p (by simp))
    · simp only [addToParts, hb, ↓reduceIte]
      refine ⟨?_, ?_⟩
      · intro p' hp'
        rcases List.mem_cons.mp hp' with rfl | hp'
        · exact ⟨p', List.mem_cons_self, rfl, fun x hx => hx⟩
        · obtain ⟨q, hq, h1, h2⟩ := ih1 p' hp'
          exact ⟨q, List.mem_cons_of_mem _ hq, h1, h2⟩
      · refine ⟨q0, List.mem_cons_of_mem _ hq0, hq0b, hq0d, ?_⟩
        intro h
        exact hq0r (fun p' hp' => h p' (List.mem_cons_of_mem _ hp'))

theorem addToParts_distinct (parts : List Part) (hpw : DistinctNames parts) (r : Route) (d : Dg) :
    DistinctNames (addToParts parts r d) := by
  induction parts with
  | nil => simp [addToParts, DistinctNames]
  | cons p ps ih =>
    have hpw' := hpw
    simp only [DistinctNames, List.pairwise_cons] at hpw
    by_cases hb : p.route.bname = r.bname
    · simp only [addToParts, hb, ↓reduceIte, DistinctNames, List.pairwise_cons]
      exact ⟨fun a ha => hb ▸ hpw.1 a ha, hpw.2⟩
    · simp only [addToParts, hb, ↓reduceIte, DistinctNames, List.pairwise_cons]
      refine ⟨?_, ih hpw.2⟩
      intro q hq
      rcases addToParts_cases ps hpw.2 r d q hq with ⟨h1, _⟩ | ⟨p', hp', _, rfl⟩ | ⟨rfl, _⟩
      · exact hpw.1 q h1
      · exact hpw.1 p' hp'
      · exact hb

/-- Invariant of the partitioning loop over the digests seen so far. -/
structure PartInv (g : Getter) (seen : List Dg) (parts : List Part) : Prop where
  /-- only own digests, with the rewritten name -/
  sound : ∀ q ∈ parts, ∀ x ∈ q.digests, ∃ d ∈ seen, g d.name = .ok q.route ∧
    x = patchDg q.route.old q.route.new d
  /-- every digest is in the partition of its backend -/
  complete : ∀ d ∈ seen, ∃ q ∈ parts, g d.name = .ok q.route ∧
    patchDg q.route.old q.route.new d ∈ q.digests
  /-- one partition per backend name -/
  distinct : DistinctNames parts
  /-- no partition without a digest -/
  used : ∀ q ∈ parts, ∃ d ∈ seen, g d.name = .ok q.route

theorem partInv_step (g : Getter) (hc : Coherent g) (seen : List Dg) (parts : List Part)
    (inv : PartInv g seen parts) (d : Dg) (r : Route) (hr : g d.name = .ok r) :
    PartInv g (seen ++ [d]) (addToParts parts r d) := by
  -- a part with r's backend name has r as its route
  have hsame : ∀ p ∈ parts, p.route.bname = r.bname → p.route = r := by
    intro p hp hb
    obtain ⟨d0, _, hd0⟩ := inv.used p hp
    exact hc _ _ _ _ hd0 hr hb
  refine ⟨?_, ?_, addToParts_distinct parts inv.distinct r d, ?_⟩
  · intro q hq x hx
    rcases addToParts_cases parts inv.distinct r d q hq with ⟨h1, _⟩ | ⟨p, hp, hb, rfl⟩ | ⟨rfl, _⟩
    · obtain ⟨d0, hd0, h2, h3⟩ := inv.sound q h1 x hx
      exact ⟨d0, List.mem_append_left _ hd0, h2, h3⟩
    · simp only [List.mem_append, List.mem_singleton] at hx
      rcases hx with hx | rfl
      · obtain ⟨d0, hd0, h2, h3⟩ := inv.sound p hp x hx
        exact ⟨d0, List.mem_append_left _ hd0, h2, h3⟩
      · exact ⟨d, by simp, by rw [hsame p hp hb]; exact hr, rfl⟩
    · simp only [List.mem_singleton] at hx
      exact ⟨d, by simp, hr, hx⟩
  · obtain ⟨cov1, q0, hq0, hq0b, hq0d, hq0r⟩ := addToParts_covers parts r d
    intro d' hd'
    rcases List.mem_append.mp hd' with hd' | hd'
    · obtain ⟨p, hp, h1, h2⟩ := inv.complete d' hd'
      obtain ⟨q, hq, h3, h4⟩ := cov1 p hp
      exact ⟨q, hq, by rw [h3]; exact h1, by rw [h3]; exact h4 _ h2⟩
    · simp only [List.mem_singleton] at hd'
      subst hd'
      refine ⟨q0, hq0, ?_, hq0d⟩
      -- q0's route is r: either it extends a part with r's name, or it is the new part
      rcases addToParts_cases parts inv.distinct r d' q0 hq0 with ⟨_, h2⟩ | ⟨p, hp, hb, rfl⟩ | ⟨rfl, _⟩
      · exact absurd hq0b h2
      · rw [hsame p hp hb]; exact hr
      · exact hr
  · intro q hq
    rcases addToParts_cases parts inv.distinct r d q hq with ⟨h1, _⟩ | ⟨p, hp, hb, rfl⟩ | ⟨rfl, _⟩
    · obtain ⟨d0, hd0, h2⟩ := inv.used q h1
      exact ⟨d0, List.mem_append_left _ hd0, h2⟩
    · obtain ⟨d0, hd0, h2⟩ := inv.used p hp
      exact ⟨d0, List.mem_append_left _ hd0, h2⟩
    · exact ⟨d, by simp, hr⟩

theorem partition_inv (g : Getter) (hc : Coherent g) (ds : List Dg) :
    ∀ (seen : List Dg) (parts res : List Part), PartInv g seen parts →
    partition g ds parts = .ok res → PartInv g (seen ++ ds) res := by
  induction ds with
  | nil =>
    intro seen parts res inv h
    simp only [partition, Except.ok.injEq] at h
    subst h
    simpa using inv
  | cons d ds ih =>
    intro seen parts res inv h
    simp only [partition] at h
    cases hg : g d.name with
    | error e => simp [hg] at h
    | ok r =>
      simp only [hg] at h
      have := ih (seen ++ [d]) _ res (partInv_step g hc seen parts inv d r hg) h
      simpa using this

/-- The partitions built by the first loop of `FindMissing`. -/
theorem partition_spec (g : Getter) (hc : Coherent g) (ds : List Dg) (res : List Part)
    (h : partition g ds [] = .ok res) : PartInv g ds res := by
  have := partition_inv g hc ds [] [] res
    ⟨by simp, by simp, by simp [DistinctNames], by simp⟩ h
  simpa using this

/-- The first loop fails exactly on a digest whose instance name does not resolve, with the
getter's error. -/
theorem partition_error (g : Getter) (ds : List Dg) : ∀ (parts : List Part) (e : Err),
    partition g ds parts = .error e → ∃ d ∈ ds, g d.name = .error e := by
  induction ds with
  | nil => intro parts e h; simp [partition] at h
  | cons d ds ih =>
    intro parts e h
    simp only [partition] at h
    cases hg : g d.name with
    | error e' =>
      simp only [hg, Except.error.injEq] at h
      subst h
      exact ⟨d, by simp, hg⟩
    | ok r =>
      simp only [hg] at h
      obtain ⟨d', hd', h'⟩ := ih _ e h
      exact ⟨d', List.mem_cons_of_mem _ hd', h'⟩

theorem partition_total (g : Getter) (ds : List Dg) (hall : ∀ d ∈ ds, ∃ r, g d.name = .ok r) :
    ∀ parts : List Part, ∃ res, partition g ds parts = .ok res := by
  induction ds with
  | nil => intro parts; exact ⟨parts, rfl⟩
  | cons d ds ih =>
    intro parts
    obtain ⟨r, hr⟩ := hall d (by simp)
    simp only [partition, hr]
    exact ih (fun d' hd' => hall d' (List.mem_cons_of_mem _ hd')) _

/-! ### the order of the second loop -/

theorem arrange_perm (order : List Nat) : ∀ ps : List Part, (arrange order ps).Perm ps := by
  induction order with
  | nil => intro ps; exact List.Perm.refl _
  | cons i is ih =>
    intro ps
    simp only [arrange]
    cases hf : ps.find? (fun p => p.route.id == i) with
    | none => exact ih ps
    | some p =>
      have hp : p ∈ ps := List.mem_of_find?_eq_some hf
      exact ((ih (ps.erase p)).cons p).trans (List.perm_cons_erase hp).symm

/-! ### the second loop: asking the backends -/

/-- The call made for a partition. -/
def callOf (p : Part) : Nat × List Dg := (p.route.id, p.digests)

theorem callAll_calls (fm : Nat → FM) (ps : List Part) : ∀ acc : List Dg,
    ∃ pre suf, ps = pre ++ suf ∧ (callAll fm ps acc).1 = pre.map callOf := by
  induction ps with
  | nil => intro acc; exact ⟨[], [], rfl, rfl⟩
  | cons p ps ih =>
    intro acc
    simp only [callAll]
    cases hfm : fm p.route.id p.digests with
    | error e => exact ⟨[p], ps, rfl, rfl⟩
    | ok ans =>
      obtain ⟨pre, suf, h1, h2⟩ := ih (acc ++ ans.map (unpatchDg p.route.old p.route.new))
      exact ⟨p :: pre, suf, by simp [h1], by simp [h2, callOf]⟩

theorem callAll_ok (fm : Nat → FM) (ps : List Part) : ∀ (acc R : List Dg),
    (callAll fm ps acc).2 = .ok R →
    (callAll fm ps acc).1 = ps.map callOf ∧
    (∀ p ∈ ps, ∃ ans, fm p.route.id p.digests = .ok ans) ∧
    ∀ y, y ∈ R ↔ y ∈ acc ∨ ∃ p ∈ ps, ∃ ans, fm p.route.id p.digests = .ok ans ∧
      ∃ x ∈ ans, y = unpatchDg p.route.old p.route.new x := by
  induction ps with
  | nil =>
    intro acc R h
    simp only [callAll, Except.ok.injEq] at h
    subst h
    simp [callAll]
  | cons p ps ih =>
    intro acc R h
    simp only [callAll] at h ⊢
    cases hfm : fm p.route.id p.digests with
    | error e => simp [hfm] at h
    | ok ans =>
      simp only [hfm] at h ⊢
      obtain ⟨h1, h2, h3⟩ := ih (acc ++ ans.map (unpatchDg p.route.old p.route.new)) R (by simpa using h)
      refine ⟨by simp [h1, callOf], ?_, ?_⟩
      · intro p' hp'
        rcases List.mem_cons.mp hp' with rfl | hp'
        · exact ⟨ans, hfm⟩
        · exact h2 p' hp'
      · intro y
        rw [h3 y]
        constructor
        · rintro (hy | ⟨p', hp', hrest⟩)
          · rcases List.mem_append.mp hy with hy | hy
            · exact Or.inl hy
            · obtain ⟨x, hx, rfl⟩ := List.mem_map.mp hy
              exact Or.inr ⟨p, by simp, ans, hfm, x, hx, rfl⟩
          · exact Or.inr ⟨p', List.mem_cons_of_mem _ hp', hrest⟩
        · rintro (hy | ⟨p', hp', ans', hfm', x, hx, rfl⟩)
          · exact Or.inl (List.mem_append_left _ hy)
          · rcases List.mem_cons.mp hp' with rfl | hp'
            · rw [hfm] at hfm'
              simp only [Except.ok.injEq] at hfm'
              subst hfm'
              exact Or.inl (List.mem_append_right _ (List.mem_map.mpr ⟨x, hx, rfl⟩))
            · exact Or.inr ⟨p', hp', ans', hfm', x, hx, rfl⟩

theorem callAll_error (fm : Nat → FM) (ps : List Part) : ∀ (acc : List Dg) (e : Err),
    (callAll fm ps acc).2 = .error e →
    ∃ pre p suf e', ps = pre ++ p :: suf ∧ (∀ q ∈ pre, ∃ ans, fm q.route.id q.digests = .ok ans) ∧
      fm p.route.id p.digests = .error e' ∧ e = wrapErr (backendPrefix p.route.bname) e' ∧
      (callAll fm ps acc).1 = (pre ++ [p]).map callOf := by
  induction ps with
  | nil => intro acc e h; simp [callAll] at h
  | cons p ps ih =>
    intro acc e h
    simp only [callAll] at h ⊢
    cases hfm : fm p.route.id p.digests with
    | error e' =>
      simp only [hfm, Except.error.injEq] at h
      exact ⟨[], p, ps, e', rfl, by simp, hfm, h.symm, by simp [callOf]⟩
    | ok ans =>
      simp only [hfm] at h ⊢
      obtain ⟨pre, p', suf, e', h1, h2, h3, h4, h5⟩ :=
        ih (acc ++ ans.map (unpatchDg p.route.old p.route.new)) e (by simpa using h)
      refine ⟨p :: pre, p', suf, e', by simp [h1], ?_, h3, h4, by simp [h5, callOf]⟩
      intro q hq
      rcases List.mem_cons.mp hq with rfl | hq
      · exact ⟨ans, hfm⟩
      · exact h2 q hq

theorem callAll_total (fm : Nat → FM) (ps : List Part)
    (hok : ∀ p ∈ ps, ∃ ans, fm p.route.id p.digests = .ok ans) :
    ∀ acc : List Dg, ∃ R, (callAll fm ps acc).2 = .ok R := by
  induction ps with
  | nil => intro acc; exact ⟨acc, rfl⟩
  | cons p ps ih =>
    intro acc
    obtain ⟨ans, hans⟩ := hok p (by simp)
    simp only [callAll, hans]
    obtain ⟨R, hR⟩ := ih (fun q hq => hok q (List.mem_cons_of_mem _ hq))
      (acc ++ ans.map (unpatchDg p.route.old p.route.new))
    exact ⟨R, by simpa using hR⟩

end BB.Routing
