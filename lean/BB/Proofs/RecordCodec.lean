import BB.Model.RecordCodec
namespace BB.RecordCodec
open BB.Gen.RecordLayout

theorem le_length (n v : Nat) : (le n v).length = n := by
  induction n generalizing v with
  | zero => rfl
  | succ n ih => simp [le, ih]

theorem ofLe_le : ∀ (n v : Nat), v < 256 ^ n → ofLe (le n v) = v := by
  intro n
  induction n with
  | zero => intro v h; simp at h; simp [le, ofLe, h]
  | succ n ih =>
    intro v h
    simp only [le, ofLe]
    have h1 : v / 256 < 256 ^ n := by
      rw [Nat.div_lt_iff_lt_mul (by decide)]
      rw [Nat.pow_succ] at h; exact h
    rw [ih _ h1]
    have : (UInt8.ofNat (v % 256)).toNat = v % 256 := by
      simp [UInt8.toNat_ofNat']
    rw [this]
    omega

theorem take_append_of_length {α : Type} (a b : List α) (n : Nat) (h : a.length = n) : (a ++ b).take n = a := by
  subst h; simp

theorem drop_append_of_length {α : Type} (a b : List α) (n : Nat) (h : a.length = n) : (a ++ b).drop n = b := by
  subst h; simp

end BB.RecordCodec

namespace BB.RecordCodec
open BB.Gen.RecordLayout

theorem slice_skip {α : Type} (a b : List α) (f t : Nat) (h : a.length ≤ f) :
    ((a ++ b).drop f).take (t - f) = (b.drop (f - a.length)).take ((t - a.length) - (f - a.length)) := by
  rw [List.drop_append]
  have : a.drop f = [] := List.drop_eq_nil_of_le h
  rw [this]
  simp
  congr 1
  omega

theorem slice_skip' (a b : List UInt8) (f t : Nat) (h : a.length ≤ f) :
    slice (a ++ b) f t = slice b (f - a.length) (t - a.length) := by
  unfold slice
  exact slice_skip a b f t h

theorem slice_head' (a b : List UInt8) (t : Nat) (h : a.length = t) : slice (a ++ b) 0 t = a := by
  unfold slice
  simp [← h]

theorem slice_all (a : List UInt8) (t : Nat) (h : a.length = t) : slice a 0 t = a := by
  unfold slice
  simp [← h]

/-- Components of an encoded record. -/
theorem encode_parts (seed : UInt64) (r : Rec) (hk : r.key.length = 32) :
    (encode seed r).length = recordSize ∧
    slice (encode seed r) offEpoch offBlocksFromLast = le 4 r.epoch ∧
    slice (encode seed r) offBlocksFromLast offKey = le 2 r.blocksFromLast ∧
    slice (encode seed r) offKey offAttempt = r.key ∧
    slice (encode seed r) offAttempt offOffset = le 4 r.attempt ∧
    slice (encode seed r) offOffset offSize = le 8 r.off ∧
    slice (encode seed r) offSize offChecksum = le 8 r.size ∧
    slice (encode seed r) offChecksum recordSize = le 8 (checksum seed (body r)).toNat ∧
    slice (encode seed r) checksumFrom checksumTo = body r := by
  have l4 : ∀ v, (le 4 v).length = 4 := fun v => le_length 4 v
  have l2 : ∀ v, (le 2 v).length = 2 := fun v => le_length 2 v
  have l8 : ∀ v, (le 8 v).length = 8 := fun v => le_length 8 v
  unfold encode body
  simp only [recordSize, offEpoch, offBlocksFromLast, offKey, offAttempt, offOffset, offSize, offChecksum, checksumFrom, checksumTo,
    List.append_assoc]
  refine ⟨by simp [l4, l2, l8, hk], ?_, ?_, ?_, ?_, ?_, ?_, ?_, ?_⟩
  · exact slice_head' _ _ 4 (l4 _)
  · rw [slice_skip' _ _ 4 6 (by simp [l4])]
    simp only [l4]
    exact slice_head' _ _ 2 (l2 _)
  · rw [slice_skip' _ _ 6 38 (by simp [l4]), slice_skip' _ _ _ _ (by simp [l4, l2])]
    simp only [l4, l2]
    exact slice_head' _ _ 32 hk
  · rw [slice_skip' _ _ 38 42 (by simp [l4]), slice_skip' _ _ _ _ (by simp [l4, l2]), slice_skip' _ _ _ _ (by simp [l4, l2, hk])]
    simp only [l4, l2, hk]
    exact slice_head' _ _ 4 (l4 _)
  · rw [slice_skip' _ _ 42 50 (by simp [l4]), slice_skip' _ _ _ _ (by simp [l4, l2]), slice_skip' _ _ _ _ (by simp [l4, l2, hk]),
      slice_skip' _ _ _ _ (by simp [l4, l2, hk])]
    simp only [l4, l2, hk]
    exact slice_head' _ _ 8 (l8 _)
  · rw [slice_skip' _ _ 50 58 (by simp [l4]), slice_skip' _ _ _ _ (by simp [l4, l2]), slice_skip' _ _ _ _ (by simp [l4, l2, hk]),
      slice_skip' _ _ _ _ (by simp [l4, l2, hk]), slice_skip' _ _ _ _ (by simp [l4, l2, l8, hk])]
    simp only [l4, l2, l8, hk]
    exact slice_head' _ _ 8 (l8 _)
  · rw [slice_skip' _ _ 58 66 (by simp [l4]), slice_skip' _ _ _ _ (by simp [l4, l2]), slice_skip' _ _ _ _ (by simp [l4, l2, hk]),
      slice_skip' _ _ _ _ (by simp [l4, l2, hk]), slice_skip' _ _ _ _ (by simp [l4, l2, l8, hk]), slice_skip' _ _ _ _ (by simp [l4, l2, l8, hk])]
    simp only [l4, l2, l8, hk]
    exact slice_all _ 8 (l8 _)
  · rw [slice_skip' _ _ 6 58 (by simp [l4]), slice_skip' _ _ _ _ (by simp [l4, l2])]
    simp only [l4, l2]
    have : r.key ++ (le 4 r.attempt ++ (le 8 r.off ++ (le 8 r.size ++ le 8 (checksum seed (r.key ++ (le 4 r.attempt ++ (le 8 r.off ++ le 8 r.size)))).toNat)))
        = (r.key ++ (le 4 r.attempt ++ (le 8 r.off ++ le 8 r.size))) ++ le 8 (checksum seed (r.key ++ (le 4 r.attempt ++ (le 8 r.off ++ le 8 r.size)))).toNat := by
      simp
    rw [this]
    exact slice_head' _ _ 52 (by simp [l4, l8, hk])

end BB.RecordCodec
