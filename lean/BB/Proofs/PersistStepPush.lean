import BB.Proofs.PersistStepPop2
/-!
# Invariant preservation: `PushBack`
-/
namespace BB.Persist

theorem held_pushBack_perm (p : PBL) (gid slot : Nat) (z : List Blk) :
    (held (p.pushBack gid slot) z).Perm ({ gid := gid, slot := slot } :: held p z) := by
  unfold held PBL.pushBack
  have : p.blocks ++ [({ gid := gid, slot := slot } : Blk)] ++ p.toRelease ++ z =
      p.blocks ++ ({ gid := gid, slot := slot } : Blk) :: (p.toRelease ++ z) := by simp
  rw [this]
  have h := @List.perm_middle _ ({ gid := gid, slot := slot } : Blk) p.blocks (p.toRelease ++ z)
  simpa using h

theorem mem_held_pushBack {p : PBL} {gid slot : Nat} {z : List Blk} {b : Blk} :
    b ∈ held (p.pushBack gid slot) z ↔ b = { gid := gid, slot := slot } ∨ b ∈ held p z := by
  rw [(held_pushBack_perm p gid slot z).mem_iff]; simp

theorem getElem?_pushBack {p : PBL} {gid slot i : Nat} {b : Blk} (hb : (p.pushBack gid slot).blocks[i]? = some b) :
    p.blocks[i]? = some b ∨ (i = p.blocks.length ∧ b = { gid := gid, slot := slot }) := by
  simp only [PBL.pushBack] at hb
  by_cases hi : i < p.blocks.length
  · rw [List.getElem?_append_left hi] at hb; exact Or.inl hb
  · rw [List.getElem?_append_right (by omega)] at hb
    right
    cases hk : i - p.blocks.length with
    | zero => simp [hk] at hb; exact ⟨by omega, hb.symm⟩
    | succ k => simp [hk] at hb

theorem inv_pushBack {w w' : World} (h : Inv w) (hs : w.pushBack = some w') : Inv w' := by
  unfold World.pushBack at hs
  split at hs
  · simp at hs
  · cases hfree : w.free with
    | nil => simp [hfree] at hs
    | cons slot rest =>
      simp only [hfree, Option.some.injEq] at hs
      subst hs
      have hfresh : ∀ o ∈ w.objs, o.gid ≠ w.nextGid := fun o ho => Nat.ne_of_lt (h.obj.gidLt o ho)
      have hmem := @mem_held_pushBack w.pbl w.nextGid slot w.zombies
      have hperm := held_pushBack_perm w.pbl w.nextGid slot w.zombies
      -- a block of the new list with the generation of an existing object is an old block
      have hold : ∀ o ∈ w.objs, ∀ (i : Nat) (b : Blk), (w.pbl.pushBack w.nextGid slot).blocks[i]? = some b → b.gid = o.gid →
          w.pbl.blocks[i]? = some b := by
        intro o ho i b hb hg
        rcases getElem?_pushBack hb with hb | ⟨_, rfl⟩
        · exact hb
        · exact absurd hg.symm (hfresh o ho)
      have holdm : ∀ o ∈ w.objs, ∀ b ∈ (w.pbl.pushBack w.nextGid slot).blocks, b.gid = o.gid → b ∈ w.pbl.blocks := by
        intro o ho b hb hg
        obtain ⟨i, hi⟩ := List.getElem?_of_mem hb
        exact List.mem_of_getElem? (hold o ho i b hi hg)
      refine ⟨h.cfg, ?_, ?_, ?_, ?_, ?_, ?_, ?_, ?_, ?_⟩
      · refine pushBack_wfp h.wfp _ _ ?_
        intro g hg hne
        have hlast : w.pbl.blocks.getLast? = some (w.pbl.blocks.getLast hne) := List.getLast?_eq_some_getLast hne
        have := h.own.next _ hlast
        rw [List.getLast?_eq_getElem?] at hlast
        have := gidsFrom_get _ _ _ _ hg hlast
        have hpos : 0 < w.pbl.blocks.length := List.length_pos_iff.2 hne
        omega
      · have hs1 : ((held (w.pbl.pushBack w.nextGid slot) w.zombies).map (·.slot) ++ rest).Perm
            ((held w.pbl w.zombies).map (·.slot) ++ w.free) := by
          rw [hfree]
          refine ((hperm.map _).append_right rest).trans ?_
          simp only [List.map_cons, List.cons_append]
          exact List.perm_middle.symm
        refine ⟨hs1.nodup_iff.2 h.own.slots, fun s hs => h.own.range s (hs1.mem_iff.1 hs), ?_, ?_, ?_⟩
        · rw [(hperm.map _).nodup_iff]
          simp only [List.map_cons, List.nodup_cons]
          refine ⟨?_, h.own.gids⟩
          intro hm
          obtain ⟨b, hb, hg⟩ := List.mem_map.1 hm
          have := h.own.gidLt b hb
          omega
        · intro b hb
          rcases hmem.1 hb with rfl | hb
          · simp
          · exact Nat.lt_succ_of_lt (h.own.gidLt b hb)
        · intro b hb
          simp [PBL.pushBack] at hb
          subst hb; rfl
      · refine ⟨h.obj.ids, h.obj.idLt, h.obj.size, fun o ho => Nat.lt_succ_of_lt (h.obj.gidLt o ho), ?_, ?_, ?_, ?_, ?_,
          h.obj.disj, ?_, h.obj.pinCount, h.obj.fin, h.obj.flags, h.obj.shadow, ?_, ?_⟩
        · intro o ho b hb hg
          rcases hmem.1 hb with rfl | hb
          · exact absurd hg.symm (hfresh o ho)
          · exact h.obj.slotOk o ho b hb hg
        · intro o ho hm i b hb hg
          exact h.obj.place o ho hm i b (hold o ho i b hb hg) hg
        · intro o ho hm
          obtain ⟨r1, r2⟩ := h.obj.absIn o ho hm
          refine ⟨by simp [PBL.pushBack]; omega, fun hr => ?_⟩
          obtain ⟨b, hb, hg⟩ := r2 hr
          refine ⟨b, ?_, hg⟩
          simp only [PBL.pushBack]
          rw [List.getElem?_append_left (List.getElem?_eq_some_iff.1 hb).1]; exact hb
        · intro o ho hm b hb hg
          rcases hmem.1 hb with rfl | hb
          · exact absurd hg.symm (hfresh o ho)
          · exact h.obj.baseLe o ho hm b hb hg
        · intro o ho hm
          obtain ⟨r1, r2, r3⟩ := h.obj.restored o ho hm
          refine ⟨r1, r2, fun b hb hg => ?_⟩
          rcases hmem.1 hb with rfl | hb
          · exact absurd hg.symm (hfresh o ho)
          · exact r3 b hb hg
        · intro o ho hm hc
          obtain ⟨b, hb, hg⟩ := h.obj.heldW o ho hm hc
          exact ⟨b, hmem.2 (Or.inr hb), hg⟩
        · intro b hb
          rcases hmem.1 hb with rfl | hb
          · simp
          · exact h.obj.aligned b hb
        · intro b hb
          simp only [PBL.pushBack, List.mem_append, List.mem_singleton] at hb
          rcases hb with hb | rfl
          · exact h.obj.cursor b hb
          · simp
      · refine ⟨?_, ?_, ?_, h.epoch.precov⟩
        · intro o ho i b e hb hg hfin
          exact h.epoch.range o ho i b e (hold o ho i b hb hg) hg hfin
        · intro o ho b hb e hg hfin hlt
          exact h.epoch.synced o ho b (holdm o ho b hb hg) e hg hfin hlt
        · intro o ho b hb e hg hfin hlt
          exact h.epoch.syncing o ho b (holdm o ho b hb hg) e hg hfin hlt
      · refine devInv_mono ?_ h.dev
        intro o ho ⟨b', hb', hg⟩
        rcases hmem.1 hb' with rfl | hb'
        · exact absurd hg.symm (hfresh o ho)
        · exact ⟨b', hb', hg⟩
      · refine ⟨?_, h.recs.seedLt, h.recs.pSeeds⟩
        intro r hrm i hres
        obtain ⟨b, o, hb, ho, hg, hm⟩ := h.recs.res r hrm i hres
        refine ⟨b, o, ?_, ho, hg, hm⟩
        simp only [PBL.pushBack]
        rw [List.getElem?_append_left (List.getElem?_eq_some_iff.1 hb).1]; exact hb
      · intro f hf
        have hfi := h.files f hf
        refine ⟨hfi.gids, ?_, hfi.bound, hfi.seedLt, hfi.committed, hfi.res, ?_⟩
        · intro bs hbs
          obtain ⟨b, hb, g1, g2⟩ := hfi.heldIn bs hbs
          refine ⟨b, ?_, g1, g2⟩
          simp only [PBL.pushBack, List.mem_append, List.mem_singleton] at hb ⊢
          rcases hb with hb | hb
          · exact Or.inl (Or.inl hb)
          · exact Or.inr hb
        · intro e i i' sd hfi' hpi
          obtain ⟨bs, b, hbs, hb, hg⟩ := hfi.agree e i i' sd hfi' hpi
          refine ⟨bs, b, hbs, ?_, hg⟩
          simp only [PBL.pushBack]
          rw [List.getElem?_append_left (List.getElem?_eq_some_iff.1 hb).1]; exact hb
      · intro s hsw
        have hfi := h.swFile s hsw
        refine ⟨hfi.gids, ?_, hfi.bound, hfi.seedLt, hfi.committed, hfi.res, ?_⟩
        · intro bs hbs
          obtain ⟨b, hb, g1, g2⟩ := hfi.heldIn bs hbs
          refine ⟨b, ?_, g1, g2⟩
          simp only [PBL.pushBack, List.mem_append, List.mem_singleton] at hb ⊢
          rcases hb with hb | hb
          · exact Or.inl (Or.inl hb)
          · exact Or.inr hb
        · intro e i i' sd hfi' hpi
          obtain ⟨bs, b, hbs, hb, hg⟩ := hfi.agree e i i' sd hfi' hpi
          refine ⟨bs, b, hbs, ?_, hg⟩
          simp only [PBL.pushBack]
          rw [List.getElem?_append_left (List.getElem?_eq_some_iff.1 hb).1]; exact hb
      · exact ⟨fun s hsw => h.sw.stage s hsw⟩

end BB.Persist
