import BB.Gen.Rendezvous
/-!
# Facts about the *generated* fixed point score (`BB.Gen.Rendezvous`), for all 2^64 inputs

Everything here is about the definitions the translator regenerates from
`pkg/blobstore/sharding/rendezvous_shard_selector.go` on every run; a change of
`Log2Fixed`, `score` or the table in /repo re-opens these proofs.
Kernel proofs only: `omega`, `decide` on the 65-entry table, `toNat` bounds, `Nat.log2_lt`.
(Note: `omega` loops on goals whose context holds an irrelevant hypothesis with
coefficient 2^48 next to 2^64; such hypotheses are kept out of its sight.)
-/
namespace BB.Sharding.Score
open BB BB.Gen.Rendezvous

theorem shr64_toNat (x : UInt64) (n : Nat) (h : n < 64) : (Go.shr64 x n).toNat = x.toNat / 2 ^ n := by
  unfold Go.shr64
  rw [if_pos h, UInt64.toNat_shiftRight, Nat.shiftRight_eq_div_pow]
  congr 2
  show (UInt64.ofNat n).toNat % 64 = n
  rw [UInt64.toNat_ofNat_of_lt' (by unfold UInt64.size; omega)]
  omega

theorem shl64_toNat (x : UInt64) (n : Nat) (h : n < 64) : (Go.shl64 x n).toNat = x.toNat * 2 ^ n % 2 ^ 64 := by
  unfold Go.shl64
  rw [if_pos h, UInt64.toNat_shiftLeft, Nat.shiftLeft_eq]
  congr 3
  show (UInt64.ofNat n).toNat % 64 = n
  rw [UInt64.toNat_ofNat_of_lt' (by unfold UInt64.size; omega)]
  omega

theorem len64_bounds (y : UInt64) (h : y.toNat < 2 ^ 63) : 0 ≤ Go.len64 y ∧ Go.len64 y ≤ 63 := by
  unfold Go.len64
  split
  · omega
  · rename_i hy
    have hy' : y.toNat ≠ 0 := by
      intro h0; apply hy; apply UInt64.toNat_inj.mp; simpa using h0
    have := (Nat.log2_lt (k := 63) hy').mpr h
    constructor
    · exact Int.natCast_nonneg _
    · show ((Nat.log2 y.toNat + 1 : Nat) : Int) ≤ 63
      omega

/-- The `msb` of `Log2Fixed`. -/
def msb (x : UInt64) : Int := Go.len64 (Go.shr64 x 1)

theorem msb_bounds (x : UInt64) : 0 ≤ msb x ∧ msb x ≤ 63 := by
  apply len64_bounds
  rw [shr64_toNat x 1 (by omega)]
  have := x.toNat_lt
  omega

theorem ofInt_toNat (i : Int) (h0 : 0 ≤ i) (h1 : i ≤ 63) : (UInt64.ofInt i).toNat = i.toNat := by
  unfold UInt64.ofInt
  rw [UInt64.toNat_ofNat_of_lt']
  · congr 1; omega
  · unfold UInt64.size; omega

theorem or_bound (m : Int) (f : UInt64) (h0 : 0 ≤ m) (h1 : m ≤ 63) :
    ((Go.shl64 (UInt64.ofInt m) 16) ||| (Go.shr64 f 48)).toNat < 64 * 2 ^ 16 := by
  rw [UInt64.toNat_or]
  apply Nat.or_lt_two_pow (n := 22)
  · rw [shl64_toNat _ 16 (by omega), ofInt_toNat _ h0 h1]
    have : m.toNat ≤ 63 := by omega
    omega
  · rw [shr64_toNat _ 48 (by omega)]
    have := f.toNat_lt
    omega

theorem log_bound (x : UInt64) : (log2Fixed x).toNat < 64 * 2 ^ 16 := by
  obtain ⟨h0, h1⟩ := msb_bounds x
  exact or_bound _ _ h0 h1

theorem score_exact (x : UInt64) (w : UInt32) :
    (score x w).toNat = w.toNat * 2 ^ 32 / (4194304 - (log2Fixed x).toNat) := by
  have hl := log_bound x
  have hwl := w.toNat_lt
  unfold score
  simp only []
  rw [UInt64.toNat_div, UInt64.toNat_sub_of_le _ _ (by rw [UInt64.le_iff_toNat_le]; show _ ≤ 4194304; omega)]
  have e1 : (Go.shl64 (UInt64.ofNat w.toNat) (32:Int).toNat).toNat = w.toNat * 2 ^ 32 := by
    show (Go.shl64 _ 32).toNat = _
    rw [shl64_toNat _ 32 (by omega), UInt64.toNat_ofNat_of_lt' (by unfold UInt64.size; omega)]
    omega
  rw [e1]
  rfl

theorem score_ge (x : UInt64) (w : UInt32) (hw : w ≠ 0) : 1024 ≤ (score x w).toNat := by
  have hl := log_bound x
  have hw' : 1 ≤ w.toNat := by
    have : w.toNat ≠ 0 := by
      intro h0; apply hw; apply UInt32.toNat_inj.mp; simpa using h0
    omega
  rw [score_exact, Nat.le_div_iff_mul_le (by omega)]
  have h1 : 1024 * (4194304 - (log2Fixed x).toNat) ≤ 1024 * 4194304 := Nat.mul_le_mul_left _ (by omega)
  have h2 : 1 * 2 ^ 32 ≤ w.toNat * 2 ^ 32 := Nat.mul_le_mul_right _ hw'
  exact Nat.le_trans h1 (Nat.le_trans (by decide) h2)

theorem score_pos (x : UInt64) (w : UInt32) (hw : w ≠ 0) : score x w ≠ 0 := by
  intro h
  have h' : (score x w).toNat = 0 := by rw [h]; rfl
  have := score_ge x w hw
  omega

def bitfield (x : UInt64) : UInt64 := Go.shl64 x (64 - msb x).toNat
def lutIndex (x : UInt64) : UInt64 := Go.shr64 (bitfield x) 58
def interp (x : UInt64) : UInt64 := Go.shr64 (Go.shl64 (bitfield x) 6) 16

theorem log2Fixed_unfold (x : UInt64) : log2Fixed x =
    (Go.shl64 (UInt64.ofInt (msb x)) 16 |||
      Go.shr64 (Go.shl64 (UInt64.ofNat (lutAt (lutIndex x).toNat).toNat) 48 +
        UInt64.ofNat (lutAt (lutIndex x + 1).toNat - lutAt (lutIndex x).toNat).toNat * interp x) 48) := rfl

theorem lutIndex_lt (x : UInt64) : (lutIndex x).toNat < 64 := by
  unfold lutIndex
  rw [shr64_toNat _ 58 (by omega)]
  have := (bitfield x).toNat_lt
  omega

theorem lutIndex_succ (x : UInt64) : (lutIndex x + 1).toNat = (lutIndex x).toNat + 1 := by
  rw [UInt64.toNat_add]
  have := lutIndex_lt x
  show ((lutIndex x).toNat + 1) % 2 ^ 64 = _
  omega

theorem lut_length : lut.length = 65 := rfl

theorem lut_step : ∀ i, i < 64 → (lutAt i).toNat + (lutAt (i + 1) - lutAt i).toNat ≤ 65536 := by
  decide

theorem interp_lt (x : UInt64) : (interp x).toNat < 2 ^ 48 := by
  unfold interp
  rw [shr64_toNat _ 16 (by omega)]
  have := (Go.shl64 (bitfield x) 6).toNat_lt
  omega

theorem no_overflow (x : UInt64) :
    (lutAt (lutIndex x).toNat).toNat * 2 ^ 48 +
      (lutAt (lutIndex x + 1).toNat - lutAt (lutIndex x).toNat).toNat * (interp x).toNat < 2 ^ 64 := by
  rw [lutIndex_succ]
  have h := lut_step _ (lutIndex_lt x)
  have hi := interp_lt x
  have hb := (lutAt (lutIndex x).toNat).toNat_lt
  generalize (lutAt (lutIndex x).toNat).toNat = b at *
  generalize (lutAt ((lutIndex x).toNat + 1) - lutAt (lutIndex x).toNat).toNat = d at *
  have : d * (interp x).toNat ≤ d * (2 ^ 48 - 1) := Nat.mul_le_mul_left _ (by omega)
  generalize d * (interp x).toNat = p at *
  omega


theorem nat_core (m b p : Nat) (hm : m ≤ 63) (hov : b * 2 ^ 48 + p < 2 ^ 64) :
    m * 2 ^ 16 % 2 ^ 64 ||| (b * 2 ^ 48 % 2 ^ 64 + p % 2 ^ 64) % 2 ^ 64 / 2 ^ 48
      = m * 2 ^ 16 + (b * 2 ^ 48 + p) / 2 ^ 48 := by
  have t1 : m * 2 ^ 16 < 2 ^ 64 := by clear hov; omega
  have t2 : b * 2 ^ 48 < 2 ^ 64 := Nat.lt_of_le_of_lt (Nat.le_add_right _ _) hov
  have t3 : p < 2 ^ 64 := Nat.lt_of_le_of_lt (Nat.le_add_left _ _) hov
  rw [Nat.mod_eq_of_lt t1, Nat.mod_eq_of_lt t2, Nat.mod_eq_of_lt t3, Nat.mod_eq_of_lt hov]
  have hq : (b * 2 ^ 48 + p) / 2 ^ 48 < 2 ^ 16 := by
    apply Nat.div_lt_of_lt_mul
    exact hov
  rw [← Nat.shiftLeft_eq, Nat.shiftLeft_add_eq_or_of_lt hq]

/-- The fixed point logarithm computed in unbounded arithmetic. -/
theorem log2Fixed_exact (x : UInt64) :
    (log2Fixed x).toNat = (msb x).toNat * 2 ^ 16 +
      ((lutAt (lutIndex x).toNat).toNat * 2 ^ 48 +
        (lutAt (lutIndex x + 1).toNat - lutAt (lutIndex x).toNat).toNat * (interp x).toNat) / 2 ^ 48 := by
  have hov := no_overflow x
  obtain ⟨h0, h1⟩ := msb_bounds x
  rw [log2Fixed_unfold, UInt64.toNat_or, shl64_toNat _ 16 (by omega), shr64_toNat _ 48 (by omega),
    ofInt_toNat _ h0 h1, UInt64.toNat_add, UInt64.toNat_mul, shl64_toNat _ 48 (by omega),
    UInt64.toNat_ofNat_of_lt' (Nat.lt_trans (UInt16.toNat_lt _) (by decide)),
    UInt64.toNat_ofNat_of_lt' (Nat.lt_trans (UInt16.toNat_lt _) (by decide))]
  exact nat_core _ _ _ (by omega) hov

end BB.Sharding.Score
