import BB.Proofs.ErrorHandlingChunks
import BB.Proofs.ErrorHandlingReader
import BB.Proofs.ErrorHandlingRetry
/-!
# Helper lemmas for C16, part 5: the operations of a buffer with an error handler
-/
namespace BB.ErrorHandling

/-! ## Reading off an outcome -/

/-- All bytes the consumer received. -/
def delivered : Result → Bytes
  | .slice (.ok b) => b
  | .readAt (.ok (b, _)) => b
  | .reads rs => readBytes rs
  | .writes ws _ => ws.flatten
  | _ => []

/-- The consumer was told that it has everything: a nil error from `ToByteSlice`/`IntoWriter`,
nil or `io.EOF` from `ReadAt`, `io.EOF` from a `Read`. -/
def Complete : Result → Prop
  | .slice (.ok _) => True
  | .readAt (.ok _) => True
  | .reads rs => ∃ x, (x, Status.eof) ∈ rs
  | .writes _ none => True
  | _ => False

/-- The consumer received error `e`. -/
def ResultErr : Result → Err → Prop
  | .slice (.error e'), e => e = e'
  | .readAt (.error e'), e => e = e'
  | .reads rs, e => ∃ x, (x, Status.err e) ∈ rs
  | .writes _ (some e'), e => e = e'
  | .size (.error e'), e => e = e'
  | _, _ => False

/-- The part of the object `D` an operation asks for. -/
def window (D : Bytes) : Op → Bytes
  | .readAt off n => (D.drop off).take n
  | .chunkReader off _ _ => D.drop off
  | _ => D

theorem ehChunks_term' (m : Nat) (h : List Resp) (cur : List Bytes × Term) (off : Nat) (e : Err)
    (he : (ehChunks m cur off h).2 = .err e) : decision h (evErrs (ehChunks m cur off h).1).length = some e := by
  obtain ⟨cs, t⟩ := cur
  have := ehChunks_term m h cs t off
  rw [he] at this
  exact this

theorem prefix_eq_of_length {D x : Bytes} (hp : x <+: D) (hl : x.length = D.length) : x = D :=
  hp.eq_of_length hl

/-! ## Unwrapped readers -/

theorem rawRun_spec : ∀ (sizes : List Nat) (s : RSrc),
    readBytes (rawRun s sizes) <+: s.rest ∧
    (∀ x, (x, Status.eof) ∈ rawRun s sizes → readBytes (rawRun s sizes) = s.rest) ∧
    (∀ x e, (x, Status.err e) ∈ rawRun s sizes → s.term = .err e)
  | [], s => by simp [rawRun]
  | n :: ns, s => by
    obtain ⟨r1, r2, r3, r4⟩ := RSrc.read_spec n s
    generalize hr : s.read n = res at r1 r2 r3 r4
    obtain ⟨bs, st, s'⟩ := res
    simp only [] at r1 r2 r3 r4
    cases st with
    | ok =>
      have hrun : rawRun s (n :: ns) = (bs, .ok) :: rawRun s' ns := by simp only [rawRun, hr]
      obtain ⟨i1, i2, i3⟩ := rawRun_spec ns s'
      rw [hrun, ← r1]
      simp only [readBytes_cons, List.mem_cons, Prod.mk.injEq, reduceCtorEq, and_false, false_or]
      refine ⟨(List.prefix_append_right_inj bs).mpr i1, fun x hx => by rw [i2 x hx], fun x e hx => ?_⟩
      rw [← r2]; exact i3 x e hx
    | eof =>
      have hrun : rawRun s (n :: ns) = [(bs, .eof)] := by simp only [rawRun, hr]
      obtain ⟨a, b⟩ := r4 rfl
      rw [hrun, ← r1, b]
      simp
    | err e0 =>
      have hrun : rawRun s (n :: ns) = [(bs, .err e0)] := by simp only [rawRun, hr]
      rw [hrun, ← r1]
      simp only [readBytes_cons, readBytes_nil, List.append_nil, List.mem_singleton, Prod.mk.injEq,
        reduceCtorEq, and_false, false_imp_iff, implies_true, true_and]
      refine ⟨List.prefix_append _ _, fun x e hx => ?_⟩
      rw [r3 e0 rfl]; have := hx.2; simp at this; rw [this]

/-! ## A validated byte slice / an error buffer after `WithErrorHandler` -/

theorem plainOp_bytes_good (D : Bytes) (op : Op) :
    delivered (plainOp (.bytes D) op) <+: window D op ∧
    (Complete (plainOp (.bytes D) op) → delivered (plainOp (.bytes D) op) = window D op) := by
  cases op with
  | slice max =>
    simp only [plainOp, baseSlice]
    by_cases h : D.length > max
    · rw [if_pos h]; simp [delivered, Complete]
    · rw [if_neg h]; simp [delivered, window]
  | writer fa =>
    simp only [plainOp]
    by_cases h : fa = some 0
    · rw [if_pos h]; simp [delivered, Complete]
    · rw [if_neg h]; simp [delivered, window]
  | readAt off n =>
    simp only [plainOp, baseReadAt]
    by_cases h : off > D.length
    · rw [if_pos h]; simp [delivered, window, List.drop_eq_nil_of_le (Nat.le_of_lt h)]
    · rw [if_neg h]; simp [delivered, window]
  | reader sizes =>
    obtain ⟨r1, r2, _⟩ := rawRun_spec sizes (openReader (.bytes D) 0)
    rw [openReader_rest] at r1 r2
    simp only [content, List.drop_zero] at r1 r2
    simp only [plainOp, delivered, window, Complete]
    exact ⟨r1, fun ⟨x, hx⟩ => r2 x hx⟩
  | chunkReader off m k =>
    have ho := openChunks_flatten (.bytes D) off m
    obtain ⟨c1, _, c3, _⟩ := consume_spec (openChunks (.bytes D) off m).2
      ((openChunks (.bytes D) off m).1.map .chunk) k
    simp only [evBytes_chunks, ho, content] at c1 c3
    simp only [plainOp, delivered, window, Complete]
    exact ⟨c1, fun ⟨x, hx⟩ => (c3 x hx).2.1⟩
  | discard => simp [plainOp, delivered, Complete]
  | size => simp [plainOp, delivered, Complete]

theorem plainOp_bytes_err (D : Bytes) (op : Op) (e : Err) (h : ResultErr (plainOp (.bytes D) op) e) :
    e.isIntegrity ∨ e = .writer := by
  cases op with
  | slice max =>
    simp only [plainOp, baseSlice] at h
    by_cases hh : D.length > max
    · rw [if_pos hh] at h; simp only [ResultErr] at h; subst h; exact Or.inl trivial
    · rw [if_neg hh] at h; simp [ResultErr] at h
  | writer fa =>
    simp only [plainOp] at h
    by_cases hh : fa = some 0
    · rw [if_pos hh] at h; simp only [ResultErr] at h; exact Or.inr h
    · rw [if_neg hh] at h; simp [ResultErr] at h
  | readAt off n =>
    simp only [plainOp, baseReadAt] at h
    by_cases hh : off > D.length
    · rw [if_pos hh] at h; simp [ResultErr] at h
    · rw [if_neg hh] at h; simp [ResultErr] at h
  | reader sizes =>
    obtain ⟨_, _, r3⟩ := rawRun_spec sizes (openReader (.bytes D) 0)
    simp only [plainOp, ResultErr] at h
    obtain ⟨x, hx⟩ := h
    exact Or.inl (openReader_owns (.bytes D) 0 e (r3 x e hx))
  | chunkReader off m k =>
    obtain ⟨_, _, _, c4⟩ := consume_spec (openChunks (.bytes D) off m).2
      ((openChunks (.bytes D) off m).1.map .chunk) k
    simp only [plainOp, ResultErr] at h
    obtain ⟨x, hx⟩ := h
    exact Or.inl (openChunks_own (.bytes D) off m e (c4 x e hx).1)
  | discard => simp [plainOp, ResultErr] at h
  | size => simp [plainOp, ResultErr] at h

theorem plainOp_error (e : Err) (op : Op) :
    delivered (plainOp (.error e) op) = [] ∧ ¬ Complete (plainOp (.error e) op) ∧
    ∀ e', ResultErr (plainOp (.error e) op) e' → e' = e := by
  cases op with
  | slice max => simp [plainOp, baseSlice, delivered, Complete, ResultErr]
  | writer fa => simp [plainOp, delivered, Complete, ResultErr]
  | readAt off n => simp [plainOp, baseReadAt, delivered, Complete, ResultErr]
  | reader sizes =>
    obtain ⟨r1, r2, r3⟩ := rawRun_spec sizes (openReader (.error e) 0)
    simp only [openReader, RSrc.rest, List.flatten_nil, RSrc.term] at r1 r2 r3
    simp only [plainOp, delivered, Complete, ResultErr, openReader]
    refine ⟨List.prefix_nil.mp r1, ?_, fun e' ⟨x, hx⟩ => by have := r3 x e' hx; simp at this; exact this.symm⟩
    rintro ⟨x, hx⟩
    cases sizes with
    | nil => simp [rawRun] at hx
    | cons n ns => simp [rawRun, RSrc.read, readShort, Term.status] at hx
  | chunkReader off m k =>
    obtain ⟨c1, _, c3, c4⟩ := consume_spec (Term.err e) ([] : List Ev) k
    simp only [plainOp, openChunks, List.map_nil, delivered, Complete, ResultErr]
    refine ⟨List.prefix_nil.mp c1, fun ⟨x, hx⟩ => by simpa using (c3 x hx).1, fun e' ⟨x, hx⟩ => ?_⟩
    have := (c4 x e' hx).1; simp at this; exact this.symm
  | discard => simp [plainOp, delivered, Complete, ResultErr]
  | size => simp [plainOp, delivered, Complete, ResultErr]

/-! ## A validated `ReaderAt` buffer after `WithErrorHandler` -/

theorem plainOp_readerAt_good (D suf : Bytes) (op : Op) (ht : (∃ off n, op = .readAt off n) → suf = []) :
    delivered (plainOp (.readerAt D suf) op) <+: window D op ∧
    (Complete (plainOp (.readerAt D suf) op) → delivered (plainOp (.readerAt D suf) op) = window D op) := by
  cases op with
  | slice max =>
    simp only [plainOp, baseSlice]
    by_cases h : D.length > max
    · rw [if_pos h]; simp [delivered, Complete]
    · rw [if_neg h]; simp [delivered, window]
  | writer fa =>
    simp only [plainOp]
    by_cases h0 : D = []
    · rw [if_pos h0]; simp [delivered, window, h0]
    · rw [if_neg h0]
      by_cases h : fa = some 0
      · rw [if_pos h]; simp [delivered, Complete]
      · rw [if_neg h]; simp [delivered, window]
  | readAt off n =>
    have := ht ⟨off, n, rfl⟩
    subst this
    simp only [plainOp, baseReadAt, List.append_nil]
    by_cases h : off ≥ D.length
    · rw [if_pos h]; simp [delivered, window, List.drop_eq_nil_of_le h]
    · rw [if_neg h]; simp [delivered, window]
  | reader sizes =>
    obtain ⟨r1, r2, _⟩ := rawRun_spec sizes (openReader (.readerAt D suf) 0)
    rw [openReader_rest] at r1 r2
    simp only [content, List.drop_zero] at r1 r2
    simp only [plainOp, delivered, window, Complete]
    exact ⟨r1, fun ⟨x, hx⟩ => r2 x hx⟩
  | chunkReader off m k =>
    have ho := openChunks_flatten (.readerAt D suf) off m
    obtain ⟨c1, _, c3, _⟩ := consume_spec (openChunks (.readerAt D suf) off m).2
      ((openChunks (.readerAt D suf) off m).1.map .chunk) k
    simp only [evBytes_chunks, ho, content] at c1 c3
    simp only [plainOp, delivered, window, Complete]
    exact ⟨c1, fun ⟨x, hx⟩ => (c3 x hx).2.1⟩
  | discard => simp [plainOp, delivered, Complete]
  | size => simp [plainOp, delivered, Complete]

theorem plainOp_readerAt_err (D suf : Bytes) (op : Op) (e : Err) (h : ResultErr (plainOp (.readerAt D suf) op) e) :
    (e = .writer ∨ (∃ a b, e = .badOffset a b) ∨ ∃ a b, e = .tooLarge a b) := by
  cases op with
  | slice max =>
    simp only [plainOp, baseSlice] at h
    by_cases hh : D.length > max
    · rw [if_pos hh] at h; simp only [ResultErr] at h; exact Or.inr (Or.inr ⟨_, _, h⟩)
    · rw [if_neg hh] at h; simp [ResultErr] at h
  | writer fa =>
    simp only [plainOp] at h
    by_cases h0 : D = []
    · rw [if_pos h0] at h; simp [ResultErr] at h
    · rw [if_neg h0] at h
      by_cases hh : fa = some 0
      · rw [if_pos hh] at h; simp only [ResultErr] at h; exact Or.inl h
      · rw [if_neg hh] at h; simp [ResultErr] at h
  | readAt off n =>
    simp only [plainOp, baseReadAt] at h
    by_cases hh : off ≥ (D ++ suf).length
    · rw [if_pos hh] at h; simp [ResultErr] at h
    · rw [if_neg hh] at h; simp [ResultErr] at h
  | reader sizes =>
    obtain ⟨_, _, r3⟩ := rawRun_spec sizes (openReader (.readerAt D suf) 0)
    simp only [plainOp, ResultErr] at h
    obtain ⟨x, hx⟩ := h
    have := r3 x e hx
    simp [openReader, RSrc.term] at this
  | chunkReader off m k =>
    obtain ⟨_, _, _, c4⟩ := consume_spec (openChunks (.readerAt D suf) off m).2
      ((openChunks (.readerAt D suf) off m).1.map .chunk) k
    simp only [plainOp, ResultErr] at h
    obtain ⟨x, hx⟩ := h
    have := (c4 x e hx).1
    simp only [openChunks] at this
    by_cases hh : off > D.length
    · rw [if_pos hh] at this; simp at this; exact Or.inr (Or.inl ⟨_, _, this.symm⟩)
    · rw [if_neg hh] at this; simp at this
  | discard => simp [plainOp, ResultErr] at h
  | size => simp [plainOp, ResultErr] at h

end BB.ErrorHandling
