import BB.Proofs.ErrorHandlingChunks
/-!
# Helper lemmas for C16, part 8: stacked error handlers (chunk streams)

A replacement buffer may itself be a `casErrorHandlingBuffer` (a backend stacked on another one).
Its `toUnvalidatedChunkReader(off, m)` is `newErrorHandlingChunkReader(base, innerHandler, off, m)`:
an error-handling chunk reader that *starts at a non-zero offset* and must count its position from
there when it asks its own handler for a replacement.

`ehChunksG` is `ehChunks` with the answers abstracted to "what the replacement yields when opened
at a given offset", so that an answer can again be a stitched stream, to any depth.
-/
namespace BB.ErrorHandling

/-- A handler answer, abstractly: how the replacement opens at a resume offset, or an error. -/
inductive GResp
  | repl (opn : Nat → List Bytes × Term)
  | fail (k : Nat)

/-- `errorHandlingChunkReader` over abstract answers (same recursion as `ehChunks`). -/
def ehChunksG : List Bytes × Term → Nat → List GResp → List Ev × Term
  | (cs, .eof), _, _ => (cs.map .chunk, .eof)
  | (cs, .err e), _, [] => (cs.map .chunk ++ [.onErr e], .err .exhausted)
  | (cs, .err e), _, .fail k :: _ => (cs.map .chunk ++ [.onErr e], .err (.tag k))
  | (cs, .err e), off, .repl opn :: h =>
    let off' := off + cs.flatten.length
    let r := ehChunksG (opn off') off' h
    (cs.map .chunk ++ .onErr e :: r.1, r.2)

/-- A plain buffer as an abstract answer. -/
def GResp.ofResp (m : Nat) : Resp → GResp
  | .repl b => .repl (fun off => openChunks b off m)
  | .fail k => .fail k

/-- The model's `ehChunks` is the instance of `ehChunksG` for plain buffers. -/
theorem ehChunksG_flat (m : Nat) : ∀ (h : List Resp) (cur : List Bytes × Term) (off : Nat),
    ehChunksG cur off (h.map (GResp.ofResp m)) = ehChunks m cur off h
  | h, (cs, .eof), off => by cases h <;> simp [ehChunksG, ehChunks]
  | [], (cs, .err e), off => by simp [ehChunksG, ehChunks]
  | .fail k :: h, (cs, .err e), off => by simp [ehChunksG, ehChunks, GResp.ofResp]
  | .repl b :: h, (cs, .err e), off => by
    simp only [List.map_cons, GResp.ofResp, ehChunksG, ehChunks]
    rw [ehChunksG_flat m h]

/-- The chunks a reader returns (its `OnError` calls go to its own handler). -/
def chunksOf : List Ev → List Bytes
  | [] => []
  | .chunk c :: r => c :: chunksOf r
  | .onErr _ :: r => chunksOf r

theorem chunksOf_flatten : ∀ evs : List Ev, (chunksOf evs).flatten = evBytes evs
  | [] => rfl
  | .chunk c :: r => by simp [chunksOf, evBytes, chunksOf_flatten r]
  | .onErr _ :: r => by simp [chunksOf, evBytes, chunksOf_flatten r]

/-- `casErrorHandlingBuffer{base, innerHandler}.toUnvalidatedChunkReader(off, m)`: the reader starts
at `off` and resumes its own replacements at `off +` what it has returned. -/
def stackedOpen (m : Nat) (base : Buf) (hin : List GResp) : Nat → List Bytes × Term :=
  fun off => (chunksOf (ehChunksG (openChunks base off m) off hin).1, (ehChunksG (openChunks base off m) off hin).2)

/-- Opened at any offset, the replacement yields a prefix of the object from that offset on. -/
def GoodOpen (D : Bytes) (opn : Nat → List Bytes × Term) : Prop := ∀ off, (opn off).1.flatten <+: D.drop off

def GoodG (D : Bytes) (h : List GResp) : Prop := ∀ opn, GResp.repl opn ∈ h → GoodOpen D opn

theorem ehChunksG_prefix (D : Bytes) : ∀ (h : List GResp) (cs : List Bytes) (t : Term) (off : Nat),
    GoodG D h → cs.flatten <+: D.drop off → evBytes (ehChunksG (cs, t) off h).1 <+: D.drop off
  | h, cs, .eof, off, _, hc => by simpa [ehChunksG] using hc
  | [], cs, .err e, off, _, hc => by simpa [ehChunksG, evBytes] using hc
  | .fail k :: h, cs, .err e, off, _, hc => by simpa [ehChunksG, evBytes] using hc
  | .repl opn :: h, cs, .err e, off, g, hc => by
    simp only [ehChunksG, evBytes_append, evBytes_chunks, evBytes]
    apply prefix_extend hc
    exact ehChunksG_prefix D h (opn (off + cs.flatten.length)).1 (opn (off + cs.flatten.length)).2
      (off + cs.flatten.length) (fun o ho => g o (List.mem_cons_of_mem _ ho))
      (g opn List.mem_cons_self (off + cs.flatten.length))

theorem goodOpen_flat (D : Bytes) (m : Nat) (b : Buf) (hb : Good D b) : GoodOpen D (fun off => openChunks b off m) := by
  intro off
  rw [openChunks_flatten]
  exact prefix_drop off hb.content_prefix

/-- A stacked buffer over intact-or-failing sources is again a good replacement at every resume
offset - this is where the start offset of the inner reader matters. -/
theorem goodOpen_stacked (D : Bytes) (m : Nat) (b : Buf) (hin : List GResp) (hb : Good D b) (hh : GoodG D hin) :
    GoodOpen D (stackedOpen m b hin) := by
  intro off
  simp only [stackedOpen, chunksOf_flatten]
  exact ehChunksG_prefix D hin (openChunks b off m).1 (openChunks b off m).2 off hh (goodOpen_flat D m b hb off)

end BB.ErrorHandling
