import BB.Proofs.PersistCongr
/-!
# Transfer of `ObjInv` and `DevInv` along `BlocksLike`
-/
namespace BB.Persist

theorem BlocksLike.inHeldBase {p p' : PBL} (h : BlocksLike p p') (z : List Blk) {b' : Blk} (hb : b' ∈ held p' z) :
    ∃ b ∈ held p z, b'.gid = b.gid ∧ b'.slot = b.slot ∧ b'.base = b.base := by
  unfold BB.Persist.held at hb ⊢
  rw [h.toRelease] at hb
  rcases List.mem_append.1 hb with hb | hb
  · rcases List.mem_append.1 hb with hb | hb
    · obtain ⟨b, hb0, h1, h2, h3, _⟩ := h.mem hb
      exact ⟨b, List.mem_append_left _ (List.mem_append_left _ hb0), h1, h2, h3⟩
    · exact ⟨b', List.mem_append_left _ (List.mem_append_right _ hb), rfl, rfl, rfl⟩
  · exact ⟨b', List.mem_append_right _ hb, rfl, rfl, rfl⟩

theorem objInv_like {p p' : PBL} (h : BlocksLike p p') {c : Cfg} {objs : List Obj} {z : List Blk} {pins : List Nat}
    {no ng : Nat} {sh : List (Nat × Nat)}
    (ho : ObjInv c objs p z pins no ng sh) : ObjInv c objs p' z pins no ng sh := by
  refine ⟨ho.ids, ho.idLt, ho.size, ho.gidLt, ?_, ?_, ?_, ?_, ?_, ho.disj, ?_, ho.pinCount, ho.fin, ho.flags,
    ho.shadow, ?_, ?_⟩
  · intro o hom b' hb' hg
    obtain ⟨b, hb, h1, h2⟩ := h.inHeld z hb'
    rw [h2]; exact ho.slotOk o hom b hb (by rw [← h1]; exact hg)
  · intro o hom hm i b' hb' hg
    obtain ⟨b, hb, h1, _, _, h4⟩ := h.get i b' hb'
    have := ho.place o hom hm i b hb (by rw [← h1]; exact hg)
    rw [h.released]; exact ⟨this.1, by omega⟩
  · intro o hom hm
    obtain ⟨h1, h2⟩ := ho.absIn o hom hm
    rw [h.released, h.len]
    refine ⟨h1, fun hr => ?_⟩
    obtain ⟨b, hb, hg⟩ := h2 hr
    obtain ⟨b', hb', hg', _⟩ := h.get' hb
    exact ⟨b', hb', by rw [hg']; exact hg⟩
  · intro o hom hm b' hb' hg
    obtain ⟨b, hb, g1, _, g3⟩ := h.inHeldBase z hb'
    rw [g3]; exact ho.baseLe o hom hm b hb (by rw [← g1]; exact hg)
  · intro o hom hm
    obtain ⟨h1, h2, h3⟩ := ho.restored o hom hm
    refine ⟨h1, h2, fun b' hb' hg => ?_⟩
    obtain ⟨b, hb, g1, _, g3⟩ := h.inHeldBase z hb'
    rw [g3]; exact h3 b hb (by rw [← g1]; exact hg)
  · intro o hom hm hc
    obtain ⟨b, hb, hg⟩ := ho.heldW o hom hm hc
    obtain ⟨b', hb', g1, _⟩ := h.inHeld' z hb
    exact ⟨b', hb', by rw [g1]; exact hg⟩
  · intro b' hb'
    obtain ⟨b, hb, _, _, g3⟩ := h.inHeldBase z hb'
    rw [g3]; exact ho.aligned b hb
  · intro b' hb'
    obtain ⟨b, hb, _, _, g3, g4⟩ := h.mem hb'
    have := ho.cursor b hb
    omega

/-- `DevInv` only asks which generations are held: fewer held blocks, fewer obligations. -/
theorem devInv_mono {c : Cfg} {objs : List Obj} {d : DataDev} {p p' : PBL} {z z' : List Blk} {no : Nat}
    (hm : ∀ o ∈ objs, (∃ b' ∈ held p' z', b'.gid = o.gid) → ∃ b ∈ held p z, b.gid = o.gid)
    (hd : DevInv c objs d p z no) : DevInv c objs d p' z' no := by
  refine ⟨hd.pref, ?_, ?_, ?_, hd.content, hd.contentLt⟩
  · intro o ho h1 h2 hh
    exact hd.mine o ho h1 h2 (hm o ho hh)
  · intro o ho h1 hh
    exact hd.precov o ho h1 (hm o ho hh)
  · intro o ho h1 hh
    exact hd.durable o ho h1 (hm o ho hh)

theorem devInv_like {p p' : PBL} (h : BlocksLike p p') {c : Cfg} {objs : List Obj} {d : DataDev} {z : List Blk} {no : Nat}
    (hd : DevInv c objs d p z no) : DevInv c objs d p' z no :=
  devInv_mono (fun o _ ⟨b', hb', hg⟩ => by
    obtain ⟨b, hb, h1, _⟩ := h.inHeld z hb'; exact ⟨b, hb, by rw [← h1]; exact hg⟩) hd

/-- `refToIdx` reads only the epochs and the release counter. -/
theorem refToIdx_congr {p p' : PBL} (h1 : p'.oldestEpoch = p.oldestEpoch) (h2 : p'.seeds = p.seeds)
    (h3 : p'.epochLast = p.epochLast) (h4 : p'.released = p.released) (e bfl : Nat) :
    p'.refToIdx e bfl = p.refToIdx e bfl := by
  unfold PBL.refToIdx
  rw [h1, h2, h3, h4]

theorem recInv_like {p p' : PBL} (h : BlocksLike p p') (h1 : p'.oldestEpoch = p.oldestEpoch) (h2 : p'.seeds = p.seeds)
    (h3 : p'.epochLast = p.epochLast) {recs : List PRec} {objs : List Obj} {ns : Nat}
    (hr : RecInv recs objs p ns) : RecInv recs objs p' ns := by
  refine ⟨?_, hr.seedLt, by rw [h2]; exact hr.pSeeds⟩
  intro r hrm i hres
  rw [refToIdx_congr h1 h2 h3 h.released] at hres
  obtain ⟨b, o, hb, ho, hg, hm⟩ := hr.res r hrm i hres
  obtain ⟨b', hb', g1, _⟩ := h.get' hb
  exact ⟨b', o, hb', ho, by rw [g1]; exact hg, hm⟩

end BB.Persist
