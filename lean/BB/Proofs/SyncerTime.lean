import BB.Proofs.SyncerInv1
/-!
Second layer: the clock, the minimum-interval timer and the spacing of
`lastSynchronizationTime` stamps / sync start times.
-/
namespace BB.Syncer

/-- Stamp (`lastSynchronizationTime`) of the most recent running sync, or the creation time. -/
def base (t0 : Nat) : List (Nat × Nat) → Nat
  | [] => t0
  | (_, st) :: _ => st

/-- Consecutive entries (start time, stamp), newest first: stamps are at least `m`
apart (the first at least `m` after creation) and a sync never starts before its stamp. -/
def Spaced (m t0 : Nat) : List (Nat × Nat) → Prop
  | [] => True
  | (t, st) :: rest => base t0 rest + m ≤ st ∧ st ≤ t ∧ Spaced m t0 rest

structure Inv2 (c : Cfg) (t0 : Nat) (s : State) : Prop where
  nowLe : s.lastSync ≤ s.now
  /-- an armed timer expires at most one interval after it was armed and not before one interval after the last stamp -/
  timer : ∀ d a, s.p = .timer d a → a ≤ s.now ∧ d ≤ a + c.minInt ∧ s.lastSync + c.minInt ≤ d
  spaced : Spaced c.minInt t0 s.starts
  baseLe : base t0 s.starts ≤ s.lastSync
  lockT : s.p = .lock true → base t0 s.starts + c.minInt ≤ s.lastSync

theorem inv2_init (c : Cfg) (free : List Nat) (oldest t0 : Nat) : Inv2 c t0 (init free oldest t0) :=
  ⟨Nat.le_refl _, by intro d a h; simp [init] at h, trivial, Nat.le_refl _, by intro h; simp [init] at h⟩

/-- `writePersistentState` touches neither the clock nor the put loop's timer state. -/
theorem WStep.frame {c : Cfg} {s s1 : State} {w w' : WPc} {a : WAct} {fin : Bool} (h : WStep c s w a s1 w' fin) :
    s1.now = s.now ∧ s1.lastSync = s.lastSync ∧ s1.starts = s.starts ∧ s1.p = s.p ∧ s1.r = s.r ∧
    s1.cancelled = s.cancelled ∧ s1.acked = s.acked ∧ s1.target = s.target ∧ s1.goal = s.goal ∧
    s1.syncOk = s.syncOk := by
  cases h <;> exact ⟨rfl, rfl, rfl, rfl, rfl, rfl, rfl, rfl, rfl, rfl⟩

theorem inv2_same {c : Cfg} {t0 : Nat} {s s' : State} (h : Inv2 c t0 s) (h1 : s'.now = s.now)
    (h2 : s'.lastSync = s.lastSync) (h3 : s'.starts = s.starts)
    (h4 : ∀ d a, s'.p = .timer d a → s.p = .timer d a) (h5 : s'.p = .lock true → s.p = .lock true) :
    Inv2 c t0 s' := by
  refine ⟨?_, ?_, ?_, ?_, ?_⟩
  · rw [h1, h2]; exact h.nowLe
  · intro d a hp; rw [h1, h2]; exact h.timer d a (h4 d a hp)
  · rw [h3]; exact h.spaced
  · rw [h2, h3]; exact h.baseLe
  · intro hp; rw [h2, h3]; exact h.lockT (h5 hp)

theorem inv2_Step {c : Cfg} {t0 : Nat} {s s' : State} {a : Act} (h : Inv2 c t0 s) (hs : Step c s a s') :
    Inv2 c t0 s' := by
  cases hs with
  | tick n =>
    refine ⟨?_, ?_, h.spaced, h.baseLe, h.lockT⟩
    · have := h.nowLe; show s.lastSync ≤ s.now + n; omega
    · intro d a hp
      obtain ⟨h1, h2, h3⟩ := h.timer d a hp
      exact ⟨by show a ≤ s.now + n; omega, h2, h3⟩
  | cancel => exact inv2_same h rfl rfl rfl (fun _ _ hp => hp) id
  | pushOk b' hp => exact inv2_same h rfl rfl rfl (fun _ _ hp => hp) id
  | pushErr _ => exact h
  | pop b' hp => exact inv2_same h rfl rfl rfl (fun _ _ hp => hp) id
  | fin abs e b' r hf => exact inv2_same h rfl rfl rfl (fun _ _ hp => hp) id
  | pGet hp => exact inv2_same h rfl rfl rfl (by intro d a hx; simp at hx) (by intro hx; simp at hx)
  | pPollReady g hp hr =>
    refine ⟨h.nowLe, ?_, h.spaced, h.baseLe, by intro hx; simp at hx⟩
    intro d a hx
    simp at hx
    obtain ⟨rfl, rfl⟩ := hx
    have := h.nowLe
    refine ⟨Nat.le_refl _, ?_, ?_⟩ <;> simp only [Nat.max_def] <;> split <;> omega
  | pPollWait g hp hr => exact inv2_same h rfl rfl rfl (by intro d a hx; simp at hx) (by intro hx; simp at hx)
  | pWake g hp hr =>
    refine ⟨h.nowLe, ?_, h.spaced, h.baseLe, by intro hx; simp at hx⟩
    intro d a hx
    simp at hx
    obtain ⟨rfl, rfl⟩ := hx
    have := h.nowLe
    exact ⟨Nat.le_refl _, Nat.le_refl _, by show s.lastSync + c.minInt ≤ s.now + c.minInt; omega⟩
  | pCancelWait g hc hp => exact inv2_same h rfl rfl rfl (by intro d a hx; simp at hx) (by intro hx; simp at hx)
  | pCancelTimer d a hc hp => exact inv2_same h rfl rfl rfl (by intro d a hx; simp at hx) (by intro hx; simp at hx)
  | pFire d a hp hd =>
    obtain ⟨h1, h2, h3⟩ := h.timer d a hp
    have := h.baseLe
    refine ⟨Nat.le_refl _, by intro d a hx; simp at hx, h.spaced, ?_, ?_⟩
    · show base t0 s.starts ≤ s.now; omega
    · intro _; show base t0 s.starts + c.minInt ≤ s.now; omega
  | pStart kg hp =>
    cases kg with
    | false => exact inv2_same h rfl rfl rfl (by intro d a hx; simp at hx) (by intro hx; simp at hx)
    | true =>
      have hl := h.lockT hp
      refine ⟨h.nowLe, by intro d a hx; simp at hx, ?_, ?_, by intro hx; simp at hx⟩
      · show Spaced c.minInt t0 ((s.now, s.lastSync) :: s.starts)
        exact ⟨hl, h.nowLe, h.spaced⟩
      · show base t0 ((s.now, s.lastSync) :: s.starts) ≤ s.lastSync
        exact Nat.le_refl _
  | pDataOk kg f hp => exact inv2_same h rfl rfl rfl (by intro d a hx; simp at hx) (by intro hx; simp at hx)
  | pDataFail kg f hp => exact inv2_same h rfl rfl rfl (by intro d a hx; simp at hx) (by intro hx; simp at hx)
  | pRetry kg f d hp hd => exact inv2_same h rfl rfl rfl (by intro d a hx; simp at hx) (by intro hx; simp at hx)
  | pCompletedAgain hp => exact inv2_same h rfl rfl rfl (by intro d a hx; simp at hx) (by intro hx; simp at hx)
  | pCompleted kg f hp hk => exact inv2_same h rfl rfl rfl (by intro d a hx; simp at hx) (by intro hx; simp at hx)
  | pW kg w a s1 w' fin hp hw =>
    obtain ⟨f1, f2, f3, _⟩ := hw.frame
    refine inv2_same h f1 f2 f3 ?_ ?_
    · intro d a hx; cases fin <;> cases kg <;> simp at hx
    · intro hx; cases fin <;> cases kg <;> simp at hx
  | rGet hr => exact inv2_same h rfl rfl rfl (fun _ _ hp => hp) id
  | rWake g hr hrd => exact inv2_same h rfl rfl rfl (fun _ _ hp => hp) id
  | rW w a s1 w' fin hr hw =>
    obtain ⟨f1, f2, f3, f4, _⟩ := hw.frame
    exact inv2_same h f1 f2 f3 (by intro d a hx; exact f4 ▸ hx) (by intro hx; exact f4 ▸ hx)

theorem inv2_reachable {c : Cfg} {free : List Nat} {oldest t0 : Nat} {s : State}
    (h : Reachable c free oldest t0 s) : Inv2 c t0 s := by
  induction h with
  | init => exact inv2_init c free oldest t0
  | step a _ hs ih => exact inv2_Step ih (step_Step hs)

end BB.Syncer
