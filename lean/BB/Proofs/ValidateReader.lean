import BB.Proofs.ValidateRun
/-! # Soundness of the methods of `casReaderBuffer` -/
namespace BB.Validate

/-- The source never returns Go's `io.ErrUnexpectedEOF` itself, or the validating reader is the repaired one. -/
def Safe (c : Cfg) (T : Truth) : Prop := c.strict = true ∨ T.term ≠ .err 0

theorem nosoft {c : Cfg} {T : Truth} {k : Core} (hs : Safe c T) (h : Inv c T true k) :
    k.fin ≠ some (.err (.src 0)) := by
  intro hf
  rcases hs with hs | hs
  · exact h.soft rfl hs hf
  · rcases h.err _ hf with ⟨h1, _⟩ | ⟨h1, _⟩ | ⟨h1, _⟩ | ⟨k', h1, h2, _⟩ | ⟨h1, _⟩
    · cases h1
    · cases h1
    · cases h1
    · simp only [Err.src.injEq] at h1; subst h1; exact hs h2
    · cases h1

theorem VR.read_zero (c : Cfg) (v : VR) (cap : Nat) (hr : v.remaining = 0) (hf : v.core.fin = none) :
    (VR.read c v cap).2.2 ≠ .ok := by
  unfold VR.read
  rw [hf]
  simp only [hr, VR.fail, VR.valid, VR.srcFail]
  repeat' split
  all_goals first | (intro h; cases h) | omega | skip
  all_goals simp_all

theorem fresh_VR (c : Cfg) (s : RSrc) : Fresh (VRm c ⟨s.content, s.term⟩) (VR.init c s) :=
  ⟨RInv.init c s, rfl, rfl⟩

end BB.Validate

namespace BB.Validate

theorem readerToByteSlice_sound (c : Cfg) (s : RSrc) (max : Nat) :
    RInv c ⟨s.content, s.term⟩ (readerToByteSlice c (VR.init c s) max).1 ∧
    Sound (readerToByteSlice c (VR.init c s) max).1.core 0 (readerToByteSlice c (VR.init c s) max).2 ∧
    (readerToByteSlice c (VR.init c s) max).2.res ≠ none := by
  have hrd := VRm_ok c ⟨s.content, s.term⟩
  have hfr := fresh_VR c s
  unfold readerToByteSlice
  by_cases hm : c.size > max
  · rw [if_pos hm]
    refine ⟨hfr.1, Sound.of_nodata rfl (fun h' => ?_) (fun e h' => ?_), by simp⟩
    · rcases h' with h' | h' <;> simp at h'
    · simp only [Option.some.injEq, Res.err.injEq] at h'; subst h'; exact Or.inl trivial
  · rw [if_neg hm]
    by_cases hz : c.size > 0
    · rw [if_pos hz]
      obtain ⟨hI', new, hgot, hacct, hres⟩ := readFull_ok hrd c.fuel (VR.init c s) c.size [] hfr.1
      generalize readFull (VR.read c) c.fuel (VR.init c s) c.size [] = x at hI' hgot hacct hres ⊢
      obtain ⟨v1, got, r⟩ := x
      simp only [List.nil_append] at hI' hgot hacct hres ⊢
      subst hgot
      have hj : got ++ (VRm c ⟨s.content, s.term⟩).pend v1 = v1.core.out := hfr.acct hacct
      have hout : v1.core.out = got := by simpa [VRm] using hj.symm
      have hinv : Inv c ⟨s.content, s.term⟩ true v1.core := hI'.inv
      cases r with
      | ok =>
        refine ⟨hI', ⟨⟨[], [], by simp [Obs.data, hout], Or.inr rfl⟩, fun _ => ?_, fun e h' => by simp at h'⟩, by simp⟩
        rcases hres with ⟨_, hl⟩ | ⟨h, _⟩ | ⟨e, h, _⟩ | ⟨h, _⟩
        · have h1 := hinv.le
          rw [hout] at h1
          rcases hinv.full (by rw [hout]; omega) with h0 | h0
          · omega
          · exact h0
        · cases h
        · cases h
        · cases h
      | eof =>
        refine ⟨hI', Sound.of_nodata rfl (fun _ => ?_) (fun e h' => by simp at h'), by simp⟩
        rcases hres with ⟨h, _⟩ | ⟨_, h⟩ | ⟨e, h, _⟩ | ⟨h, _⟩
        · cases h
        · exact h
        · cases h
        · cases h
      | err e =>
        refine ⟨hI', Sound.of_nodata rfl (fun h' => ?_) (fun e' h' => ?_), by simp⟩
        · rcases h' with h' | h' <;> simp at h'
        · simp only [Option.some.injEq, Res.err.injEq] at h'; subst h'
          rcases hres with ⟨h, _⟩ | ⟨h, _⟩ | ⟨e', h, hl⟩ | ⟨_, hf, hlt⟩
          · cases h
          · cases h
          · simp only [Res.err.injEq] at h; subst h; exact hl
          · -- io.ErrUnexpectedEOF made up by ReadFull although the validator reported EOF: impossible
            obtain ⟨hc, ho, _, _⟩ := hinv.eof hf
            have : got.length = c.size := by rw [← hout, ho]; exact hc.1
            omega
    · rw [if_neg hz]
      have hz0 : c.size = 0 := by omega
      obtain ⟨hI', hacct, hfin, _⟩ := hrd (VR.init c s) 0 hfr.1
      have hnz := VR.read_zero c (VR.init c s) 0 (by simp [VR.init, hz0]) rfl
      generalize VR.read c (VR.init c s) 0 = x at hI' hacct hfin hnz ⊢
      obtain ⟨v1, d, r⟩ := x
      simp only at hI' hacct hfin hnz ⊢
      cases r with
      | ok => exact absurd rfl hnz
      | eof =>
        exact ⟨hI', Sound.of_nodata rfl (fun _ => hfin) (fun e h' => by simp at h'), by simp⟩
      | err e =>
        refine ⟨hI', Sound.of_nodata rfl (fun h' => ?_) (fun e' h' => ?_), by simp⟩
        · rcases h' with h' | h' <;> simp at h'
        · simp only [Option.some.injEq, Res.err.injEq] at h'; subst h'; exact hfin

end BB.Validate

namespace BB.Validate

theorem readerReadAt_sound (c : Cfg) (s : RSrc) (hs : Safe c ⟨s.content, s.term⟩) (off len : Nat) :
    RInv c ⟨s.content, s.term⟩ (readerReadAt c (VR.init c s) off len).1 ∧
    Sound (readerReadAt c (VR.init c s) off len).1.core off (readerReadAt c (VR.init c s) off len).2 := by
  have hrd := VRm_ok c ⟨s.content, s.term⟩
  have hfr := fresh_VR c s
  unfold readerReadAt
  obtain ⟨hI1, dropped, hd, hacct1, hle, hdok, hres1⟩ := discardN_ok hrd c.discardBuf c.fuel (VR.init c s) off [] hfr.1
  generalize discardN (VR.read c) c.discardBuf c.fuel (VR.init c s) off [] = x at hI1 hd hacct1 hdok hres1 ⊢
  obtain ⟨v1, dr, r⟩ := x
  simp only [List.nil_append] at hI1 hd hacct1 hdok hres1 ⊢
  subst hd
  have hnodata : ∀ (v : VR) (r : Res), RInv c ⟨s.content, s.term⟩ v → r ≠ .ok → RFin r v.core →
      RInv c ⟨s.content, s.term⟩ v ∧ Sound v.core off ({ res := some r } : Obs) := by
    intro v r hv hne hr
    refine ⟨hv, Sound.of_nodata rfl (fun h' => ?_) (fun e h' => ?_)⟩
    · simp only [Option.some.injEq] at h'; exact rfin_done hr h' hne
    · simp only [Option.some.injEq] at h'; subst h'; exact hr
  cases r with
  | eof => exact hnodata v1 .eof hI1 (by simp) hres1
  | err e => exact hnodata v1 (.err e) hI1 (by simp) hres1
  | ok =>
    simp only []
    have hdl : dr.length = off := hdok rfl
    have hout1 : dr ++ [] = v1.core.out := by
      have := hacct1 [] (by simp [hfr.2.1, hfr.2.2]); simpa [VRm] using this
    obtain ⟨hI2, new, hgot, hacct2, hres2⟩ := readFull_ok hrd c.fuel v1 len [] hI1
    generalize readFull (VR.read c) c.fuel v1 len [] = y at hI2 hgot hacct2 hres2 ⊢
    obtain ⟨v2, got, r2⟩ := y
    simp only [List.nil_append] at hI2 hgot hacct2 hres2 ⊢
    subst hgot
    have hout2 : dr ++ got ++ [] = v2.core.out := hacct2 dr (by simpa [VRm] using hout1)
    have hsoft := nosoft hs hI2.inv
    have hdata : ∀ r', (r' = .ok ∨ r' = .eof) → v2.core.fin = some .eof →
        RInv c ⟨s.content, s.term⟩ v2 ∧
        Sound v2.core off ({ pieces := [got], n := got.length, res := some r' } : Obs) := by
      intro r' hr' hf
      refine ⟨hI2, ⟨⟨dr, [], by simpa [Obs.data] using hout2, Or.inr hdl⟩, fun _ => hf, fun e h' => ?_⟩⟩
      simp only [Option.some.injEq] at h'
      rcases hr' with h1 | h1 <;> rw [h1] at h' <;> cases h'
    match r2, hres2 with
    | .eof, hres2 =>
      rcases hres2 with ⟨h, _⟩ | ⟨_, h⟩ | ⟨e, h, _⟩ | ⟨h, _⟩
      · cases h
      · exact hdata .eof (Or.inr rfl) h
      · cases h
      · cases h
    | .err (.src 0), hres2 =>
      rcases hres2 with ⟨h, _⟩ | ⟨h, _⟩ | ⟨e, h, hl⟩ | ⟨_, h, _⟩
      · cases h
      · cases h
      · simp only [Res.err.injEq] at h; subst h
        rcases hl with hl | hl
        · exact absurd hl (by simp [Local])
        · exact absurd hl hsoft
      · exact hdata .eof (Or.inr rfl) h
    | .err (.src (k+1)), hres2 =>
      refine hnodata v2 _ hI2 (by simp) ?_
      rcases hres2 with ⟨h, _⟩ | ⟨h, _⟩ | ⟨e, h, hl⟩ | ⟨h, _⟩
      · cases h
      · cases h
      · simp only [Res.err.injEq] at h; subst h; exact hl
      · cases h
    | .err .tooBig, hres2 | .err .sizeMismatch, hres2 | .err .hashMismatch, hres2 | .err .truncated, hres2
    | .err .negOff, hres2 | .err .offBeyond, hres2 | .err .tooLarge, hres2 | .err .stuck, hres2 =>
      refine hnodata v2 _ hI2 (by simp) ?_
      rcases hres2 with ⟨h, _⟩ | ⟨h, _⟩ | ⟨e, h, hl⟩ | ⟨h, _⟩
      · cases h
      · cases h
      · simp only [Res.err.injEq] at h; subst h; exact hl
      · cases h
    | .ok, _ =>
      simp only []
      obtain ⟨hI3, ws, hws, hacct3, hres3⟩ := copyLoop_ok hrd c.discardBuf c.fuel v2 [] hI2
      generalize copyLoop (VR.read c) c.discardBuf c.fuel v2 [] = z at hI3 hws hacct3 hres3 ⊢
      obtain ⟨v3, ws', r3⟩ := z
      simp only [List.nil_append] at hI3 hws hacct3 hres3 ⊢
      have hout3 : dr ++ got ++ ws.flatten ++ [] = v3.core.out := hacct3 (dr ++ got) (by simpa [VRm] using hout2)
      cases r3 with
      | ok =>
        refine ⟨hI3, ⟨⟨dr, ws.flatten, by simpa [Obs.data, List.append_assoc] using hout3, Or.inr hdl⟩,
          fun _ => endRes_done hres3 (Or.inl rfl), fun e h' => by simp at h'⟩⟩
      | eof => exact hnodata v3 .eof hI3 (by simp) (endRes_done hres3 (Or.inr rfl))
      | err e => exact hnodata v3 (.err e) hI3 (by simp) (endRes_err hres3 e rfl)

end BB.Validate

namespace BB.Validate

theorem runReader_sound (c : Cfg) (s : RSrc) (hs : Safe c ⟨s.content, s.term⟩) : ∀ m,
    RInv c ⟨s.content, s.term⟩ (runReader c (VR.init c s) m).1 ∧
    Sound (runReader c (VR.init c s) m).1.core m.off (runReader c (VR.init c s) m).2 := by
  have hrd := VRm_ok c ⟨s.content, s.term⟩
  have hfr := fresh_VR c s
  have hsoft : ∀ v, (VRm c ⟨s.content, s.term⟩).I v → ((VRm c ⟨s.content, s.term⟩).core v).fin ≠ some (.err (.src 0)) :=
    fun v hv => nosoft hs hv.inv
  intro m
  induction m with
  | withTask m ih => simpa only [runReader, Method.off] using ih
  | intoWriter =>
    simp only [runReader]
    obtain ⟨hI', new, hgot, hacct, hres⟩ := copyLoop_ok hrd c.copyBuf c.fuel (VR.init c s) [] hfr.1
    generalize copyLoop (VR.read c) c.copyBuf c.fuel (VR.init c s) [] = x at hI' hgot hacct hres ⊢
    obtain ⟨v, ps, r⟩ := x
    simp only [List.nil_append] at hI' hgot hacct hres ⊢
    subst hgot
    have hj : ps.flatten ++ (VRm c ⟨s.content, s.term⟩).pend v = v.core.out := hfr.acct hacct
    refine ⟨hI', ⟨⟨[], [], by simpa [Obs.data, VRm] using hj, Or.inr rfl⟩, ?_, ?_⟩⟩
    · intro h'; simp only [Option.some.injEq] at h'; exact endRes_done hres h'
    · intro e h'; simp only [Option.some.injEq] at h'; exact endRes_err hres e h'
  | readAt off len =>
    simp only [runReader]
    by_cases h0 : off < 0
    · rw [if_pos h0]
      refine ⟨hfr.1, Sound.of_nodata rfl (fun h' => ?_) (fun e h' => ?_)⟩
      · rcases h' with h' | h' <;> simp at h'
      · simp only [Option.some.injEq, Res.err.injEq] at h'; subst h'; exact Or.inl trivial
    · rw [if_neg h0]; exact readerReadAt_sound c s hs off.toNat len
  | toByteSlice max =>
    simp only [runReader]
    obtain ⟨h1, h2, _⟩ := readerToByteSlice_sound c s max
    exact ⟨h1, h2⟩
  | toChunkReader off max n =>
    simp only [runReader]
    by_cases h0 : off < 0
    · rw [if_pos h0]; exact ⟨hfr.1, sound_errSteps .negOff trivial _ n⟩
    · rw [if_neg h0]
      by_cases h1 : off.toNat > c.size
      · rw [if_pos h1]; exact ⟨hfr.1, sound_errSteps .offBeyond trivial _ n⟩
      · rw [if_neg h1]
        obtain ⟨hI1, dropped, hd, hacct1, hle, hdok, hres1⟩ :=
          discardN_ok hrd c.discardBuf c.fuel (VR.init c s) off.toNat [] hfr.1
        generalize discardN (VR.read c) c.discardBuf c.fuel (VR.init c s) off.toNat [] = x
          at hI1 hd hacct1 hdok hres1 ⊢
        obtain ⟨v1, dr, r⟩ := x
        simp only [List.nil_append] at hI1 hd hacct1 hdok hres1 ⊢
        subst hd
        cases r with
        | eof =>
          simp only []
          exact ⟨hI1, runErr_sound (r := .eof) hres1 (by simp) _ (.toChunkReader off max n)⟩
        | err e =>
          simp only []
          exact ⟨hI1, runErr_sound (r := .err e) hres1 (by simp) _ (.toChunkReader off max n)⟩
        | ok =>
          simp only []
          have hdl : dr.length = off.toNat := hdok rfl
          have hout1 : dr ++ [] = v1.core.out := by
            have := hacct1 [] (by simp [hfr.2.1, hfr.2.2]); simpa [VRm] using this
          have hrb := rbc_ok hrd hsoft c.fuel max
          have hI0 : (rbcM (VRm c ⟨s.content, s.term⟩)).I (v1, none) := ⟨hI1, fun r h => by cases h⟩
          obtain ⟨hI2, new, hgot, hacct2, hres2⟩ := drainSteps_ok hrb n (v1, none) [] hI0
          generalize drainSteps (rbcStep (VR.read c) c.fuel max) n (v1, none) [] = y at hI2 hgot hacct2 hres2 ⊢
          obtain ⟨st, ps, r⟩ := y
          simp only [List.nil_append] at hI2 hgot hacct2 hres2 ⊢
          subst hgot
          have hj : dr ++ ps.flatten ++ [] = st.1.core.out := hacct2 dr (by simpa [rbcM, VRm] using hout1)
          refine ⟨hI2.1, ⟨⟨dr, [], by simpa [Obs.data, obsOf] using hj, Or.inr hdl⟩, ?_, ?_⟩⟩
          · intro h'
            simp only [obsOf] at h'
            rcases h' with h' | h'
            · exact absurd rfl (hres2 _ h').1
            · exact (hres2 _ h').2
          · intro e h'
            simp only [obsOf] at h'
            exact (hres2 _ h').2
  | toReader sizes =>
    simp only [runReader]
    obtain ⟨hI', new, hgot, hacct, hres⟩ := readSeq_ok hrd sizes (VR.init c s) [] hfr.1
    generalize readSeq (VR.read c) sizes (VR.init c s) [] = x at hI' hgot hacct hres ⊢
    obtain ⟨v, ps, r⟩ := x
    simp only [List.nil_append] at hI' hgot hacct hres ⊢
    subst hgot
    have hj : ps.flatten ++ (VRm c ⟨s.content, s.term⟩).pend v = v.core.out := hfr.acct hacct
    refine ⟨hI', ⟨⟨[], [], by simpa [Obs.data, obsOf, VRm] using hj, Or.inr rfl⟩, ?_, ?_⟩⟩
    · intro h'
      simp only [obsOf] at h'
      rcases h' with h' | h'
      · exact absurd rfl (hres _ h').1
      · exact (hres _ h').2
    · intro e h'
      simp only [obsOf] at h'
      exact (hres _ h').2
  | cloneCopy max m _ =>
    simp only [runReader]
    obtain ⟨h1, h2, h3⟩ := readerToByteSlice_sound c s max
    exact ⟨h1, afterCopy_sound h2 h3 m⟩
  | cloneStream m _ =>
    simp only [runReader]
    have hfresh : Fresh (rbcM (VRm c ⟨s.content, s.term⟩)) (VR.init c s, none) :=
      ⟨⟨hfr.1, fun r h => by cases h⟩, rfl, rfl⟩
    obtain ⟨h1, h2⟩ := runCloned_sound c (fun cm => rbc_ok hrd hsoft c.fuel cm) _ hfresh m
    exact ⟨h1.1, h2⟩

end BB.Validate
