import BB.Model.Digest
/-!
Helper lemmas for C20, part 2: strings - `fields` / `join` / `path.Join`, decimal numbers,
hexadecimal, varints.
-/
namespace BB.Digest

/-- A path component: non-empty and free of `/`. -/
def Comp (w : Str) : Prop := w ≠ [] ∧ '/' ∉ w

/-! ### `fields` and `join` -/

theorem fieldsGo_append_slashfree (w : Str) (hw : '/' ∉ w) : ∀ (cur rest : Str),
    fieldsGo (w ++ rest) cur = fieldsGo rest (w.reverse ++ cur) := by
  induction w with
  | nil => intro cur rest; rfl
  | cons c cs ih =>
    intro cur rest
    have hc : c ≠ '/' := fun e => hw (e ▸ List.mem_cons_self)
    have hcs : '/' ∉ cs := fun h => hw (List.mem_cons_of_mem _ h)
    simp [fieldsGo, hc, ih hcs]

theorem fields_nil : fields [] = [] := rfl

theorem fields_slash (rest : Str) : fields ('/' :: rest) = fields rest := by
  simp [fields, fieldsGo]

theorem fields_comp {w : Str} (hw : Comp w) : fields w = [w] := by
  have := fieldsGo_append_slashfree w hw.2 [] []
  simp only [List.append_nil] at this
  rw [fields, this, fieldsGo]
  simp [hw.1]

theorem fieldsGo_append_slash (a b : Str) : ∀ cur,
    fieldsGo (a ++ '/' :: b) cur = fieldsGo a cur ++ fields b := by
  induction a with
  | nil =>
    intro cur
    simp only [List.nil_append, fieldsGo, if_true, fields]
    by_cases h : cur.isEmpty = true
    · simp [h]
    · simp [h]
  | cons c cs ih =>
    intro cur
    simp only [List.cons_append, fieldsGo]
    by_cases hc : c = '/'
    · simp only [hc, if_true]
      by_cases h : cur.isEmpty = true
      · simp [h, ih]
      · simp [h, ih]
    · simp only [hc, if_false, ih]

theorem fields_append_slash (a b : Str) : fields (a ++ '/' :: b) = fields a ++ fields b :=
  fieldsGo_append_slash a b []

theorem fields_join : ∀ es : List Str, fields (join es) = es.flatMap fields
  | [] => rfl
  | [a] => by simp [join]
  | a :: b :: rest => by
    rw [join, fields_append_slash, fields_join (b :: rest)]
    simp

theorem fieldsGo_mem_comp : ∀ (s cur : Str), '/' ∉ cur → ∀ w ∈ fieldsGo s cur, Comp w := by
  intro s
  induction s with
  | nil =>
    intro cur hcur w hw
    simp only [fieldsGo] at hw
    by_cases h : cur.isEmpty = true
    · simp [h] at hw
    · simp only [h] at hw
      simp only [Bool.false_eq_true, if_false, List.mem_singleton] at hw
      subst hw
      exact ⟨by simpa using h, by simpa using hcur⟩
  | cons c cs ih =>
    intro cur hcur w hw
    simp only [fieldsGo] at hw
    by_cases hc : c = '/'
    · simp only [hc, if_true] at hw
      by_cases h : cur.isEmpty = true
      · simp only [h, if_true] at hw
        exact ih [] (by simp) w hw
      · simp only [h, Bool.false_eq_true, if_false, List.mem_cons] at hw
        rcases hw with e | hw
        · subst e; exact ⟨by simpa using h, by simpa using hcur⟩
        · exact ih [] (by simp) w hw
    · simp only [hc, if_false] at hw
      refine ih (c :: cur) ?_ w hw
      intro hm
      rcases List.mem_cons.mp hm with e | hm
      · exact hc e.symm
      · exact hcur hm

theorem fields_mem_comp (s : Str) : ∀ w ∈ fields s, Comp w :=
  fieldsGo_mem_comp s [] (by simp)

theorem flatMap_fields_comps : ∀ cs : List Str, (∀ c ∈ cs, Comp c) → cs.flatMap fields = cs
  | [], _ => rfl
  | c :: cs, h => by
    rw [List.flatMap_cons, fields_comp (h c (by simp)),
      flatMap_fields_comps cs (fun x hx => h x (List.mem_cons_of_mem _ hx))]
    rfl

theorem fields_join_comps (cs : List Str) (h : ∀ c ∈ cs, Comp c) : fields (join cs) = cs := by
  rw [fields_join, flatMap_fields_comps cs h]

theorem join_head : ∀ (e : Str) (rest : List Str), e ≠ [] → (join (e :: rest)).head? = e.head?
  | [], _, h => absurd rfl h
  | _ :: _, [], _ => rfl
  | _ :: _, _ :: _, _ => rfl

theorem join_eq_nil_of_head_nonempty (e : Str) (rest : List Str) (h : e ≠ []) : join (e :: rest) ≠ [] := by
  cases e with
  | nil => exact absurd rfl h
  | cons c cs => cases rest <;> simp [join]

/-! ### `path.Clean` / `path.Join` -/

def NoDot (c : Str) : Prop := c ≠ dot ∧ c ≠ dotdot

theorem foldl_cleanStep_nodots (r : Bool) : ∀ (cs st : List Str), (∀ c ∈ cs, NoDot c) →
    cs.foldl (cleanStep r) st = cs.reverse ++ st
  | [], st, _ => rfl
  | c :: cs, st, h => by
    have hc := h c (by simp)
    have hstep : cleanStep r st c = c :: st := by simp [cleanStep, hc.1, hc.2]
    rw [List.foldl_cons, hstep,
      foldl_cleanStep_nodots r cs (c :: st) (fun x hx => h x (List.mem_cons_of_mem _ hx))]
    simp

theorem flatMap_fields_dropWhile : ∀ es : List Str,
    (es.dropWhile (·.isEmpty)).flatMap fields = es.flatMap fields
  | [] => rfl
  | [] :: es => by
    simp only [List.dropWhile_cons, List.isEmpty_nil, if_true, List.flatMap_cons, fields_nil, List.nil_append]
    exact flatMap_fields_dropWhile es
  | (c :: cs) :: es => by
    simp

theorem dropWhile_head_nonempty : ∀ (es : List Str) (e : Str) (rest : List Str),
    es.dropWhile (·.isEmpty) = e :: rest → e ≠ [] ∧ e ∈ es
  | [], _, _, h => by simp at h
  | [] :: es, e, rest, h => by
    simp only [List.dropWhile_cons, List.isEmpty_nil, if_true] at h
    have := dropWhile_head_nonempty es e rest h
    exact ⟨this.1, List.mem_cons_of_mem _ this.2⟩
  | (c :: cs) :: es, e, rest, h => by
    simp at h
    obtain ⟨h1, _⟩ := h
    subst h1
    simp

/-- `path.Join` keeps the components when none of them is `.` or `..` and no element starts with
a slash: the fields of the result are the fields of the elements. -/
theorem fields_pathJoin (elems : List Str) (hne : elems.flatMap fields ≠ [])
    (hdots : ∀ c ∈ elems.flatMap fields, NoDot c) (hroot : ∀ e ∈ elems, e.head? ≠ some '/') :
    fields (pathJoin elems) = elems.flatMap fields := by
  -- not all elements are empty
  have hall : elems.all (·.isEmpty) = false := by
    cases h : elems.all (·.isEmpty) with
    | false => rfl
    | true =>
      exfalso; apply hne
      rw [List.all_eq_true] at h
      clear hne hdots hroot
      induction elems with
      | nil => rfl
      | cons e es ih =>
        have : e = [] := by simpa using h e (by simp)
        subst this
        rw [List.flatMap_cons, fields_nil, List.nil_append]
        exact ih (fun x hx => h x (List.mem_cons_of_mem _ hx))
  rw [pathJoin, hall]
  simp only [Bool.false_eq_true, if_false]
  -- the first remaining element is non-empty and does not start with a slash
  generalize hd : elems.dropWhile (·.isEmpty) = d
  have hF : d.flatMap fields = elems.flatMap fields := by rw [← hd]; exact flatMap_fields_dropWhile elems
  have hfp : fields (join d) = elems.flatMap fields := by rw [fields_join, hF]
  cases d with
  | nil => rw [List.flatMap_nil] at hF; exact absurd hF.symm hne
  | cons e rest =>
    have he_mem : e ∈ elems := (dropWhile_head_nonempty elems e rest hd).2
    have he_ne : e ≠ [] := (dropWhile_head_nonempty elems e rest hd).1
    have hp_ne : join (e :: rest) ≠ [] := join_eq_nil_of_head_nonempty e rest he_ne
    have hp_root : (join (e :: rest)).head? ≠ some '/' := by
      rw [join_head e rest he_ne]; exact hroot e he_mem
    rw [clean]
    have h1 : (join (e :: rest)).isEmpty = false := by simpa using hp_ne
    rw [h1]
    simp only [Bool.false_eq_true, if_false, hp_root, decide_false]
    rw [hfp, foldl_cleanStep_nodots false _ [] hdots]
    have h2 : ((elems.flatMap fields).reverse ++ []).isEmpty = false := by simpa using hne
    rw [h2]
    simp only [Bool.false_eq_true, if_false, List.append_nil, List.reverse_reverse]
    rw [fields_join_comps]
    intro c hc
    rw [← hfp] at hc
    exact fields_mem_comp _ c hc

/-! ### Decimal numbers -/

def IsDigit (c : Char) : Prop := '0' ≤ c ∧ c ≤ '9'

instance (c : Char) : Decidable (IsDigit c) := inferInstanceAs (Decidable (_ ∧ _))

theorem digitChar_isDigit (d : Nat) : IsDigit (digitChar d) := by
  unfold digitChar
  split <;> decide

theorem digitVal_digitChar (d : Nat) (h : d < 10) : digitVal (digitChar d) = some d := by
  have : d = 0 ∨ d = 1 ∨ d = 2 ∨ d = 3 ∨ d = 4 ∨ d = 5 ∨ d = 6 ∨ d = 7 ∨ d = 8 ∨ d = 9 := by omega
  rcases this with h | h | h | h | h | h | h | h | h | h <;> subst h <;> decide

theorem decValAux_append (a b : Str) : ∀ acc, decValAux (a ++ b) acc = (decValAux a acc).bind (decValAux b) := by
  induction a with
  | nil => intro acc; rfl
  | cons c cs ih =>
    intro acc
    simp only [List.cons_append, decValAux]
    cases digitVal c with
    | none => rfl
    | some d => exact ih _

theorem toDecFuel_spec : ∀ (fuel n : Nat), n < fuel →
    decValAux (toDecFuel fuel n) 0 = some n ∧ toDecFuel fuel n ≠ [] ∧ ∀ c ∈ toDecFuel fuel n, IsDigit c
  | 0, _, h => by omega
  | fuel + 1, n, h => by
    simp only [toDecFuel]
    by_cases hn : n < 10
    · rw [if_pos hn]
      refine ⟨?_, by simp, ?_⟩
      · simp [decValAux, digitVal_digitChar n hn]
      · intro c hc; simp only [List.mem_singleton] at hc; subst hc; exact digitChar_isDigit n
    · rw [if_neg hn]
      have ih := toDecFuel_spec fuel (n / 10) (by omega)
      refine ⟨?_, by simp, ?_⟩
      · rw [decValAux_append, ih.1]
        simp only [Option.bind_some, decValAux, digitVal_digitChar (n % 10) (by omega)]
        congr 1; omega
      · intro c hc
        rcases List.mem_append.mp hc with h | h
        · exact ih.2.2 c h
        · simp only [List.mem_singleton] at h; subst h; exact digitChar_isDigit _

theorem decVal_toDec (n : Nat) : decValAux (toDec n) 0 = some n := (toDecFuel_spec (n + 1) n (by omega)).1
theorem toDec_ne_nil (n : Nat) : toDec n ≠ [] := (toDecFuel_spec (n + 1) n (by omega)).2.1
theorem toDec_digits (n : Nat) : ∀ c ∈ toDec n, IsDigit c := (toDecFuel_spec (n + 1) n (by omega)).2.2

theorem toDec_lt_10 (n : Nat) (h : n < 10) : toDec n = [digitChar n] := by
  simp [toDec, toDecFuel, h]

theorem toDec_lt_100 (n : Nat) (h1 : 10 ≤ n) (h2 : n < 100) :
    toDec n = [digitChar (n / 10), digitChar (n % 10)] := by
  have e1 : ¬ n < 10 := by omega
  have e2 : n / 10 < 10 := by omega
  obtain ⟨m, hm⟩ : ∃ m, n = m + 1 := ⟨n - 1, by omega⟩
  subst hm
  simp only [toDec, toDecFuel, e1, e2, if_false, if_true, List.singleton_append]

theorem isDigit_ne {c : Char} (h : IsDigit c) : c ≠ '-' ∧ c ≠ '+' ∧ c ≠ '/' ∧ c ≠ '.' := by
  obtain ⟨h1, h2⟩ := h
  rw [Char.le_def] at h1 h2
  refine ⟨?_, ?_, ?_, ?_⟩ <;> (intro e; subst e; revert h1 h2; decide)

theorem parseUint_toDec (n : Nat) : parseUint (toDec n) = some n := by
  have h : (toDec n).isEmpty = false := by simpa using toDec_ne_nil n
  rw [parseUint, h]; exact decVal_toDec n

theorem parseInt64_toDec (n : Nat) (h : n < 2 ^ 63) : parseInt64 (toDec n) = some (n : Int) := by
  have hne := toDec_ne_nil n
  have hu := parseUint_toDec n
  cases hd : toDec n with
  | nil => exact absurd hd hne
  | cons c rest =>
    have hc := isDigit_ne (toDec_digits n c (by rw [hd]; simp))
    rw [hd] at hu
    simp only [parseInt64, hc.1, hc.2.1, or_self, if_false, hu, decide_false, Bool.false_eq_true, if_pos h]

/-! ### Hexadecimal -/

theorem isLowerHex_ne {c : Char} (h : isLowerHex c = true) : c ≠ '-' ∧ c ≠ '/' ∧ c ≠ '.' := by
  simp only [isLowerHex, Bool.or_eq_true, decide_eq_true_eq, Char.le_def] at h
  refine ⟨?_, ?_, ?_⟩ <;> (intro e; subst e; revert h; decide)

theorem hexCases (a : Char) (h : isLowerHex a = true) :
    a = '0' ∨ a = '1' ∨ a = '2' ∨ a = '3' ∨ a = '4' ∨ a = '5' ∨ a = '6' ∨ a = '7' ∨ a = '8' ∨ a = '9' ∨
    a = 'a' ∨ a = 'b' ∨ a = 'c' ∨ a = 'd' ∨ a = 'e' ∨ a = 'f' := by
  simp only [isLowerHex, Bool.or_eq_true, decide_eq_true_eq, Char.le_def, UInt32.le_iff_toNat_le] at h
  have e0 : ('0' : Char).val.toNat = 48 := by decide
  have e9 : ('9' : Char).val.toNat = 57 := by decide
  have ea : ('a' : Char).val.toNat = 97 := by decide
  have ef : ('f' : Char).val.toNat = 102 := by decide
  rw [e0, e9, ea, ef] at h
  have ha : a = Char.ofNat a.toNat := (Char.ofNat_toNat a).symm
  have e : a.val.toNat = a.toNat := rfl
  have : a.toNat = 48 ∨ a.toNat = 49 ∨ a.toNat = 50 ∨ a.toNat = 51 ∨ a.toNat = 52 ∨ a.toNat = 53 ∨ a.toNat = 54 ∨
    a.toNat = 55 ∨ a.toNat = 56 ∨ a.toNat = 57 ∨ a.toNat = 97 ∨ a.toNat = 98 ∨ a.toNat = 99 ∨ a.toNat = 100 ∨
    a.toNat = 101 ∨ a.toNat = 102 := by omega
  rcases this with h|h|h|h|h|h|h|h|h|h|h|h|h|h|h|h <;> (rw [h] at ha; subst ha; decide)

def hexValD (a : Char) : Nat := (hexVal a).getD 0

theorem hexVal_lower (a : Char) (h : isLowerHex a = true) :
    hexVal a = some (hexValD a) ∧ hexValD a < 16 ∧ hexChar (hexValD a) = a := by
  rcases hexCases a h with h|h|h|h|h|h|h|h|h|h|h|h|h|h|h|h <;> (subst h; decide)

/-- Decoding a lower-case hex string of even length succeeds, yields half as many bytes, and
encoding them gives the string back. -/
theorem hex_roundtrip : ∀ (n : Nat) (h : Str), h.length = 2 * n → h.all isLowerHex = true →
    ∃ bs, hexDecode h = some bs ∧ bs.length = n ∧ hexEncode bs = h
  | 0, h, hl, _ => by
    have : h = [] := List.eq_nil_of_length_eq_zero (by omega)
    subst this; exact ⟨[], rfl, rfl, rfl⟩
  | n + 1, h, hl, hh => by
    match h, hl, hh with
    | a :: b :: rest, hl, hh =>
      simp only [List.all_cons, Bool.and_eq_true] at hh
      obtain ⟨ha, hb, hr⟩ := hh
      obtain ⟨bs, h1, h2, h3⟩ := hex_roundtrip n rest (by simp only [List.length_cons] at hl; omega) hr
      obtain ⟨va, xa, ca⟩ := hexVal_lower a ha
      obtain ⟨vb, xb, cb⟩ := hexVal_lower b hb
      refine ⟨(hexValD a * 16 + hexValD b) :: bs, ?_, by simp [h2], ?_⟩
      · simp only [hexDecode, va, vb, h1]
      · have e1 : (hexValD a * 16 + hexValD b) / 16 % 16 = hexValD a := by omega
        have e2 : (hexValD a * 16 + hexValD b) % 16 = hexValD b := by omega
        simp only [hexEncode, e1, e2, ca, cb, h3]
    | [_], hl, _ => simp only [List.length_cons, List.length_nil] at hl; omega
    | [], hl, _ => simp only [List.length_nil] at hl; omega

/-! ### Varints -/

theorem pow_step (i : Nat) (h : i ≤ 8) : 2 ^ (64 - 7 * i) = 128 * 2 ^ (64 - 7 * (i + 1)) := by
  have : 64 - 7 * i = 7 + (64 - 7 * (i + 1)) := by omega
  rw [this, Nat.pow_add]

theorem acc_step (x s acc : Nat) : acc + (x % 128) * 2 ^ s + (x / 128) * 2 ^ (s + 7) = acc + x * 2 ^ s := by
  have h := Nat.div_add_mod x 128
  rw [Nat.pow_add]
  generalize 2 ^ s = t
  generalize x / 128 = q at *
  generalize x % 128 = r at *
  subst h
  grind

/-- Reading back what `PutUvarint` wrote, from any iteration `i` at which the value still fits. -/
theorem readUvarintGo_put : ∀ (fuel x : Nat), x < fuel → ∀ (i k acc s : Nat) (rest : List Nat),
    i + k = 10 → i ≤ 9 → x < 2 ^ (64 - 7 * i) →
    readUvarintGo k i acc s (putUvarintFuel fuel x ++ rest) = .ok (acc + x * 2 ^ s, rest)
  | 0, _, h, _, _, _, _, _, _, _, _ => by omega
  | fuel + 1, x, hx, i, k, acc, s, rest, hik, hi, hb => by
    obtain ⟨k', rfl⟩ : ∃ k', k = k' + 1 := ⟨k - 1, by omega⟩
    simp only [putUvarintFuel]
    by_cases h128 : x < 128
    · rw [if_pos h128]
      simp only [List.singleton_append, readUvarintGo, if_pos h128]
      have : ¬ (i = 9 ∧ 1 < x) := by
        rintro ⟨rfl, h1⟩
        have : x < 2 := by simpa using hb
        omega
      rw [if_neg this]
    · rw [if_neg h128]
      have hi8 : i ≤ 8 := by
        by_cases h9 : i = 9
        · subst h9
          have : x < 2 := by simpa using hb
          omega
        · omega
      have hb' : x / 128 < 2 ^ (64 - 7 * (i + 1)) := by
        rw [pow_step i hi8] at hb
        exact Nat.div_lt_of_lt_mul hb
      have hbyte : ¬ (x % 128 + 128 < 128) := by omega
      have hmod : (x % 128 + 128) % 128 = x % 128 := by omega
      simp only [List.cons_append, readUvarintGo, if_neg hbyte, hmod]
      rw [readUvarintGo_put fuel (x / 128) (by omega) (i + 1) k' _ (s + 7) rest (by omega) (by omega) hb',
        acc_step]

theorem readUvarint_put (x : Nat) (hx : x < 2 ^ 64) (rest : List Nat) :
    readUvarint (putUvarint x ++ rest) = .ok (x, rest) := by
  have := readUvarintGo_put (x + 1) x (by omega) 0 10 0 0 rest rfl (by omega) (by simpa using hx)
  simpa [readUvarint, putUvarint] using this

theorem readVarint_put (n : Nat) (h : n < 2 ^ 63) (rest : List Nat) :
    readVarint (putVarint (n : Int) ++ rest) = .ok ((n : Int), rest) := by
  have hput : putVarint (n : Int) = putUvarint (2 * n) := by
    simp [putVarint]
  have hr := readUvarint_put (2 * n) (by omega) rest
  have h1 : ¬ (2 * n % 2 = 1) := by omega
  have h2 : 2 * n / 2 = n := by omega
  simp only [readVarint, hput, hr, h1, if_false, h2]

end BB.Digest
