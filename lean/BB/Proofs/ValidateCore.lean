import BB.Model.Validate
/-!
# Invariants of the two validators

`Truth` is what the scripted source will deliver; `Inv` relates the part of a
validator's state that consumers can observe (`Core`) to it.
-/
namespace BB.Validate

structure Truth where
  content : List Nat
  term : Term

def ContentOK (c : Cfg) (T : Truth) : Prop := T.content.length = c.size ∧ c.H T.content = c.h

/-- What a sticky error of a validator says about the source. -/
def ErrOK (c : Cfg) (T : Truth) (e : Err) (vs : List Bool) : Prop :=
  (e = .tooBig ∧ c.size < T.content.length ∧ vs = [false]) ∨
  (e = .sizeMismatch ∧ T.content.length ≠ c.size ∧ T.term = .eof ∧ vs = [false]) ∨
  (e = .hashMismatch ∧ T.content.length = c.size ∧ c.H T.content ≠ c.h ∧ vs = [false]) ∨
  (∃ k, e = .src k ∧ T.term = .err k ∧ vs = []) ∨
  (e = .truncated ∧ c.strict = true ∧ T.term = .err 0 ∧ vs = [])

/-- `rdr` says the core belongs to a `casValidatingReader` (which, in strict
mode, never passes on a source's `io.ErrUnexpectedEOF`). -/
structure Inv (c : Cfg) (T : Truth) (rdr : Bool) (k : Core) : Prop where
  pre : k.out <+: T.content
  le : k.out.length ≤ c.size
  full : k.out.length = c.size → c.size = 0 ∨ k.fin = some .eof
  eof : k.fin = some .eof →
    ContentOK c T ∧ k.out = T.content ∧ (T.term = .eof ∨ T.term = .err 0) ∧ k.verdicts = [true]
  ok : k.fin ≠ some .ok
  err : ∀ e, k.fin = some (.err e) → ErrOK c T e k.verdicts
  none : k.fin = none → k.verdicts = []
  soft : rdr = true → c.strict = true → k.fin ≠ some (.err (.src 0))

theorem RSrc.read_spec (s : RSrc) (cap : Nat) :
    s.content = (s.read cap).2.1 ++ (s.read cap).1.content ∧ (s.read cap).1.term = s.term ∧
    (s.read cap).1.joined = s.joined ∧
    (∀ t, (s.read cap).2.2 = some t → t = s.term ∧ (s.read cap).1.items = []) := by
  unfold RSrc.read RSrc.content
  cases h : s.items with
  | nil => simp [h]
  | cons a rest =>
    simp only []
    by_cases hc : a.length ≤ cap
    · simp only [hc, if_true, List.flatten_cons, true_and]
      intro t ht
      by_cases hj : (rest.isEmpty && s.joined) = true
      · simp only [hj, if_true, Option.some.injEq] at ht
        simp only [Bool.and_eq_true, List.isEmpty_iff] at hj
        exact ⟨ht.symm, hj.1⟩
      · simp [hj] at ht
    · simp only [hc, if_false, List.flatten_cons, true_and]
      refine ⟨?_, ?_⟩
      · rw [← List.append_assoc, List.take_append_drop]
      · intro t ht; simp at ht

theorem probe_spec (term : Term) (joined : Bool) (items : List (List Nat)) :
    ((probe term joined items).2.1 = 1 ∧ items.flatten ≠ [] ∧ (probe term joined items).2.2 = none) ∨
    ((probe term joined items).2.1 = 0 ∧ items.flatten = [] ∧ (probe term joined items).2.2 = some term) := by
  induction items with
  | nil => right; simp [probe]
  | cons a rest ih =>
    cases a with
    | nil =>
      unfold probe
      by_cases hj : (rest.isEmpty && joined) = true
      · right
        simp only [hj, if_true, List.flatten_cons, List.nil_append, true_and, and_true]
        simp only [Bool.and_eq_true, List.isEmpty_iff] at hj
        simp [hj.1]
      · simpa [hj] using ih
    | cons x c => left; simp [probe]

theorem drain_spec (term : Term) (chunks : List (List Nat)) :
    ((drain term chunks).2 = .clean → chunks.flatten = [] ∧ term = .eof) ∧
    ((drain term chunks).2 = .tooBig → chunks.flatten ≠ []) ∧
    (∀ k, (drain term chunks).2 = .srcErr k → chunks.flatten = [] ∧ term = .err k) := by
  induction chunks with
  | nil => cases term <;> simp [drain]
  | cons a rest ih =>
    unfold drain
    by_cases he : a.isEmpty = true
    · have : a = [] := List.isEmpty_iff.mp he
      subst this
      simpa using ih
    · have : a ≠ [] := fun h => he (List.isEmpty_iff.mpr h)
      simp [he, this]

end BB.Validate

namespace BB.Validate

theorem inv_err {c : Cfg} {T : Truth} {rdr : Bool} {k : Core} {e : Err} {vs : List Bool}
    (h : Inv c T rdr k) (hf : k.fin = none) (he : ErrOK c T e vs)
    (hs : rdr = true → c.strict = true → e ≠ .src 0) : Inv c T rdr ⟨k.out, some (.err e), vs⟩ where
  pre := h.pre
  le := h.le
  full := fun hl => by
    rcases h.full hl with h0 | h1
    · exact Or.inl h0
    · rw [hf] at h1; cases h1
  eof := fun h' => by cases h'
  ok := fun h' => by cases h'
  err := fun e' h' => by
    simp only [Option.some.injEq, Res.err.injEq] at h'
    subst h'; exact he
  none := fun h' => by cases h'
  soft := fun h1 h2 h' => by
    simp only [Option.some.injEq, Res.err.injEq] at h'
    exact hs h1 h2 h'

theorem inv_valid {c : Cfg} {T : Truth} {rdr : Bool} {out : List Nat}
    (hc : ContentOK c T) (ho : out = T.content) (ht : T.term = .eof ∨ T.term = .err 0) :
    Inv c T rdr ⟨out, some .eof, [true]⟩ where
  pre := by subst ho; exact List.prefix_refl _
  le := by subst ho; exact Nat.le_of_eq hc.1
  full := fun _ => Or.inr rfl
  eof := fun _ => ⟨hc, ho, ht, rfl⟩
  ok := fun h' => by cases h'
  err := fun e' h' => by cases h'
  none := fun h' => by cases h'
  soft := fun _ _ h' => by cases h'

theorem inv_more {c : Cfg} {T : Truth} {rdr : Bool} {k : Core} {out : List Nat}
    (h : Inv c T rdr k) (hf : k.fin = none) (hp : out <+: T.content) (hl : out.length < c.size) :
    Inv c T rdr ⟨out, k.fin, k.verdicts⟩ where
  pre := hp
  le := Nat.le_of_lt hl
  full := fun h' => by simp only [] at h'; omega
  eof := fun h' => by simp only [hf] at h'; cases h'
  ok := fun h' => by simp only [hf] at h'; cases h'
  err := fun e' h' => by simp only [hf] at h'; cases h'
  none := fun _ => h.none hf
  soft := fun _ _ h' => by simp only [hf] at h'; cases h'

theorem inv_init (c : Cfg) (T : Truth) (rdr : Bool) : Inv c T rdr {} where
  pre := List.nil_prefix
  le := Nat.zero_le _
  full := fun h' => Or.inl h'.symm
  eof := fun h' => by cases h'
  ok := fun h' => by cases h'
  err := fun e' h' => by cases h'
  none := fun _ => rfl
  soft := fun _ _ h' => by cases h'

/-- Invariant of a `casValidatingReader`. -/
structure RInv (c : Cfg) (T : Truth) (v : VR) : Prop where
  inv : Inv c T true v.core
  term : v.src.term = T.term
  live : v.core.fin = none →
    T.content = v.acc ++ v.src.content ∧ v.core.out = v.acc ∧ v.acc.length + v.remaining = c.size ∧
    (v.remaining = 0 → c.size = 0)

theorem RInv.init (c : Cfg) (s : RSrc) : RInv c ⟨s.content, s.term⟩ (VR.init c s) where
  inv := inv_init _ _ _
  term := rfl
  live := fun _ => by simp [VR.init]

/-- What one `Read` of a validator establishes. -/
structure StepFacts (k k' : Core) (d : List Nat) (r : Res) : Prop where
  out : k'.out = k.out ++ d
  res : r ≠ .ok → k'.fin = some r
  dat : ∀ e, r = .err e → d = []
  sticky : ∀ x, k.fin = some x → r = x ∧ k' = k

end BB.Validate

namespace BB.Validate

theorem VR.fail_facts {c : Cfg} {T : Truth} {v : VR} (h : RInv c T v) (hf : v.core.fin = none)
    (s : RSrc) (hs : s.term = T.term) {e : Err} (he : ErrOK c T e [false]) (hne : e ≠ .src 0) :
    RInv c T (v.fail s e).1 ∧ StepFacts v.core (v.fail s e).1.core (v.fail s e).2.1 (v.fail s e).2.2 := by
  have hv : v.core.verdicts = [] := h.inv.none hf
  refine ⟨⟨?_, hs, ?_⟩, ⟨?_, ?_, ?_, ?_⟩⟩
  · have := inv_err (vs := [false]) h.inv hf he (fun _ _ => hne)
    simpa [VR.fail, hv] using this
  · intro h'; simp [VR.fail] at h'
  · simp [VR.fail]
  · intro _; simp [VR.fail]
  · intro _ _; simp [VR.fail]
  · intro x hx; rw [hf] at hx; cases hx

theorem VR.srcFail_facts {c : Cfg} {T : Truth} {v : VR} (h : RInv c T v) (hf : v.core.fin = none)
    (s : RSrc) (hs : s.term = T.term) (rem : Nat) (acc : List Nat) {e : Err} (he : ErrOK c T e [])
    (hne : c.strict = true → e ≠ .src 0) :
    RInv c T (v.srcFail s rem acc e).1 ∧
    StepFacts v.core (v.srcFail s rem acc e).1.core (v.srcFail s rem acc e).2.1 (v.srcFail s rem acc e).2.2 := by
  have hv : v.core.verdicts = [] := h.inv.none hf
  refine ⟨⟨?_, hs, ?_⟩, ⟨?_, ?_, ?_, ?_⟩⟩
  · have := inv_err (vs := []) h.inv hf he (fun _ => hne)
    simpa [VR.srcFail, hv] using this
  · intro h'; simp [VR.srcFail] at h'
  · simp [VR.srcFail]
  · intro _; simp [VR.srcFail]
  · intro _ _; simp [VR.srcFail]
  · intro x hx; rw [hf] at hx; cases hx

theorem VR.valid_facts {c : Cfg} {T : Truth} {v : VR} (h : RInv c T v) (hf : v.core.fin = none)
    (s : RSrc) (hs : s.term = T.term) (acc d : List Nat) (hc : ContentOK c T)
    (ho : v.core.out ++ d = T.content) (ht : T.term = .eof ∨ T.term = .err 0) :
    RInv c T (v.valid s acc d).1 ∧
    StepFacts v.core (v.valid s acc d).1.core (v.valid s acc d).2.1 (v.valid s acc d).2.2 := by
  have hv : v.core.verdicts = [] := h.inv.none hf
  refine ⟨⟨?_, hs, ?_⟩, ⟨?_, ?_, ?_, ?_⟩⟩
  · have := inv_valid (rdr := true) hc ho ht
    simpa [VR.valid, hv] using this
  · intro h'; simp [VR.valid] at h'
  · simp [VR.valid]
  · intro _; simp [VR.valid]
  · intro e h'; simp [VR.valid] at h'
  · intro x hx; rw [hf] at hx; cases hx

end BB.Validate

namespace BB.Validate

theorem VR.read_ok {c : Cfg} {T : Truth} {v : VR} (cap : Nat) (h : RInv c T v) :
    RInv c T (VR.read c v cap).1 ∧
    StepFacts v.core (VR.read c v cap).1.core (VR.read c v cap).2.1 (VR.read c v cap).2.2 := by
  unfold VR.read
  cases hf : v.core.fin with
  | some r =>
    refine ⟨h, ⟨by simp, fun _ => hf, fun _ _ => rfl, ?_⟩⟩
    intro x hx; rw [hf] at hx; cases hx; exact ⟨rfl, rfl⟩
  | none =>
    obtain ⟨hcont, hout, hlen, hrem⟩ := h.live hf
    have hrs := RSrc.read_spec v.src cap
    generalize v.src.read cap = x at hrs ⊢
    obtain ⟨s1, d, sr⟩ := x
    simp only at hrs ⊢
    obtain ⟨hsc, hst, hsj, hsr⟩ := hrs
    have hst' : s1.term = T.term := hst.trans h.term
    have hcont' : T.content = v.acc ++ d ++ s1.content := by rw [hcont, hsc, List.append_assoc]
    by_cases hbig : d.length > v.remaining
    · rw [if_pos hbig]
      refine VR.fail_facts h hf s1 hst' (Or.inl ⟨rfl, ?_, rfl⟩) (by simp)
      rw [hcont']; simp only [List.length_append]; omega
    · rw [if_neg hbig]
      have hle : d.length ≤ v.remaining := Nat.le_of_not_gt hbig
      cases sr with
      | some t =>
        obtain ⟨ht, hit⟩ := hsr t rfl
        have hs1 : s1.content = [] := by simp [RSrc.content, hit]
        have hcont2 : T.content = v.acc ++ d := by rw [hcont', hs1, List.append_nil]
        have htT : T.term = t := by rw [← h.term, ht]
        cases t with
        | eof =>
          by_cases hr : v.remaining - d.length ≠ 0
          · rw [if_pos hr]
            refine VR.fail_facts h hf s1 hst' (Or.inr (Or.inl ⟨rfl, ?_, htT, rfl⟩)) (by simp)
            rw [hcont2]; simp only [List.length_append]; omega
          · rw [if_neg hr]
            have hr0 : v.remaining - d.length = 0 := Decidable.of_not_not hr
            have hsz : T.content.length = c.size := by
              rw [hcont2]; simp only [List.length_append]; omega
            by_cases hh : c.H (v.acc ++ d) ≠ c.h
            · rw [if_pos hh]
              refine VR.fail_facts h hf s1 hst' (Or.inr (Or.inr (Or.inl ⟨rfl, hsz, ?_, rfl⟩))) (by simp)
              rw [hcont2]; exact hh
            · rw [if_neg hh]
              have hh' : c.H (v.acc ++ d) = c.h := Decidable.of_not_not hh
              refine VR.valid_facts h hf s1 hst' _ d ⟨hsz, by rw [hcont2]; exact hh'⟩ ?_ (Or.inl htT)
              rw [hout, hcont2]
        | err k =>
          show RInv c T (v.srcFail s1 _ _ (srcErr c k)).1 ∧ _
          refine VR.srcFail_facts h hf s1 hst' _ _ ?_ ?_
          · unfold srcErr
            by_cases hk : (c.strict && k == 0) = true
            · rw [if_pos hk]
              simp only [Bool.and_eq_true, beq_iff_eq] at hk
              exact Or.inr (Or.inr (Or.inr (Or.inr ⟨rfl, hk.1, by rw [htT, hk.2], rfl⟩)))
            · rw [if_neg hk]
              exact Or.inr (Or.inr (Or.inr (Or.inl ⟨k, rfl, htT, rfl⟩)))
          · intro hs
            unfold srcErr
            by_cases hk : (c.strict && k == 0) = true
            · rw [if_pos hk]; simp
            · rw [if_neg hk]
              intro he
              simp only [Err.src.injEq] at he
              simp [hs, he] at hk
      | none =>
        by_cases hr : v.remaining - d.length = 0
        · rw [if_pos hr]
          have hps := probe_spec s1.term s1.joined s1.items
          generalize probe s1.term s1.joined s1.items = y at hps ⊢
          obtain ⟨items2, nFinal, pr⟩ := y
          simp only at hps ⊢
          have hst2 : ({ s1 with items := items2 } : RSrc).term = T.term := hst'
          have hfin : (pr = none ∨ pr = some .eof ∨ pr = some (.err 0)) → ∀ (w : VR × List Nat × Res),
              w = (if nFinal > 0 then v.fail { s1 with items := items2 } .tooBig
                else if c.H (v.acc ++ d) ≠ c.h then v.fail { s1 with items := items2 } .hashMismatch
                else v.valid { s1 with items := items2 } (v.acc ++ d) d) →
              RInv c T w.1 ∧ StepFacts v.core w.1.core w.2.1 w.2.2 := by
            intro hpr w hw
            subst hw
            rcases hps with ⟨h1, hne, _⟩ | ⟨h0, hemp, hpt⟩
            · have hn : nFinal > 0 := by omega
              rw [if_pos hn]
              refine VR.fail_facts h hf { s1 with items := items2 } hst2 (Or.inl ⟨rfl, ?_, rfl⟩) (by simp)
              have : s1.content.length > 0 := by
                unfold RSrc.content
                exact List.length_pos_iff.mpr hne
              rw [hcont']; simp only [List.length_append]; omega
            · have hn : ¬ nFinal > 0 := by omega
              rw [if_neg hn]
              have hs1 : s1.content = [] := hemp
              have hcont2 : T.content = v.acc ++ d := by rw [hcont', hs1, List.append_nil]
              have hsz : T.content.length = c.size := by
                rw [hcont2]; simp only [List.length_append]; omega
              have htt : T.term = .eof ∨ T.term = .err 0 := by
                rw [← hst']
                rcases hpr with hp | hp | hp
                · rw [hp] at hpt; cases hpt
                · rw [hp] at hpt; simp only [Option.some.injEq] at hpt; exact Or.inl hpt.symm
                · rw [hp] at hpt; simp only [Option.some.injEq] at hpt; exact Or.inr hpt.symm
              by_cases hh : c.H (v.acc ++ d) ≠ c.h
              · rw [if_pos hh]
                refine VR.fail_facts h hf { s1 with items := items2 } hst2 (Or.inr (Or.inr (Or.inl ⟨rfl, hsz, ?_, rfl⟩))) (by simp)
                rw [hcont2]; exact hh
              · rw [if_neg hh]
                have hh' : c.H (v.acc ++ d) = c.h := Decidable.of_not_not hh
                refine VR.valid_facts h hf { s1 with items := items2 } hst2 _ d ⟨hsz, by rw [hcont2]; exact hh'⟩ ?_ htt
                rw [hout, hcont2]
          match pr, hps, hfin with
          | none, _, hfin => exact hfin (Or.inl rfl) _ rfl
          | some .eof, _, hfin => exact hfin (Or.inr (Or.inl rfl)) _ rfl
          | some (.err 0), _, hfin => exact hfin (Or.inr (Or.inr rfl)) _ rfl
          | some (.err (k+1)), hps, _ =>
            show RInv c T (v.srcFail _ 0 _ (.src (k+1))).1 ∧ _
            refine VR.srcFail_facts h hf { s1 with items := items2 } hst2 _ _ ?_ (by simp)
            rcases hps with ⟨_, _, hp⟩ | ⟨_, _, hp⟩
            · cases hp
            · simp only [Option.some.injEq] at hp
              exact Or.inr (Or.inr (Or.inr (Or.inl ⟨k+1, rfl, by rw [← hst', ← hp], rfl⟩)))
        · rw [if_neg hr]
          have hpre : v.acc ++ d <+: T.content := by rw [hcont']; exact List.prefix_append _ _
          have hlt : (v.acc ++ d).length < c.size := by simp only [List.length_append]; omega
          refine ⟨⟨?_, hst', ?_⟩, ⟨?_, ?_, ?_, ?_⟩⟩
          · exact inv_more (out := v.core.out ++ d) h.inv hf (by rw [hout]; exact hpre) (by rw [hout]; exact hlt)
          · intro _
            refine ⟨?_, ?_, ?_, ?_⟩
            · simpa using hcont'
            · simp [hout]
            · simp only [List.length_append]; omega
            · intro h0; exact absurd h0 hr
          · rfl
          · intro h'; exact absurd rfl h'
          · intro e h'; cases h'
          · intro x hx; rw [hf] at hx; cases hx

end BB.Validate
