import BB.Proofs.DigestStr
/-!
Helper lemmas for C20, part 4: facts about the tables regenerated from /repo
(`BB.Gen.Digest`).  Each is a finite check (`decide`) over the generated constants, so a change
of `SupportedDigestFunctions`, a hash size, the inference-by-length switch, the midfix rule, the
reserved keywords or the compressor enumeration re-opens them.
-/
namespace BB.Digest
open BB.Gen.Digest

def supportedEnums : List Nat := supported.map (·.1)

/-- A digest function the package supports: listed in `SupportedDigestFunctions`, and `f` is what
`getBareFunction` returns for its enumeration value. -/
structure SupportedFn (f : BareFn) : Prop where
  mem : f.enum ∈ supportedEnums
  get : getBareFunction f.enum 0 = some f

/-- `IDENTITY` or one of the REv2 compressors. -/
def SupportedCompressor (c : Nat) : Prop := c = 0 ∨ c ∈ compressors.map (·.1)

instance (c : Nat) : Decidable (SupportedCompressor c) := inferInstanceAs (Decidable (_ ∨ _))

def noDotB (c : Str) : Bool := decide (c ≠ dot) && decide (c ≠ dotdot)

theorem noDotB_iff (c : Str) : noDotB c = true ↔ NoDot c := by simp [noDotB, NoDot]

/-- Everything the codec proofs need to know about one supported enumeration value. -/
def fnOk (e : Nat) : Bool :=
  match getBareFunction e 0 with
  | none => false
  | some f =>
    decide (f.enum = e) && decide (0 < e) && decide (e < 100) &&
    decide (shortestSupportedHashStringSize ≤ 2 * f.hashBytes) &&
    (if midfixThreshold < e then
      -- explicit name in resource names
      decide (fields (fnMidfix e) = [fnMidfix e]) && noDotB (fnMidfix e) &&
      decide ((fnMidfix e).head? ≠ some '/') &&
      decide (fnByName (fnMidfix e) = some f)
    else
      -- inferred from the hash length
      decide (fnMidfix e = []) && decide (getBareFunction 0 (2 * f.hashBytes) = some f))

theorem table_functions : supportedEnums.all fnOk = true := by decide

/-- Names of digest functions are never mistaken for hashes: each has a non-hex character. -/
theorem table_names_not_hex :
    (supported.filter (fun r => midfixThreshold < r.1)).all (fun r => !(r.2.all isLowerHex)) = true := by decide

/-- Every function `getBareFunction` can return (by enumeration value or inferred from a hash
length) has a number below 100 and a hash at least `shortestSupportedHashStringSize` long. -/
theorem table_known :
    (byEnum ++ byLength).all (fun r => decide (0 < r.2.1) && decide (r.2.1 < 100) &&
      decide (shortestSupportedHashStringSize ≤ 2 * r.2.2)) = true := by decide

def compressorOk (c : Nat) : Bool :=
  let m := compressorMidfix c
  decide (m.head? ≠ some '/') && (fields m).all noDotB &&
  (if c = 0 then decide (fields m = [kwBlobs])
   else match fields m with
     | [k, name] => decide (k = kwCompressedBlobs) && decide (compressorByName name = some c)
     | _ => false)

theorem table_compressors : (0 :: compressors.map (·.1)).all compressorOk = true := by decide

theorem table_compressor_names : compressors.all (fun r => decide (r.1 ≠ 0)) = true := by decide

theorem table_keywords :
    isReserved kwBlobs = true ∧ isReserved kwCompressedBlobs = true ∧ isReserved kwUploads = true ∧
    kwBlobs ≠ kwCompressedBlobs ∧ noDotB kwUploads = true ∧ fields kwUploads = [kwUploads] ∧
    kwUploads.head? ≠ some '/' := by decide

/-! ### Consequences in usable form -/

theorem SupportedFn.ok {f : BareFn} (h : SupportedFn f) : fnOk f.enum = true :=
  (List.all_eq_true.mp table_functions) f.enum h.mem

structure FnFacts (f : BareFn) : Prop where
  pos : 0 < f.enum
  lt : f.enum < 100
  long : shortestSupportedHashStringSize ≤ 2 * f.hashBytes
  explicit : midfixThreshold < f.enum →
    fields (fnMidfix f.enum) = [fnMidfix f.enum] ∧ NoDot (fnMidfix f.enum) ∧
    (fnMidfix f.enum).head? ≠ some '/' ∧ fnByName (fnMidfix f.enum) = some f
  inferred : ¬ midfixThreshold < f.enum →
    fnMidfix f.enum = [] ∧ getBareFunction 0 (2 * f.hashBytes) = some f

theorem SupportedFn.facts {f : BareFn} (h : SupportedFn f) : FnFacts f := by
  have hok := h.ok
  simp only [fnOk, h.get] at hok
  by_cases ht : midfixThreshold < f.enum
  · simp only [ht, if_true, Bool.and_eq_true, decide_eq_true_eq, noDotB_iff] at hok
    obtain ⟨⟨⟨⟨_, h2⟩, h3⟩, h4⟩, ⟨⟨h5, h6⟩, h7⟩, h8⟩ := hok
    exact ⟨h2, h3, h4, fun _ => ⟨h5, h6, h7, h8⟩, fun hn => absurd ht hn⟩
  · simp only [ht, if_false, Bool.and_eq_true, decide_eq_true_eq] at hok
    obtain ⟨⟨⟨⟨_, h2⟩, h3⟩, h4⟩, h5, h6⟩ := hok
    exact ⟨h2, h3, h4, fun hn => absurd hn ht, fun _ => ⟨h5, h6⟩⟩

/-- A function that `getBareFunction` can return. -/
def KnownFn (f : BareFn) : Prop := ∃ e n, getBareFunction e n = some f

theorem SupportedFn.known {f : BareFn} (h : SupportedFn f) : KnownFn f := ⟨_, _, h.get⟩

theorem KnownFn.facts {f : BareFn} (h : KnownFn f) :
    0 < f.enum ∧ f.enum < 100 ∧ shortestSupportedHashStringSize ≤ 2 * f.hashBytes := by
  obtain ⟨e, n, hg⟩ := h
  have hall := List.all_eq_true.mp table_known
  simp only [getBareFunction] at hg
  by_cases he : e = 0
  · simp only [he, if_true, Option.map_eq_some_iff] at hg
    obtain ⟨r, hr, rfl⟩ := hg
    have := hall r (List.mem_append_right _ (List.mem_of_find?_eq_some hr))
    simp only [Bool.and_eq_true, decide_eq_true_eq] at this
    exact ⟨this.1.1, this.1.2, this.2⟩
  · simp only [he, if_false, Option.map_eq_some_iff] at hg
    obtain ⟨r, hr, rfl⟩ := hg
    have := hall r (List.mem_append_left _ (List.mem_of_find?_eq_some hr))
    simp only [Bool.and_eq_true, decide_eq_true_eq] at this
    exact ⟨this.1.1, this.1.2, this.2⟩

/-- Every function `getBareFunction` can return is one of `SupportedDigestFunctions`, and looking
its own number up returns it again. -/
theorem table_known_supported :
    (byEnum ++ byLength).all (fun r => decide (r.2.1 ∈ supportedEnums) &&
      decide (getBareFunction r.2.1 0 = some ⟨r.2.1, r.2.2⟩)) = true := by decide

theorem KnownFn.supported {f : BareFn} (h : KnownFn f) : SupportedFn f := by
  obtain ⟨e, n, hg⟩ := h
  have hall := List.all_eq_true.mp table_known_supported
  simp only [getBareFunction] at hg
  by_cases he : e = 0
  · simp only [he, if_true, Option.map_eq_some_iff] at hg
    obtain ⟨r, hr, rfl⟩ := hg
    have := hall r (List.mem_append_right _ (List.mem_of_find?_eq_some hr))
    simp only [Bool.and_eq_true, decide_eq_true_eq] at this
    exact ⟨this.1, this.2⟩
  · simp only [he, if_false, Option.map_eq_some_iff] at hg
    obtain ⟨r, hr, rfl⟩ := hg
    have := hall r (List.mem_append_left _ (List.mem_of_find?_eq_some hr))
    simp only [Bool.and_eq_true, decide_eq_true_eq] at this
    exact ⟨this.1, this.2⟩

theorem fnByName_known {name : Str} {f : BareFn} (h : fnByName name = some f) : KnownFn f := by
  simp only [fnByName, Option.bind_eq_some_iff] at h
  obtain ⟨r, _, hr⟩ := h
  exact ⟨_, _, hr⟩

/-- A hash (all lower-case hex) is not the name of a digest function. -/
theorem fnByName_hex {hash : Str} (hh : hash.all isLowerHex = true) : fnByName hash = none := by
  unfold fnByName
  cases hf : supported.find? (fun r => decide (midfixThreshold < r.1 ∧ r.2 = hash)) with
  | none => rfl
  | some r =>
    exfalso
    have hm := List.mem_of_find?_eq_some hf
    have hp := List.find?_some hf
    simp only [decide_eq_true_eq] at hp
    have := (List.all_eq_true.mp table_names_not_hex) r (List.mem_filter.mpr ⟨hm, by simpa using hp.1⟩)
    rw [hp.2, hh] at this
    cases this

structure CompressorFacts (c : Nat) : Prop where
  head : (compressorMidfix c).head? ≠ some '/'
  nodot : ∀ k ∈ fields (compressorMidfix c), NoDot k
  shape : (c = 0 ∧ fields (compressorMidfix c) = [kwBlobs]) ∨
    (c ≠ 0 ∧ ∃ name, fields (compressorMidfix c) = [kwCompressedBlobs, name] ∧ compressorByName name = some c)

theorem SupportedCompressor.facts {c : Nat} (h : SupportedCompressor c) : CompressorFacts c := by
  have hm : c ∈ 0 :: compressors.map (·.1) := by
    rcases h with h | h
    · simp [h]
    · exact List.mem_cons_of_mem _ h
  have hok := (List.all_eq_true.mp table_compressors) c hm
  simp only [compressorOk, Bool.and_eq_true, decide_eq_true_eq, List.all_eq_true, noDotB_iff] at hok
  obtain ⟨⟨h1, h2⟩, h3⟩ := hok
  refine ⟨h1, h2, ?_⟩
  by_cases hc : c = 0
  · left; simp only [hc, if_true, decide_eq_true_eq] at h3; exact ⟨hc, by rw [hc]; exact h3⟩
  · right
    simp only [hc, if_false] at h3
    refine ⟨hc, ?_⟩
    split at h3
    · rename_i k name heq
      simp only [Bool.and_eq_true, decide_eq_true_eq] at h3
      exact ⟨name, by rw [heq, h3.1], h3.2⟩
    · cases h3

theorem compressorByName_supported {name : Str} {c : Nat} (h : compressorByName name = some c) :
    SupportedCompressor c ∧ c ≠ 0 := by
  simp only [compressorByName, Option.map_eq_some_iff] at h
  obtain ⟨r, hr, rfl⟩ := h
  have hm := List.mem_of_find?_eq_some hr
  refine ⟨Or.inr (List.mem_map.mpr ⟨r, hm, rfl⟩), ?_⟩
  have := (List.all_eq_true.mp table_compressor_names) r hm
  simpa using this

end BB.Digest
