import BB.Proofs.SyncerChan
/-!
Invariant of the `PersistentBlockList` part of the syncer model and its
preservation by every operation of the list.
-/
namespace BB.Syncer

/-! ### list helpers -/

theorem map_modify_inv {α β : Type} (f : α → α) (g : α → β) (hfg : ∀ x, g (f x) = g x) :
    ∀ (l : List α) (i : Nat), (l.modify i f).map g = l.map g
  | [], i => by simp
  | a :: l, 0 => by simp [hfg]
  | a :: l, i + 1 => by simp [map_modify_inv f g hfg l i]

theorem sum_ec_bump : ∀ (l : List Blk) (i : Nat), i < l.length →
    ((l.modify i bumpEc).map (·.ec)).sum = (l.map (·.ec)).sum + 1
  | [], i, h => by simp at h
  | a :: l, 0, _ => by simp [bumpEc]; omega
  | a :: l, i + 1, h => by
    have := sum_ec_bump l i (by simpa using h)
    simp at this ⊢
    omega

def ids (l : List Blk) : List Nat := l.map (·.id)

@[simp] theorem ids_modify_written (l : List Blk) (i e : Nat) : ids (l.modify i (bumpWritten e)) = ids l :=
  map_modify_inv _ _ (by intro x; rfl) l i
@[simp] theorem ids_modify_ec (l : List Blk) (i : Nat) : ids (l.modify i bumpEc) = ids l :=
  map_modify_inv _ _ (by intro x; rfl) l i
@[simp] theorem ec_modify_written (l : List Blk) (i e : Nat) :
    (l.modify i (bumpWritten e)).map (·.ec) = l.map (·.ec) :=
  map_modify_inv _ _ (by intro x; rfl) l i

/-! ### the invariant -/

structure BL.Inv (b : BL) : Prop where
  putWf : b.putCh.Wf
  relWf : b.relCh.Wf
  /-- the put wake-up channel blocks exactly when every epoch is synchronised -/
  putB : b.putCh.blocking = true ↔ b.syncedE = b.nE
  /-- the release wake-up channel blocks exactly when no block awaits release -/
  relB : b.relCh.blocking = true ↔ b.toRelease = []
  le1 : b.syncedE ≤ b.syncingE
  le2 : b.syncingE ≤ b.nE
  ecSum : (b.blocks.map (·.ec)).sum = b.nE
  noOob : b.oob = false
  nodup : (ids b.blocks ++ b.toRelease ++ b.free).Nodup

theorem BL.inv_init (free : List Nat) (oldest : Nat) (h : free.Nodup) :
    BL.Inv { free := free, oldest := oldest } :=
  ⟨Chan.wf_new, Chan.wf_new, by simp [BL.nE], by simp, by simp, by simp [BL.nE], by simp [BL.nE], rfl,
   by simpa [ids] using h⟩

theorem BL.inv_pushBack {b b' : BL} (h : b.Inv) (hp : b.pushBack = some b') : b'.Inv := by
  unfold BL.pushBack at hp
  by_cases hc : b.closedW = true
  · simp [hc] at hp
  · simp [hc] at hp
    cases hf : b.free with
    | nil => simp [hf] at hp
    | cons id rest =>
      simp [hf] at hp
      subst hp
      refine ⟨h.putWf, h.relWf, h.putB, h.relB, h.le1, h.le2, ?_, h.noOob, ?_⟩
      · simpa [BL.nE] using h.ecSum
      · have hn := h.nodup
        rw [hf] at hn
        simp only [ids, List.map_append, List.map_cons, List.map_nil]
        have hperm : (b.blocks.map (·.id) ++ [id] ++ b.toRelease ++ rest).Perm
            (b.blocks.map (·.id) ++ b.toRelease ++ id :: rest) := by
          have : (b.blocks.map (·.id) ++ [id] ++ b.toRelease ++ rest) =
              b.blocks.map (·.id) ++ (id :: (b.toRelease ++ rest)) := by simp
          rw [this]
          have : (b.blocks.map (·.id) ++ b.toRelease ++ id :: rest) =
              b.blocks.map (·.id) ++ (b.toRelease ++ id :: rest) := by simp
          rw [this]
          exact List.Perm.append_left _ (List.perm_middle.symm)
        exact (hperm.nodup_iff).2 hn

theorem BL.inv_syncStarting {b : BL} (h : b.Inv) (f : Bool) : (b.syncStarting f).Inv := by
  unfold BL.syncStarting
  refine ⟨h.putWf, h.relWf, h.putB, h.relB, ?_, ?_, ?_, h.noOob, ?_⟩
  · have := h.le1; have := h.le2; simp [BL.nE] at *; omega
  · simp [BL.nE]
  · simpa [BL.nE, Function.comp_def] using h.ecSum
  · simpa [ids, Function.comp_def] using h.nodup

theorem BL.inv_syncCompleted {b : BL} (h : b.Inv) : b.syncCompleted.Inv := by
  unfold BL.syncCompleted
  by_cases he : b.syncingE = b.nE
  · rw [show (if b.syncingE = b.nE then b.putCh.block else b.putCh) = b.putCh.block from if_pos he]
    refine ⟨?_, h.relWf, ?_, h.relB, ?_, ?_, ?_, h.noOob, ?_⟩
    · exact Chan.wf_block h.putWf
    · simpa [BL.nE] using he
    · simp
    · simpa [BL.nE] using h.le2
    · simpa [BL.nE, Function.comp_def] using h.ecSum
    · simpa [ids, Function.comp_def] using h.nodup
  · have hlt : b.syncingE < b.nE := Nat.lt_of_le_of_ne h.le2 he
    have hnb : b.putCh.blocking ≠ true := by
      intro hb
      have := h.putB.1 hb
      have := h.le1
      omega
    rw [show (if b.syncingE = b.nE then b.putCh.block else b.putCh) = b.putCh from if_neg he]
    refine ⟨?_, h.relWf, ?_, h.relB, ?_, ?_, ?_, h.noOob, ?_⟩
    · exact h.putWf
    · constructor
      · intro hb; exact absurd hb hnb
      · intro hb; exact absurd (by simpa [BL.nE] using hb) he
    · simp
    · simpa [BL.nE] using h.le2
    · simpa [BL.nE, Function.comp_def] using h.ecSum
    · simpa [ids, Function.comp_def] using h.nodup

theorem ec_le_sum (f : Blk) (rest : List Blk) : f.ec ≤ ((f :: rest).map (·.ec)).sum := by simp

theorem BL.inv_popFront {b b' : BL} (h : b.Inv) (hp : b.popFront = some b') : b'.Inv := by
  unfold BL.popFront at hp
  cases hb : b.blocks with
  | nil => simp [hb] at hp
  | cons f rest =>
    simp only [hb, Option.some.injEq] at hp
    subst hp
    have hsum := h.ecSum
    rw [hb] at hsum
    simp only [List.map_cons, List.sum_cons] at hsum
    have hle1 := h.le1
    have hle2 := h.le2
    have hlen : (b.epochLast.drop f.ec).length = b.nE - f.ec := by simp [BL.nE]
    refine ⟨?_, Chan.wf_unblock h.relWf, ?_, ?_, ?_, ?_, ?_, ?_, ?_⟩
    · show (if b.syncedE - f.ec = (b.epochLast.drop f.ec).length then b.putCh.block else b.putCh).Wf
      split
      · exact Chan.wf_block h.putWf
      · exact h.putWf
    · show (if b.syncedE - f.ec = (b.epochLast.drop f.ec).length then b.putCh.block else b.putCh).blocking = true ↔
        b.syncedE - f.ec = (b.epochLast.drop f.ec).length
      split
      · rename_i he; simp [he]
      · rename_i he
        constructor
        · intro hbk
          have := h.putB.1 hbk
          rw [hlen] at he
          omega
        · intro hx; exact absurd hx he
    · show b.relCh.unblock.blocking = true ↔ b.toRelease ++ [f.id] = []
      simp
    · show b.syncedE - f.ec ≤ b.syncingE - f.ec
      omega
    · show b.syncingE - f.ec ≤ (b.epochLast.drop f.ec).length
      rw [hlen]; omega
    · show (rest.map (·.ec)).sum = (b.epochLast.drop f.ec).length
      rw [hlen]; omega
    · show (b.oob || decide (b.epochLast.length < f.ec)) = false
      have : ¬ b.epochLast.length < f.ec := by
        have : b.epochLast.length = b.nE := rfl
        omega
      simp [h.noOob, this]
    · show (ids rest ++ (b.toRelease ++ [f.id]) ++ b.free).Nodup
      have hn := h.nodup
      rw [hb] at hn
      have hperm : (ids rest ++ (b.toRelease ++ [f.id]) ++ b.free).Perm
          (ids (f :: rest) ++ b.toRelease ++ b.free) := by
        have e1 : ids rest ++ (b.toRelease ++ [f.id]) ++ b.free =
            (ids rest ++ b.toRelease) ++ f.id :: b.free := by simp
        have e2 : ids (f :: rest) ++ b.toRelease ++ b.free =
            f.id :: ((ids rest ++ b.toRelease) ++ b.free) := by simp [ids]
        rw [e1, e2]
        exact List.perm_middle
      exact (hperm.nodup_iff).2 hn

theorem BL.inv_fin {b b' : BL} {abs e : Nat} {r : FinRes} (h : b.Inv) (hf : b.fin abs e = some (b', r)) :
    b'.Inv := by
  unfold BL.fin at hf
  by_cases hc : b.closedW = true
  · rw [if_pos hc] at hf; simp at hf; rw [← hf.1]; exact h
  · rw [if_neg hc] at hf
    by_cases hr : abs < b.totalReleased
    · rw [if_pos hr] at hf; simp at hf; rw [← hf.1]; exact h
    · rw [if_neg hr] at hf
      by_cases hi : abs - b.totalReleased ≥ b.blocks.length
      · rw [if_pos hi] at hf; simp at hf
      · rw [if_neg hi] at hf
        have hlen : 0 < b.blocks.length := by omega
        have hle2 := h.le2
        have hle1 := h.le1
        simp only at hf
        generalize (b.epochLast.length == b.syncingE ||
          match b.epochLast.getLast? with
          | some l => decide (l < abs)
          | none => true) = cond at hf
        cases cond
        case true =>
          rw [if_pos rfl] at hf
          injection hf with hf
          injection hf with hf1 hf2
          rw [← hf1]
          refine ⟨h.putWf |> Chan.wf_unblock, h.relWf, ?_, h.relB, h.le1, ?_, ?_, h.noOob, ?_⟩
          · show b.putCh.unblock.blocking = true ↔ b.syncedE = (b.epochLast ++ [_]).length
            simp [BL.nE] at *
            omega
          · show b.syncingE ≤ (b.epochLast ++ [_]).length
            simp [BL.nE] at *; omega
          · show (((b.blocks.modify (abs - b.totalReleased) (bumpWritten e)).modify
                ((b.blocks.modify (abs - b.totalReleased) (bumpWritten e)).length - 1) bumpEc).map (·.ec)).sum =
                (b.epochLast ++ [_]).length
            rw [sum_ec_bump _ _ (by simp; omega)]
            simp [h.ecSum, BL.nE]
          · show (ids ((b.blocks.modify (abs - b.totalReleased) (bumpWritten e)).modify _ bumpEc) ++
                b.toRelease ++ b.free).Nodup
            simpa using h.nodup
        case false =>
          rw [if_neg (by simp)] at hf
          injection hf with hf
          injection hf with hf1 hf2
          rw [← hf1]
          refine ⟨h.putWf, h.relWf, h.putB, h.relB, h.le1, h.le2, ?_, h.noOob, ?_⟩
          · show ((b.blocks.modify (abs - b.totalReleased) (bumpWritten e)).map (·.ec)).sum = _
            simpa [BL.nE] using h.ecSum
          · show (ids (b.blocks.modify (abs - b.totalReleased) (bumpWritten e)) ++ b.toRelease ++ b.free).Nodup
            simpa using h.nodup

/-! ### `GetPersistentState` and `NotifyPersistentStateWritten` -/

/-- The loop of `GetPersistentState` never indexes out of range when it is asked
for at most as many epochs as the blocks account for; it then lists exactly that
many epochs, and only blocks of the list. -/
theorem snapBlocks_some : ∀ (l : List Blk) (n : Nat), n ≤ (l.map (·.ec)).sum →
    ∃ bs, snapBlocks l n = some bs ∧ (bs.map (·.2.2)).sum = n ∧ ∀ x, x ∈ bs.map (·.1) → x ∈ ids l
  | l, 0, _ => ⟨[], by cases l <;> simp [snapBlocks], by simp, by simp⟩
  | [], n + 1, h => by simp at h
  | k :: ks, n + 1, h => by
    have hle : n + 1 - min k.ec (n + 1) ≤ (ks.map (·.ec)).sum := by
      simp at h; omega
    obtain ⟨bs, h1, h2, h3⟩ := snapBlocks_some ks (n + 1 - min k.ec (n + 1)) hle
    refine ⟨(k.id, k.synced, min k.ec (n + 1)) :: bs, ?_, ?_, ?_⟩
    · simp [snapBlocks, h1]
    · simp [h2]; omega
    · intro x hx
      simp at hx
      rcases hx with hx | hx
      · simp [ids, hx]
      · have := h3 x (by simpa using hx)
        simp [ids] at this ⊢
        right; exact this

theorem BL.getState_spec {b : BL} (h : b.Inv) :
    ∃ bs, snapBlocks b.blocks b.syncedE = some bs ∧
      b.getState = ({ b with releasing := b.toRelease.length }, { oldest := b.oldest, blocks := bs }) ∧
      (bs.map (·.2.2)).sum = b.syncedE ∧ ∀ x, x ∈ bs.map (·.1) → x ∈ ids b.blocks := by
  have hle : b.syncedE ≤ (b.blocks.map (·.ec)).sum := by
    rw [h.ecSum]; exact Nat.le_trans h.le1 h.le2
  obtain ⟨bs, h1, h2, h3⟩ := snapBlocks_some b.blocks b.syncedE hle
  exact ⟨bs, h1, by simp [BL.getState, h1], h2, h3⟩

theorem BL.inv_getState {b : BL} (h : b.Inv) : b.getState.1.Inv := by
  obtain ⟨bs, _, h2, _, _⟩ := BL.getState_spec h
  rw [h2]
  exact ⟨h.putWf, h.relWf, h.putB, h.relB, h.le1, h.le2, h.ecSum, h.noOob, h.nodup⟩

theorem BL.inv_stateWritten {b : BL} (h : b.Inv) (hr : b.releasing ≤ b.toRelease.length) :
    b.stateWritten.Inv := by
  unfold BL.stateWritten
  refine ⟨h.putWf, ?_, h.putB, ?_, h.le1, h.le2, h.ecSum, ?_, ?_⟩
  · show (if (b.toRelease.drop b.releasing).isEmpty then b.relCh.block else b.relCh).Wf
    split
    · exact Chan.wf_block h.relWf
    · exact h.relWf
  · show (if (b.toRelease.drop b.releasing).isEmpty then b.relCh.block else b.relCh).blocking = true ↔
      b.toRelease.drop b.releasing = []
    split
    · rename_i he; simp at he; simp [he]
    · rename_i he
      simp at he
      constructor
      · intro hb
        have := h.relB.1 hb
        simp [this] at he
      · intro hx
        have : (b.toRelease.drop b.releasing).length = 0 := by rw [hx]; rfl
        simp at this; omega
  · show (b.oob || decide (b.toRelease.length < b.releasing)) = false
    have : ¬ b.toRelease.length < b.releasing := by omega
    simp [h.noOob, this]
  · show (ids b.blocks ++ b.toRelease.drop b.releasing ++ (b.free ++ b.toRelease.take b.releasing)).Nodup
    have hn := h.nodup
    have hperm : (ids b.blocks ++ b.toRelease.drop b.releasing ++ (b.free ++ b.toRelease.take b.releasing)).Perm
        (ids b.blocks ++ b.toRelease ++ b.free) := by
      have e1 : ids b.blocks ++ b.toRelease.drop b.releasing ++ (b.free ++ b.toRelease.take b.releasing) =
          ids b.blocks ++ (b.toRelease.drop b.releasing ++ (b.free ++ b.toRelease.take b.releasing)) := by simp
      have e2 : ids b.blocks ++ b.toRelease ++ b.free = ids b.blocks ++ (b.toRelease ++ b.free) := by simp
      rw [e1, e2]
      apply List.Perm.append_left
      have e3 : b.toRelease ++ b.free = b.toRelease.take b.releasing ++ (b.toRelease.drop b.releasing ++ b.free) := by
        rw [← List.append_assoc, List.take_append_drop]
      rw [e3]
      have hp := @List.perm_append_comm _ (b.toRelease.drop b.releasing ++ b.free) (b.toRelease.take b.releasing)
      simpa using hp
    exact (hperm.nodup_iff).2 hn

end BB.Syncer
