import BB.Proofs.PersistCrash5
/-!
# Crash and restart preserve the invariant; every reachable world satisfies it
-/
namespace BB.Persist

theorem inv_crashRestart {w : World} (h : Inv w) (keepData keepIdx : List Bool) (pick : Nat) (lo : Bool) :
    Inv (w.crashRestart keepData keepIdx pick lo) := by
  obtain ⟨hren, hstate⟩ := crash_file w.dir pick lo
  -- the file the restart reads, and what the invariant says about it
  have hcore : FileCore w.cfg.ss (World.readState (w.dir.crash pick lo)) (held w.pbl w.zombies) (recsOf w.idx) w.objs w.nextSeed ∧
      ∀ g ∈ filesOf (w.dir.crash pick lo), g = World.readState (w.dir.crash pick lo) := by
    rcases hstate with hnone | ⟨f, hf, hfm⟩
    · refine ⟨by simp only [World.readState, hnone, Option.getD_none]; exact fileCore_fresh _ _ _ _ _, ?_⟩
      intro g hg
      simp [filesOf, hnone, hren] at hg
    · refine ⟨?_, ?_⟩
      · simp only [World.readState, hf, Option.getD_some]
        refine (h.files f hfm).core ?_
        intro b hb
        unfold held
        rcases List.mem_append.1 hb with hb | hb
        · exact List.mem_append_left _ (List.mem_append_left _ hb)
        · exact List.mem_append_left _ (List.mem_append_right _ hb)
      · intro g hg
        simp only [filesOf, hf, hren, Option.toList, List.append_nil, List.mem_singleton] at hg
        simp only [World.readState, hf, Option.getD_some]
        exact hg
  obtain ⟨hc, hfiles⟩ := hcore
  generalize hfdef : World.readState (w.dir.crash pick lo) = f at hc hfiles
  obtain ⟨hslots, hrange⟩ := file_slots h hc
  obtain ⟨free', hrest, hfn, hfm⟩ := restore_file w.cfg.ss w.cfg.nslots f hslots hrange
  have hown := own_crash (w := w) hc.gids hslots hrange ⟨hfn, hfm⟩
  -- the world after the restart, spelled out
  have hw : w.crashRestart keepData keepIdx pick lo =
      { w with pbl := f.pbl w.cfg.ss, free := free', pins := [], zombies := []
               objs := (w.objs.filter (World.survives (f.pbl w.cfg.ss))).map clr
               nextGid := crashGid w f
               data := w.data.crash keepData, idx := w.idx.crash keepIdx, dir := w.dir.crash pick lo
               g1 := .idle, sw := none } := by
    unfold World.crashRestart
    simp only [hfdef, hrest]
    rfl
  rw [hw]
  refine ⟨h.cfg, file_pbl_wfp f w.cfg.ss h.cfg hc.gids, hown, objInv_crash h hc hown, epochInv_crash h hc,
    devInv_crash h hc keepData, recInv_crash hc h.recs.seedLt (recsOf_crash_sub _ _), ?_, ?_, ?_⟩
  · intro g hg
    rw [hfiles g hg]
    exact fileInv_crash h hc (recsOf_crash_sub _ _)
  · intro s hs; cases hs
  · exact ⟨by intro s hs; cases hs⟩

/-- Every step preserves the invariant. -/
theorem inv_step {w w' : World} (h : Inv w) (hs : Step w w') : Inv w' := by
  cases hs with
  | popFront hp => exact inv_popFront h hp
  | pushBack hp => exact inv_pushBack h hp
  | reserve hr => exact inv_reserve h hr
  | copy ho hu hc => exact inv_copy h ho hu hc
  | refreshCopy hc => exact inv_refreshCopy h hc
  | finalize hf => exact inv_finalize h hf
  | recWrite ho hk hoff hsz hfin hrel hb hbg hw => exact inv_recWrite h ho hk hoff hsz hfin hrel hb hbg hw
  | g1Start hg => exact inv_g1Start h hg
  | syncBegin hg => exact inv_syncBegin h hg
  | syncEnd hg => exact inv_syncEnd h hg
  | syncFail hg => exact inv_syncFail h hg
  | g1Completed hg => exact inv_g1Completed h hg
  | swBegin hg => exact inv_swBegin h hg
  | swStep hg => exact inv_swStep h hg
  | swFail hg => exact inv_swFail h hg
  | swDone hg => exact inv_swDone h hg
  | crashRestart kd ki pick lo => exact inv_crashRestart h kd ki pick lo

theorem inv_reach {c : Cfg} (hss : 0 < c.ss) {w : World} (hr : Reach c w) : Inv w := by
  induction hr with
  | init => exact inv_init c hss
  | step _ hs ih => exact inv_step ih hs

end BB.Persist
