import BB.Proofs.PersistCapture
import BB.Proofs.PersistFinRef
import BB.Proofs.PersistDevSync
/-!
# The invariant of the persistence model

Stated in groups, each over exactly the components of the world it speaks about, so that a step
that does not touch those components preserves the group by `exact`.
-/
namespace BB.Persist

/-- Blocks whose device region is not available to the allocator: in the list, popped but not yet
released by `NotifyPersistentStateWritten`, or released while a writer still holds them. -/
def held (p : PBL) (zombies : List Blk) : List Blk := p.blocks ++ p.toRelease ++ zombies

/-- Ownership of device regions. -/
structure Own (p : PBL) (zombies : List Blk) (free : List Nat) (nslots nextGid : Nat) : Prop where
  slots : ((held p zombies).map (·.slot) ++ free).Nodup
  range : ∀ s ∈ (held p zombies).map (·.slot) ++ free, s < nslots
  gids : ((held p zombies).map (·.gid)).Nodup
  gidLt : ∀ b ∈ held p zombies, b.gid < nextGid
  next : ∀ b, p.blocks.getLast? = some b → b.gid + 1 = nextGid

/-- The object is described by the record (same key, place) and was finalized no later than the
record's epoch. -/
def Matches (o : Obj) (r : PRec) : Prop :=
  o.key = r.key ∧ o.off = r.off ∧ o.size = r.size ∧ o.copied = true ∧ ∃ e, o.fin = some e ∧ e ≤ r.epoch

/-- Facts about the objects and the blocks. -/
structure ObjInv (c : Cfg) (objs : List Obj) (p : PBL) (zombies : List Blk) (pins : List Nat) (nextObj nextGid : Nat)
    (shadow : List (Nat × Nat)) : Prop where
  ids : (objs.map (·.id)).Nodup
  idLt : ∀ o ∈ objs, o.id < nextObj
  size : ∀ o ∈ objs, 1 ≤ o.size
  gidLt : ∀ o ∈ objs, o.gid < nextGid
  slotOk : ∀ o ∈ objs, ∀ b ∈ held p zombies, b.gid = o.gid → o.slot = b.slot
  /-- an object of the running process sits in the block it was allocated in -/
  place : ∀ o ∈ objs, o.mine = true → ∀ i b, p.blocks[i]? = some b → b.gid = o.gid →
    o.abs = p.released + i ∧ o.off + o.size ≤ b.cursor
  absIn : ∀ o ∈ objs, o.mine = true → o.abs < p.released + p.blocks.length ∧
    (p.released ≤ o.abs → ∃ b, p.blocks[o.abs - p.released]? = some b ∧ b.gid = o.gid)
  /-- objects of the running process lie above the cursor their block was attached with ... -/
  baseLe : ∀ o ∈ objs, o.mine = true → ∀ b ∈ held p zombies, b.gid = o.gid → b.base ≤ o.off
  /-- ... restored objects below it (`C02_no_overwrite_after_restart`, the cursor half) -/
  restored : ∀ o ∈ objs, o.mine = false → o.durable = true ∧ o.copied = true ∧
    ∀ b ∈ held p zombies, b.gid = o.gid → o.off + o.size ≤ b.base
  disj : ∀ o1 ∈ objs, ∀ o2 ∈ objs, o1.mine = true → o2.mine = true → o1.gid = o2.gid → o1.id ≠ o2.id →
    o1.off + o1.size ≤ o2.off ∨ o2.off + o2.size ≤ o1.off
  /-- the device region of an object that is still being written is held -/
  heldW : ∀ o ∈ objs, o.mine = true → o.copied = false → ∃ b ∈ held p zombies, b.gid = o.gid
  pinCount : ∀ g, (objs.filter fun o => o.mine && !o.copied && o.gid == g).length ≤ pins.count g
  fin : ∀ o ∈ objs, o.fin.isSome → o.copied = true
  flags : ∀ o ∈ objs, (o.precov = true → o.mine = true ∧ o.copied = true) ∧ (o.durable = true → o.copied = true)
  shadow : ∀ o ∈ objs, o.copied = true → (o.key, o.data) ∈ shadow
  aligned : ∀ b ∈ held p zombies, c.ss ∣ b.base
  cursor : ∀ b ∈ p.blocks, b.base ≤ b.cursor

/-- Epochs and offsets: what `NotifySyncStarting` / `NotifySyncCompleted` may expose
(`C02_epoch_covered`). -/
structure EpochInv (objs : List Obj) (p : PBL) (g1 : G1) : Prop where
  range : ∀ o ∈ objs, ∀ i b e, p.blocks[i]? = some b → b.gid = o.gid → o.fin = some e →
    p.oldestEpoch ≤ e ∧ (∃ last, p.epochLast[e - p.oldestEpoch]? = some last ∧ p.released + i ≤ last) ∧
    o.off + o.size ≤ b.written
  synced : ∀ o ∈ objs, ∀ b ∈ p.blocks, ∀ e, b.gid = o.gid → o.fin = some e → e < p.oldestEpoch + p.syncedEpochs →
    o.durable = true ∧ o.off + o.size ≤ b.synced
  syncing : ∀ o ∈ objs, ∀ b ∈ p.blocks, ∀ e, b.gid = o.gid → o.fin = some e → e < p.oldestEpoch + p.syncingEpochs →
    o.off + o.size ≤ b.syncing ∧
    (∀ f, g1 = .syncing f → o.precov = true ∨ o.durable = true) ∧ (∀ f, g1 = .synced f → o.durable = true)
  precov : ∀ o ∈ objs, o.precov = true → ∃ f, g1 = .syncing f

/-- The data device and the ghost flags. -/
structure DevInv (c : Cfg) (objs : List Obj) (d : DataDev) (p : PBL) (zombies : List Blk) (nextObj : Nat) : Prop where
  pref : CovPrefix d.pend
  mine : ∀ o ∈ objs, o.mine = true → o.copied = true → (∃ b ∈ held p zombies, b.gid = o.gid) →
    ∀ s ∈ secsOf c.ss o.off o.size, Tail d o.id o.slot s
  precov : ∀ o ∈ objs, o.precov = true → (∃ b ∈ held p zombies, b.gid = o.gid) →
    ∀ s ∈ secsOf c.ss o.off o.size, TailC d o.id o.slot s
  durable : ∀ o ∈ objs, o.durable = true → (∃ b ∈ held p zombies, b.gid = o.gid) →
    ∀ s ∈ secsOf c.ss o.off o.size, Settled d o.id o.slot s
  /-- what a sector holds are objects of one block, at distinct offsets -/
  content : ∀ o1 ∈ objs, ∀ o2 ∈ objs, ∀ (L : List Nat) (slot s : Nat),
    (L = d.durGet slot s ∨ ∃ x ∈ d.pend, x.slot = slot ∧ x.sec = s ∧ L = x.objs) →
    o1.id ∈ L → o2.id ∈ L → o1.slot = slot → o2.slot = slot → o1.off = o2.off → o1.id = o2.id
  contentLt : ∀ (L : List Nat) (slot s : Nat),
    (L = d.durGet slot s ∨ ∃ x ∈ d.pend, x.slot = slot ∧ x.sec = s ∧ L = x.objs) → ∀ id ∈ L, id < nextObj

end BB.Persist
