import BB.Model.Syncer
/-!
`notificationChannel`: the well-formedness invariant that makes
`close of closed channel` unreachable and keeps replaced channels closed.
-/
namespace BB.Syncer

/-- `blocking` says exactly that the current channel object is still open; every
replaced (older) channel object has been closed; nothing was closed twice. -/
structure Chan.Wf (c : Chan) : Prop where
  cur : c.blocking = true ↔ c.gen ∉ c.closed
  old : ∀ g, g < c.gen → g ∈ c.closed
  le : ∀ g, g ∈ c.closed → g ≤ c.gen
  nodup : c.closed.Nodup
  ok : c.panicked = false

theorem Chan.wf_new : ({} : Chan).Wf :=
  ⟨by simp, by simp, by simp, by simp, rfl⟩

theorem Chan.wf_block {c : Chan} (h : c.Wf) : c.block.Wf := by
  unfold Chan.block
  by_cases hb : c.blocking = true
  · simp [hb]; exact h
  · simp [hb]
    have hin : c.gen ∈ c.closed := by
      by_cases hm : c.gen ∈ c.closed
      · exact hm
      · exact absurd (h.cur.2 hm) hb
    refine ⟨?_, ?_, ?_, h.nodup, h.ok⟩
    · simp
      intro hm
      have := h.le _ hm
      omega
    · intro g hg
      simp at hg
      by_cases hgg : g = c.gen
      · subst hgg; exact hin
      · exact h.old g (by omega)
    · intro g hg
      have := h.le g hg
      simp; omega

theorem Chan.wf_unblock {c : Chan} (h : c.Wf) : c.unblock.Wf := by
  unfold Chan.unblock
  by_cases hb : c.blocking = true
  · have hn : c.gen ∉ c.closed := h.cur.1 hb
    simp [hb, hn]
    refine ⟨?_, ?_, ?_, ?_, h.ok⟩
    · simp
    · intro g hg; simp; right; exact h.old g hg
    · intro g hg
      simp at hg
      rcases hg with hg | hg
      · simp [hg]
      · exact h.le g hg
    · exact List.nodup_cons.2 ⟨hn, h.nodup⟩
  · simp [hb]; exact h

@[simp] theorem Chan.block_blocking (c : Chan) : c.block.blocking = true := by
  unfold Chan.block; by_cases hb : c.blocking = true <;> simp [hb]

@[simp] theorem Chan.unblock_blocking (c : Chan) : c.unblock.blocking = false := by
  unfold Chan.unblock
  by_cases hb : c.blocking = true
  · by_cases hm : c.gen ∈ c.closed <;> simp [hb, hm]
  · simp [hb]

/-- `unblock` never closes a closed channel when the channel is well formed. -/
theorem Chan.unblock_ok {c : Chan} (h : c.Wf) : c.unblock.panicked = false :=
  (Chan.wf_unblock h).ok

theorem Chan.closed_block {c : Chan} {g : Nat} : g ∈ c.block.closed ↔ g ∈ c.closed := by
  unfold Chan.block; by_cases hb : c.blocking = true <;> simp [hb]

theorem Chan.closed_unblock_mono {c : Chan} {g : Nat} (hg : g ∈ c.closed) : g ∈ c.unblock.closed := by
  unfold Chan.unblock
  by_cases hb : c.blocking = true
  · by_cases hm : c.gen ∈ c.closed <;> simp [hb, hm, hg]
  · simp [hb, hg]

theorem Chan.gen_block_le (c : Chan) : c.gen ≤ c.block.gen := by
  unfold Chan.block; by_cases hb : c.blocking = true <;> simp [hb]

@[simp] theorem Chan.gen_unblock (c : Chan) : c.unblock.gen = c.gen := by
  unfold Chan.unblock
  by_cases hb : c.blocking = true
  · by_cases hm : c.gen ∈ c.closed <;> simp [hb, hm]
  · simp [hb]

/-- A well-formed channel that is not blocking has its current object closed:
a receiver holding the current generation does not block. -/
theorem Chan.Wf.ready_cur {c : Chan} (h : c.Wf) (hb : c.blocking = false) : c.ready c.gen = true := by
  unfold Chan.ready
  by_cases hm : c.gen ∈ c.closed
  · simpa using hm
  · have := h.cur.2 hm; simp [hb] at this

/-- A receiver holding any generation up to the current one does not block
when the channel is not blocking (older objects were closed before being replaced). -/
theorem Chan.Wf.ready_le {c : Chan} (h : c.Wf) (hb : c.blocking = false) {g : Nat} (hg : g ≤ c.gen) :
    c.ready g = true := by
  by_cases hgg : g = c.gen
  · subst hgg; exact h.ready_cur hb
  · unfold Chan.ready; simpa using h.old g (by omega)

end BB.Syncer
