import BB.Proofs.PersistInv
/-!
# The invariant, continued: index records, state files, the state writer; the whole
-/
namespace BB.Persist

/-- Every record on the index device, durable or pending. -/
def recsOf (d : IdxDev) : List PRec := d.dur.map (·.2) ++ d.pend.map (·.2)

/-- Index records and the running block list (`C02_record_valid_after_restart`, running side): a
record that resolves describes a finalized object in the block it resolves to. -/
structure RecInv (recs : List PRec) (objs : List Obj) (p : PBL) (nextSeed : Nat) : Prop where
  res : ∀ r ∈ recs, ∀ i, p.refToIdx r.epoch r.bfl = some (i, r.seed) →
    ∃ b o, p.blocks[i]? = some b ∧ o ∈ objs ∧ o.gid = b.gid ∧ Matches o r
  seedLt : ∀ r ∈ recs, r.seed < nextSeed
  pSeeds : ∀ s ∈ p.seeds, s < nextSeed

/-- A state file a restart may read, now or later. `heldF` are the blocks that may not be released
while the file can still be read. -/
structure FileInv (ss : Nat) (f : SFile) (heldF : List Blk) (recs : List PRec) (objs : List Obj) (p : PBL)
    (nextSeed : Nat) : Prop where
  gids : ∃ g, gidsFrom g (f.blocks.map (restoredBlk ss))
  heldIn : ∀ bs ∈ f.blocks, ∃ b ∈ heldF, b.gid = bs.gid ∧ b.slot = bs.slot
  bound : f.oldest + (fseeds f.blocks).length ≤ p.oldestEpoch + p.syncedEpochs
  seedLt : ∀ s ∈ fseeds f.blocks, s < nextSeed
  /-- every object finalized in an epoch of the file is durable and below the file's write offset
  (`C02_epoch_covered`) -/
  committed : ∀ o ∈ objs, ∀ j bs e, f.blocks[j]? = some bs → bs.gid = o.gid → o.fin = some e →
    e < f.oldest + (fseeds f.blocks).length →
    o.durable = true ∧ o.off + o.size ≤ bs.wo ∧ f.oldest ≤ e ∧
      ∃ last, (f.pbl ss).epochLast[e - f.oldest]? = some last ∧ j ≤ last
  /-- a record that would resolve after a restart from this file describes such an object -/
  res : ∀ r ∈ recs, ∀ i, (f.pbl ss).refToIdx r.epoch r.bfl = some (i, r.seed) →
    ∃ bs o, f.blocks[i]? = some bs ∧ o ∈ objs ∧ o.gid = bs.gid ∧ Matches o r
  /-- an epoch known to both the file and the running list has the same last block -/
  agree : ∀ e i i' sd, (f.pbl ss).refToIdx e 0 = some (i, sd) → p.refToIdx e 0 = some (i', sd) →
    ∃ bs b, f.blocks[i]? = some bs ∧ p.blocks[i']? = some b ∧ bs.gid = b.gid

/-- The files a restart may find after a crash now. -/
def filesOf (d : StateDir) : List SFile := d.state.toList ++ d.renamed

/-- The state writer in progress and the directory. -/
structure SwInv (sw : Option Sw) (d : StateDir) (p : PBL) (g1 : G1) : Prop where
  stage : ∀ s, sw = some s → s.stage ≤ 6 ∧
    (s.stage = 3 → d.tmp = .written s.file) ∧ (s.stage = 4 → d.tmp = .synced s.file) ∧
    (s.stage = 5 → d.renamed.getLast? = some s.file) ∧
    (s.stage = 6 → d.state = some s.file ∧ d.renamed = []) ∧
    p.releasing ≤ p.toRelease.length ∧ (s.owner = 1 → ∃ f, g1 = .want f)

structure Inv (w : World) : Prop where
  cfg : 0 < w.cfg.ss
  wfp : WFP w.pbl
  own : Own w.pbl w.zombies w.free w.cfg.nslots w.nextGid
  obj : ObjInv w.cfg w.objs w.pbl w.zombies w.pins w.nextObj w.nextGid w.shadow
  epoch : EpochInv w.objs w.pbl w.g1
  dev : DevInv w.cfg w.objs w.data w.pbl w.zombies w.nextObj
  recs : RecInv (recsOf w.idx) w.objs w.pbl w.nextSeed
  files : ∀ f ∈ filesOf w.dir,
    FileInv w.cfg.ss f (w.pbl.blocks ++ w.pbl.toRelease) (recsOf w.idx) w.objs w.pbl w.nextSeed
  swFile : ∀ s, w.sw = some s →
    FileInv w.cfg.ss s.file (w.pbl.blocks ++ w.pbl.toRelease.drop w.pbl.releasing) (recsOf w.idx) w.objs w.pbl w.nextSeed
  sw : SwInv w.sw w.dir w.pbl w.g1

end BB.Persist
