import BB.Proofs.DigestCodec
/-!
Helper lemmas for C20, part 6: instance names (`NewInstanceName` accepts exactly the joins of
valid component lists) and the ancestor list.
-/
namespace BB.Digest
open BB.Gen.Digest

/-! ### `join` of components has no redundant slashes -/

theorem join_ne_nil {c : Str} {cs : List Str} (hc : c ≠ []) : join (c :: cs) ≠ [] :=
  join_eq_nil_of_head_nonempty c cs hc

theorem getLast?_mem_ne {w : Str} (h : Comp w) : w.getLast? ≠ some '/' := by
  intro e
  exact h.2 (List.mem_of_getLast? e)

theorem join_getLast : ∀ {cs : List Str}, (∀ c ∈ cs, Comp c) → (join cs).getLast? ≠ some '/'
  | [], _ => by simp [join]
  | [a], h => by simpa [join] using getLast?_mem_ne (h a (by simp))
  | a :: b :: r, h => by
    have ih := join_getLast (cs := b :: r) (fun x hx => h x (List.mem_cons_of_mem _ hx))
    have hne : join (b :: r) ≠ [] := join_ne_nil (h b (by simp)).1
    rw [join, List.getLast?_append]
    cases hj : join (b :: r) with
    | nil => exact absurd hj hne
    | cons x xs =>
      rw [hj] at ih
      rw [List.getLast?_cons_cons]
      cases hl : (x :: xs).getLast? with
      | none => simp at hl
      | some z => rw [hl] at ih; simpa using ih

theorem hasDoubleSlash_append_slash : ∀ (w : Str) (x : Str), '/' ∉ w → w ≠ [] → x.head? ≠ some '/' →
    hasDoubleSlash (w ++ '/' :: x) = hasDoubleSlash x
  | [], _, _, h, _ => absurd rfl h
  | [a], x, hw, _, hx => by
    have ha : a ≠ '/' := fun e => hw (e ▸ List.mem_cons_self)
    cases x with
    | nil => simp [hasDoubleSlash, ha]
    | cons b t =>
      have hb : b ≠ '/' := by simpa using hx
      simp [hasDoubleSlash, ha, hb]
  | a :: b :: t, x, hw, _, hx => by
    have ha : a ≠ '/' := fun e => hw (e ▸ List.mem_cons_self)
    have := hasDoubleSlash_append_slash (b :: t) x (fun hm => hw (List.mem_cons_of_mem _ hm)) (by simp) hx
    simp only [List.cons_append] at this ⊢
    rw [hasDoubleSlash, this]
    simp [ha]

theorem hasDoubleSlash_slashfree : ∀ (w : Str), '/' ∉ w → hasDoubleSlash w = false
  | [], _ => rfl
  | [_], _ => rfl
  | a :: b :: t, hw => by
    have ha : a ≠ '/' := fun e => hw (e ▸ List.mem_cons_self)
    rw [hasDoubleSlash, hasDoubleSlash_slashfree (b :: t) (fun hm => hw (List.mem_cons_of_mem _ hm))]
    simp [ha]

theorem hasDoubleSlash_join : ∀ {cs : List Str}, (∀ c ∈ cs, Comp c) → hasDoubleSlash (join cs) = false
  | [], _ => rfl
  | [a], h => by simpa [join] using hasDoubleSlash_slashfree a (h a (by simp)).2
  | a :: b :: r, h => by
    have hrest : ∀ c ∈ b :: r, Comp c := fun x hx => h x (List.mem_cons_of_mem _ hx)
    rw [join, hasDoubleSlash_append_slash a _ (h a (by simp)).2 (h a (by simp)).1 (join_comps_head hrest)]
    exact hasDoubleSlash_join hrest

/-- `NewInstanceName` accepts every join of valid components (and returns it unchanged). -/
theorem newInstanceName_join {cs : List Str} (h : ValidComps cs) : newInstanceName (join cs) = .ok (join cs) := by
  have h1 := join_comps_head h.comp
  have h2 := join_getLast h.comp
  have h3 := hasDoubleSlash_join h.comp
  simp [newInstanceName, h1, h2, h3, fields_join_comps cs h.comp, validateComponents_valid cs h]

/-! ### ... and conversely a name without redundant slashes is the join of its fields -/

theorem join_fieldsGo : ∀ (s cur : Str), hasDoubleSlash s = false → s.getLast? ≠ some '/' →
    (cur = [] → s.head? ≠ some '/') → join (fieldsGo s cur) = cur.reverse ++ s
  | [], cur, _, _, _ => by
    by_cases h : cur.isEmpty = true
    · have : cur = [] := by simpa using h
      subst this; rfl
    · simp [fieldsGo, h, join]
  | c :: cs, cur, hd, hl, hh => by
    have hd' : hasDoubleSlash cs = false := by
      cases cs with
      | nil => rfl
      | cons b t =>
        rw [hasDoubleSlash] at hd
        simp only [Bool.or_eq_false_iff] at hd
        exact hd.2
    have hl' : cs.getLast? ≠ some '/' := by
      cases cs with
      | nil => simp
      | cons b t => rw [List.getLast?_cons_cons] at hl; exact hl
    by_cases hc : c = '/'
    · subst hc
      -- a slash: the current run is non-empty and something follows that is not a slash
      have hcur : cur ≠ [] := fun e => hh e (by simp)
      have hcur' : cur.isEmpty = false := by simpa using hcur
      have hcs : cs ≠ [] := by
        intro e; subst e; exact hl (by simp)
      have hhead : cs.head? ≠ some '/' := by
        cases cs with
        | nil => simp
        | cons b t =>
          rw [hasDoubleSlash] at hd
          simp only [Bool.or_eq_false_iff, decide_eq_false_iff_not, true_and] at hd
          simpa using hd.1
      have ih := join_fieldsGo cs [] hd' hl' (fun _ => hhead)
      simp only [List.reverse_nil, List.nil_append] at ih
      simp only [fieldsGo, if_true, hcur', Bool.false_eq_true, if_false]
      cases hf : fieldsGo cs [] with
      | nil => rw [hf] at ih; exact absurd ih.symm hcs
      | cons x xs => rw [hf] at ih; rw [join, ih]
    · have ih := join_fieldsGo cs (c :: cur) hd' hl' (fun e => by cases e)
      simp only [fieldsGo, if_neg hc, ih]
      simp

theorem join_fields {s : Str} (h1 : s.head? ≠ some '/') (h2 : s.getLast? ≠ some '/')
    (h3 : hasDoubleSlash s = false) : join (fields s) = s := by
  have := join_fieldsGo s [] h3 h2 (fun _ => h1)
  simpa [fields] using this

theorem validateComponents_ok : ∀ {cs : List Str}, validateComponents cs = .ok () → ∀ c ∈ cs, c ≠ [] ∧ isReserved c = false
  | [], _ => by simp
  | c :: cs, h => by
    simp only [validateComponents] at h
    by_cases h1 : c.isEmpty = true
    · simp [h1] at h
    · simp only [h1, Bool.false_eq_true, if_false] at h
      by_cases h2 : isReserved c = true
      · simp [h2] at h
      · simp only [h2, Bool.false_eq_true, if_false] at h
        intro x hx
        rcases List.mem_cons.mp hx with e | hx
        · subst e; exact ⟨by simpa using h1, by simpa using h2⟩
        · exact validateComponents_ok h x hx

/-- What `NewInstanceName` accepts: the name is returned unchanged, and it is the join of its
fields, which are valid components. -/
theorem newInstanceName_ok {s s' : Str} (h : newInstanceName s = .ok s') :
    s' = s ∧ ValidComps (fields s) ∧ join (fields s) = s := by
  simp only [newInstanceName] at h
  by_cases hr : s.head? = some '/' ∨ s.getLast? = some '/' ∨ hasDoubleSlash s = true
  · simp [hr] at h
  · rw [if_neg hr] at h
    simp only [not_or] at hr
    cases hv : validateComponents (fields s) with
    | error e => simp [hv] at h
    | ok u =>
      simp only [hv, Except.ok.injEq] at h
      refine ⟨h.symm, ?_, join_fields hr.1 hr.2.1 (by simpa using hr.2.2)⟩
      intro c hc
      exact ⟨fields_mem_comp s c hc, (validateComponents_ok hv c hc).2⟩

/-! ### Ancestors -/

theorem count_slash_join : ∀ {cs : List Str}, cs ≠ [] → (∀ c ∈ cs, Comp c) → (join cs).count '/' + 1 = cs.length
  | [], h, _ => absurd rfl h
  | [a], _, h => by
    have : a.count '/' = 0 := List.count_eq_zero.mpr (h a (by simp)).2
    simp [join, this]
  | a :: b :: r, _, h => by
    have ih := count_slash_join (cs := b :: r) (by simp) (fun x hx => h x (List.mem_cons_of_mem _ hx))
    have : a.count '/' = 0 := List.count_eq_zero.mpr (h a (by simp)).2
    rw [join, List.count_append, List.count_cons_self, this]
    simp only [List.length_cons] at ih ⊢
    omega

theorem count_inner (s : Str) (h1 : s.head? ≠ some '/') (h2 : s.getLast? ≠ some '/') :
    ((s.drop 1).dropLast).count '/' = s.count '/' := by
  cases s with
  | nil => rfl
  | cons a t =>
    have ha : a ≠ '/' := by simpa using h1
    have hca : (a :: t).count '/' = t.count '/' := by
      rw [List.count_cons]; simp [ha]
    rw [hca, List.drop_one, List.tail_cons]
    rcases List.eq_nil_or_concat t with e | ⟨t', z, e⟩
    · subst e; rfl
    · rw [List.concat_eq_append] at e
      subst e
      have hz : z ≠ '/' := by
        intro e; subst e
        apply h2
        have : a :: (t' ++ ['/']) = (a :: t') ++ ['/'] := rfl
        rw [this, List.getLast?_concat]
      rw [List.dropLast_concat, List.count_append]
      simp [hz]

theorem exists_snoc2 : ∀ (l : List Str), 2 ≤ l.length → ∃ l' c d, l = l' ++ [c, d]
  | [], h => by simp at h
  | [_], h => by simp at h
  | [a, b], _ => ⟨[], a, b, rfl⟩
  | a :: b :: c :: t, _ => by
    obtain ⟨l', x, y, e⟩ := exists_snoc2 (b :: c :: t) (by simp)
    exact ⟨a :: l', x, y, by rw [e]; rfl⟩

theorem ancLoop_join (P : Str) : ∀ (n : Nat) (cs : List Str) (acc : List Str), cs.length = n + 1 →
    (∀ c ∈ cs, Comp c) →
    ancLoop (n + 1) (P ++ join cs) acc =
      some ((List.range (n + 1)).map (fun k => P ++ join (cs.take (k + 1))) ++ acc)
  | 0, cs, acc, hl, _ => by
    have : cs.take 1 = cs := List.take_of_length_le (by omega)
    simp [ancLoop, this]
  | n + 1, cs, acc, hl, hc => by
    obtain ⟨cs', c, d, rfl⟩ := exists_snoc2 cs (by omega)
    have hd : Comp d := hc d (by simp)
    have hl' : (cs' ++ [c]).length = n + 1 := by
      simp only [List.length_append, List.length_cons, List.length_nil] at hl ⊢; omega
    have ih := ancLoop_join P n (cs' ++ [c]) ((P ++ join (cs' ++ [c, d])) :: acc) hl'
      (fun x hx => hc x (by
        rcases List.mem_append.mp hx with h | h
        · exact List.mem_append_left _ h
        · simp only [List.mem_singleton] at h; subst h; simp))
    rw [ancLoop, trimLast_join P cs' c d hd]
    simp only [ih]
    rw [List.range_succ (n := n + 1), List.map_append]
    have hsplit : cs' ++ [c, d] = (cs' ++ [c]) ++ [d] := by simp
    have e1 : List.map (fun k => P ++ join ((cs' ++ [c, d]).take (k + 1))) (List.range (n + 1)) =
        List.map (fun k => P ++ join ((cs' ++ [c]).take (k + 1))) (List.range (n + 1)) := by
      apply List.map_congr_left
      intro k hk
      have : k + 1 ≤ (cs' ++ [c]).length := by rw [hl']; have := List.mem_range.mp hk; omega
      rw [hsplit, List.take_append_of_le_length this]
    have e2 : (cs' ++ [c, d]).take (n + 1 + 1) = cs' ++ [c, d] := List.take_of_length_le (by omega)
    rw [e1]
    simp only [List.map_cons, List.map_nil, e2, List.append_assoc, List.singleton_append]

theorem pack_append (fn : Nat) (hash : Str) (size : Nat) (inst : Str) :
    pack fn hash size inst = pack fn hash size [] ++ inst := by simp [pack]

/-- `GetDigestsWithParentInstanceNames` returns the digests of all component prefixes. -/
theorem ancestors_valid {f : BareFn} (hf : KnownFn f) {hash : Str} (hh : ValidHash f hash) (size : Nat)
    {comps : List Str} (hc : ∀ c ∈ comps, Comp c) :
    ancestors (pack f.enum hash size (join comps)) =
      some ((List.range (comps.length + 1)).map fun k => pack f.enum hash size (join (comps.take k))) := by
  have hu := unpack_valid hf hh size (join comps)
  have hbase := take_sizeEnd_succ_pack f.enum hash size (join comps)
  have hinst : (pack f.enum hash size (join comps)).drop ((unpackedOf f.enum hash size).sizeEnd + 1) = join comps :=
    instOf_pack f.enum hash size (join comps)
  have hlen : (unpackedOf f.enum hash size).sizeEnd + 1 = (pack f.enum hash size []).length := by
    simp only [unpackedOf, pack, List.length_append, List.length_cons, List.length_nil]; omega
  simp only [ancestors, hu, hbase, hinst]
  cases comps with
  | nil =>
    have : (unpackedOf f.enum hash size).sizeEnd + 1 = (pack f.enum hash size (join [])).length := by
      rw [hlen]; rfl
    simp [this, join]
  | cons c cs =>
    have hne : join (c :: cs) ≠ [] := join_ne_nil (hc c (by simp)).1
    have hneq : ¬ ((unpackedOf f.enum hash size).sizeEnd + 1 = (pack f.enum hash size (join (c :: cs))).length) := by
      rw [hlen, pack_append f.enum hash size (join (c :: cs)), List.length_append]
      have : 0 < (join (c :: cs)).length := List.length_pos_iff.mpr hne
      omega
    rw [if_neg hneq]
    have hcount : 1 + (((join (c :: cs)).drop 1).dropLast).count '/' = cs.length + 1 := by
      rw [count_inner _ (join_comps_head hc) (join_getLast hc)]
      have := count_slash_join (cs := c :: cs) (by simp) hc
      simp only [List.length_cons] at this; omega
    rw [hcount, pack_append f.enum hash size (join (c :: cs)),
      ancLoop_join (pack f.enum hash size []) cs.length (c :: cs) [] (by simp) hc]
    simp only [Option.map_some, List.append_nil, List.length_cons]
    rw [List.range_succ_eq_map (n := cs.length + 1)]
    simp only [List.map_cons, List.map_map, List.take_zero, join]
    congr 2
    apply List.map_congr_left
    intro k _
    simp only [Function.comp]
    rw [← pack_append]

end BB.Digest
