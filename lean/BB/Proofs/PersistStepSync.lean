import BB.Proofs.PersistFlags
/-!
# Invariant preservation: the data sync (`syncBegin`, `syncEnd`, `syncFail`)
-/
namespace BB.Persist

def flagBegin (o : Obj) : Obj := if o.mine && o.copied then { o with precov := true } else o
def flagEnd (o : Obj) : Obj := if o.precov then { o with precov := false, durable := true } else o
def flagFail (o : Obj) : Obj := { o with precov := false }

theorem sameCore_begin (o : Obj) : SameCore (flagBegin o) o := by
  unfold flagBegin SameCore; split <;> simp
theorem sameCore_end (o : Obj) : SameCore (flagEnd o) o := by
  unfold flagEnd SameCore; split <;> simp
theorem sameCore_fail (o : Obj) : SameCore (flagFail o) o := by
  unfold flagFail SameCore; simp

/-- Generic assembly for the three sync steps: the list is untouched. -/
theorem inv_of_flags {w : World} (h : Inv w) (f : Obj → Obj) (g1' : G1) (d' : DataDev) (hf : ∀ o, SameCore (f o) o)
    (hfl : ∀ o ∈ w.objs, ((f o).precov = true → o.mine = true ∧ o.copied = true) ∧ ((f o).durable = true → o.copied = true) ∧
      (o.durable = true → (f o).durable = true))
    (he : EpochInv (w.objs.map f) w.pbl g1') (hd : DevInv w.cfg (w.objs.map f) d' w.pbl w.zombies w.nextObj)
    (hsw : ∀ s, w.sw = some s → s.owner = 1 → ∃ x, g1' = .want x) :
    Inv { w with g1 := g1', data := d', objs := w.objs.map f } := by
  refine ⟨h.cfg, h.wfp, h.own, objInv_flags f hf hfl h.obj, he, hd, recInv_flags f hf h.recs, ?_, ?_, ?_⟩
  · intro fl hfl'
    exact fileInv_flags f hf (fun o ho => (hfl o ho).2.2) (h.files fl hfl')
  · intro s hs
    exact fileInv_flags f hf (fun o ho => (hfl o ho).2.2) (h.swFile s hs)
  · constructor
    intro s hs
    obtain ⟨a1, a2, a3, a4, a5, a6, _⟩ := h.sw.stage s hs
    exact ⟨a1, a2, a3, a4, a5, a6, hsw s hs⟩

theorem no_owner1 {w : World} (h : Inv w) (hg : ∀ x, w.g1 ≠ .want x) : ∀ s, w.sw = some s → s.owner = 1 → False := by
  intro s hs ho
  obtain ⟨_, _, _, _, _, _, a7⟩ := h.sw.stage s hs
  obtain ⟨x, hx⟩ := a7 ho
  exact hg x hx

theorem mem_map_obj {objs : List Obj} {f : Obj → Obj} {o' : Obj} (h : o' ∈ objs.map f) : ∃ o ∈ objs, o' = f o := by
  obtain ⟨o, h1, h2⟩ := List.mem_map.1 h; exact ⟨o, h1, h2.symm⟩

theorem inv_syncBegin {w w' : World} (h : Inv w) (hs : w.syncBegin = some w') : Inv w' := by
  unfold World.syncBegin at hs
  split at hs
  · rename_i x hg
    simp only [Option.some.injEq] at hs
    subst hs
    have hfl : ∀ o ∈ w.objs, ((flagBegin o).precov = true → o.mine = true ∧ o.copied = true) ∧
        ((flagBegin o).durable = true → o.copied = true) ∧ (o.durable = true → (flagBegin o).durable = true) := by
      intro o ho
      unfold flagBegin
      split
      · rename_i hc
        simp only [Bool.and_eq_true] at hc
        exact ⟨fun _ => hc, fun hd => (h.obj.flags o ho).2 hd, fun hd => hd⟩
      · exact ⟨fun hp => (h.obj.flags o ho).1 hp, fun hd => (h.obj.flags o ho).2 hd, fun hd => hd⟩
    have hmc : ∀ o ∈ w.objs, (flagBegin o).precov = true → o.mine = true ∧ o.copied = true := fun o ho => (hfl o ho).1
    refine inv_of_flags h flagBegin (.syncing x) w.data.syncBegin sameCore_begin hfl ?_ ?_
      (fun s hsw ho => (no_owner1 h (by rw [hg]; intro y; simp) s hsw ho).elim)
    · -- epochs
      refine ⟨?_, ?_, ?_, fun _ _ _ => ⟨x, rfl⟩⟩
      · intro o' ho' i b e hb hgid hfin
        obtain ⟨o, ho, rfl⟩ := mem_map_obj ho'
        obtain ⟨_, k2, _, k4, k5, _, _, _, _, _, _, k12⟩ := sameCore_begin o
        rw [k4, k5]; exact h.epoch.range o ho i b e hb (by rw [← k2]; exact hgid) (by rw [← k12]; exact hfin)
      · intro o' ho' b hb e hgid hfin hlt
        obtain ⟨o, ho, rfl⟩ := mem_map_obj ho'
        obtain ⟨_, k2, _, k4, k5, _, _, _, _, _, _, k12⟩ := sameCore_begin o
        obtain ⟨r1, r2⟩ := h.epoch.synced o ho b hb e (by rw [← k2]; exact hgid) (by rw [← k12]; exact hfin) hlt
        rw [k4, k5]; exact ⟨(hfl o ho).2.2 r1, r2⟩
      · intro o' ho' b hb e hgid hfin hlt
        obtain ⟨o, ho, rfl⟩ := mem_map_obj ho'
        obtain ⟨_, k2, _, k4, k5, _, _, _, _, _, _, k12⟩ := sameCore_begin o
        have hfin' : o.fin = some e := by rw [← k12]; exact hfin
        obtain ⟨r1, _, _⟩ := h.epoch.syncing o ho b hb e (by rw [← k2]; exact hgid) hfin' hlt
        rw [k4, k5]
        refine ⟨r1, fun _ _ => ?_, fun y hy => by cases hy⟩
        have hc : o.copied = true := h.obj.fin o ho (by rw [hfin']; rfl)
        by_cases hm : o.mine = true
        · left; unfold flagBegin; simp [hm, hc]
        · right; exact (hfl o ho).2.2 (h.obj.restored o ho (by simpa using hm)).1
    · -- device
      refine ⟨covPrefix_syncBegin _, ?_, ?_, ?_, ?_, ?_⟩
      · intro o' ho' hm hc hh s hsec
        obtain ⟨o, ho, rfl⟩ := mem_map_obj ho'
        obtain ⟨k1, k2, k3, k4, k5, _, _, _, _, k10, k11, _⟩ := sameCore_begin o
        rw [k1, k3]; rw [k4, k5] at hsec; rw [k2] at hh
        exact (h.dev.mine o ho (by rw [← k11]; exact hm) (by rw [← k10]; exact hc) hh s hsec).syncBegin.tail
      · intro o' ho' hp hh s hsec
        obtain ⟨o, ho, rfl⟩ := mem_map_obj ho'
        obtain ⟨k1, k2, k3, k4, k5, _, _, _, _, _, _, _⟩ := sameCore_begin o
        rw [k1, k3]; rw [k4, k5] at hsec; rw [k2] at hh
        obtain ⟨m1, m2⟩ := hmc o ho hp
        exact (h.dev.mine o ho m1 m2 hh s hsec).syncBegin
      · intro o' ho' hd hh s hsec
        obtain ⟨o, ho, rfl⟩ := mem_map_obj ho'
        obtain ⟨k1, k2, k3, k4, k5, _, _, _, _, _, _, _⟩ := sameCore_begin o
        rw [k1, k3]; rw [k4, k5] at hsec; rw [k2] at hh
        have : o.durable = true := by
          unfold flagBegin at hd; split at hd <;> simpa using hd
        exact (h.dev.durable o ho this hh s hsec).syncBegin
      · intro a' ha b' hb L slot s hL h1 h2 s1 s2 hoff
        obtain ⟨a, ha0, rfl⟩ := mem_map_obj ha
        obtain ⟨b, hb0, rfl⟩ := mem_map_obj hb
        obtain ⟨ka1, _, ka3, ka4, _⟩ := sameCore_begin a
        obtain ⟨kb1, _, kb3, kb4, _⟩ := sameCore_begin b
        rw [ka1, kb1]
        rw [ka1] at h1; rw [kb1] at h2; rw [ka3] at s1; rw [kb3] at s2; rw [ka4, kb4] at hoff
        refine h.dev.content a ha0 b hb0 L slot s ?_ h1 h2 s1 s2 hoff
        rcases hL with hL | ⟨y, hy, y1, y2, y3⟩
        · exact Or.inl hL
        · simp only [DataDev.syncBegin, List.mem_map] at hy
          obtain ⟨y0, hy0, rfl⟩ := hy
          exact Or.inr ⟨y0, hy0, y1, y2, y3⟩
      · intro L slot s hL
        refine h.dev.contentLt L slot s ?_
        rcases hL with hL | ⟨y, hy, y1, y2, y3⟩
        · exact Or.inl hL
        · simp only [DataDev.syncBegin, List.mem_map] at hy
          obtain ⟨y0, hy0, rfl⟩ := hy
          exact Or.inr ⟨y0, hy0, y1, y2, y3⟩
  · simp at hs

end BB.Persist
