import BB.Proofs.MuxInv
/-! Every enabled step preserves the invariant; reachable states satisfy it. -/
namespace BB.Mux

theorem inv_modify_st (src : Nat → Res) (n : Nat) (s : St) (i : Nat) (c : Con) (st' : CS) (p' : Nat)
    (h : Inv src n s) (hi : s.cons[i]? = some c) (hc : c.st = .idle)
    (hst : st' = .waiting ∨ st' = .closed) (hp : p' + 1 = s.pending) (hp' : 0 < p') :
    Inv src n { s with pending := p', cons := s.cons.modify i fun c => { c with st := st' } } := by
  have hlive := srcLive_of_pending src n s h (by omega)
  have hcl : c.live = true := by simp [Con.live, hc]
  refine ⟨h.noPanic, by simp [h.len], ?_, ?_, ?_, ?_⟩
  · have := countP_modify Con.live (fun c => { c with st := st' }) s.cons i c hi
    have e1 : Con.live { c with st := st' } = false := by
      rcases hst with e | e <;> subst e <;> rfl
    rw [hcl, e1, ← h.pend] at this
    simp at this ⊢; omega
  · apply all_modify (Good src s.pos) _ s.cons i h.good
    intro c0 hc0
    rw [hi] at hc0; cases hc0
    have g0 := h.good i c hi
    cases c with | mk st got =>
    simp only at hc; subst hc
    simp only [Good] at g0 ⊢
    rcases hst with e | e <;> subst e <;> exact ⟨g0.1, by simp [g0.2]⟩
  · intro _; exact ⟨hp', (h.alive hlive).2⟩
  · intro hd
    have : s.srcLive = false := hd
    rw [hlive] at this; cases this

theorem inv_readEnd (src : Nat → Res) (n : Nat) (s : St) (i : Nat) (c : Con) (r : Res)
    (h : Inv src n s) (hi : s.cons[i]? = some c) (hc : c.st = .ready r) :
    Inv src n { s with cons := s.cons.modify i fun c => { st := .idle, got := c.got ++ [r] } } := by
  have hcl : c.live = true := by simp [Con.live, hc]
  refine ⟨h.noPanic, by simp [h.len], ?_, ?_, h.alive, ?_⟩
  · have := countP_modify Con.live (fun c => { st := CS.idle, got := c.got ++ [r] }) s.cons i c hi
    have e1 : Con.live { st := CS.idle, got := c.got ++ [r] } = true := rfl
    rw [hcl, e1] at this
    show s.pending = _
    rw [h.pend]; simp at this ⊢; omega
  · apply all_modify (Good src s.pos) _ s.cons i h.good
    intro c0 hc0
    rw [hi] at hc0; cases hc0
    have g0 := h.good i c hi
    cases c with | mk st got =>
    simp only at hc; subst hc
    simp only [Good] at g0 ⊢
    refine ⟨?_, by simp; exact g0.2.1⟩
    rw [List.length_append, List.length_singleton, srcPrefix_succ, ← g0.1, g0.2.2]
  · intro hd
    have hd' : s.srcLive = false := hd
    have := (h.dead hd').1 i c hi
    rw [hc] at this; cases this

theorem inv_close_last (src : Nat → Res) (n : Nat) (s : St) (i : Nat) (c : Con)
    (h : Inv src n s) (hi : s.cons[i]? = some c) (hc : c.st = .idle) (hp : s.pending = 1)
    (hw : nWaiting s.cons = 0) :
    Inv src n { s with pending := 0, cons := s.cons.modify i fun c => { c with st := .closed },
                       closes := s.closes + 1, srcLive := false } := by
  have hlive := srcLive_of_pending src n s h (by omega)
  have hcl : c.live = true := by simp [Con.live, hc]
  have hcw : c.isWaiting = false := live_not_waiting c hcl
  have hcnt : List.countP Con.live (s.cons.modify i fun c => { c with st := CS.closed }) = 0 := by
    have := countP_modify Con.live (fun c => { c with st := CS.closed }) s.cons i c hi
    have e1 : Con.live { c with st := CS.closed } = false := rfl
    rw [hcl, e1, ← h.pend, hp] at this
    simp at this ⊢; exact this
  refine ⟨h.noPanic, by simp [h.len], ?_, ?_, ?_, ?_⟩
  · show 0 = _; rw [hcnt]
  · apply all_modify (Good src s.pos) _ s.cons i h.good
    intro c0 hc0
    rw [hi] at hc0; cases hc0
    have g0 := h.good i c hi
    cases c with | mk st got =>
    simp only at hc; subst hc
    simp only [Good] at g0 ⊢
    exact ⟨g0.1, by simp [g0.2]⟩
  · intro hd; simp at hd
  · intro _
    refine ⟨?_, by simp [(h.alive hlive).2], rfl⟩
    intro j c' hj
    exact all_closed_of_counts _ hcnt (by rw [nWaiting_modify_closed s.cons i c hi hcw]; exact hw) c'
      (List.mem_iff_getElem?.mpr ⟨j, hj⟩)

theorem inv_step (src : Nat → Res) (n : Nat) (s s' : St) (a : Act)
    (h : Inv src n s) (hs : step src s a = some s') : Inv src n s' := by
  cases a with
  | readBegin i =>
    simp only [step] at hs
    cases hi : s.cons[i]? with
    | none => simp [hi] at hs
    | some c =>
      simp only [hi] at hs
      by_cases hc : c.st = .idle
      · have hcl : c.live = true := by simp [Con.live, hc]
        have hpos : 0 < s.pending := by
          rw [h.pend, List.countP_pos_iff]; exact ⟨c, List.mem_iff_getElem?.mpr ⟨i, hi⟩, hcl⟩
        have hp0 : s.pending ≠ 0 := by omega
        simp only [hc, ne_eq, not_true, if_false, hp0] at hs
        by_cases hl : s.pending - 1 = 0
        · simp only [hl, if_true, Option.some.injEq] at hs; subst hs
          exact inv_share src n s i c true h hi hc (by omega) (by simp)
        · simp only [hl, if_false, Option.some.injEq] at hs; subst hs
          exact inv_modify_st src n s i c .waiting (s.pending - 1) h hi hc (Or.inl rfl) (by omega) (by omega)
      · simp [hc] at hs
  | readEnd i =>
    simp only [step] at hs
    cases hi : s.cons[i]? with
    | none => simp [hi] at hs
    | some c =>
      simp only [hi] at hs
      cases hc : c.st with
      | ready r =>
        simp only [hc, Option.some.injEq] at hs; subst hs
        exact inv_readEnd src n s i c r h hi hc
      | idle => simp [hc] at hs
      | waiting => simp [hc] at hs
      | closed => simp [hc] at hs
  | close i =>
    simp only [step] at hs
    cases hi : s.cons[i]? with
    | none => simp [hi] at hs
    | some c =>
      simp only [hi] at hs
      by_cases hc : c.st = .idle
      · have hcl : c.live = true := by simp [Con.live, hc]
        have hpos : 0 < s.pending := by
          rw [h.pend, List.countP_pos_iff]; exact ⟨c, List.mem_iff_getElem?.mpr ⟨i, hi⟩, hcl⟩
        have hp0 : s.pending ≠ 0 := by omega
        simp only [hc, ne_eq, not_true, if_false, hp0] at hs
        by_cases hl : s.pending - 1 > 0
        · simp only [hl, if_true, Option.some.injEq] at hs; subst hs
          exact inv_modify_st src n s i c .closed (s.pending - 1) h hi hc (Or.inr rfl) (by omega) hl
        · simp only [hl, if_false] at hs
          by_cases hw : nWaiting s.cons = 0
          · simp only [hw, if_true, Option.some.injEq] at hs; subst hs
            exact inv_close_last src n s i c h hi hc (by omega) hw
          · simp only [hw, if_false, Option.some.injEq] at hs; subst hs
            exact inv_share src n s i c false h hi hc (by omega) (fun _ => hw)
      · simp [hc] at hs

theorem reach_inv (src : Nat → Res) (a : Nat) (s : St) (h : Reach src a s) : Inv src (1 + a) s := by
  induction h with
  | init => exact inv_init src a
  | step act _ hs ih => exact inv_step src _ _ _ act ih hs

end BB.Mux
