import BB.Model.Store
import BB.Proofs.IndexRelease
import BB.Proofs.BlockMap
/-!
Building blocks for C01/C04/C10: the medium behaves like memory (a copy phase writes exactly the
ticket's range), lookups are sound, failed uploads do not touch the index.
-/
namespace BB.Store
open BB.Gen BB.Index BB.BlockMap

theorem locBlk_mkLoc (b o z : Nat) : locBlk (mkLoc b o z) = b := by simp [locBlk, mkLoc]
theorem locOff_mkLoc (b o z : Nat) : locOff (mkLoc b o z) = o := by simp [locOff, mkLoc]
theorem locSize_mkLoc (b o z : Nat) : locSize (mkLoc b o z) = z := by simp [locSize, mkLoc]

/-- Two byte ranges do not overlap. -/
def Disjoint (b1 o1 z1 b2 o2 z2 : Nat) : Prop := b1 ≠ b2 ∨ o1 + z1 ≤ o2 ∨ o2 + z2 ≤ o1

/-- The copy phase changes no byte outside the ticket's reserved range. -/
theorem writeAt_frame (s : St) (t : Ticket) (at_ : Nat) (bytes : List Nat) (b o : Nat)
    (h : b ≠ t.blk ∨ o < t.off ∨ t.off + t.size ≤ o) : (writeAt s t at_ bytes).medium b o = s.medium b o := by
  simp only [writeAt]
  split
  · rename_i hc
    omega
  · rfl

theorem readLoc_writeAt_frame (s : St) (t : Ticket) (at_ : Nat) (bytes : List Nat) (l : Loc)
    (h : Disjoint (locBlk l) (locOff l) (locSize l) t.blk t.off t.size) :
    readLoc (writeAt s t at_ bytes) l = readLoc s l := by
  unfold readLoc
  apply List.map_congr_left
  intro i hi
  simp at hi
  apply writeAt_frame
  unfold Disjoint at h
  omega

/-- Writing the whole object and reading the ticket's location back yields the object. -/
theorem readLoc_writeAt_self (s : St) (t : Ticket) (data : List Nat) (h : data.length = t.size) :
    readLoc (writeAt s t 0 data) (mkLoc t.blk t.off t.size) = data := by
  unfold readLoc
  rw [locSize_mkLoc, locBlk_mkLoc, locOff_mkLoc]
  apply List.ext_getElem
  · simp [h]
  · intro i h1 h2
    simp at h1
    simp [writeAt]
    have : i < data.length := by omega
    simp [this]
    omega

/-- A refresh copy makes the new location read like the source did. -/
theorem readLoc_copyLoc (s : St) (t : Ticket) (src : Loc) (h : locSize src = t.size) :
    readLoc (copyLoc s t src) (mkLoc t.blk t.off t.size) = readLoc s src := by
  unfold copyLoc
  apply readLoc_writeAt_self
  simp [readLoc, h]

/-- Lookups only ever return a location recorded for exactly that key, in a block that is still
resolvable. -/
theorem lookup_sound (c : Cfg) (s : St) (k : Nat) (l : Loc) (h : lookup c s k = some l) :
    ∃ slot R, s.tab slot = some R ∧ R.key = k ∧ R.loc = l ∧ s.thr ≤ l.blockIndex := by
  obtain ⟨a', _, _, ⟨R, hR, hRl, hk, _, hloc⟩, _⟩ := (getAux_spec c.idx s.thr s.tab k c.idx.maxGet 0).1 l h
  exact ⟨_, R, hR, hk, hloc, by rw [← hloc]; exact hRl⟩

/-- An upload whose copy phase failed (size/checksum mismatch, source error) leaves the index
untouched: it never becomes visible to reads, composite reads or existence checks. -/
theorem flatPutEnd_failed (c : Cfg) (s : St) (t : Ticket) (k : Nat) :
    (flatPutEnd c s t k false).2.tab = s.tab ∧ (flatPutEnd c s t k false).2.medium = s.medium ∧
    (flatPutEnd c s t k false).1 = "err copy" := by
  simp [flatPutEnd, unpinTicket]

theorem hierPutEnd_failed (c : Cfg) (s : St) (t : Ticket) (ck lk : Nat) :
    (hierPutEnd c s t ck lk false).2.tab = s.tab ∧ (hierPutEnd c s t ck lk false).1 = "err copy" := by
  simp [hierPutEnd, unpinTicket]

theorem hierPutDedupEnd_failed (c : Cfg) (s : St) (ck lk : Nat) :
    (hierPutDedupEnd c s ck lk false).2 = s ∧ (hierPutDedupEnd c s ck lk false).1 = "err copy" := by
  simp [hierPutDedupEnd]

/-- An upload into a block that was released or quarantined while the data was being copied is not
registered either. -/
theorem flatPutEnd_released (c : Cfg) (s : St) (t : Ticket) (k : Nat)
    (h : finalizeOk (unpinTicket s t).bm t = false) :
    (flatPutEnd c s t k true).2.tab = s.tab ∧ (flatPutEnd c s t k true).1 = "err internal" := by
  have h' : finalizeOk (unpin s.bm t.blk) t = false := by simpa [unpinTicket] using h
  simp [flatPutEnd, finalize, h', unpinTicket]

end BB.Store
