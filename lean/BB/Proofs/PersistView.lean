import BB.Proofs.PersistShut2
import BB.Proofs.PersistCrash6
/-!
# C03: every step, seen through the syncer's control state

`View w w'` says what a step does to the geometry, the program counter of `ProcessBlockPut`, the
state writer in progress, the directory and the block list - nothing else matters for the
shutdown and commit theorems.
-/
namespace BB.Persist

/-- The lock regions of `ProcessBlockPut` up to the state write. -/
inductive G1Step : G1 → PBL → G1 → PBL → Prop
  | start {p : PBL} : G1Step .idle p (.started false) (p.notifySyncStarting false)
  | syncBegin {p : PBL} (f : Bool) : G1Step (.started f) p (.syncing f) p
  | syncEnd {p : PBL} (f : Bool) : G1Step (.syncing f) p (.synced f) p
  | syncFail {p : PBL} (f : Bool) : G1Step (.syncing f) p (.started f) p
  | completed {p : PBL} (f : Bool) : G1Step (.synced f) p (.want f) p.notifySyncCompleted
  | shutdown {p : PBL} : G1Step (.synced false) p (.started true) (p.notifySyncCompleted.notifySyncStarting true)

inductive View : World → World → Prop
  | crash {w : World} (kd ki : List Bool) (pick : Nat) (lo : Bool) : View w (w.crashRestart kd ki pick lo)
  | fin {w w' : World} {id : Nat} : w.finalize id = .ok w' → View w w'
  | data {w w' : World} : w'.cfg = w.cfg → w'.g1 = w.g1 → w'.sw = w.sw → w'.dir = w.dir → PStep w.pbl w'.pbl → View w w'
  | g1 {w w' : World} : w'.cfg = w.cfg → w'.sw = w.sw → w'.dir = w.dir → G1Step w.g1 w.pbl w'.g1 w'.pbl → View w w'
  | swBegin {w w' : World} {owner : Nat} {f : SFile} : w'.cfg = w.cfg → w'.g1 = w.g1 → w'.dir = w.dir → w.sw = none →
      w'.sw = some ⟨owner, f, 0⟩ → w.pbl.getPersistentState = some (f, w'.pbl) → (owner = 1 → ∃ fl, w.g1 = .want fl) → View w w'
  | swStep {w w' : World} {s : Sw} : w'.cfg = w.cfg → w'.g1 = w.g1 → w'.pbl = w.pbl → w.sw = some s →
      w'.sw = some { s with stage := s.stage + 1 } → (∀ f ∈ filesOf w'.dir, f ∈ filesOf w.dir ∨ f = s.file) →
      (w.dir.state.isSome = true → w'.dir.state.isSome = true) → View w w'
  | swFail {w w' : World} {s : Sw} : w'.cfg = w.cfg → w'.g1 = w.g1 → w'.pbl = w.pbl → w'.dir = w.dir → w.sw = some s →
      w'.sw = none → View w w'
  | swDone {w w' : World} {s : Sw} : w'.cfg = w.cfg → w'.dir = w.dir → Core w.pbl w'.pbl → w.sw = some s → s.stage = 6 →
      w'.sw = none → w'.g1 = (if s.owner == 1 then (match w.g1 with | .want true => .finished | _ => .idle) else w.g1) →
      View w w'

theorem map_vis_modify (f : Blk → Blk) (hf : ∀ b, vis (f b) = vis b) (l : List Blk) (i : Nat) :
    (l.modify i f).map vis = l.map vis := by
  apply List.ext_getElem?
  intro j
  simp only [List.getElem?_map, List.getElem?_modify]
  split
  · cases l[j]? <;> simp [hf]
  · cases l[j]? <;> simp

theorem view_popFront {w w' : World} (hp : w.popFront = some w') : View w w' := by
  unfold World.popFront at hp
  cases hq : w.pbl.popFront with
  | none => simp [hq] at hp
  | some bp =>
    obtain ⟨b, p⟩ := bp
    simp only [hq, Option.some.injEq] at hp
    subst hp
    exact View.data rfl rfl rfl rfl (PStep.pop hq)

theorem view_pushBack {w w' : World} (hp : w.pushBack = some w') : View w w' ∧ w.pbl.closed = false := by
  unfold World.pushBack at hp
  split at hp
  · simp at hp
  · rename_i hc
    split at hp
    · simp at hp
    · simp only [Option.some.injEq] at hp
      subst hp
      exact ⟨View.data rfl rfl rfl rfl (PStep.push _ _), by simpa using hc⟩

theorem view_reserve {w w' : World} {i size key : Nat} {upload : Bool} {o : Obj}
    (hr : w.reserve i size key upload = .ok o w') : View w w' ∧ w.pbl.closed = false := by
  unfold World.reserve at hr
  split at hr
  · cases hr
  · rename_i hc
    split at hr
    · cases hr
    · split at hr
      · cases hr
      · simp only [World.Reserve.ok.injEq] at hr
        obtain ⟨_, rfl⟩ := hr
        refine ⟨View.data rfl rfl rfl rfl (PStep.core ⟨rfl, rfl, rfl, rfl, rfl, rfl, rfl, ?_⟩), by simpa using hc⟩
        exact map_vis_modify (fun b => { b with cursor := b.cursor + size }) (fun b => rfl) w.pbl.blocks i

theorem unpin_ctl (w : World) (g : Nat) : (w.unpin g).cfg = w.cfg ∧ (w.unpin g).g1 = w.g1 ∧ (w.unpin g).sw = w.sw ∧
    (w.unpin g).dir = w.dir ∧ (w.unpin g).pbl = w.pbl := by
  unfold World.unpin
  simp only
  split
  · split <;> exact ⟨rfl, rfl, rfl, rfl, rfl⟩
  · exact ⟨rfl, rfl, rfl, rfl, rfl⟩

theorem copy_ctl {w w' : World} {id data : Nat} (hc : w.copy id data = some w') :
    w'.cfg = w.cfg ∧ w'.g1 = w.g1 ∧ w'.sw = w.sw ∧ w'.dir = w.dir ∧ w'.pbl = w.pbl := by
  unfold World.copy at hc
  cases hcc : w.copyCore id data with
  | none => simp [hcc] at hc
  | some ow =>
    obtain ⟨o, w1⟩ := ow
    simp only [hcc, Option.some.injEq] at hc
    subst hc
    have h1 : w1.cfg = w.cfg ∧ w1.g1 = w.g1 ∧ w1.sw = w.sw ∧ w1.dir = w.dir ∧ w1.pbl = w.pbl := by
      unfold World.copyCore at hcc
      split at hcc
      · simp at hcc
      · split at hcc
        · simp at hcc
        · simp only [Option.some.injEq, Prod.mk.injEq] at hcc
          obtain ⟨_, rfl⟩ := hcc
          exact ⟨rfl, rfl, rfl, rfl, rfl⟩
    obtain ⟨a1, a2, a3, a4, a5⟩ := unpin_ctl w1 o.gid
    obtain ⟨b1, b2, b3, b4, b5⟩ := h1
    exact ⟨a1.trans b1, a2.trans b2, a3.trans b3, a4.trans b4, a5.trans b5⟩

theorem view_copy {w w' : World} {id data : Nat} (hc : w.copy id data = some w') : View w w' := by
  obtain ⟨a1, a2, a3, a4, a5⟩ := copy_ctl hc
  exact View.data a1 a2 a3 a4 (PStep.core (by rw [a5]; exact Core.refl _))

theorem view_refreshCopy {w w' : World} {id slot off size d : Nat} (hc : w.refreshCopy id slot off size = some (d, w')) :
    View w w' := by
  unfold World.refreshCopy at hc
  split at hc
  · split at hc
    · simp at hc
    · rename_i o src _ _ _
      cases hcp : w.copy id src.data with
      | none => simp [hcp] at hc
      | some w1 =>
        simp only [hcp, Option.some.injEq, Prod.mk.injEq] at hc
        obtain ⟨_, rfl⟩ := hc
        exact view_copy hcp
  · simp at hc

theorem view_recWrite {w w' : World} {slot key att abs off size : Nat} (hw : w.recWrite slot key att abs off size = some w') :
    View w w' := by
  unfold World.recWrite at hw
  split at hw
  · simp at hw
  · split at hw
    · simp at hw
    · simp only [Option.some.injEq] at hw
      subst hw
      exact View.data rfl rfl rfl rfl (PStep.core (Core.refl _))

end BB.Persist
