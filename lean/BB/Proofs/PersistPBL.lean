import BB.Model.PersistWorld
/-!
# `PersistentBlockList`: well-formedness and the epoch arithmetic

`expand a bs` is what `epochLastAbsoluteBlockIndex` must be when the blocks `bs` (the first of which
has absolute index `a`) own `epochCount` epochs each.
-/
namespace BB.Persist

def expand : Nat → List Blk → List Nat
  | _, [] => []
  | a, b :: bs => List.replicate b.epochCount a ++ expand (a + 1) bs

/-- Consecutive generation numbers. -/
def gidsFrom : Nat → List Blk → Prop
  | _, [] => True
  | g, b :: bs => b.gid = g ∧ gidsFrom (g + 1) bs

theorem gidsFrom_get : ∀ (bs : List Blk) (g i : Nat) (b : Blk), gidsFrom g bs → bs[i]? = some b → b.gid = g + i := by
  intro bs
  induction bs with
  | nil => intro g i b _ h; simp at h
  | cons x xs ih =>
    intro g i b hg h
    cases i with
    | zero => simp at h; subst h; simpa using hg.1
    | succ i =>
      have := ih (g + 1) i b hg.2 (by simpa using h)
      omega

theorem gidsFrom_append : ∀ (bs : List Blk) (g : Nat) (b : Blk), gidsFrom g bs → b.gid = g + bs.length →
    gidsFrom g (bs ++ [b]) := by
  intro bs
  induction bs with
  | nil => intro g b _ h; simpa [gidsFrom] using h
  | cons x xs ih =>
    intro g b hg h
    refine ⟨hg.1, ih (g + 1) b hg.2 ?_⟩
    simp at h; omega

theorem expand_length (a : Nat) (bs : List Blk) : (expand a bs).length = (bs.map (·.epochCount)).sum := by
  induction bs generalizing a with
  | nil => simp [expand]
  | cons b bs ih => simp [expand, ih]

/-- Every entry of `expand a bs` is the absolute index of a block of `bs`. -/
theorem expand_get : ∀ (bs : List Blk) (a q x : Nat), (expand a bs)[q]? = some x →
    ∃ j b, x = a + j ∧ bs[j]? = some b := by
  intro bs
  induction bs with
  | nil => intro a q x h; simp [expand] at h
  | cons b bs ih =>
    intro a q x h
    simp only [expand] at h
    by_cases hq : q < b.epochCount
    · rw [List.getElem?_append_left (by simpa using hq)] at h
      simp [List.getElem?_replicate, hq] at h
      exact ⟨0, b, by omega, by simp⟩
    · rw [List.getElem?_append_right (by simpa using hq)] at h
      obtain ⟨j, b', hx, hb⟩ := ih (a + 1) _ x h
      exact ⟨j + 1, b', by omega, by simpa using hb⟩

theorem expand_ge (bs : List Blk) (a q x : Nat) (h : (expand a bs)[q]? = some x) : a ≤ x := by
  obtain ⟨j, _, hx, _⟩ := expand_get bs a q x h; omega

theorem expand_lt (bs : List Blk) (a q x : Nat) (h : (expand a bs)[q]? = some x) : x < a + bs.length := by
  obtain ⟨j, b, hx, hb⟩ := expand_get bs a q x h
  have := (List.getElem?_eq_some_iff.1 hb).1
  omega

theorem expand_append (bs : List Blk) (a : Nat) (b : Blk) :
    expand a (bs ++ [b]) = expand a bs ++ List.replicate b.epochCount (a + bs.length) := by
  induction bs generalizing a with
  | nil => simp [expand]
  | cons x xs ih => simp [expand, ih, Nat.add_assoc, Nat.add_comm 1]

/-- Well-formedness of the list's bookkeeping. -/
structure WFP (p : PBL) : Prop where
  last : p.epochLast = expand p.released p.blocks
  seedsLen : p.seeds.length = p.epochLast.length
  sync1 : p.syncedEpochs ≤ p.syncingEpochs
  sync2 : p.syncingEpochs ≤ p.seeds.length
  offs : ∀ b ∈ p.blocks, b.synced ≤ b.syncing ∧ b.syncing ≤ b.written ∧ b.written ≤ b.cursor
  gids : ∃ g, gidsFrom g p.blocks

theorem wfp_init : WFP {} := by
  constructor <;> simp [expand, gidsFrom]

/-- The absolute index of an epoch's last block lies in the list. -/
theorem WFP.last_range {p : PBL} (h : WFP p) {q x : Nat} (hq : p.epochLast[q]? = some x) :
    p.released ≤ x ∧ x < p.released + p.blocks.length := by
  rw [h.last] at hq
  exact ⟨expand_ge _ _ _ _ hq, expand_lt _ _ _ _ hq⟩

/-! ### The operations preserve well-formedness -/

theorem expand_modify (f : Blk → Blk) (hf : ∀ b, (f b).epochCount = b.epochCount) :
    ∀ (bs : List Blk) (a i : Nat), expand a (bs.modify i f) = expand a bs := by
  intro bs
  induction bs with
  | nil => intro a i; simp
  | cons b bs ih =>
    intro a i
    cases i with
    | zero => simp [List.modify, expand, hf]
    | succ i => simp [List.modify_succ_cons, expand, ih]

theorem expand_map (f : Blk → Blk) (hf : ∀ b, (f b).epochCount = b.epochCount) :
    ∀ (bs : List Blk) (a : Nat), expand a (bs.map f) = expand a bs := by
  intro bs
  induction bs with
  | nil => intro a; simp [expand]
  | cons b bs ih => intro a; simp [expand, hf, ih]

theorem gidsFrom_modify (f : Blk → Blk) (hf : ∀ b, (f b).gid = b.gid) :
    ∀ (bs : List Blk) (g i : Nat), gidsFrom g bs → gidsFrom g (bs.modify i f) := by
  intro bs
  induction bs with
  | nil => intro g i h; simpa using h
  | cons b bs ih =>
    intro g i h
    cases i with
    | zero => simpa [List.modify, gidsFrom, hf] using h
    | succ i => exact ⟨h.1, ih (g + 1) i h.2⟩

theorem gidsFrom_map (f : Blk → Blk) (hf : ∀ b, (f b).gid = b.gid) :
    ∀ (bs : List Blk) (g : Nat), gidsFrom g bs → gidsFrom g (bs.map f) := by
  intro bs
  induction bs with
  | nil => intro g h; simpa using h
  | cons b bs ih => intro g h; exact ⟨by simpa [hf] using h.1, ih (g + 1) h.2⟩

theorem popFront_wfp {p p' : PBL} {b : Blk} (h : WFP p) (hp : p.popFront = some (b, p')) : WFP p' := by
  unfold PBL.popFront at hp
  split at hp
  · simp at hp
  · rename_i b0 rest hb
    simp only [Option.some.injEq, Prod.mk.injEq] at hp
    obtain ⟨rfl, rfl⟩ := hp
    have hl := h.last
    rw [hb] at hl
    simp only [expand] at hl
    have hlen : p.seeds.length = b0.epochCount + (expand (p.released + 1) rest).length := by
      rw [h.seedsLen, hl]; simp
    constructor
    · simp only [hl]
      rw [List.drop_left' (by simp)]
    · simp [hl, hlen]
    · simp only []
      have := h.sync1
      split <;> split <;> omega
    · simp only [List.length_drop]
      have := h.sync2
      split <;> omega
    · intro x hx
      exact h.offs x (by rw [hb]; exact List.mem_cons_of_mem _ hx)
    · obtain ⟨g, hg⟩ := h.gids
      rw [hb] at hg
      exact ⟨g + 1, hg.2⟩

theorem pushBack_wfp {p : PBL} (h : WFP p) (gid slot : Nat)
    (hg : ∀ g, gidsFrom g p.blocks → p.blocks ≠ [] → gid = g + p.blocks.length) : WFP (p.pushBack gid slot) := by
  constructor
  · simp [PBL.pushBack, expand_append, h.last]
  · simpa [PBL.pushBack] using h.seedsLen
  · exact h.sync1
  · exact h.sync2
  · intro b hb
    simp only [PBL.pushBack, List.mem_append, List.mem_singleton] at hb
    rcases hb with hb | rfl
    · exact h.offs b hb
    · simp
  · obtain ⟨g, hg0⟩ := h.gids
    by_cases he : p.blocks = []
    · exact ⟨gid, by simp [PBL.pushBack, he, gidsFrom]⟩
    · exact ⟨g, gidsFrom_append _ _ _ hg0 (by simpa using hg g hg0 he)⟩

theorem notifySyncStarting_wfp {p : PBL} (h : WFP p) (f : Bool) : WFP (p.notifySyncStarting f) := by
  constructor
  · simp [PBL.notifySyncStarting, expand_map, h.last]
  · simpa [PBL.notifySyncStarting] using h.seedsLen
  · simp only [PBL.notifySyncStarting]; have := h.sync1; have := h.sync2; omega
  · simp [PBL.notifySyncStarting]
  · intro b hb
    simp only [PBL.notifySyncStarting, List.mem_map] at hb
    obtain ⟨b0, hb0, rfl⟩ := hb
    have := h.offs b0 hb0
    simp; omega
  · obtain ⟨g, hg⟩ := h.gids
    exact ⟨g, gidsFrom_map _ (by simp) _ _ hg⟩

theorem notifySyncCompleted_wfp {p : PBL} (h : WFP p) : WFP p.notifySyncCompleted := by
  constructor
  · simp [PBL.notifySyncCompleted, expand_map, h.last]
  · simpa [PBL.notifySyncCompleted] using h.seedsLen
  · simp [PBL.notifySyncCompleted]
  · exact h.sync2
  · intro b hb
    simp only [PBL.notifySyncCompleted, List.mem_map] at hb
    obtain ⟨b0, hb0, rfl⟩ := hb
    have := h.offs b0 hb0
    simp; omega
  · obtain ⟨g, hg⟩ := h.gids
    exact ⟨g, gidsFrom_map _ (by simp) _ _ hg⟩

end BB.Persist
