import BB.Proofs.PersistDevSteps
/-!
# A completed sync and a crash (assumption A2)

A completed `Sync()` makes durable exactly the writes issued before it was entered; a crash keeps
an arbitrary subset of the pending sector writes.
-/
namespace BB.Persist

theorem durGet_syncEnd {d : DataDev} {C U : List SecW} (hC : d.pend.filter (·.covered) = C) (slot s : Nat) :
    d.syncEnd.durGet slot s = match lastAt C slot s with | some x => x.objs | none => d.durGet slot s := by
  simp only [DataDev.syncEnd, DataDev.durGet, hC]
  exact DataDev.durGet_apply d.dur C slot s

/-- Split `C ++ U = A ++ x :: B` according to the side `x` falls on. -/
theorem split_cases {α : Type} {C U A B : List α} {x : α} (h : C ++ U = A ++ x :: B) :
    (∃ A', U = A' ++ x :: B ∧ A = C ++ A') ∨ (∃ B', C = A ++ x :: B' ∧ B = B' ++ U) := by
  rcases List.append_eq_append_iff.1 h with ⟨a', hA, hU⟩ | ⟨c', hC, hxB⟩
  · exact Or.inl ⟨a', hU, hA⟩
  · cases c' with
    | nil => simp at hxB; exact Or.inl ⟨[], by simp [hxB], by simpa using hC.symm⟩
    | cons y c'' =>
      simp at hxB
      obtain ⟨rfl, hB⟩ := hxB
      exact Or.inr ⟨c'', hC, hB⟩

theorem Settled.syncEnd {d : DataDev} {id slot s : Nat} (hp : CovPrefix d.pend) (h : Settled d id slot s) :
    Settled d.syncEnd id slot s := by
  obtain ⟨C, U, hcu, hfC, hfU, _, _⟩ := covPrefix_filter hp
  refine ⟨?_, ?_⟩
  · rw [durGet_syncEnd (U := U) hfC]
    cases hl : lastAt C slot s with
    | none => exact h.1
    | some y =>
      obtain ⟨A, B, hC, hy, _⟩ := lastAt_some hl
      exact h.2 y (by rw [hcu, hC]; simp) hy
  · simp only [DataDev.syncEnd, hfU]
    have h2 := h.2
    rw [hcu] at h2
    exact h2.of_append_right

/-- The step of assumption A2: an object covered by the sync is settled when the sync returns. -/
theorem TailC.syncEnd {d : DataDev} {id slot s : Nat} (hp : CovPrefix d.pend) (h : TailC d id slot s) :
    Settled d.syncEnd id slot s := by
  rcases h with h | ⟨A, x, B, hpend, hx, hc, hid, hB⟩
  · exact h.syncEnd hp
  obtain ⟨C, U, hcu, hfC, hfU, hCc, hUc⟩ := covPrefix_filter hp
  rw [hcu] at hpend
  rcases split_cases hpend with ⟨A', hU, _⟩ | ⟨B', hC, hBU⟩
  · have := hUc x (by rw [hU]; simp)
    rw [hc] at this; cases this
  · refine ⟨?_, ?_⟩
    · rw [durGet_syncEnd (U := U) hfC, hC, lastAt_append, lastAt_cons]
      cases hl : lastAt B' slot s with
      | some y =>
        obtain ⟨A2, B2, hB2, hy, _⟩ := lastAt_some hl
        simpa using hB y (by rw [hBU, hB2]; simp) hy
      | none => simpa [hx] using hid
    · simp only [DataDev.syncEnd, hfU]
      rw [hBU] at hB
      exact hB.of_append_right

theorem Tail.syncEnd {d : DataDev} {id slot s : Nat} (hp : CovPrefix d.pend) (h : Tail d id slot s) :
    Tail d.syncEnd id slot s := by
  rcases h with h | ⟨A, x, B, hpend, hx, hid, hB⟩
  · exact Or.inl (h.syncEnd hp)
  obtain ⟨C, U, hcu, hfC, hfU, hCc, hUc⟩ := covPrefix_filter hp
  rw [hcu] at hpend
  rcases split_cases hpend with ⟨A', hU, _⟩ | ⟨B', hC, hBU⟩
  · exact Or.inr ⟨A', x, B, by simp [DataDev.syncEnd, hfU, hU], hx, hid, hB⟩
  · refine Or.inl (TailC.syncEnd hp (Or.inr ⟨A, x, B, by rw [hcu, hC, hBU]; simp, hx, hCc x (by rw [hC]; simp), hid, hB⟩))

theorem covPrefix_syncEnd {d : DataDev} : CovPrefix d.syncEnd.pend := by
  refine ⟨[], d.syncEnd.pend, by simp, by simp, ?_⟩
  intro x hx
  simp only [DataDev.syncEnd, List.mem_filter] at hx
  simpa using hx.2

/-! ### Crash -/

theorem mem_kept {α : Type} : ∀ (l : List α) (ks : List Bool) (x : α), x ∈ DataDev.kept l ks → x ∈ l := by
  intro l
  induction l with
  | nil => intro ks x h; cases ks <;> simp [DataDev.kept] at h
  | cons a l ih =>
    intro ks x h
    cases ks with
    | nil => simp [DataDev.kept] at h
    | cons k ks =>
      cases k with
      | true =>
        simp only [DataDev.kept, List.mem_cons] at h
        rcases h with rfl | h
        · simp
        · exact List.mem_cons_of_mem _ (ih ks x h)
      | false =>
        simp only [DataDev.kept] at h
        exact List.mem_cons_of_mem _ (ih ks x h)

/-- A settled object survives a crash whatever subset of the pending sector writes reached the
medium. -/
theorem Settled.crash {d : DataDev} {id slot s : Nat} (h : Settled d id slot s) (keep : List Bool) :
    Settled (d.crash keep) id slot s := by
  refine ⟨?_, by intro x hx; simp [DataDev.crash] at hx⟩
  simp only [DataDev.crash, DataDev.durGet]
  rw [DataDev.durGet_apply]
  cases hl : lastAt (DataDev.kept d.pend keep) slot s with
  | none => exact h.1
  | some y =>
    obtain ⟨A, B, hk, hy, _⟩ := lastAt_some hl
    exact h.2 y (mem_kept _ _ _ (by rw [hk]; simp)) hy

end BB.Persist
