import BB.Model.PersistWorld
/-!
# The data device: what a sync and a crash do to the sectors of an object

`Settled`: the object's bytes of sector `(slot, s)` are on the durable medium and every pending write
to that sector carries them too, so they survive a crash with *any* subset of the pending writes.
`Tail`: some write carrying them has been issued and every later write to the sector carries them.
`TailC`: the same with a write issued before the sync in progress was entered.
-/
namespace BB.Persist

def SecW.at (x : SecW) (slot s : Nat) : Bool := x.slot == slot && x.sec == s

/-- The newest write of `l` to sector `(slot, s)`. -/
def lastAt (l : List SecW) (slot s : Nat) : Option SecW := l.reverse.find? (·.at slot s)

theorem lastAt_nil (slot s : Nat) : lastAt [] slot s = none := rfl

theorem lastAt_cons (x : SecW) (l : List SecW) (slot s : Nat) :
    lastAt (x :: l) slot s = (lastAt l slot s).or (if x.at slot s then some x else none) := by
  simp [lastAt, List.find?_append, List.find?_cons]
  cases h : x.at slot s <;> simp

theorem lastAt_append (l1 l2 : List SecW) (slot s : Nat) :
    lastAt (l1 ++ l2) slot s = (lastAt l2 slot s).or (lastAt l1 slot s) := by
  simp [lastAt, List.find?_append]

theorem lastAt_none {l : List SecW} {slot s : Nat} (h : lastAt l slot s = none) : ∀ y ∈ l, y.at slot s = false := by
  intro y hy
  simp [lastAt] at h
  simpa using h y hy

theorem lastAt_some {l : List SecW} {slot s : Nat} {x : SecW} (h : lastAt l slot s = some x) :
    ∃ A B, l = A ++ x :: B ∧ x.at slot s = true ∧ ∀ y ∈ B, y.at slot s = false := by
  induction l with
  | nil => simp [lastAt] at h
  | cons a l ih =>
    rw [lastAt_cons] at h
    cases hl : lastAt l slot s with
    | some y =>
      rw [hl] at h; simp at h; subst h
      obtain ⟨A, B, rfl, hx, hB⟩ := ih hl
      exact ⟨a :: A, B, by simp, hx, hB⟩
    | none =>
      rw [hl] at h
      by_cases ha : a.at slot s = true
      · simp [ha] at h; subst h
        exact ⟨[], l, by simp, ha, lastAt_none hl⟩
      · simp [ha] at h

namespace DataDev

theorem curGet_eq (d : DataDev) (slot s : Nat) :
    d.curGet slot s = match lastAt d.pend slot s with | some x => x.objs | none => d.durGet slot s := by
  unfold curGet lastAt
  rfl

theorem durGet_apply (dur : List ((Nat × Nat) × List Nat)) (l : List SecW) (slot s : Nat) :
    ((l.foldl applyW dur).lookup (slot, s)).getD [] =
      match lastAt l slot s with | some x => x.objs | none => (dur.lookup (slot, s)).getD [] := by
  induction l generalizing dur with
  | nil => simp [lastAt]
  | cons a l ih =>
    rw [List.foldl_cons, ih, lastAt_cons]
    cases hl : lastAt l slot s with
    | some y => simp
    | none =>
      by_cases ha : a.at slot s = true
      · have : (a.slot, a.sec) = (slot, s) := by simpa [SecW.at] using ha
        simp [ha, applyW, List.lookup_cons, this]
      · have hne : ((slot, s) == (a.slot, a.sec)) = false := by
          simp [SecW.at] at ha ⊢
          intro h1 h2; exact ha h1.symm h2.symm
        simp [ha, applyW, List.lookup_cons, hne]

end DataDev

/-- Every write of `l` to `(slot, s)` carries the object `id`. -/
def AllHave (id slot s : Nat) (l : List SecW) : Prop := ∀ x ∈ l, x.at slot s = true → id ∈ x.objs

def Settled (d : DataDev) (id slot s : Nat) : Prop := id ∈ d.durGet slot s ∧ AllHave id slot s d.pend

def Tail (d : DataDev) (id slot s : Nat) : Prop :=
  Settled d id slot s ∨ ∃ A x B, d.pend = A ++ x :: B ∧ x.at slot s = true ∧ id ∈ x.objs ∧ AllHave id slot s B

def TailC (d : DataDev) (id slot s : Nat) : Prop :=
  Settled d id slot s ∨
    ∃ A x B, d.pend = A ++ x :: B ∧ x.at slot s = true ∧ x.covered = true ∧ id ∈ x.objs ∧ AllHave id slot s B

theorem Settled.tail {d : DataDev} {id slot s : Nat} (h : Settled d id slot s) : Tail d id slot s := Or.inl h

theorem TailC.tail {d : DataDev} {id slot s : Nat} (h : TailC d id slot s) : Tail d id slot s := by
  rcases h with h | ⟨A, x, B, h1, h2, _, h4, h5⟩
  · exact Or.inl h
  · exact Or.inr ⟨A, x, B, h1, h2, h4, h5⟩

/-- What the running system reads from a sector contains the object. -/
theorem Tail.cur {d : DataDev} {id slot s : Nat} (h : Tail d id slot s) : id ∈ d.curGet slot s := by
  rw [DataDev.curGet_eq]
  rcases h with ⟨hd, ha⟩ | ⟨A, x, B, hp, hx, hid, hB⟩
  · cases hl : lastAt d.pend slot s with
    | none => simpa using hd
    | some y =>
      obtain ⟨A, B, hp, hy, _⟩ := lastAt_some hl
      exact ha y (by rw [hp]; simp) hy
  · rw [hp, lastAt_append, lastAt_cons]
    cases hl : lastAt B slot s with
    | some y =>
      obtain ⟨A', B', hB', hy, _⟩ := lastAt_some hl
      simpa using hB y (by rw [hB']; simp) hy
    | none => simpa [hx] using hid

end BB.Persist
