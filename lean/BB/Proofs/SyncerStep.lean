import BB.Proofs.SyncerFrame
/-!
The transition function `step` as a relation with one constructor per branch
(used to reason by cases; `step_Step` shows the function only takes these).
-/
namespace BB.Syncer

/-- The branches of `wStep`. -/
inductive WStep (c : Cfg) (s : State) : WPc → WAct → State → WPc → Bool → Prop
  | get : s.storeLocked = false →
      WStep c s .idle .get { s with bl := s.bl.getState.1, storeLocked := true } (.writing s.bl.getState.2) false
  | retOk (snap : Snap) : WStep c s (.writing snap) (.ret true) { s with durable := snap } .written false
  | retFail (snap : Snap) :
      WStep c s (.writing snap) (.ret false) { s with storeLocked := false } (.sleep (s.now + c.retryInt)) false
  | notify : WStep c s .written .notify
      { s with bl := s.bl.stateWritten, storeLocked := false,
               freedTotal := s.freedTotal + (s.bl.toRelease.take s.bl.releasing).length } .idle true
  | wake (d : Nat) : d ≤ s.now → WStep c s (.sleep d) .wake s .idle false

theorem wStep_WStep {c : Cfg} {s s1 : State} {w w' : WPc} {a : WAct} {fin : Bool}
    (h : wStep c s w a = some (s1, w', fin)) : WStep c s w a s1 w' fin := by
  unfold wStep at h
  split at h
  · by_cases hl : s.storeLocked = true
    · simp [hl] at h
    · simp [hl] at h
      obtain ⟨rfl, rfl, rfl⟩ := h
      have : s.storeLocked = false := by simpa using hl
      exact WStep.get this
  · simp at h; obtain ⟨rfl, rfl, rfl⟩ := h; exact WStep.retOk _
  · simp at h; obtain ⟨rfl, rfl, rfl⟩ := h; exact WStep.retFail _
  · obtain ⟨rfl, h2⟩ := Prod.mk.inj (Option.some.inj h)
    obtain ⟨rfl, rfl⟩ := Prod.mk.inj h2
    exact WStep.notify
  · rename_i d
    by_cases hd : s.now < d
    · simp [hd] at h
    · simp [hd] at h
      obtain ⟨rfl, rfl, rfl⟩ := h
      exact WStep.wake d (by omega)
  · cases h

inductive Step (c : Cfg) (s : State) : Act → State → Prop
  | tick (n : Nat) : Step c s (.tick n) { s with now := s.now + n }
  | cancel : Step c s .cancel { s with cancelled := true }
  | pushOk (b' : BL) : s.bl.pushBack = some b' → Step c s .push { s with bl := b' }
  | pushErr : s.bl.pushBack = none → Step c s .push s
  | pop (b' : BL) : s.bl.popFront = some b' → Step c s .pop { s with bl := b' }
  | fin (abs e : Nat) (b' : BL) (r : FinRes) : s.bl.fin abs e = some (b', r) →
      Step c s (.fin abs e) { s with bl := b', acked := match r with | .ok ep => ep :: s.acked | _ => s.acked }
  | pGet : s.p = .get → Step c s .pGet { s with p := .poll s.bl.putCh.gen }
  | pPollReady (g : Nat) : s.p = .poll g → s.bl.putCh.ready g = true →
      Step c s .pPoll { s with p := .timer (max s.now (s.lastSync + c.minInt)) s.now }
  | pPollWait (g : Nat) : s.p = .poll g → s.bl.putCh.ready g = false → Step c s .pPoll { s with p := .wait g }
  | pWake (g : Nat) : s.p = .wait g → s.bl.putCh.ready g = true →
      Step c s .pWake { s with p := .timer (s.now + c.minInt) s.now }
  | pCancelWait (g : Nat) : s.cancelled = true → s.p = .wait g → Step c s .pCancel { s with p := .lock false }
  | pCancelTimer (d a : Nat) : s.cancelled = true → s.p = .timer d a → Step c s .pCancel { s with p := .lock false }
  | pFire (d a : Nat) : s.p = .timer d a → d ≤ s.now → Step c s .pFire { s with p := .lock true, lastSync := s.now }
  | pStart (kg : Bool) : s.p = .lock kg →
      Step c s .pStart { s with bl := s.bl.syncStarting false, p := .sync kg false,
                                target := (s.bl.syncStarting false).oldest + (s.bl.syncStarting false).nE,
                                syncOk := false,
                                starts := if kg then (s.now, s.lastSync) :: s.starts else s.starts }
  | pDataOk (kg f : Bool) : s.p = .sync kg f → Step c s (.pData true) { s with p := .synced kg f, syncOk := true }
  | pDataFail (kg f : Bool) : s.p = .sync kg f →
      Step c s (.pData false) { s with p := .syncSleep kg f (s.now + c.retryInt) }
  | pRetry (kg f : Bool) (d : Nat) : s.p = .syncSleep kg f d → d ≤ s.now → Step c s .pRetry { s with p := .sync kg f }
  | pCompletedAgain : s.p = .synced false false →
      Step c s .pCompleted { s with bl := s.bl.syncCompleted.syncStarting true, p := .sync false true,
                                    target := (s.bl.syncCompleted.syncStarting true).oldest +
                                      (s.bl.syncCompleted.syncStarting true).nE }
  | pCompleted (kg f : Bool) : s.p = .synced kg f → (kg = true ∨ f = true) →
      Step c s .pCompleted { s with bl := s.bl.syncCompleted, p := .write kg .idle }
  | pW (kg : Bool) (w : WPc) (a : WAct) (s1 : State) (w' : WPc) (fin : Bool) :
      s.p = .write kg w → WStep c s w a s1 w' fin →
      Step c s (.pW a) { s1 with p := if fin then (if kg then .get else .done) else .write kg w' }
  | rGet : s.r = .get → Step c s .rGet { s with r := .wait s.bl.relCh.gen }
  | rWake (g : Nat) : s.r = .wait g → s.bl.relCh.ready g = true →
      Step c s .rWake { s with r := .write .idle, goal := s.bl.totalReleased }
  | rW (w : WPc) (a : WAct) (s1 : State) (w' : WPc) (fin : Bool) :
      s.r = .write w → WStep c s w a s1 w' fin →
      Step c s (.rW a) { s1 with r := if fin then .get else .write w' }

theorem step_Step {c : Cfg} {s s' : State} {a : Act} (h : step c s a = some s') : Step c s a s' := by
  cases a with
  | tick n => simp only [step, Option.some.injEq] at h; subst h; exact Step.tick n
  | cancel => simp only [step, Option.some.injEq] at h; subst h; exact Step.cancel
  | push =>
    simp only [step, Option.some.injEq] at h
    cases hp : s.bl.pushBack with
    | none => rw [hp] at h; subst h; exact Step.pushErr hp
    | some b' => rw [hp] at h; subst h; exact Step.pushOk b' hp
  | pop =>
    simp only [step] at h
    cases hp : s.bl.popFront with
    | none => rw [hp] at h; cases h
    | some b' => rw [hp] at h; simp only [Option.map_some, Option.some.injEq] at h; subst h; exact Step.pop b' hp
  | fin abs e =>
    simp only [step] at h
    cases hp : s.bl.fin abs e with
    | none => rw [hp] at h; cases h
    | some br =>
      obtain ⟨b', r⟩ := br
      rw [hp] at h
      simp only [Option.map_some, Option.some.injEq] at h
      subst h
      exact Step.fin abs e b' r hp
  | pGet =>
    simp only [step] at h
    split at h
    · rename_i hp; simp only [Option.some.injEq] at h; subst h; exact Step.pGet hp
    · cases h
  | pPoll =>
    simp only [step] at h
    split at h
    · rename_i g hp
      simp only [Option.some.injEq] at h
      subst h
      by_cases hr : s.bl.putCh.ready g = true
      · rw [if_pos hr]; exact Step.pPollReady g hp hr
      · rw [if_neg hr]; exact Step.pPollWait g hp (by simpa using hr)
    · cases h
  | pWake =>
    simp only [step] at h
    split at h
    · rename_i g hp
      by_cases hr : s.bl.putCh.ready g = true
      · rw [if_pos hr] at h; simp only [Option.some.injEq] at h; subst h; exact Step.pWake g hp hr
      · rw [if_neg hr] at h; cases h
    · cases h
  | pCancel =>
    simp only [step] at h
    by_cases hc : s.cancelled = true
    · rw [if_neg (by simp [hc])] at h
      split at h
      · rename_i g hp; simp only [Option.some.injEq] at h; subst h; exact Step.pCancelWait g hc hp
      · rename_i d a hp; simp only [Option.some.injEq] at h; subst h; exact Step.pCancelTimer d a hc hp
      · cases h
    · have : s.cancelled = false := by simpa using hc
      simp [this] at h
  | pFire =>
    simp only [step] at h
    split at h
    · rename_i d a hp
      by_cases hd : s.now < d
      · rw [if_pos hd] at h; cases h
      · rw [if_neg hd] at h; simp only [Option.some.injEq] at h; subst h
        exact Step.pFire d a hp (by omega)
    · cases h
  | pStart =>
    simp only [step] at h
    split at h
    · rename_i kg hp; simp only [Option.some.injEq] at h; subst h; exact Step.pStart kg hp
    · cases h
  | pData ok =>
    simp only [step] at h
    split at h
    · rename_i kg f hp
      simp only [Option.some.injEq] at h
      subst h
      cases ok
      · simp only [Bool.false_eq_true, if_false]; exact Step.pDataFail kg f hp
      · simp only [if_true]; exact Step.pDataOk kg f hp
    · cases h
  | pRetry =>
    simp only [step] at h
    split at h
    · rename_i kg f d hp
      by_cases hd : s.now < d
      · rw [if_pos hd] at h; cases h
      · rw [if_neg hd] at h; simp only [Option.some.injEq] at h; subst h
        exact Step.pRetry kg f d hp (by omega)
    · cases h
  | pCompleted =>
    simp only [step] at h
    split at h
    · rename_i kg f hp
      cases kg <;> cases f <;> simp only [Bool.not_true, Bool.not_false, Bool.and_self, Bool.and_true, Bool.and_false,
        Bool.false_eq_true, if_false, if_true, Option.some.injEq] at h <;> subst h
      · exact Step.pCompletedAgain hp
      · exact Step.pCompleted false true hp (Or.inr rfl)
      · exact Step.pCompleted true false hp (Or.inl rfl)
      · exact Step.pCompleted true true hp (Or.inl rfl)
    · cases h
  | pW a =>
    simp only [step] at h
    split at h
    · rename_i kg w hp
      cases hw : wStep c s w a with
      | none => rw [hw] at h; cases h
      | some r =>
        obtain ⟨s1, w', fin⟩ := r
        rw [hw] at h
        simp only [Option.map_some, Option.some.injEq] at h
        subst h
        exact Step.pW kg w a s1 w' fin hp (wStep_WStep hw)
    · cases h
  | rGet =>
    simp only [step] at h
    split at h
    · rename_i hp; simp only [Option.some.injEq] at h; subst h; exact Step.rGet hp
    · cases h
  | rWake =>
    simp only [step] at h
    split at h
    · rename_i g hp
      by_cases hr : s.bl.relCh.ready g = true
      · rw [if_pos hr] at h; simp only [Option.some.injEq] at h; subst h; exact Step.rWake g hp hr
      · rw [if_neg hr] at h; cases h
    · cases h
  | rW a =>
    simp only [step] at h
    split at h
    · rename_i w hp
      cases hw : wStep c s w a with
      | none => rw [hw] at h; cases h
      | some r =>
        obtain ⟨s1, w', fin⟩ := r
        rw [hw] at h
        simp only [Option.map_some, Option.some.injEq] at h
        subst h
        exact Step.rW w a s1 w' fin hp (wStep_WStep hw)
    · cases h

end BB.Syncer
