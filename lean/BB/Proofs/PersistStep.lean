import BB.Proofs.PersistServed
/-!
# The steps of the persistence model, and the invariant of the initial world
-/
namespace BB.Persist

/-- One lock region of the store / the syncer, one unlocked action on a collaborator, or a crash
followed by a restart.  `recWrite` carries the only guard that is not checked by the function it
calls: `hashingKeyLocationMap.Put` writes records for locations of finalized objects in blocks of
the list (the location just finalized, or one it read back from a record that resolved). -/
inductive Step : World → World → Prop
  | popFront {w w' : World} : w.popFront = some w' → Step w w'
  | pushBack {w w' : World} : w.pushBack = some w' → Step w w'
  | reserve {w w' : World} {i size key : Nat} {upload : Bool} {o : Obj} :
      w.reserve i size key upload = .ok o w' → Step w w'
  | copy {w w' : World} {id data : Nat} {o : Obj} :
      w.obj? id = some o → o.upload = true → w.copy id data = some w' → Step w w'
  | refreshCopy {w w' : World} {id slot off size d : Nat} :
      w.refreshCopy id slot off size = some (d, w') → Step w w'
  | finalize {w w' : World} {id : Nat} : w.finalize id = .ok w' → Step w w'
  | recWrite {w w' : World} {slot key att abs off size : Nat} {o : Obj} {b : Blk} :
      o ∈ w.objs → o.key = key → o.off = off → o.size = size → o.fin.isSome →
      w.pbl.released ≤ abs → w.pbl.blocks[abs - w.pbl.released]? = some b → b.gid = o.gid →
      w.recWrite slot key att abs off size = some w' → Step w w'
  | g1Start {w w' : World} : w.g1Start = some w' → Step w w'
  | syncBegin {w w' : World} : w.syncBegin = some w' → Step w w'
  | syncEnd {w w' : World} : w.syncEnd = some w' → Step w w'
  | syncFail {w w' : World} : w.syncFail = some w' → Step w w'
  | g1Completed {w w' : World} {shutdown : Bool} : w.g1Completed shutdown = some w' → Step w w'
  | swBegin {w w' : World} {owner : Nat} : w.swBegin owner = some w' → Step w w'
  | swStep {w w' : World} : w.swStep = some w' → Step w w'
  | swFail {w w' : World} : w.swFail = some w' → Step w w'
  | swDone {w w' : World} : w.swDone = some w' → Step w w'
  | crashRestart {w : World} (keepData keepIdx : List Bool) (pick : Nat) (leftover : Bool) :
      Step w (w.crashRestart keepData keepIdx pick leftover)

/-- Histories: any number of steps, crashes included, from a freshly formatted medium. -/
inductive Reach (c : Cfg) : World → Prop
  | init : Reach c (World.fresh c)
  | step {w w' : World} : Reach c w → Step w w' → Reach c w'

theorem range_nodup (n : Nat) : (List.range n).Nodup := List.nodup_range

theorem inv_init (c : Cfg) (hss : 0 < c.ss) : Inv (World.fresh c) := by
  refine ⟨hss, wfp_init, ?_, ?_, ?_, ?_, ?_, ?_, ?_, ?_⟩
  · refine ⟨by simpa [World.fresh, held] using range_nodup _, ?_, by simp [World.fresh, held], by simp [World.fresh, held], by simp [World.fresh]⟩
    intro s hs
    simpa [World.fresh, held] using hs
  · constructor <;> simp [World.fresh, held]
  · constructor <;> simp [World.fresh]
  · refine ⟨⟨[], [], by simp [World.fresh], by simp, by simp⟩, ?_, ?_, ?_, ?_, ?_⟩ <;>
      simp [World.fresh, DataDev.durGet]
  · constructor <;> simp [World.fresh, recsOf]
  · intro f hf; simp [World.fresh, filesOf] at hf
  · intro s hs; simp [World.fresh] at hs
  · constructor; intro s hs; simp [World.fresh] at hs

end BB.Persist
