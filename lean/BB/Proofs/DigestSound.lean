import BB.Proofs.DigestReject
/-!
Helper lemmas for C20, part 8: soundness of acceptance for the four parsers, assembled from the
stage lemmas.
-/
namespace BB.Digest
open BB.Gen.Digest

/-- What `NewDigestFromByteStreamReadPath` accepts: the fields of the path are the components of
a valid instance name followed by a trailer that `newDigestFromByteStreamPathCommon` accepts and
that starts with a compression marker. -/
theorem parseRead_ok {p d : Str} {c : Nat} (h : parseRead p = .ok (d, c)) :
    ∃ hdr tr, fields p = hdr ++ tr ∧ ValidComps hdr ∧ Accepted hdr tr d c ∧
      ∃ m rest, tr = m :: rest ∧ (m = kwBlobs ∨ m = kwCompressedBlobs) := by
  unfold parseRead at h
  dsimp only at h
  by_cases hl : (fields p).length < 3
  · simp [hl] at h
  · rw [if_neg hl] at h
    cases hs : findSplit isBlobsMarker 3 [] (fields p) with
    | error e => simp [hs] at h
    | ok r =>
      obtain ⟨hdr, tr⟩ := r
      simp only [hs] at h
      obtain ⟨h1, _, m, rest, h3, h4⟩ := findSplit_ok _ 3 (fields p) [] hdr tr hs
      have hacc := common_ok h
      refine ⟨hdr, tr, by simpa using h1.symm, ?_, hacc, m, rest, h3, by simpa [isBlobsMarker] using h4⟩
      obtain ⟨_, _, _, _, _, _, _, _, _, _, _, hcomps, _⟩ := hacc.ex
      intro x hx
      exact ⟨fields_mem_comp p x (findSplit_header_mem _ 3 _ hdr tr hs x hx), (hcomps x hx).2⟩

/-- What `NewDigestFromByteStreamWritePath` accepts. -/
theorem parseWrite_ok {p d : Str} {c : Nat} (h : parseWrite p = .ok (d, c)) :
    ∃ hdr uuid tr, fields p = hdr ++ (kwUploads :: uuid :: tr) ∧ ValidComps hdr ∧ Accepted hdr tr d c := by
  unfold parseWrite at h
  dsimp only at h
  by_cases hl : (fields p).length < 5
  · simp [hl] at h
  · rw [if_neg hl] at h
    cases hs : findSplit isUploadsMarker 5 [] (fields p) with
    | error e => simp [hs] at h
    | ok r =>
      obtain ⟨hdr, tr⟩ := r
      simp only [hs] at h
      obtain ⟨h1, h2, m, rest, h3, h4⟩ := findSplit_ok _ 5 (fields p) [] hdr tr hs
      have hlen := h2 (by omega)
      have hm : m = kwUploads := by simpa [isUploadsMarker] using h4
      subst hm
      subst h3
      cases rest with
      | nil => simp at hlen
      | cons uuid tr' =>
        have hacc := common_ok h
        simp only [List.drop_succ_cons, List.drop_zero] at hacc
        refine ⟨hdr, uuid, tr', by simpa using h1.symm, ?_, hacc⟩
        obtain ⟨_, _, _, _, _, _, _, _, _, _, _, hcomps, _⟩ := hacc.ex
        intro x hx
        exact ⟨fields_mem_comp p x (findSplit_header_mem _ 5 _ hdr _ hs x hx), (hcomps x hx).2⟩

theorem parseRead_no_panic (p : Str) : parseRead p ≠ .error .panic := by
  unfold parseRead
  dsimp only
  by_cases hl : (fields p).length < 3
  · simp [hl]
  · rw [if_neg hl]
    have hnp := findSplit_no_panic isBlobsMarker 3 (by omega) (fields p) []
      (by omega)
    cases hs : findSplit isBlobsMarker 3 [] (fields p) with
    | error e => simp only; intro he; simp only [Except.error.injEq] at he; exact hnp (by rw [hs, he])
    | ok r =>
      obtain ⟨hdr, tr⟩ := r
      simp only
      obtain ⟨_, h2, _⟩ := findSplit_ok _ 3 (fields p) [] hdr tr hs
      exact common_no_panic hdr tr
        (fun x hx => (fields_mem_comp p x (findSplit_header_mem _ 3 _ hdr tr hs x hx)).1) (h2 (by omega))

theorem parseWrite_no_panic (p : Str) : parseWrite p ≠ .error .panic := by
  unfold parseWrite
  dsimp only
  by_cases hl : (fields p).length < 5
  · simp [hl]
  · rw [if_neg hl]
    have hnp := findSplit_no_panic isUploadsMarker 5 (by omega) (fields p) [] (by omega)
    cases hs : findSplit isUploadsMarker 5 [] (fields p) with
    | error e => simp only; intro he; simp only [Except.error.injEq] at he; exact hnp (by rw [hs, he])
    | ok r =>
      obtain ⟨hdr, tr⟩ := r
      simp only
      obtain ⟨_, h2, _⟩ := findSplit_ok _ 5 (fields p) [] hdr tr hs
      have := h2 (by omega)
      exact common_no_panic hdr (tr.drop 2)
        (fun x hx => (fields_mem_comp p x (findSplit_header_mem _ 5 _ hdr tr hs x hx)).1)
        (by rw [List.length_drop]; omega)

theorem newInstanceName_no_panic (s : Str) : newInstanceName s ≠ .error .panic := by
  simp only [newInstanceName]
  split
  · simp
  · have := validateComponents_no_panic (fields s) (fun c hc => (fields_mem_comp s c hc).1)
    cases hv : validateComponents (fields s) with
    | error e => simp only; intro he; simp only [Except.error.injEq] at he; exact this (by rw [hv, he])
    | ok _ => simp

/-! ### Compact binary: accepted bytes spell a well-formed digest -/

theorem pow7_mono (i : Nat) (h : i ≤ 8) : 2 ^ (7 * i + 7) ≤ 2 ^ 63 := Nat.pow_le_pow_right (by omega) (by omega)

theorem readUvarintGo_bound : ∀ (k i acc s : Nat) (bs : List Nat) (x : Nat) (rest : List Nat),
    s = 7 * i → i + k = 10 → acc < 2 ^ s → readUvarintGo k i acc s bs = .ok (x, rest) → x < 2 ^ 64
  | 0, _, _, _, _, _, _, _, _, _, h => by simp [readUvarintGo] at h
  | _ + 1, _, _, _, [], _, _, _, _, _, h => by simp [readUvarintGo] at h
  | k + 1, i, acc, s, b :: bs, x, rest, hs, hik, hacc, h => by
    simp only [readUvarintGo] at h
    have hstep : ∀ y, y ≤ 127 → acc + y * 2 ^ s < 2 ^ (s + 7) := by
      intro y hy
      have : y * 2 ^ s ≤ 127 * 2 ^ s := Nat.mul_le_mul_right _ hy
      rw [Nat.pow_add]
      generalize 2 ^ s = t at *
      omega
    by_cases hb : b < 128
    · rw [if_pos hb] at h
      by_cases h9 : i = 9 ∧ 1 < b
      · simp [h9] at h
      · rw [if_neg h9] at h
        simp only [Except.ok.injEq, Prod.mk.injEq] at h
        obtain ⟨rfl, _⟩ := h
        by_cases hi : i = 9
        · subst hi
          have hb1 : b ≤ 1 := by
            by_cases h1 : 1 < b
            · exact absurd ⟨rfl, h1⟩ h9
            · omega
          subst hs
          have e : (2 : Nat) ^ (7 * 9) = 9223372036854775808 := by decide
          rw [e] at hacc ⊢
          have : b * 9223372036854775808 ≤ 1 * 9223372036854775808 := Nat.mul_le_mul_right _ hb1
          omega
        · have hi8 : i ≤ 8 := by omega
          have h1 := hstep b (by omega)
          have h2 := pow7_mono i hi8
          subst hs
          have : (2 : Nat) ^ 63 < 2 ^ 64 := by decide
          omega
    · rw [if_neg hb] at h
      refine readUvarintGo_bound k (i + 1) _ (s + 7) bs x rest (by omega) (by omega) ?_ h
      exact hstep (b % 128) (by omega)

/-- What `NewDigestFromCompactBinary` accepts. -/
theorem newDigestFromCompactBinary_ok {inst : Str} {bs : List Nat} {d : Str}
    (h : newDigestFromCompactBinary inst bs = .ok d) :
    ∃ (f : BareFn) (hash : Str) (size : Nat) (e : Nat) (hb tail : List Nat),
      KnownFn f ∧ ValidHash f hash ∧ size < 2 ^ 63 ∧ d = pack f.enum hash size inst ∧
      bs = e :: (hb ++ tail) ∧ getBareFunction e 0 = some f ∧ hb.length = f.hashBytes ∧ hexEncode hb = hash ∧
      ∃ rest, readVarint tail = .ok ((size : Int), rest) := by
  cases bs with
  | nil => simp [newDigestFromCompactBinary] at h
  | cons e rest =>
    simp only [newDigestFromCompactBinary] at h
    cases hg : getBareFunction e 0 with
    | none => simp [hg] at h
    | some f =>
      simp only [hg] at h
      by_cases hl : rest.length < f.hashBytes
      · simp [hl] at h
      · rw [if_neg hl] at h
        cases hr : readVarint (rest.drop f.hashBytes) with
        | error err => simp [hr] at h
        | ok r =>
          obtain ⟨n, rest'⟩ := r
          simp only [hr] at h
          obtain ⟨hv, h0, hd⟩ := newDigest_ok h
          -- the varint is below 2^63
          have hn : n < 2 ^ 63 := by
            simp only [readVarint] at hr
            cases hu : readUvarint (rest.drop f.hashBytes) with
            | error err => simp [hu] at hr
            | ok r2 =>
              obtain ⟨ux, rest2⟩ := r2
              simp only [hu, Except.ok.injEq, Prod.mk.injEq] at hr
              have hux := readUvarintGo_bound 10 0 0 0 _ ux rest2 rfl rfl (by decide) hu
              obtain ⟨hr1, _⟩ := hr
              have e64 : (2 : Nat) ^ 64 = 18446744073709551616 := by decide
              rw [e64] at hux
              split at hr1 <;> omega
          refine ⟨f, _, n.toNat, e, rest.take f.hashBytes, rest.drop f.hashBytes, ⟨_, _, hg⟩, hv, by omega, hd,
            by rw [List.take_append_drop], hg, by rw [List.length_take]; omega, rfl, rest', ?_⟩
          rw [hr]
          congr 2
          omega

end BB.Digest
