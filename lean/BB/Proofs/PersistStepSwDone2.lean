import BB.Proofs.PersistStepSwDone
/-!
# Invariant preservation: `swDone`, the release of the blocks
-/
namespace BB.Persist

/-- The world after `NotifyPersistentStateWritten` released the first `r` blocks awaiting release. -/
def released (w : World) (r : Nat) : World :=
  { w with pbl := { w.pbl with toRelease := w.pbl.toRelease.drop r, releasing := 0 }
           zombies := w.zombies ++ (w.pbl.toRelease.take r).filter (fun b => w.pins.contains b.gid)
           free := w.free ++ ((w.pbl.toRelease.take r).filter (fun b => !w.pins.contains b.gid)).map (·.slot)
           sw := none }

theorem held_released_perm (w : World) (r : Nat) :
    (held w.pbl w.zombies).Perm (held (released w r).pbl (released w r).zombies ++
      (w.pbl.toRelease.take r).filter (fun b => !w.pins.contains b.gid)) := by
  simp only [held, released]
  have hT : w.pbl.toRelease = w.pbl.toRelease.take r ++ w.pbl.toRelease.drop r := (List.take_append_drop r _).symm
  generalize w.pbl.toRelease.take r = rel at *
  generalize w.pbl.toRelease.drop r = D at *
  rw [hT]
  have h1 : ((rel ++ D) ++ w.zombies).Perm (D ++ (w.zombies ++ rel)) := by
    have : (rel ++ D) ++ w.zombies = rel ++ (D ++ w.zombies) := by simp
    rw [this]
    have := @List.perm_append_comm _ rel (D ++ w.zombies)
    simpa using this
  have h2 : (w.zombies ++ rel).Perm (w.zombies ++ (rel.filter (fun b => w.pins.contains b.gid) ++
      rel.filter (fun b => !w.pins.contains b.gid))) :=
    List.Perm.append_left _ (filter_perm _ rel).symm
  have h3 := (h1.trans (List.Perm.append_left D h2))
  have h4 := List.Perm.append_left w.pbl.blocks h3
  simpa [List.append_assoc] using h4

theorem inv_released {w : World} (h : Inv w) {s : Sw} (hsw : w.sw = some s) (hst : s.stage = 6) :
    Inv (released w w.pbl.releasing) := by
  have hperm := held_released_perm w w.pbl.releasing
  obtain ⟨_, _, _, _, a5, a6, _⟩ := h.sw.stage s hsw
  obtain ⟨hstate, hren⟩ := a5 hst
  have hsub : ∀ b ∈ held (released w w.pbl.releasing).pbl (released w w.pbl.releasing).zombies, b ∈ held w.pbl w.zombies :=
    fun b hb => hperm.mem_iff.2 (List.mem_append_left _ hb)
  refine ⟨h.cfg, ⟨h.wfp.last, h.wfp.seedsLen, h.wfp.sync1, h.wfp.sync2, h.wfp.offs, h.wfp.gids⟩, ?_, ?_, { h.epoch with }, ?_,
    { h.recs with }, ?_, ?_, ⟨by intro s' hs'; simp [released] at hs'⟩⟩
  · -- ownership
    have hs1 : ((held (released w w.pbl.releasing).pbl (released w w.pbl.releasing).zombies).map (·.slot) ++
        (released w w.pbl.releasing).free).Perm ((held w.pbl w.zombies).map (·.slot) ++ w.free) := by
      have := (hperm.map (·.slot)).append_right w.free
      refine List.Perm.symm (this.trans ?_)
      simp only [released, List.map_append, List.append_assoc]
      exact List.Perm.append_left _ List.perm_append_comm
    refine ⟨hs1.nodup_iff.2 h.own.slots, fun x hx => h.own.range x (hs1.mem_iff.1 hx), ?_, fun b hb => h.own.gidLt b (hsub b hb),
      h.own.next⟩
    have := (hperm.map (·.gid)).nodup_iff.1 h.own.gids
    rw [List.map_append] at this
    exact (List.nodup_append.1 this).1
  · -- objects
    refine { h.obj with slotOk := ?_, baseLe := ?_, restored := ?_, heldW := ?_, aligned := ?_ }
    · intro o ho b hb hg; exact h.obj.slotOk o ho b (hsub b hb) hg
    · intro o ho hm b hb hg; exact h.obj.baseLe o ho hm b (hsub b hb) hg
    · intro o ho hm
      obtain ⟨r1, r2, r3⟩ := h.obj.restored o ho hm
      exact ⟨r1, r2, fun b hb hg => r3 b (hsub b hb) hg⟩
    · intro o ho hm hc
      obtain ⟨b, hb, hg⟩ := h.obj.heldW o ho hm hc
      rcases List.mem_append.1 (hperm.mem_iff.1 hb) with hb' | hb'
      · exact ⟨b, hb', hg⟩
      · -- a block with a writer is pinned: it cannot have been freed
        exfalso
        obtain ⟨_, hnp⟩ := List.mem_filter.1 hb'
        have hcnt := h.obj.pinCount o.gid
        have : o ∈ w.objs.filter fun x => x.mine && !x.copied && x.gid == o.gid := by
          rw [List.mem_filter]; exact ⟨ho, by simp [hm, hc]⟩
        have hpos := List.length_pos_of_mem this
        have : 0 < w.pins.count o.gid := by omega
        have hin : o.gid ∈ w.pins := List.count_pos_iff.1 this
        rw [hg] at hnp
        simp [hin] at hnp
    · intro b hb; exact h.obj.aligned b (hsub b hb)
  · exact devInv_mono (fun o _ ⟨b', hb', hg⟩ => ⟨b', hsub b' hb', hg⟩) h.dev
  · intro f hf
    -- the only file a restart can find is the one just made durable
    have hfe : f = s.file := by
      simp only [released, filesOf, hstate, hren, Option.toList, List.append_nil, List.mem_singleton] at hf
      exact hf
    subst hfe
    exact { h.swFile s hsw with }
  · intro s' hs'; simp [released] at hs'

end BB.Persist
