import BB.Proofs.ErrorHandling
/-!
# Helper lemmas for C16, part 4: whole-operation retries and `WithErrorHandler` itself
-/
namespace BB.ErrorHandling

/-- Reading an unwrapped buffer completely. -/
def whole : Buf → Except Err Bytes
  | .bytes data => .ok data
  | .readerAt data _ => .ok data
  | .error e => .error e
  | .chunks d s => casFull d s
  | .reader d s => casFull d s
  | .clone d s => casFull d s

theorem casFull_ok {d : Digest} {s : List Item} {x : Bytes} (h : casFull d s = .ok x) :
    d.valid x = true ∧ x.length = d.size ∧ x = (scan s).1.flatten := by
  unfold casFull at h
  dsimp only at h
  by_cases h1 : (scan s).1.flatten.length > d.size
  · rw [if_pos h1] at h; cases h
  · rw [if_neg h1] at h
    cases ht : (scan s).2 with
    | err e => rw [ht] at h; cases h
    | eof =>
      rw [ht] at h
      dsimp only at h
      by_cases h2 : (scan s).1.flatten.length < d.size
      · rw [if_pos h2] at h; cases h
      · rw [if_neg h2] at h
        by_cases h3 : d.valid (scan s).1.flatten = true
        · rw [if_pos h3] at h
          cases h
          exact ⟨h3, by omega, rfl⟩
        · rw [if_neg h3] at h; cases h

theorem casFull_err {d : Digest} {s : List Item} {e : Err} (h : casFull d s = .error e) :
    (scan s).2 = .err e ∨ e.isIntegrity := by
  unfold casFull at h
  dsimp only at h
  by_cases h1 : (scan s).1.flatten.length > d.size
  · rw [if_pos h1] at h; cases h; exact Or.inr trivial
  · rw [if_neg h1] at h
    cases ht : (scan s).2 with
    | err e' => rw [ht] at h; cases h; exact Or.inl rfl
    | eof =>
      rw [ht] at h
      dsimp only at h
      by_cases h2 : (scan s).1.flatten.length < d.size
      · rw [if_pos h2] at h; cases h; exact Or.inr trivial
      · rw [if_neg h2] at h
        by_cases h3 : d.valid (scan s).1.flatten = true
        · rw [if_pos h3] at h; cases h
        · rw [if_neg h3] at h; cases h; exact Or.inr trivial

theorem whole_own {b : Buf} {e : Err} (h : whole b = .error e) : Own b e := by
  cases b with
  | bytes data => simp [whole] at h
  | readerAt data suf => simp [whole] at h
  | error e' => simp [whole] at h; simp [Own, h]
  | chunks d s => exact casFull_err h
  | reader d s => exact casFull_err h
  | clone d s => exact casFull_err h

theorem whole_good {D : Bytes} {b : Buf} {x : Bytes} (g : Good D b) (h : whole b = .ok x) : x = D := by
  cases b with
  | bytes data => simp [whole] at h; simp only [Good] at g; rw [← h, g]
  | readerAt data suf => simp [whole] at h; simp only [Good] at g; rw [← h, g]
  | error e' => simp [whole] at h
  | chunks d s =>
    obtain ⟨_, h2, h3⟩ := casFull_ok h
    subst h3
    exact g.2.eq_of_length (by rw [h2, g.1])
  | reader d s =>
    obtain ⟨_, h2, h3⟩ := casFull_ok h
    subst h3
    exact g.2.eq_of_length (by rw [h2, g.1])
  | clone d s =>
    obtain ⟨_, h2, h3⟩ := casFull_ok h
    subst h3
    exact g.2.eq_of_length (by rw [h2, g.1])

theorem whole_sealed {d : Digest} {D : Bytes} {b : Buf} {x : Bytes}
    (hd : ∀ x, d.valid x = true → x.length = d.size → x = D) (g : Sealed d D b) (h : whole b = .ok x) : x = D := by
  cases b with
  | bytes data => simp [whole] at h; simp only [Sealed] at g; rw [← h, g]
  | readerAt data suf => simp [whole] at h; simp only [Sealed] at g; rw [← h, g]
  | error e' => simp [whole] at h
  | chunks d' s =>
    simp only [Sealed] at g; subst g
    obtain ⟨h1, h2, _⟩ := casFull_ok h
    exact hd x h1 h2
  | reader d' s =>
    simp only [Sealed] at g; subst g
    obtain ⟨h1, h2, _⟩ := casFull_ok h
    exact hd x h1 h2
  | clone d' s =>
    simp only [Sealed] at g; subst g
    obtain ⟨h1, h2, _⟩ := casFull_ok h
    exact hd x h1 h2

theorem baseSlice_ok {max : Nat} {b : Buf} {x : Bytes} (h : baseSlice max b = .ok x) : whole b = .ok x := by
  cases b with
  | bytes data =>
    simp only [baseSlice] at h
    by_cases hh : data.length > max
    · simp [hh] at h
    · simpa [hh, whole] using h
  | readerAt data suf =>
    simp only [baseSlice] at h
    by_cases hh : data.length > max
    · simp [hh] at h
    · simpa [hh, whole] using h
  | error e => simp [baseSlice] at h
  | chunks d s =>
    simp only [baseSlice] at h
    by_cases hh : d.size > max
    · simp [hh] at h
    · simpa [hh, whole] using h
  | reader d s =>
    simp only [baseSlice] at h
    by_cases hh : d.size > max
    · simp [hh] at h
    · simpa [hh, whole] using h
  | clone d s =>
    simp only [baseSlice] at h
    by_cases hh : d.size > max
    · simp [hh] at h
    · simpa [hh, whole] using h

theorem baseSlice_own {max : Nat} {b : Buf} {e : Err} (h : baseSlice max b = .error e) : Own b e := by
  cases b with
  | bytes data =>
    simp only [baseSlice] at h
    by_cases hh : data.length > max
    · simp [hh] at h; subst h; exact trivial
    · simp [hh] at h
  | readerAt data suf =>
    simp only [baseSlice] at h
    by_cases hh : data.length > max
    · simp [hh] at h; subst h; exact trivial
    · simp [hh] at h
  | error e' => simp [baseSlice] at h; simp [Own, h]
  | chunks d s =>
    simp only [baseSlice] at h
    by_cases hh : d.size > max
    · simp [hh] at h; subst h; exact Or.inr trivial
    · simp only [hh, if_false] at h; exact casFull_err h
  | reader d s =>
    simp only [baseSlice] at h
    by_cases hh : d.size > max
    · simp [hh] at h; subst h; exact Or.inr trivial
    · simp only [hh, if_false] at h; exact casFull_err h
  | clone d s =>
    simp only [baseSlice] at h
    by_cases hh : d.size > max
    · simp [hh] at h; subst h; exact Or.inr trivial
    · simp only [hh, if_false] at h; exact casFull_err h

theorem baseReadAt_ok {off n : Nat} {b : Buf} {x : Bytes} {fl : Bool} (ht : Tight b)
    (h : baseReadAt off n b = .ok (x, fl)) :
    ∃ data, whole b = .ok data ∧ x = (data.drop off).take n := by
  cases b with
  | readerAt data suf =>
    simp only [Tight] at ht; subst ht
    refine ⟨data, rfl, ?_⟩
    simp only [baseReadAt, List.append_nil] at h
    by_cases hh : off ≥ data.length
    · rw [if_pos hh] at h; cases h; rw [List.drop_eq_nil_of_le hh]; simp
    · rw [if_neg hh] at h; cases h; rfl
  | bytes data =>
    refine ⟨data, rfl, ?_⟩
    simp only [baseReadAt] at h
    by_cases hh : off > data.length
    · rw [if_pos hh] at h; cases h; rw [List.drop_eq_nil_of_le (Nat.le_of_lt hh)]; simp
    · rw [if_neg hh] at h; cases h; rfl
  | error e => simp [baseReadAt] at h
  | chunks d s =>
    simp only [baseReadAt] at h
    cases hc : casFull d s with
    | error e => rw [hc] at h; simp at h
    | ok data => rw [hc] at h; simp at h; exact ⟨data, hc, h.1.symm⟩
  | clone d s =>
    simp only [baseReadAt] at h
    cases hc : casFull d s with
    | error e => rw [hc] at h; simp at h
    | ok data => rw [hc] at h; simp at h; exact ⟨data, hc, h.1.symm⟩
  | reader d s =>
    simp only [baseReadAt] at h
    cases hc : casFull d s with
    | error e => rw [hc] at h; simp at h
    | ok data =>
      rw [hc] at h
      refine ⟨data, hc, ?_⟩
      dsimp only at h
      by_cases hh : off > data.length
      · rw [if_pos hh] at h; cases h; rw [List.drop_eq_nil_of_le (Nat.le_of_lt hh)]; simp
      · rw [if_neg hh] at h; cases h; rfl

theorem baseReadAt_own {off n : Nat} {b : Buf} {e : Err} (h : baseReadAt off n b = .error e) : Own b e := by
  cases b with
  | bytes data =>
    simp only [baseReadAt] at h
    by_cases hh : off > data.length <;> simp [hh] at h
  | readerAt data suf =>
    simp only [baseReadAt] at h
    by_cases hh : off ≥ (data ++ suf).length
    · rw [if_pos hh] at h; cases h
    · rw [if_neg hh] at h; cases h
  | error e' => simp [baseReadAt] at h; simp [Own, h]
  | chunks d s =>
    simp only [baseReadAt] at h
    cases hc : casFull d s with
    | error e' => rw [hc] at h; simp at h; subst h; exact casFull_err hc
    | ok data => rw [hc] at h; simp at h
  | clone d s =>
    simp only [baseReadAt] at h
    cases hc : casFull d s with
    | error e' => rw [hc] at h; simp at h; subst h; exact casFull_err hc
    | ok data => rw [hc] at h; simp at h
  | reader d s =>
    simp only [baseReadAt] at h
    cases hc : casFull d s with
    | error e' => rw [hc] at h; simp at h; subst h; exact casFull_err hc
    | ok data =>
      rw [hc] at h
      simp only [] at h
      by_cases hh : off > data.length <;> simp [hh] at h

/-- `tryRepeatedly`: the calls are a chain of the successive buffers' errors; a success is the
success of the operation on the base buffer or on one of the replacements; a failure is the
handler's decision. -/
theorem retry_spec {α : Type} (f : Buf → Except Err α) (hown : ∀ b e, f b = .error e → Own b e) :
    ∀ (h : List Resp) (b : Buf),
      Chain b h (retry f b h).2 ∧
      (∀ a, (retry f b h).1 = .ok a →
        decision h (retry f b h).2.length = none ∧ ∃ b', (b' = b ∨ Resp.repl b' ∈ h) ∧ f b' = .ok a) ∧
      (∀ e, (retry f b h).1 = .error e → decision h (retry f b h).2.length = some e)
  | h, b => by
    unfold retry
    cases hf : f b with
    | ok a =>
      simp only []
      exact ⟨.nil b h, fun a' ha => ⟨by simp [decision], b, Or.inl rfl, by rw [hf]; exact ha⟩, fun e he => by simp at he⟩
    | error e =>
      have ho := hown b e hf
      cases h with
      | nil => exact ⟨.last b _ e ho, fun a ha => by simp at ha, fun e' he => by simp at he; simp [decision, he]⟩
      | cons r h =>
        cases r with
        | fail k =>
          exact ⟨.last b _ e ho, fun a ha => by simp at ha, fun e' he => by simp at he; simp [decision, he]⟩
        | repl b' =>
          obtain ⟨i1, i2, i3⟩ := retry_spec f hown h b'
          simp only []
          refine ⟨.step b b' h e _ ho i1, fun a ha => ?_, fun e' he => ?_⟩
          · obtain ⟨j1, b'', j2, j3⟩ := i2 a ha
            refine ⟨by simpa [decision] using j1, b'', ?_, j3⟩
            rcases j2 with rfl | j2
            · exact Or.inr List.mem_cons_self
            · exact Or.inr (List.mem_cons_of_mem _ j2)
          · simpa [decision] using i3 e' he

/-- `WithErrorHandler`. -/
theorem withEH_spec : ∀ (h : List Resp) (base : Buf),
    Chain base h (withEH base h).2.1 ∧
    (match (withEH base h).1 with
     | .plain b =>
        (withEH base h).2.2 = 1 ∧
        ((∃ data, b = .bytes data ∧ (base = b ∨ Resp.repl b ∈ h) ∧ decision h (withEH base h).2.1.length = none) ∨
         (∃ e, b = .error e ∧ decision h (withEH base h).2.1.length = some e) ∨
         (∃ data suf, b = .readerAt data suf ∧ (base = b ∨ Resp.repl b ∈ h) ∧
            decision h (withEH base h).2.1.length = none))
     | .eh b d =>
        (withEH base h).2.2 = 0 ∧ (base = b ∨ Resp.repl b ∈ h) ∧
        (∃ s, b = .chunks d s ∨ b = .reader d s ∨ b = .clone d s) ∧
        (∀ l', Chain b (h.drop (withEH base h).2.1.length) l' → Chain base h ((withEH base h).2.1 ++ l')) ∧
        (∀ k, decision h ((withEH base h).2.1.length + k) = decision (h.drop (withEH base h).2.1.length) k) ∧
        (∀ b', Resp.repl b' ∈ h.drop (withEH base h).2.1.length → Resp.repl b' ∈ h))
  | h, .bytes data => by
    refine ⟨by simp only [withEH]; exact .nil _ _, ?_⟩
    simp [withEH, decision]
  | h, .readerAt data suf => by
    refine ⟨by simp only [withEH]; exact .nil _ _, ?_⟩
    simp [withEH, decision]
  | h, .chunks d s => by
    refine ⟨by simp only [withEH]; exact .nil _ _, ?_⟩
    simp only [withEH, List.length_nil, List.drop_zero, List.nil_append, Nat.zero_add]
    exact ⟨trivial, Or.inl trivial, ⟨s, Or.inl rfl⟩, fun l' c => c, fun k => trivial, fun b' hb => hb⟩
  | h, .reader d s => by
    refine ⟨by simp only [withEH]; exact .nil _ _, ?_⟩
    simp only [withEH, List.length_nil, List.drop_zero, List.nil_append, Nat.zero_add]
    exact ⟨trivial, Or.inl trivial, ⟨s, Or.inr (Or.inl rfl)⟩, fun l' c => c, fun k => trivial, fun b' hb => hb⟩
  | h, .clone d s => by
    refine ⟨by simp only [withEH]; exact .nil _ _, ?_⟩
    simp only [withEH, List.length_nil, List.drop_zero, List.nil_append, Nat.zero_add]
    exact ⟨trivial, Or.inl trivial, ⟨s, Or.inr (Or.inr rfl)⟩, fun l' c => c, fun k => trivial, fun b' hb => hb⟩
  | [], .error e => by
    refine ⟨.last _ _ e (by simp [Own]), ?_⟩
    simp [withEH, decision]
  | .fail k :: h, .error e => by
    refine ⟨.last _ _ e (by simp [Own]), ?_⟩
    simp [withEH, decision]
  | .repl b :: h, .error e => by
    obtain ⟨i1, i2⟩ := withEH_spec h b
    simp only [withEH]
    refine ⟨.step (.error e) b h e _ (by simp [Own]) i1, ?_⟩
    cases hw : (withEH b h).1 with
    | plain b2 =>
      rw [hw] at i2
      simp only [] at i2 ⊢
      refine ⟨i2.1, ?_⟩
      rcases i2.2 with ⟨data, j1, j2, j3⟩ | ⟨e', j1, j2⟩ | ⟨data, suf, j1, j2, j3⟩
      · refine Or.inl ⟨data, j1, Or.inr ?_, by simpa [decision] using j3⟩
        rcases j2 with j2 | j2
        · rw [← j2]; exact List.mem_cons_self
        · exact List.mem_cons_of_mem _ j2
      · exact Or.inr (Or.inl ⟨e', j1, by simpa [decision] using j2⟩)
      · refine Or.inr (Or.inr ⟨data, suf, j1, Or.inr ?_, by simpa [decision] using j3⟩)
        rcases j2 with j2 | j2
        · rw [← j2]; exact List.mem_cons_self
        · exact List.mem_cons_of_mem _ j2
    | eh b2 d =>
      rw [hw] at i2
      simp only [] at i2 ⊢
      obtain ⟨j1, j2, j3, j4, j5, j6⟩ := i2
      refine ⟨j1, Or.inr ?_, j3, fun l' c => ?_, fun k => ?_, fun b' hb => ?_⟩
      · rcases j2 with j2 | j2
        · rw [← j2]; exact List.mem_cons_self
        · exact List.mem_cons_of_mem _ j2
      · simp only [List.length_cons, List.drop_succ_cons] at c
        simpa using Chain.step (.error e) b h e _ (by simp [Own]) (j4 l' c)
      · simp only [List.length_cons, List.drop_succ_cons]
        have : (withEH b h).2.1.length + 1 + k = ((withEH b h).2.1.length + k) + 1 := by omega
        rw [this]; simp only [decision]; exact j5 k
      · simp only [List.length_cons, List.drop_succ_cons] at hb
        exact List.mem_cons_of_mem _ (j6 b' hb)

end BB.ErrorHandling
