import BB.Proofs.MirroredGet
/-!
`getc` (GetFromComposite) of the C11 model as explicit case tables over the
state before the operation, like `MirroredGet` does for `get`.
-/
namespace BB.Mirrored

theorem internal_ne_nf : ¬ internal = nf := by decide

theorem nfToInternal_eq (r : Res Val) : nfToInternal r =
    match r with
    | .ok v => .ok v
    | .error e => if e.code = nf then .error (e.wrapCode internal .sinkAbsent) else .error e := rfl

/-- The next fault of method `m` after one more call of it. -/
def Replica.faultNext (r : Replica) (m : Meth) : Option Code := r.script m (r.cnt m + 1)

theorem Quiet.faultNext {p : Pair} (h : Quiet p) (s : Side) (m : Meth) : (p.rep s).faultNext m = none :=
  h s m _ (Nat.le_succ _)

theorem faultAt_bump (r : Replica) (m m' : Meth) :
    (r.bump m).faultAt m' = if m' = m then r.faultNext m else r.faultAt m' := by
  unfold Replica.faultAt Replica.faultNext
  by_cases h : m' = m
  · subst h; simp
  · simp [cnt_bump, h]

theorem putRep_faultAt (r : Replica) (k : Key) (inp : Res Val) (m : Meth) :
    (putRep r k inp).faultAt m = (r.bump .put).faultAt m := by
  unfold Replica.faultAt; rw [putRep_script, putRep_cnt]; rfl

/-- Second stage of `GetFromComposite`, in terms of the state before the operation. -/
def stage2c (st : Strat) (p : Pair) (f : Side) (k : Key) : Res Val :=
  let o := f.other
  match st with
  | .noop =>
    match (p.rep o).faultAt .getc with
    | some c2 => if c2 = nf then .error ⟨c2, [], .fault o .getc ((p.rep o).cnt .getc)⟩
                 else .error ⟨c2, [.backend o], .fault o .getc ((p.rep o).cnt .getc)⟩
    | none =>
      match (p.rep o).store k with
      | none => .error ⟨nf, [], .absent o k⟩
      | some v => .ok v
  | .local =>
    match (p.rep f).faultAt .put with
    | some c3 => if c3 = nf then .error ⟨c3, [.dig k], .fault f .put ((p.rep f).cnt .put)⟩
                 else .error ⟨c3, [.backend o, .dig k], .fault f .put ((p.rep f).cnt .put)⟩
    | none =>
      match (p.rep o).faultAt .get with
      | some c2 => if c2 = nf then .error ⟨c2, [.dig k], .fault o .get ((p.rep o).cnt .get)⟩
                   else .error ⟨c2, [.backend o, .dig k], .fault o .get ((p.rep o).cnt .get)⟩
      | none =>
        match (p.rep o).store k with
        | none => .error ⟨nf, [.dig k], .absent o k⟩
        | some v =>
          match (p.rep f).faultNext .getc with
          | none => .ok v
          | some c4 => if c4 = nf then .error ⟨internal, [.backend o, .sinkAbsent], .fault f .getc ((p.rep f).cnt .getc + 1)⟩
                       else .error ⟨c4, [.backend o], .fault f .getc ((p.rep f).cnt .getc + 1)⟩

theorem localMultiple_single_fst (src snk : Side) (p : Pair) (k : Key) :
    (localMultiple src snk p [k]).1 = (putOn snk (getOn src p k).1 k (getOn src p k).2).1 := by
  unfold localMultiple
  simp only []
  cases (putOn snk (getOn src p k).1 k (getOn src p k).2).2 with
  | error e => rfl
  | ok u => simp [localMultiple]

theorem localMultiple_single_snd (src snk : Side) (p : Pair) (k : Key) :
    (localMultiple src snk p [k]).2 =
      match (putOn snk (getOn src p k).1 k (getOn src p k).2).2 with
      | .error e => .error (e.wrap (.dig k))
      | .ok _ => .ok () := by
  unfold localMultiple
  simp only []
  cases (putOn snk (getOn src p k).1 k (getOn src p k).2).2 with
  | error e => rfl
  | ok u => simp [localMultiple]

theorem replComposite_local_snd (src snk : Side) (p : Pair) (k : Key) :
    (replComposite .local src snk p k).2 =
      match (localMultiple src snk p [k]).2 with
      | .error e => .error e
      | .ok _ => nfToInternal (getcOn snk (localMultiple src snk p [k]).1 k).2 := by
  unfold replComposite
  simp only []
  cases (localMultiple src snk p [k]).2 <;> rfl

theorem replComposite_local_fst (src snk : Side) (p : Pair) (k : Key) :
    (replComposite .local src snk p k).1 =
      match (localMultiple src snk p [k]).2 with
      | .error _ => (localMultiple src snk p [k]).1
      | .ok _ => (getcOn snk (localMultiple src snk p [k]).1 k).1 := by
  unfold replComposite
  simp only []
  cases (localMultiple src snk p [k]).2 <;> rfl

theorem stage2c_eq (st : Strat) (p : Pair) (f : Side) (k : Key) (n : Nat) :
    (finish2 f.other (replComposite st f.other f ({ p with round := n }.setRep f ((p.rep f).bump .getc)) k)).2
      = stage2c st p f k := by
  rw [finish2_snd]
  unfold replComposite stage2c
  cases st with
  | noop =>
    simp only [getcOn_snd, rep_setRep_other]
    cases (p.rep f.other).faultAt .getc with
    | some c2 => by_cases h : c2 = nf <;> simp [h, Err.wrap]
    | none => cases (p.rep f.other).store k <;> simp [nf]
  | «local» =>
    show (match (replComposite .local _ _ _ _).2 with | .ok v => _ | .error e => _) = _
    simp only [replComposite_local_snd, localMultiple_single_snd, localMultiple_single_fst, getcOn_snd,
      getOn_snd, getOn_fst, putOn_snd, putOn_fst, rep_setRep_other, rep_setRep_other',
      rep_setRep_same, putRep_faultAt, putRep_cnt, faultAt_bump, cnt_bump, reduceCtorEq, if_false, if_true]
    cases hp : (p.rep f).faultAt .put with
    | some c3 => by_cases h : c3 = nf <;> simp [h, Err.wrap]
    | none =>
      cases (p.rep f.other).faultAt .get with
      | some c2 => by_cases h : c2 = nf <;> simp [h, Err.wrap]
      | none =>
        cases hso : (p.rep f.other).store k with
        | none => simp [nf, Err.wrap]
        | some v =>
          simp only [nfToInternal_eq, putRep_store, faultAt_bump, reduceCtorEq, if_false, hp]
          cases (p.rep f).faultNext .getc with
          | none => simp
          | some c4 => by_cases h : c4 = nf <;> simp [h, Err.wrap, Err.wrapCode, internal_ne_nf]


/-! ## What a composite read leaves behind -/

/-- The value `ReplicateComposite` writes into the replica consulted first (if any). -/
def stage2cWrite (st : Strat) (p : Pair) (f : Side) (k : Key) : Option Val :=
  match st with
  | .noop => none
  | .local =>
    match (p.rep f).faultAt .put with
    | some _ => none
    | none =>
      match (p.rep f.other).faultAt .get with
      | some _ => none
      | none => (p.rep f.other).store k

theorem stage2c_fst_store (st : Strat) (p : Pair) (f : Side) (k : Key) (n : Nat) (t : Side) (k' : Key) :
    (((finish2 f.other (replComposite st f.other f ({ p with round := n }.setRep f ((p.rep f).bump .getc)) k)).1).rep t).store k'
      = if t = f ∧ k' = k then
          (match stage2cWrite st p f k with
           | some v => some v
           | none => (p.rep f).store k)
        else (p.rep t).store k' := by
  rw [finish2_fst]
  cases st with
  | noop =>
    show ((getcOn _ _ _).1.rep t).store k' = _
    rw [getcOn_store]
    rcases Side.eq_or_other f t with h | h
    · subst h; by_cases hk : k' = k <;> simp [hk, stage2cWrite]
    · subst h; simp
  | «local» =>
    have hst : ∀ q : Pair, ((replComposite .local f.other f q k).1.rep t).store k'
        = ((localMultiple f.other f q [k]).1.rep t).store k' := by
      intro q
      rw [replComposite_local_fst]
      cases (localMultiple f.other f q [k]).2 with
      | error e => rfl
      | ok u => simp only []; rw [getcOn_store]
    rw [hst, localMultiple_single_fst]
    rcases Side.eq_or_other f t with h | h
    · subst h
      rw [putOn_store_same]
      simp only [getOn_fst, getOn_snd, rep_setRep_other, rep_setRep_other', rep_setRep_same,
        faultAt_bump, reduceCtorEq, if_false, store_bump]
      unfold stage2cWrite
      cases (p.rep t).faultAt .put with
      | some c => by_cases hk : k' = k <;> simp [hk]
      | none =>
        cases (p.rep t.other).faultAt .get with
        | some c => by_cases hk : k' = k <;> simp [hk]
        | none => cases (p.rep t.other).store k <;> by_cases hk : k' = k <;> simp [hk]
    · subst h
      rw [putOn_store_ne _ _ _ _ _ (by simp), getOn_store]
      simp

theorem stage2c_round (st : Strat) (f : Side) (q : Pair) (k : Key) :
    (finish2 f.other (replComposite st f.other f q k)).1.round = q.round := by
  rw [finish2_fst]
  cases st with
  | noop => exact getcOn_round _ _ _
  | «local» =>
    rw [replComposite_local_fst]
    cases (localMultiple f.other f q [k]).2 with
    | error e => simp only []; rw [localMultiple_single_fst, putOn_round, getOn_round]
    | ok u => simp only []; rw [getcOn_round, localMultiple_single_fst, putOn_round, getOn_round]

theorem stage2c_adv (st : Strat) (f : Side) (q : Pair) (k : Key) :
    Adv q (finish2 f.other (replComposite st f.other f q k)).1 := by
  rw [finish2_fst]
  cases st with
  | noop => exact getcOn_adv _ _ _
  | «local» =>
    have h : Adv q (localMultiple f.other f q [k]).1 := by
      rw [localMultiple_single_fst]; exact (getOn_adv _ _ _).trans (putOn_adv _ _ _ _)
    rw [replComposite_local_fst]
    cases (localMultiple f.other f q [k]).2 with
    | error e => exact h
    | ok u => exact h.trans (getcOn_adv _ _ _)

/-- The replica consulted first answered NOT_FOUND to `GetFromComposite`. -/
def firstNFc (p : Pair) (k : Key) : Bool :=
  match (p.rep (firstSide p)).faultAt .getc with
  | some c => c == nf
  | none => ((p.rep (firstSide p)).store k).isNone

theorem getc_snd (c : Cfg) (p : Pair) (k : Key) : (getc c p k).2 =
    match (p.rep (firstSide p)).faultAt .getc with
    | some c1 => if c1 = nf then stage2c (c.toward (firstSide p)) p (firstSide p) k
                 else .error ⟨c1, [.backend (firstSide p)], .fault (firstSide p) .getc ((p.rep (firstSide p)).cnt .getc)⟩
    | none =>
      match (p.rep (firstSide p)).store k with
      | some v => .ok v
      | none => stage2c (c.toward (firstSide p)) p (firstSide p) k := by
  unfold getc
  simp only [getcOn_snd, getcOn_fst]
  cases h1 : (p.rep (firstSide p)).faultAt .getc with
  | some c1 =>
    simp only []
    by_cases hc : c1 = nf
    · simp only [hc, if_true]
      exact stage2c_eq _ p _ k _
    · simp [hc, Err.wrap]
  | none =>
    cases h2 : (p.rep (firstSide p)).store k with
    | some v => simp
    | none =>
      simp only [nf, if_true]
      exact stage2c_eq _ p _ k _

theorem getc_fst (c : Cfg) (p : Pair) (k : Key) : (getc c p k).1 =
    let f := firstSide p
    let q := ({ p with round := p.round + 1 } : Pair).setRep f ((p.rep f).bump .getc)
    if firstNFc p k then (finish2 f.other (replComposite (c.toward f) f.other f q k)).1 else q := by
  unfold getc firstNFc
  simp only [getcOn_snd, getcOn_fst]
  cases (p.rep (firstSide p)).faultAt .getc with
  | some c1 => by_cases hc : c1 = nf <;> simp [hc]
  | none => cases (p.rep (firstSide p)).store k <;> simp [nf]

theorem getc_round (c : Cfg) (p : Pair) (k : Key) : (getc c p k).1.round = p.round + 1 := by
  rw [getc_fst]; simp only []
  split
  · rw [stage2c_round]; rfl
  · rfl

theorem getc_adv (c : Cfg) (p : Pair) (k : Key) : Adv p (getc c p k).1 := by
  rw [getc_fst]; simp only []
  have h : Adv p (({ p with round := p.round + 1 } : Pair).setRep (firstSide p) ((p.rep (firstSide p)).bump .getc)) :=
    (Adv.round p _).trans (adv_bump _ _ _)
  split
  · exact h.trans (stage2c_adv _ _ _ _)
  · exact h

theorem getc_store (c : Cfg) (p : Pair) (k : Key) (t : Side) (k' : Key) :
    ((getc c p k).1.rep t).store k' =
      if firstNFc p k = true ∧ t = firstSide p ∧ k' = k then
        (match stage2cWrite (c.toward (firstSide p)) p (firstSide p) k with
         | some v => some v
         | none => (p.rep (firstSide p)).store k)
      else (p.rep t).store k' := by
  rw [getc_fst]; simp only []
  by_cases h : firstNFc p k = true
  · simp only [h, if_true, true_and]
    exact stage2c_fst_store _ p _ k _ t k'
  · simp only [h]
    exact congrFun (store_setRep_bump { p with round := p.round + 1 } (firstSide p) t .getc) k'

/-- The error stems from a call that was made to fail: its origin is call `i`
of method `m` on replica `s`, that call had not been made yet in state `p`, the
script fails it, and the error carries the script's code (or INTERNAL, when the
script said NOT_FOUND where NOT_FOUND is not acceptable). -/
def Err.fromFault (p : Pair) (e : Err) : Prop :=
  match e.origin with
  | .fault s m i => (p.rep s).cnt m ≤ i ∧
      ∃ c', (p.rep s).script m i = some c' ∧ (e.code = c' ∨ (c' = nf ∧ e.code = internal))
  | .absent _ _ => False

theorem Err.fromFault_of_adv {p q : Pair} {e : Err} (a : Adv p q) (h : e.fromFault q) : e.fromFault p := by
  unfold Err.fromFault at *
  cases ho : e.origin with
  | absent s k => simp [ho] at h
  | fault s m i =>
    simp only [ho] at h ⊢
    exact ⟨Nat.le_trans (a.cnt s m) h.1, by rw [← a.script s]; exact h.2⟩

theorem Err.fromFault_wrap {p : Pair} {e : Err} (t : Tag) (h : e.fromFault p) : (e.wrap t).fromFault p := h

def saidNFc (p : Pair) (s : Side) (k : Key) : Prop :=
  match (p.rep s).faultAt .getc with
  | some c => c = nf
  | none => (p.rep s).store k = none

theorem firstNFc_iff (p : Pair) (k : Key) : firstNFc p k = true ↔ saidNFc p (firstSide p) k := by
  unfold firstNFc saidNFc
  cases (p.rep (firstSide p)).faultAt .getc <;> simp

theorem stage2c_ok (st : Strat) (p : Pair) (f : Side) (k : Key) (v : Val) (h : stage2c st p f k = .ok v) :
    (p.rep f.other).store k = some v ∧
    (st = .local → (p.rep f).faultAt .put = none ∧ (p.rep f.other).faultAt .get = none) := by
  unfold stage2c at h
  cases st with
  | noop =>
    cases hoc : (p.rep f.other).faultAt .getc <;> cases hso : (p.rep f.other).store k <;>
      simp only [hoc, hso] at h <;> (repeat' split at h) <;> simp_all
  | «local» =>
    cases hp : (p.rep f).faultAt .put <;> cases ho : (p.rep f.other).faultAt .get <;>
      cases hso : (p.rep f.other).store k <;> cases hn : (p.rep f).faultNext .getc <;>
      simp only [hp, ho, hso, hn] at h <;> (repeat' split at h) <;> simp_all

theorem getc_ok_cases (c : Cfg) (p : Pair) (k : Key) (v : Val) (h : (getc c p k).2 = .ok v) :
    ((p.rep (firstSide p)).faultAt .getc = none ∧ (p.rep (firstSide p)).store k = some v) ∨
    (saidNFc p (firstSide p) k ∧ (p.rep (firstSide p).other).store k = some v ∧
      (c.toward (firstSide p) = .local → (p.rep (firstSide p)).faultAt .put = none ∧
        (p.rep (firstSide p).other).faultAt .get = none)) := by
  rw [getc_snd] at h
  unfold saidNFc
  cases hf : (p.rep (firstSide p)).faultAt .getc with
  | some c1 =>
    simp only [hf] at h
    by_cases hc : c1 = nf
    · simp only [hc, if_true] at h
      exact Or.inr ⟨hc, stage2c_ok _ _ _ _ _ h⟩
    · simp [hc] at h
  | none =>
    simp only [hf] at h
    cases hs : (p.rep (firstSide p)).store k with
    | some v' => simp only [hs] at h; simp_all
    | none =>
      simp only [hs] at h
      exact Or.inr ⟨rfl, stage2c_ok _ _ _ _ _ h⟩

theorem stage2c_error (st : Strat) (p : Pair) (f : Side) (k : Key) (e : Err) (h : stage2c st p f k = .error e)
    (hne : e.code ≠ nf) : e.tags.head? = some (.backend f.other) ∧ e.fromFault p := by
  unfold stage2c at h
  obtain ⟨code, tags, origin⟩ := e
  rw [eq_comm] at h
  unfold Err.fromFault
  cases st with
  | noop =>
    cases hoc : (p.rep f.other).faultAt .getc <;> cases hso : (p.rep f.other).store k <;>
      simp only [hoc, hso] at h <;> (repeat' split at h) <;>
      simp only [Replica.faultAt] at * <;> simp_all
  | «local» =>
    cases hp : (p.rep f).faultAt .put <;> cases ho : (p.rep f.other).faultAt .get <;>
      cases hso : (p.rep f.other).store k <;> cases hn : (p.rep f).faultNext .getc <;>
      simp only [hp, ho, hso, hn] at h <;> (repeat' split at h) <;>
      simp only [Replica.faultAt, Replica.faultNext] at * <;> simp_all

theorem stage2c_nf (st : Strat) (p : Pair) (f : Side) (k : Key) (e : Err) (h : stage2c st p f k = .error e)
    (hc : e.code = nf) (hput : (p.rep f).faultAt .put ≠ some nf) :
    (st = .noop → saidNFc p f.other k) ∧ (st = .local → saidNF p f.other k) ∧ ∀ s, Tag.backend s ∉ e.tags := by
  unfold stage2c at h
  obtain ⟨code, tags, origin⟩ := e
  rw [eq_comm] at h
  unfold saidNFc saidNF
  cases st with
  | noop =>
    cases hoc : (p.rep f.other).faultAt .getc <;> cases hso : (p.rep f.other).store k <;>
      simp only [hoc, hso] at h <;> (repeat' split at h) <;> simp_all
  | «local» =>
    cases hp : (p.rep f).faultAt .put <;> cases ho : (p.rep f.other).faultAt .get <;>
      cases hso : (p.rep f.other).store k <;> cases hn : (p.rep f).faultNext .getc <;>
      simp only [hp, ho, hso, hn] at h <;> (repeat' split at h) <;> simp_all [show ¬ nf = internal by decide]

theorem getc_error_cases (c : Cfg) (p : Pair) (k : Key) (e : Err) (h : (getc c p k).2 = .error e) (hne : e.code ≠ nf) :
    (e.tags.head? = some (.backend (firstSide p)) ∨ e.tags.head? = some (.backend (firstSide p).other)) ∧
      e.fromFault p := by
  rw [getc_snd] at h
  cases hf : (p.rep (firstSide p)).faultAt .getc with
  | some c1 =>
    simp only [hf] at h
    by_cases hc : c1 = nf
    · simp only [hc, if_true] at h
      have := stage2c_error _ _ _ _ _ h hne
      exact ⟨Or.inr this.1, this.2⟩
    · simp only [hc, if_false] at h
      injection h with h
      subst h
      simp only [Replica.faultAt] at hf
      simp [Err.fromFault, hf]
  | none =>
    simp only [hf] at h
    cases hs : (p.rep (firstSide p)).store k with
    | some v' => simp [hs] at h
    | none =>
      simp only [hs] at h
      have := stage2c_error _ _ _ _ _ h hne
      exact ⟨Or.inr this.1, this.2⟩

theorem getc_nf_cases (c : Cfg) (p : Pair) (k : Key) (e : Err) (h : (getc c p k).2 = .error e) (hc : e.code = nf)
    (hput : (p.rep (firstSide p)).faultAt .put ≠ some nf) :
    saidNFc p (firstSide p) k ∧
    (c.toward (firstSide p) = .noop → saidNFc p (firstSide p).other k) ∧
    (c.toward (firstSide p) = .local → saidNF p (firstSide p).other k) ∧ ∀ s, Tag.backend s ∉ e.tags := by
  rw [getc_snd] at h
  cases hf : (p.rep (firstSide p)).faultAt .getc with
  | some c1 =>
    simp only [hf] at h
    by_cases hc1 : c1 = nf
    · simp only [hc1, if_true] at h
      exact ⟨by simp [saidNFc, hf, hc1], stage2c_nf _ _ _ _ _ h hc hput⟩
    · simp only [hc1, if_false] at h
      injection h with h
      subst h
      exact absurd hc hc1
  | none =>
    simp only [hf] at h
    cases hs : (p.rep (firstSide p)).store k with
    | some v' => simp [hs] at h
    | none =>
      simp only [hs] at h
      exact ⟨by simp [saidNFc, hf, hs], stage2c_nf _ _ _ _ _ h hc hput⟩

end BB.Mirrored
