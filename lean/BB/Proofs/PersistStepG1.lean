import BB.Proofs.PersistStepNotify
/-!
# Invariant preservation: `g1Start`, `g1Completed`
-/
namespace BB.Persist

theorem BlocksLike.heldF0 {p p' : PBL} (h : BlocksLike p p') :
    ∀ b ∈ p.blocks ++ p.toRelease, ∃ b' ∈ p'.blocks ++ p'.toRelease, b'.gid = b.gid ∧ b'.slot = b.slot := by
  have := h.heldF 0
  simpa using this

/-- The part of the invariant that only needs the list to keep its shape and its epochs. -/
theorem inv_of_like {w : World} (h : Inv w) (p' : PBL) (g1' : G1) (hl : BlocksLike w.pbl p')
    (h1 : p'.oldestEpoch = w.pbl.oldestEpoch) (h2 : p'.seeds = w.pbl.seeds) (h3 : p'.epochLast = w.pbl.epochLast)
    (hs : w.pbl.syncedEpochs ≤ p'.syncedEpochs) (hrel : p'.releasing = w.pbl.releasing)
    (hw : WFP p') (he : EpochInv w.objs p' g1')
    (hsw : ∀ s, w.sw = some s → s.owner = 1 → ∃ f, g1' = .want f) :
    Inv { w with pbl := p', g1 := g1' } := by
  refine ⟨h.cfg, hw, own_like hl h.own, objInv_like hl h.obj, he, devInv_like hl h.dev,
    recInv_like hl h1 h2 h3 h.recs, ?_, ?_, ?_⟩
  · intro f hf
    exact fileInv_like hl h1 h2 h3 hs hl.heldF0 (h.files f hf)
  · intro s hsw'
    have := fileInv_like hl h1 h2 h3 hs (hl.heldF w.pbl.releasing) (h.swFile s hsw')
    simpa [hrel] using this
  · constructor
    intro s hsw'
    obtain ⟨a1, a2, a3, a4, a5, a6, _⟩ := h.sw.stage s hsw'
    exact ⟨a1, a2, a3, a4, a5, by simpa [hrel, hl.toRelease] using a6, hsw s hsw'⟩

theorem inv_g1Start {w w' : World} (h : Inv w) (hs : w.g1Start = some w') : Inv w' := by
  unfold World.g1Start at hs
  split at hs
  · rename_i hg
    simp only [Option.some.injEq] at hs
    subst hs
    have hnp := noPrecov_of_not_syncing h.epoch (by rw [hg]; intro x; simp)
    have := inv_of_like h (w.pbl.notifySyncStarting false) (.started false) (blocksLike_notifyStart _ _) rfl rfl rfl
      (Nat.le_refl _) rfl (notifySyncStarting_wfp h.wfp _)
      (epochInv_notifyStart false h.epoch hnp (by intro x; simp) (by intro x; simp))
      (by
        intro s hsw ho
        obtain ⟨_, _, _, _, _, _, a7⟩ := h.sw.stage s hsw
        obtain ⟨f, hf⟩ := a7 ho
        rw [hg] at hf; cases hf)
    exact this
  · simp at hs

theorem inv_g1Completed {w w' : World} {sd : Bool} (h : Inv w) (hs : w.g1Completed sd = some w') : Inv w' := by
  unfold World.g1Completed at hs
  have hown : ∀ x, w.g1 = .synced x → ∀ s, w.sw = some s → s.owner = 1 → False := by
    intro x hg s hsw ho
    obtain ⟨_, _, _, _, _, _, a7⟩ := h.sw.stage s hsw
    obtain ⟨f, hf⟩ := a7 ho
    rw [hg] at hf; cases hf
  split at hs
  · rename_i hg
    have hep : EpochInv w.objs w.pbl (.synced false) := by rw [← hg]; exact h.epoch
    split at hs
    · -- shutdown: NotifySyncCompleted, then NotifySyncStarting(true) in the same lock region
      simp only [Option.some.injEq] at hs
      subst hs
      have he1 : EpochInv w.objs w.pbl.notifySyncCompleted .idle :=
        epochInv_notifyCompleted hep (by intro y; simp) (by intro y; simp)
      have hnp := noPrecov_of_not_syncing he1 (by intro x; simp)
      exact inv_of_like h _ (.started true)
        ((blocksLike_notifyCompleted _).trans (blocksLike_notifyStart _ _)) rfl rfl rfl
        (by simp [PBL.notifySyncStarting, PBL.notifySyncCompleted]; exact h.wfp.sync1) rfl
        (notifySyncStarting_wfp (notifySyncCompleted_wfp h.wfp) _)
        (epochInv_notifyStart true he1 hnp (by intro x; simp) (by intro x; simp))
        (fun s hsw ho => (hown _ hg s hsw ho).elim)
    · simp only [Option.some.injEq] at hs
      subst hs
      exact inv_of_like h _ (.want false) (blocksLike_notifyCompleted _) rfl rfl rfl
        (by simp [PBL.notifySyncCompleted]; exact h.wfp.sync1) rfl (notifySyncCompleted_wfp h.wfp)
        (epochInv_notifyCompleted hep (by intro y; simp) (by intro y; simp))
        (fun s hsw ho => (hown _ hg s hsw ho).elim)
  · rename_i hg
    have hep : EpochInv w.objs w.pbl (.synced true) := by rw [← hg]; exact h.epoch
    simp only [Option.some.injEq] at hs
    subst hs
    exact inv_of_like h _ (.want true) (blocksLike_notifyCompleted _) rfl rfl rfl
      (by simp [PBL.notifySyncCompleted]; exact h.wfp.sync1) rfl (notifySyncCompleted_wfp h.wfp)
      (epochInv_notifyCompleted hep (by intro y; simp) (by intro y; simp))
      (fun s hsw ho => (hown _ hg s hsw ho).elim)
  · simp at hs

end BB.Persist
