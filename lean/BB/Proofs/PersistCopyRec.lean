import BB.Proofs.PersistCopyObj
/-!
# The copy phase: epochs, records, files
-/
namespace BB.Persist

theorem epochInv_copy {objs : List Obj} {p : PBL} {g1 : G1} (g : Obj → Obj) (hg : ∀ x, SameButCopy (g x) x)
    (he : EpochInv objs p g1) : EpochInv (objs.map g) p g1 := by
  refine ⟨?_, ?_, ?_, ?_⟩
  · intro o' ho' i b e hb hgid hfin
    obtain ⟨o, ho, rfl⟩ := mem_map_obj ho'
    obtain ⟨_, k2, _, k4, k5, _, _, _, _, k10, _⟩ := hg o
    rw [k4, k5]; exact he.range o ho i b e hb (by rw [← k2]; exact hgid) (by rw [← k10]; exact hfin)
  · intro o' ho' b hb e hgid hfin hlt
    obtain ⟨o, ho, rfl⟩ := mem_map_obj ho'
    obtain ⟨_, k2, _, k4, k5, _, _, _, _, k10, _, k12⟩ := hg o
    rw [k4, k5, k12]; exact he.synced o ho b hb e (by rw [← k2]; exact hgid) (by rw [← k10]; exact hfin) hlt
  · intro o' ho' b hb e hgid hfin hlt
    obtain ⟨o, ho, rfl⟩ := mem_map_obj ho'
    obtain ⟨_, k2, _, k4, k5, _, _, _, _, k10, k11, k12⟩ := hg o
    rw [k4, k5, k11, k12]; exact he.syncing o ho b hb e (by rw [← k2]; exact hgid) (by rw [← k10]; exact hfin) hlt
  · intro o' ho' hp
    obtain ⟨o, ho, rfl⟩ := mem_map_obj ho'
    exact he.precov o ho (by rw [← (hg o).2.2.2.2.2.2.2.2.2.2.1]; exact hp)

theorem matches_copy {g : Obj → Obj} (hg : ∀ x, SameButCopy (g x) x) {o : Obj} (hid : g o = o) {r : PRec} (hm : Matches o r) :
    Matches (g o) r := by rw [hid]; exact hm

theorem recInv_copy {recs : List PRec} {objs : List Obj} {p : PBL} {ns : Nat} (g : Obj → Obj)
    (hg : ∀ x, SameButCopy (g x) x) (hmono : ∀ x ∈ objs, x.copied = true → g x = x)
    (hr : RecInv recs objs p ns) : RecInv recs (objs.map g) p ns := by
  refine ⟨?_, hr.seedLt, hr.pSeeds⟩
  intro r hrm i hres
  obtain ⟨b, o, hb, ho, hgid, hm⟩ := hr.res r hrm i hres
  have hid := hmono o ho hm.2.2.2.1
  exact ⟨b, g o, hb, List.mem_map.2 ⟨o, ho, rfl⟩, by rw [hid]; exact hgid, by rw [hid]; exact hm⟩

theorem fileInv_copy {ss : Nat} {fl : SFile} {heldF : List Blk} {recs : List PRec} {objs : List Obj} {p : PBL} {ns : Nat}
    (g : Obj → Obj) (hg : ∀ x, SameButCopy (g x) x) (hmono : ∀ x ∈ objs, x.copied = true → g x = x)
    (h : FileInv ss fl heldF recs objs p ns) : FileInv ss fl heldF recs (objs.map g) p ns := by
  refine ⟨h.gids, h.heldIn, h.bound, h.seedLt, ?_, ?_, h.agree⟩
  · intro o' ho' j bs e hbs hgid hfin hlt
    obtain ⟨o, ho, rfl⟩ := mem_map_obj ho'
    obtain ⟨_, k2, _, k4, k5, _, _, _, _, k10, _, k12⟩ := hg o
    rw [k4, k5, k12]
    exact h.committed o ho j bs e hbs (by rw [← k2]; exact hgid) (by rw [← k10]; exact hfin) hlt
  · intro r hrm i hres
    obtain ⟨bs, o, hbs, ho, hgid, hm⟩ := h.res r hrm i hres
    have hid := hmono o ho hm.2.2.2.1
    exact ⟨bs, g o, hbs, List.mem_map.2 ⟨o, ho, rfl⟩, by rw [hid]; exact hgid, by rw [hid]; exact hm⟩

/-- The update `copy` applies to the objects. -/
def setCopied (id d : Nat) (x : Obj) : Obj := if x.id == id then { x with data := d, copied := true } else x

theorem setCopied_same (id d : Nat) (x : Obj) : SameButCopy (setCopied id d x) x := by
  unfold setCopied SameButCopy; split <;> simp

theorem setCopied_other {id d : Nat} {x : Obj} (h : x.id ≠ id) : setCopied id d x = x := by
  unfold setCopied; simp [h]

theorem setCopied_self {id d : Nat} {x : Obj} (h : x.id = id) : setCopied id d x = { x with data := d, copied := true } := by
  unfold setCopied; simp [h]

theorem obj?_some {w : World} {id : Nat} {o : Obj} (h : w.obj? id = some o) : o ∈ w.objs ∧ o.id = id := by
  unfold World.obj? at h
  exact ⟨List.mem_of_find?_eq_some h, by simpa using List.find?_some h⟩

end BB.Persist
