import BB.Proofs.PersistView2
/-!
# C03: the directory operations of the state writer; every step has a view
-/
namespace BB.Persist

theorem view_swStep {w w' : World} (h : Inv w) (hs : w.swStep = some w') : View w w' := by
  unfold World.swStep at hs
  cases hsw : w.sw with
  | none => simp [hsw] at hs
  | some s =>
    simp only [hsw] at hs
    obtain ⟨a1, a3, a4, a5, a6, a7, a8⟩ := h.sw.stage s hsw
    have mk : ∀ (k : Nat) (d' : StateDir), s.stage = k →
        w' = { w with dir := d', sw := some { s with stage := k + 1 } } →
        (∀ f ∈ filesOf d', f ∈ filesOf w.dir ∨ f = s.file) → (w.dir.state.isSome = true → d'.state.isSome = true) →
        View w w' := by
      intro k d' hk hw' hf hst
      subst hk; subst hw'
      exact View.swStep rfl rfl rfl hsw rfl hf hst
    generalize hk : s.stage = k at hs a1 a3 a4 a5 a6
    match k, hs, a3, a4, a5, a6 with
    | 0, hs, _, _, _, _ =>
      simp only [Option.some.injEq] at hs
      exact mk 0 w.dir.remove hk hs.symm (fun f hf => Or.inl hf) (fun h => h)
    | 1, hs, _, _, _, _ =>
      cases hc : w.dir.create with
      | none => simp [hc] at hs
      | some d' =>
        simp only [hc, Option.some.injEq] at hs
        have hd : filesOf d' = filesOf w.dir ∧ d'.state = w.dir.state := by
          unfold StateDir.create at hc; split at hc <;> simp at hc; subst hc; exact ⟨rfl, rfl⟩
        exact mk 1 d' hk hs.symm (fun f hf => Or.inl (by rw [← hd.1]; exact hf)) (fun h => by rw [hd.2]; exact h)
    | 2, hs, _, _, _, _ =>
      cases hc : w.dir.writeTmp s.file with
      | none => simp [hc] at hs
      | some d' =>
        simp only [hc, Option.some.injEq] at hs
        have hd : filesOf d' = filesOf w.dir ∧ d'.state = w.dir.state := by
          unfold StateDir.writeTmp at hc; split at hc <;> simp at hc; subst hc; exact ⟨rfl, rfl⟩
        exact mk 2 d' hk hs.symm (fun f hf => Or.inl (by rw [← hd.1]; exact hf)) (fun h => by rw [hd.2]; exact h)
    | 3, hs, a3, _, _, _ =>
      cases hc : w.dir.fsyncTmp with
      | none => simp [hc] at hs
      | some d' =>
        simp only [hc, Option.some.injEq] at hs
        have hd : filesOf d' = filesOf w.dir ∧ d'.state = w.dir.state := by
          unfold StateDir.fsyncTmp at hc
          rw [a3 rfl] at hc
          simp at hc; subst hc; exact ⟨rfl, rfl⟩
        exact mk 3 d' hk hs.symm (fun f hf => Or.inl (by rw [← hd.1]; exact hf)) (fun h => by rw [hd.2]; exact h)
    | 4, hs, _, a4, _, _ =>
      cases hc : w.dir.rename with
      | none => simp [hc] at hs
      | some d' =>
        simp only [hc, Option.some.injEq] at hs
        have hd : d' = { w.dir with tmp := .absent, renamed := w.dir.renamed ++ [s.file] } := by
          unfold StateDir.rename at hc
          rw [a4 rfl] at hc
          simp at hc; exact hc.symm
        refine mk 4 d' hk hs.symm ?_ (fun h => by rw [hd]; exact h)
        intro f hf
        rw [hd] at hf
        simp only [filesOf, List.mem_append, List.mem_singleton] at hf
        rcases hf with hf | hf | rfl
        · exact Or.inl (List.mem_append_left _ hf)
        · exact Or.inl (List.mem_append_right _ hf)
        · exact Or.inr rfl
    | 5, hs, _, _, a5, _ =>
      simp only [Option.some.injEq] at hs
      have hd : w.dir.dirSync = { w.dir with state := some s.file, renamed := [] } := by
        unfold StateDir.dirSync; rw [a5 rfl]
      refine mk 5 w.dir.dirSync hk hs.symm ?_ (fun _ => by rw [hd]; rfl)
      intro f hf
      rw [hd] at hf
      simp only [filesOf, Option.toList, List.append_nil, List.mem_singleton] at hf
      exact Or.inr hf
    | n + 6, hs, _, _, _, _ => simp at hs

/-- Every step, through the view. -/
theorem step_view {w w' : World} (h : Inv w) (hs : Step w w') : View w w' := by
  cases hs with
  | popFront hp => exact view_popFront hp
  | pushBack hp => exact (view_pushBack hp).1
  | reserve hr => exact (view_reserve hr).1
  | copy ho hu hc => exact view_copy hc
  | refreshCopy hc => exact view_refreshCopy hc
  | finalize hf => exact View.fin hf
  | recWrite ho hk hoff hsz hfin hrel hb hbg hw => exact view_recWrite hw
  | g1Start hg => exact view_g1Start hg
  | syncBegin hg => exact view_syncBegin hg
  | syncEnd hg => exact view_syncEnd hg
  | syncFail hg => exact view_syncFail hg
  | g1Completed hg => exact view_g1Completed hg
  | swBegin hg => exact view_swBegin hg
  | swStep hg => exact view_swStep h hg
  | swFail hg => exact view_swFail hg
  | swDone hg => exact view_swDone hg
  | crashRestart kd ki pick lo => exact View.crash kd ki pick lo

/-- A finalizer on a list that is closed for writing does not succeed. -/
theorem finalize_closed {w w' : World} {id : Nat} (hc : w.pbl.closed = true) (hf : w.finalize id = .ok w') : False := by
  unfold World.finalize at hf
  split at hf
  · cases hf
  · split at hf
    · cases hf
    · have : ∀ a b c d, w.pbl.finalize a b c d = .unavailable := by
        intro a b c d; unfold PBL.finalize; rw [if_pos hc]
      rw [this] at hf
      cases hf

end BB.Persist
