import BB.Proofs.PersistCopyDev
/-!
# The copy phase: `DevInv` after the writer's sector writes
-/
namespace BB.Persist

theorem devInv_copy {w : World} (h : Inv w) {o : Obj} {id d : Nat} (ho : o ∈ w.objs) (hid : o.id = id)
    (hc : o.copied = false) (hm : o.mine = true) :
    DevInv w.cfg (w.objs.map (setCopied id d))
      { w.data with pend := w.data.pend ++ copyWrites w.cfg (w.objs.map (setCopied id d)) o }
      w.pbl w.zombies w.nextObj := by
  have hg := setCopied_same id d
  -- the other objects are untouched
  have hother : ∀ x ∈ w.objs, x.id ≠ id → setCopied id d x = x := fun x _ hx => setCopied_other hx
  have hisO : ∀ x ∈ w.objs, x.id = id → x = o := fun x hx hxid => obj_eq_of_id h.obj.ids hx ho (by rw [hxid, hid])
  have hcopied : ∀ x ∈ w.objs, x.copied = true → setCopied id d x = x := by
    intro x hx hxc
    apply hother x hx
    intro hxid
    rw [hisO x hx hxid, hc] at hxc; cases hxc
  have hheldO : ∃ b ∈ held w.pbl w.zombies, b.gid = o.gid := h.obj.heldW o ho hm hc
  -- the writes carry every copied object of the same generation that lies in their sector
  have carries : ∀ x ∈ w.objs, x.mine = true → (setCopied id d x).copied = true →
      (∃ b ∈ held w.pbl w.zombies, b.gid = x.gid) → ∀ s ∈ secsOf w.cfg.ss x.off x.size,
      AllHave x.id x.slot s (copyWrites w.cfg (w.objs.map (setCopied id d)) o) := by
    intro x hx hxm hxc hhx s hs y hy hat
    obtain ⟨y1, y2, _, y4⟩ := mem_copyWrites hy
    simp only [SecW.at, Bool.and_eq_true, beq_iff_eq] at hat
    have hslot : x.slot = o.slot := by rw [← hat.1]; exact y1
    have hgid : x.gid = o.gid := gid_of_slot h hx ho hhx hheldO hslot
    rw [y4, hat.2]
    obtain ⟨k1, k2, _, k4, k5, _, _, _, k9, _⟩ := hg x
    rw [← k1]
    exact image_mem (List.mem_map.2 ⟨x, hx, rfl⟩) (by rw [k2]; exact hgid) (by rw [k9]; exact hxm) hxc (by rw [k4, k5]; exact hs)
  have hsrc : ∀ (L : List Nat) (slot s : Nat),
      (L = DataDev.durGet { w.data with pend := w.data.pend ++ copyWrites w.cfg (w.objs.map (setCopied id d)) o } slot s ∨
        ∃ x ∈ w.data.pend ++ copyWrites w.cfg (w.objs.map (setCopied id d)) o, x.slot = slot ∧ x.sec = s ∧ L = x.objs) →
      (L = w.data.durGet slot s ∨ ∃ x ∈ w.data.pend, x.slot = slot ∧ x.sec = s ∧ L = x.objs) ∨
      ∃ y ∈ copyWrites w.cfg (w.objs.map (setCopied id d)) o, L = y.objs := by
    intro L slot s hL
    rcases hL with hL | ⟨x, hx, x1, x2, x3⟩
    · exact Or.inl (Or.inl hL)
    · rcases List.mem_append.1 hx with hx | hx
      · exact Or.inl (Or.inr ⟨x, hx, x1, x2, x3⟩)
      · exact Or.inr ⟨x, hx, x3⟩
  refine ⟨?_, ?_, ?_, ?_, ?_, ?_⟩
  · refine covPrefix_append_uncovered h.dev.pref _ ?_
    intro y hy; exact (mem_copyWrites hy).2.2.1
  · -- objects of the running process that are copied
    intro x' hx' hxm hxc hh s hs
    obtain ⟨x, hx, rfl⟩ := mem_map_obj hx'
    obtain ⟨k1, k2, k3, k4, k5, _, _, _, k9, _⟩ := hg x
    rw [k1, k3]; rw [k4, k5] at hs; rw [k2] at hh; rw [k9] at hxm
    by_cases hxid : x.id = id
    · have := hisO x hx hxid; subst this
      obtain ⟨A, y, B, hsplit, hyat, hyobjs, hB⟩ := copyWrites_split (c := w.cfg) (objs' := w.objs.map (setCopied id d))
        (o := x) (s := s) hs
      rw [hsplit]
      refine Tail.own w.data A y B hyat ?_ (fun z hz hzat => by rw [hB z hz] at hzat; cases hzat)
      rw [hyobjs, ← k1]
      exact image_mem (List.mem_map.2 ⟨x, hx, rfl⟩) (by rw [k2]) (by rw [k9]; exact hxm) hxc (by rw [k4, k5]; exact hs)
    · have hxeq := hother x hx hxid
      rw [hxeq] at hxc
      exact (h.dev.mine x hx hxm hxc hh s hs).write _ (carries x hx hxm (by rw [hxeq]; exact hxc) hh s hs)
  · intro x' hx' hxp hh s hs
    obtain ⟨x, hx, rfl⟩ := mem_map_obj hx'
    obtain ⟨k1, k2, k3, k4, k5, _, _, _, _, _, k11, _⟩ := hg x
    rw [k1, k3]; rw [k4, k5] at hs; rw [k2] at hh; rw [k11] at hxp
    obtain ⟨m1, m2⟩ := (h.obj.flags x hx).1 hxp
    exact (h.dev.precov x hx hxp hh s hs).write _ (carries x hx m1 (by rw [hcopied x hx m2]; exact m2) hh s hs)
  · intro x' hx' hxd hh s hs
    obtain ⟨x, hx, rfl⟩ := mem_map_obj hx'
    obtain ⟨k1, k2, k3, k4, k5, _, _, _, _, _, _, k12⟩ := hg x
    rw [k1, k3]; rw [k4, k5] at hs; rw [k2] at hh; rw [k12] at hxd
    refine (h.dev.durable x hx hxd hh s hs).write _ ?_
    have hxc := (h.obj.flags x hx).2 hxd
    by_cases hxm : x.mine = true
    · exact carries x hx hxm (by rw [hcopied x hx hxc]; exact hxc) hh s hs
    · -- a restored object: the writer's sectors lie above the cursor the block was attached with
      intro y hy hat
      exfalso
      obtain ⟨y1, y2, _, _⟩ := mem_copyWrites hy
      simp only [SecW.at, Bool.and_eq_true, beq_iff_eq] at hat
      have hslot : x.slot = o.slot := by rw [← hat.1]; exact y1
      have hgid : x.gid = o.gid := gid_of_slot h hx ho hh hheldO hslot
      obtain ⟨b, hb, hbg⟩ := hheldO
      have r3 := (h.obj.restored x hx (by simpa using hxm)).2.2 b hb (by rw [hbg, hgid])
      have r4 := h.obj.baseLe o ho hm b hb hbg
      exact secs_disjoint h.cfg (h.obj.aligned b hb) r3 r4 hs (by rw [← hat.2]; exact y2)
  · intro a' ha b' hb L slot s hL m1 m2 s1 s2 hoff
    obtain ⟨a, ha0, rfl⟩ := mem_map_obj ha
    obtain ⟨b, hb0, rfl⟩ := mem_map_obj hb
    obtain ⟨ka1, ka2, ka3, ka4, ka5, _, _, _, ka9, _⟩ := hg a
    obtain ⟨kb1, kb2, kb3, kb4, kb5, _, _, _, kb9, _⟩ := hg b
    rw [ka1, kb1]
    rw [ka1] at m1; rw [kb1] at m2; rw [ka3] at s1; rw [kb3] at s2; rw [ka4, kb4] at hoff
    rcases hsrc L slot s hL with hold | ⟨y, hy, rfl⟩
    · exact h.dev.content a ha0 b hb0 L slot s hold m1 m2 s1 s2 hoff
    · obtain ⟨_, _, _, y4⟩ := mem_copyWrites hy
      rw [y4] at m1 m2
      obtain ⟨a2, ha2, ia, ga, ma, _, _⟩ := image_of_mem m1
      obtain ⟨b2, hb2, ib, gb, mb, _, _⟩ := image_of_mem m2
      obtain ⟨a3, ha3, rfl⟩ := mem_map_obj ha2
      obtain ⟨b3, hb3, rfl⟩ := mem_map_obj hb2
      have ea : a3 = a := obj_eq_of_id h.obj.ids ha3 ha0 (by rw [← (hg a3).1]; exact ia)
      have eb : b3 = b := obj_eq_of_id h.obj.ids hb3 hb0 (by rw [← (hg b3).1]; exact ib)
      subst ea; subst eb
      by_cases hne : a3.id = b3.id
      · exact hne
      · exfalso
        have := h.obj.disj a3 ha0 b3 hb0 (by rw [← ka9]; exact ma) (by rw [← kb9]; exact mb)
          (by rw [← ka2, ← kb2, ga, gb]) hne
        have sa := h.obj.size a3 ha0
        have sb := h.obj.size b3 hb0
        omega
  · intro L slot s hL' id' hid'
    rcases hsrc L slot s hL' with hold | ⟨y, hy, rfl⟩
    · exact h.dev.contentLt L slot s hold id' hid'
    · obtain ⟨_, _, _, y4⟩ := mem_copyWrites hy
      rw [y4] at hid'
      obtain ⟨x2, hx2, ix, _⟩ := image_of_mem hid'
      obtain ⟨x3, hx3, rfl⟩ := mem_map_obj hx2
      rw [← ix, (hg x3).1]
      exact h.obj.idLt x3 hx3

end BB.Persist
