import BB.Model.Routing
/-!
Helper lemmas for C19, part 2: the instance name patcher.

* on components: `patchName_under` (old-prefix names go to new-prefix names),
  `unpatch_patch` (the reverse patcher undoes it);
* `patchStr_join`: the code's computation on character strings with byte offsets
  (`patchInstanceName`) agrees with the component-level function on the joined names.
Core Lean only.
-/
namespace BB.Routing

theorem patchName_under (old new rest : Name) : patchName old new (old ++ rest) = new ++ rest := by
  unfold patchName
  by_cases h : old = new
  · simp [h]
  · simp [h]

theorem unpatch_patch (old new i : Name) (h : old <+: i) :
    patchName new old (patchName old new i) = i := by
  obtain ⟨rest, rfl⟩ := h
  rw [patchName_under, patchName_under]

theorem unpatchDg_patchDg (old new : Name) (d : Dg) (h : old <+: d.name) :
    unpatchDg old new (patchDg old new d) = d := by
  cases d with | mk name hash =>
  simp only [unpatchDg, patchDg]
  simp only at h
  rw [unpatch_patch old new name h]

theorem patchDg_hash (old new : Name) (d : Dg) : (patchDg old new d).hash = d.hash := rfl

/-- Patching is injective on names under the prefix. -/
theorem patchDg_inj (old new : Name) (d e : Dg) (hd : old <+: d.name) (he : old <+: e.name)
    (h : patchDg old new d = patchDg old new e) : d = e := by
  rw [← unpatchDg_patchDg old new d hd, ← unpatchDg_patchDg old new e he, h]

/-! ### the string level -/

/-- REv2 instance names: no empty components (`validateInstanceNameComponents`). -/
def ValidName (n : Name) : Prop := ∀ c ∈ n, c ≠ []

theorem joinS_cons (c : Comp) (r : Name) (h : r ≠ []) : joinS (c :: r) = c ++ '/' :: joinS r := by
  cases r with
  | nil => exact absurd rfl h
  | cons c' r' => rfl

theorem joinS_append (a b : Name) (ha : a ≠ []) (hb : b ≠ []) :
    joinS (a ++ b) = joinS a ++ '/' :: joinS b := by
  induction a with
  | nil => exact absurd rfl ha
  | cons c a' ih =>
    cases a' with
    | nil =>
      simp only [List.cons_append, List.nil_append]
      rw [joinS_cons c b hb]
      rfl
    | cons c' a'' =>
      have h1 : joinS (c :: (c' :: a'' ++ b)) = c ++ '/' :: joinS (c' :: a'' ++ b) :=
        joinS_cons c _ (by simp)
      have h2 : joinS (c :: c' :: a'') = c ++ '/' :: joinS (c' :: a'') := joinS_cons c _ (by simp)
      simp only [List.cons_append] at h1 ⊢
      rw [h1, h2]
      have := ih (by simp)
      simp only [List.cons_append] at this
      rw [this]
      simp

theorem joinS_eq_nil (n : Name) (hv : ValidName n) : joinS n = [] ↔ n = [] := by
  constructor
  · intro h
    cases n with
    | nil => rfl
    | cons c r =>
      exfalso
      have hc : c ≠ [] := hv c (by simp)
      cases r with
      | nil => exact hc h
      | cons c' r' =>
        rw [joinS_cons c _ (by simp)] at h
        simp at h
  · intro h; subst h; rfl

theorem validName_append {a b : Name} (ha : ValidName a) (hb : ValidName b) : ValidName (a ++ b) := by
  intro c hc
  rcases List.mem_append.mp hc with h | h
  · exact ha c h
  · exact hb c h

/-- `prefixWithSlash ++ joinS rest = joinS (prefix ++ rest)` for a non-empty continuation. -/
theorem withSlash_join (new rest : Name) (hnew : ValidName new) (hrest : rest ≠ []) :
    withSlash (joinS new) ++ joinS rest = joinS (new ++ rest) := by
  by_cases hn : new = []
  · subst hn; simp [withSlash, joinS]
  · have : joinS new ≠ [] := fun e => hn ((joinS_eq_nil new hnew).mp e)
    rw [joinS_append new rest hn hrest]
    simp [withSlash, this]

/-- The byte-offset computation of `patchInstanceName` is the component-level patch. -/
theorem patchStr_join (old new rest : Name) (hold : ValidName old) (hnew : ValidName new)
    (hrest : ValidName rest) :
    patchStr (joinS old) (joinS new) (joinS (old ++ rest)) = joinS (patchName old new (old ++ rest)) := by
  rw [patchName_under]
  unfold patchStr
  by_cases hs : joinS old = joinS new
  · -- the code's no-op patcher
    simp only [hs, ↓reduceIte]
    by_cases ho : old = []
    · have : new = [] := (joinS_eq_nil new hnew).mp (by rw [← hs, ho]; rfl)
      rw [ho, this]
    · have hn : new ≠ [] := by
        intro e
        apply ho
        exact (joinS_eq_nil old hold).mp (by rw [hs, e]; rfl)
      by_cases hr : rest = []
      · subst hr; simpa using hs
      · rw [joinS_append old rest ho hr, joinS_append new rest hn hr, hs]
  · simp only [hs, ↓reduceIte]
    by_cases hr : rest = []
    · subst hr
      simp only [List.append_nil]
      by_cases ho : old = []
      · subst ho; simp [joinS, withSlash]
      · have : joinS old ≠ [] := fun e => ho ((joinS_eq_nil old hold).mp e)
        have hle : ¬ (joinS old).length > (joinS old ++ ['/']).length := by
          simp only [List.length_append, List.length_cons, List.length_nil]; omega
        simp only [withSlash, this, ↓reduceIte, hle]
    · have hjr : joinS rest ≠ [] := fun e => hr ((joinS_eq_nil rest hrest).mp e)
      have hlen : 0 < (joinS rest).length := List.length_pos_iff.mpr hjr
      by_cases ho : old = []
      · subst ho
        simp only [List.nil_append, joinS, withSlash, ↓reduceIte, List.length_nil, gt_iff_lt, hlen,
          List.drop_zero]
        have := withSlash_join new rest hnew hr
        simpa [withSlash] using this
      · have hjo : joinS old ≠ [] := fun e => ho ((joinS_eq_nil old hold).mp e)
        rw [joinS_append old rest ho hr]
        have hws : withSlash (joinS old) = joinS old ++ ['/'] := by simp [withSlash, hjo]
        rw [hws]
        have hgt : (joinS old ++ '/' :: joinS rest).length > (joinS old ++ ['/']).length := by
          simp only [List.length_append, List.length_cons, List.length_nil]; omega
        simp only [hgt, ↓reduceIte]
        have hdrop : (joinS old ++ '/' :: joinS rest).drop (joinS old ++ ['/']).length = joinS rest := by
          have : joinS old ++ '/' :: joinS rest = (joinS old ++ ['/']) ++ joinS rest := by simp
          rw [this, List.drop_left']
          rfl
        rw [hdrop]
        exact withSlash_join new rest hnew hr

end BB.Routing
