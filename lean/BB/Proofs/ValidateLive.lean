import BB.Proofs.ValidateReader
/-! # Termination of the copy loops: the converse direction for `IntoWriter` -/
namespace BB.Validate

/-- Reads still possible on a chunk validator. -/
def VC.mu (v : VC) : Nat := if v.core.fin = none then v.src.chunks.length + 1 else 0

/-- Reads still possible on a reader validator (with non-empty read buffers). -/
def VR.mu (v : VR) : Nat := if v.core.fin = none then v.src.content.length + v.src.items.length + 1 else 0

theorem RSrc.read_measure (s : RSrc) (cap : Nat) (hcap : 0 < cap) (h : (s.read cap).2.2 = none) :
    (s.read cap).1.content.length + (s.read cap).1.items.length < s.content.length + s.items.length := by
  unfold RSrc.read at h ⊢
  unfold RSrc.content
  cases hi : s.items with
  | nil => rw [hi] at h; simp at h
  | cons a rest =>
    rw [hi] at h
    simp only [] at h ⊢
    by_cases hc : a.length ≤ cap
    · rw [if_pos hc]; simp only [List.flatten_cons, List.length_append, List.length_cons]; omega
    · rw [if_neg hc]
      simp only [List.flatten_cons, List.length_append, List.length_cons, List.length_drop]; omega

theorem VR.read_measure (c : Cfg) (v : VR) (cap : Nat) (hcap : 0 < cap) (hok : v.core.fin ≠ some .ok)
    (h : (VR.read c v cap).2.2 = .ok) : (VR.read c v cap).1.mu < v.mu := by
  generalize hres : VR.read c v cap = res at h ⊢
  unfold VR.read at hres
  cases hf : v.core.fin with
  | some r =>
    rw [hf] at hres
    simp only [] at hres
    subst hres
    simp only [] at h
    subst h
    exact absurd hf hok
  | none =>
    rw [hf] at hres
    have hm := RSrc.read_measure v.src cap hcap
    generalize v.src.read cap = x at hm hres
    obtain ⟨s1, d, sr⟩ := x
    simp only [VR.fail, VR.valid, VR.srcFail] at hm hres
    have hmu : v.mu = v.src.content.length + v.src.items.length + 1 := by simp [VR.mu, hf]
    rw [hmu]
    repeat' (split at hres)
    all_goals (subst hres)
    all_goals first | (cases h; done) | skip
    all_goals (
      have := hm rfl
      simp only [VR.mu, hf, if_true]
      omega)

end BB.Validate

namespace BB.Validate

theorem VC.read_measure (c : Cfg) (v : VC) (hok : v.core.fin ≠ some .ok)
    (h : (VC.read c v).2.2 = .ok) : (VC.read c v).1.mu < v.mu := by
  generalize hres : VC.read c v = res at h ⊢
  unfold VC.read at hres
  cases hf : v.core.fin with
  | some r =>
    rw [hf] at hres
    simp only [] at hres
    subst hres
    simp only [] at h
    subst h
    exact absurd hf hok
  | none =>
    rw [hf] at hres
    have hmu : v.mu = v.src.chunks.length + 1 := by simp [VC.mu, hf]
    rw [hmu]
    simp only [VC.maybeFinalize, VC.setFin, VC.verdict, VC.emit] at hres
    repeat' (split at hres)
    all_goals (subst hres)
    all_goals first | (cases h; done) | skip
    all_goals (simp_all [VC.mu])
    all_goals (try omega)

end BB.Validate

namespace BB.Validate

theorem copyLoop_live (c : Cfg) (T : Truth) (buf : Nat) (hbuf : 0 < buf) :
    ∀ (fuel : Nat) (v : VR) (ws : List (List Nat)), RInv c T v → v.mu < fuel →
      (copyLoop (VR.read c) buf fuel v ws).2.2 = .ok ∨
      ∃ e, (copyLoop (VR.read c) buf fuel v ws).2.2 = .err e ∧
        (copyLoop (VR.read c) buf fuel v ws).1.core.fin = some (.err e) := by
  intro fuel
  induction fuel with
  | zero => intro v ws _ h; omega
  | succ f ih =>
    intro v ws hI hmu
    simp only [copyLoop]
    obtain ⟨hI', hsf⟩ := VR.read_ok (c := c) buf hI
    have hme := VR.read_measure c v buf hbuf hI.inv.ok
    generalize VR.read c v buf = x at hI' hsf hme ⊢
    obtain ⟨v', d, r⟩ := x
    simp only at hI' hsf hme ⊢
    cases r with
    | ok => exact ih v' _ hI' (by have := hme rfl; omega)
    | eof => exact Or.inl rfl
    | err e => exact Or.inr ⟨e, rfl, hsf.res (by simp)⟩

theorem intoWriterVia_live (c : Cfg) (T : Truth) :
    ∀ (fuel : Nat) (v : VC) (ps : List (List Nat)), CInv c T v → v.mu < fuel →
      (intoWriterVia (VC.read c) fuel v ps).2.2 = .ok ∨
      ∃ e, (intoWriterVia (VC.read c) fuel v ps).2.2 = .err e ∧
        (intoWriterVia (VC.read c) fuel v ps).1.core.fin = some (.err e) := by
  intro fuel
  induction fuel with
  | zero => intro v ps _ h; omega
  | succ f ih =>
    intro v ps hI hmu
    simp only [intoWriterVia]
    obtain ⟨hI', hsf, _⟩ := VC.read_ok (c := c) hI
    have hme := VC.read_measure c v hI.inv.ok
    generalize VC.read c v = x at hI' hsf hme ⊢
    obtain ⟨v', d, r⟩ := x
    simp only at hI' hsf hme ⊢
    cases r with
    | ok => exact ih v' _ hI' (by have := hme rfl; omega)
    | eof => exact Or.inl rfl
    | err e => exact Or.inr ⟨e, rfl, hsf.res (by simp)⟩

/-- With matching content and a clean end of the source no validator error is possible. -/
theorem no_error_of_match {c : Cfg} {T : Truth} {rdr : Bool} {k : Core} (h : Inv c T rdr k)
    (hc : ContentOK c T) (ht : T.term = .eof) (e : Err) : k.fin ≠ some (.err e) := by
  intro hf
  rcases h.err e hf with ⟨_, h2, _⟩ | ⟨_, h2, _⟩ | ⟨_, _, h3, _⟩ | ⟨k', _, h2, _⟩ | ⟨_, _, h3, _⟩
  · have := hc.1; omega
  · exact h2 hc.1
  · exact h3 hc.2
  · rw [ht] at h2; cases h2
  · rw [ht] at h3; cases h3

end BB.Validate
