import BB.Model.Mux
/-! Part B: well-formed buffers (every decorator knows the digest) never panic. -/
namespace BB.Mux

/-- every decorator struct carries the digest of the blob (size `n`) -/
def WF (n : Nat) : Buf → Prop
  | .err _ => True
  | .bytes d => d.length = n
  | .readerAt d => d.length = n
  | .stream _ size _ d => size = n ∧ d.length = n
  | .cloned base dg _ => dg = some n ∧ WF n base
  | .task base dg _ _ => dg = some n ∧ WF n base
  | .eh base dg => dg = some n ∧ WF n base

/-- not a panic, and successful results have the digest's length -/
def GoodOut (n : Nat) (o : Out) : Prop := o ≠ .panic ∧ ∀ d s, o = .ok d s → d.length = n

theorem good_err (n k : Nat) : GoodOut n (.err k) := ⟨by simp, by simp⟩
theorem good_ok (n : Nat) (d : List Nat) (s : Bool) (h : d.length = n) : GoodOut n (.ok d s) :=
  ⟨by simp, by intro d' s' e; cases e; exact h⟩

theorem good_streamRes (n : Nat) (q : Quality) (d : List Nat) (v : Bool) (h : d.length = n) :
    GoodOut n (streamRes q d v) := by
  cases q with
  | good => exact good_ok n d true h
  | corrupt => cases v <;> simp [streamRes, good_err, good_ok, h]
  | ioerr k => exact good_err n k

theorem good_validate (n : Nat) (o : Out) (h : GoodOut n o) : GoodOut n (validate o) := by
  cases o with
  | ok d s => cases s <;> simp [validate, good_err, h]
  | err k => exact h
  | panic => exact h

theorem good_trOut (n : Nat) (o : Out) (h : GoodOut n o) : GoodOut n (trOut o) := by
  cases o with
  | ok d s => exact h
  | err k => exact good_err n _
  | panic => exact h

theorem cr_good (n : Nat) : ∀ (b : Buf) (v : Bool), WF n b → GoodOut n (cr b v).res
  | .err k, v, _ => good_err n k
  | .bytes d, v, h => good_ok n d true h
  | .readerAt d, v, h => good_ok n d true h
  | .stream c sz q d, v, h => good_streamRes n q d v h.2
  | .cloned base dg sibs, v, h => by simp only [cr]; exact cr_good n base _ h.2
  | .task base dg t r, v, h => by
    have ih := cr_good n base v h.2
    simp only [cr]
    cases hb : (cr base v).res with
    | panic => exact absurd hb ih.1
    | err k => exact good_err n k
    | ok d s =>
      cases r with
      | none => exact good_ok n d s (ih.2 d s hb)
      | some e => exact good_err n e
  | .eh base dg, v, h => by
    have ih := cr_good n base false h.2
    simp only [cr]
    cases v with
    | false => exact good_trOut n _ ih
    | true => rw [h.1]; exact good_validate n _ (good_trOut n _ ih)

theorem rd_good (n : Nat) : ∀ (b : Buf) (v : Bool), WF n b → GoodOut n (rd b v).res
  | .err k, v, _ => good_err n k
  | .bytes d, v, h => good_ok n d true h
  | .readerAt d, v, h => good_ok n d true h
  | .stream c sz q d, v, h => good_streamRes n q d v h.2
  | .cloned base dg sibs, v, h => by simp only [rd]; exact cr_good n _ v h
  | .task base dg t r, v, h => by
    have ih := rd_good n base v h.2
    simp only [rd]
    cases hb : (rd base v).res with
    | panic => exact absurd hb ih.1
    | err k => exact good_err n k
    | ok d s => exact good_ok n d s (ih.2 d s hb)
  | .eh base dg, v, h => by
    have ih := rd_good n base false h.2
    simp only [rd]
    cases v with
    | false => exact good_trOut n _ ih
    | true => rw [h.1]; exact good_validate n _ (good_trOut n _ ih)

theorem afterTask_good (n : Nat) (b : MOut) (t : Nat) (r : Option Nat) (h : GoodOut n b.res) :
    GoodOut n (afterTask b t r).res := by
  simp only [afterTask]
  cases hb : b.res with
  | panic => exact absurd hb h.1
  | err k => exact good_err n k
  | ok d s =>
    have hd := h.2 d s hb
    by_cases e : b.eof = true
    · simp only [e, if_true]; exact good_ok n d s hd
    · simp only [e]
      cases r with
      | none => exact good_ok n d s hd
      | some k => exact good_err n k

theorem toByteSlice_good (n : Nat) : ∀ (b : Buf) (max : Nat), WF n b → GoodOut n (toByteSlice b max).res
  | .err k, max, _ => good_err n k
  | .bytes d, max, h => by
    simp only [toByteSlice]; split
    · exact good_err n 3
    · exact good_ok n d true h
  | .readerAt d, max, h => by
    simp only [toByteSlice]; split
    · exact good_err n 3
    · exact good_ok n d true h
  | .stream c sz q d, max, h => by
    simp only [toByteSlice]; split
    · exact good_err n 3
    · exact good_streamRes n q d true h.2
  | .cloned base dg sibs, max, h => by
    have g := cr_good n (.cloned base dg sibs) true h
    obtain ⟨hdg, _⟩ := h
    subst hdg
    simp only [toByteSlice]
    generalize cr (.cloned base (some n) sibs) true = r at g ⊢
    cases r with | mk res wT wC cE =>
    cases res with
    | panic => exact absurd rfl g.1
    | err k =>
      dsimp only
      by_cases e : tooLarge n max = true
      · simp only [e, if_true]; exact good_err n 3
      · simp only [e]; exact good_err n k
    | ok d s =>
      dsimp only
      by_cases e : tooLarge n max = true
      · simp only [e, if_true]; exact good_err n 3
      · simp only [e]; exact good_ok n d s (g.2 d s rfl)
  | .task base dg t r, max, h => afterTask_good n _ t r (toByteSlice_good n base max h.2)
  | .eh base dg, max, h => good_trOut n _ (toByteSlice_good n base max h.2)

/-- not a panic (the bytes of `ReadAt` are a slice, not the whole blob) -/
def NoPanic (o : Out) : Prop := o ≠ .panic

theorem afterTask_np (b : MOut) (t : Nat) (r : Option Nat) (h : NoPanic b.res) : NoPanic (afterTask b t r).res := by
  simp only [afterTask, NoPanic] at *
  cases hb : b.res with
  | panic => exact absurd hb h
  | err k => simp
  | ok d s => by_cases e : b.eof = true <;> simp [e, hb] <;> cases r <;> simp

theorem trOut_np (o : Out) (h : NoPanic o) : NoPanic (trOut o) := by
  cases o <;> simp_all [NoPanic, trOut]

theorem sliceOut_np (o : Out) (off len : Nat) (h : NoPanic o) : NoPanic (sliceOut o off len).res := by
  cases o with
  | ok d s => cases s <;> simp [sliceOut, slice, NoPanic]
  | err k => simp [sliceOut, NoPanic]
  | panic => exact absurd rfl h

theorem readAt_np (n : Nat) : ∀ (b : Buf) (off len : Nat), WF n b → NoPanic (readAt b off len).res
  | .err k, _, _, _ => by simp [readAt, NoPanic]
  | .bytes d, _, _, _ => by simp [readAt, slice, NoPanic]
  | .readerAt d, _, _, _ => by simp [readAt, slice, NoPanic]
  | .stream c sz q d, off, len, h => sliceOut_np _ off len (good_streamRes n q d true h.2).1
  | .cloned base dg sibs, off, len, h => by
    simp only [readAt]; exact sliceOut_np _ off len (cr_good n (.cloned base dg sibs) true h).1
  | .task base dg t r, off, len, h => afterTask_np _ t r (readAt_np n base off len h.2)
  | .eh base dg, off, len, h => trOut_np _ (readAt_np n base off len h.2)

theorem intoWriter_good (n : Nat) : ∀ (b : Buf), WF n b → GoodOut n (intoWriter b).res
  | .err k, _ => good_err n k
  | .bytes d, h => good_ok n d true h
  | .readerAt d, h => good_ok n d true h
  | .stream c sz q d, h => good_streamRes n q d true h.2
  | .cloned base dg sibs, h => cr_good n (.cloned base dg sibs) true h
  | .task base dg t r, h => afterTask_good n _ t r (intoWriter_good n base h.2)
  | .eh base dg, h => cr_good n (.eh base dg) true h

theorem discard_np (n : Nat) : ∀ (b : Buf), WF n b → NoPanic (discard b).res
  | .err k, _ => by simp [discard, NoPanic, unit]
  | .bytes d, _ => by simp [discard, NoPanic, unit]
  | .readerAt d, _ => by simp [discard, NoPanic, unit]
  | .stream c sz q d, _ => by simp [discard, NoPanic, unit]
  | .cloned base dg sibs, h => by
    have g := cr_good n base (wantsValidation false sibs) h.2
    simp only [discard]
    cases hb : (cr base (wantsValidation false sibs)).res with
    | panic => exact absurd hb g.1
    | err k => simp [NoPanic, unit]
    | ok d s => simp [NoPanic, unit]
  | .task base dg t r, h => by
    have ih := discard_np n base h.2
    simp only [discard]
    cases hb : (discard base).res <;> simp_all [NoPanic, unit]
  | .eh base dg, h => by simp only [discard]; exact discard_np n base h.2

end BB.Mux
