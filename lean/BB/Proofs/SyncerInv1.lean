import BB.Proofs.SyncerStep
/-!
First layer of the invariant of the syncer model: block-list invariant, the
`storeLock` discipline, and "a waiter never holds a channel from the future".
-/
namespace BB.Syncer

def WPc.holds : WPc → Bool
  | .writing _ => true
  | .written => true
  | _ => false

def PPc.holds : PPc → Bool
  | .write _ w => w.holds
  | _ => false

def RPc.holds : RPc → Bool
  | .write w => w.holds
  | _ => false

structure Inv1 (s : State) : Prop where
  bl : s.bl.Inv
  /-- `storeLock` is held exactly while a loop is between `GetPersistentState` and the end of `writePersistentState` -/
  lock : s.storeLocked = (s.p.holds || s.r.holds)
  excl : ¬ (s.p.holds = true ∧ s.r.holds = true)
  /-- `blocksReleasing` is meaningful while the lock is held -/
  rel : s.storeLocked = true → s.bl.releasing ≤ s.bl.toRelease.length
  pgen : ∀ g, (s.p = .poll g ∨ s.p = .wait g) → g ≤ s.bl.putCh.gen
  rgen : ∀ g, s.r = .wait g → g ≤ s.bl.relCh.gen

theorem inv1_init (free : List Nat) (oldest t0 : Nat) (h : free.Nodup) : Inv1 (init free oldest t0) :=
  ⟨BL.inv_init free oldest h, rfl, by simp [init, PPc.holds], by simp [init], by simp [init], by simp [init]⟩

/-- Steps that do not move the loops. -/
theorem inv1_frame {s s' : State} (h : Inv1 s) (hp : s'.p = s.p) (hr : s'.r = s.r)
    (hl : s'.storeLocked = s.storeLocked) (hb : s'.bl.Inv) (hm : BL.Mono s.bl s'.bl)
    (hrel : s.bl.releasing ≤ s.bl.toRelease.length → s'.bl.releasing ≤ s'.bl.toRelease.length) : Inv1 s' := by
  refine ⟨hb, ?_, ?_, ?_, ?_, ?_⟩
  · rw [hl, hp, hr]; exact h.lock
  · rw [hp, hr]; exact h.excl
  · intro hx; rw [hl] at hx; exact hrel (h.rel hx)
  · intro g hg; rw [hp] at hg; exact Nat.le_trans (h.pgen g hg) hm.putGen
  · intro g hg; rw [hr] at hg; exact Nat.le_trans (h.rgen g hg) hm.relGen

theorem inv1_env {s s' : State} (h : Inv1 s) (hp : s'.p = s.p) (hr : s'.r = s.r)
    (hl : s'.storeLocked = s.storeLocked) (hb : s'.bl.Inv) (he : BL.Env s.bl s'.bl) : Inv1 s' := by
  refine inv1_frame h hp hr hl hb he.mono ?_
  intro hx
  obtain ⟨l, h1, _, _⟩ := he.toRel
  rw [he.releasing, h1]
  simp; omega

/-- Steps of the put loop outside `writePersistentState` that leave the lock alone. -/
theorem inv1_pmove {s s' : State} (h : Inv1 s) (hh : s.p.holds = false) (hh' : s'.p.holds = false)
    (hr : s'.r = s.r) (hl : s'.storeLocked = s.storeLocked) (hb : s'.bl.Inv) (hm : BL.Mono s.bl s'.bl)
    (hrel : s'.bl.releasing = s.bl.releasing ∧ s'.bl.toRelease = s.bl.toRelease)
    (hg : ∀ g, (s'.p = .poll g ∨ s'.p = .wait g) → g ≤ s'.bl.putCh.gen) : Inv1 s' := by
  refine ⟨hb, ?_, ?_, ?_, hg, ?_⟩
  · rw [hl, hr, hh', h.lock, hh]
  · rw [hh']; simp
  · intro hx; rw [hl] at hx; rw [hrel.1, hrel.2]; exact h.rel hx
  · intro g hgg; rw [hr] at hgg; exact Nat.le_trans (h.rgen g hgg) hm.relGen

theorem getState_fields {b : BL} (h : b.Inv) :
    b.getState.1.putCh = b.putCh ∧ b.getState.1.relCh = b.relCh ∧ b.getState.1.toRelease = b.toRelease ∧
    b.getState.1.releasing = b.toRelease.length ∧ BL.Mono b b.getState.1 := by
  obtain ⟨bs, _, heq, _, _⟩ := BL.getState_spec h
  rw [heq]
  exact ⟨rfl, rfl, rfl, rfl, ⟨Nat.le_refl _, fun _ hg => hg, Nat.le_refl _, fun _ hg => hg, Nat.le_refl _,
    Nat.le_refl _, Nat.le_refl _⟩⟩

theorem inv1_pW {c : Cfg} {s s1 : State} {kg fin : Bool} {w w' : WPc} {a : WAct} (h : Inv1 s)
    (hp : s.p = .write kg w) (hw : WStep c s w a s1 w' fin) :
    Inv1 { s1 with p := if fin then (if kg then .get else .done) else .write kg w' } := by
  have hlock := h.lock
  have hexcl := h.excl
  rw [hp] at hlock hexcl
  cases hw with
  | get hl =>
    simp [PPc.holds, WPc.holds, hl] at hlock
    obtain ⟨f1, f2, f3, f4, f5⟩ := getState_fields h.bl
    refine ⟨BL.inv_getState h.bl, ?_, ?_, ?_, ?_, ?_⟩
    · simp [PPc.holds, WPc.holds]
    · simp [PPc.holds, WPc.holds]; exact hlock
    · intro _; show s.bl.getState.1.releasing ≤ s.bl.getState.1.toRelease.length
      rw [f4, f3]; exact Nat.le_refl _
    · intro g hg; simp at hg
    · intro g hg; show g ≤ s.bl.getState.1.relCh.gen; rw [f2]; exact h.rgen g hg
  | retOk snap =>
    simp [PPc.holds, WPc.holds] at hlock hexcl
    refine ⟨h.bl, ?_, ?_, h.rel, ?_, h.rgen⟩
    · simp [PPc.holds, WPc.holds]; exact hlock
    · simp [PPc.holds, WPc.holds]; exact hexcl
    · intro g hg; simp at hg
  | retFail snap =>
    simp [PPc.holds, WPc.holds] at hlock hexcl
    refine ⟨h.bl, ?_, ?_, ?_, ?_, h.rgen⟩
    · simp [PPc.holds, WPc.holds]; exact hexcl
    · simp [PPc.holds, WPc.holds]
    · intro hx; simp at hx
    · intro g hg; simp at hg
  | notify =>
    simp [PPc.holds, WPc.holds] at hlock hexcl
    refine ⟨BL.inv_stateWritten h.bl (h.rel hlock), ?_, ?_, ?_, ?_, ?_⟩
    · cases kg <;> simp [PPc.holds, hexcl]
    · cases kg <;> simp [PPc.holds]
    · intro hx; simp at hx
    · intro g hg; cases kg <;> simp at hg
    · intro g hg; exact Nat.le_trans (h.rgen g hg) (BL.mono_stateWritten s.bl).relGen
  | wake d hd =>
    simp [PPc.holds, WPc.holds] at hlock
    refine ⟨h.bl, ?_, ?_, h.rel, ?_, h.rgen⟩
    · simp [PPc.holds, WPc.holds]; exact hlock
    · simp [PPc.holds, WPc.holds]
    · intro g hg; simp at hg

theorem inv1_rW {c : Cfg} {s s1 : State} {fin : Bool} {w w' : WPc} {a : WAct} (h : Inv1 s)
    (hr : s.r = .write w) (hw : WStep c s w a s1 w' fin) :
    Inv1 { s1 with r := if fin then .get else .write w' } := by
  have hlock := h.lock
  have hexcl := h.excl
  rw [hr] at hlock hexcl
  cases hw with
  | get hl =>
    simp [RPc.holds, WPc.holds, hl] at hlock
    obtain ⟨f1, f2, f3, f4, f5⟩ := getState_fields h.bl
    refine ⟨BL.inv_getState h.bl, ?_, ?_, ?_, ?_, ?_⟩
    · simp [RPc.holds, WPc.holds]
    · simp [RPc.holds, WPc.holds]; exact hlock
    · intro _; show s.bl.getState.1.releasing ≤ s.bl.getState.1.toRelease.length
      rw [f4, f3]; exact Nat.le_refl _
    · intro g hg; show g ≤ s.bl.getState.1.putCh.gen; rw [f1]; exact h.pgen g hg
    · intro g hg; simp at hg
  | retOk snap =>
    simp [RPc.holds, WPc.holds] at hlock hexcl
    refine ⟨h.bl, ?_, ?_, h.rel, h.pgen, ?_⟩
    · simp [RPc.holds, WPc.holds]; exact hlock
    · simp [RPc.holds, WPc.holds]; exact hexcl
    · intro g hg; simp at hg
  | retFail snap =>
    simp [RPc.holds, WPc.holds] at hlock hexcl
    refine ⟨h.bl, ?_, ?_, ?_, h.pgen, ?_⟩
    · simp [RPc.holds, WPc.holds]; exact hexcl
    · simp [RPc.holds, WPc.holds]
    · intro hx; simp at hx
    · intro g hg; simp at hg
  | notify =>
    simp [RPc.holds, WPc.holds] at hlock hexcl
    refine ⟨BL.inv_stateWritten h.bl (h.rel hlock), ?_, ?_, ?_, ?_, ?_⟩
    · simp [RPc.holds, hexcl]
    · simp [RPc.holds]
    · intro hx; simp at hx
    · intro g hg; exact Nat.le_trans (h.pgen g hg) (BL.mono_stateWritten s.bl).putGen
    · intro g hg; simp at hg
  | wake d hd =>
    simp [RPc.holds, WPc.holds] at hlock
    refine ⟨h.bl, ?_, ?_, h.rel, h.pgen, ?_⟩
    · simp [RPc.holds, WPc.holds]; exact hlock
    · simp [RPc.holds, WPc.holds]
    · intro g hg; simp at hg

theorem inv1_Step {c : Cfg} {s s' : State} {a : Act} (h : Inv1 s) (hs : Step c s a s') : Inv1 s' := by
  have mrefl := BL.Mono.refl s.bl
  cases hs with
  | tick n => exact inv1_frame h rfl rfl rfl h.bl mrefl id
  | cancel => exact inv1_frame h rfl rfl rfl h.bl mrefl id
  | pushOk b' hp => exact inv1_env h rfl rfl rfl (BL.inv_pushBack h.bl hp) (BL.env_pushBack hp)
  | pushErr _ => exact h
  | pop b' hp => exact inv1_env h rfl rfl rfl (BL.inv_popFront h.bl hp) (BL.env_popFront h.bl hp)
  | fin abs e b' r hf => exact inv1_env h rfl rfl rfl (BL.inv_fin h.bl hf) (BL.env_fin h.bl hf).1
  | pGet hp =>
    refine inv1_pmove h (by rw [hp]; rfl) rfl rfl rfl h.bl mrefl ⟨rfl, rfl⟩ ?_
    intro g hg; simp at hg; subst hg; exact Nat.le_refl _
  | pPollReady g hp hr =>
    refine inv1_pmove h (by rw [hp]; rfl) rfl rfl rfl h.bl mrefl ⟨rfl, rfl⟩ ?_
    intro g hg; simp at hg
  | pPollWait g hp hr =>
    refine inv1_pmove h (by rw [hp]; rfl) rfl rfl rfl h.bl mrefl ⟨rfl, rfl⟩ ?_
    intro g' hg; simp at hg; subst hg; exact h.pgen g (Or.inl hp)
  | pWake g hp hr =>
    refine inv1_pmove h (by rw [hp]; rfl) rfl rfl rfl h.bl mrefl ⟨rfl, rfl⟩ ?_
    intro g hg; simp at hg
  | pCancelWait g hc hp =>
    refine inv1_pmove h (by rw [hp]; rfl) rfl rfl rfl h.bl mrefl ⟨rfl, rfl⟩ ?_
    intro g hg; simp at hg
  | pCancelTimer d a hc hp =>
    refine inv1_pmove h (by rw [hp]; rfl) rfl rfl rfl h.bl mrefl ⟨rfl, rfl⟩ ?_
    intro g hg; simp at hg
  | pFire d a hp hd =>
    refine inv1_pmove h (by rw [hp]; rfl) rfl rfl rfl h.bl mrefl ⟨rfl, rfl⟩ ?_
    intro g hg; simp at hg
  | pStart kg hp =>
    refine inv1_pmove h (by rw [hp]; rfl) rfl rfl rfl (BL.inv_syncStarting h.bl false)
      (BL.mono_syncStarting s.bl false) ⟨rfl, rfl⟩ ?_
    intro g hg; simp at hg
  | pDataOk kg f hp =>
    refine inv1_pmove h (by rw [hp]; rfl) rfl rfl rfl h.bl mrefl ⟨rfl, rfl⟩ ?_
    intro g hg; simp at hg
  | pDataFail kg f hp =>
    refine inv1_pmove h (by rw [hp]; rfl) rfl rfl rfl h.bl mrefl ⟨rfl, rfl⟩ ?_
    intro g hg; simp at hg
  | pRetry kg f d hp hd =>
    refine inv1_pmove h (by rw [hp]; rfl) rfl rfl rfl h.bl mrefl ⟨rfl, rfl⟩ ?_
    intro g hg; simp at hg
  | pCompletedAgain hp =>
    have hb := BL.inv_syncCompleted h.bl
    refine inv1_pmove h (by rw [hp]; rfl) rfl rfl rfl (BL.inv_syncStarting hb true) ?_ ⟨rfl, rfl⟩ ?_
    · have m1 := BL.mono_syncCompleted h.bl
      have m2 := BL.mono_syncStarting s.bl.syncCompleted true
      exact ⟨Nat.le_trans m1.putGen m2.putGen, fun g hg => m2.putClosed g (m1.putClosed g hg),
        Nat.le_trans m1.relGen m2.relGen, fun g hg => m2.relClosed g (m1.relClosed g hg),
        Nat.le_trans m1.synced m2.synced, Nat.le_trans m1.endAbs m2.endAbs, Nat.le_trans m1.released m2.released⟩
    · intro g hg; simp at hg
  | pCompleted kg f hp hk =>
    refine inv1_pmove h (by rw [hp]; rfl) rfl rfl rfl (BL.inv_syncCompleted h.bl)
      (BL.mono_syncCompleted h.bl) ⟨rfl, rfl⟩ ?_
    intro g hg; simp at hg
  | pW kg w a s1 w' fin hp hw => exact inv1_pW h hp hw
  | rGet hr =>
    refine ⟨h.bl, ?_, ?_, h.rel, h.pgen, ?_⟩
    · have := h.lock; rw [hr] at this; simpa [RPc.holds] using this
    · simp [RPc.holds]
    · intro g hg; simp at hg; subst hg; exact Nat.le_refl _
  | rWake g hr hrd =>
    refine ⟨h.bl, ?_, ?_, h.rel, h.pgen, ?_⟩
    · have := h.lock; rw [hr] at this; simpa [RPc.holds, WPc.holds] using this
    · simp [RPc.holds, WPc.holds]
    · intro g hg; simp at hg
  | rW w a s1 w' fin hr hw => exact inv1_rW h hr hw

theorem inv1_reachable {c : Cfg} {free : List Nat} {oldest t0 : Nat} (hf : free.Nodup) {s : State}
    (h : Reachable c free oldest t0 s) : Inv1 s := by
  induction h with
  | init => exact inv1_init free oldest t0 hf
  | step a _ hs ih => exact inv1_Step ih (step_Step hs)

end BB.Syncer
