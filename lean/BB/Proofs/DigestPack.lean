import BB.Proofs.DigestStr
/-!
Helper lemmas for C20, part 3: the packed digest string.  `unpack (pack …)` returns the
components (the invariant of the `Digest` type), hence the accessors, the keys and the
ancestor list.
-/
namespace BB.Digest
open BB.Gen.Digest

theorem notDash_of_ne {c : Char} (h : c ≠ '-') : notDash c = true := by simp [notDash, h]

theorem notDash_dash : notDash '-' = false := by simp [notDash]

/-- Scanning from the end of `a` over a dash-free `run` stops at the dash. -/
theorem scanFrom_spec (a run rest : Str) (hrun : ∀ c ∈ run, notDash c = true) :
    scanFrom (a ++ (run ++ '-' :: rest)) a.length = some (run, a.length + run.length) := by
  have h1 : (a ++ (run ++ '-' :: rest)).drop a.length = run ++ '-' :: rest := List.drop_left
  have h2 : (run ++ '-' :: rest).takeWhile notDash = run := by
    rw [List.takeWhile_append_of_pos hrun, List.takeWhile_cons, notDash_dash]; simp
  simp only [scanFrom, h1, h2]
  rw [if_neg]
  simp only [List.length_append, List.length_cons]; omega

/-- The function digits of a packed string. -/
theorem fnDigits_toDec (fn : Nat) (hfn : fn < 100) (rest : Str) :
    fnDigits (toDec fn ++ '-' :: rest) = some (fn, (toDec fn).length + 1) := by
  by_cases h : fn < 10
  · rw [toDec_lt_10 fn h]
    simp [fnDigits, digitVal_digitChar fn h]
  · rw [toDec_lt_100 fn (by omega) hfn]
    have hd := isDigit_ne (digitChar_isDigit (fn % 10))
    simp only [List.cons_append, List.nil_append, fnDigits, digitVal_digitChar (fn / 10) (by omega),
      digitVal_digitChar (fn % 10) (by omega), if_neg hd.1, Option.map_some, List.length_cons, List.length_nil]
    congr 2; omega

/-- What `unpack` returns on a packed string. -/
def unpackedOf (fn : Nat) (hash : Str) (size : Nat) : Unpacked :=
  ⟨fn, (toDec fn).length + 1, (toDec fn).length + 1 + hash.length, size,
    (toDec fn).length + 1 + hash.length + 1 + (toDec size).length⟩

theorem toDec_notDash (n : Nat) : ∀ c ∈ toDec n, notDash c = true :=
  fun c hc => notDash_of_ne (isDigit_ne (toDec_digits n c hc)).1

theorem toDec_length_le (fn : Nat) (hfn : fn < 100) : 1 ≤ (toDec fn).length ∧ (toDec fn).length ≤ 2 := by
  by_cases h : fn < 10
  · rw [toDec_lt_10 fn h]; simp
  · rw [toDec_lt_100 fn (by omega) hfn]; simp

/-- **The invariant of the packed representation**: `unpack` recovers what `pack` was given,
for every function number below 100, every dash-free hash of at least
`shortestSupportedHashStringSize` bytes, every size and every instance name. -/
theorem unpack_pack (fn : Nat) (hfn : fn < 100) (hash : Str) (hh : ∀ c ∈ hash, notDash c = true)
    (hl : shortestSupportedHashStringSize ≤ hash.length) (size : Nat) (inst : Str) :
    unpack (pack fn hash size inst) = some (unpackedOf fn hash size) := by
  have hlen := toDec_length_le fn hfn
  have hshort : shortestSupportedHashStringSize = 32 := rfl
  rw [hshort] at hl
  -- first scan: from offset 32, inside the hash
  let k := 32 - ((toDec fn).length + 1)
  have hk : k ≤ hash.length := by simp only [k]; omega
  have hsplit : hash = hash.take k ++ hash.drop k := (List.take_append_drop k hash).symm
  have e1 : pack fn hash size inst =
      (toDec fn ++ '-' :: hash.take k) ++ (hash.drop k ++ '-' :: (toDec size ++ '-' :: inst)) := by
    have : hash ++ '-' :: (toDec size ++ '-' :: inst) =
        hash.take k ++ (hash.drop k ++ '-' :: (toDec size ++ '-' :: inst)) := by
      rw [← List.append_assoc, List.take_append_drop]
    simp only [pack, List.append_assoc, List.cons_append, this]
  have hA : (toDec fn ++ '-' :: hash.take k).length = 32 := by
    simp only [List.length_append, List.length_cons, List.length_take, k]; omega
  have s1 : scanFrom (pack fn hash size inst) 32 =
      some (hash.drop k, (toDec fn).length + 1 + hash.length) := by
    have := scanFrom_spec (toDec fn ++ '-' :: hash.take k) (hash.drop k) (toDec size ++ '-' :: inst)
      (fun c hc => hh c (List.mem_of_mem_drop hc))
    rw [← e1, hA] at this
    rw [this]
    simp only [List.length_drop, k]
    congr 2; omega
  -- second scan: over the size digits
  have e2 : pack fn hash size inst =
      (toDec fn ++ '-' :: (hash ++ ['-'])) ++ (toDec size ++ '-' :: inst) := by
    simp [pack]
  have hB : (toDec fn ++ '-' :: (hash ++ ['-'])).length = (toDec fn).length + 1 + hash.length + 1 := by
    simp only [List.length_append, List.length_cons, List.length_nil]; omega
  have s2 : scanFrom (pack fn hash size inst) ((toDec fn).length + 1 + hash.length + 1) =
      some (toDec size, (toDec fn).length + 1 + hash.length + 1 + (toDec size).length) := by
    have := scanFrom_spec (toDec fn ++ '-' :: (hash ++ ['-'])) (toDec size) inst (toDec_notDash size)
    rw [← e2, hB] at this
    exact this
  have s0 : fnDigits (pack fn hash size inst) = some (fn, (toDec fn).length + 1) := fnDigits_toDec fn hfn _
  simp only [unpack, s0, hshort, s1, s2, decVal_toDec, unpackedOf]

theorem hashOf_pack (fn : Nat) (hash : Str) (size : Nat) (inst : Str) :
    hashOf (pack fn hash size inst) (unpackedOf fn hash size) = hash := by
  have e : pack fn hash size inst = ((toDec fn ++ ['-']) ++ hash) ++ ('-' :: (toDec size ++ '-' :: inst)) := by
    simp [pack]
  have hlen : ((toDec fn ++ ['-']) ++ hash).length = (toDec fn).length + 1 + hash.length := by
    simp only [List.length_append, List.length_cons, List.length_nil]
  have hlen2 : (toDec fn ++ ['-']).length = (toDec fn).length + 1 := by simp
  simp only [hashOf, unpackedOf]
  rw [e, ← hlen, List.take_left, ← hlen2, List.drop_left]

theorem instOf_pack (fn : Nat) (hash : Str) (size : Nat) (inst : Str) :
    instOf (pack fn hash size inst) (unpackedOf fn hash size) = inst := by
  have e : pack fn hash size inst = (toDec fn ++ '-' :: (hash ++ '-' :: (toDec size ++ ['-']))) ++ inst := by
    simp [pack]
  have hlen : (toDec fn ++ '-' :: (hash ++ '-' :: (toDec size ++ ['-']))).length
      = (toDec fn).length + 1 + hash.length + 1 + (toDec size).length + 1 := by
    simp only [List.length_append, List.length_cons, List.length_nil]; omega
  simp only [instOf, unpackedOf]
  rw [e, ← hlen, List.drop_left]

/-- The key without instance name of a packed string. -/
def keyOf (fn : Nat) (hash : Str) (size : Nat) : Str := toDec fn ++ '-' :: (hash ++ '-' :: toDec size)

theorem take_sizeEnd_pack (fn : Nat) (hash : Str) (size : Nat) (inst : Str) :
    (pack fn hash size inst).take (unpackedOf fn hash size).sizeEnd = keyOf fn hash size := by
  have e : pack fn hash size inst = keyOf fn hash size ++ '-' :: inst := by simp [pack, keyOf]
  have hlen : (keyOf fn hash size).length = (toDec fn).length + 1 + hash.length + 1 + (toDec size).length := by
    simp only [keyOf, List.length_append, List.length_cons]; omega
  simp only [unpackedOf]
  rw [e, ← hlen, List.take_left]

theorem take_sizeEnd_succ_pack (fn : Nat) (hash : Str) (size : Nat) (inst : Str) :
    (pack fn hash size inst).take ((unpackedOf fn hash size).sizeEnd + 1) = pack fn hash size [] := by
  have e : pack fn hash size inst = pack fn hash size [] ++ inst := by simp [pack]
  have hlen : (pack fn hash size []).length = (toDec fn).length + 1 + hash.length + 1 + (toDec size).length + 1 := by
    simp only [pack, List.length_append, List.length_cons, List.length_nil]; omega
  simp only [unpackedOf]
  rw [e, ← hlen, List.take_left]

/-! ### `pack` is injective on well-formed components -/

/-- `keyOf` determines function, hash and size. -/
theorem keyOf_inj {fn fn' : Nat} (hfn : fn < 100) (hfn' : fn' < 100) {hash hash' : Str}
    (hh : ∀ c ∈ hash, notDash c = true) (hh' : ∀ c ∈ hash', notDash c = true)
    (hl : shortestSupportedHashStringSize ≤ hash.length) (hl' : shortestSupportedHashStringSize ≤ hash'.length)
    {size size' : Nat} (h : keyOf fn hash size = keyOf fn' hash' size') :
    fn = fn' ∧ hash = hash' ∧ size = size' := by
  have hp : pack fn hash size [] = pack fn' hash' size' [] := by
    have e : ∀ f h s, pack f h s [] = keyOf f h s ++ ['-'] := by intro f h s; simp [pack, keyOf]
    rw [e, e, h]
  have u := unpack_pack fn hfn hash hh hl size []
  have u' := unpack_pack fn' hfn' hash' hh' hl' size' []
  rw [hp, u'] at u
  have hu : unpackedOf fn' hash' size' = unpackedOf fn hash size := Option.some.inj u
  have hfn_eq : fn' = fn := congrArg Unpacked.fn hu
  have hsize_eq : size' = size := congrArg Unpacked.size hu
  have hh1 := hashOf_pack fn hash size []
  have hh2 := hashOf_pack fn' hash' size' []
  rw [← hp, hu, hh1] at hh2
  exact ⟨hfn_eq.symm, hh2, hsize_eq.symm⟩

theorem pack_inj {fn fn' : Nat} (hfn : fn < 100) (hfn' : fn' < 100) {hash hash' : Str}
    (hh : ∀ c ∈ hash, notDash c = true) (hh' : ∀ c ∈ hash', notDash c = true)
    (hl : shortestSupportedHashStringSize ≤ hash.length) (hl' : shortestSupportedHashStringSize ≤ hash'.length)
    {size size' : Nat} {inst inst' : Str} (h : pack fn hash size inst = pack fn' hash' size' inst') :
    fn = fn' ∧ hash = hash' ∧ size = size' ∧ inst = inst' := by
  have u := unpack_pack fn hfn hash hh hl size inst
  have u' := unpack_pack fn' hfn' hash' hh' hl' size' inst'
  rw [h, u'] at u
  have hu : unpackedOf fn' hash' size' = unpackedOf fn hash size := Option.some.inj u
  have hfn_eq : fn' = fn := congrArg Unpacked.fn hu
  have hsize_eq : size' = size := congrArg Unpacked.size hu
  have hh1 := hashOf_pack fn hash size inst
  have hh2 := hashOf_pack fn' hash' size' inst'
  rw [← h, hu, hh1] at hh2
  have hi1 := instOf_pack fn hash size inst
  have hi2 := instOf_pack fn' hash' size' inst'
  rw [← h, hu, hi1] at hi2
  exact ⟨hfn_eq.symm, hh2, hsize_eq.symm, hi2⟩

/-! ### Ancestors -/

/-- Removing the last component of `p ++ join (cs ++ [c])` (with `cs` non-empty). -/
theorem trimLast_join (p : Str) (cs : List Str) (c d : Str) (hd : Comp d) :
    trimLast (p ++ join (cs ++ [c, d])) = some (p ++ join (cs ++ [c])) := by
  -- join (cs ++ [c, d]) = join (cs ++ [c]) ++ '/' :: d
  have hj : ∀ cs : List Str, join (cs ++ [c, d]) = join (cs ++ [c]) ++ '/' :: d := by
    intro cs
    induction cs with
    | nil => simp [join]
    | cons x xs ih =>
      cases xs with
      | nil => simp [join]
      | cons y ys =>
        have := ih
        simp only [List.cons_append, join] at this ⊢
        rw [this]; simp
  rw [hj cs]
  obtain ⟨hne, hns⟩ := hd
  -- reverse: d.reverse ++ '/' :: rest
  cases hrev : d.reverse with
  | nil => exact absurd (List.reverse_eq_nil_iff.mp hrev) hne
  | cons l r =>
    have hr : ∀ x ∈ r, (!decide (x = '/')) = true := by
      intro x hx
      have : x ∈ d := by
        have : x ∈ d.reverse := by rw [hrev]; exact List.mem_cons_of_mem _ hx
        exact List.mem_reverse.mp this
      have : x ≠ '/' := fun e => hns (e ▸ this)
      simp [this]
    have e : (p ++ (join (cs ++ [c]) ++ '/' :: d)).reverse = l :: (r ++ '/' :: (p ++ join (cs ++ [c])).reverse) := by
      simp [hrev]
    simp only [trimLast, e]
    rw [List.dropWhile_append_of_pos hr, List.dropWhile_cons]
    simp

end BB.Digest
