import BB.Proofs.PersistRestore
/-!
# Restart: the loop of `NewPersistentBlockList` re-attaches every block of the state file
-/
namespace BB.Persist

theorem restore_spec (ss : Nat) : ∀ (bs : List BState) (free : List Nat) (p0 : PBL), free.Nodup →
    (bs.map (·.slot)).Nodup → (∀ b ∈ bs, b.slot ∈ free) →
    ∃ free', World.restore ss bs free p0 =
        ({ p0 with blocks := p0.blocks ++ bs.map (restoredBlk ss), seeds := p0.seeds ++ fseeds bs,
                   epochLast := p0.epochLast ++ expand p0.blocks.length (bs.map (restoredBlk ss)) }, free') ∧
      free'.Nodup ∧ ∀ x, x ∈ free' ↔ (x ∈ free ∧ x ∉ bs.map (·.slot)) := by
  intro bs
  induction bs with
  | nil =>
    intro free p0 hn _ _
    exact ⟨free, by simp [World.restore, fseeds, expand], hn, by simp⟩
  | cons b rest ih =>
    intro free p0 hn hs hin
    simp only [List.map_cons, List.nodup_cons] at hs
    obtain ⟨f1, ha, hn1, hm1⟩ := attach_spec hn (hin b (by simp))
    have hin1 : ∀ b' ∈ rest, b'.slot ∈ f1 := by
      intro b' hb'
      rw [hm1]
      refine ⟨hin b' (List.mem_cons_of_mem _ hb'), ?_⟩
      intro he
      exact hs.1 (List.mem_map.2 ⟨b', hb', he⟩)
    obtain ⟨f2, hr, hn2, hm2⟩ := ih f1 _ hn1 hs.2 hin1
    refine ⟨f2, ?_, hn2, ?_⟩
    · simp only [World.restore, ha]
      rw [hr]
      simp only [Prod.mk.injEq, and_true]
      simp only [List.length_append, List.length_cons, List.length_nil, List.map_cons, expand, restoredBlk, fseeds,
        List.flatten_cons, List.append_assoc, List.cons_append, List.nil_append, Nat.zero_add]
    · intro x
      rw [hm2, hm1]
      simp only [List.map_cons, List.mem_cons, not_or]
      constructor
      · rintro ⟨⟨h1, h2⟩, h3⟩; exact ⟨h1, h2, h3⟩
      · rintro ⟨h1, h2, h3⟩; exact ⟨⟨h1, h2⟩, h3⟩

/-- Under a state file whose blocks can all be re-attached, the restart builds `f.pbl`. -/
theorem restore_file (ss n : Nat) (f : SFile) (hs : (f.blocks.map (·.slot)).Nodup) (hr : ∀ b ∈ f.blocks, b.slot < n) :
    ∃ free', World.restore ss f.blocks (List.range n) {} = ({ f.pbl ss with oldestEpoch := 1, syncingEpochs := 0, syncedEpochs := 0 }, free') ∧
      free'.Nodup ∧ ∀ x, x ∈ free' ↔ (x < n ∧ x ∉ f.blocks.map (·.slot)) := by
  obtain ⟨free', h1, h2, h3⟩ := restore_spec ss f.blocks (List.range n) {} List.nodup_range hs
    (fun b hb => List.mem_range.2 (hr b hb))
  refine ⟨free', ?_, h2, fun x => by rw [h3, List.mem_range]⟩
  rw [h1]
  simp [SFile.pbl]

end BB.Persist
